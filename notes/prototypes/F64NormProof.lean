import Wk.F64
import Mathlib.Tactic.Linarith
import Mathlib.Tactic.Ring
import Mathlib.Tactic.Positivity

theorem log2_bounds (n : Nat) (h : 0 < n) : 2 ^ n.log2 ≤ n ∧ n < 2 ^ (n.log2 + 1) := by
  constructor
  · exact Nat.log2_self_le (by omega)
  · exact (Nat.log2_lt (by omega)).mp (by omega)

/-- pre-normalisation: A/B within a factor 2 below the target binade -/
theorem norm_pre (k num den : Nat) (hn : 0 < num) (hd : 0 < den) :
    let p := den.log2 + k - num.log2
    let q := num.log2 - (den.log2 + k)
    den * 2 ^ q * 2 ^ k < 2 * (num * 2 ^ p) ∧ num * 2 ^ p < den * 2 ^ q * 2 ^ (k + 1) := by
  obtain ⟨n1, n2⟩ := log2_bounds num hn
  obtain ⟨d1, d2⟩ := log2_bounds den hd
  simp only
  generalize num.log2 = ln at *
  generalize den.log2 = ld at *
  rcases Nat.le_total ln (ld + k) with hle | hle
  · obtain ⟨p, hp⟩ : ∃ p, ld + k = ln + p := ⟨ld + k - ln, by omega⟩
    have hp' : ld + k - ln = p := by omega
    have hq : ln - (ld + k) = 0 := by omega
    rw [hq, hp', pow_zero, mul_one]
    have e1 : (2:Nat) ^ ld * 2 ^ k = 2 ^ ln * 2 ^ p := by rw [← pow_add, ← pow_add, hp]
    have hP : 0 < (2:Nat) ^ p := by positivity
    have hK : 0 < (2:Nat) ^ k := by positivity
    rw [pow_succ] at n2 d2 ⊢
    constructor
    · calc den * 2 ^ k < (2 ^ ld * 2) * 2 ^ k := Nat.mul_lt_mul_of_pos_right d2 hK
        _ = 2 * (2 ^ ln * 2 ^ p) := by rw [← e1]; ring
        _ ≤ 2 * (num * 2 ^ p) := by
            apply Nat.mul_le_mul_left; exact Nat.mul_le_mul_right _ n1
    · calc num * 2 ^ p < (2 ^ ln * 2) * 2 ^ p := Nat.mul_lt_mul_of_pos_right n2 hP
        _ = 2 ^ ld * (2 ^ k * 2) := by rw [mul_right_comm, ← e1]; ring
        _ ≤ den * (2 ^ k * 2) := Nat.mul_le_mul_right _ d1
  · obtain ⟨q, hq⟩ : ∃ q, ln = ld + k + q := ⟨ln - (ld + k), by omega⟩
    have hq' : ln - (ld + k) = q := by omega
    have hp : ld + k - ln = 0 := by omega
    rw [hq', hp, pow_zero, mul_one]
    have e1 : (2:Nat) ^ ln = 2 ^ ld * 2 ^ k * 2 ^ q := by rw [hq, pow_add, pow_add]
    have hQ : 0 < (2:Nat) ^ q := by positivity
    have hK : 0 < (2:Nat) ^ k := by positivity
    rw [pow_succ] at n2 d2 ⊢
    constructor
    · calc den * 2 ^ q * 2 ^ k < (2 ^ ld * 2) * 2 ^ q * 2 ^ k := by
            apply Nat.mul_lt_mul_of_pos_right _ hK
            exact Nat.mul_lt_mul_of_pos_right d2 hQ
        _ = 2 * 2 ^ ln := by rw [e1]; ring
        _ ≤ 2 * num := Nat.mul_le_mul_left _ n1
    · calc num < 2 ^ ln * 2 := n2
        _ = 2 ^ ld * 2 ^ q * (2 ^ k * 2) := by rw [e1]; ring
        _ ≤ den * 2 ^ q * (2 ^ k * 2) := by
            apply Nat.mul_le_mul_right; exact Nat.mul_le_mul_right _ d1
#print axioms norm_pre
