import Wk.Basic

inductive VT where
  | leaf (v : Nat)
  | node (reps : List (List VT))

mutual
def encItem : Item → VT → List Byte
  | .attr _ sz, .leaf v => toLE sz v
  | .group _ its, .node reps => encReps its reps
  | _, _ => []
def encItems : List Item → List VT → List Byte
  | i :: is, v :: vs => encItem i v ++ encItems is vs
  | _, _ => []
def encReps (its : List Item) : List (List VT) → List Byte
  | [] => []
  | r :: rs => encItems its r ++ encReps its rs
end

mutual
def expItem (idx : List Nat) : Item → VT → Env
  | .attr n _, .leaf v => [((n, idx), v)]
  | .group _ its, .node reps => expReps idx its 1 reps
  | _, _ => []
def expItems (idx : List Nat) : List Item → List VT → Env
  | i :: is, v :: vs => expItem idx i v ++ expItems idx is vs
  | _, _ => []
def expReps (idx : List Nat) (its : List Item) : Nat → List (List VT) → Env
  | _, [] => []
  | i, r :: rs => expItems (idx ++ [i]) its r ++ expReps idx its (i+1) rs
end

mutual
def okItem : Item → VT → Bool
  | .attr _ sz, .leaf v => v < 256 ^ sz
  | .group (.fixed k) its, .node reps => reps.length == k && okReps its reps
  | .attr _ _, .node _ => false
  | .group (.named _) _, .node _ => false
  | .group (.fixed _) _, .leaf _ => false
  | .group (.named _) _, .leaf _ => false
def okItems : List Item → List VT → Bool
  | [], [] => true
  | i :: is, v :: vs => okItem i v && okItems is vs
  | _, _ => false
def okReps (its : List Item) : List (List VT) → Bool
  | [] => true
  | r :: rs => okItems its r && okReps its rs
end

def fresh (env : Env) (new : Env) : Prop :=
  (env ++ new).map (·.1) |>.Nodup

theorem set_fresh (env : Env) (n : AName) (v : Nat) (h : n ∉ env.map (·.1)) :
    env.set n v = env ++ [(n, v)] := by
  unfold Env.set
  have : env.any (fun p => p.1 == n) = false := by
    simp only [List.any_eq_false, beq_iff_eq]
    intro p hp heq
    exact h (by simp only [List.mem_map]; exact ⟨p, hp, heq⟩)
  simp [this]

theorem slice_mid (pre x post : List Byte) : slice (pre ++ x ++ post) pre.length x.length = x := by
  simp [slice]

mutual
theorem pItem_spec (idx : List Nat) (i : Item) (v : VT) (pre post : List Byte) (env : Env)
    (hok : okItem i v = true)
    (hf : fresh env (expItem idx i v)) (p : List Byte) (hp : p = pre ++ encItem i v ++ post) :
    pItem p idx i ⟨pre.length, env⟩ = .ok ⟨pre.length + (encItem i v).length, env ++ expItem idx i v⟩ := by
  match i, v with
  | .attr n sz, .leaf val =>
    simp only [okItem, decide_eq_true_eq] at hok
    simp only [pItem, encItem, expItem, toLE_length]
    subst hp
    have hs : slice (pre ++ toLE sz val ++ post) pre.length sz = toLE sz val := by
      have := slice_mid pre (toLE sz val) post
      simpa using this
    simp only [encItem] at *
    rw [hs, fromLE_toLE sz val hok]
    have hn : (n, idx) ∉ env.map (·.1) := by
      unfold fresh at hf
      simp only [expItem, List.map_append, List.map_cons, List.map_nil] at hf
      have := List.nodup_append.mp hf
      intro hmem
      exact this.2.2 _ hmem _ (List.mem_singleton.mpr rfl) rfl
    rw [set_fresh env _ _ hn]
  | .group (.fixed k) its, .node reps =>
    simp only [okItem, Bool.and_eq_true, beq_iff_eq] at hok
    simp only [pItem, encItem, expItem]
    have := pRep_spec idx its reps 1 pre post env hok.2 hf p hp
    rw [hok.1] at this
    exact this
  | .attr _ _, .node _ => simp [okItem] at hok
  | .group (.named _) _, .node _ => simp [okItem] at hok
  | .group (.fixed _) _, .leaf _ => simp [okItem] at hok
  | .group (.named _) _, .leaf _ => simp [okItem] at hok
theorem pItems_spec (idx : List Nat) (is : List Item) (vs : List VT) (pre post : List Byte) (env : Env)
    (hok : okItems is vs = true)
    (hf : fresh env (expItems idx is vs)) (p : List Byte) (hp : p = pre ++ encItems is vs ++ post) :
    pItems p idx is ⟨pre.length, env⟩ = .ok ⟨pre.length + (encItems is vs).length, env ++ expItems idx is vs⟩ := by
  match is, vs with
  | [], [] => simp [pItems, encItems, expItems]
  | i :: is', v :: vs' =>
    simp only [okItems, Bool.and_eq_true] at hok
    simp only [pItems, encItems, expItems]
    have hf1 : fresh env (expItem idx i v) := by
      unfold fresh at hf ⊢
      simp only [expItems, List.map_append] at hf ⊢
      rw [← List.append_assoc] at hf
      exact (List.nodup_append.mp hf).1
    have h1 := pItem_spec idx i v pre (encItems is' vs' ++ post) env hok.1 hf1 p
      (by rw [hp]; simp [encItems, List.append_assoc])
    rw [h1]
    have hf2 : fresh (env ++ expItem idx i v) (expItems idx is' vs') := by
      unfold fresh at hf ⊢
      simpa [expItems, List.append_assoc] using hf
    have h2 := pItems_spec idx is' vs' (pre ++ encItem i v) post (env ++ expItem idx i v) hok.2 hf2 p
      (by rw [hp]; simp [encItems, List.append_assoc])
    simp only [List.length_append] at h2
    simp only [h2]
    simp [List.append_assoc, Nat.add_assoc]
  | [], _ :: _ => simp [okItems] at hok
  | _ :: _, [] => simp [okItems] at hok
theorem pRep_spec (idx : List Nat) (its : List Item) (reps : List (List VT)) (start : Nat) (pre post : List Byte) (env : Env)
    (hok : okReps its reps = true)
    (hf : fresh env (expReps idx its start reps)) (p : List Byte) (hp : p = pre ++ encReps its reps ++ post) :
    pRep p idx its reps.length start ⟨pre.length, env⟩ = .ok ⟨pre.length + (encReps its reps).length, env ++ expReps idx its start reps⟩ := by
  match reps with
  | [] => simp [pRep, encReps, expReps]
  | r :: rs =>
    simp only [okReps, Bool.and_eq_true] at hok
    simp only [pRep, encReps, expReps, List.length_cons]
    have hf1 : fresh env (expItems (idx ++ [start]) its r) := by
      unfold fresh at hf ⊢
      simp only [expReps, List.map_append] at hf ⊢
      rw [← List.append_assoc] at hf
      exact (List.nodup_append.mp hf).1
    have h1 := pItems_spec (idx ++ [start]) its r pre (encReps its rs ++ post) env hok.1 hf1 p
      (by rw [hp]; simp [encReps, List.append_assoc])
    rw [h1]
    have hf2 : fresh (env ++ expItems (idx ++ [start]) its r) (expReps idx its (start+1) rs) := by
      unfold fresh at hf ⊢
      simpa [expReps, List.append_assoc] using hf
    have h2 := pRep_spec idx its rs (start+1) (pre ++ encItems its r) post (env ++ expItems (idx ++ [start]) its r) hok.2 hf2 p
      (by rw [hp]; simp [encReps, List.append_assoc])
    simp only [List.length_append] at h2
    simp only [h2]
    simp [List.append_assoc, Nat.add_assoc]
end
#print axioms pItems_spec
