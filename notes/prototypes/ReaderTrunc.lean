abbrev Byte := UInt8

inductive Proto where | ubx | nmea | rtcm
deriving DecidableEq, Repr
def Proto.bit : Proto → Nat
  | .nmea => 1 | .ubx => 2 | .rtcm => 4

inductive EKind where
  | stream | unknownHdr | rejected (p : Proto) (code : Nat)
deriving DecidableEq, Repr

structure Cfg where
  filter : Nat
  parsing : Bool

abbrev Oracle (α : Type) := Proto → List Byte → Except Nat α

/-- outcome of `_read_bytes` / `_read_line` : EOFError, UBXStreamError, or data -/
inductive Res (σ : Type) where
  | eof
  | short
  | ok (d : List Byte) (rest : σ)

/-- a byte source: `read n` and `readline` as `_read_bytes` / `_read_line` see them -/
structure Src (σ : Type) where
  read : Nat → σ → Res σ
  line : σ → Res σ

inductive Out (α : Type) where
  | eof | skip | err (k : EKind) | item (p : Proto) (raw : List Byte) (parsed : Option α)

variable {α σ : Type}

def finish (cfg : Cfg) (O : Oracle α) (p : Proto) (raw : List Byte) : Out α :=
  if cfg.filter &&& p.bit ≠ 0 then
    if cfg.parsing then
      match O p raw with
      | .ok m => .item p raw (some m)
      | .error c => .err (.rejected p c)
    else .item p raw none
  else .skip

def le16 (a b : Byte) : Nat := a.toNat + 256 * b.toNat
def ubxLen (h : List Byte) : Nat := le16 (h.getD 2 0) (h.getD 3 0) + 2
def rtcmLen (d3 d2 : List Byte) : Nat := (d3.getD 0 0).toNat + 256 * (d2.getD 0 0).toNat
def isPre (b : Byte) : Bool := b = 0xb5 || b = 0x24 || b = 0xd3

/-- one pass of the `while parsing:` loop body of `UBXReader.read`;
    `none` state = the stream is dead (EOFError seen, or short read: nothing further can arrive) -/
def step (S : Src σ) (nmeaHdr : Byte → Bool) (cfg : Cfg) (O : Oracle α) (s : σ) : Out α × Option σ :=
  match S.read 1 s with
  | .eof => (.eof, none)
  | .short => (.err .stream, none)
  | .ok d1 s1 =>
    let b1 := d1.getD 0 0
    if !isPre b1 then (.skip, some s1) else
    match S.read 1 s1 with
    | .eof => (.eof, none)
    | .short => (.err .stream, none)
    | .ok d2 s2 =>
      let b2 := d2.getD 0 0
      if b1 = 0xb5 ∧ b2 = 0x62 then
        match S.read 4 s2 with
        | .eof => (.eof, none)
        | .short => (.err .stream, none)
        | .ok h s3 =>
          match S.read (ubxLen h) s3 with
          | .eof => (.eof, none)
          | .short => (.err .stream, none)
          | .ok body s4 => (finish cfg O .ubx (d1 ++ d2 ++ h ++ body), some s4)
      else if b1 = 0x24 ∧ nmeaHdr b2 then
        match S.line s2 with
        | .eof => (.eof, none)
        | .short => (.err .stream, none)
        | .ok l s3 => (finish cfg O .nmea (d1 ++ d2 ++ l), some s3)
      else if b1 = 0xd3 ∧ b2 &&& 0xfc = 0 then
        match S.read 1 s2 with
        | .eof => (.eof, none)
        | .short => (.err .stream, none)
        | .ok d3 s3 =>
          match S.read (rtcmLen d3 d2) s3 with
          | .eof => (.eof, none)
          | .short => (.err .stream, none)
          | .ok pl s4 =>
            match S.read 3 s4 with
            | .eof => (.eof, none)
            | .short => (.err .stream, none)
            | .ok crc s5 => (finish cfg O .rtcm (d1 ++ d2 ++ d3 ++ pl ++ crc), some s5)
      else (.err .unknownHdr, some s2)

/-- "dead" outcomes: nothing is delivered and the source yields nothing afterwards -/
def Out.dead : Out α → Bool
  | .eof => true
  | .err .stream => true
  | _ => false

/-- `T` is a truncation-simulation between two sources:
    whatever the full source answers, the truncated one answers the same with related rest, or fails -/
structure TruncSim (S₁ : Src σ) {τ : Type} (S₂ : Src τ) (R : σ → τ → Prop) : Prop where
  read : ∀ n s t, R s t →
    match S₁.read n s with
    | .ok d s' => (∃ t', S₂.read n t = .ok d t' ∧ R s' t') ∨ S₂.read n t = .eof ∨ S₂.read n t = .short
    | _ => S₂.read n t = .eof ∨ S₂.read n t = .short
  line : ∀ s t, R s t →
    match S₁.line s with
    | .ok d s' => (∃ t', S₂.line t = .ok d t' ∧ R s' t') ∨ S₂.line t = .eof ∨ S₂.line t = .short
    | _ => S₂.line t = .eof ∨ S₂.line t = .short

theorem step_trunc {τ : Type} (S₁ : Src σ) (S₂ : Src τ) (R : σ → τ → Prop) (T : TruncSim S₁ S₂ R)
    (nmeaHdr) (cfg : Cfg) (O : Oracle α) (s : σ) (t : τ) (h : R s t) :
    (∃ t', step S₂ nmeaHdr cfg O t = ((step S₁ nmeaHdr cfg O s).1, some t') ∧
        ∃ s', (step S₁ nmeaHdr cfg O s).2 = some s' ∧ R s' t')
    ∨ ((step S₂ nmeaHdr cfg O t).1.dead = true ∧ (step S₂ nmeaHdr cfg O t).2 = none) := by
  unfold step
  have r1 := T.read 1 s t h
  cases h1 : S₁.read 1 s with
  | eof => rw [h1] at r1; rcases r1 with e | e <;> (right; simp [e, Out.dead])
  | short => rw [h1] at r1; rcases r1 with e | e <;> (right; simp [e, Out.dead])
  | ok d1 s1 =>
    rw [h1] at r1
    rcases r1 with ⟨t1, e1, R1⟩ | e | e
    case inr.inl => right; simp [e, Out.dead]
    case inr.inr => right; simp [e, Out.dead]
    simp only [e1]
    split
    · left; exact ⟨t1, rfl, s1, rfl, R1⟩
    · have r2 := T.read 1 s1 t1 R1
      cases h2 : S₁.read 1 s1 with
      | eof => rw [h2] at r2; rcases r2 with e | e <;> (right; simp [e, Out.dead])
      | short => rw [h2] at r2; rcases r2 with e | e <;> (right; simp [e, Out.dead])
      | ok d2 s2 =>
        rw [h2] at r2
        rcases r2 with ⟨t2, e2, R2⟩ | e | e
        case inr.inl => right; simp [e, Out.dead]
        case inr.inr => right; simp [e, Out.dead]
        simp only [e2]
        split
        · -- UBX
          have r3 := T.read 4 s2 t2 R2
          cases h3 : S₁.read 4 s2 with
          | eof => rw [h3] at r3; rcases r3 with e | e <;> (right; simp [e, Out.dead])
          | short => rw [h3] at r3; rcases r3 with e | e <;> (right; simp [e, Out.dead])
          | ok hd s3 =>
            rw [h3] at r3
            rcases r3 with ⟨t3, e3, R3⟩ | e | e
            case inr.inl => right; simp [e, Out.dead]
            case inr.inr => right; simp [e, Out.dead]
            simp only [e3]
            have r4 := T.read (ubxLen hd) s3 t3 R3
            cases h4 : S₁.read (ubxLen hd) s3 with
            | eof => rw [h4] at r4; rcases r4 with e | e <;> (right; simp [e, Out.dead])
            | short => rw [h4] at r4; rcases r4 with e | e <;> (right; simp [e, Out.dead])
            | ok body s4 =>
              rw [h4] at r4
              rcases r4 with ⟨t4, e4, R4⟩ | e | e
              case inr.inl => right; simp [e, Out.dead]
              case inr.inr => right; simp [e, Out.dead]
              simp only [e4]
              left; exact ⟨t4, rfl, s4, rfl, R4⟩
        · split
          · -- NMEA
            have r3 := T.line s2 t2 R2
            cases h3 : S₁.line s2 with
            | eof => rw [h3] at r3; rcases r3 with e | e <;> (right; simp [e, Out.dead])
            | short => rw [h3] at r3; rcases r3 with e | e <;> (right; simp [e, Out.dead])
            | ok l s3 =>
              rw [h3] at r3
              rcases r3 with ⟨t3, e3, R3⟩ | e | e
              case inr.inl => right; simp [e, Out.dead]
              case inr.inr => right; simp [e, Out.dead]
              simp only [e3]
              left; exact ⟨t3, rfl, s3, rfl, R3⟩
          · split
            · -- RTCM
              have r3 := T.read 1 s2 t2 R2
              cases h3 : S₁.read 1 s2 with
              | eof => rw [h3] at r3; rcases r3 with e | e <;> (right; simp [e, Out.dead])
              | short => rw [h3] at r3; rcases r3 with e | e <;> (right; simp [e, Out.dead])
              | ok d3 s3 =>
                rw [h3] at r3
                rcases r3 with ⟨t3, e3, R3⟩ | e | e
                case inr.inl => right; simp [e, Out.dead]
                case inr.inr => right; simp [e, Out.dead]
                simp only [e3]
                have r4 := T.read (rtcmLen d3 d2) s3 t3 R3
                cases h4 : S₁.read (rtcmLen d3 d2) s3 with
                | eof => rw [h4] at r4; rcases r4 with e | e <;> (right; simp [e, Out.dead])
                | short => rw [h4] at r4; rcases r4 with e | e <;> (right; simp [e, Out.dead])
                | ok pl s4 =>
                  rw [h4] at r4
                  rcases r4 with ⟨t4, e4, R4⟩ | e | e
                  case inr.inl => right; simp [e, Out.dead]
                  case inr.inr => right; simp [e, Out.dead]
                  simp only [e4]
                  have r5 := T.read 3 s4 t4 R4
                  cases h5 : S₁.read 3 s4 with
                  | eof => rw [h5] at r5; rcases r5 with e | e <;> (right; simp [e, Out.dead])
                  | short => rw [h5] at r5; rcases r5 with e | e <;> (right; simp [e, Out.dead])
                  | ok crc s5 =>
                    rw [h5] at r5
                    rcases r5 with ⟨t5, e5, R5⟩ | e | e
                    case inr.inl => right; simp [e, Out.dead]
                    case inr.inr => right; simp [e, Out.dead]
                    simp only [e5]
                    left; exact ⟨t5, rfl, s5, rfl, R5⟩
            · left; exact ⟨t2, rfl, s2, rfl, R2⟩
#print axioms step_trunc

/-- the whole iteration: trace of loop passes until EOF. `none` = dead stream. -/
def run (S : Src σ) (nmeaHdr : Byte → Bool) (cfg : Cfg) (O : Oracle α) : Nat → Option σ → List (Out α)
  | 0, _ => []
  | _+1, none => [.eof]
  | f+1, some s =>
    match step S nmeaHdr cfg O s with
    | (.eof, _) => [.eof]
    | (o, s') => o :: run S nmeaHdr cfg O f s'

def Out.asItem : Out α → Option (Proto × List Byte × Option α)
  | .item p raw m => some (p, raw, m)
  | _ => none

def items (tr : List (Out α)) : List (Proto × List Byte × Option α) := tr.filterMap Out.asItem

theorem items_dead_run (S : Src σ) (nmeaHdr) (cfg : Cfg) (O : Oracle α) (f : Nat) :
    items (run S nmeaHdr cfg O f none) = [] := by
  cases f <;> simp [run, items, Out.asItem]

/-- C09 / C10 engine: a truncated source delivers a prefix of what the full source delivers -/
theorem run_trunc_prefix {τ : Type} (S₁ : Src σ) (S₂ : Src τ) (R : σ → τ → Prop) (T : TruncSim S₁ S₂ R)
    (nmeaHdr) (cfg : Cfg) (O : Oracle α) (f : Nat) (s : σ) (t : τ) (h : R s t) :
    items (run S₂ nmeaHdr cfg O f (some t)) <+: items (run S₁ nmeaHdr cfg O f (some s)) := by
  induction f generalizing s t with
  | zero => simp [run, items]
  | succ f ih =>
    rcases step_trunc S₁ S₂ R T nmeaHdr cfg O s t h with ⟨t', e2, s', e1, R'⟩ | ⟨hd, hn⟩
    · -- lock-step
      have e1' : step S₁ nmeaHdr cfg O s = ((step S₁ nmeaHdr cfg O s).1, some s') := by
        rw [← e1]
      generalize (step S₁ nmeaHdr cfg O s).1 = o at e1' e2
      simp only [run, e1', e2]
      cases o with
      | eof => simp [items]
      | skip =>
        simp only [items, List.filterMap_cons, Out.asItem]
        exact ih s' t' R'
      | err k =>
        simp only [items, List.filterMap_cons, Out.asItem]
        exact ih s' t' R'
      | item p raw m =>
        simp only [items, List.filterMap_cons, Out.asItem]
        exact List.prefix_cons_inj _ |>.mpr (ih s' t' R')
    · -- truncated side is dead: it delivers nothing
      have : items (run S₂ nmeaHdr cfg O (f+1) (some t)) = [] := by
        simp only [run]
        generalize hst : step S₂ nmeaHdr cfg O t = st at hd hn
        obtain ⟨o, r⟩ := st
        simp only at hd hn
        subst hn
        cases o with
        | eof => simp [items, Out.asItem]
        | skip => simp [Out.dead] at hd
        | item p raw m => simp [Out.dead] at hd
        | err k =>
          cases k with
          | stream =>
            simp only [items, List.filterMap_cons, Out.asItem]
            exact items_dead_run S₂ nmeaHdr cfg O f
          | unknownHdr => simp [Out.dead] at hd
          | rejected p c => simp [Out.dead] at hd
      rw [this]
      exact List.nil_prefix
#print axioms run_trunc_prefix
