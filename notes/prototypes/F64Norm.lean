/-! exact binary rounding over naturals (Mathlib-free, executable); k = 52 for binary64 -/

def rhe (a b : Nat) : Nat :=
  let q := a / b
  let r := a % b
  if 2 * r < b then q else if b < 2 * r then q + 1 else if q % 2 = 0 then q else q + 1

/-- normalise num/den (>0) as A/B * 2^q / 2^p with  B*2^k ≤ A < B*2^(k+1) -/
def norm (k num den : Nat) : Nat × Nat × Nat × Nat :=
  let ln := num.log2
  let ld := den.log2
  let p := ld + k - ln
  let q := ln - (ld + k)
  let A := num * 2 ^ p
  let B := den * 2 ^ q
  if A < B * 2 ^ k then (2 * A, B, q, p + 1) else (A, B, q, p)

def rnPos (k num den : Nat) : Nat × Nat × Nat :=
  let (A, B, q, p) := norm k num den
  (rhe A B, q, p)
