abbrev Byte := UInt8

inductive Proto where | ubx | nmea | rtcm
deriving DecidableEq, Repr

def Proto.bit : Proto → Nat
  | .nmea => 1 | .ubx => 2 | .rtcm => 4

inductive EKind where
  | stream            -- UBXStreamError: short read
  | unknownHdr        -- UBXParseError: unknown protocol header
  | rejected (p : Proto) (code : Nat)   -- protocol parser refused the frame
deriving DecidableEq, Repr

structure Cfg where
  filter : Nat
  parsing : Bool
deriving Repr

/-- protocol parsers as uninterpreted parameters -/
abbrev Oracle (α : Type) := Proto → List Byte → Except Nat α

inductive Out (α : Type) where
  | eof
  | skip
  | err (k : EKind)
  | item (p : Proto) (raw : List Byte) (parsed : Option α)

/-- result of `stream.read(n)` on a BytesIO followed by `_read_bytes`'s classification -/
inductive RR where
  | eof
  | short
  | ok (d rest : List Byte)

def readN (n : Nat) (s : List Byte) : RR :=
  let d := s.take n
  if d.length = 0 then .eof else if d.length < n then .short else .ok d (s.drop n)

def lineLen : List Byte → Nat
  | [] => 0
  | b :: bs => if b = 0x0a then 1 else 1 + lineLen bs

def readLine (s : List Byte) : RR :=
  let d := s.take (lineLen s)
  if d.length = 0 then .eof else if d.getLast? ≠ some 0x0a then .short else .ok d (s.drop (lineLen s))

variable {α : Type}

def finish (cfg : Cfg) (O : Oracle α) (p : Proto) (raw rest : List Byte) : Out α × List Byte :=
  if cfg.filter &&& p.bit ≠ 0 then
    if cfg.parsing then
      match O p raw with
      | .ok m => (.item p raw (some m), rest)
      | .error c => (.err (.rejected p c), rest)
    else (.item p raw none, rest)
  else (.skip, rest)

def le16 (a b : Byte) : Nat := a.toNat + 256 * b.toNat


def read1 : List Byte → Option (Byte × List Byte)
  | [] => none
  | b :: bs => some (b, bs)

def isPre (b : Byte) : Bool := b = 0xb5 || b = 0x24 || b = 0xd3

def step (nmeaHdr : Byte → Bool) (cfg : Cfg) (O : Oracle α) (s : List Byte) : Out α × List Byte :=
  match read1 s with
  | none => (.eof, s)
  | some (b1, s1) =>
    if !isPre b1 then (.skip, s1) else
    match read1 s1 with
    | none => (.eof, s1)
    | some (b2, s2) =>
      if b1 = 0xb5 ∧ b2 = 0x62 then
        match readN 4 s2 with
        | .eof => (.eof, s2)
        | .short => (.err .stream, [])
        | .ok h s3 =>
          match readN (le16 (h.getD 2 0) (h.getD 3 0) + 2) s3 with
          | .eof => (.eof, s3)
          | .short => (.err .stream, [])
          | .ok body s4 => finish cfg O .ubx ([b1, b2] ++ h ++ body) s4
      else if b1 = 0x24 ∧ nmeaHdr b2 then
        match readLine s2 with
        | .eof => (.eof, s2)
        | .short => (.err .stream, [])
        | .ok line s3 => finish cfg O .nmea ([b1, b2] ++ line) s3
      else if b1 = 0xd3 ∧ b2 &&& 0xfc = 0 then
        match read1 s2 with
        | none => (.eof, s2)
        | some (h3, s3) =>
          match readN (h3.toNat + 256 * b2.toNat) s3 with
          | .eof => (.eof, s3)      -- includes size = 0 (the defect)
          | .short => (.err .stream, [])
          | .ok pl s4 =>
            match readN 3 s4 with
            | .eof => (.eof, s4)
            | .short => (.err .stream, [])
            | .ok crc s5 => finish cfg O .rtcm ([b1, b2, h3] ++ pl ++ crc) s5
      else (.err .unknownHdr, s2)

/-! ### basic facts about the stream primitives -/

theorem readN_ok {n : Nat} {s d r : List Byte} (h : readN n s = .ok d r) :
    s = d ++ r ∧ d.length = n ∧ 0 < n := by
  unfold readN at h
  simp only at h
  split at h
  · cases h
  · split at h
    · cases h
    · cases h
      rename_i h1 h2
      simp only [List.length_take] at h1 h2
      refine ⟨(List.take_append_drop n s).symm, ?_, ?_⟩
      · simp only [List.length_take]; omega
      · omega

theorem readN_short {n : Nat} {s : List Byte} (h : readN n s = .short) : 0 < s.length ∧ s.length < n := by
  unfold readN at h
  simp only at h
  split at h
  · cases h
  · split at h
    · rename_i h1 h2
      simp only [List.length_take] at h1 h2
      omega
    · cases h

theorem lineLen_le (s : List Byte) : lineLen s ≤ s.length := by
  induction s with
  | nil => simp [lineLen]
  | cons b bs ih => simp only [lineLen]; split <;> simp <;> omega

theorem lineLen_pos {s : List Byte} (h : s ≠ []) : 0 < lineLen s := by
  cases s with
  | nil => exact absurd rfl h
  | cons b bs => simp only [lineLen]; split <;> omega

theorem readLine_ok {s d r : List Byte} (h : readLine s = .ok d r) : s = d ++ r ∧ 0 < d.length := by
  unfold readLine at h
  simp only at h
  split at h
  · cases h
  · split at h
    · cases h
    · cases h
      exact ⟨(List.take_append_drop _ s).symm, by omega⟩

/-- what a step does to the stream -/
theorem finish_rest (cfg : Cfg) (O : Oracle α) (p : Proto) (raw rest : List Byte) :
    (finish cfg O p raw rest).2 = rest := by
  unfold finish; split
  · split
    · split <;> rfl
    · rfl
  · rfl

theorem finish_item (cfg : Cfg) (O : Oracle α) (p : Proto) (raw rest : List Byte) {q raw' m} :
    (finish cfg O p raw rest).1 = .item q raw' m → q = p ∧ raw' = raw := by
  unfold finish; split
  · split
    · split
      · intro h; cases h; exact ⟨rfl, rfl⟩
      · intro h; cases h
    · intro h; cases h; exact ⟨rfl, rfl⟩
  · intro h; cases h

/-- C07 core: every non-eof step consumes a non-empty prefix; an item is exactly that prefix -/
theorem step_consumes (nmeaHdr) (cfg : Cfg) (O : Oracle α) (s : List Byte) :
    (step nmeaHdr cfg O s).1 = .eof ∨
    (∃ pre, pre ≠ [] ∧ s = pre ++ (step nmeaHdr cfg O s).2 ∧
       ∀ p raw m, (step nmeaHdr cfg O s).1 = .item p raw m → raw = pre) ∨
    (∃ k, (step nmeaHdr cfg O s).1 = .err k ∧ (step nmeaHdr cfg O s).2 = [] ∧ s ≠ []) := by
  unfold step
  cases s with
  | nil => simp [read1]
  | cons b1 s1 =>
    simp only [read1]
    split
    · right; left; exact ⟨[b1], by simp, by simp, by intro p raw m h; cases h⟩
    · cases s1 with
      | nil => simp [read1]
      | cons b2 s2 =>
        simp only [read1]
        split
        · -- UBX
          split
          · simp
          · right; right; exact ⟨_, rfl, rfl, by simp⟩
          · rename_i h s3 hh
            obtain ⟨e1, _, _⟩ := readN_ok hh
            split
            · simp
            · right; right; exact ⟨_, rfl, rfl, by simp⟩
            · rename_i body s4 hb
              obtain ⟨e2, _, _⟩ := readN_ok hb
              right; left
              refine ⟨[b1, b2] ++ h ++ body, by simp, ?_, ?_⟩
              · rw [finish_rest, e1, e2]; simp
              · intro p raw m hm; exact (finish_item _ _ _ _ _ hm).2
        · split
          · -- NMEA
            split
            · simp
            · right; right; exact ⟨_, rfl, rfl, by simp⟩
            · rename_i line s3 hl
              obtain ⟨e1, _⟩ := readLine_ok hl
              right; left
              refine ⟨[b1, b2] ++ line, by simp, ?_, ?_⟩
              · rw [finish_rest, e1]; simp
              · intro p raw m hm; exact (finish_item _ _ _ _ _ hm).2
          · split
            · -- RTCM
              cases s2 with
              | nil => simp [read1]
              | cons h3 s3 =>
                simp only [read1]
                split
                · simp
                · right; right; exact ⟨_, rfl, rfl, by simp⟩
                · rename_i pl s4 hp
                  obtain ⟨e1, _, _⟩ := readN_ok hp
                  split
                  · simp
                  · right; right; exact ⟨_, rfl, rfl, by simp⟩
                  · rename_i crc s5 hc
                    obtain ⟨e2, _, _⟩ := readN_ok hc
                    right; left
                    refine ⟨[b1, b2, h3] ++ pl ++ crc, by simp, ?_, ?_⟩
                    · rw [finish_rest, e1, e2]; simp
                    · intro p raw m hm; exact (finish_item _ _ _ _ _ hm).2
            · right; left
              exact ⟨[b1, b2], by simp, by simp, by intro p raw m h; cases h⟩
#print axioms step_consumes
