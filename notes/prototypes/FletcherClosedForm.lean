abbrev Byte := UInt8

/-- `calc_checksum` as written: running sums masked to 8 bits -/
def cksum (bs : List Byte) : Nat × Nat :=
  bs.foldl (fun (ab : Nat × Nat) c => let a := (ab.1 + c.toNat) % 256; (a, (ab.2 + a) % 256)) (0, 0)

/-- textbook 8-bit Fletcher: plain sums, reduced once at the end -/
def sumA : List Byte → Nat
  | [] => 0
  | b :: bs => b.toNat + sumA bs
/-- Σ (n - i) * b_i  (the first byte is counted n times) -/
def sumB : List Byte → Nat
  | [] => 0
  | b :: bs => (bs.length + 1) * b.toNat + sumB bs

theorem cksum_gen (bs : List Byte) (a b : Nat) :
    bs.foldl (fun (ab : Nat × Nat) c => let a := (ab.1 + c.toNat) % 256; (a, (ab.2 + a) % 256)) (a % 256, b % 256)
      = ((a + sumA bs) % 256, (b + bs.length * a + sumB bs) % 256) := by
  induction bs generalizing a b with
  | nil => simp [sumA, sumB]
  | cons c cs ih =>
    simp only [List.foldl_cons, sumA, sumB, List.length_cons]
    have h1 : (a % 256 + c.toNat) % 256 = (a + c.toNat) % 256 := by omega
    have h2 : (b % 256 + (a % 256 + c.toNat) % 256) % 256 = (b + (a + c.toNat)) % 256 := by omega
    rw [h2, h1, ih (a + c.toNat) (b + (a + c.toNat))]
    congr 1
    · rw [Nat.add_assoc]
    · congr 1
      simp only [Nat.mul_add, Nat.add_mul, Nat.one_mul]
      omega

theorem cksum_closed (bs : List Byte) : cksum bs = (sumA bs % 256, sumB bs % 256) := by
  have := cksum_gen bs 0 0
  simpa [cksum] using this
#print axioms cksum_closed
