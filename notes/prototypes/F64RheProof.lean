import Wk.F64
import Mathlib.Tactic.Linarith
import Mathlib.Tactic.Ring
import Mathlib.Tactic.NormNum
import Mathlib.Tactic.Positivity
import Mathlib.Tactic.FieldSimp
import Mathlib.Algebra.Order.Field.Basic
import Mathlib.Data.Rat.Defs
import Mathlib.Algebra.Order.Field.Power

theorem rhe_spec (a b : Nat) (hb : 0 < b) :
    2 * (rhe a b) * b ≤ 2 * a + b ∧ 2 * a ≤ 2 * (rhe a b) * b + b := by
  unfold rhe
  have h1 := Nat.div_add_mod a b
  have h2 := Nat.mod_lt a hb
  simp only
  generalize a / b = q at *
  generalize a % b = r at *
  split
  · constructor <;> nlinarith
  · split
    · constructor <;> nlinarith
    · split
      · constructor <;> nlinarith
      · constructor <;> nlinarith

/-- |rhe a b - a/b| ≤ 1/2 over ℚ -/
theorem rhe_abs (a b : Nat) (hb : 0 < b) :
    |((rhe a b : ℕ) : ℚ) - (a : ℚ) / b| ≤ 1 / 2 := by
  obtain ⟨h1, h2⟩ := rhe_spec a b hb
  have hbq : (0 : ℚ) < b := by exact_mod_cast hb
  have h1q : (2 : ℚ) * (rhe a b) * b ≤ 2 * a + b := by exact_mod_cast h1
  have h2q : (2 : ℚ) * a ≤ 2 * (rhe a b) * b + b := by exact_mod_cast h2
  have hx : (a : ℚ) / b * b = a := div_mul_cancel₀ _ (ne_of_gt hbq)
  generalize (a : ℚ) / b = x at hx ⊢
  generalize ((rhe a b : ℕ) : ℚ) = m at h1q h2q ⊢
  rw [← hx] at h1q h2q
  have k1 : 2 * m ≤ 2 * x + 1 := by
    by_contra hc
    push_neg at hc
    have := mul_lt_mul_of_pos_right hc hbq
    nlinarith
  have k2 : 2 * x ≤ 2 * m + 1 := by
    by_contra hc
    push_neg at hc
    have := mul_lt_mul_of_pos_right hc hbq
    nlinarith
  rw [abs_le]
  constructor <;> linarith
#print axioms rhe_abs
