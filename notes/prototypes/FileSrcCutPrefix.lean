import Wk.R2

/-- io.BytesIO as seen through `_read_bytes` / `_read_line` -/
def fileRead (n : Nat) (s : List Byte) : Res (List Byte) :=
  if n = 0 ∨ s.length = 0 then .eof        -- `read` returned b"" (nothing left, or nothing asked for)
  else if s.length < n then .short          -- fewer bytes than asked for: UBXStreamError, stream now empty
  else .ok (s.take n) (s.drop n)

theorem fileRead_eof {n : Nat} {s : List Byte} (h : n = 0 ∨ s.length = 0) : fileRead n s = .eof := by
  unfold fileRead; rw [if_pos h]
theorem fileRead_short {n : Nat} {s : List Byte} (h : ¬(n = 0 ∨ s.length = 0)) (h2 : s.length < n) :
    fileRead n s = .short := by
  unfold fileRead; rw [if_neg h, if_pos h2]
theorem fileRead_ok {n : Nat} {s : List Byte} (h : ¬(n = 0 ∨ s.length = 0)) (h2 : ¬ s.length < n) :
    fileRead n s = .ok (s.take n) (s.drop n) := by
  unfold fileRead; rw [if_neg h, if_neg h2]

def lineLen : List Byte → Nat
  | [] => 0
  | b :: bs => if b = 0x0a then 1 else 1 + lineLen bs

def hasLF : List Byte → Bool
  | [] => false
  | b :: bs => b = 0x0a || hasLF bs

def fileLine (s : List Byte) : Res (List Byte) :=
  if s = [] then .eof else if hasLF s then .ok (s.take (lineLen s)) (s.drop (lineLen s)) else .short

def fileSrc : Src (List Byte) := ⟨fileRead, fileLine⟩

theorem lineLen_le (s : List Byte) : lineLen s ≤ s.length := by
  induction s with
  | nil => simp [lineLen]
  | cons b bs ih => simp only [lineLen]; split <;> simp <;> omega

/-- a prefix either contains the whole first line, or contains no LF at all -/
theorem prefix_line (s t : List Byte) (h : t <+: s) (hs : hasLF s = true) :
    (hasLF t = true ∧ lineLen t = lineLen s) ∨ (hasLF t = false ∧ t.length < lineLen s) := by
  induction s generalizing t with
  | nil => simp [hasLF] at hs
  | cons b bs ih =>
    cases t with
    | nil => right; simp only [hasLF, lineLen, List.length_nil, true_and]; split <;> omega
    | cons c cs =>
      have hc : c = b := (List.cons_prefix_cons.mp h).1
      have hcs : cs <+: bs := (List.cons_prefix_cons.mp h).2
      subst hc
      simp only [hasLF, lineLen]
      by_cases hb : c = 0x0a
      · left; simp [hb]
      · simp only [hb, decide_false, Bool.false_or, if_false]
        simp only [hasLF, hb, decide_false, Bool.false_or] at hs
        rcases ih cs hcs hs with ⟨h1, h2⟩ | ⟨h1, h2⟩
        · left; exact ⟨h1, by omega⟩
        · right; exact ⟨h1, by simp only [List.length_cons]; omega⟩

theorem prefix_noLF (s t : List Byte) (h : t <+: s) (hs : hasLF s = false) : hasLF t = false := by
  induction s generalizing t with
  | nil => have := List.prefix_nil.mp h; subst this; rfl
  | cons b bs ih =>
    cases t with
    | nil => rfl
    | cons c cs =>
      have hc : c = b := (List.cons_prefix_cons.mp h).1
      have hcs : cs <+: bs := (List.cons_prefix_cons.mp h).2
      subst hc
      simp only [hasLF, Bool.or_eq_false_iff] at hs ⊢
      exact ⟨hs.1, ih cs hcs hs.2⟩

/-- C09: a cut stream is a truncation of the full stream -/
theorem file_trunc : TruncSim fileSrc fileSrc (fun s t => t <+: s) where
  read := by
    intro n s t h
    obtain ⟨u, rfl⟩ := h
    dsimp only [fileSrc]
    by_cases h0 : n = 0 ∨ (t ++ u).length = 0
    · rw [fileRead_eof h0]
      left; apply fileRead_eof
      simp only [List.length_append] at h0; omega
    · by_cases h1 : (t ++ u).length < n
      · rw [fileRead_short h0 h1]
        simp only [List.length_append] at h0 h1
        by_cases h2 : n = 0 ∨ t.length = 0
        · left; exact fileRead_eof h2
        · right; exact fileRead_short h2 (by omega)
      · rw [fileRead_ok h0 h1]
        simp only [List.length_append] at h0 h1
        by_cases h2 : n = 0 ∨ t.length = 0
        · right; left; exact fileRead_eof h2
        · by_cases h3 : t.length < n
          · right; right; exact fileRead_short h2 h3
          · left
            have hn : n ≤ t.length := by omega
            refine ⟨t.drop n, ?_, ?_⟩
            · rw [fileRead_ok h2 h3, List.take_append_of_le_length hn]
            · rw [List.drop_append_of_le_length hn]
              exact List.prefix_append _ _
  line := by
    intro s t h
    simp only [fileSrc, fileLine]
    by_cases hs : s = []
    · subst hs
      have := List.prefix_nil.mp h; subst this
      simp
    · simp only [hs, if_false]
      by_cases hl : hasLF s = true
      · simp only [hl, if_true]
        by_cases ht : t = []
        · right; left; simp [ht]
        · rcases prefix_line s t h hl with ⟨h1, h2⟩ | ⟨h1, h2⟩
          · left
            obtain ⟨u, rfl⟩ := h
            have hle := lineLen_le t
            refine ⟨t.drop (lineLen t), ?_, ?_⟩
            · simp only [ht, if_false, h1, if_true, ← h2]
              rw [List.take_append_of_le_length hle]
            · rw [← h2, List.drop_append_of_le_length hle]
              exact List.prefix_append _ _
          · right; right; simp [ht, h1]
      · have hl' : hasLF s = false := by simpa using hl
        simp only [hl', Bool.false_eq_true, if_false]
        by_cases ht : t = []
        · left; simp [ht]
        · right; simp [ht, prefix_noLF s t h hl']

/-- **C09** for every stream, every cut, every oracle, every filter/parsing setting -/
theorem cut_prefix (nmeaHdr) (cfg : Cfg) {α : Type} (O : Oracle α) (f k : Nat) (s : List Byte) :
    items (run fileSrc nmeaHdr cfg O f (some (s.take k))) <+: items (run fileSrc nmeaHdr cfg O f (some s)) :=
  run_trunc_prefix fileSrc fileSrc _ file_trunc nmeaHdr cfg O f s (s.take k) (List.take_prefix k s)
#print axioms cut_prefix
