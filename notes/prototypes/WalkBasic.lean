abbrev Byte := UInt8

def toLE : Nat → Nat → List Byte
  | 0, _ => []
  | k+1, n => (UInt8.ofNat (n % 256)) :: toLE k (n / 256)
def fromLE : List Byte → Nat
  | [] => 0
  | b :: bs => b.toNat + 256 * fromLE bs

@[simp] theorem toLE_length (k n : Nat) : (toLE k n).length = k := by
  induction k generalizing n with
  | zero => rfl
  | succ k ih => simp [toLE, ih]

theorem fromLE_toLE (k n : Nat) (h : n < 256 ^ k) : fromLE (toLE k n) = n := by
  induction k generalizing n with
  | zero => simp [toLE, fromLE] at *; omega
  | succ k ih =>
    simp only [toLE, fromLE]
    have h1 : (UInt8.ofNat (n % 256)).toNat = n % 256 := by simp
    rw [h1, ih (n / 256) (by rw [Nat.pow_succ] at h; omega)]
    omega

inductive Count where
  | fixed (n : Nat)
  | named (s : Nat)
deriving Repr, DecidableEq

inductive Item where
  | attr (name : Nat) (size : Nat)
  | group (count : Count) (items : List Item)
deriving Repr

/-- attribute environment: ordered assoc list; names are (base, index stack) -/
abbrev AName := Nat × List Nat
abbrev Env := List (AName × Nat)

def Env.get? (e : Env) (n : AName) : Option Nat := (e.find? (·.1 == n)).map (·.2)
def Env.set (e : Env) (n : AName) (v : Nat) : Env :=
  if e.any (·.1 == n) then e.map (fun p => if p.1 == n then (n, v) else p) else e ++ [(n, v)]

inductive Err where | attrErr | other
deriving Repr, DecidableEq

def slice (p : List Byte) (off len : Nat) : List Byte := (p.drop off).take len

structure St where
  off : Nat
  env : Env
deriving Repr

mutual
def pItem (p : List Byte) (idx : List Nat) : Item → St → Except Err St
  | .attr n sz, st =>
      .ok { off := st.off + sz, env := st.env.set (n, idx) (fromLE (slice p st.off sz)) }
  | .group c its, st =>
      match (match c with
             | .fixed k => some k
             | .named a => st.env.get? (a, [])) with
      | none => .error .attrErr
      | some k => pRep p idx its k 1 st
def pItems (p : List Byte) (idx : List Nat) : List Item → St → Except Err St
  | [], st => .ok st
  | i :: is, st => match pItem p idx i st with
      | .ok st' => pItems p idx is st'
      | .error e => .error e
/-- repeat `its` for i = start .. start+k-1 -/
def pRep (p : List Byte) (idx : List Nat) (its : List Item) : Nat → Nat → St → Except Err St
  | 0, _, st => .ok st
  | k+1, i, st => match pItems p (idx ++ [i]) its st with
      | .ok st' => pRep p idx its k (i+1) st'
      | .error e => .error e
end
