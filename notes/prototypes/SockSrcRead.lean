import Wk.FileSrc

/-- SocketWrapper state: internal buffer and what the following recv() calls will deliver;
    after the last chunk recv() closes or times out (both make `_recv` return False). -/
structure Sock where
  buf : List Byte
  chunks : List (List Byte)

def Sock.all (st : Sock) : List Byte := st.buf ++ st.chunks.flatten

/-- `while len(self._buffer) < num: if not self._recv(): return b""` -/
def topUp (n : Nat) : List Byte → List (List Byte) → Option Sock
  | buf, [] => if n ≤ buf.length then some ⟨buf, []⟩ else none
  | buf, c :: cs => if n ≤ buf.length then some ⟨buf, c :: cs⟩ else topUp n (buf ++ c) cs

/-- `SocketWrapper.read(n)` followed by `_read_bytes`'s classification -/
def sockRead (n : Nat) (st : Sock) : Res Sock :=
  match topUp n st.buf st.chunks with
  | none => .eof
  | some st' => if n = 0 then .eof else .ok (st'.buf.take n) ⟨st'.buf.drop n, st'.chunks⟩

theorem topUp_some {n : Nat} {buf : List Byte} {chunks : List (List Byte)} {st' : Sock}
    (h : topUp n buf chunks = some st') :
    st'.all = buf ++ chunks.flatten ∧ n ≤ st'.buf.length := by
  induction chunks generalizing buf with
  | nil =>
    simp only [topUp] at h
    split at h
    · cases h; simp [Sock.all]; assumption
    · cases h
  | cons c cs ih =>
    simp only [topUp] at h
    split at h
    · cases h; simp [Sock.all]; assumption
    · have := ih h
      simpa [List.append_assoc] using this

theorem topUp_none {n : Nat} {buf : List Byte} {chunks : List (List Byte)}
    (h : topUp n buf chunks = none) : (buf ++ chunks.flatten).length < n := by
  induction chunks generalizing buf with
  | nil =>
    simp only [topUp] at h
    split at h
    · cases h
    · simp; omega
  | cons c cs ih =>
    simp only [topUp] at h
    split at h
    · cases h
    · have := ih h
      simpa [List.append_assoc] using this

theorem topUp_isSome_of_le {n : Nat} {buf : List Byte} {chunks : List (List Byte)}
    (h : n ≤ (buf ++ chunks.flatten).length) : ∃ st', topUp n buf chunks = some st' := by
  cases hh : topUp n buf chunks with
  | none => have := topUp_none hh; omega
  | some st' => exact ⟨st', rfl⟩

/-- the socket read is the file read on everything that will ever arrive — or nothing -/
theorem sockRead_char (n : Nat) (st : Sock) :
    (sockRead n st = .eof ∧ (n = 0 ∨ st.all.length < n)) ∨
    (∃ st', sockRead n st = .ok (st.all.take n) st' ∧ st'.all = st.all.drop n ∧ 0 < n ∧ n ≤ st.all.length) := by
  unfold sockRead
  cases hh : topUp n st.buf st.chunks with
  | none => left; exact ⟨rfl, Or.inr (topUp_none hh)⟩
  | some st' =>
    obtain ⟨e, hn⟩ := topUp_some hh
    by_cases h0 : n = 0
    · left; simp [h0]
    · right
      simp only [h0, if_false]
      have eall : st.all = st'.buf ++ st'.chunks.flatten := by
        show st.buf ++ st.chunks.flatten = _
        rw [← e]; rfl
      refine ⟨⟨st'.buf.drop n, st'.chunks⟩, ?_, ?_, by omega, ?_⟩
      · rw [eall, List.take_append_of_le_length hn]
      · show List.drop n st'.buf ++ st'.chunks.flatten = List.drop n st.all
        rw [eall, List.drop_append_of_le_length hn]
      · rw [eall]; simp only [List.length_append]; omega
#print axioms sockRead_char
