/-- flags as (width, value), least-significant first -/
def packFlags : List (Nat × Nat) → Nat
  | [] => 0
  | (w, v) :: rest => v + 2 ^ w * packFlags rest

/-- what `_set_attribute_bits` computes in parse mode, flag after flag -/
def extract (B : Nat) : Nat → List (Nat × Nat) → List Nat
  | _, [] => []
  | off, (w, _) :: rest => ((B >>> off) &&& (2 ^ w - 1)) :: extract B (off + w) rest

/-- what `_set_attribute_bits` computes in generate mode: OR each flag in at its offset -/
def orIn : Nat → Nat → List (Nat × Nat) → Nat
  | acc, _, [] => acc
  | acc, off, (w, v) :: rest => orIn (acc ||| (v <<< off)) (off + w) rest

def flagsOk : List (Nat × Nat) → Prop
  | [] => True
  | (w, v) :: rest => v < 2 ^ w ∧ flagsOk rest

theorem extract_pack (fs : List (Nat × Nat)) (h : flagsOk fs) (lo off : Nat) (hlo : lo < 2 ^ off) :
    extract (lo + 2 ^ off * packFlags fs) off fs = fs.map (·.2) := by
  induction fs generalizing lo off with
  | nil => simp [extract]
  | cons f rest ih =>
    obtain ⟨w, v⟩ := f
    obtain ⟨hv, hr⟩ := h
    simp only [extract, packFlags, List.map_cons]
    congr 1
    · rw [Nat.shiftRight_eq_div_pow, Nat.and_two_pow_sub_one_eq_mod]
      have hpos : 0 < 2 ^ off := Nat.two_pow_pos off
      rw [Nat.add_mul_div_left _ _ hpos, Nat.div_eq_of_lt hlo, Nat.zero_add,
          Nat.add_mul_mod_self_left, Nat.mod_eq_of_lt hv]
    · have e : lo + 2 ^ off * (v + 2 ^ w * packFlags rest)
            = (lo + 2 ^ off * v) + 2 ^ (off + w) * packFlags rest := by
        rw [Nat.pow_add, Nat.mul_add, Nat.mul_assoc, Nat.add_assoc]
      rw [e]
      apply ih hr
      rw [Nat.pow_add]
      calc lo + 2 ^ off * v < 2 ^ off + 2 ^ off * v := by omega
        _ = 2 ^ off * (v + 1) := by rw [Nat.mul_add, Nat.mul_one, Nat.add_comm]
        _ ≤ 2 ^ off * 2 ^ w := Nat.mul_le_mul_left _ hv
#print axioms extract_pack

theorem orIn_pack (fs : List (Nat × Nat)) (h : flagsOk fs) (acc off : Nat) (hacc : acc < 2 ^ off) :
    orIn acc off fs = acc + 2 ^ off * packFlags fs := by
  induction fs generalizing acc off with
  | nil => simp [orIn, packFlags]
  | cons f rest ih =>
    obtain ⟨w, v⟩ := f
    obtain ⟨hv, hr⟩ := h
    simp only [orIn, packFlags]
    have e1 : acc ||| (v <<< off) = v <<< off + acc := by
      rw [Nat.or_comm]; exact (Nat.shiftLeft_add_eq_or_of_lt hacc v).symm
    have hlt : v <<< off + acc < 2 ^ (off + w) := by
      rw [Nat.shiftLeft_eq, Nat.pow_add]
      calc v * 2 ^ off + acc < v * 2 ^ off + 2 ^ off := by omega
        _ = 2 ^ off * (v + 1) := by rw [Nat.mul_add, Nat.mul_one, Nat.mul_comm]
        _ ≤ 2 ^ off * 2 ^ w := Nat.mul_le_mul_left _ hv
    rw [e1, ih hr _ _ hlt, Nat.shiftLeft_eq, Nat.pow_add, Nat.mul_add, Nat.mul_assoc]
    rw [Nat.mul_comm v]; omega
#print axioms orIn_pack

/-- generate then parse a bitfield returns the flags supplied (C03, bit-flag case) -/
theorem extract_orIn (fs : List (Nat × Nat)) (h : flagsOk fs) :
    extract (orIn 0 0 fs) 0 fs = fs.map (·.2) := by
  rw [orIn_pack fs h 0 0 (by simp)]
  exact extract_pack fs h 0 0 (by simp)
