#!/bin/bash
# Build the framework from files on disk only (offline): translate tables, build Lean library + driver.
set -e -o pipefail
cd "$(dirname "$0")"
mkdir -p work evidence replays
/venv/bin/python tools/translate.py
/venv/bin/python tools/translate_code.py
cd lean
lake build 2>&1 | grep -v '^trace' | tail -n 40
test -x .lake/build/bin/driver
# every module must be importable next to every other one (no two files may define the same name): the per-property
# audits import several proof files together
( for f in $(find Ubx -name '*.lean' | sort); do m=${f%.lean}; echo "import ${m//\//.}"; done ) > ../work/ImportAll.lean
lake env lean ../work/ImportAll.lean
echo "setup ok"
