#!/bin/bash
# Build the framework from files on disk only (offline): translate tables, build Lean library + driver.
set -e -o pipefail
cd "$(dirname "$0")"
mkdir -p work evidence replays
/venv/bin/python tools/translate.py
/venv/bin/python tools/translate_code.py
cd lean
lake build 2>&1 | grep -v '^trace' | tail -n 40
test -x .lake/build/bin/driver
echo "setup ok"
