import Ubx.Model.Helpers
/-!
# `att2idx` / `att2name` invert the rendering of grouped attribute names (C18)

`renderName base idx` is what the attribute walk exposes (`base` followed by `_%02d` per enclosing group). For a base name
without an underscore, `att2name` returns the base and `att2idx` the indices: `0` when there is none, the integer for
one level, the tuple for nested levels.
-/
namespace Ubx

theorem digits10_digits (n : Nat) : ∀ c ∈ digits10 n, 48 ≤ c ∧ c ≤ 57 := by
  induction n using Nat.strongRecOn with
  | _ n ih =>
    intro c hc
    unfold digits10 at hc
    split at hc
    · simp only [List.mem_singleton] at hc; omega
    · rw [List.mem_append] at hc
      rcases hc with hc | hc
      · exact ih (n / 10) (by omega) c hc
      · simp only [List.mem_singleton] at hc; omega

theorem digits10_ne_nil (n : Nat) : digits10 n ≠ [] := by
  unfold digits10
  split
  · simp
  · simp

theorem foldl_digits10 (n : Nat) : (digits10 n).foldl (fun a c => a * 10 + (c - 48)) 0 = n := by
  induction n using Nat.strongRecOn with
  | _ n ih =>
    unfold digits10
    split
    · simp only [List.foldl_cons, List.foldl_nil]; omega
    · rw [List.foldl_append, ih (n / 10) (by omega)]
      simp only [List.foldl_cons, List.foldl_nil]; omega

theorem digitsVal_digits10 (n : Nat) : digitsVal (digits10 n) = some n := by
  unfold digitsVal
  have h1 : (digits10 n).isEmpty = false := by
    cases h : digits10 n with
    | nil => exact absurd h (digits10_ne_nil n)
    | cons _ _ => rfl
  have h2 : (digits10 n).all (fun c => decide (48 ≤ c) && decide (c ≤ 57)) = true := by
    rw [List.all_eq_true]
    intro c hc
    have := digits10_digits n c hc
    simp [this.1, this.2]
  simp only [h1, Bool.false_eq_true, if_false, h2, if_true, foldl_digits10]

/-- the digit string of one suffix (without the underscore) -/
def seg2 (i : Nat) : List Nat := if i < 10 then [48, 48 + i] else digits10 i

theorem suffix2_eq (i : Nat) : suffix2 i = 95 :: seg2 i := rfl

theorem seg2_digits (i : Nat) : ∀ c ∈ seg2 i, 48 ≤ c ∧ c ≤ 57 := by
  intro c hc
  unfold seg2 at hc
  split at hc
  · simp only [List.mem_cons, List.mem_nil_iff, or_false] at hc
    rcases hc with rfl | rfl <;> omega
  · exact digits10_digits i c hc

theorem digitsVal_seg2 (i : Nat) : digitsVal (seg2 i) = some i := by
  unfold seg2
  split
  · rename_i h
    unfold digitsVal
    have : (decide (48 ≤ 48 + i) && decide (48 + i ≤ 57)) = true := by simp; omega
    simp only [List.isEmpty_cons, Bool.false_eq_true, if_false, List.all_cons, List.all_nil, Bool.and_true, this,
      List.foldl_cons, List.foldl_nil]
    simp
  · exact digitsVal_digits10 i

theorem splitUS_ne_nil (s : List Nat) : splitUS s ≠ [] := by
  cases s with
  | nil => simp [splitUS]
  | cons c cs =>
    simp only [splitUS]
    split
    · simp
    · split <;> simp

/-- a prefix without underscore is glued to the first segment of what follows -/
theorem splitUS_append (xs rest : List Nat) (h : ∀ c ∈ xs, c ≠ 95) (hd : List Nat) (tl : List (List Nat))
    (hr : splitUS rest = hd :: tl) : splitUS (xs ++ rest) = (xs ++ hd) :: tl := by
  induction xs with
  | nil => simpa using hr
  | cons x xs ih =>
    have hx : x ≠ 95 := h x (List.mem_cons_self ..)
    have ih' := ih (fun c hc => h c (List.mem_cons_of_mem _ hc))
    simp only [List.cons_append, splitUS, ih', hx, if_false]

theorem splitUS_us (rest : List Nat) : splitUS (95 :: rest) = [] :: splitUS rest := by
  simp only [splitUS]
  cases h : splitUS rest with
  | nil => exact absurd h (splitUS_ne_nil rest)
  | cons a b => simp

theorem splitUS_suffixes (idx : List Nat) : splitUS ((idx.map suffix2).flatten) = [] :: idx.map seg2 := by
  induction idx with
  | nil => simp [splitUS]
  | cons i is ih =>
    simp only [List.map_cons, List.flatten_cons, suffix2_eq, List.cons_append]
    rw [splitUS_us, splitUS_append (seg2 i) _ (fun c hc => by have := seg2_digits i c hc; omega) [] (is.map seg2) ih]
    simp

theorem splitUS_render (base idx : List Nat) (hb : ∀ c ∈ base, c ≠ 95) :
    splitUS (renderName base idx) = base :: idx.map seg2 := by
  unfold renderName
  rw [splitUS_append base _ hb [] (idx.map seg2) (splitUS_suffixes idx)]
  simp

/-- **`att2name` returns the base name** -/
theorem att2name_render (base idx : List Nat) (hb : ∀ c ∈ base, c ≠ 95) : att2name (renderName base idx) = base := by
  unfold att2name
  rw [splitUS_render base idx hb]
  rfl

theorem all_isSome_seg2 (l : List Nat) : (l.map seg2).all (fun x => (digitsVal x).isSome) = true := by
  rw [List.all_eq_true]
  intro x hx
  rw [List.mem_map] at hx
  obtain ⟨i, _, rfl⟩ := hx
  rw [digitsVal_seg2]; rfl

theorem map_getD_seg2 (l : List Nat) : (l.map seg2).map (fun x => (digitsVal x).getD 0) = l := by
  induction l with
  | nil => rfl
  | cons i is ih => simp only [List.map_cons, digitsVal_seg2, Option.getD_some, ih]

/-- **`att2idx` returns the indices**: 0 for an ungrouped name, the integer for one level, the tuple for nested levels -/
theorem att2idx_render (base idx : List Nat) (hb : ∀ c ∈ base, c ≠ 95) :
    att2idx (renderName base idx) =
      (match idx with
       | [] => .zero
       | [i] => .one i
       | i :: j :: rest => .many (i :: j :: rest)) := by
  unfold att2idx
  rw [splitUS_render base idx hb]
  match idx with
  | [] => rfl
  | [i] => simp only [List.map_cons, List.map_nil, digitsVal_seg2]
  | i :: j :: rest =>
    simp only [List.map_cons]
    have h1 := all_isSome_seg2 (i :: j :: rest)
    have h2 := map_getD_seg2 (i :: j :: rest)
    simp only [List.map_cons] at h1 h2
    simp only [h1, if_true, h2]

end Ubx
