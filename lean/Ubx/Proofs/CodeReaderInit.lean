import Ubx.Proofs.CodeHelpers
/-!
# `UBXReader.__init__` and `__iter__`, as written

`reader_init_eq`: every constructor argument is stored unchanged under its own field — no defaulting through `or`, no coercion
(so `validate=VALNONE`, `labelmsm=0`, `parsing=False`, `quitonerror=ERR_IGNORE` keep their falsy values) — a socket is wrapped
in `SocketWrapper` with the given `bufsize` and anything else is used as it is, and the mode is refused with UBXStreamError
unless it is 0, 1, 2 or 3. The reader theorems (`CodeReader` … `CodeIterate`) start from exactly these fields.
-/
set_option maxRecDepth 10000
set_option linter.unusedSimpArgs false
namespace Ubx.Py
open Ubx Ubx.Gen.Code

/-! ### `UBXReader.__init__` / `__iter__` -/

inductive XO where
  | self
  | sock
  | stream
  | wrapped (bufsize : Int)
  | logger
  | handler

/-- the reader's fields, in the order they were last assigned -/
abbrev XSt := List (Name × V XO)

def xiCall (f : Name) (args : List (V XO)) (kws : List (Name × V XO)) (st : XSt) : X XO (V XO) × XSt :=
  if f = fIsinstance then
    match args with
    | [.host o, .str 0x736f636b6574] => (.ok (.bool (match o with | .sock => true | _ => false)), st)   -- isinstance(x, socket)
    | _ => (raiseX xUnsupported, st)
  else if f = 0x536f636b657457726170706572 then            -- SocketWrapper(datastream, bufsize=bufsize)
    match args, kwArg kws 0x62756673697a65 with
    | [.host .sock], some (.int b) => (.ok (.host (.wrapped b)), st)
    | _, _ => (raiseX xUnsupported, st)
  else if f = 0x6765744c6f67676572 then (.ok (.host .logger), st)   -- getLogger(__name__)
  else (raiseX xUnsupported, st)

def xiHost : Host XO XSt where
  glob := fun x => if x = 0x5f5f6e616d655f5f then some .ostr else globLookup Ubx.Gen.Code.globals x
  call := xiCall
  mcall := fun _ _ _ _ st => (raiseX xUnsupported, st)
  attr := fun obj a st => match obj with
    | .host .self => (match getVar st a with | some v => .ok v | none => .error (.exc xAttributeError 0))
    | _ => raiseX xUnsupported
  setattr := fun obj a v st => match obj with
    | .host .self => (.ok (), setVar st a v)
    | _ => (raiseX xUnsupported, st)
  index := fun _ _ _ => raiseX xUnsupported
  contains := fun _ _ _ => raiseX xUnsupported
  truthy := fun _ => true
  eqHost := fun _ _ => false

theorem xi_call : xiHost.call = xiCall := rfl
theorem xi_glob_GET : xiHost.glob 0x474554 = some (.int 0) := rfl
theorem xi_glob_SET : xiHost.glob 0x534554 = some (.int 1) := rfl
theorem xi_glob_POLL : xiHost.glob 0x504f4c4c = some (.int 2) := rfl
theorem xi_glob_SETPOLL : xiHost.glob 0x534554504f4c4c = some (.int 3) := rfl
theorem xi_glob_name : xiHost.glob 0x5f5f6e616d655f5f = some .ostr := rfl

/-- the fields `__init__` leaves: every argument stored unchanged under its own name, the stream wrapped iff it is a socket -/
def readerFields (ds : XO) (m : Int) (val pf q bf lm bs parsing eh : V XO) : XSt :=
  [(0x5f73747265616d, match ds with | .sock => (match bs with | .int b => .host (.wrapped b) | _ => .none) | o => .host o),
   (0x5f70726f7466696c746572, pf), (0x5f717569746f6e6572726f72, q), (0x5f6572726f7268616e646c6572, eh), (0x5f76616c6964617465, val),
   (0x5f70617273656266, bf), (0x5f6c6162656c6d736d, lm), (0x5f6d73676d6f6465, .int m), (0x5f70617273696e67, parsing),
   (0x5f6c6f67676572, .host .logger)]

/-- `UBXReader.__init__` as written: arguments are stored as given (no defaulting, no coercion: `validate=0`, `labelmsm=0`,
    `parsing=False` stay what they are), a socket is wrapped with the given `bufsize`, and the mode is checked last —
    UBXStreamError unless it is 0, 1, 2 or 3 -/
theorem reader_init_eq (F : Nat) (ds : XO) (hds : ds = .sock ∨ ds = .stream) (m : Int) (val pf q bf lm : V XO) (b : Int) (parsing eh : V XO) :
    runFn xiHost F fn_UBXReader___init__ [.host .self, .host ds, .int m, val, pf, q, bf, lm, .int b, parsing, eh] []
      = (if m = 0 ∨ m = 1 ∨ m = 2 ∨ m = 3 then .ok .none else .error (.exc xUBXStreamError 0),
         readerFields ds m val pf q bf lm (.int b) parsing eh) := by
  have hG : (globLookup globals 0x474554 : Option (V XO)) = some (.int 0) := rfl
  have hS : (globLookup globals 0x534554 : Option (V XO)) = some (.int 1) := rfl
  have hP : (globLookup globals 0x504f4c4c : Option (V XO)) = some (.int 2) := rfl
  have hSP : (globLookup globals 0x534554504f4c4c : Option (V XO)) = some (.int 3) := rfl
  simp only [runFn, fn_UBXReader___init__, List.zip_cons_cons, List.zip_nil_right]
  rcases hds with rfl | rfl
  all_goals (
    rw [execB_cons]
    pysimp [xi_call, xiCall, xiHost, kwArg]
    iterate 9 (rw [execB_cons]; pysimp [xiHost, xiCall])
    pysimp [hG, hS, hP, hSP]
    by_cases hm : m = 0 ∨ m = 1 ∨ m = 2 ∨ m = 3
    · rcases hm with rfl | rfl | rfl | rfl <;> simp [readerFields]
    · have h0 : (m == 0) = false := by simp only [beq_eq_false_iff_ne, ne_eq]; omega
      have h1 : (m == 1) = false := by simp only [beq_eq_false_iff_ne, ne_eq]; omega
      have h2 : (m == 2) = false := by simp only [beq_eq_false_iff_ne, ne_eq]; omega
      have h3 : (m == 3) = false := by simp only [beq_eq_false_iff_ne, ne_eq]; omega
      simp [hm, h0, h1, h2, h3, readerFields, xUBXStreamError])

/-- `__iter__` hands back the reader itself -/
theorem reader_iter_eq (F : Nat) (st : XSt) : runFn xiHost F fn_UBXReader___iter__ [.host .self] st = (.ok (.host .self), st) := by
  simp only [runFn, fn_UBXReader___iter__, List.zip_cons_cons, List.zip_nil_right]
  pysimp
end Ubx.Py
