import Ubx.Model.Walk
/-! # In parse direction the walk never touches the payload -/
namespace Ubx

theorem wSingle_payload (c : WCtx) (hp : c.hasPayload = true) (idx n ty sc) (st st' : WState)
    (h : wSingle c idx n ty sc st = .ok st') : st'.payload = st.payload := by
  unfold wSingle at h
  split at h
  · cases h
  · rw [if_pos hp] at h
    split at h
    · cases h
    · split at h
      · cases h
      · cases h; rfl

theorem wBits_payload (c : WCtx) (hp : c.hasPayload = true) (idx ty flags) (st st' : WState)
    (h : wBits c idx ty flags st = .ok st') : st'.payload = st.payload := by
  unfold wBits at h
  split at h
  · cases h
  · simp only [hp, if_true] at h
    split at h
    · cases h
    · cases h; rfl

theorem wCfgVal_payload (c : WCtx) (st st' : WState)
    (h : wCfgVal c st = .ok st') : st'.payload = st.payload := by
  unfold wCfgVal at h
  split at h
  · cases h
  · simp only at h
    split at h
    · cases h
    · cases h; rfl

theorem repeatN_inv (P : WState → WState → Prop) (hrefl : ∀ s, P s s) (htrans : ∀ a b c, P a b → P b c → P a c)
    (body : Nat → WState → R WState) (hb : ∀ i s s', body i s = .ok s' → P s s')
    (k i : Nat) (st st' : WState) (h : repeatN body k i st = .ok st') : P st st' := by
  induction k generalizing i st with
  | zero => simp only [repeatN] at h; cases h; exact hrefl _
  | succ k ih =>
    simp only [repeatN] at h
    split at h
    · rename_i st1 h1
      exact htrans _ _ _ (hb i st st1 h1) (ih (i + 1) st1 h)
    · cases h

mutual
theorem wItem_payload (c : WCtx) (hp : c.hasPayload = true) (idx : List Nat) (i : Item) (st st' : WState)
    (h : wItem c idx i st = .ok st') : st'.payload = st.payload := by
  match i with
  | .attr n ty sc => simp only [wItem] at h; exact wSingle_payload c hp idx n ty sc st st' h
  | .bits n ty flags =>
    simp only [wItem] at h
    split at h
    · exact wBits_payload c hp idx ty flags st st' h
    · exact wSingle_payload c hp idx n ty .one st st' h
  | .group n cnt items =>
    simp only [wItem] at h
    split at h
    · exact wCfgVal_payload c st st' h
    · split at h
      · cases h
      · exact repeatN_inv (fun a b => b.payload = a.payload) (fun _ => rfl) (fun a b c h1 h2 => h2.trans h1) _
          (fun i s s' hs => wItems_payload c hp (idx ++ [i]) items s s' hs) _ _ st st' h
theorem wItems_payload (c : WCtx) (hp : c.hasPayload = true) (idx : List Nat) (is : List Item) (st st' : WState)
    (h : wItems c idx is st = .ok st') : st'.payload = st.payload := by
  match is with
  | [] => simp only [wItems] at h; cases h; rfl
  | i :: rest =>
    simp only [wItems] at h
    split at h
    · rename_i st1 h1
      rw [wItems_payload c hp idx rest st1 st' h, wItem_payload c hp idx i st st1 h1]
    · cases h
end

end Ubx
