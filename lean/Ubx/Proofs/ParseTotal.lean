import Ubx.Proofs.Total
/-! # `parse` raises only UBX* errors (C08), under three table-level hypotheses -/
namespace Ubx

def InTables (ctx : Ctx) (d : Defn) : Prop :=
  (∃ n, (n, d) ∈ ctx.get) ∨ (∃ n, (n, d) ∈ ctx.set) ∨ (∃ n, (n, d) ∈ ctx.poll)

theorem lookup_mem {β : Type} (k : Name) (l : List (Name × β)) (v : β) (h : lookup k l = some v) : (k, v) ∈ l := by
  induction l with
  | nil => cases h
  | cons x rest ih =>
    obtain ⟨n, w⟩ := x
    simp only [lookup] at h
    split at h
    · rename_i hn; cases h; rw [hn]; exact List.mem_cons_self ..
    · exact List.mem_cons_of_mem _ (ih h)

theorem defnByName_get (ctx : Ctx) (n : Name) (d : Defn) (h : defnByName ctx.get n = .ok d) : InTables ctx d := by
  unfold defnByName at h; split at h
  · rename_i d' hd; cases h; exact Or.inl ⟨n, lookup_mem _ _ _ hd⟩
  · cases h
theorem defnByName_set (ctx : Ctx) (n : Name) (d : Defn) (h : defnByName ctx.set n = .ok d) : InTables ctx d := by
  unfold defnByName at h; split at h
  · rename_i d' hd; cases h; exact Or.inr (Or.inl ⟨n, lookup_mem _ _ _ hd⟩)
  · cases h
theorem defnByName_poll (ctx : Ctx) (n : Name) (d : Defn) (h : defnByName ctx.poll n = .ok d) : InTables ctx d := by
  unfold defnByName at h; split at h
  · rename_i d' hd; cases h; exact Or.inr (Or.inr ⟨n, lookup_mem _ _ _ hd⟩)
  · cases h

theorem defnByName_err (tbl : List (Name × Defn)) (n : Name) (e : Exc) (h : defnByName tbl n = .error e) : e = .keyE := by
  unfold defnByName at h; split at h
  · cases h
  · cases h; rfl

theorem ite_cases {α : Type} {c : Prop} [Decidable c] {x y r : α} (h : (if c then x else y) = r) : x = r ∨ y = r := by
  split at h
  · exact Or.inl h
  · exact Or.inr h

theorem keyToMsg_ok {α : Type} (r : R α) (d : α) (h : keyToMsg r = .ok d) : r = .ok d := by
  unfold keyToMsg at h; split at h
  · cases h
  · exact h

theorem keyToMsg_err {α : Type} (r : R α) (e : Exc) (h : keyToMsg r = .error e) :
    (r = .error .keyE ∧ e = .ubxMessage) ∨ (r = .error e ∧ e ≠ .keyE) := by
  unfold keyToMsg at h; split at h
  · cases h; exact Or.inl ⟨rfl, rfl⟩
  · rename_i hne
    refine Or.inr ⟨h, ?_⟩
    intro hc; subst hc; exact hne h

theorem discr_payload (ctx : Ctx) (p : Bytes) (k : Name) (a b : Nat) : discr ctx (.payload p) k a b = .ok (slice p a b) := by
  simp [discr, kwGet, kwPayload?]

/-- errors of the definition lookup when the payload is given: UBXMessageError, KeyError (→ UBXMessageError in
    `_get_dict`), or — only for a selector the model does not know — the sentinel -/
theorem selectDefn_payload (ctx : Ctx) (sel : Selector) (hs : ∀ n, sel ≠ .unknown n) (msg : Bytes) (mode : Mode) (p : Bytes) :
    (∀ d, selectDefn ctx sel msg mode (.payload p) = .ok d → InTables ctx d) ∧
    (∀ e, selectDefn ctx sel msg mode (.payload p) = .error e → e = .keyE ∨ e = .ubxMessage) := by
  cases sel with
  | unknown n => exact absurd rfl (hs n)
  | cfgtp5 =>
    simp only [selectDefn, kwPayload?]
    constructor
    · intro d h; rcases ite_cases h with h | h <;> exact defnByName_poll _ _ _ h
    · intro e h; rcases ite_cases h with h | h <;> exact Or.inl (defnByName_err _ _ _ h)
  | mga =>
    simp only [selectDefn, discr_payload, bind, Except.bind]
    constructor
    · intro d h
      split at h
      · cases h
      · split at h
        · exact defnByName_set _ _ _ h
        · exact defnByName_get _ _ _ h
    · intro e h
      split at h
      · cases h; exact Or.inl rfl
      · split at h <;> exact Or.inl (defnByName_err _ _ _ h)
  | rxmpmreq =>
    simp only [selectDefn, kwHas, kwPayload?, Bool.false_eq_true, if_false]
    constructor
    · intro d h; split at h <;> exact defnByName_set _ _ _ h
    · intro e h; split at h <;> exact Or.inl (defnByName_err _ _ _ h)
  | rxmpmp =>
    simp only [selectDefn, discr_payload, bind, Except.bind]
    constructor
    · intro d h; split at h <;> exact defnByName_set _ _ _ h
    · intro e h; split at h <;> exact Or.inl (defnByName_err _ _ _ h)
  | rxmrlm =>
    simp only [selectDefn, discr_payload, bind, Except.bind]
    constructor
    · intro d h; split at h <;> exact defnByName_get _ _ _ h
    · intro e h; split at h <;> exact Or.inl (defnByName_err _ _ _ h)
  | cfgnmea =>
    simp only [selectDefn, kwPayload?]
    constructor
    · intro d h; repeat' split at h
      all_goals exact defnByName_get _ _ _ h
    · intro e h; repeat' split at h
      all_goals exact Or.inl (defnByName_err _ _ _ h)
  | aopstatus =>
    simp only [selectDefn, kwPayload?]
    constructor
    · intro d h; split at h <;> exact defnByName_get _ _ _ h
    · intro e h; split at h <;> exact Or.inl (defnByName_err _ _ _ h)
  | relposned =>
    simp only [selectDefn, discr_payload, bind, Except.bind]
    constructor
    · intro d h; split at h <;> exact defnByName_get _ _ _ h
    · intro e h; split at h <;> exact Or.inl (defnByName_err _ _ _ h)
  | timvcocal =>
    simp only [selectDefn, kwGet, kwPayload?]
    constructor
    · intro d h; split at h <;> exact defnByName_set _ _ _ h
    · intro e h; split at h <;> exact Or.inl (defnByName_err _ _ _ h)
  | cfgdat =>
    simp only [selectDefn, kwHas, kwPayload?]
    constructor
    · intro d h; rcases ite_cases h with h | h <;> exact defnByName_set _ _ _ h
    · intro e h; rcases ite_cases h with h | h <;> exact Or.inl (defnByName_err _ _ _ h)
  | secsig =>
    simp only [selectDefn, discr_payload, bind, Except.bind]
    constructor
    · intro d h; split at h <;> exact defnByName_get _ _ _ h
    · intro e h; split at h <;> exact Or.inl (defnByName_err _ _ _ h)
  | alpsrv =>
    simp only [selectDefn, discr_payload, bind, Except.bind]
    constructor
    · intro d h; split at h <;> exact defnByName_get _ _ _ h
    · intro e h; split at h <;> exact Or.inl (defnByName_err _ _ _ h)

def selectorsKnown (ctx : Ctx) : Bool := ctx.variants.all (fun v => match v.2.2 with | .unknown _ => false | _ => true)

theorem findVariant_known (ctx : Ctx) (hk : selectorsKnown ctx = true) (mode : Mode) (msg : Bytes) (sel : Selector)
    (h : findVariant ctx mode msg = some sel) : ∀ n, sel ≠ .unknown n := by
  unfold findVariant at h
  split at h
  · rename_i v hv
    cases h
    have hm := List.mem_of_find?_eq_some hv
    have := List.all_eq_true.mp hk v hm
    intro n hn
    rw [hn] at this; cases this
  · cases h

theorem getDict_payload (ctx : Ctx) (hk : selectorsKnown ctx = true) (cls id : Bytes) (mode : Mode) (p : Bytes) :
    (∀ d, getDict ctx cls id mode (.payload p) = .ok d → d = [] ∨ InTables ctx d) ∧
    (∀ e, getDict ctx cls id mode (.payload p) = .error e → e = .ubxMessage) := by
  unfold getDict
  simp only
  cases hv : findVariant ctx mode (cls ++ id) with
  | some sel =>
    simp only
    obtain ⟨h1, h2⟩ := selectDefn_payload ctx sel (findVariant_known ctx hk mode _ sel hv) (cls ++ id) mode p
    constructor
    · intro d h
      exact Or.inr (h1 d (keyToMsg_ok _ _ h))
    · intro e h
      rcases keyToMsg_err _ _ h with ⟨_, he⟩ | ⟨hr, hne⟩
      · exact he
      · rcases h2 e hr with rfl | rfl
        · exact absurd rfl hne
        · rfl
  | none =>
    simp only
    constructor
    · intro d h
      have hx := keyToMsg_ok _ _ h
      split at hx
      · cases mode
        · exact Or.inr (defnByName_get _ _ _ hx)
        · exact Or.inr (defnByName_set _ _ _ hx)
        · exact Or.inr (defnByName_poll _ _ _ hx)
      · rcases ite_cases hx with hx | hx
        · cases hx; exact Or.inl rfl
        · cases hx
    · intro e h
      rcases keyToMsg_err _ _ h with ⟨_, he⟩ | ⟨hx, hne⟩
      · exact he
      · split at hx
        · exact absurd (defnByName_err _ _ _ hx) hne
        · rcases ite_cases hx with hx | hx
          · cases hx
          · cases hx; exact absurd rfl hne

/-- the three table-level facts C08 rests on (each is a `decide` obligation on the regenerated tables) -/
structure TotalHyp (ctx : Ctx) : Prop where
  /-- every non-UBX exception the walk can raise is in `_do_attributes`' catch lists -/
  catch_all : ∀ e : Exc, e.walkOK = true → e.isUBX = true ∨ ctx.catchType.contains e = true
  selectors : selectorsKnown ctx = true
  /-- no variable-by-size group with zero total member size -/
  no_zero : (allDefs ctx).all (fun e => noZeroVarL e.2.2) = true

theorem inTables_noZero (ctx : Ctx) (H : TotalHyp ctx) (d : Defn) (h : d = [] ∨ InTables ctx d) : noZeroVarL d = true := by
  rcases h with rfl | h
  · rfl
  · have hall := List.all_eq_true.mp H.no_zero
    rcases h with ⟨n, hn⟩ | ⟨n, hn⟩ | ⟨n, hn⟩
    · exact hall (.get, n, d) (by simp [allDefs, hn])
    · exact hall (.set, n, d) (by simp [allDefs, hn])
    · exact hall (.poll, n, d) (by simp [allDefs, hn])

theorem translate_ubx (ctx : Ctx) (H : TotalHyp ctx) (e : Exc) (he : e.walkOK = true) : (translateExc ctx e).isUBX = true := by
  unfold translateExc
  split
  · rfl
  · rename_i hc
    rcases H.catch_all e he with h | h
    · exact h
    · exact absurd h hc

/-- the constructor, given a payload or nothing, raises only UBX* errors -/
theorem construct_total (ctx : Ctx) (H : TotalHyp ctx) (cls id : Bytes) (modeN : Nat) (bf : Bool) (kw : Kw)
    (hkw : kw = .empty ∨ ∃ p, kw = .payload p) (e : Exc) (h : construct ctx cls id modeN bf kw = .error e) :
    e.isUBX = true := by
  unfold construct at h
  split at h
  · cases h; rfl
  · rename_i mode _
    split at h
    · rename_i e' he
      cases h
      apply translate_ubx ctx H
      rcases hkw with rfl | ⟨p, rfl⟩
      · unfold walkFor at he; cases he
      · unfold walkFor at he
        simp only at he
        obtain ⟨g1, g2⟩ := getDict_payload ctx H.selectors cls id mode p
        split at he
        · rename_i e'' hg; cases he; rw [g2 _ hg]; rfl
        · rename_i defn hg
          split at he
          · rename_i e'' hw
            cases he
            exact wItems_err _ (by simp [walkCtx, kwPayload?]) [] defn (inTables_noZero ctx H defn (g1 defn hg)) _ _ hw
          · cases he
    · split at h
      · rename_i e' he
        cases h
        apply translate_ubx ctx H
        unfold lenChecksum at he
        split at he
        · cases he
        · cases he; rfl
      · cases h

/-- **C08, first sentence**: for every byte string, mode, validate and bitfield setting, `parse` either returns a
    message or raises one of the library's UBX* error types -/
theorem parse_total (ctx : Ctx) (H : TotalHyp ctx) (mm v : Nat) (bf : Bool) (bs : Bytes) (e : Exc)
    (h : parse ctx mm v bf bs = .error e) : e.isUBX = true := by
  unfold parse at h
  split at h
  · cases h; rfl
  · split at h
    · cases h; rfl
    · simp only at h
      split at h
      · exact construct_total ctx H _ _ _ _ _ (Or.inl rfl) e h
      · exact construct_total ctx H _ _ _ _ _ (Or.inr ⟨_, rfl⟩) e h

end Ubx
