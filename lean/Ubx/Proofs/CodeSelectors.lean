import Ubx.Proofs.CodeHelpers
import Ubx.Model.Message
/-!
# The variant selectors of `ubxvariants.py`, as written in the working tree, are the model's `selectDefn`

Twelve functions choose the payload definition of the messages that exist in several variants. Each theorem says:
run against a host in which `kwargs` is the constructor's keyword arguments in the model's three shapes (none, `payload=`,
individual attributes), `UBX_PAYLOADS_*[name]` is the model's table lookup (KeyError when absent), `UBX_MSGIDS[key]` the
id table and `val2bytes(·, U1)` the model's `val2bytes`, the function returns exactly the definition — or raises exactly
the exception class — the model's `selectDefn` gives, for every keyword set. Includes the corner cases the seeded
changes went for: which payload byte is the discriminator (S06), presence of a keyword versus its truthiness (S49:
`datumNum=0`), `typ == 0` on a keyword value of any Python type (int, bool, float incl. −0.0, text, bytes, list, None).
-/
set_option maxRecDepth 10000
set_option linter.unusedSimpArgs false
namespace Ubx.Py
open Ubx Ubx.Gen.Code

/-- objects the selector functions handle -/
inductive SelO where
  | kwargs
  | table (m : Mode)
  | msgids
  | defn (d : Defn)

def toPy : V SelO → PyVal
  | .int i => .int i
  | .bool b => .bool b
  | .bytes b => .bytes b
  | .none => .none
  | .py v => v
  | _ => .other

/-- `"name" in kwargs` -/
def selHas (kw : Kw) (n : Name) : Bool :=
  if n = 0x7061796c6f6164 then (kwPayload? kw).isSome else kwHas kw n

def selContains (kw : Kw) (o : SelO) (v : V SelO) (_h : Unit) : X SelO Bool :=
  match o, v with
  | .kwargs, .str n => .ok (selHas kw n)
  | _, _ => raiseX xUnsupported

def selIndex (ctx : Ctx) (kw : Kw) (o : SelO) (v : V SelO) (_h : Unit) : X SelO (V SelO) :=
  match o, v with
  | .kwargs, .str n =>
    if n = 0x7061796c6f6164 then
      (match kwPayload? kw with | some p => .ok (.bytes p) | none => .error (.exc xKeyError 0))
    else (match kwGet kw n with | some pv => .ok (V.ofPy pv) | none => .error (.exc xKeyError 0))
  | .table m, .str n => encR (fun d => .host (.defn d)) (defnByName (tableOf ctx m) n)   -- `TABLE[name]`, KeyError if absent
  | .msgids, .bytes k =>
    (match lookupB k ctx.msgids with | some n => .ok (.str n) | none => .error (.exc xKeyError 0))
  | _, _ => raiseX xUnsupported

def selGlob : Name → Option (V SelO)
  | 0x5542585f5041594c4f4144535f474554 => some (.host (.table .get))
  | 0x5542585f5041594c4f4144535f534554 => some (.host (.table .set))
  | 0x5542585f5041594c4f4144535f504f4c4c => some (.host (.table .poll))
  | 0x5542585f4d5347494453 => some (.host .msgids)
  | 0x5531 => some (.str 0x55303031)
  | 0x474554 => some (.int 0)
  | 0x534554 => some (.int 1)
  | 0x504f4c4c => some (.int 2)
  | _ => none

def selCall (ctx : Ctx) (f : Name) (args : List (V SelO)) (_kw : List (Name × V SelO)) (h : Unit) : X SelO (V SelO) × Unit :=
  if f = 0x76616c326279746573 then
    match args with
    | [v, .str 0x55303031] => (encR .bytes (val2bytes ctx.atttype (toPy v) (.t cU 1)), h)
    | _ => (raiseX xUnsupported, h)
  else (raiseX xUnsupported, h)

def selHost (ctx : Ctx) (kw : Kw) : Host SelO Unit where
  glob := selGlob
  call := selCall ctx
  mcall := fun _ _ _ _ h => (raiseX xUnsupported, h)
  attr := fun _ _ _ => raiseX xUnsupported
  setattr := fun _ _ _ h => (raiseX xUnsupported, h)
  index := selIndex ctx kw
  contains := selContains kw
  truthy := fun _ => true
  eqHost := fun _ _ => false

theorem sh_glob (ctx : Ctx) (kw : Kw) : (selHost ctx kw).glob = selGlob := rfl
theorem sh_call (ctx : Ctx) (kw : Kw) : (selHost ctx kw).call = selCall ctx := rfl
theorem sh_index (ctx : Ctx) (kw : Kw) : (selHost ctx kw).index = selIndex ctx kw := rfl
theorem sh_contains (ctx : Ctx) (kw : Kw) : (selHost ctx kw).contains = selContains kw := rfl

theorem toPy_ofPy (v : PyVal) : toPy (V.ofPy v) = v := by cases v <;> rfl

theorem kwHas_empty (n : Name) : kwHas .empty n = false := rfl
theorem kwHas_payload (p : Bytes) (n : Name) : kwHas (.payload p) n = false := rfl
theorem kwGet_empty (n : Name) : kwGet .empty n = none := rfl
theorem kwGet_payload (p : Bytes) (n : Name) : kwGet (.payload p) n = none := rfl
theorem kwGet_attrs (l : List (AName × PyVal)) (n : Name) : kwGet (.attrs l) n = kwLookup l ⟨n, []⟩ := rfl

theorem kwHas_attrs (l : List (AName × PyVal)) (n : Name) :
    kwHas (.attrs l) n = (kwLookup l ⟨n, []⟩).isSome := by
  simp only [kwHas, kwLookup]
  induction l with
  | nil => rfl
  | cons p ps ih =>
    simp only [List.any_cons, List.find?_cons]
    cases h : (p.1 == (⟨n, []⟩ : AName))
    · simp only [Bool.false_or, ih]
    · simp

def encSel (r : R Defn) : X SelO (V SelO) := encR (fun d => .host (.defn d)) r

macro "vp" "[" ls:Lean.Parser.Tactic.simpLemma,* "]" : tactic => `(tactic| pystep [sh_glob, sh_call, sh_index, sh_contains, selGlob, selContains,
  selIndex, selHas, kwPayload?, kwHas_empty, kwHas_payload, kwHas_attrs, kwGet_empty, kwGet_payload, kwGet_attrs, toPy_ofPy, Nat.reduceEqDiff, Bool.beq_eq_decide_eq, decide_true, decide_false, decide_eq_false,
  decide_eq_true, Int.reduceEq, Int.reduceBEq, Option.isSome, $ls,*])
macro "vp" : tactic => `(tactic| vp [])

macro "sel_close" : tactic => `(tactic| ((try simp only [N.kwType, N.kwVersion, N.kwTpIdx, N.kwDatumNum, N.dCfgTp5Tpx, N.dCfgTp5, N.dRxmPmreq, N.dRxmPmreqS, N.dRxmPmpV0, N.dRxmPmpV1, N.dRxmRlmS, N.dRxmRlmL, N.dCfgNmeaVX, N.dCfgNmeaV0, N.dCfgNmea, N.dAopStatusL, N.dAopStatus, N.dRelposnedV0, N.dRelposned, N.dTimVcocalV0, N.dTimVcocal, N.dCfgDatNum, N.dCfgDat, N.dSecSigV1, N.dSecSigV2, N.dAlpsrvSend, N.dAlpsrvReq]); generalize defnByName _ _ = r; cases r <;> rfl))

theorem cfgnmea_eq (ctx : Ctx) (kw : Kw) (fuel : Nat) :
    runFn (selHost ctx kw) fuel fn_get_cfgnmea_dict [.host .kwargs] ()
      = (encSel (selectDefn ctx .cfgnmea [] .get kw), ()) := by
  unfold runFn fn_get_cfgnmea_dict
  cases kw with
  | empty =>
    repeat vp
    rfl
  | attrs l =>
    repeat vp
    rfl
  | payload p =>
    vp
    by_cases h4 : p.length = 4
    · have e : ((p.length : Nat) : Int) = 4 := by omega
      repeat vp [e]
      simp only [selectDefn, kwPayload?, h4, ↓reduceIte, tableOf, encSel]
      sel_close
    · have e : ¬ (((p.length : Nat) : Int) = 4) := by omega
      by_cases h12 : p.length = 12
      · have e2 : ((p.length : Nat) : Int) = 12 := by omega
        repeat vp [e2]
        simp only [selectDefn, kwPayload?, h12, Nat.reduceEqDiff, ↓reduceIte, tableOf, encSel]
        sel_close
      · have e2 : ¬ (((p.length : Nat) : Int) = 12) := by omega
        repeat vp [e, e2]
        simp only [selectDefn, kwPayload?, h4, h12, ↓reduceIte, tableOf, encSel]
        sel_close

theorem aopstatus_eq (ctx : Ctx) (kw : Kw) (fuel : Nat) :
    runFn (selHost ctx kw) fuel fn_get_aopstatus_dict [.host .kwargs] ()
      = (encSel (selectDefn ctx .aopstatus [] .get kw), ()) := by
  unfold runFn fn_get_aopstatus_dict
  cases kw with
  | empty => repeat vp
             rfl
  | attrs l => repeat vp
               rfl
  | payload p =>
    vp
    by_cases h : p.length = 20
    · have e : ((p.length : Nat) : Int) = 20 := by omega
      repeat vp [e]
      simp only [selectDefn, kwPayload?, h, ↓reduceIte, tableOf, encSel]
      sel_close
    · have e : ¬ (((p.length : Nat) : Int) = 20) := by omega
      repeat vp [e]
      simp only [selectDefn, kwPayload?, h, ↓reduceIte, tableOf, encSel]
      sel_close

/-- selectors that look at one discriminator byte: keyword value through `val2bytes(·, U1)`, else a payload slice -/
theorem rxmpmp_eq (ctx : Ctx) (kw : Kw) (fuel : Nat) :
    runFn (selHost ctx kw) fuel fn_get_rxmpmp_dict [.host .kwargs] ()
      = (encSel (selectDefn ctx .rxmpmp [] .set kw), ()) := by
  unfold runFn fn_get_rxmpmp_dict
  cases kw with
  | empty => repeat vp
             rfl
  | payload p =>
    vp [List.any_nil]
    by_cases h : slice p 0 1 = [0]
    · repeat vp [h, pySlice_nonneg, Int.reduceLE, Int.reduceToNat]
      simp only [selectDefn, discr, kwGet, kwPayload?, bind, Except.bind, h, ↓reduceIte, tableOf, encSel]
      sel_close
    · repeat vp [h, pySlice_nonneg, Int.reduceLE, Int.reduceToNat]
      simp only [selectDefn, discr, kwGet, kwPayload?, bind, Except.bind, h, ↓reduceIte, tableOf, encSel]
      sel_close
  | attrs l =>
    cases hg : kwLookup l ⟨0x76657273696f6e, []⟩ with
    | none =>
      repeat vp [hg]
      simp only [selectDefn, discr, kwGet_attrs, N.kwVersion, hg, kwPayload?, bind, Except.bind, encSel, encR]
      rfl
    | some pv =>
      vp [hg, selCall]
      cases hv : val2bytes ctx.atttype pv (Ty.t cU 1) with
      | error e =>
        simp only [encR]
        simp only [selectDefn, discr, kwGet_attrs, N.kwVersion, hg, hv, kwPayload?, bind, Except.bind, encSel, encR]
      | ok b =>
        simp only [encR]
        by_cases h : b = [0]
        · repeat vp [h]
          simp only [selectDefn, discr, kwGet_attrs, N.kwVersion, hg, hv, kwPayload?, bind, Except.bind, h, ↓reduceIte, tableOf, encSel]
          sel_close
        · repeat vp [h]
          simp only [selectDefn, discr, kwGet_attrs, N.kwVersion, hg, hv, kwPayload?, bind, Except.bind, h, ↓reduceIte, tableOf, encSel]
          sel_close
theorem rxmrlm_eq (ctx : Ctx) (kw : Kw) (fuel : Nat) :
    runFn (selHost ctx kw) fuel fn_get_rxmrlm_dict [.host .kwargs] ()
      = (encSel (selectDefn ctx .rxmrlm [] .get kw), ()) := by
  unfold runFn fn_get_rxmrlm_dict
  cases kw with
  | empty => repeat vp
             rfl
  | payload p =>
    vp [List.any_nil]
    by_cases h : slice p 1 2 = [1]
    · repeat vp [h, pySlice_nonneg, Int.reduceLE, Int.reduceToNat]
      simp only [selectDefn, discr, kwGet, kwPayload?, bind, Except.bind, h, ↓reduceIte, tableOf, encSel]
      sel_close
    · repeat vp [h, pySlice_nonneg, Int.reduceLE, Int.reduceToNat]
      simp only [selectDefn, discr, kwGet, kwPayload?, bind, Except.bind, h, ↓reduceIte, tableOf, encSel]
      sel_close
  | attrs l =>
    cases hg : kwLookup l ⟨0x74797065, []⟩ with
    | none =>
      repeat vp [hg]
      simp only [selectDefn, discr, kwGet_attrs, N.kwType, hg, kwPayload?, bind, Except.bind, encSel, encR]
      rfl
    | some pv =>
      vp [hg, selCall]
      cases hv : val2bytes ctx.atttype pv (Ty.t cU 1) with
      | error e =>
        simp only [encR]
        simp only [selectDefn, discr, kwGet_attrs, N.kwType, hg, hv, kwPayload?, bind, Except.bind, encSel, encR]
      | ok b =>
        simp only [encR]
        by_cases h : b = [1]
        · repeat vp [h]
          simp only [selectDefn, discr, kwGet_attrs, N.kwType, hg, hv, kwPayload?, bind, Except.bind, h, ↓reduceIte, tableOf, encSel]
          sel_close
        · repeat vp [h]
          simp only [selectDefn, discr, kwGet_attrs, N.kwType, hg, hv, kwPayload?, bind, Except.bind, h, ↓reduceIte, tableOf, encSel]
          sel_close
theorem relposned_eq (ctx : Ctx) (kw : Kw) (fuel : Nat) :
    runFn (selHost ctx kw) fuel fn_get_relposned_dict [.host .kwargs] ()
      = (encSel (selectDefn ctx .relposned [] .get kw), ()) := by
  unfold runFn fn_get_relposned_dict
  cases kw with
  | empty => repeat vp
             rfl
  | payload p =>
    vp [List.any_nil]
    by_cases h : slice p 0 1 = [0]
    · repeat vp [h, pySlice_nonneg, Int.reduceLE, Int.reduceToNat]
      simp only [selectDefn, discr, kwGet, kwPayload?, bind, Except.bind, h, ↓reduceIte, tableOf, encSel]
      sel_close
    · repeat vp [h, pySlice_nonneg, Int.reduceLE, Int.reduceToNat]
      simp only [selectDefn, discr, kwGet, kwPayload?, bind, Except.bind, h, ↓reduceIte, tableOf, encSel]
      sel_close
  | attrs l =>
    cases hg : kwLookup l ⟨0x76657273696f6e, []⟩ with
    | none =>
      repeat vp [hg]
      simp only [selectDefn, discr, kwGet_attrs, N.kwVersion, hg, kwPayload?, bind, Except.bind, encSel, encR]
      rfl
    | some pv =>
      vp [hg, selCall]
      cases hv : val2bytes ctx.atttype pv (Ty.t cU 1) with
      | error e =>
        simp only [encR]
        simp only [selectDefn, discr, kwGet_attrs, N.kwVersion, hg, hv, kwPayload?, bind, Except.bind, encSel, encR]
      | ok b =>
        simp only [encR]
        by_cases h : b = [0]
        · repeat vp [h]
          simp only [selectDefn, discr, kwGet_attrs, N.kwVersion, hg, hv, kwPayload?, bind, Except.bind, h, ↓reduceIte, tableOf, encSel]
          sel_close
        · repeat vp [h]
          simp only [selectDefn, discr, kwGet_attrs, N.kwVersion, hg, hv, kwPayload?, bind, Except.bind, h, ↓reduceIte, tableOf, encSel]
          sel_close
theorem secsig_eq (ctx : Ctx) (kw : Kw) (fuel : Nat) :
    runFn (selHost ctx kw) fuel fn_get_secsig_dict [.host .kwargs] ()
      = (encSel (selectDefn ctx .secsig [] .get kw), ()) := by
  unfold runFn fn_get_secsig_dict
  cases kw with
  | empty => repeat vp
             rfl
  | payload p =>
    vp [List.any_nil]
    by_cases h : slice p 0 1 = [1]
    · repeat vp [h, pySlice_nonneg, Int.reduceLE, Int.reduceToNat]
      simp only [selectDefn, discr, kwGet, kwPayload?, bind, Except.bind, h, ↓reduceIte, tableOf, encSel]
      sel_close
    · repeat vp [h, pySlice_nonneg, Int.reduceLE, Int.reduceToNat]
      simp only [selectDefn, discr, kwGet, kwPayload?, bind, Except.bind, h, ↓reduceIte, tableOf, encSel]
      sel_close
  | attrs l =>
    cases hg : kwLookup l ⟨0x76657273696f6e, []⟩ with
    | none =>
      repeat vp [hg]
      simp only [selectDefn, discr, kwGet_attrs, N.kwVersion, hg, kwPayload?, bind, Except.bind, encSel, encR]
      rfl
    | some pv =>
      vp [hg, selCall]
      cases hv : val2bytes ctx.atttype pv (Ty.t cU 1) with
      | error e =>
        simp only [encR]
        simp only [selectDefn, discr, kwGet_attrs, N.kwVersion, hg, hv, kwPayload?, bind, Except.bind, encSel, encR]
      | ok b =>
        simp only [encR]
        by_cases h : b = [1]
        · repeat vp [h]
          simp only [selectDefn, discr, kwGet_attrs, N.kwVersion, hg, hv, kwPayload?, bind, Except.bind, h, ↓reduceIte, tableOf, encSel]
          sel_close
        · repeat vp [h]
          simp only [selectDefn, discr, kwGet_attrs, N.kwVersion, hg, hv, kwPayload?, bind, Except.bind, h, ↓reduceIte, tableOf, encSel]
          sel_close
theorem alpsrv_eq (ctx : Ctx) (kw : Kw) (fuel : Nat) :
    runFn (selHost ctx kw) fuel fn_get_alpsrv_dict [.host .kwargs] ()
      = (encSel (selectDefn ctx .alpsrv [] .get kw), ()) := by
  unfold runFn fn_get_alpsrv_dict
  cases kw with
  | empty => repeat vp
             rfl
  | payload p =>
    vp [List.any_nil]
    by_cases h : slice p 1 2 = [0xff]
    · repeat vp [h, pySlice_nonneg, Int.reduceLE, Int.reduceToNat]
      simp only [selectDefn, discr, kwGet, kwPayload?, bind, Except.bind, h, ↓reduceIte, tableOf, encSel]
      sel_close
    · repeat vp [h, pySlice_nonneg, Int.reduceLE, Int.reduceToNat]
      simp only [selectDefn, discr, kwGet, kwPayload?, bind, Except.bind, h, ↓reduceIte, tableOf, encSel]
      sel_close
  | attrs l =>
    cases hg : kwLookup l ⟨0x74797065, []⟩ with
    | none =>
      repeat vp [hg]
      simp only [selectDefn, discr, kwGet_attrs, N.kwType, hg, kwPayload?, bind, Except.bind, encSel, encR]
      rfl
    | some pv =>
      vp [hg, selCall]
      cases hv : val2bytes ctx.atttype pv (Ty.t cU 1) with
      | error e =>
        simp only [encR]
        simp only [selectDefn, discr, kwGet_attrs, N.kwType, hg, hv, kwPayload?, bind, Except.bind, encSel, encR]
      | ok b =>
        simp only [encR]
        by_cases h : b = [0xff]
        · repeat vp [h]
          simp only [selectDefn, discr, kwGet_attrs, N.kwType, hg, hv, kwPayload?, bind, Except.bind, h, ↓reduceIte, tableOf, encSel]
          sel_close
        · repeat vp [h]
          simp only [selectDefn, discr, kwGet_attrs, N.kwType, hg, hv, kwPayload?, bind, Except.bind, h, ↓reduceIte, tableOf, encSel]
          sel_close

theorem cfgtp5_eq (ctx : Ctx) (kw : Kw) (fuel : Nat) :
    runFn (selHost ctx kw) fuel fn_get_cfgtp5_dict [.host .kwargs] ()
      = (encSel (selectDefn ctx .cfgtp5 [] .poll kw), ()) := by
  unfold runFn fn_get_cfgtp5_dict
  cases kw with
  | empty =>
    repeat vp
    simp only [selectDefn, kwPayload?, kwHas_empty, Bool.false_eq_true, ↓reduceIte, Nat.reduceEqDiff, tableOf, encSel]
    sel_close
  | payload p =>
    vp; vp
    by_cases h : p.length = 1
    · have e : ((p.length : Nat) : Int) = 1 := by omega
      repeat vp [e]
      simp only [selectDefn, kwPayload?, h, ↓reduceIte, tableOf, encSel]
      sel_close
    · have e : ¬ (((p.length : Nat) : Int) = 1) := by omega
      repeat vp [e]
      simp only [selectDefn, kwPayload?, h, ↓reduceIte, tableOf, encSel]
      sel_close
  | attrs l =>
    vp
    cases hg : kwLookup l ⟨0x7470496478, []⟩ with
    | none =>
      repeat vp [hg]
      simp only [selectDefn, kwPayload?, kwHas_attrs, N.kwTpIdx, hg, Option.isSome, Bool.false_eq_true, ↓reduceIte,
        Nat.reduceEqDiff, tableOf, encSel]
      sel_close
    | some pv =>
      repeat vp [hg]
      simp only [selectDefn, kwPayload?, kwHas_attrs, N.kwTpIdx, hg, Option.isSome, ↓reduceIte, tableOf, encSel]
      sel_close

theorem rxmpmreq_eq (ctx : Ctx) (kw : Kw) (fuel : Nat) :
    runFn (selHost ctx kw) fuel fn_get_rxmpmreq_dict [.host .kwargs] ()
      = (encSel (selectDefn ctx .rxmpmreq [] .set kw), ()) := by
  unfold runFn fn_get_rxmpmreq_dict
  cases kw with
  | empty =>
    repeat vp
    rfl
  | payload p =>
    vp; vp
    by_cases h : p.length = 16
    · have e : ((p.length : Nat) : Int) = 16 := by omega
      repeat vp [e]
      simp only [selectDefn, kwPayload?, kwHas_payload, Bool.false_eq_true, h, ↓reduceIte, tableOf, encSel]
      sel_close
    · have e : ¬ (((p.length : Nat) : Int) = 16) := by omega
      repeat vp [e]
      simp only [selectDefn, kwPayload?, kwHas_payload, Bool.false_eq_true, h, ↓reduceIte, tableOf, encSel]
      sel_close
  | attrs l =>
    vp
    cases hg : kwLookup l ⟨0x76657273696f6e, []⟩ with
    | none =>
      repeat vp [hg]
      simp only [selectDefn, kwPayload?, kwHas_attrs, N.kwVersion, hg, Option.isSome, Bool.false_eq_true, ↓reduceIte,
        encSel, encR]
      rfl
    | some pv =>
      repeat vp [hg]
      simp only [selectDefn, kwPayload?, kwHas_attrs, N.kwVersion, hg, Option.isSome, ↓reduceIte, tableOf, encSel]
      sel_close

theorem cfgdat_eq (ctx : Ctx) (kw : Kw) (fuel : Nat) :
    runFn (selHost ctx kw) fuel fn_get_cfgdat_dict [.host .kwargs] ()
      = (encSel (selectDefn ctx .cfgdat [] .set kw), ()) := by
  unfold runFn fn_get_cfgdat_dict
  cases kw with
  | empty =>
    repeat vp
    simp only [selectDefn, kwPayload?, kwHas_empty, Nat.reduceEqDiff, decide_false, Bool.or_self, Bool.false_eq_true,
      ↓reduceIte, tableOf, encSel]
    sel_close
  | payload p =>
    vp; vp
    by_cases h : p.length = 2
    · have e : ((p.length : Nat) : Int) = 2 := by omega
      repeat vp [e]
      simp only [selectDefn, kwPayload?, kwHas_payload, h, decide_true, Bool.true_or, ↓reduceIte, tableOf, encSel]
      sel_close
    · have e : ¬ (((p.length : Nat) : Int) = 2) := by omega
      repeat vp [e]
      simp only [selectDefn, kwPayload?, kwHas_payload, h, decide_false, Bool.or_self, Bool.false_eq_true, ↓reduceIte,
        tableOf, encSel]
      sel_close
  | attrs l =>
    vp; vp
    cases hg : kwLookup l ⟨0x646174756d4e756d, []⟩ with
    | none =>
      repeat vp [hg]
      simp only [selectDefn, kwPayload?, kwHas_attrs, N.kwDatumNum, hg, Option.isSome, Nat.reduceEqDiff, decide_false,
        Bool.or_self, Bool.false_eq_true, ↓reduceIte, tableOf, encSel]
      sel_close
    | some pv =>
      repeat vp [hg]
      simp only [selectDefn, kwPayload?, kwHas_attrs, N.kwDatumNum, hg, Option.isSome, Bool.or_true, ↓reduceIte,
        tableOf, encSel]
      sel_close

theorem timvcocal_eq (ctx : Ctx) (kw : Kw) (fuel : Nat) :
    runFn (selHost ctx kw) fuel fn_get_timvcocal_dict [.host .kwargs] ()
      = (encSel (selectDefn ctx .timvcocal [] .set kw), ()) := by
  unfold runFn fn_get_timvcocal_dict
  cases kw with
  | empty =>
    repeat vp
    rfl
  | payload p =>
    vp; vp; vp
    by_cases h : p.length = 1
    · have e : ((p.length : Nat) : Int) = 1 := by omega
      repeat vp [e]
      simp only [selectDefn, kwGet_payload, kwPayload?, h, ↓reduceIte, tableOf, encSel]
      sel_close
    · have e : ¬ (((p.length : Nat) : Int) = 1) := by omega
      repeat vp [e]
      simp only [selectDefn, kwGet_payload, kwPayload?, h, ↓reduceIte, tableOf, encSel]
      sel_close
  | attrs l =>
    vp; vp
    cases hg : kwLookup l ⟨0x74797065, []⟩ with
    | none =>
      repeat vp [hg]
      simp only [selectDefn, kwGet_attrs, N.kwType, hg, kwPayload?, encSel, encR]
      rfl
    | some pv =>
      vp [hg]
      cases pv with
      | int i =>
        by_cases h0 : i = 0
        · repeat vp [h0, V.ofPy]
          simp only [selectDefn, kwGet_attrs, N.kwType, hg, h0, beq_self_eq_true, ↓reduceIte, tableOf, encSel]
          sel_close
        · repeat vp [h0, V.ofPy]
          have : (i == 0) = false := by simpa using h0
          simp only [selectDefn, kwGet_attrs, N.kwType, hg, this, Bool.false_eq_true, ↓reduceIte, tableOf, encSel]
          sel_close
      | bool b =>
        cases b
        · repeat vp [V.ofPy]
          simp only [selectDefn, kwGet_attrs, N.kwType, hg, Bool.not_false, ↓reduceIte, tableOf, encSel]
          sel_close
        · repeat vp [V.ofPy]
          simp only [selectDefn, kwGet_attrs, N.kwType, hg, Bool.not_true, Bool.false_eq_true, ↓reduceIte, tableOf, encSel]
          sel_close
      | float f =>
        cases hfin : F64.isFinite f
        · repeat vp [V.ofPy, hfin, Bool.false_and]
          simp only [selectDefn, kwGet_attrs, N.kwType, hg, hfin, Bool.false_and, Bool.false_eq_true, ↓reduceIte, tableOf, encSel]
          sel_close
        · by_cases hn : (F64.toQ f).num = 0
          · repeat vp [V.ofPy, hfin, hn, Bool.true_and, Nat.zero_mul, Int.natAbs_zero, Bool.or_true, Bool.and_true]
            simp only [selectDefn, kwGet_attrs, N.kwType, hg, hfin, hn, Bool.true_and, decide_true, ↓reduceIte, tableOf, encSel]
            sel_close
          · repeat vp [V.ofPy, hfin, hn, Bool.true_and, Nat.zero_mul, Int.natAbs_zero, Bool.false_and]
            simp only [selectDefn, kwGet_attrs, N.kwType, hg, hfin, hn, Bool.true_and, decide_false, Bool.false_eq_true,
              ↓reduceIte, tableOf, encSel]
            sel_close
      | str u => repeat vp [V.ofPy]
                 simp only [selectDefn, kwGet_attrs, N.kwType, hg, Bool.false_eq_true, ↓reduceIte, tableOf, encSel]
                 sel_close
      | bytes u => repeat vp [V.ofPy]
                   simp only [selectDefn, kwGet_attrs, N.kwType, hg, Bool.false_eq_true, ↓reduceIte, tableOf, encSel]
                   sel_close
      | ints u => repeat vp [V.ofPy]
                  simp only [selectDefn, kwGet_attrs, N.kwType, hg, Bool.false_eq_true, ↓reduceIte, tableOf, encSel]
                  sel_close
      | none => repeat vp [V.ofPy]
                simp only [selectDefn, kwGet_attrs, N.kwType, hg, Bool.false_eq_true, ↓reduceIte, tableOf, encSel]
                sel_close
      | other => repeat vp [V.ofPy]
                 simp only [selectDefn, kwGet_attrs, N.kwType, hg, Bool.false_eq_true, ↓reduceIte, tableOf, encSel]
                 sel_close

theorem mga_eq (ctx : Ctx) (kw : Kw) (fuel : Nat) (msg : Bytes) (mode : Mode) :
    runFn (selHost ctx kw) fuel fn_get_mga_dict [.bytes msg, .int (mode.toNat : Nat), .host .kwargs] ()
      = (encSel (selectDefn ctx .mga msg mode kw), ()) := by
  unfold runFn fn_get_mga_dict
  have tail : ∀ (typ : Bytes) (vars0 : List (Name × V SelO)),
      getVar vars0 0x6d7367 = some (.bytes msg) → getVar vars0 0x6d6f6465 = some (.int (mode.toNat : Nat)) →
      getVar vars0 0x747970 = some (.bytes typ) →
      retOf (execB (selHost ctx kw) fuel
          [(.assign 0x6964656e74697479 (.index (.glob 0x5542585f4d5347494453) (.bin .add (.var 0x6d7367) (.var 0x747970)))),
           (.if_ (.cmp .eq (.var 0x6d6f6465) (.glob 0x534554)) [(.ret (.index (.glob 0x5542585f5041594c4f4144535f534554) (.var 0x6964656e74697479)))] []),
           (.ret (.index (.glob 0x5542585f5041594c4f4144535f474554) (.var 0x6964656e74697479)))] ⟨vars0, ()⟩)
      = (encSel (match lookupB (msg ++ typ) ctx.msgids with
                 | none => .error .keyE
                 | some ident => if mode = .set then defnByName ctx.set ident else defnByName ctx.get ident), ()) := by
    intro typ vars0 h1 h2 h3
    cases hl : lookupB (msg ++ typ) ctx.msgids with
    | none =>
      vp [h1, h3, hl]
      rfl
    | some ident =>
      vp [h1, h3, hl]
      cases mode
      · repeat vp [h2, getVar_setVar_ne, getVar_setVar_same, Mode.toNat, Int.cast_ofNat_Int, Int.natCast_zero]
        try simp only [tableOf, encSel, reduceCtorEq, ↓reduceIte]
        sel_close
      · repeat vp [h2, getVar_setVar_ne, getVar_setVar_same, Mode.toNat, Int.cast_ofNat_Int, Int.natCast_one]
        try simp only [tableOf, encSel, ↓reduceIte]
        sel_close
      · repeat vp [h2, getVar_setVar_ne, getVar_setVar_same, Mode.toNat, Int.cast_ofNat_Int]
        try simp only [tableOf, encSel, reduceCtorEq, ↓reduceIte]
        sel_close
  cases kw with
  | empty =>
    repeat vp
    rfl
  | payload p =>
    vp [pySlice_nonneg, Int.reduceLE, Int.reduceToNat]
    have ht := tail (slice p 0 1) _ (by pysimp : getVar [(0x6d7367, V.bytes msg), (0x6d6f6465, V.int ((mode.toNat : Nat) : Int)), (0x6b7761726773, V.host SelO.kwargs), (0x747970, V.bytes (slice p 0 1))] 0x6d7367 = _) (by pysimp) (by pysimp)
    simp only [retOf] at ht
    rw [ht]
    simp only [selectDefn, discr, kwGet_payload, kwPayload?, bind, Except.bind]
    try rfl
  | attrs l =>
    cases hg : kwLookup l ⟨0x74797065, []⟩ with
    | none =>
      repeat vp [hg]
      simp only [selectDefn, discr, kwGet_attrs, N.kwType, hg, kwPayload?, bind, Except.bind, encSel, encR]
      rfl
    | some pv =>
      vp [hg, selCall]
      cases hv : val2bytes ctx.atttype pv (Ty.t cU 1) with
      | error e =>
        simp only [encR]
        simp only [selectDefn, discr, kwGet_attrs, N.kwType, hg, hv, kwPayload?, bind, Except.bind, encSel, encR]
      | ok b =>
        simp only [encR]
        pysimp
        have ht := tail b _ (by pysimp : getVar [(0x6d7367, V.bytes msg), (0x6d6f6465, V.int ((mode.toNat : Nat) : Int)), (0x6b7761726773, V.host SelO.kwargs), (0x747970, V.bytes b)] 0x6d7367 = _) (by pysimp) (by pysimp)
        simp only [retOf] at ht
        rw [ht]
        simp only [selectDefn, discr, kwGet_attrs, N.kwType, hg, hv, kwPayload?, bind, Except.bind]
        try rfl
end Ubx.Py
