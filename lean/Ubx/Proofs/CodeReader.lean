import Ubx.Proofs.CodeHelpers
import Ubx.Model.Reader
import Ubx.Model.PyReaderHosts
/-!
# The stream reader, as written in the working tree, computes the model's `step`

`Gen.Code.fn_UBXReader_*` are the syntax trees of `read`, `_parse_ubx`, `_parse_nmea`, `_parse_rtcm3`, `_do_error`
(regenerated on every run). The host (`h1`) supplies what they talk to: the byte source as `_read_bytes` / `_read_line`
see it (the model's `Src`: data, EOFError, or UBXStreamError), the three protocol parsers as the model's oracle `O`
(a verdict becomes a returned object or a raised exception of the class the verdict names), the reader's options, and
the error handler / logger (calls are recorded in the state).
-/
set_option maxRecDepth 10000
set_option linter.unusedSimpArgs false
namespace Ubx.Py
open Ubx Ubx.Gen.Code

variable {σ α : Type}

theorem h1_glob (E : REnv σ α) : (h1 E).glob = readGlob := rfl
theorem h1_call (E : REnv σ α) : (h1 E).call = h1Call E := rfl
theorem h1_mcall (E : REnv σ α) : (h1 E).mcall = h1Mcall E := rfl
theorem h1_attr (E : REnv σ α) : (h1 E).attr = h1Attr E := rfl
theorem h1_truthy (E : REnv σ α) (o : RO α) : (h1 E).truthy o = true := rfl

/-- what `_parse_ubx/_parse_nmea/_parse_rtcm3` return once the frame is delimited -/
def parsedOf (E : REnv σ α) (p : Proto) (raw : Bytes) : X (RO α) (V (RO α)) :=
  if E.cfg.filter &&& p.bit ≠ 0 ∧ E.cfg.parsing = true then
    match verdictResult E p raw with
    | .ok v => .ok (.tuple [.bytes raw, v])
    | .error e => .error e
  else .ok (.tuple [.bytes raw, .none])

theorem rg_UBX : readGlob (α := α) 0x5542585f50524f544f434f4c = some (.int 2) := by
  simp only [readGlob, globals, globLookup, Nat.reduceEqDiff, ↓reduceIte, G.toV]
theorem rg_NMEA : readGlob (α := α) 0x4e4d45415f50524f544f434f4c = some (.int 1) := by
  simp only [readGlob, globals, globLookup, Nat.reduceEqDiff, ↓reduceIte, G.toV]
theorem rg_RTCM : readGlob (α := α) 0x5254434d335f50524f544f434f4c = some (.int 4) := by
  simp only [readGlob, globals, globLookup, Nat.reduceEqDiff, ↓reduceIte, G.toV]

theorem hm_read (E : REnv σ α) (n : Int) (hn : 0 ≤ n) (s : σ) (cs : List (Name × Nat)) (kw : List (Name × V (RO α))) :
    h1Mcall E (.host .self) 0x5f726561645f6279746573 [.int n] kw ⟨some s, cs⟩
      = srcResult (E.S.read n.toNat s) ⟨some s, cs⟩ := by
  simp [h1Mcall, hn]

theorem hm_read_nat (E : REnv σ α) (k c : Nat) (s : σ) (cs : List (Name × Nat)) (kw : List (Name × V (RO α))) :
    h1Mcall E (.host .self) 0x5f726561645f6279746573 [.int ((k : Int) + (c : Int))] kw ⟨some s, cs⟩
      = srcResult (E.S.read (k + c) s) ⟨some s, cs⟩ := by
  have : (0 : Int) ≤ (k : Int) + (c : Int) := by omega
  have e : ((k : Int) + (c : Int)).toNat = k + c := by omega
  simp [h1Mcall, this, e]

theorem hm_read_nat2 (E : REnv σ α) (k : Nat) (s : σ) (cs : List (Name × Nat)) (kw : List (Name × V (RO α))) :
    h1Mcall E (.host .self) 0x5f726561645f6279746573 [.int ((k : Int) + 2)] kw ⟨some s, cs⟩
      = srcResult (E.S.read (k + 2) s) ⟨some s, cs⟩ := hm_read_nat E k 2 s cs kw

theorem hm_parse (E : REnv σ α) (raw : Bytes) (st : RSt σ) :
    h1Mcall E (.host .self) 0x7061727365 [.bytes raw]
        [(0x76616c6964617465, .int 1001), (0x6d73676d6f6465, .int 1002), (0x70617273656269746669656c64, .int 1003)] st
      = (verdictResult E .ubx raw, st) := rfl

theorem ha_filter (E : REnv σ α) (st : RSt σ) : h1Attr E (.host .self) 0x5f70726f7466696c746572 st = .ok (.int E.cfg.filter) := rfl
theorem ha_parsing (E : REnv σ α) (st : RSt σ) : h1Attr E (.host .self) 0x5f70617273696e67 st = .ok (.bool E.cfg.parsing) := rfl
theorem ha_validate (E : REnv σ α) (st : RSt σ) : h1Attr E (.host .self) 0x5f76616c6964617465 st = .ok (.int 1001) := rfl
theorem ha_msgmode (E : REnv σ α) (st : RSt σ) : h1Attr E (.host .self) 0x5f6d73676d6f6465 st = .ok (.int 1002) := rfl
theorem ha_parsebf (E : REnv σ α) (st : RSt σ) : h1Attr E (.host .self) 0x5f70617273656266 st = .ok (.int 1003) := rfl
theorem ha_labelmsm (E : REnv σ α) (st : RSt σ) : h1Attr E (.host .self) 0x5f6c6162656c6d736d st = .ok (.int 1004) := rfl
theorem ha_q (E : REnv σ α) (st : RSt σ) : h1Attr E (.host .self) 0x5f717569746f6e6572726f72 st = .ok (.int E.q) := rfl

theorem slice_split2 (b : Bytes) (k : Nat) (h : b.length = k + 2) : slice b 0 k ++ slice b k (k + 2) = b := by
  unfold slice
  simp only [List.drop_zero, Nat.sub_zero, Nat.add_sub_cancel_left]
  rw [List.take_of_length_le (l := b.drop k) (by rw [List.length_drop]; omega)]
  exact List.take_append_drop k b

theorem pySlice_cast_add2 (b : Bytes) (k : Nat) : pySlice b (k : Int) ((k : Int) + 2) = slice b k (k + 2) := by
  have h1 : (0 : Int) ≤ (k : Int) := Int.natCast_nonneg k
  have h2 : (0 : Int) ≤ (k : Int) + 2 := by omega
  rw [pySlice_nonneg b _ _ h1 h2]
  congr 1 <;> omega

theorem pySlice_zero_cast (b : Bytes) (k : Nat) : pySlice b 0 (k : Int) = slice b 0 k := by
  rw [pySlice_nonneg b _ _ (by decide) (Int.natCast_nonneg k)]
  congr 1

theorem intAnd_nat' (a b : Nat) : intAnd (a : Int) (b : Int) = ((a &&& b : Nat) : Int) := by
  unfold intAnd
  have h1 : (0 : Int) ≤ (a : Int) := Int.natCast_nonneg a
  have h2 : (0 : Int) ≤ (b : Int) := Int.natCast_nonneg b
  simp only [h1, h2, if_true, Int.toNat_natCast]

theorem intAnd_nat1 (a : Nat) : intAnd (a : Int) 1 = ((a &&& 1 : Nat) : Int) := intAnd_nat' a 1
theorem intAnd_nat2 (a : Nat) : intAnd (a : Int) 2 = ((a &&& 2 : Nat) : Int) := intAnd_nat' a 2
theorem intAnd_nat4 (a : Nat) : intAnd (a : Int) 4 = ((a &&& 4 : Nat) : Int) := intAnd_nat' a 4

/-- a well-behaved source returns exactly the number of bytes asked for -/
def ExactReads (S : Src σ) : Prop := ∀ n s d s', S.read n s = .ok d s' → d.length = n

macro "rp" "[" ls:Lean.Parser.Tactic.simpLemma,* "]" : tactic => `(tactic| pystep [h1_glob, h1_call, h1_mcall, h1_attr, h1_truthy, hm_read, hm_read_nat, hm_read_nat2, Bool.false_eq_true, fromLE,
  hm_parse, ha_filter, ha_parsing, ha_validate, ha_msgmode, ha_parsebf, ha_labelmsm, ha_q, intAnd_nat1, intAnd_nat2, intAnd_nat4, rg_UBX, rg_NMEA, rg_RTCM, srcResult,
  Int.reduceBEq, Int.natCast_nonneg, Int.toNat_natCast, bne, Bool.beq_eq_decide_eq, Int.reduceEq, Int.reduceNe, decide_true, decide_false, $ls,*])
macro "rp" : tactic => `(tactic| rp [])

theorem parse_ubx_eq (E : REnv σ α) (hS : ExactReads E.S) (fuel : Nat) (hd : Bytes) (s : σ) (cs : List (Name × Nat)) :
    runFn (h1 E) fuel fn_UBXReader__parse_ubx [.host .self, .bytes hd] ⟨some s, cs⟩
      = (match E.S.read 4 s with
         | .eof => (.error (.exc xEOFError 0), ⟨none, cs⟩)
         | .short => (.error (.exc xUBXStreamError 0), ⟨none, cs⟩)
         | .ok h s3 =>
           match E.S.read (ubxLen h) s3 with
           | .eof => (.error (.exc xEOFError 0), ⟨none, cs⟩)
           | .short => (.error (.exc xUBXStreamError 0), ⟨none, cs⟩)
           | .ok body s4 => (parsedOf E .ubx (hd ++ h ++ body), ⟨some s4, cs⟩)) := by
  unfold runFn fn_UBXReader__parse_ubx
  cases hr : E.S.read 4 s with
  | eof => rp [hr]
  | short => rp [hr]
  | ok h s3 =>
    have hl := hS _ _ _ _ hr
    match h, hl with
    | [a, b, c, d], _ =>
      have e1 : slice [a, b, c, d] 0 1 = [a] := rfl
      have e2 : slice [a, b, c, d] 1 2 = [b] := rfl
      have e3 : slice [a, b, c, d] 2 4 = [c, d] := rfl
      rp [hr]
      rp [e1]
      rp [e2]
      rp [e3]
      rp
      have hlen : ubxLen [a, b, c, d] = (c.toNat + 256 * (d.toNat + 256 * 0)) + 2 := by
        simp [ubxLen, le16]
      rw [hlen]
      generalize c.toNat + 256 * (d.toNat + 256 * 0) = k
      cases hr2 : E.S.read (k + 2) s3 with
      | eof => rp [hr2]
      | short => rp [hr2]
      | ok body s4 =>
        have hl2 := hS _ _ _ _ hr2
        rp [hr2]
        rp [pySlice_zero_cast]
        rp [pySlice_cast_add2]
        rp [List.append_assoc, slice_split2 body k hl2]
        simp only [List.append_assoc, List.cons_append, List.nil_append]
        generalize hd ++ a :: b :: c :: d :: body = raw
        by_cases hf : E.cfg.filter &&& 2 = 0
        · have hf' : ((E.cfg.filter &&& 2 : Nat) : Int) = 0 := by rw [hf]; rfl
          repeat rp [hf']
          simp [parsedOf, Proto.bit, hf]
        · have hf' : ¬ (((E.cfg.filter &&& 2 : Nat) : Int) = 0) := by omega
          cases hp : E.cfg.parsing
          · repeat rp [hf', hp]
            simp [parsedOf, Proto.bit, hf, hp]
          · repeat rp [hf', hp]
            cases hv : verdictResult E Proto.ubx raw with
            | error e => simp only [parsedOf, Proto.bit, hv, hf, hp, ne_eq, not_false_eq_true, and_self, ↓reduceIte]
            | ok v =>
              pysimp
              simp only [parsedOf, Proto.bit, hv, hf, hp, ne_eq, not_false_eq_true, and_self, ↓reduceIte]

theorem hm_line (E : REnv σ α) (s : σ) (cs : List (Name × Nat)) (kw : List (Name × V (RO α))) :
    h1Mcall E (.host .self) 0x5f726561645f6c696e65 [] kw ⟨some s, cs⟩ = srcResult (E.S.line s) ⟨some s, cs⟩ := rfl
theorem hc_nmea (E : REnv σ α) (raw : Bytes) (st : RSt σ) :
    h1Call E 0x4e4d45415265616465722e7061727365 [.bytes raw] [(0x76616c6964617465, .int 1001), (0x6d73676d6f6465, .int 1002)] st
      = (verdictResult E .nmea raw, st) := rfl
theorem hc_rtcm (E : REnv σ α) (raw : Bytes) (st : RSt σ) :
    h1Call E 0x5254434d5265616465722e7061727365 [.bytes raw] [(0x76616c6964617465, .int 1001), (0x6c6162656c6d736d, .int 1004)] st
      = (verdictResult E .rtcm raw, st) := rfl

theorem parse_nmea_eq (E : REnv σ α) (fuel : Nat) (hd : Bytes) (s : σ) (cs : List (Name × Nat)) :
    runFn (h1 E) fuel fn_UBXReader__parse_nmea [.host .self, .bytes hd] ⟨some s, cs⟩
      = (match E.S.line s with
         | .eof => (.error (.exc xEOFError 0), ⟨none, cs⟩)
         | .short => (.error (.exc xUBXStreamError 0), ⟨none, cs⟩)
         | .ok l s3 => (parsedOf E .nmea (hd ++ l), ⟨some s3, cs⟩)) := by
  unfold runFn fn_UBXReader__parse_nmea
  cases hr : E.S.line s with
  | eof => rp [hm_line, hr]
  | short => rp [hm_line, hr]
  | ok l s3 =>
    rp [hm_line, hr]
    rp
    generalize hd ++ l = raw
    by_cases hf : E.cfg.filter &&& 1 = 0
    · have hf' : ((E.cfg.filter &&& 1 : Nat) : Int) = 0 := by rw [hf]; rfl
      repeat rp [hf']
      simp [parsedOf, Proto.bit, hf]
    · have hf' : ¬ (((E.cfg.filter &&& 1 : Nat) : Int) = 0) := by omega
      cases hp : E.cfg.parsing
      · repeat rp [hf', hp]
        simp [parsedOf, Proto.bit, hf, hp]
      · repeat rp [hf', hp, hc_nmea]
        cases hv : verdictResult E Proto.nmea raw with
        | error e => simp only [parsedOf, Proto.bit, hv, hf, hp, ne_eq, not_false_eq_true, and_self, ↓reduceIte]
        | ok v =>
          pysimp
          simp only [parsedOf, Proto.bit, hv, hf, hp, ne_eq, not_false_eq_true, and_self, ↓reduceIte]

theorem intOr_nat (a b : Nat) : intOr (a : Int) (b : Int) = ((a ||| b : Nat) : Int) := by
  unfold intOr intAnd intInv
  have h1 : ¬ ((0 : Int) ≤ -(a : Int) - 1) := by omega
  have h2 : ¬ ((0 : Int) ≤ -(b : Int) - 1) := by omega
  simp only [h1, h2, if_false]
  have e1 : (-(-(a : Int) - 1) - 1).toNat = a := by omega
  have e2 : (-(-(b : Int) - 1) - 1).toNat = b := by omega
  rw [e1, e2]
  omega

/-- `hdr3[0] | (hdr[1] << 8)`: the 10-bit RTCM3 length as the model computes it -/
theorem intOr_shl8 (z y : Byte) :
    intOr (z.toNat : Int) ((y.toNat : Int) * 256) = ((z.toNat + 256 * y.toNat : Nat) : Int) := by
  have e : ((y.toNat : Int) * (256 : Int)) = ((y.toNat <<< 8 : Nat) : Int) := by
    rw [Nat.shiftLeft_eq]; omega
  rw [e, intOr_nat]
  congr 1
  have hz : z.toNat < 2 ^ 8 := z.toNat_lt
  rw [Nat.or_comm, ← Nat.shiftLeft_add_eq_or_of_lt hz, Nat.shiftLeft_eq]
  omega

theorem parse_rtcm3_eq (E : REnv σ α) (hS : ExactReads E.S) (fuel : Nat) (x y : Byte) (s : σ) (cs : List (Name × Nat)) :
    runFn (h1 E) fuel fn_UBXReader__parse_rtcm3 [.host .self, .bytes [x, y]] ⟨some s, cs⟩
      = (match E.S.read 1 s with
         | .eof => (.error (.exc xEOFError 0), ⟨none, cs⟩)
         | .short => (.error (.exc xUBXStreamError 0), ⟨none, cs⟩)
         | .ok d3 s3 =>
           match E.S.read (rtcmLen d3 [y]) s3 with
           | .eof => (.error (.exc xEOFError 0), ⟨none, cs⟩)
           | .short => (.error (.exc xUBXStreamError 0), ⟨none, cs⟩)
           | .ok pl s4 =>
             match E.S.read 3 s4 with
             | .eof => (.error (.exc xEOFError 0), ⟨none, cs⟩)
             | .short => (.error (.exc xUBXStreamError 0), ⟨none, cs⟩)
             | .ok crc s5 => (parsedOf E .rtcm ([x, y] ++ d3 ++ pl ++ crc), ⟨some s5, cs⟩)) := by
  unfold runFn fn_UBXReader__parse_rtcm3
  cases hr : E.S.read 1 s with
  | eof => rp [hr]
  | short => rp [hr]
  | ok d3 s3 =>
    have hl := hS _ _ _ _ hr
    match d3, hl with
    | [z], _ =>
      rp [hr]
      rp [Int.reducePow, intOr_shl8, List.length_cons, List.length_nil, Nat.zero_add, Nat.reduceAdd, Int.natCast_one, Int.natCast_zero,
        List.getD_cons_zero, List.getD_cons_succ, Int.reduceMul]
      have hlen : rtcmLen [z] [y] = z.toNat + 256 * y.toNat := by simp [rtcmLen]
      rw [hlen]
      generalize z.toNat + 256 * y.toNat = n
      cases hr2 : E.S.read n s3 with
      | eof => rp [hr2]
      | short => rp [hr2]
      | ok pl s4 =>
        rp [hr2]
        cases hr3 : E.S.read 3 s4 with
        | eof => rp [hr3]
        | short => rp [hr3]
        | ok crc s5 =>
          rp [hr3]
          rp
          generalize [x, y] ++ [z] ++ pl ++ crc = raw
          by_cases hf : E.cfg.filter &&& 4 = 0
          · have hf' : ((E.cfg.filter &&& 4 : Nat) : Int) = 0 := by rw [hf]; rfl
            repeat rp [hf']
            simp [parsedOf, Proto.bit, hf]
          · have hf' : ¬ (((E.cfg.filter &&& 4 : Nat) : Int) = 0) := by omega
            cases hp : E.cfg.parsing
            · repeat rp [hf', hp]
              simp [parsedOf, Proto.bit, hf, hp]
            · repeat rp [hf', hp, hc_rtcm]
              cases hv : verdictResult E Proto.rtcm raw with
              | error e => simp only [parsedOf, Proto.bit, hv, hf, hp, ne_eq, not_false_eq_true, and_self, ↓reduceIte]
              | ok v =>
                pysimp
                simp only [parsedOf, Proto.bit, hv, hf, hp, ne_eq, not_false_eq_true, and_self, ↓reduceIte]

/-! ### `_do_error` -/

theorem rg_ERR_RAISE : readGlob (α := α) 0x4552525f5241495345 = some (.int 2) := by
  simp only [readGlob, globals, globLookup, Nat.reduceEqDiff, ↓reduceIte, G.toV]
theorem rg_ERR_LOG : readGlob (α := α) 0x4552525f4c4f47 = some (.int 1) := by
  simp only [readGlob, globals, globLookup, Nat.reduceEqDiff, ↓reduceIte, G.toV]
theorem ha_handler (E : REnv σ α) (st : RSt σ) :
    h1Attr E (.host .self) 0x5f6572726f7268616e646c6572 st = .ok (if E.hasHandler then .host .handler else .none) := rfl
theorem ha_logger (E : REnv σ α) (st : RSt σ) : h1Attr E (.host .self) 0x5f6c6f67676572 st = .ok (.host .logger) := rfl
theorem hm_handler (E : REnv σ α) (c : Name) (a : Nat) (st : RSt σ) (kw : List (Name × V (RO α))) :
    h1Mcall E (.host .self) 0x5f6572726f7268616e646c6572 [.exc c a] kw st
      = (.ok .none, { st with calls := st.calls ++ [(c, a)] }) := rfl
theorem hm_logger (E : REnv σ α) (c : Name) (a : Nat) (st : RSt σ) (kw : List (Name × V (RO α))) :
    h1Mcall E (.host .logger) 0x6572726f72 [.exc c a] kw st
      = (.ok .none, { st with calls := st.calls ++ [(c, a)] }) := rfl

/-- **`_do_error` as written**: re-raise under ERR_RAISE, report once under ERR_LOG, nothing otherwise -/
theorem do_error_eq (E : REnv σ α) (fuel : Nat) (c : Name) (a : Nat) (st : RSt σ) :
    runFn (h1 E) fuel fn_UBXReader__do_error [.host .self, .exc c a] st
      = (if E.q = 2 then (.error (.exc c a), st)
         else if E.q = 1 then (.ok .none, { st with calls := st.calls ++ [(c, a)] })
         else (.ok .none, st)) := by
  unfold runFn fn_UBXReader__do_error
  by_cases h2 : E.q = 2
  · have e : ((E.q : Nat) : Int) = 2 := by rw [h2]; rfl
    repeat rp [rg_ERR_RAISE, rg_ERR_LOG, e, h2]
  · have e : ¬ (((E.q : Nat) : Int) = 2) := by omega
    by_cases h1 : E.q = 1
    · have e1 : ((E.q : Nat) : Int) = 1 := by rw [h1]; rfl
      cases hh : E.hasHandler <;>
        repeat rp [rg_ERR_RAISE, rg_ERR_LOG, e, e1, h1, h2, ha_handler, ha_logger, hm_handler, hm_logger, hh]
    · have e1 : ¬ (((E.q : Nat) : Int) = 1) := by omega
      repeat rp [rg_ERR_RAISE, rg_ERR_LOG, e, e1, h1, h2]
end Ubx.Py
