import Ubx.Model.Message
import Ubx.Proofs.Bytes
import Ubx.Proofs.WalkPayload
/-! # Frames, the constructor's output, and what `parse` accepts -/
namespace Ubx

/-- the well-formed UBX frame for class `c`, id `i`, payload `p`, with the *textbook* Fletcher checksum -/
def frame (c i : Byte) (p : Bytes) : Bytes :=
  [0xb5, 0x62] ++ [c, i] ++ toLE 2 p.length ++ p ++ fletcherSpec ([c, i] ++ toLE 2 p.length ++ p)

/-- "well-formed": sync characters, class, id, little-endian length = actual payload length, payload, Fletcher checksum -/
def WF (f : Bytes) : Prop := ∃ c i p, p.length < 65536 ∧ f = frame c i p

theorem frame_length (c i : Byte) (p : Bytes) : (frame c i p).length = p.length + 8 := by
  simp [frame, fletcherSpec]; omega

/-- what the constructor produces, whatever route was taken -/
theorem construct_shape (ctx : Ctx) (cls id : Bytes) (modeN : Nat) (bf : Bool) (kw : Kw) (m : Msg)
    (h : construct ctx cls id modeN bf kw = .ok m) :
    m.cls = cls ∧ m.id = id ∧ (m.payload.getD []).length < 65536 ∧
    m.length = toLE 2 (m.payload.getD []).length ∧
    m.checksum = calcChecksum (cls ++ id ++ m.length ++ m.payload.getD []) ∧ m.immutable = true ∧
    (Mode.ofNat? modeN = some m.mode) ∧ m.parsebf = bf := by
  unfold construct at h
  split at h
  · cases h
  · rename_i mode hmode
    split at h
    · cases h
    · rename_i pe hpe
      split at h
      · cases h
      · rename_i lc hlc
        cases h
        unfold lenChecksum at hlc
        split at hlc
        · cases hlc
          exact ⟨rfl, rfl, by assumption, rfl, rfl, rfl, hmode, rfl⟩
        · cases hlc

/-- C04 core: every message the constructor returns serializes to a well-formed frame
    (for one-byte class and id) -/
theorem construct_wf (ctx : Ctx) (c i : Byte) (modeN : Nat) (bf : Bool) (kw : Kw) (m : Msg)
    (h : construct ctx [c] [i] modeN bf kw = .ok m) :
    m.serialize = frame c i (m.payload.getD []) := by
  obtain ⟨h1, h2, _, h4, h5, _, _⟩ := construct_shape ctx [c] [i] modeN bf kw m h
  unfold Msg.serialize frame
  rw [h1, h2, h5, h4, calcChecksum_eq_spec]
  simp [List.append_assoc]

theorem walkFor_payload (ctx : Ctx) (cls id : Bytes) (mode : Mode) (bf : Bool) (p : Bytes) (pe : Option Bytes × Env)
    (h : walkFor ctx cls id mode bf (.payload p) = .ok pe) : pe.1 = some p := by
  unfold walkFor at h
  simp only at h
  split at h
  · cases h
  · rename_i defn _
    split at h
    · cases h
    · rename_i st hst
      cases h
      have := wItems_payload _ (by simp [walkCtx, kwPayload?]) [] defn _ st hst
      simp only [this, kwPayload?, Option.getD_some]

/-- with `payload=` given, the constructor stores exactly that payload -/
theorem construct_payload_kept (ctx : Ctx) (cls id : Bytes) (modeN : Nat) (bf : Bool) (p : Bytes) (m : Msg)
    (h : construct ctx cls id modeN bf (.payload p) = .ok m) : m.payload = some p := by
  unfold construct at h
  split at h
  · cases h
  · split at h
    · cases h
    · rename_i pe hpe
      split at h
      · cases h
      · cases h
        exact walkFor_payload ctx cls id _ bf p pe hpe

theorem construct_empty_payload (ctx : Ctx) (cls id : Bytes) (modeN : Nat) (bf : Bool) (m : Msg)
    (h : construct ctx cls id modeN bf .empty = .ok m) : m.payload = none := by
  unfold construct at h
  split at h
  · cases h
  · split at h
    · cases h
    · rename_i pe hpe
      split at h
      · cases h
      · cases h
        unfold walkFor at hpe
        cases hpe; rfl

end Ubx
