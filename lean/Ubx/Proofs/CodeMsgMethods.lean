import Ubx.Proofs.CodeHelpers
import Ubx.Model.Message
import Ubx.Model.PyMsgHosts
import Ubx.Generated.Tables
/-!
# `UBXMessage._do_len_checksum`, `serialize` and the public getters, as written, are the model's

* `do_len_checksum_eq` / `do_len_checksum_gen`: the length field is `val2bytes(len(payload), U2)` — with the shipped
  `ATTTYPE` table the two little-endian bytes, OverflowError from 65 536 bytes on (`v2b_U2_gen`) — and the checksum is
  `calc_checksum` over class ++ id ++ *that* length field ++ payload, `None` counting as the empty payload: the model's
  `lenChecksum`, which `construct` (every constructor route) ends with. (Seeded changes S78 / S82 masked the length to
  16 bits here.)
* `serialize_eq`: sync bytes ++ class ++ id ++ length ++ payload (or nothing for `None`) ++ checksum = `Msg.serialize`.
* `length_eq`, `payload_eq`, `msg_cls_eq`, `msg_id_eq`, `msgmode_eq`: the public properties C01 observes return the
  stored fields (`length` through `bytes2val(·, U2)` = `Msg.lengthVal`). (S35 computed `length` from the payload.)
-/
set_option maxRecDepth 10000
set_option linter.unusedSimpArgs false
namespace Ubx.Py
open Ubx Ubx.Gen.Code

theorem mh_glob (ctx : Ctx) : (msgHost ctx).glob = mGlob := rfl
theorem mh_call (ctx : Ctx) : (msgHost ctx).call = mCall ctx := rfl
theorem mh_attr (ctx : Ctx) : (msgHost ctx).attr = mAttr := rfl
theorem mh_setattr (ctx : Ctx) : (msgHost ctx).setattr = mSetattr := rfl

theorem serialize_eq (ctx : Ctx) (F : Nat) (st : MF) :
    runFn (msgHost ctx) F fn_UBXMessage_serialize [.host .self] st
      = (.ok (.bytes ([0xb5, 0x62] ++ st.cls ++ st.id ++ st.length ++ st.payload.getD [] ++ st.checksum)), st) := by
  unfold runFn fn_UBXMessage_serialize
  cases hp : st.payload with
  | none =>
    pystep [mh_glob, mh_attr, mGlob, mAttr, hp, payV]
    rfl
  | some p =>
    pystep [mh_glob, mh_attr, mGlob, mAttr, hp, payV]
    rfl

/-- `_do_len_checksum` as written: the length field is `val2bytes(len(payload), U2)`, the checksum is computed over
    class, id, *that* length field and the payload; `None` counts as the empty payload -/
theorem do_len_checksum_eq (ctx : Ctx) (F : Nat) (st : MF) :
    runFn (msgHost ctx) F fn_UBXMessage__do_len_checksum [.host .self] st
      = (match val2bytes ctx.atttype (.int ((st.payload.getD []).length : Nat)) (.t cU 2) with
         | .ok lb => (.ok .none, { st with length := lb, checksum := calcChecksum (st.cls ++ st.id ++ lb ++ st.payload.getD []) })
         | .error e => (.error (.exc (excName e) 0), st)) := by
  unfold runFn fn_UBXMessage__do_len_checksum
  cases hp : st.payload with
  | none =>
    pystep [mh_glob, mh_attr, mGlob, mAttr, hp, payV]
    pystep [mh_glob, mh_attr, mh_call, mh_setattr, mGlob, mAttr, mCall, mSetattr, hp, payV]
    simp only [Option.getD_none]
    cases val2bytes ctx.atttype (PyVal.int ((([] : Bytes).length : Nat) : Int)) (Ty.t cU 2) with
    | error e => rfl
    | ok lb =>
      simp only [encR]
      pysimp [mh_glob, mh_attr, mh_call, mh_setattr, mGlob, mAttr, mCall, mSetattr, hp, payV, List.append_nil]
  | some p =>
    pystep [mh_glob, mh_attr, mGlob, mAttr, hp, payV]
    pystep [mh_glob, mh_attr, mh_call, mh_setattr, mGlob, mAttr, mCall, mSetattr, hp, payV]
    simp only [Option.getD_some]
    cases val2bytes ctx.atttype (PyVal.int ((p.length : Nat) : Int)) (Ty.t cU 2) with
    | error e => rfl
    | ok lb =>
      simp only [encR]
      pysimp [mh_glob, mh_attr, mh_call, mh_setattr, mGlob, mAttr, mCall, mSetattr, hp, payV]

theorem length_eq (ctx : Ctx) (F : Nat) (st : MF) :
    runFn (msgHost ctx) F fn_UBXMessage_length [.host .self] st = (.ok (.int (fromLE st.length : Nat)), st) := by
  unfold runFn fn_UBXMessage_length
  pystep [mh_glob, mh_attr, mh_call, mGlob, mAttr, mCall]

theorem payload_eq (ctx : Ctx) (F : Nat) (st : MF) :
    runFn (msgHost ctx) F fn_UBXMessage_payload [.host .self] st
      = (.ok (payV st.payload), st) := by
  unfold runFn fn_UBXMessage_payload
  pystep [mh_attr, mAttr]

theorem msg_cls_eq (ctx : Ctx) (F : Nat) (st : MF) :
    runFn (msgHost ctx) F fn_UBXMessage_msg_cls [.host .self] st = (.ok (.bytes st.cls), st) := by
  unfold runFn fn_UBXMessage_msg_cls
  pystep [mh_attr, mAttr]

theorem msg_id_eq (ctx : Ctx) (F : Nat) (st : MF) :
    runFn (msgHost ctx) F fn_UBXMessage_msg_id [.host .self] st = (.ok (.bytes st.id), st) := by
  unfold runFn fn_UBXMessage_msg_id
  pystep [mh_attr, mAttr]

theorem msgmode_eq (ctx : Ctx) (F : Nat) (st : MF) :
    runFn (msgHost ctx) F fn_UBXMessage_msgmode [.host .self] st = (.ok (.int st.mode), st) := by
  unfold runFn fn_UBXMessage_msgmode
  pystep [mh_attr, mAttr]

/-- with the shipped `ATTTYPE` table, `val2bytes(n, U2)` of a natural number is its two little-endian bytes, or
    OverflowError from 65536 on -/
theorem v2b_U2_gen (n : Nat) :
    val2bytes Gen.ctx.atttype (.int (n : Int)) (.t cU 2) = if n < 65536 then .ok (toLE 2 n) else .error .overflowE := by
  have hl : lookup (atttyp (.t cU 2)) Gen.ctx.atttype = some [Kind.int] := by decide +kernel
  unfold val2bytes
  simp only [hl]
  have h1 : (PyVal.int (n : Int)).kind? = some Kind.int := rfl
  have h2 : (PyVal.int (n : Int)).asInt? = some (n : Int) := rfl
  have h3 : atttyp (Ty.t cU 2) = cU := rfl
  have h4 : attsiz (Ty.t cU 2) = .ok 2 := rfl
  simp only [h1, h2, h3, h4]
  have h5 : ([Kind.int].contains Kind.int) = true := by decide
  have h6 : ¬ (cU = cX) := by decide
  have h7 : ¬ (cU = cC) := by decide
  have h8 : isIntLetter cU = true := by decide
  have h9 : ¬ (cU = cI) := by decide
  simp only [h5, h6, h7, h8, h9, Bool.not_true, Bool.false_eq_true, ↓reduceIte, decide_false]
  unfold intToBytes
  simp only [Bool.false_eq_true, ↓reduceIte, Int.natCast_nonneg, true_and, Int.toNat_natCast]
  have : ((256 ^ (2 : Int).toNat : Nat)) = 65536 := by decide
  rw [this]
  by_cases h : n < 65536
  · have h' : (n : Int) < ((65536 : Nat) : Int) := by omega
    simp only [h, h', ↓reduceIte]
    rfl
  · have h' : ¬ ((n : Int) < ((65536 : Nat) : Int)) := by omega
    simp only [h, h', ↓reduceIte]

/-- hence `_do_len_checksum` as written is the model's `lenChecksum` -/
theorem do_len_checksum_gen (F : Nat) (st : MF) :
    runFn (msgHost Gen.ctx) F fn_UBXMessage__do_len_checksum [.host .self] st
      = (match lenChecksum st.cls st.id st.payload with
         | .ok (lb, ck) => (.ok .none, { st with length := lb, checksum := ck })
         | .error e => (.error (.exc (excName e) 0), st)) := by
  rw [do_len_checksum_eq, v2b_U2_gen]
  unfold lenChecksum
  by_cases h : (st.payload.getD []).length < 65536 <;> simp [h]
end Ubx.Py
