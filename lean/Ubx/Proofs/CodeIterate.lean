import Ubx.Proofs.CodeReadLoop
import Ubx.Proofs.Policy
import Ubx.Model.Sources
/-!
# From one `read()` to the iteration the reader properties are about

`read_eq` (CodeReadLoop) says what one call of `read()` as written does: `loopModel`, the model's `step` repeated
under the error policy until an item, the end of the stream or an exception. The theorems of C06–C12 are about the
whole iteration (`run` / `runP`: every pass of every call, in one trace). This file closes that gap inside Lean:

* `next_eq` — `UBXReader.__next__` as written (host: `self.read()` is the translated `read()`): the item `read()`
  delivered, `StopIteration` when it returned `(None, None)`, any exception passed on.
* `loop_seg` — one `read()` is exactly the next segment of `runP`: the handler calls it made, then the first item (and
  `runP` continues from the source state `read()` left), or the end, or the exception, for every pass budget at least
  the one `read()` had.
* `drain_runP` — calling `__next__` until it ends (`drain`: what `for raw, parsed in reader` does) yields the items,
  the terminating exception and the handler log of `runP`, for every pass budget `g ≥ n·F`.

Trusted here: Python's iterator protocol (`for` calls `__next__` until `StopIteration`; `raise Class` raises an
instance) — `drain` is written to that rule; it is not code of the repository.
-/
set_option maxRecDepth 10000
set_option linter.unusedSimpArgs false
namespace Ubx.Py
open Ubx Ubx.Gen.Code
variable {σ α : Type}

def PRes.addCalls (l : List EKind) (r : PRes α) : PRes α := { r with calls := l ++ r.calls }

theorem addCalls_nil (r : PRes α) : PRes.addCalls [] r = r := by cases r; rfl
theorem consCall_addCalls (k : EKind) (l : List EKind) (r : PRes α) :
    (PRes.addCalls l r).consCall k = PRes.addCalls (k :: l) r := by cases r; rfl

/-- how one `read()` (the loop model with budget `f`) sits inside the iteration `runP`: it is the segment of the
    iteration up to and including the first delivered item / the end / the exception -/
def Seg (E : REnv σ α) (hdr2 : List Byte) (f : Nat) (src : Option σ) (cs : List (Name × Nat)) : LoopOut σ α → Prop
  | .fuel => True
  | .eofRet _ cs' => ∃ calls, cs' = cs ++ calls.map (excOfKind E) ∧
      ∀ g, f ≤ g → runP E.S (fun b => hdr2.contains b) E.cfg E.O E.q g src = PRes.addCalls calls ⟨[], [], none, none⟩
  | .raised c a _ cs' => ∃ calls, cs' = cs ++ calls.map (excOfKind E) ∧
      ((∃ p, E.crash p a = c ∧ ∀ g, f ≤ g →
          runP E.S (fun b => hdr2.contains b) E.cfg E.O E.q g src = PRes.addCalls calls ⟨[], [], none, some (p, a)⟩)
       ∨ (∃ k, excOfKind E k = (c, a) ∧ ∀ g, f ≤ g →
          runP E.S (fun b => hdr2.contains b) E.cfg E.O E.q g src = PRes.addCalls calls ⟨[], [], some k, none⟩))
  | .deliver raw m s' cs' => ∃ calls p k, k ≤ f ∧ cs' = cs ++ calls.map (excOfKind E) ∧
      ∀ g, f ≤ g → runP E.S (fun b => hdr2.contains b) E.cfg E.O E.q g src
        = PRes.addCalls calls ((runP E.S (fun b => hdr2.contains b) E.cfg E.O E.q (g - k) s').consItem (p, raw, m))

theorem addCalls_addCalls (a b : List EKind) (r : PRes α) :
    PRes.addCalls a (PRes.addCalls b r) = PRes.addCalls (a ++ b) r := by
  cases r; simp [PRes.addCalls]

/-- a pass that does not end the loop: the segment of the remaining passes, shifted by one -/
theorem seg_lift (E : REnv σ α) (hdr2 : List Byte) (f : Nat) (src s' : Option σ) (cs : List (Name × Nat))
    (nc : List EKind) (lo : LoopOut σ α)
    (h : Seg E hdr2 f s' (cs ++ nc.map (excOfKind E)) lo)
    (hr : ∀ g', runP E.S (fun b => hdr2.contains b) E.cfg E.O E.q (g' + 1) src
        = PRes.addCalls nc (runP E.S (fun b => hdr2.contains b) E.cfg E.O E.q g' s')) :
    Seg E hdr2 (f + 1) src cs lo := by
  cases lo with
  | fuel => trivial
  | eofRet s2 cs2 =>
    obtain ⟨calls, h1, h2⟩ := h
    refine ⟨nc ++ calls, by rw [h1, List.map_append, List.append_assoc], ?_⟩
    intro g hg
    obtain ⟨g', rfl⟩ : ∃ g', g = g' + 1 := ⟨g - 1, by omega⟩
    rw [hr, h2 g' (by omega), addCalls_addCalls]
  | raised c a s2 cs2 =>
    obtain ⟨calls, h1, h2⟩ := h
    refine ⟨nc ++ calls, by rw [h1, List.map_append, List.append_assoc], ?_⟩
    rcases h2 with ⟨p, hp, h2⟩ | ⟨k, hk, h2⟩
    · refine Or.inl ⟨p, hp, ?_⟩
      intro g hg
      obtain ⟨g', rfl⟩ : ∃ g', g = g' + 1 := ⟨g - 1, by omega⟩
      rw [hr, h2 g' (by omega), addCalls_addCalls]
    · refine Or.inr ⟨k, hk, ?_⟩
      intro g hg
      obtain ⟨g', rfl⟩ : ∃ g', g = g' + 1 := ⟨g - 1, by omega⟩
      rw [hr, h2 g' (by omega), addCalls_addCalls]
  | deliver raw m s2 cs2 =>
    obtain ⟨calls, p, k, hk, h1, h2⟩ := h
    refine ⟨nc ++ calls, p, k + 1, by omega, by rw [h1, List.map_append, List.append_assoc], ?_⟩
    intro g hg
    obtain ⟨g', rfl⟩ : ∃ g', g = g' + 1 := ⟨g - 1, by omega⟩
    rw [hr, h2 g' (by omega), addCalls_addCalls, Nat.add_sub_add_right]

theorem loop_seg (E : REnv σ α) (hdr2 : List Byte) (f : Nat) : ∀ (src : Option σ) (cs : List (Name × Nat)),
    Seg E hdr2 f src cs (loopModel E hdr2 f src cs) := by
  induction f with
  | zero => intro src cs; simp [loopModel, Seg]
  | succ f ih =>
    intro src cs
    cases src with
    | none =>
      simp only [loopModel, Seg]
      refine ⟨[], by simp, ?_⟩
      intro g hg
      obtain ⟨g', rfl⟩ : ∃ g', g = g' + 1 := ⟨g - 1, by omega⟩
      simp [runP, addCalls_nil]
    | some s =>
      simp only [loopModel]
      cases hst : step E.S (fun b => hdr2.contains b) E.cfg E.O s with
      | mk o s' =>
        simp only
        cases o with
        | eof =>
          simp only [passOut, Seg]
          refine ⟨[], by simp, ?_⟩
          intro g hg
          obtain ⟨g', rfl⟩ : ∃ g', g = g' + 1 := ⟨g - 1, by omega⟩
          simp only [runP, hst, addCalls_nil]
        | skip =>
          simp only [passOut, List.append_nil]
          refine seg_lift E hdr2 f (some s) s' cs [] _ (by simpa using ih s' cs) ?_
          intro g'
          simp only [runP, hst, addCalls_nil]
        | item p raw m =>
          simp only [passOut, List.append_nil]
          cases f with
          | zero => trivial
          | succ f' =>
            refine ⟨[], p, 1, by omega, by simp, ?_⟩
            intro g hg
            obtain ⟨g', rfl⟩ : ∃ g', g = g' + 1 := ⟨g - 1, by omega⟩
            simp only [runP, hst, addCalls_nil, Nat.add_sub_cancel]
        | crash p c =>
          simp only [passOut, List.append_nil]
          refine ⟨[], by simp, Or.inl ⟨p, rfl, ?_⟩⟩
          intro g hg
          obtain ⟨g', rfl⟩ : ∃ g', g = g' + 1 := ⟨g - 1, by omega⟩
          simp only [runP, hst, addCalls_nil]
        | err k =>
          by_cases hq0 : E.q = 0
          · simp only [passOut, hq0, ↓reduceIte, List.append_nil]
            refine seg_lift E hdr2 f (some s) s' cs [] _ (by simpa using ih s' cs) ?_
            intro g'
            simp only [runP, hst, hq0, ↓reduceIte, addCalls_nil]
          · by_cases hq2 : E.q = 2
            · simp only [passOut, hq2, Nat.reduceEqDiff, ↓reduceIte, List.append_nil]
              refine ⟨[], by simp, Or.inr ⟨k, rfl, ?_⟩⟩
              intro g hg
              obtain ⟨g', rfl⟩ : ∃ g', g = g' + 1 := ⟨g - 1, by omega⟩
              simp only [runP, hst, hq2, Nat.reduceEqDiff, ↓reduceIte, addCalls_nil]
            · by_cases hq1 : E.q = 1
              · simp only [passOut, hq1, Nat.reduceEqDiff, ↓reduceIte]
                refine seg_lift E hdr2 f (some s) s' cs [k] _ (by simpa using ih s' (cs ++ [excOfKind E k])) ?_
                intro g'
                simp only [runP, hst, hq1, Nat.reduceEqDiff, ↓reduceIte]
                rw [← addCalls_nil (runP _ _ _ _ _ g' s'), consCall_addCalls, addCalls_nil]
              · simp only [passOut, hq0, hq1, hq2, ↓reduceIte, List.append_nil]
                refine seg_lift E hdr2 f (some s) s' cs [] _ (by simpa using ih s' cs) ?_
                intro g'
                simp only [runP, hst, hq0, hq1, hq2, ↓reduceIte, addCalls_nil]

/-! ### the caller's loop: `__next__` until `StopIteration` or an exception -/

/-- what `for raw, parsed in reader:` observes: the items, the exception that ended it (if any), the handler log -/
abbrev IterRes (α : Type) := List (Bytes × Option α) × Option (Name × Nat) × List (Name × Nat)

/-- at most `n` calls of `__next__`, each running `read()` with pass budget `F`; `none` = a budget ran out -/
def drain (E : REnv σ α) (hdr2 : List Byte) (F : Nat) : Nat → Option σ → List (Name × Nat) → Option (IterRes α)
  | 0, _, _ => none
  | n+1, src, cs =>
    match loopModel E hdr2 F src cs with
    | .fuel => none
    | .eofRet _ cs' => some ([], none, cs')
    | .raised c a _ cs' => some ([], some (c, a), cs')
    | .deliver raw m s' cs' =>
      match drain E hdr2 F n s' cs' with
      | none => none
      | some (its, ex, cs'') => some ((raw, m) :: its, ex, cs'')

/-- the exception that ends the model iteration, as a Python exception class and tag -/
def excOfPRes (E : REnv σ α) (r : PRes α) : Option (Name × Nat) :=
  match r.crashed with
  | some (p, c) => some (E.crash p c, c)
  | none => match r.raised with
    | some k => some (excOfKind E k)
    | none => none

def Agrees (E : REnv σ α) (cs : List (Name × Nat)) (r : PRes α) (o : IterRes α) : Prop :=
  r.items.map (fun x => (x.2.1, x.2.2)) = o.1 ∧ excOfPRes E r = o.2.1 ∧ o.2.2 = cs ++ r.calls.map (excOfKind E)

/-- **Iterating `read()` is the model's `runP`.** If `n` calls of `__next__` (budget `F` each) reach the end of the
    iteration, then what the caller saw — items in order, the exception that ended it, the handler calls — is what
    `runP` (the iteration the C06–C12 theorems are about) gives, for every pass budget `g ≥ n·F`. -/
theorem drain_runP (E : REnv σ α) (hdr2 : List Byte) (F : Nat) (n : Nat) : ∀ (src : Option σ) (cs : List (Name × Nat)),
    match drain E hdr2 F n src cs with
    | none => True
    | some o => ∀ g, n * F ≤ g → Agrees E cs (runP E.S (fun b => hdr2.contains b) E.cfg E.O E.q g src) o := by
  induction n with
  | zero => intro src cs; simp [drain]
  | succ n ih =>
    intro src cs
    simp only [drain]
    have hs := loop_seg E hdr2 F src cs
    generalize loopModel E hdr2 F src cs = lo at hs ⊢
    have hF : F ≤ (n + 1) * F := by rw [Nat.succ_mul]; omega
    cases lo with
    | fuel => trivial
    | eofRet s2 cs2 =>
      obtain ⟨calls, h1, h2⟩ := hs
      intro g hg
      rw [h2 g (by omega)]
      simp [Agrees, PRes.addCalls, excOfPRes, h1]
    | raised c a s2 cs2 =>
      obtain ⟨calls, h1, h2⟩ := hs
      intro g hg
      rcases h2 with ⟨p, hp, h2⟩ | ⟨k, hk, h2⟩
      · rw [h2 g (by omega)]
        simp [Agrees, PRes.addCalls, excOfPRes, h1, hp]
      · rw [h2 g (by omega)]
        simp [Agrees, PRes.addCalls, excOfPRes, h1, hk]
    | deliver raw m s2 cs2 =>
      obtain ⟨calls, p, k, hk, h1, h2⟩ := hs
      have hi := ih s2 cs2
      simp only
      cases hd : drain E hdr2 F n s2 cs2 with
      | none => trivial
      | some o =>
        rw [hd] at hi
        obtain ⟨its, ex, cs3⟩ := o
        intro g hg
        have hg' : n * F ≤ g - k := by rw [Nat.succ_mul] at hg; omega
        obtain ⟨a1, a2, a3⟩ := hi (g - k) hg'
        rw [h2 g (by omega)]
        simp only [Agrees] at a1 a2 a3 ⊢
        generalize runP E.S (fun b => hdr2.contains b) E.cfg E.O E.q (g - k) s2 = r at a1 a2 a3 ⊢
        refine ⟨?_, ?_, ?_⟩
        · simp [PRes.addCalls, PRes.consItem, a1]
        · simpa [PRes.addCalls, PRes.consItem, excOfPRes] using a2
        · simp [PRes.addCalls, PRes.consItem, a3, h1, List.append_assoc]

/-- non-vacuity: a stream of a junk byte, a well-formed UBX frame (empty ACK-ACK-like body), a frame the parser
    rejects and a truncated frame, read from a file under ERR_LOG, *does* end within 5 calls of 10 passes each,
    with one item, one handler call and no exception -/
def exEnv : REnv Bytes Unit :=
  { S := fileSrc, cfg := ⟨7, true⟩, O := fun _ raw => if raw.length = 8 then .ok () else .rejected 3,
    q := 1, hasHandler := true, rej := fun _ _ => xUBXParseError, crash := fun _ _ => xKeyError }
example :
    drain exEnv [0x47] 10 5 (some [0x00, 0xb5, 0x62, 0x05, 0x01, 0x00, 0x00, 0x06, 0x17,
                               0xb5, 0x62, 0x05, 0x01, 0x01, 0x00, 0x09, 0x10, 0x41, 0xb5, 0x62, 0x05]) []
      = some ([([0xb5, 0x62, 0x05, 0x01, 0x00, 0x00, 0x06, 0x17], some ())], none, [(xUBXParseError, 3), (xUBXStreamError, 0)]) := by
  decide +kernel


theorem h3_glob (E : REnv σ α) (f : Nat) : (h3 E f).glob = h3Glob := rfl
theorem h3_mcall (E : REnv σ α) (f : Nat) : (h3 E f).mcall = h3Mcall E f := rfl
theorem h3m_read (E : REnv σ α) (f : Nat) (kw : List (Name × V (RO α))) (st : RSt σ) :
    h3Mcall E f (.host .self) 0x72656164 [] kw st = runFn (h2 E f) f fn_UBXReader_read [.host .self] st := rfl

def NextPost : LoopOut σ α → X (RO α) (V (RO α)) × RSt σ → Prop
  | .fuel, r => r.1 = .error (.exc xFuel 0)
  | .eofRet s' cs, r => r = (.error (.exc xStopIteration 0), ⟨s', cs⟩)
  | .deliver raw m s' cs, r => r = (.ok (.tuple [.bytes raw, parsedV m]), ⟨s', cs⟩)
  | .raised c a s' cs, r => r = (.error (.exc c a), ⟨s', cs⟩)

theorem next_eq (E : REnv σ α) (hS : ExactReads E.S) (hC : CatchOK E) (hdr2 : List Byte)
    (hN : readGlob (α := α) 0x4e4d45415f484452 = some (.tuple (hdr2.map (fun b => V.bytes [0x24, b]))))
    (F : Nat) (src : Option σ) (cs : List (Name × Nat)) :
    NextPost (loopModel E hdr2 F src cs) (runFn (h3 E F) F fn_UBXReader___next__ [.host .self] ⟨src, cs⟩) := by
  unfold runFn fn_UBXReader___next__
  have hr := read_eq E hS hC hdr2 hN F src cs
  rw [execB_cons]; pysimp [h3_mcall, h3m_read]
  generalize runFn (h2 E F) F fn_UBXReader_read [.host .self] ⟨src, cs⟩ = r at hr ⊢
  generalize loopModel E hdr2 F src cs = lo at hr ⊢
  cases lo with
  | fuel =>
    obtain ⟨r1, r2⟩ := r
    simp only [ReadPost] at hr
    subst hr
    simp [NextPost]
  | eofRet s' cs' =>
    simp only [ReadPost] at hr
    subst hr
    pysimp
    pystep [h3_glob, h3Glob]
    simp [NextPost, xStopIteration]
  | deliver raw m s' cs' =>
    simp only [ReadPost] at hr
    subst hr
    pysimp
    pystep [h3_glob, h3Glob]
    simp [NextPost]
  | raised c a s' cs' =>
    simp only [ReadPost] at hr
    subst hr
    simp [NextPost]
end Ubx.Py
