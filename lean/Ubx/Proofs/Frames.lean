import Ubx.Proofs.Reader
/-!
# Framing is independent of filter, parsers and error policy (C06, C11, C12)
-/
namespace Ubx
variable {α σ : Type}

theorem step_eq (S : Src σ) (nmeaHdr) (cfg : RCfg) (O : Oracle α) (s : σ) :
    step S nmeaHdr cfg O s = post cfg O (delimit S nmeaHdr s) := by
  unfold step delimit
  cases S.read 1 s with
  | eof => simp [post]
  | short => simp [post]
  | ok d1 s1 =>
    dsimp only
    split
    · simp [post]
    · cases S.read 1 s1 with
      | eof => simp [post]
      | short => simp [post]
      | ok d2 s2 =>
        dsimp only
        split
        · cases S.read 4 s2 with
          | eof => simp [post]
          | short => simp [post]
          | ok hd s3 => dsimp only; cases S.read (ubxLen hd) s3 <;> simp [post]
        · split
          · cases S.line s2 <;> simp [post]
          · split
            · cases S.read 1 s2 with
              | eof => simp [post]
              | short => simp [post]
              | ok d3 s3 =>
                dsimp only
                cases S.read (rtcmLen d3 d2) s3 with
                | eof => simp [post]
                | short => simp [post]
                | ok pl s4 => dsimp only; cases S.read 3 s4 <;> simp [post]
            · simp [post]

/-- the parsers raise nothing outside the reader's catch list -/
def NoCrash (O : Oracle α) : Prop := ∀ p raw c, O p raw ≠ .crash c

theorem finish_cases (cfg : RCfg) (O : Oracle α) (hO : NoCrash O) (p : Proto) (raw : Bytes) :
    (∃ m, finish cfg O p raw = .item p raw m ∧ deliver cfg O (p, raw) = some (p, raw, m)) ∨
    ((finish cfg O p raw = .skip ∨ ∃ c, finish cfg O p raw = .err (.rejected p c)) ∧ deliver cfg O (p, raw) = none) := by
  unfold finish deliver
  by_cases hf : cfg.filter &&& p.bit ≠ 0
  · rw [if_pos hf, if_pos hf]
    by_cases hp : cfg.parsing = true
    · rw [if_pos hp, if_pos hp]
      cases hv : O p raw with
      | ok m => left; exact ⟨some m, rfl, rfl⟩
      | rejected c => right; exact ⟨Or.inr ⟨c, rfl⟩, rfl⟩
      | crash c => exact absurd hv (hO p raw c)
    · rw [if_neg hp, if_neg hp]
      left; exact ⟨none, rfl, rfl⟩
  · rw [if_neg hf, if_neg hf]
    right; exact ⟨Or.inl rfl, rfl⟩

/-- C06/C11 engine: what is delivered is exactly the delimited frames that pass filter and parser -/
theorem run_items_eq_frames (S : Src σ) (nmeaHdr) (cfg : RCfg) (O : Oracle α) (hO : NoCrash O)
    (f : Nat) (st : Option σ) :
    items (run S nmeaHdr cfg O f st) = (frames S nmeaHdr f st).filterMap (deliver cfg O) := by
  induction f generalizing st with
  | zero => simp [run, frames, items]
  | succ f ih =>
    cases st with
    | none => simp [run, frames, items, Out.asItem]
    | some s =>
      simp only [run, frames, step_eq]
      cases hd : delimit S nmeaHdr s with
      | eof => simp [post, items, Out.asItem]
      | short =>
        simp only [post, items, List.filterMap_cons, Out.asItem, List.filterMap_nil]
        have := ih none
        simp only [items] at this
        rw [this]; cases f <;> simp [frames]
      | skip s1 =>
        simp only [post, items, List.filterMap_cons, Out.asItem]
        exact ih (some s1)
      | unknown s2 =>
        simp only [post, items, List.filterMap_cons, Out.asItem]
        exact ih (some s2)
      | frame p raw s' =>
        simp only [post, List.filterMap_cons]
        rcases finish_cases cfg O hO p raw with ⟨m, h1, h2⟩ | ⟨h1, h2⟩
        · rw [h1, h2]
          simp only [items, List.filterMap_cons, Out.asItem]
          have := ih (some s'); simp only [items] at this; rw [this]
        · rw [h2]
          rcases h1 with h1 | ⟨c, h1⟩
          · rw [h1]; simp only [items, List.filterMap_cons, Out.asItem]; exact ih (some s')
          · rw [h1]; simp only [items, List.filterMap_cons, Out.asItem]; exact ih (some s')

/-- the trace never contains a crash when the parsers do not crash -/
theorem run_no_crash (S : Src σ) (nmeaHdr) (cfg : RCfg) (O : Oracle α) (hO : NoCrash O)
    (f : Nat) (st : Option σ) : ∀ o ∈ run S nmeaHdr cfg O f st, ∀ p c, o ≠ .crash p c := by
  induction f generalizing st with
  | zero => simp [run]
  | succ f ih =>
    cases st with
    | none => simp [run]
    | some s =>
      simp only [run, step_eq]
      cases hd : delimit S nmeaHdr s with
      | eof => simp [post]
      | short =>
        simp only [post, List.mem_cons]
        rintro o (rfl | ho) p c
        · intro h; cases h
        · exact ih none o ho p c
      | skip s1 =>
        simp only [post, List.mem_cons]
        rintro o (rfl | ho) p c
        · intro h; cases h
        · exact ih _ o ho p c
      | unknown s2 =>
        simp only [post, List.mem_cons]
        rintro o (rfl | ho) p c
        · intro h; cases h
        · exact ih _ o ho p c
      | frame p raw s' =>
        simp only [post]
        rcases finish_cases cfg O hO p raw with ⟨m, h1, _⟩ | ⟨h1 | ⟨c, h1⟩, _⟩ <;>
        · rw [h1]
          simp only [List.mem_cons]
          rintro o (rfl | ho) p' c'
          · intro h; cases h
          · exact ih _ o ho p' c'

end Ubx
