import Ubx.Proofs.CodeSocket
import Ubx.Proofs.CodeReaderInit
set_option maxRecDepth 10000
set_option linter.unusedSimpArgs false
set_option linter.unusedVariables false
namespace Ubx.Py
open Ubx Ubx.Gen.Code

/-! ### `SocketWrapper.__init__`, `SocketWrapper.buffer`, `UBXReader.datastream` -/

inductive SI where
  | self
  | socket
  | kwargs
deriving Repr

/-- the wrapper being built: receive state, and the fields assigned so far (latest first) -/
structure SISt where
  s : Sock
  fields : List (Name × V SI)

def siLift : X SO (V SO) → X SI (V SI)
  | .ok (.bool b) => .ok (.bool b)
  | .ok _ => raiseX xUnsupported
  | .error (.exc c a) => .error (.exc c a)
  | .error _ => raiseX xUnsupported

/-- `kwargs.get("bufsize", d)`, `self._recv()` (the translated `_recv`, interpreted) -/
def siMcall (cl : Bool) (F : Nat) (bufsize : Option Int) (obj : V SI) (m : Name) (args : List (V SI)) (_kw : List (Name × V SI))
    (st : SISt) : X SI (V SI) × SISt :=
  match obj, args with
  | .host .kwargs, [.str 0x62756673697a65, d] =>
    if m = 0x676574 then (.ok (match bufsize with | some b => .int b | none => d), st) else (raiseX xUnsupported, st)
  | .host .self, [] =>
    if m = 0x5f72656376 then
      let r := runFn (sockH1 cl) F fn_SocketWrapper__recv [.host .self] st.s
      (siLift r.1, { st with s := r.2 })
    else (raiseX xUnsupported, st)
  | _, _ => (raiseX xUnsupported, st)

def siSetattr (obj : V SI) (a : Name) (v : V SI) (st : SISt) : X SI Unit × SISt :=
  match obj with
  | .host .self =>
    if a = 0x5f627566666572 then
      (match v with
       | .bytes b => (.ok (), { st with s := { st.s with buf := b } })
       | _ => (raiseX xUnsupported, st))
    else if a = 0x5f736f636b6574 then (.ok (), { st with fields := (a, v) :: st.fields })
    else if a = 0x5f62756673697a65 then (.ok (), { st with fields := (a, v) :: st.fields })
    else (raiseX xUnsupported, st)
  | _ => (raiseX xUnsupported, st)

def siHost (cl : Bool) (F : Nat) (bufsize : Option Int) : Host SI SISt where
  glob := fun _ => none
  call := fun f args _ st => if f = 0x627974656172726179 then
      (match args with | [] => (.ok (.bytes []), st) | _ => (raiseX xUnsupported, st)) else (raiseX xUnsupported, st)
  mcall := siMcall cl F bufsize
  attr := fun _ _ _ => raiseX xUnsupported
  setattr := siSetattr
  index := fun _ _ _ => raiseX xUnsupported
  contains := fun _ _ _ => raiseX xUnsupported
  truthy := fun _ => true
  eqHost := fun _ _ => false

theorem si_mcall (cl : Bool) (F : Nat) (b : Option Int) : (siHost cl F b).mcall = siMcall cl F b := rfl
theorem si_setattr (cl : Bool) (F : Nat) (b : Option Int) : (siHost cl F b).setattr = siSetattr := rfl
theorem si_call (cl : Bool) (F : Nat) (b : Option Int) (st : SISt) :
    (siHost cl F b).call 0x627974656172726179 [] [] st = (.ok (.bytes []), st) := rfl

/-- **`SocketWrapper.__init__` as written**: the socket and the `bufsize` keyword (4096 when absent) are stored as given, the
    buffer starts empty whatever it held, and one `_recv()` is made — so the wrapper starts in the model's `sockInit` state:
    the first chunk buffered, or nothing when the peer has nothing (the failed first `_recv` is not an error) -/
theorem sock_init_eq (cl : Bool) (F : Nat) (bufsize : Option Int) (buf0 : Bytes) (chunks : List Bytes)
    (hne : ∀ c ∈ chunks.head?, c ≠ []) (fs : List (Name × V SI)) :
    runFn (siHost cl F bufsize) F fn_SocketWrapper___init__ [.host .self, .host .socket, .host .kwargs] ⟨⟨buf0, chunks⟩, fs⟩
      = (.ok .none, ⟨sockInit chunks,
          (0x5f62756673697a65, .int (bufsize.getD 4096)) :: (0x5f736f636b6574, .host .socket) :: fs⟩) := by
  simp only [runFn, fn_SocketWrapper___init__, List.zip_cons_cons, List.zip_nil_right]
  pystep [si_setattr, siSetattr]
  pystep [si_setattr, siSetattr, si_mcall, siMcall]
  pystep [si_setattr, siSetattr, si_call]
  cases chunks with
  | nil =>
    pysimp [si_mcall, siMcall, recv_nil, siLift, sockInit]
    cases bufsize <;> rfl
  | cons c cs =>
    have hc : c ≠ [] := hne c (by simp)
    pysimp [si_mcall, siMcall, recv_cons cl F [] c cs hc, siLift, sockInit, List.nil_append]
    cases bufsize <;> rfl

/-- `buffer` and `datastream` hand back the stored field -/
theorem sock_buffer_eq (cl : Bool) (F : Nat) (st : Sock) :
    runFn (sockH1 cl) F fn_SocketWrapper_buffer [.host .self] st = (.ok (.bytes st.buf), st) := by
  simp only [runFn, fn_SocketWrapper_buffer, List.zip_cons_cons, List.zip_nil_right]
  pysimp [s1_attr, sa_buffer]

/-- `UBXReader.datastream`: the stream object `__init__` stored (the wrapper, for a socket) -/
theorem datastream_eq (F : Nat) (st : XSt) (v : V XO) (h : getVar st 0x5f73747265616d = some v) :
    runFn xiHost F fn_UBXReader_datastream [.host .self] st = (.ok v, st) := by
  simp only [runFn, fn_UBXReader_datastream, List.zip_cons_cons, List.zip_nil_right]
  have ha : xiHost.attr (.host .self) 0x5f73747265616d st = .ok v := by
    simp only [xiHost, h]
  pysimp [ha]
end Ubx.Py
