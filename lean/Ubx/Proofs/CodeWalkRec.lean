import Ubx.Proofs.CodeWalk
import Ubx.Proofs.WalkShape
import Ubx.Proofs.CodeBitsW
import Ubx.Proofs.CodeCfgValW
set_option maxRecDepth 10000
namespace Ubx.Py
open Ubx Ubx.Gen.Code

variable (c : WCtx) (cls id : Bytes) (mode : Nat)

theorem walkLike_walkHost : WalkLike c cls id mode (walkHost c cls id mode) :=
  ⟨rfl, rfl, rfl, rfl, rfl, rfl, rfl, fun _ _ _ _ => rfl, fun _ _ _ _ _ => rfl, fun _ _ _ _ _ => rfl, fun _ _ _ _ _ => rfl⟩

theorem recMcall_other (F f : Nat) (o : AO) (ho : o ≠ .self) (m : Name) (args : List (V AO)) (kw : List (Name × V AO)) (st : ASt) :
    recMcall c cls id mode F f (.host o) m args kw st = aMcall c (.host o) m args kw st := by
  cases f <;> cases o <;> first | exact absurd rfl ho | rfl

theorem recMcall_int (F f : Nat) (n : Int) (m : Name) (args : List (V AO)) (kw : List (Name × V AO)) (st : ASt) :
    recMcall c cls id mode F f (.int n) m args kw st = aMcall c (.int n) m args kw st := by
  cases f <;> rfl

theorem walkLike_rec (F f : Nat) : WalkLike c cls id mode (recHost c cls id mode F f) := by
  refine ⟨rfl, rfl, rfl, rfl, rfl, rfl, rfl, ?_, ?_, ?_, ?_⟩
  · intro m args kw st; exact recMcall_other c cls id mode F f .kwargs (by simp) m args kw st
  · intro items m args kw st; exact recMcall_other c cls id mode F f (.dict items) (by simp) m args kw st
  · intro l m args kw st; exact recMcall_other c cls id mode F f (.flags l) (by simp) m args kw st
  · intro n m args kw st; exact recMcall_int c cls id mode F f n m args kw st

theorem rec_setattr (F f : Nat) (args : List (V AO)) (kw : List (Name × V AO)) (st : ASt) :
    (recHost c cls id mode F (f + 1)).mcall (.host .self) 0x5f7365745f617474726962757465 args kw st
      = runFn (recHost c cls id mode F f) F fn_UBXMessage__set_attribute (.host .self :: args) st := by
  simp [recHost, recMcall, mSetAttr]
theorem rec_single (F f : Nat) (args : List (V AO)) (kw : List (Name × V AO)) (st : ASt) :
    (recHost c cls id mode F (f + 1)).mcall (.host .self) 0x5f7365745f6174747269627574655f73696e676c65 args kw st
      = runFn (recHost c cls id mode F f) F fn_UBXMessage__set_attribute_single (.host .self :: args) st := by
  simp [recHost, recMcall, mSetAttr, mSingle]
theorem rec_group (F f : Nat) (args : List (V AO)) (kw : List (Name × V AO)) (st : ASt) :
    (recHost c cls id mode F (f + 1)).mcall (.host .self) 0x5f7365745f6174747269627574655f67726f7570 args kw st
      = runFn (recHost c cls id mode F f) F fn_UBXMessage__set_attribute_group (.host .self :: args) st := by
  simp [recHost, recMcall, mSetAttr, mSingle, mGroup]
theorem rec_calc (F f : Nat) (args : List (V AO)) (kw : List (Name × V AO)) (st : ASt) :
    (recHost c cls id mode F (f + 1)).mcall (.host .self) 0x5f63616c635f6e756d5f72657065617473 args kw st
      = runFn (recHost c cls id mode F f) F fn_UBXMessage__calc_num_repeats (.host .self :: args) st := by
  simp [recHost, recMcall, mSetAttr, mSingle, mGroup, mCalc]
theorem rec_bitfield (F f : Nat) (args : List (V AO)) (kw : List (Name × V AO)) (st : ASt) :
    (recHost c cls id mode F (f + 1)).mcall (.host .self) 0x5f7365745f6174747269627574655f6269746669656c64 args kw st
      = runFn (recHost c cls id mode F f) F fn_UBXMessage__set_attribute_bitfield (.host .self :: args) st := by
  simp [recHost, recMcall, mSetAttr, mSingle, mGroup, mCalc, mBitfield]
theorem rec_bits (F f : Nat) (args : List (V AO)) (kw : List (Name × V AO)) (st : ASt) :
    (recHost c cls id mode F (f + 1)).mcall (.host .self) 0x5f7365745f6174747269627574655f62697473 args kw st
      = runFn (recHost c cls id mode F f) F fn_UBXMessage__set_attribute_bits (.host .self :: args) st := by
  simp [recHost, recMcall, mSetAttr, mSingle, mGroup, mCalc, mBitfield, mBits]
theorem rec_cfgval (F f : Nat) (args : List (V AO)) (kw : List (Name × V AO)) (st : ASt) :
    (recHost c cls id mode F (f + 1)).mcall (.host .self) 0x5f7365745f6174747269627574655f63666776616c args kw st
      = runFn (recHost c cls id mode F f) (max F (5 * (st.payload.length + 1) + 1)) fn_UBXMessage__set_attribute_cfgval (.host .self :: args) st := by
  simp [recHost, recMcall, mSetAttr, mSingle, mGroup, mCalc, mBitfield, mBits, mCfgval]

mutual
/-- nesting depth of groups -/
def idepth : Item → Nat
  | .group _ _ its => idepthL its + 1
  | _ => 0
def idepthL : List Item → Nat
  | [] => 0
  | i :: is => max (idepth i) (idepthL is)
end

theorem idepth_mem : ∀ (its : List Item) (it : Item), it ∈ its → idepth it ≤ idepthL its := by
  intro its
  induction its with
  | nil => intro it h; cases h
  | cons i is ih =>
    intro it h
    simp only [idepthL]
    rcases List.mem_cons.mp h with rfl | hm
    · omega
    · have := ih it hm; omega

theorem shapeOKL_mem : ∀ (its : List Item), shapeOKL its = true → ∀ it ∈ its, shapeOK it = true := by
  intro its
  induction its with
  | nil => intro _ it h; cases h
  | cons i is ih =>
    intro h it hit
    simp only [shapeOKL, Bool.and_eq_true] at h
    rcases List.mem_cons.mp hit with rfl | hm
    · exact h.1.1
    · exact ih h.2 it hm

theorem shapeOK_ItemShape (it : Item) (h : shapeOK it = true) : ItemShape it := by
  cases it with
  | attr n ty sc => trivial
  | bits n ty fl => simpa [shapeOK, ItemShape] using h
  | group n cnt its =>
    cases cnt with
    | fixed k => trivial
    | var => trivial
    | named a =>
      simp only [shapeOK, Bool.and_eq_true, bne_iff_ne] at h
      exact h.1

mutual
/-- generate direction only: every flag of every bitfield has a proper width and an int / bool (or absent) keyword value -/
def genOK (c : WCtx) : Item → Prop
  | .bits _ _ fl => ∀ idx, WB.FlagsTyped c idx fl
  | .group _ _ its => genOKL c its
  | .attr _ _ _ => True
def genOKL (c : WCtx) : List Item → Prop
  | [] => True
  | i :: is => genOK c i ∧ genOKL c is
end

theorem genOKL_mem (c : WCtx) : ∀ (its : List Item), genOKL c its → ∀ it ∈ its, genOK c it := by
  intro its
  induction its with
  | nil => intro _ it h; cases h
  | cons i is ih =>
    intro h it hit
    simp only [genOKL] at h
    rcases List.mem_cons.mp hit with rfl | hm
    · exact h.1
    · exact ih h.2 it hm

theorem xty_size (ty : Ty) (h : isXTy ty = true) : ∃ bsiz : Nat, attsiz ty = .ok (bsiz : Int) := by
  simp [isXTy] at h
  rcases h with ((((h | h) | h) | h) | h) | h <;> subst h <;> exact ⟨_, rfl⟩

/-- the bitfield callee of `_set_attribute`, interpreted: `_set_attribute_bitfield` over `_set_attribute_bits`, both as written -/
theorem rec_bitfield_ok (F f : Nat) (n : Name) (ty : Ty) (fl : List (Name × Ty)) (hx : isXTy ty = true)
    (hgen : c.hasPayload = false → ∀ idx, WB.FlagsTyped c idx fl)
    (idx : List Nat) (hidx : ∀ i ∈ idx, 0 < i) (off : Nat) (st : ASt) :
    SpecW idx ((recHost c cls id mode F (f + 1 + 1)).mcall (.host .self) 0x5f7365745f6174747269627574655f6269746669656c64
        [.tuple [.host (.ty ty), .host (.flags fl)], .int off, idxT idx, .host .kwargs] [] st) (wBits c idx ty fl ⟨off, st.payload, st.env⟩) := by
  obtain ⟨bsiz, hty⟩ := xty_size ty hx
  rw [rec_bitfield]
  cases hp : c.hasPayload
  · refine WB.set_bitfield_gen cls id mode _ c (walkLike_rec c cls id mode F (f + 1)) hp F ty bsiz hty fl off idx ?_ (hgen hp idx) st
    intro bitfield bfo key keyt k st' i hw hv
    rw [rec_bits]
    exact WB.set_bits_gen cls id mode _ c (walkLike_rec c cls id mode F f) hp F bitfield bfo key keyt k hw idx hidx st' i hv
  · refine WB.set_bitfield_parse cls id mode _ c (walkLike_rec c cls id mode F (f + 1)) hp F ty bsiz hty fl off idx ?_ st
    intro bitfield bfo key keyt st'
    rw [rec_bits]
    exact WB.set_bits_parse cls id mode _ c (walkLike_rec c cls id mode F f) hp F bitfield bfo key keyt idx hidx st'

/-- **The walker as a whole.** Interpreting `_set_attribute`, `_set_attribute_group`, `_set_attribute_single`,
    `_calc_num_repeats`, `_set_attribute_bitfield` and `_set_attribute_bits` *together* — each call on `self` runs the
    translated callee again — computes the model's `wItem` for every well-shaped definition entry of nesting depth `d`, once
    the call budget covers two calls per nesting level plus three for a leaf (`_set_attribute` → `_set_attribute_bitfield` →
    `_set_attribute_bits`). Parse direction: no further hypothesis. Generate direction: flag keywords are ints or bools (`genOK`).
    (ESF-MEAS SET, whose repeat count depends on an attribute's truthiness, is left to the per-method theorem;
    `_set_attribute_cfgval` is interpreted too, with a `while` budget taken from the payload length.) -/
theorem rec_item (hcfg : c.cfgval = cfgvalB cls id mode) (hesf : c.esfmeas = esfB cls id mode) (hne : c.esfmeas = false)
    (hsz : ∀ k n t, cfgkey2name c.ctx k = .ok (n, t) → ∃ m : Nat, attsiz t = .ok (m : Int)) (F : Nat) :
    ∀ (d f : Nat), 2 * d + 3 ≤ f → ∀ (it : Item), idepth it ≤ d → shapeOK it = true → (c.hasPayload = false → genOK c it) →
    ∀ (items : List Item), itemAt items (Item.key it) = some it → ∀ (idx : List Nat), (∀ i ∈ idx, 0 < i) → ∀ (off : Nat) (st : ASt),
    SpecW idx ((recHost c cls id mode F f).mcall (.host .self) 0x5f7365745f617474726962757465
        [.str (Item.key it), .host (.dict items), .int off, idxT idx, .host .kwargs] [] st)
      (wItem c idx it ⟨off, st.payload, st.env⟩) := by
  intro d
  induction d with
  | zero =>
    intro f hf it hd hsh hgen items hit idx hidx off st
    obtain ⟨f1, rfl⟩ : ∃ f1, f = f1 + 1 := ⟨f - 1, by omega⟩
    obtain ⟨f2, rfl⟩ : ∃ f2, f1 = f2 + 1 := ⟨f1 - 1, by omega⟩
    obtain ⟨f3, rfl⟩ : ∃ f3, f2 = f3 + 1 := ⟨f2 - 1, by omega⟩
    rw [rec_setattr]
    refine set_attribute_eq c cls id mode _ (walkLike_rec c cls id mode F (f3 + 1 + 1)) F items _ it hit (shapeOK_ItemShape it hsh) off idx st ?_
    cases it with
    | attr n ty sc =>
      simp only [CalleeOK]
      rw [rec_single]
      exact set_attribute_single_eq c cls id mode _ (walkLike_rec c cls id mode F (f3 + 1)) F n ty sc off idx hidx st
    | bits n ty fl =>
      simp only [CalleeOK]
      refine ⟨fun _ => ?_, fun _ => ?_⟩
      · rw [rec_single]
        exact set_attribute_single_eq c cls id mode _ (walkLike_rec c cls id mode F (f3 + 1)) F n ty .one off idx hidx st
      · exact rec_bitfield_ok c cls id mode F f3 n ty fl (by simpa [shapeOK] using hsh) (fun hp => hgen hp) idx hidx off st
    | group n cnt its => simp [idepth] at hd
  | succ d ih =>
    intro f hf it hd hsh hgen items hit idx hidx off st
    obtain ⟨f1, rfl⟩ : ∃ f1, f = f1 + 1 := ⟨f - 1, by omega⟩
    obtain ⟨f2, rfl⟩ : ∃ f2, f1 = f2 + 1 := ⟨f1 - 1, by omega⟩
    obtain ⟨f3, rfl⟩ : ∃ f3, f2 = f3 + 1 := ⟨f2 - 1, by omega⟩
    rw [rec_setattr]
    refine set_attribute_eq c cls id mode _ (walkLike_rec c cls id mode F (f3 + 1 + 1)) F items _ it hit (shapeOK_ItemShape it hsh) off idx st ?_
    cases it with
    | attr n ty sc =>
      simp only [CalleeOK]
      rw [rec_single]
      exact set_attribute_single_eq c cls id mode _ (walkLike_rec c cls id mode F (f3 + 1)) F n ty sc off idx hidx st
    | bits n ty fl =>
      simp only [CalleeOK]
      refine ⟨fun _ => ?_, fun _ => ?_⟩
      · rw [rec_single]
        exact set_attribute_single_eq c cls id mode _ (walkLike_rec c cls id mode F (f3 + 1)) F n ty .one off idx hidx st
      · exact rec_bitfield_ok c cls id mode F f3 n ty fl (by simpa [shapeOK] using hsh) (fun hp => hgen hp) idx hidx off st
    | group n cnt its =>
      simp only [CalleeOK]
      rw [rec_group]
      have hsL : shapeOKL its = true := shape_group n cnt its hsh
      have hdL : idepthL its ≤ d := by simp only [idepth] at hd; omega
      refine set_attribute_group_eq c cls id mode _ (walkLike_rec c cls id mode F (f3 + 1)) F cnt its idx ?_ ?_ ?_ ?_ hcfg hesf off st ?_
      · -- every member, through `self._set_attribute`
        intro a it' hmem off' st'
        exact ih (f3 + 1) (by omega) it' (Nat.le_trans (idepth_mem its it' hmem) hdL) (shapeOKL_mem its hsL it' hmem)
          (fun hp => genOKL_mem c its (by have := hgen hp; simpa [genOK] using this) it' hmem) its
          (shape_itemAt its hsL it' hmem) (idx ++ [a + 1])
          (by intro i hi; rcases List.mem_append.mp hi with h | h
              · exact hidx i h
              · simp at h; omega) off' st'
      · -- `self._calc_num_repeats`
        intro p off' st'
        rw [rec_calc]
        exact calc_num_repeats_eq c cls id mode _ (walkLike_rec c cls id mode F f3) F its p off' st'
      · -- `self._set_attribute_cfgval`
        intro off' st'
        rw [rec_cfgval]
        exact WB.set_cfgval_eq cls id mode _ c (walkLike_rec c cls id mode F f3) _ off' st' hsz (by omega)
      · intro a ha
        have := shapeOK_ItemShape _ hsh
        subst ha
        exact this
      · intro h; rw [hne] at h; cases h
end Ubx.Py
