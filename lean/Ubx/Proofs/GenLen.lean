import Ubx.Model.Walk
import Ubx.Proofs.Bytes
import Ubx.Proofs.WalkPayload
/-!
# Generate direction: the payload grows by exactly the width of every field (C03 / C15)
-/
namespace Ubx

theorem intToBytes_len (v : Int) (n : Nat) (s : Bool) (b : Bytes) (h : intToBytes v n s = .ok b) : b.length = n := by
  unfold intToBytes at h
  by_cases hs : s = true
  · simp only [hs, if_true] at h
    by_cases h0 : n = 0
    · simp only [h0, if_true] at h
      split at h
      · cases h; simp [h0]
      · cases h
    · simp only [h0, if_false] at h
      split at h
      · cases h; simp
      · cases h
  · simp only [hs, Bool.false_eq_true, if_false] at h
    split at h
    · cases h; simp
    · cases h

theorem arrayToBytes_len : ∀ (n : Nat) (xs : List (Option Int)) (b : Bytes), arrayToBytes n xs = .ok b → b.length = n := by
  intro n
  induction n with
  | zero => intro xs b h; simp only [arrayToBytes] at h; cases h; rfl
  | succ k ih =>
    intro xs b h
    cases xs with
    | nil => simp [arrayToBytes] at h
    | cons x rest =>
      simp only [arrayToBytes] at h
      split at h
      · cases h
      · split at h
        · split at h
          · rename_i bs hbs; cases h; simp [ih rest bs hbs]
          · cases h
        · cases h

/-- widths for which `val2bytes` is width-exact: any for X/A/integers, 4 or 8 for R; `C` is excluded -/
def widthExact (l n : Nat) : Bool := l != cC && (l != cR || n == 4 || n == 8)

theorem val2bytes_width (att : List (Nat × List Kind)) (v : PyVal) (l n : Nat) (b : Bytes) (hw : widthExact l n = true)
    (h : val2bytes att v (.t l n) = .ok b) : b.length = n := by
  simp only [widthExact, Bool.and_eq_true, bne_iff_ne, ne_eq, Bool.or_eq_true, beq_iff_eq] at hw
  obtain ⟨hC, hR⟩ := hw
  unfold val2bytes at h
  simp only [atttyp, attsiz] at h
  split at h
  · cases h
  · split at h
    · cases h
    · split at h
      · cases h
      · by_cases hX : l = cX
        · simp only [hX, if_true] at h
          split at h
          · split at h
            · rename_i hlen; cases h; exact_mod_cast hlen
            · cases h
          · cases h
        · simp only [hX, if_false, hC] at h
          by_cases hI : isIntLetter l = true
          · simp only [hI, if_true] at h
            split at h
            · have := intToBytes_len _ _ _ _ h; simpa using this
            · cases h
          · simp only [hI, Bool.false_eq_true, if_false] at h
            by_cases hRR : l = cR
            · simp only [hRR, if_true] at h
              split at h
              · cases h
              · by_cases h4 : (n : Int) = 4
                · simp only [h4, if_true] at h
                  split at h
                  · cases h; simp; omega
                  · cases h
                · simp only [h4, if_false] at h
                  cases h
                  rcases hR with (hR | hR) | hR
                  · exact absurd hRR hR
                  · exfalso; apply h4; exact_mod_cast hR
                  · simp [hR]
            · simp only [hRR, if_false] at h
              by_cases hA : l = cA
              · simp only [hA, if_true] at h
                split at h
                · split at h
                  · have := arrayToBytes_len _ _ _ h; simpa using this
                  · cases h
                · cases h
              · simp only [hA, if_false] at h
                cases h

end Ubx

namespace Ubx

mutual
/-- every attribute has a width-exact sized type (no `C`/`CH`), every bitfield a sized type -/
def lenExact : Item → Bool
  | .attr _ (.t l n) _ => widthExact l n
  | .attr _ _ _ => false
  | .bits _ (.t l n) _ => widthExact l n
  | .bits _ _ _ => false
  | .group _ _ items => lenExactL items
def lenExactL : List Item → Bool
  | [] => true
  | i :: is => lenExact i && lenExactL is
end

theorem genVal_width (c : WCtx) (an : AName) (l n : Nat) (sc : Scale) (vb : PyVal × Bytes) (hw : widthExact l n = true)
    (h : genVal c an (.t l n) sc = .ok vb) : vb.2.length = n := by
  unfold genVal at h
  split at h
  · cases h
  · simp only at h
    split at h
    · split at h
      · rename_i b hb; cases h; exact val2bytes_width _ _ _ _ _ hw hb
      · cases h
    · split at h
      · cases h
      · split at h
        · rename_i b hb; cases h; exact val2bytes_width _ _ _ _ _ hw hb
        · cases h

theorem wSingle_gen_len (c : WCtx) (hp : c.hasPayload = false) (idx n l sz sc) (hw : widthExact l sz = true) (st st' : WState)
    (h : wSingle c idx n (.t l sz) sc st = .ok st') (hinv : st.off = st.payload.length) : st'.off = st'.payload.length := by
  unfold wSingle at h
  simp only [fieldSize, attsiz, Int.toNat_natCast, hp, Bool.false_eq_true, if_false] at h
  split at h
  · cases h
  · rename_i vb hvb
    split at h
    · cases h
    · cases h
      simp only [List.length_append, genVal_width c _ l sz sc vb hw hvb, hinv]

theorem wBits_gen_len (c : WCtx) (hp : c.hasPayload = false) (idx l sz flags) (st st' : WState)
    (h : wBits c idx (.t l sz) flags st = .ok st') (hinv : st.off = st.payload.length) : st'.off = st'.payload.length := by
  unfold wBits at h
  simp only [attsiz, Int.toNat_natCast, hp, Bool.false_eq_true, if_false] at h
  split at h
  · cases h
  · split at h
    · cases h
    · rename_i bs hbs
      cases h
      simp only [List.length_append, intToBytes_len _ _ _ _ hbs, hinv]

mutual
theorem wItem_gen_len (c : WCtx) (hp : c.hasPayload = false) (hcv : c.cfgval = false) (idx : List Nat) (i : Item)
    (hx : lenExact i = true) (st st' : WState) (h : wItem c idx i st = .ok st')
    (hinv : st.off = st.payload.length) : st'.off = st'.payload.length := by
  match i, hx with
  | .attr n (.t l sz) sc, hx =>
    simp only [lenExact] at hx
    simp only [wItem] at h
    exact wSingle_gen_len c hp idx n l sz sc hx st st' h hinv
  | .bits n (.t l sz) flags, hx =>
    simp only [lenExact] at hx
    simp only [wItem] at h
    split at h
    · exact wBits_gen_len c hp idx l sz flags st st' h hinv
    · -- raw-bitfield view: the bitfield is a single X attribute
      exact wSingle_gen_len c hp idx n l sz .one hx st st' h hinv
  | .group n cnt items, hx =>
    simp only [lenExact] at hx
    simp only [wItem, hcv, Bool.false_eq_true, if_false] at h
    split at h
    · cases h
    · exact repeatN_inv (fun a b => a.off = a.payload.length → b.off = b.payload.length) (fun _ h => h)
        (fun a b c h1 h2 h0 => h2 (h1 h0)) _
        (fun i s s' hs => wItems_gen_len c hp hcv (idx ++ [i]) items hx s s' hs) _ _ st st' h hinv
theorem wItems_gen_len (c : WCtx) (hp : c.hasPayload = false) (hcv : c.cfgval = false) (idx : List Nat) (is : List Item)
    (hx : lenExactL is = true) (st st' : WState) (h : wItems c idx is st = .ok st')
    (hinv : st.off = st.payload.length) : st'.off = st'.payload.length := by
  match is with
  | [] => simp only [wItems] at h; cases h; exact hinv
  | i :: rest =>
    simp only [lenExactL, Bool.and_eq_true] at hx
    simp only [wItems] at h
    split at h
    · rename_i st1 h1
      exact wItems_gen_len c hp hcv idx rest hx.2 st1 st' h (wItem_gen_len c hp hcv idx i hx.1 st st1 h1 hinv)
    · cases h
end

end Ubx
