import Ubx.Proofs.CodeBitsW
import Ubx.Generated.Tables
/-!
# `_set_attribute_cfgval` over the walker's host

`Proofs/CodeCfgVal.lean` restated for any host that agrees with the walker's host off the self-calls (`WalkLike`), so that the
CFG-VALGET / CFG-VALSET key/value parser as written can be interpreted inside the recursive walker. Same statement, same
proof. `kwargs["payload"]` is what `_do_attributes` stored in `_payload` from the same keywords (the host's `index`).
-/
set_option maxRecDepth 10000
set_option linter.unusedSimpArgs false
set_option linter.unusedVariables false
namespace Ubx.Py.WB
open Ubx Ubx.Gen.Code Ubx.Py

variable (cls id : Bytes) (mode : Nat) (H : Host AO ASt)

theorem toPyA_ofPy' (v : PyVal) : toPyA (V.ofPy v) = v := by cases v <;> rfl

def cvLoop : S := match fn_UBXMessage__set_attribute_cfgval.body with
  | [_, _, _, _, l] => l
  | _ => .pass
def cvCond : E := match cvLoop with | .while_ c _ => c | _ => .none
def cvBody : List S := match cvLoop with | .while_ _ b => b | _ => []

/-- the local variables of the loop: `self, offset, kwargs, KEYLEN, cfglen, i` and, once a key has been processed,
    `key, keyname, att, atts, valb, val` (their values no longer matter) -/
def CvVars (vars : List (Name × V AO)) (off cfglen i : Nat) : Prop :=
  getVar vars 0x73656c66 = some (.host .self) ∧ getVar vars 0x6f6666736574 = some (.int off)
  ∧ getVar vars 0x4b45594c454e = some (.int 4) ∧ getVar vars 0x6366676c656e = some (.int cfglen)
  ∧ getVar vars 0x69 = some (.int i)

theorem cv_cond (c : WCtx) (hH : WalkLike c cls id mode H) (F : Nat) (vars : List (Name × V AO)) (st : ASt) (off cfglen i : Nat)
    (hv : CvVars vars off cfglen i) :
    whileCond H F cvCond ⟨vars, st⟩ = (.ok (decide (off < cfglen)), ⟨vars, st⟩) := by
  whs
  obtain ⟨_, h2, _, h4, _⟩ := hv
  simp only [whileCond, cvCond, cvLoop, fn_UBXMessage__set_attribute_cfgval]
  pysimp [h2, h4]
  congr 2
  simp

theorem cv_idle (c : WCtx) (hH : WalkLike c cls id mode H) (F : Nat) (vars : List (Name × V AO)) (st : ASt) (off cfglen i : Nat)
    (hv : CvVars vars off cfglen i) (hi : i ≠ 4) :
    ∃ vars', whileBody H F cvBody ⟨vars, st⟩ = (.ok .next, ⟨vars', st⟩) ∧ CvVars vars' off cfglen (i + 1) := by
  whs
  obtain ⟨h1, h2, h3, h4, h5⟩ := hv
  simp only [whileBody, cvBody, cvLoop, fn_UBXMessage__set_attribute_cfgval]
  have hne : ((i : Int) == 4) = false := by
    rw [beq_eq_false_iff_ne]; omega
  rw [execB_one]
  pysimp [h5, h3, hne]
  refine ⟨_, rfl, ?_⟩
  refine ⟨?_, ?_, ?_, ?_, ?_⟩ <;> pysimp [h1, h2, h3, h4, h5, Int.natCast_add, Int.natCast_one]

/-- one key, as the model has it: the new offset and environment -/
def cvStep (c : WCtx) (payload : Bytes) (off : Nat) (env : Env) : R (Nat × Env) :=
  match cfgkey2name c.ctx (fromLE (slice payload off (off + 4))) with
  | .error e => .error e
  | .ok (kn, ty) =>
    match attsiz ty with
    | .error e => .error e
    | .ok atts =>
      match bytes2val (slice payload (off + 4) (off + 4 + atts.toNat)) ty with
      | .error e => .error e
      | .ok v =>
        match setAttr c env ⟨kn, []⟩ v with
        | .error e => .error e
        | .ok env' => .ok (off + 4 + atts.toNat, env')

def CvPost (res : R (Nat × Env)) (cfglen : Nat) (st : ASt) (r : X AO (Flow AO) × St AO ASt) : Prop :=
  match res with
  | .ok (off', env') => r.1 = .ok .next ∧ r.2.h = { st with env := env' } ∧ CvVars r.2.vars off' cfglen 0
  | .error e => r.1 = .error (.exc (excName e) 0)

/-- the iteration with `i == KEYLEN`: one key is decoded and stored (sizes are never negative: `hsz`) -/
theorem cv_key (c : WCtx) (hH : WalkLike c cls id mode H) (F : Nat) (vars : List (Name × V AO)) (st : ASt) (off cfglen : Nat)
    (hv : CvVars vars off cfglen 4)
    (hsz : ∀ k n t, cfgkey2name c.ctx k = .ok (n, t) → ∃ m : Nat, attsiz t = .ok (m : Int)) :
    CvPost (cvStep c st.payload off st.env) cfglen st (whileBody H F cvBody ⟨vars, st⟩) := by
  whs
  obtain ⟨h1, h2, h3, h4, h5⟩ := hv
  simp only [whileBody, cvBody, cvLoop, fn_UBXMessage__set_attribute_cfgval]
  have heq : (((4 : Nat) : Int) == 4) = true := by decide
  have hsl : pySlice st.payload (off : Int) ((off : Int) + 4) = slice st.payload off (off + 4) := by
    rw [pySlice_nonneg _ _ _ (by omega) (by omega)]; congr 1 <;> omega
  rw [execB_one]
  pysimp [h5, h3, heq, Int.reduceBEq]
  pystep [h1, h2, h3, wh_attr, aAttr, hsl, Bool.false_eq_true, kwArg, builtin]
  pystep [wh_call, aCall, Int.natCast_nonneg, Int.toNat_natCast]
  unfold cvStep
  cases hk : cfgkey2name c.ctx (fromLE (slice st.payload off (off + 4))) with
  | error e => simp [CvPost, encR]
  | ok nt =>
    obtain ⟨kn, ty⟩ := nt
    obtain ⟨m, hm⟩ := hsz _ _ _ hk
    simp only [encR, hm, Int.toNat_natCast]
    pysimp [bindT]
    pystep [wh_call, aCall, aCall, hm, encR]
    have hsl2 : pySlice st.payload ((off : Int) + 4) ((off : Int) + 4 + (m : Int)) = slice st.payload (off + 4) (off + 4 + m) := by
      rw [pySlice_nonneg _ _ _ (by omega) (by omega)]; congr 1 <;> omega
    pystep [h1, h2, h3, wh_attr, aAttr, hsl2]
    pystep [wh_call, aCall]
    cases hb : bytes2val (slice st.payload (off + 4) (off + 4 + m)) ty with
    | error e => simp [CvPost, encR]
    | ok v =>
      simp only [encR]
      pystep [h1, wh_call, aCall, aCall, anameOfA, toPyA_ofPy']
      cases hs : setAttr c st.env ⟨kn, []⟩ v with
      | error e => simp [CvPost]
      | ok env' =>
        simp only
        pystep [h2, h3]
        simp only [CvPost, CvVars]
        refine ⟨trivial, trivial, ?_, ?_, ?_, ?_, ?_⟩ <;> pysimp [h1, h2, h3, h4, Int.natCast_add] <;> first | rfl | (congr 2; omega)

theorem cfgLoop_succ (c : WCtx) (p : Bytes) (cfglen n off : Nat) (env : Env) :
    cfgLoop c p cfglen (n + 1) off env
      = (if off < cfglen then
           match cvStep c p off env with
           | .error e => .error e
           | .ok (off', env') => cfgLoop c p cfglen n off' env'
         else .ok env) := by
  simp only [cfgLoop, cvStep, bind, Except.bind, pure, Except.pure]
  by_cases h : off < cfglen
  · simp only [h, ↓reduceIte]
    cases cfgkey2name c.ctx (fromLE (slice p off (off + 4))) with
    | error e => rfl
    | ok nt =>
      obtain ⟨kn, ty⟩ := nt
      simp only
      cases attsiz ty with
      | error e => rfl
      | ok atts =>
        simp only
        cases bytes2val (slice p (off + 4) (off + 4 + atts.toNat)) ty with
        | error e => rfl
        | ok v =>
          simp only
          cases setAttr c env ⟨kn, []⟩ v <;> rfl
  · simp only [h, ↓reduceIte]

theorem cvStep_adv (c : WCtx) (p : Bytes) (off : Nat) (env : Env) (off' : Nat) (env' : Env)
    (h : cvStep c p off env = .ok (off', env')) : off + 4 ≤ off' := by
  unfold cvStep at h
  cases h1 : cfgkey2name c.ctx (fromLE (slice p off (off + 4))) with
  | error e => rw [h1] at h; cases h
  | ok nt =>
    obtain ⟨kn, ty⟩ := nt
    rw [h1] at h
    simp only at h
    cases h2 : attsiz ty with
    | error e => rw [h2] at h; cases h
    | ok atts =>
      rw [h2] at h
      simp only at h
      cases h3 : bytes2val (slice p (off + 4) (off + 4 + atts.toNat)) ty with
      | error e => rw [h3] at h; cases h
      | ok v =>
        rw [h3] at h
        simp only at h
        cases h4 : setAttr c env ⟨kn, []⟩ v with
        | error e => rw [h4] at h; cases h
        | ok e' =>
          rw [h4] at h
          simp only [Except.ok.injEq, Prod.mk.injEq] at h
          omega

/-- four idle iterations (`i` = 0…3) and the iteration that decodes a key -/
theorem cv_round (c : WCtx) (hH : WalkLike c cls id mode H) (G F : Nat) (vars : List (Name × V AO)) (st : ASt) (off cfglen : Nat)
    (hv : CvVars vars off cfglen 0) (hlt : off < cfglen)
    (hsz : ∀ k n t, cfgkey2name c.ctx k = .ok (n, t) → ∃ m : Nat, attsiz t = .ok (m : Int)) :
    (match cvStep c st.payload off st.env with
     | .ok (off', env') => ∃ vars', CvVars vars' off' cfglen 0 ∧
          whileLoop (whileCond H G cvCond) (whileBody H G cvBody) (F + 5) ⟨vars, st⟩
            = whileLoop (whileCond H G cvCond) (whileBody H G cvBody) F ⟨vars', { st with env := env' }⟩
     | .error e => (whileLoop (whileCond H G cvCond) (whileBody H G cvBody) (F + 5) ⟨vars, st⟩).1
          = .error (.exc (excName e) 0)) := by
  whs
  have hd : decide (off < cfglen) = true := by simp [hlt]
  obtain ⟨v1, e1, hv1⟩ := cv_idle cls id mode H c hH G vars st off cfglen 0 hv (by decide)
  obtain ⟨v2, e2, hv2⟩ := cv_idle cls id mode H c hH G v1 st off cfglen 1 hv1 (by decide)
  obtain ⟨v3, e3, hv3⟩ := cv_idle cls id mode H c hH G v2 st off cfglen 2 hv2 (by decide)
  obtain ⟨v4, e4, hv4⟩ := cv_idle cls id mode H c hH G v3 st off cfglen 3 hv3 (by decide)
  have hk := cv_key cls id mode H c hH G v4 st off cfglen hv4 hsz
  have unroll : whileLoop (whileCond H G cvCond) (whileBody H G cvBody) (F + 5) ⟨vars, st⟩
      = whileLoop (whileCond H G cvCond) (whileBody H G cvBody) (F + 1) ⟨v4, st⟩ := by
    rw [show F + 5 = (F + 4) + 1 from rfl, whileLoop, cv_cond cls id mode H c hH G vars st off cfglen 0 hv, hd]
    simp only [e1]
    rw [show F + 4 = (F + 3) + 1 from rfl, whileLoop, cv_cond cls id mode H c hH G v1 st off cfglen 1 hv1, hd]
    simp only [e2]
    rw [show F + 3 = (F + 2) + 1 from rfl, whileLoop, cv_cond cls id mode H c hH G v2 st off cfglen 2 hv2, hd]
    simp only [e3]
    rw [show F + 2 = (F + 1) + 1 from rfl, whileLoop, cv_cond cls id mode H c hH G v3 st off cfglen 3 hv3, hd]
    simp only [e4]
  rw [unroll, whileLoop, cv_cond cls id mode H c hH G v4 st off cfglen 4 hv4, hd]
  simp only
  generalize whileBody H G cvBody ⟨v4, st⟩ = r at hk ⊢
  obtain ⟨r1, ⟨vars5, st5⟩⟩ := r
  cases hs : cvStep c st.payload off st.env with
  | error e =>
    rw [hs] at hk
    simp only [CvPost] at hk
    subst hk
    rfl
  | ok oe =>
    obtain ⟨off', env'⟩ := oe
    rw [hs] at hk
    simp only [CvPost] at hk
    obtain ⟨k1, k2, k3⟩ := hk
    subst k1
    subst k2
    exact ⟨vars5, k3, rfl⟩

/-- the `while offset < cfglen` loop as written = the model's `cfgLoop` (one model step per five passes) -/
theorem cv_loop (c : WCtx) (hH : WalkLike c cls id mode H) (G : Nat) (cfglen : Nat)
    (hsz : ∀ k n t, cfgkey2name c.ctx k = .ok (n, t) → ∃ m : Nat, attsiz t = .ok (m : Int)) (n : Nat) :
    ∀ (off : Nat) (vars : List (Name × V AO)) (st : ASt) (F : Nat), CvVars vars off cfglen 0 → cfglen ≤ off + 4 * n →
      5 * n + 1 ≤ F →
      (match cfgLoop c st.payload cfglen n off st.env with
       | .ok env' => ∃ vars', whileLoop (whileCond H G cvCond) (whileBody H G cvBody) F ⟨vars, st⟩
            = (.ok .next, ⟨vars', { st with env := env' }⟩)
       | .error e => (whileLoop (whileCond H G cvCond) (whileBody H G cvBody) F ⟨vars, st⟩).1
            = .error (.exc (excName e) 0)) := by
  whs
  induction n with
  | zero =>
    intro off vars st F hv hle hF
    obtain ⟨F', rfl⟩ : ∃ F', F = F' + 1 := ⟨F - 1, by omega⟩
    have hd : decide (off < cfglen) = false := by simp; omega
    simp only [cfgLoop]
    rw [whileLoop, cv_cond cls id mode H c hH G vars st off cfglen 0 hv, hd]
    exact ⟨vars, rfl⟩
  | succ n ih =>
    intro off vars st F hv hle hF
    rw [cfgLoop_succ]
    by_cases hlt : off < cfglen
    · simp only [hlt, ↓reduceIte]
      obtain ⟨F', rfl⟩ : ∃ F', F = F' + 5 := ⟨F - 5, by omega⟩
      have hr := cv_round cls id mode H c hH G F' vars st off cfglen hv hlt hsz
      cases hs : cvStep c st.payload off st.env with
      | error e => rw [hs] at hr; exact hr
      | ok oe =>
        obtain ⟨off', env'⟩ := oe
        rw [hs] at hr
        obtain ⟨vars', hv', heq⟩ := hr
        simp only
        rw [heq]
        have hadv := cvStep_adv c st.payload off st.env off' env' hs
        exact ih off' vars' { st with env := env' } F' hv' (by omega) (by omega)
    · simp only [hlt, ↓reduceIte]
      obtain ⟨F', rfl⟩ : ∃ F', F = F' + 1 := ⟨F - 1, by omega⟩
      have hd : decide (off < cfglen) = false := by simp; omega
      rw [whileLoop, cv_cond cls id mode H c hH G vars st off cfglen 0 hv, hd]
      exact ⟨vars, rfl⟩

/-- **`_set_attribute_cfgval` as written = the model's `wCfgVal`**: CFG-VALGET / CFG-VALSET payloads of any length,
    any keys (documented or not), provided every key's value size is non-negative (`hsz`; true of the shipped
    configuration database, whose types are all sized, and of the `X` types synthesised for unknown keys) and the
    `while` budget covers the payload (`5·(len + 1) + 1` passes) -/
theorem set_cfgval_eq (c : WCtx) (hH : WalkLike c cls id mode H) (F : Nat) (off : Nat) (st : ASt)
    (hsz : ∀ k n t, cfgkey2name c.ctx k = .ok (n, t) → ∃ m : Nat, attsiz t = .ok (m : Int))
    (hF : 5 * (st.payload.length - off + 1) + 1 ≤ F) :
    (match wCfgVal c ⟨off, st.payload, st.env⟩ with
     | .ok ws => runFn H F fn_UBXMessage__set_attribute_cfgval [.host .self, .int off, .host .kwargs] st
          = (.ok .none, ⟨ws.payload, ws.env⟩)
     | .error e => (runFn H F fn_UBXMessage__set_attribute_cfgval [.host .self, .int off, .host .kwargs] st).1
          = .error (.exc (excName e) 0)) := by
  whs
  unfold runFn fn_UBXMessage__set_attribute_cfgval wCfgVal
  pystep
  cases hp : c.hasPayload
  · simp only [Bool.not_false, ↓reduceIte]
    pystep [wh_contains, aContains, hp, wh_call, aCall]
    rfl
  · simp only [Bool.not_true, Bool.false_eq_true, ↓reduceIte]
    pystep [wh_contains, aContains, hp, wh_index, aIndex, wh_setattr, aSetattr]
    have hlen : ((pySlice st.payload (off : Int) (st.payload.length : Int)).length : Int) = ((st.payload.length - off : Nat) : Int) := by
      rw [pySlice_nonneg _ _ _ (by omega) (by omega)]
      simp [slice]
    pystep [wh_attr, aAttr, boundOf, hlen]
    pystep
    have hl := cv_loop cls id mode H c hH (F) (st.payload.length - off) hsz (st.payload.length - off + 1) off
      [(1936026726, V.host AO.self), (122485596185972, V.int ↑off), (118160480167795, V.host AO.kwargs),
        (82761222997326, V.int 4), (109291472971118, V.int ((st.payload.length - off : Nat) : Int)), (105, V.int 0)]
      { env := st.env, payload := st.payload } F
      (by refine ⟨?_, ?_, ?_, ?_, ?_⟩ <;> pysimp <;> rfl) (by omega) (by omega)
    simp only [cvCond, cvBody, cvLoop, fn_UBXMessage__set_attribute_cfgval] at hl
    cases hc : cfgLoop c st.payload (st.payload.length - off) (st.payload.length - off + 1) off st.env with
    | error e =>
      rw [hc] at hl
      simp only at hl ⊢
      generalize whileLoop _ _ F _ = r at hl ⊢
      obtain ⟨r1, r2⟩ := r
      simp only at hl
      subst hl
      rfl
    | ok env' =>
      rw [hc] at hl
      obtain ⟨vars', hw⟩ := hl
      simp only
      rw [hw]


end Ubx.Py.WB
