import Ubx.Proofs.Message
/-! # What `parse` accepts under VALCKSUM, and what it returns on a well-formed frame -/
namespace Ubx

theorem pySlice_nat (p : Bytes) (a b : Nat) (ha : a ≤ p.length) (hb : b ≤ p.length) :
    pySlice p (a : Int) (b : Int) = slice p a b := by
  unfold pySlice
  simp only
  have h1 : ¬ ((a : Int) < 0) := by omega
  have h2 : ¬ ((a : Int) > (p.length : Int)) := by omega
  have h3 : ¬ ((b : Int) < 0) := by omega
  have h4 : ¬ ((b : Int) > (p.length : Int)) := by omega
  simp only [h1, h2, h3, h4, if_false, Int.toNat_natCast]

theorem drop6 (b0 b1 c i l0 l1 : Byte) (rest : Bytes) (a : Nat) :
    List.drop (a + 6) (b0 :: b1 :: c :: i :: l0 :: l1 :: rest) = List.drop a rest := by
  show List.drop (a + 1 + 1 + 1 + 1 + 1 + 1) _ = _
  simp only [List.drop_succ_cons]

theorem slice6 (b0 b1 c i l0 l1 : Byte) (rest : Bytes) (a b : Nat) :
    slice (b0 :: b1 :: c :: i :: l0 :: l1 :: rest) (a + 6) (b + 6) = slice rest a b := by
  unfold slice
  rw [drop6]
  congr 1; omega

/-- decomposition of an input that passes the three VALCKSUM tests -/
theorem validFrame_wf (m : Bytes) (h : validFrame m = true) : WF m := by
  unfold validFrame at h
  simp only [Bool.and_eq_true, beq_iff_eq] at h
  obtain ⟨⟨hh, hl⟩, hc⟩ := h
  have hlen : 8 ≤ m.length := by
    have : (0 : Int) ≤ (fromLE (slice m 4 6) : Int) := by omega
    omega
  match m, hlen with
  | b0 :: b1 :: c :: i :: l0 :: l1 :: rest, _ =>
    have e02 : slice (b0 :: b1 :: c :: i :: l0 :: l1 :: rest) 0 2 = [b0, b1] := by simp [slice]
    have e23 : slice (b0 :: b1 :: c :: i :: l0 :: l1 :: rest) 2 3 = [c] := by simp [slice]
    have e34 : slice (b0 :: b1 :: c :: i :: l0 :: l1 :: rest) 3 4 = [i] := by simp [slice]
    have e46 : slice (b0 :: b1 :: c :: i :: l0 :: l1 :: rest) 4 6 = [l0, l1] := by simp [slice]
    rw [e02] at hh
    rw [e46] at hl
    rw [e23, e34, e46] at hc
    have hb0 : b0 = 0xb5 := by injection hh
    have hb1 : b1 = 0x62 := by injection hh with _ h2; injection h2
    have hL : rest.length = fromLE [l0, l1] + 2 := by
      simp only [List.length_cons] at hl; omega
    have hlt := fromLE_lt [l0, l1]
    simp only [List.length_cons, List.length_nil] at hlt
    -- the two Python slices with computed bounds
    have hck : pySlice (b0 :: b1 :: c :: i :: l0 :: l1 :: rest)
        (((b0 :: b1 :: c :: i :: l0 :: l1 :: rest).length : Int) - 2) ((b0 :: b1 :: c :: i :: l0 :: l1 :: rest).length)
        = rest.drop (fromLE [l0, l1]) := by
      have : (((b0 :: b1 :: c :: i :: l0 :: l1 :: rest).length : Int) - 2) = ((rest.length + 4 : Nat) : Int) := by
        simp only [List.length_cons]; omega
      rw [this, pySlice_nat _ _ _ (by simp only [List.length_cons]; omega) (by omega)]
      have e1 : rest.length + 4 = fromLE [l0, l1] + 6 := by omega
      have e2 : (b0 :: b1 :: c :: i :: l0 :: l1 :: rest).length = rest.length + 6 := by simp
      rw [e1, e2, slice6]
      unfold slice
      rw [List.take_of_length_le (by rw [List.length_drop]; omega)]
    have hpl : (parsePayload (b0 :: b1 :: c :: i :: l0 :: l1 :: rest)).getD [] = rest.take (fromLE [l0, l1]) := by
      unfold parsePayload
      rw [e46]
      by_cases hz : [l0, l1] = ([0, 0] : Bytes)
      · rw [if_pos hz]
        have : fromLE [l0, l1] = 0 := by rw [hz]; rfl
        simp [this]
      · rw [if_neg hz]
        have : (((b0 :: b1 :: c :: i :: l0 :: l1 :: rest).length : Int) - 2) = ((rest.length + 4 : Nat) : Int) := by
          simp only [List.length_cons]; omega
        rw [this]
        have h6 : ((6 : Int)) = ((6 : Nat) : Int) := rfl
        rw [Option.getD_some, h6, pySlice_nat _ _ _ (by simp only [List.length_cons]; omega) (by simp only [List.length_cons]; omega)]
        have e1 : rest.length + 4 = fromLE [l0, l1] + 6 := by omega
        have e0 : (6 : Nat) = 0 + 6 := rfl
        rw [e1, e0, slice6]
        simp [slice]
    rw [hck, hpl] at hc
    refine ⟨c, i, rest.take (fromLE [l0, l1]), ?_, ?_⟩
    · rw [List.length_take]; omega
    · have hpl' : (rest.take (fromLE [l0, l1])).length = fromLE [l0, l1] := by
        rw [List.length_take]; omega
      unfold frame
      rw [hpl', ← calcChecksum_eq_spec]
      have htl : toLE 2 (fromLE [l0, l1]) = [l0, l1] := toLE_fromLE [l0, l1]
      rw [htl]
      have hc' : calcChecksum ([c, i] ++ [l0, l1] ++ List.take (fromLE [l0, l1]) rest)
          = List.drop (fromLE [l0, l1]) rest := by
        rw [hc]; simp [List.append_assoc]
      rw [hc', hb0, hb1]
      simp only [List.cons_append, List.nil_append, List.append_assoc, List.take_append_drop]

/-- C05 core: under VALCKSUM `parse` returns a message only for a well-formed frame -/
theorem parse_valid_only_wf (ctx : Ctx) (mm v : Nat) (bf : Bool) (msg : Bytes) (m : Msg)
    (hv : v &&& 1 ≠ 0) (h : parse ctx mm v bf msg = .ok m) : WF msg := by
  unfold parse at h
  split at h
  · cases h
  · split at h
    · cases h
    · rename_i hnot
      apply validFrame_wf
      cases hvf : validFrame msg with
      | true => rfl
      | false => exact absurd ⟨hv, hvf⟩ hnot

/-- C05: anything that is not a well-formed frame is rejected with UBXParseError under VALCKSUM -/
theorem parse_rejects_malformed (ctx : Ctx) (mm v : Nat) (bf : Bool) (msg : Bytes)
    (hv : v &&& 1 ≠ 0) (hn : ¬ WF msg) : parse ctx mm v bf msg = .error .ubxParse := by
  unfold parse
  split
  · rfl
  · have : validFrame msg = false := by
      cases hvf : validFrame msg with
      | false => rfl
      | true => exact absurd (validFrame_wf msg hvf) hn
    rw [if_pos ⟨hv, this⟩]

end Ubx

namespace Ubx

theorem toLE2 (n : Nat) : toLE 2 n = [UInt8.ofNat (n % 256), UInt8.ofNat (n / 256 % 256)] := by
  simp [toLE]

theorem frame_cons (c i : Byte) (p : Bytes) :
    frame c i p = 0xb5 :: 0x62 :: c :: i :: UInt8.ofNat (p.length % 256) :: UInt8.ofNat (p.length / 256 % 256)
      :: (p ++ fletcherSpec ([c, i] ++ toLE 2 p.length ++ p)) := by
  simp [frame, toLE2]

theorem parsePayload_frame (c i : Byte) (p : Bytes) (hp : p.length < 65536) :
    (parsePayload (frame c i p)).getD [] = p ∧ (parsePayload (frame c i p) = none → p = []) ∧
    (∀ q, parsePayload (frame c i p) = some q → q = p) := by
  have hlen := frame_length c i p
  unfold parsePayload
  have e46 : slice (frame c i p) 4 6 = toLE 2 p.length := by
    rw [frame_cons, toLE2]; simp [slice]
  rw [e46]
  have hpay : pySlice (frame c i p) 6 (((frame c i p).length : Int) - 2) = p := by
    have : (((frame c i p).length : Int) - 2) = ((p.length + 6 : Nat) : Int) := by rw [hlen]; omega
    have h6 : ((6 : Int)) = ((6 : Nat) : Int) := rfl
    rw [this, h6, pySlice_nat _ _ _ (by omega) (by omega)]
    have e0 : (6 : Nat) = 0 + 6 := rfl
    rw [frame_cons, e0, slice6]
    simp [slice]
  by_cases hz : toLE 2 p.length = ([0, 0] : Bytes)
  · have h0 : p.length = 0 := toLE_inj 2 p.length 0 (by omega) (by decide) (by rw [hz]; rfl)
    have hp0 : p = [] := List.length_eq_zero_iff.mp h0
    rw [if_pos hz]
    exact ⟨by simp [hp0], fun _ => hp0, fun q hq => by cases hq⟩
  · rw [if_neg hz, hpay]
    refine ⟨rfl, ?_, ?_⟩
    · intro h; cases h
    · intro q hq; injection hq with hq; exact hq.symm

/-- C01 core: whatever `parse` returns for a well-formed frame serializes back to that frame, and its
    class, id, length and payload are the frame's — for every mode, validate and bitfield setting and
    every definition table (no assumption on `ctx`) -/
theorem parse_serialize (ctx : Ctx) (mm v : Nat) (bf : Bool) (c i : Byte) (p : Bytes) (hp : p.length < 65536)
    (m : Msg) (h : parse ctx mm v bf (frame c i p) = .ok m) :
    m.serialize = frame c i p ∧ m.cls = [c] ∧ m.id = [i] ∧ m.lengthVal = p.length ∧ m.payload.getD [] = p := by
  obtain ⟨hg, hnone, hsome⟩ := parsePayload_frame c i p hp
  have e23 : slice (frame c i p) 2 3 = [c] := by rw [frame_cons]; simp [slice]
  have e34 : slice (frame c i p) 3 4 = [i] := by rw [frame_cons]; simp [slice]
  unfold parse at h
  split at h
  · cases h
  · split at h
    · cases h
    · simp only [e23, e34] at h
      have key : m.payload.getD [] = p := by
        split at h
        · rename_i hn
          rw [construct_empty_payload _ _ _ _ _ _ h]
          exact (hnone hn).symm
        · rename_i q hq
          rw [construct_payload_kept _ _ _ _ _ _ _ h, hsome q hq]; rfl
      have hs : m.serialize = frame c i (m.payload.getD []) := by
        split at h
        · exact construct_wf _ _ _ _ _ _ _ h
        · exact construct_wf _ _ _ _ _ _ _ h
      have hsh : m.cls = [c] ∧ m.id = [i] ∧ m.length = toLE 2 (m.payload.getD []).length := by
        split at h
        · obtain ⟨a, b, _, d, _⟩ := construct_shape _ _ _ _ _ _ _ h; exact ⟨a, b, d⟩
        · obtain ⟨a, b, _, d, _⟩ := construct_shape _ _ _ _ _ _ _ h; exact ⟨a, b, d⟩
      refine ⟨by rw [hs, key], hsh.1, hsh.2.1, ?_, key⟩
      unfold Msg.lengthVal
      rw [hsh.2.2, key, fromLE_toLE 2 _ (by omega)]

/-- `eval(repr(m))` re-invokes the constructor; whenever it succeeds the result serializes to the same frame -/
theorem repr_serialize (ctx : Ctx) (mm v : Nat) (bf : Bool) (c i : Byte) (p : Bytes) (hp : p.length < 65536)
    (m m' : Msg) (h : parse ctx mm v bf (frame c i p) = .ok m) (hr : reprEval ctx m = .ok m') :
    m'.serialize = frame c i p := by
  obtain ⟨_, hc, hi, _, hpay⟩ := parse_serialize ctx mm v bf c i p hp m h
  unfold reprEval at hr
  rw [hc, hi] at hr
  split at hr
  · rename_i hn
    rw [construct_wf _ _ _ _ _ _ _ hr, construct_empty_payload _ _ _ _ _ _ hr]
    rw [hn] at hpay; simp at hpay; rw [← hpay]; rfl
  · rename_i q hq
    rw [construct_wf _ _ _ _ _ _ _ hr, construct_payload_kept _ _ _ _ _ _ _ hr]
    rw [hq] at hpay; simp at hpay; rw [← hpay]; rfl

end Ubx
