import Ubx.Proofs.Frames
import Ubx.Proofs.Consume
/-!
# A structurally well-formed frame at the head of a file-like stream is delimited exactly (C06)
-/
namespace Ubx

/-- structurally well-formed frames of the three protocols (checksums / CRCs arbitrary) -/
inductive SFrame : (nmeaHdr : Byte → Bool) → Proto → Bytes → Prop where
  | ubx (nh) (c i l0 l1 : Byte) (body : Bytes) (h : body.length = le16 l0 l1 + 2) :
      SFrame nh .ubx (0xb5 :: 0x62 :: c :: i :: l0 :: l1 :: body)
  | nmea (nh) (b2 : Byte) (line : Bytes) (hb : nh b2 = true) (hl : hasLF line = true) (hlen : lineLen line = line.length) :
      SFrame nh .nmea (0x24 :: b2 :: line)
  | rtcm (nh) (b2 b3 : Byte) (rest : Bytes) (hb : b2 &&& 0xfc = 0) (h : rest.length = b3.toNat + 256 * b2.toNat + 3) :
      SFrame nh .rtcm (0xd3 :: b2 :: b3 :: rest)

theorem fileRead_take (n : Nat) (a b : Bytes) (hn : n ≠ 0) (ha : a.length = n) :
    fileRead n (a ++ b) = .ok a b := by
  rw [fileRead_ok hn (by rw [List.length_append]; omega)]
  rw [List.take_append_of_le_length (by omega), List.drop_append_of_le_length (by omega)]
  rw [← ha]; simp

theorem fileRead_one (x : Byte) (s : Bytes) : fileRead 1 (x :: s) = .ok [x] s := by
  have := fileRead_take 1 [x] s (by omega) rfl
  simpa using this

theorem lineLen_append (line rest : Bytes) (hl : hasLF line = true) : lineLen (line ++ rest) = lineLen line := by
  induction line with
  | nil => simp [hasLF] at hl
  | cons b bs ih =>
    simp only [List.cons_append, lineLen]
    by_cases hb : b = 0x0a
    · simp [hb]
    · simp only [hb, if_false]
      simp only [hasLF, hb, decide_false, Bool.false_or] at hl
      rw [ih hl]

theorem hasLF_append (line rest : Bytes) (hl : hasLF line = true) : hasLF (line ++ rest) = true := by
  induction line with
  | nil => simp [hasLF] at hl
  | cons b bs ih =>
    simp only [List.cons_append, hasLF, Bool.or_eq_true, decide_eq_true_eq] at hl ⊢
    rcases hl with h | h
    · exact Or.inl h
    · exact Or.inr (ih h)

theorem fileLine_take (line rest : Bytes) (hl : hasLF line = true) (hlen : lineLen line = line.length) :
    fileLine (line ++ rest) = .ok line rest := by
  unfold fileLine
  have hne : line ++ rest ≠ [] := by
    intro hc
    have : line = [] := by
      cases line with
      | nil => rfl
      | cons _ _ => simp at hc
    rw [this] at hl; simp [hasLF] at hl
  rw [if_neg hne, if_pos (hasLF_append line rest hl), lineLen_append line rest hl, hlen]
  simp

/-- a structurally well-formed frame at the head of the stream is consumed exactly, whatever follows -/
theorem delimit_frame (nh : Byte → Bool) (p : Proto) (f rest : Bytes) (hf : SFrame nh p f) :
    delimit fileSrc nh (f ++ rest) = .frame p f rest := by
  cases hf with
  | ubx c i l0 l1 body h =>
    simp only [delimit, fileSrc, List.cons_append, fileRead_one, List.getD_cons_zero]
    have hpre : (!isPre 0xb5) = false := by decide
    simp only [hpre, Bool.false_eq_true, if_false]
    have h4 : fileRead 4 (c :: i :: l0 :: l1 :: (body ++ rest)) = .ok [c, i, l0, l1] (body ++ rest) := by
      have := fileRead_take 4 [c, i, l0, l1] (body ++ rest) (by omega) rfl
      simpa using this
    have hlen : ubxLen [c, i, l0, l1] = le16 l0 l1 + 2 := by simp [ubxLen]
    have hb : fileRead (ubxLen [c, i, l0, l1]) (body ++ rest) = .ok body rest := by
      rw [hlen]; exact fileRead_take _ body rest (by omega) h
    simp only [and_self, if_true, h4, hb]
    simp
  | nmea b2 line hb hl hlen =>
    simp only [delimit, fileSrc, List.cons_append, fileRead_one, List.getD_cons_zero]
    have hpre : (!isPre 0x24) = false := by decide
    simp only [hpre, Bool.false_eq_true, if_false]
    have h1 : ¬ ((0x24 : Byte) = 0xb5 ∧ b2 = 0x62) := by intro hc; exact absurd hc.1 (by decide)
    simp only [h1, if_false, hb, and_self, if_true, fileLine_take line rest hl hlen]
    simp
  | rtcm b2 b3 rest' hb h =>
    simp only [delimit, fileSrc, List.cons_append, fileRead_one, List.getD_cons_zero]
    have hpre : (!isPre 0xd3) = false := by decide
    simp only [hpre, Bool.false_eq_true, if_false]
    have h1 : ¬ ((0xd3 : Byte) = 0xb5 ∧ b2 = 0x62) := by intro hc; exact absurd hc.1 (by decide)
    have h2 : ¬ ((0xd3 : Byte) = 0x24 ∧ nh b2 = true) := by intro hc; exact absurd hc.1 (by decide)
    simp only [h1, h2, if_false, hb, and_self, if_true]
    -- payload and CRC
    have hsz : rtcmLen [b3] [b2] = b3.toNat + 256 * b2.toNat := by simp [rtcmLen]
    obtain ⟨pl, crc, hpc, hpl, hcrc⟩ : ∃ pl crc, rest' = pl ++ crc ∧ pl.length = b3.toNat + 256 * b2.toNat ∧ crc.length = 3 :=
      ⟨rest'.take (b3.toNat + 256 * b2.toNat), rest'.drop (b3.toNat + 256 * b2.toNat),
        (List.take_append_drop _ _).symm, by rw [List.length_take]; omega, by rw [List.length_drop]; omega⟩
    subst hpc
    have hp : fileRead (rtcmLen [b3] [b2]) (pl ++ crc ++ rest) = .ok pl (crc ++ rest) := by
      rw [hsz, List.append_assoc]
      by_cases h0 : b3.toNat + 256 * b2.toNat = 0
      · rw [h0] at hpl ⊢
        have : pl = [] := List.length_eq_zero_iff.mp hpl
        subst this
        simp [fileRead_zero]
      · exact fileRead_take _ pl (crc ++ rest) h0 hpl
    have hc : fileRead 3 (crc ++ rest) = .ok crc rest := fileRead_take 3 crc rest (by omega) hcrc
    simp only [hp, hc]
    simp [List.append_assoc]

/-- a noise byte (no frame-start byte) is skipped on its own -/
theorem delimit_noise (nh : Byte → Bool) (b : Byte) (rest : Bytes) (hb : isPre b = false) :
    delimit fileSrc nh (b :: rest) = .skip rest := by
  simp [delimit, fileSrc, fileRead_one, hb]

/-- a stream segment: a noise byte or a structurally well-formed frame -/
inductive Seg (nh : Byte → Bool) where
  | noise (b : Byte) (h : isPre b = false)
  | frame (p : Proto) (f : Bytes) (h : SFrame nh p f)

def Seg.bytes {nh} : Seg nh → Bytes
  | .noise b _ => [b]
  | .frame _ f _ => f

def Seg.asFrame {nh} : Seg nh → Option (Proto × Bytes)
  | .noise _ _ => none
  | .frame p f _ => some (p, f)

def weave {nh} (segs : List (Seg nh)) : Bytes := (segs.map Seg.bytes).flatten

theorem sframe_nonempty {nh p f} (h : SFrame nh p f) : f ≠ [] := by cases h <;> simp

/-- the reader delimits exactly the frames of the weave, in order -/
theorem frames_weave (nh : Byte → Bool) (segs : List (Seg nh)) (fuel : Nat) (hf : segs.length + 1 ≤ fuel) :
    frames fileSrc nh fuel (some (weave segs)) = segs.filterMap Seg.asFrame := by
  induction segs generalizing fuel with
  | nil =>
    cases fuel with
    | zero => omega
    | succ f => simp [frames, weave, delimit, fileSrc, fileRead]
  | cons sg rest ih =>
    cases fuel with
    | zero => omega
    | succ f =>
      have hf' : rest.length + 1 ≤ f := by simp at hf; omega
      cases sg with
      | noise b hb =>
        simp only [frames, weave, List.map_cons, List.flatten_cons, Seg.bytes, List.cons_append, List.nil_append,
          delimit_noise nh b _ hb, List.filterMap_cons, Seg.asFrame]
        exact ih f hf'
      | frame p fr hfr =>
        simp only [frames, weave, List.map_cons, List.flatten_cons, Seg.bytes, delimit_frame nh p fr _ hfr,
          List.filterMap_cons, Seg.asFrame]
        congr 1
        exact ih f hf'

end Ubx
