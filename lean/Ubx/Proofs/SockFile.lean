import Ubx.Proofs.Sources
/-!
# Socket ≃ file: `readline` characterisation and the two truncation simulations (C10)
-/
namespace Ubx

/-- reading byte by byte: what `SocketWrapper.readline` + `_read_line` yield -/
theorem sockLineAux_char (l : Bytes) : ∀ (f : Nat) (st : Sock) (acc : Bytes), st.all = l → l.length < f →
    (hasLF l = true ∧ ∃ st', sockLineAux f st acc = .ok (acc ++ l.take (lineLen l)) st' ∧ st'.all = l.drop (lineLen l))
    ∨ (hasLF l = false ∧ sockLineAux f st acc = (if (acc ++ l).isEmpty then .eof else .short)) := by
  induction l with
  | nil =>
    intro f st acc hall hf
    right
    refine ⟨rfl, ?_⟩
    cases f with
    | zero => simp at hf
    | succ f =>
      simp only [sockLineAux]
      rcases sockRead_char 1 st with ⟨h, _⟩ | ⟨st', _, _, hle⟩
      · rw [h]; simp
      · rw [hall] at hle; simp at hle
  | cons b bs ih =>
    intro f st acc hall hf
    cases f with
    | zero => simp at hf
    | succ f =>
      simp only [sockLineAux]
      rcases sockRead_char 1 st with ⟨_, hlt⟩ | ⟨st', h, hall', _⟩
      · rw [hall] at hlt; simp at hlt
      · rw [h]
        rw [hall] at hall' ⊢
        simp only [List.take_succ_cons, List.take_zero, List.drop_succ_cons, List.drop_zero] at hall' ⊢
        by_cases hb : b = 0x0a
        · left
          subst hb
          simp only [hasLF, lineLen]
          refine ⟨by simp, st', ?_, ?_⟩
          · simp
          · simpa using hall'
        · have hne : ([b] : Bytes) ≠ [0x0a] := by
            intro hc; exact hb (List.head_eq_of_cons_eq hc)
          simp only [hne, if_false]
          have hf' : bs.length < f := by simp at hf; omega
          rcases ih f st' (acc ++ [b]) hall' hf' with ⟨hl, st'', e, ea⟩ | ⟨hl, e⟩
          · left
            simp only [hasLF, lineLen, hb, decide_false, Bool.false_or, if_false]
            refine ⟨hl, st'', ?_, ?_⟩
            · rw [e]
              have : 1 + lineLen bs = lineLen bs + 1 := by omega
              rw [this, List.take_succ_cons]; simp
            · rw [ea]
              have : 1 + lineLen bs = lineLen bs + 1 := by omega
              rw [this, List.drop_succ_cons]
          · right
            simp only [hasLF, hb, decide_false, Bool.false_or]
            refine ⟨hl, ?_⟩
            rw [e]; simp

theorem sockLine_char (st : Sock) :
    (hasLF st.all = true ∧ ∃ st', sockLine st = .ok (st.all.take (lineLen st.all)) st' ∧ st'.all = st.all.drop (lineLen st.all))
    ∨ (hasLF st.all = false ∧ sockLine st = (if st.all.isEmpty then .eof else .short)) := by
  have := sockLineAux_char st.all (st.all.length + 1) st [] rfl (by omega)
  simpa [sockLine] using this

/-- C10 (second sentence of the wrapper contract): `readline()` returns the bytes up to and including the next LF -/
theorem sockLine_spec (st : Sock) (h : hasLF st.all = true) :
    ∃ st', sockLine st = .ok (st.all.take (lineLen st.all)) st' ∧ st'.all = st.all.drop (lineLen st.all) := by
  rcases sockLine_char st with ⟨_, h'⟩ | ⟨h', _⟩
  · exact h'
  · rw [h] at h'; cases h'

/-- the socket is a truncation of the file holding everything that will ever arrive -/
theorem file_sock : TruncSim fileSrc sockSrc (fun s st => st.all = s) where
  read := by
    intro n s st h
    subst h
    dsimp only [fileSrc, sockSrc]
    rcases sockRead_char n st with ⟨he, hlt⟩ | ⟨st', he, ha, hle⟩
    · rw [he]
      cases hf : fileRead n st.all with
      | eof => left; rfl
      | short => left; rfl
      | ok d s' => right; left; rfl
    · rw [he]
      by_cases hn : n = 0
      · subst hn; rw [fileRead_zero]
        left; exact ⟨st', by simp, by simpa using ha⟩
      · rw [fileRead_ok hn hle]
        left; exact ⟨st', rfl, ha⟩
  line := by
    intro s st h
    subst h
    dsimp only [fileSrc, sockSrc]
    simp only [fileLine]
    rcases sockLine_char st with ⟨hl, st', e, ea⟩ | ⟨hl, e⟩
    · have hne : st.all ≠ [] := by intro hc; rw [hc] at hl; simp [hasLF] at hl
      simp only [hne, if_false, hl, if_true]
      left; exact ⟨st', e, ea⟩
    · rw [e]
      by_cases hne : st.all = []
      · simp [hne]
      · simp only [hne, if_false, hl, Bool.false_eq_true]
        right; simp [hne]

/-- … and the file is a truncation of the socket -/
theorem sock_file : TruncSim sockSrc fileSrc (fun st s => st.all = s) where
  read := by
    intro n st s h
    subst h
    dsimp only [fileSrc, sockSrc]
    rcases sockRead_char n st with ⟨he, hlt⟩ | ⟨st', he, ha, hle⟩
    · rw [he]
      have hn : n ≠ 0 := by omega
      by_cases h0 : st.all.length = 0
      · left; exact fileRead_eof hn h0
      · right; exact fileRead_short hn h0 hlt
    · rw [he]
      by_cases hn : n = 0
      · subst hn; rw [fileRead_zero]
        left; exact ⟨st.all, by simp, by simpa using ha⟩
      · rw [fileRead_ok hn hle]
        left; exact ⟨_, rfl, ha⟩
  line := by
    intro st s h
    subst h
    dsimp only [fileSrc, sockSrc]
    simp only [fileLine]
    rcases sockLine_char st with ⟨hl, st', e, ea⟩ | ⟨hl, e⟩
    · have hne : st.all ≠ [] := by intro hc; rw [hc] at hl; simp [hasLF] at hl
      rw [e]
      simp only [hne, if_false, hl, if_true]
      left; exact ⟨_, rfl, ea⟩
    · rw [e]
      by_cases hne : st.all = []
      · simp [hne]
      · simp [hne, hl]

end Ubx
