import Ubx.Model.Spec
import Ubx.Proofs.WalkPayload
/-!
# The parse-direction walk computes the tree-directed specification (C02)
-/
namespace Ubx

theorem slice_mid (pre x post : Bytes) : slice (pre ++ x ++ post) pre.length (pre.length + x.length) = x := by
  simp [slice]

/-- total byte size of the members of a variable-by-size group, when they are plain attributes / bitfields -/
def plainSize : List Item → Option Nat
  | [] => some 0
  | .attr _ (.t _ n) .one :: is => (plainSize is).map (· + n)
  | .bits _ (.t _ n) _ :: is => (plainSize is).map (· + n)
  | _ => none

mutual
/-- the tree has the definition's shape: leaf widths equal type sizes; a variable-by-size group is the last
    thing in the payload (`rest = []`), has plain members of positive total size -/
def shapeItem : Item → VT → Bytes → Bool
  | .attr _ (.t _ n) _, .leaf b, _ => b.length == n
  | .bits _ (.t _ n) _, .leaf b, _ => b.length == n
  | .group _ cnt items, .node reps, rest =>
    (match cnt with
     | .var => rest.isEmpty && (match plainSize items with | some g => g > 0 | none => false)
     | _ => true) && shapeReps items reps rest
  | _, _, _ => false
def shapeItems : List Item → List VT → Bytes → Bool
  | [], [], _ => true
  | i :: is, v :: vs, rest => shapeItem i v (encItems vs ++ rest) && shapeItems is vs rest
  | _, _, _ => false
def shapeReps (items : List Item) : List (List VT) → Bytes → Bool
  | [], _ => true
  | r :: rs, rest => shapeItems items r (encReps rs ++ rest) && shapeReps items rs rest
end

theorem readVal_eq_decode (ty : Ty) (sc : Scale) (pre x post : Bytes) :
    readVal ty sc (pre ++ x ++ post) pre.length x.length = decodeVal ty sc x := by
  simp only [readVal, slice_mid]

/-- single attribute: offset advances by the field width, environment as specified -/
theorem wSingle_spec (c : WCtx) (hp : c.hasPayload = true) (idx : List Nat) (n l sz : Nat) (sc : Scale)
    (pre b post : Bytes) (hb : b.length = sz) (env env' : Env)
    (hs : (match decodeVal (.t l sz) sc b with
           | Except.error e => Except.error e
           | Except.ok v => storeVal c idx n env v) = Except.ok env') :
    wSingle c idx n (.t l sz) sc ⟨pre.length, pre ++ b ++ post, env⟩
      = .ok ⟨pre.length + b.length, pre ++ b ++ post, env'⟩ := by
  subst hb
  unfold wSingle
  simp only [fieldSize, attsiz, Int.toNat_natCast, hp, if_true]
  rw [readVal_eq_decode]
  split at hs
  · cases hs
  · rename_i v hv
    rw [hv]
    simp only [hs]

theorem wBits_spec (c : WCtx) (hp : c.hasPayload = true) (idx : List Nat) (l sz : Nat) (flags : List (Name × Ty))
    (pre b post : Bytes) (hb : b.length = sz) (env env' : Env)
    (hs : flagsParse c idx (fromLE b) flags 0 env = .ok env') :
    wBits c idx (.t l sz) flags ⟨pre.length, pre ++ b ++ post, env⟩
      = .ok ⟨pre.length + b.length, pre ++ b ++ post, env'⟩ := by
  subst hb
  unfold wBits
  simp only [attsiz, Int.toNat_natCast, hp, if_true]
  rw [slice_mid, hs]

theorem repeatN_congr (body body' : Nat → WState → R WState) (h : ∀ i s, body i s = body' i s) (k i : Nat) (st : WState) :
    repeatN body k i st = repeatN body' k i st := by
  have : body = body' := by funext i s; exact h i s
  rw [this]

theorem sumSizes_plain (items : List Item) (g : Nat) (acc : Int) (h : plainSize items = some g) :
    sumSizes items acc = .ok (acc + (g : Int)) := by
  induction items generalizing g acc with
  | nil => simp [plainSize] at h; subst h; simp [sumSizes]
  | cons i rest ih =>
    match i, h with
    | .attr _ (.t _ n) .one, h =>
      simp only [plainSize, Option.map_eq_some_iff] at h
      obtain ⟨g', hg', rfl⟩ := h
      simp only [sumSizes, memberSize, attsiz]
      rw [ih g' _ hg']
      congr 1; push_cast; omega
    | .bits _ (.t _ n) _, h =>
      simp only [plainSize, Option.map_eq_some_iff] at h
      obtain ⟨g', hg', rfl⟩ := h
      simp only [sumSizes, memberSize, attsiz]
      rw [ih g' _ hg']
      congr 1; push_cast; omega

theorem enc_plain_len (items : List Item) (g : Nat) (h : plainSize items = some g) (r : List VT) (rest : Bytes)
    (hs : shapeItems items r rest = true) : (encItems r).length = g := by
  induction items generalizing g r rest with
  | nil =>
    cases r with
    | nil => simp [plainSize] at h; subst h; simp [encItems]
    | cons _ _ => simp [shapeItems] at hs
  | cons i is ih =>
    cases r with
    | nil => simp [shapeItems] at hs
    | cons v vs =>
      simp only [shapeItems, Bool.and_eq_true] at hs
      match i, h, hs with
      | .attr _ (.t _ n) .one, h, hs =>
        simp only [plainSize, Option.map_eq_some_iff] at h
        obtain ⟨g', hg', rfl⟩ := h
        cases v with
        | leaf b =>
          simp only [shapeItem, beq_iff_eq] at hs
          simp only [encItems, encItem, List.length_append, hs.1, ih g' hg' vs rest hs.2]; omega
        | node _ => simp [shapeItem] at hs
      | .bits _ (.t _ n) _, h, hs =>
        simp only [plainSize, Option.map_eq_some_iff] at h
        obtain ⟨g', hg', rfl⟩ := h
        cases v with
        | leaf b =>
          simp only [shapeItem, beq_iff_eq] at hs
          simp only [encItems, encItem, List.length_append, hs.1, ih g' hg' vs rest hs.2]; omega
        | node _ => simp [shapeItem] at hs

theorem encReps_plain_len (items : List Item) (g : Nat) (h : plainSize items = some g) (reps : List (List VT)) (rest : Bytes)
    (hs : shapeReps items reps rest = true) : (encReps reps).length = reps.length * g := by
  induction reps with
  | nil => simp [encReps]
  | cons r rs ih =>
    simp only [shapeReps, Bool.and_eq_true] at hs
    simp only [encReps, List.length_append, List.length_cons, enc_plain_len items g h r _ hs.1, ih hs.2]
    rw [Nat.add_mul]; omega

mutual
theorem wItem_spec (c : WCtx) (hp : c.hasPayload = true) (hcv : c.cfgval = false) (idx : List Nat)
    (i : Item) (v : VT) (pre post : Bytes) (env env' : Env)
    (hsh : shapeItem i v post = true) (hs : specItem c idx i v env = .ok env') :
    wItem c idx i ⟨pre.length, pre ++ encItem v ++ post, env⟩
      = .ok ⟨pre.length + (encItem v).length, pre ++ encItem v ++ post, env'⟩ := by
  match i, v with
  | .attr n (.t l sz) sc, .leaf b =>
    simp only [shapeItem, beq_iff_eq] at hsh
    simp only [specItem] at hs
    simp only [wItem, encItem]
    exact wSingle_spec c hp idx n l sz sc pre b post hsh env env' hs
  | .bits n (.t l sz) flags, .leaf b =>
    simp only [shapeItem, beq_iff_eq] at hsh
    simp only [specItem] at hs
    simp only [wItem, encItem]
    by_cases hbf : c.parsebf = true
    · simp only [hbf, if_true] at hs ⊢
      exact wBits_spec c hp idx l sz flags pre b post hsh env env' hs
    · simp only [hbf] at hs ⊢
      exact wSingle_spec c hp idx n l sz .one pre b post hsh env env' hs
  | .group n cnt items, .node reps =>
    simp only [specItem] at hs
    simp only [wItem, hcv, Bool.false_eq_true, if_false, encItem]
    -- the walker's repeat count is the number of repetitions in the tree
    have hcount : groupCount c cnt items ⟨pre.length, pre ++ encReps reps ++ post, env⟩ = .ok reps.length ∧
        specReps c idx items reps 1 env = .ok env' ∧ shapeReps items reps post = true := by
      cases cnt with
      | fixed k =>
        simp only [shapeItem, Bool.true_and] at hsh
        simp only at hs
        split at hs
        · rename_i hk; exact ⟨by simp [groupCount, hk], hs, hsh⟩
        · cases hs
      | named a =>
        simp only [shapeItem, Bool.true_and] at hsh
        simp only at hs
        split at hs
        · cases hs
        · rename_i k hk
          split at hs
          · rename_i hkk; exact ⟨by simp [groupCount, hk, hkk], hs, hsh⟩
          · cases hs
      | var =>
        simp only [shapeItem, Bool.and_eq_true] at hsh
        simp only at hs
        obtain ⟨⟨hpost, hg⟩, hreps⟩ := hsh
        refine ⟨?_, hs, hreps⟩
        have hpost' : post = [] := by simpa using hpost
        subst hpost'
        cases hps : plainSize items with
        | none => rw [hps] at hg; simp at hg
        | some g =>
          rw [hps] at hg
          have hgpos : 0 < g := by simpa using hg
          have hlen := encReps_plain_len items g hps reps [] hreps
          simp only [groupCount, calcNumRepeats, sumSizes_plain items g 0 hps]
          have hne : ¬ ((0 : Int) + (g : Int) = 0) := by omega
          simp only [hne, if_false, List.append_nil, List.length_append, hlen]
          congr 1
          have : ((pre.length + reps.length * g : Nat) : Int) - (pre.length : Int) = ((reps.length * g : Nat) : Int) := by
            push_cast; omega
          rw [this, Int.zero_add]
          have h2 : Int.tdiv ((reps.length * g : Nat) : Int) (g : Int) = (reps.length : Int) := by
            rw [Int.tdiv_eq_ediv_of_nonneg (by omega)]
            push_cast
            exact Int.mul_ediv_cancel _ (by omega)
          rw [h2]; simp
    rw [hcount.1]
    simp only
    exact wReps_spec c hp hcv idx items reps 1 pre post env env' hcount.2.2 hcount.2.1
  | .attr _ .ch _, _ => simp [shapeItem] at hsh
  | .attr _ (.malformed _) _, _ => simp [shapeItem] at hsh
  | .attr _ (.t _ _) _, .node _ => simp [shapeItem] at hsh
  | .bits _ .ch _, _ => simp [shapeItem] at hsh
  | .bits _ (.malformed _) _, _ => simp [shapeItem] at hsh
  | .bits _ (.t _ _) _, .node _ => simp [shapeItem] at hsh
  | .group _ _ _, .leaf _ => simp [shapeItem] at hsh
theorem wItems_spec (c : WCtx) (hp : c.hasPayload = true) (hcv : c.cfgval = false) (idx : List Nat)
    (is : List Item) (vs : List VT) (pre post : Bytes) (env env' : Env)
    (hsh : shapeItems is vs post = true) (hs : specItems c idx is vs env = .ok env') :
    wItems c idx is ⟨pre.length, pre ++ encItems vs ++ post, env⟩
      = .ok ⟨pre.length + (encItems vs).length, pre ++ encItems vs ++ post, env'⟩ := by
  match is, vs with
  | [], [] =>
    simp only [specItems] at hs; cases hs
    simp [wItems, encItems]
  | i :: is', v :: vs' =>
    simp only [shapeItems, Bool.and_eq_true] at hsh
    simp only [specItems] at hs
    split at hs
    · cases hs
    · rename_i env1 h1
      simp only [wItems, encItems]
      have e1 : pre ++ (encItem v ++ encItems vs') ++ post = pre ++ encItem v ++ (encItems vs' ++ post) := by
        simp [List.append_assoc]
      rw [e1, wItem_spec c hp hcv idx i v pre (encItems vs' ++ post) env env1 hsh.1 h1]
      simp only
      have e2 : pre ++ encItem v ++ (encItems vs' ++ post) = (pre ++ encItem v) ++ encItems vs' ++ post := by
        simp [List.append_assoc]
      have e3 : pre.length + (encItem v).length = (pre ++ encItem v).length := by simp
      rw [e2, e3, wItems_spec c hp hcv idx is' vs' (pre ++ encItem v) post env1 env' hsh.2 hs]
      simp [List.append_assoc, Nat.add_assoc]
  | [], _ :: _ => simp [shapeItems] at hsh
  | _ :: _, [] => simp [shapeItems] at hsh
theorem wReps_spec (c : WCtx) (hp : c.hasPayload = true) (hcv : c.cfgval = false) (idx : List Nat)
    (items : List Item) (reps : List (List VT)) (start : Nat) (pre post : Bytes) (env env' : Env)
    (hsh : shapeReps items reps post = true) (hs : specReps c idx items reps start env = .ok env') :
    repeatN (fun i s => wItems c (idx ++ [i]) items s) reps.length start ⟨pre.length, pre ++ encReps reps ++ post, env⟩
      = .ok ⟨pre.length + (encReps reps).length, pre ++ encReps reps ++ post, env'⟩ := by
  match reps with
  | [] =>
    simp only [specReps] at hs; cases hs
    simp [repeatN, encReps]
  | r :: rs =>
    simp only [shapeReps, Bool.and_eq_true] at hsh
    simp only [specReps] at hs
    split at hs
    · cases hs
    · rename_i env1 h1
      simp only [List.length_cons, repeatN, encReps]
      have e1 : pre ++ (encItems r ++ encReps rs) ++ post = pre ++ encItems r ++ (encReps rs ++ post) := by
        simp [List.append_assoc]
      rw [e1, wItems_spec c hp hcv (idx ++ [start]) items r pre (encReps rs ++ post) env env1 hsh.1 h1]
      simp only
      have e2 : pre ++ encItems r ++ (encReps rs ++ post) = (pre ++ encItems r) ++ encReps rs ++ post := by
        simp [List.append_assoc]
      have e3 : pre.length + (encItems r).length = (pre ++ encItems r).length := by simp
      rw [e2, e3, wReps_spec c hp hcv idx items rs (start + 1) (pre ++ encItems r) post env1 env' hsh.2 hs]
      simp [List.append_assoc, Nat.add_assoc]
end

end Ubx
