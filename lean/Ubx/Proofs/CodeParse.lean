import Ubx.Proofs.CodeHelpers
/-!
# `UBXReader.parse`, as written in the working tree, computes the model's `parse`

`Gen.Code.fn_UBXReader_parse` is the syntax tree of the static method (regenerated on every run). The host supplies
what the method calls — `calc_checksum`, `bytes2val(·, U2)`, `val2bytes(·, U2)`, `getinputmode` and the `UBXMessage`
constructor — as the corresponding model functions (their own equivalence theorems are in `CodeHelpers`; the constructor
is the hand model `construct`, tied to the code by the correspondence check). `parse_eq` then says: for every byte
string, every `msgmode`, `validate` and `parsebitfield`, running the code gives exactly the model's answer — the same
message, or the same exception class. C01, C05 and C08 are theorems about that model function.
-/
set_option maxRecDepth 10000
set_option linter.unusedSimpArgs false
namespace Ubx.Py
open Ubx Ubx.Gen.Code

section
variable (ctx : Ctx)
theorem pg_GET : parseGlob 0x474554 = some (.int 0) := by
  simp only [parseGlob, globals, globLookup, Nat.reduceEqDiff, ↓reduceIte, G.toV]
theorem pg_SET : parseGlob 0x534554 = some (.int 1) := by
  simp only [parseGlob, globals, globLookup, Nat.reduceEqDiff, ↓reduceIte, G.toV]
theorem pg_POLL : parseGlob 0x504f4c4c = some (.int 2) := by
  simp only [parseGlob, globals, globLookup, Nat.reduceEqDiff, ↓reduceIte, G.toV]
theorem pg_SETPOLL : parseGlob 0x534554504f4c4c = some (.int 3) := by
  simp only [parseGlob, globals, globLookup, Nat.reduceEqDiff, ↓reduceIte, G.toV]
theorem pg_VALCKSUM : parseGlob 0x56414c434b53554d = some (.int 1) := by
  simp only [parseGlob, globals, globLookup, Nat.reduceEqDiff, ↓reduceIte, G.toV]
theorem pg_UBX_HDR : parseGlob 0x5542585f484452 = some (.bytes [0xb5, 0x62]) := by
  simp only [parseGlob, globals, globLookup, Nat.reduceEqDiff, ↓reduceIte, G.toV]
theorem pg_U2 : parseGlob 0x5532 = some (.str 0x55303032) := by
  simp only [parseGlob, globals, globLookup, Nat.reduceEqDiff, ↓reduceIte, G.toV]
theorem pg_locals (x : Name) (h : globLookup (ω := Msg) globals x = none) : parseGlob x = none := h
theorem pc_ck (b : Bytes) (kw : List (Name × V Msg)) (h : Unit) :
    parseCall ctx 0x63616c635f636865636b73756d [.bytes b] kw h = (.ok (.bytes (calcChecksum b)), h) := rfl
theorem pc_b2v (b : Bytes) (kw : List (Name × V Msg)) (h : Unit) :
    parseCall ctx 0x62797465733276616c [.bytes b, .str 0x55303032] kw h = (.ok (.int (fromLE b : Nat)), h) := rfl
theorem pc_v2b (i : Int) (kw : List (Name × V Msg)) (h : Unit) :
    parseCall ctx 0x76616c326279746573 [.int i, .str 0x55303032] kw h
      = (encR .bytes (val2bytes ctx.atttype (.int i) (.t cU 2)), h) := rfl
theorem pc_gim (b : Bytes) (kw : List (Name × V Msg)) (h : Unit) :
    parseCall ctx 0x676574696e7075746d6f6465 [.bytes b] kw h = (.ok (.int ((getinputmode ctx b).toNat : Nat)), h) := rfl
theorem pc_msg0 (c i : Bytes) (m : Int) (hm : 0 ≤ m) (h : Unit) :
    parseCall ctx 0x5542584d657373616765 [.bytes c, .bytes i, .int m] [] h
      = (encR .host (construct ctx c i m.toNat true .empty), h) := by
  simp [parseCall, hm]
theorem pc_msg1 (c i p : Bytes) (m : Int) (hm : 0 ≤ m) (bf : Bool) (h : Unit) :
    parseCall ctx 0x5542584d657373616765 [.bytes c, .bytes i, .int m]
        [(0x7061796c6f6164, .bytes p), (0x70617273656269746669656c64, .bool bf)] h
      = (encR .host (construct ctx c i m.toNat bf (.payload p)), h) := by
  simp [parseCall, hm]
end

theorem ph_call (ctx : Ctx) : (parseHost ctx).call = parseCall ctx := rfl
theorem ph_glob (ctx : Ctx) : (parseHost ctx).glob = parseGlob := rfl
theorem ph_truthy (ctx : Ctx) (o : Msg) : (parseHost ctx).truthy o = true := rfl

theorem intAnd_nat (a b : Nat) : intAnd (a : Int) (b : Int) = ((a &&& b : Nat) : Int) := by
  unfold intAnd
  have h1 : (0 : Int) ≤ (a : Int) := Int.natCast_nonneg a
  have h2 : (0 : Int) ≤ (b : Int) := Int.natCast_nonneg b
  simp only [h1, h2, if_true, Int.toNat_natCast]

theorem intAnd_nat_one (a : Nat) : intAnd (a : Int) 1 = ((a &&& 1 : Nat) : Int) := intAnd_nat a 1

macro "pp" "[" ls:Lean.Parser.Tactic.simpLemma,* "]" : tactic => `(tactic| pystep [ph_call, ph_glob, ph_truthy, pg_GET, pg_SET, pg_POLL, pg_SETPOLL, pg_VALCKSUM, pg_UBX_HDR, pg_U2,
  pc_ck, pc_b2v, pc_v2b, pc_gim, pc_msg0, pc_msg1, intAnd_nat_one, Int.reduceBEq, Int.natCast_nonneg, Int.toNat_natCast,
  bne, Bool.beq_eq_decide_eq, Int.reduceEq, Int.reduceNe, decide_true, decide_false, Bool.not_true, Bool.not_false, $ls,*])
macro "pp" : tactic => `(tactic| pp [])

set_option maxHeartbeats 2000000 in
theorem parse_eq (ctx : Ctx)
    (hU2 : ∀ i : Int, 0 ≤ i → i ≤ 65535 → ∃ b, val2bytes ctx.atttype (.int i) (.t cU 2) = .ok b)
    (fuel : Nat) (message : Bytes) (msgmode validate : Nat) (bf : Bool) :
    runFn (parseHost ctx) fuel fn_UBXReader_parse [.bytes message, .int msgmode, .int validate, .bool bf] ()
      = (encR .host (parse ctx msgmode validate bf message), ()) := by
  unfold runFn fn_UBXReader_parse
  rcases Nat.lt_or_ge msgmode 4 with hm | hm
  · have hm' : msgmode = 0 ∨ msgmode = 1 ∨ msgmode = 2 ∨ msgmode = 3 := by omega
    rcases hm' with rfl | rfl | rfl | rfl
    all_goals
      by_cases hz : slice message 4 6 = [0, 0] <;> by_cases hv : validate &&& 1 = 0
    -- not validating
    all_goals first
      | (have hb : ((validate &&& 1 : Nat) : Int) = 0 := by rw [hv]; rfl
         repeat pp [hz, hb]
         simp only [parse, parsePayload, hz, hv, Nat.not_lt_zero, Nat.reduceGT, Nat.reduceEqDiff, ↓reduceIte, ne_eq,
           not_true_eq_false, false_and, if_false, if_true, Mode.toNat, pySlice_to_tail2, Int.reduceLE, Int.reduceToNat]
         generalize construct ctx _ _ _ _ _ = r
         cases r <;> rfl)
      | skip
    -- validating
    all_goals
      have hb : ¬ (((validate &&& 1 : Nat) : Int) = 0) := by omega
      by_cases hH : slice message 0 2 = [0xb5, 0x62]
      · by_cases hL : ((message.length : Int) - 8) = ((fromLE (slice message 4 6) : Nat) : Int)
        · have hL' := hL
          by_cases hC : pySlice message ((message.length : Int) - 2) message.length
              = calcChecksum (slice message 2 3 ++ slice message 3 4 ++ slice message 4 6 ++ (parsePayload message).getD [])
          · have hC' := hC
            have hCm := hC
            simp only [parsePayload, hz, ↓reduceIte, Option.getD_none, Option.getD_some, List.append_nil, pySlice_tail2,
              pySlice_to_tail2, Int.reduceLE, Int.reduceToNat] at hC' hL'
            simp only [parsePayload, hz, ↓reduceIte, Option.getD_none, Option.getD_some, List.append_nil] at hCm
            repeat pp [hz, hb, hH, hL', hC']
            simp only [parse, validFrame, Bool.beq_eq_decide_eq, parsePayload, hz, ↓reduceIte, Option.getD_none, Option.getD_some,
              List.append_nil, hH, hL', hCm, decide_true, Bool.and_self, Bool.and_true,
              Bool.true_eq_false, and_false, hv, Nat.not_lt_zero, Nat.reduceGT, Nat.reduceEqDiff, ne_eq,
              not_true_eq_false, not_false_eq_true, false_and, true_and, if_false, if_true, Mode.toNat, pySlice_to_tail2,
              Int.reduceLE, Int.reduceToNat]
            generalize construct ctx _ _ _ _ _ = r
            cases r <;> rfl
          · have hC' := hC
            have hCm := hC
            simp only [parsePayload, hz, ↓reduceIte, Option.getD_none, Option.getD_some, List.append_nil, pySlice_tail2,
              pySlice_to_tail2, Int.reduceLE, Int.reduceToNat] at hC' hL'
            simp only [parsePayload, hz, ↓reduceIte, Option.getD_none, Option.getD_some, List.append_nil] at hCm
            repeat pp [hz, hb, hH, hL', hC']
            simp only [parse, validFrame, Bool.beq_eq_decide_eq, parsePayload, hz, ↓reduceIte, Option.getD_none, Option.getD_some,
              List.append_nil, hH, hL', hCm, decide_true, decide_false, Bool.and_self, Bool.and_true,
              Bool.and_false, Bool.true_eq_false, and_false, and_true, hv, Nat.not_lt_zero, Nat.reduceGT, Nat.reduceEqDiff,
              ne_eq, not_true_eq_false, not_false_eq_true, false_and, true_and, if_false, if_true]
            rfl
        · -- length field disagrees with the actual length
          have hL' := hL
          try simp only [hz] at hL'
          by_cases h0 : (0 : Int) ≤ (message.length : Int) - 8
          · by_cases h1 : (message.length : Int) - 8 ≤ 65535
            · obtain ⟨b, hb2⟩ := hU2 _ h0 h1
              repeat pp [hz, hb, hH, hL', h0, h1, hb2, encR]
              simp only [parse, validFrame, Bool.beq_eq_decide_eq, parsePayload, hz, ↓reduceIte, Option.getD_none, Option.getD_some,
                List.append_nil, hH, hL', decide_true, decide_false, Bool.and_self, Bool.and_true, Bool.false_and, Bool.true_and,
                Bool.and_false, Bool.true_eq_false, and_false, and_true, hv, Nat.not_lt_zero, Nat.reduceGT, Nat.reduceEqDiff,
                ne_eq, not_true_eq_false, not_false_eq_true, false_and, true_and, if_false, if_true]
              rfl
            · repeat pp [hz, hb, hH, hL', h0, h1, encR]
              simp only [parse, validFrame, Bool.beq_eq_decide_eq, parsePayload, hz, ↓reduceIte, Option.getD_none, Option.getD_some,
                List.append_nil, hH, hL', decide_true, decide_false, Bool.and_self, Bool.and_true, Bool.false_and, Bool.true_and,
                Bool.and_false, Bool.true_eq_false, and_false, and_true, hv, Nat.not_lt_zero, Nat.reduceGT, Nat.reduceEqDiff,
                ne_eq, not_true_eq_false, not_false_eq_true, false_and, true_and, if_false, if_true]
              rfl
          · repeat pp [hz, hb, hH, hL', h0, encR]
            simp only [parse, validFrame, Bool.beq_eq_decide_eq, parsePayload, hz, ↓reduceIte, Option.getD_none, Option.getD_some,
              List.append_nil, hH, hL', decide_true, decide_false, Bool.and_self, Bool.and_true, Bool.false_and, Bool.true_and,
              Bool.and_false, Bool.true_eq_false, and_false, and_true, hv, Nat.not_lt_zero, Nat.reduceGT, Nat.reduceEqDiff,
              ne_eq, not_true_eq_false, not_false_eq_true, false_and, true_and, if_false, if_true]
            rfl
      · -- bad header
        have hL' : True := trivial
        repeat pp [hz, hb, hH]
        simp only [parse, validFrame, Bool.beq_eq_decide_eq, parsePayload, hz, ↓reduceIte, Option.getD_none, Option.getD_some,
          List.append_nil, hH, hL', decide_true, decide_false, Bool.and_self, Bool.and_true, Bool.false_and, Bool.true_and,
          Bool.and_false, Bool.true_eq_false, and_false, and_true, hv, Nat.not_lt_zero, Nat.reduceGT, Nat.reduceEqDiff,
          ne_eq, not_true_eq_false, not_false_eq_true, false_and, true_and, if_false, if_true]
        rfl
  · have e0 : ¬ ((msgmode : Int) = 0) := by omega
    have e1 : ¬ ((msgmode : Int) = 1) := by omega
    have e2 : ¬ ((msgmode : Int) = 2) := by omega
    have e3 : ¬ ((msgmode : Int) = 3) := by omega
    have hgt : msgmode > 3 := by omega
    repeat pp [e0, e1, e2, e3]
    simp only [parse, hgt, ↓reduceIte]
    rfl
end Ubx.Py
