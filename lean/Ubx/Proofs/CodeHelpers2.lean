import Ubx.Proofs.CodeReadPass
import Ubx.Proofs.CodeParse
import Ubx.Model.Helpers
import Ubx.Generated.Tables
/-!
# `protocol()` and `get_bits()`, as written in the working tree, are the model's `protocol` / `getBits`

* `protocol_eq` (`protocol_eq_gen` with the generated constants): for every byte string — the two-byte slice, the
  comparison with `UBX_HDR`, membership in the `NMEA_HDR` tuple, the `p[0] == 0xd3 and p[1] & ~0x03 == 0` test with its
  IndexError on inputs too short for it, the protocol constants returned.
* `get_bits_eq`: for every bit field and every non-zero mask, with any `while` budget covering the mask's bit length —
  the value of `int(bitfield.hex(), 16)`, the loop that strips the mask's trailing zeros (induction on the budget, `gb_loop`),
  `val >> i & bitmask`; ValueError for an empty bit field. `get_bits_zero_mask`: with a zero mask the loop as written
  never ends (every budget is exhausted), which is the model's `none`.
-/
set_option maxRecDepth 10000
set_option linter.unusedSimpArgs false
namespace Ubx.Py
open Ubx Ubx.Gen.Code

theorem byte_beq_211 (b : UInt8) : (((b.toNat : Nat) : Int) == 211) = decide (b = 211) := by
  by_cases hb : b = 211
  · subst hb; decide
  · have h1 : b.toNat ≠ 211 := fun h => hb (UInt8.toNat_inj.mp (by simpa using h))
    have h2 : ¬ ((b.toNat : Int) = 211) := by omega
    simp [hb, h2]

theorem protocol_eq (glob : Name → Option (V Empty)) (hdr2 : List Byte)
    (hU : glob 0x5542585f484452 = some (.bytes [0xb5, 0x62]))
    (hN : glob 0x4e4d45415f484452 = some (.tuple (hdr2.map (fun b => V.bytes [0x24, b]))))
    (hpU : glob 0x5542585f50524f544f434f4c = some (.int 2))
    (hpN : glob 0x4e4d45415f50524f544f434f4c = some (.int 1))
    (hpR : glob 0x5254434d335f50524f544f434f4c = some (.int 4))
    (F : Nat) (raw : Bytes) :
    runFn (helperHost glob) F fn_protocol [.bytes raw] ()
      = (encR (fun n : Nat => V.int n) (protocol hdr2 raw), ()) := by
  unfold runFn fn_protocol
  have hg : (helperHost glob).glob = glob := rfl
  pystep [slice_min_both]
  unfold protocol
  have hlen : (slice raw 0 2).length ≤ 2 := by simp [slice]; omega
  generalize slice raw 0 2 = p at hlen ⊢
  match p, hlen with
  | [], _ =>
    have e0 : (([] : Bytes) == [181, 98]) = false := by decide
    have e1 : decide (([] : Bytes).length = 2 ∧ ([] : Bytes).getD 0 0 = 36 ∧ hdr2.contains (([] : Bytes).getD 1 0) = true) = false := by simp
    pystep [hg, hU, hN, memTuple_hdr, e0]
    pystep [hg, hU, hN, memTuple_hdr, e1]
    pystep [hg]
    simp [encR, excName]
  | [b], _ =>
    have e0 : (([b] : Bytes) == [181, 98]) = false := by simp
    have e1 : decide (([b] : Bytes).length = 2 ∧ ([b] : Bytes).getD 0 0 = 36 ∧ hdr2.contains (([b] : Bytes).getD 1 0) = true) = false := by simp
    pystep [hg, hU, hN, memTuple_hdr, e0]
    pystep [hg, hU, hN, memTuple_hdr, e1]
    have l1 : ((([b] : Bytes).length : Nat) : Int) = 1 := rfl
    by_cases hb : b = 211
    · subst hb
      pystep [hg, l1, List.getD_cons_zero]
      simp [encR, excName]
    · pystep [hg, l1, List.getD_cons_zero, byte_beq_211, hb]
      simp [encR, hb]
  | [b0, b1], _ =>
    have l2 : ((([b0, b1] : Bytes).length : Nat) : Int) = 2 := rfl
    by_cases hu : ([b0, b1] : Bytes) = [181, 98]
    · have e0 : (([b0, b1] : Bytes) == [181, 98]) = true := by simp [hu]
      pystep [hg, hU, hpU, e0]
      simp [encR, hu]
    · have e0 : (([b0, b1] : Bytes) == [181, 98]) = false := by simpa using hu
      pystep [hg, hU, hN, memTuple_hdr, e0]
      by_cases hn : (([b0, b1] : Bytes).length = 2 ∧ ([b0, b1] : Bytes).getD 0 0 = 36 ∧ hdr2.contains (([b0, b1] : Bytes).getD 1 0) = true)
      · pystep [hg, hN, hpN, memTuple_hdr, hn]
        simp only [hu, hn, ↓reduceIte, and_self, encR]
        simp
      · pystep [hg, hN, memTuple_hdr, hn]
        simp only [decide_false]
        by_cases hb : b0 = 211
        · subst hb
          by_cases hr : b1 &&& 0xfc = 0
          · have hb' : (intAnd (b1.toNat : Int) (intInv 3) == 0) = true := by
              rw [beq_iff_eq, rtcm_bits]; exact hr
            pystep [hg, hpR, l2, List.getD_cons_zero, List.getD_cons_succ, byte_beq_211, hb']
            simp [encR, hu, hr]
          · have hb' : (intAnd (b1.toNat : Int) (intInv 3) == 0) = false := by
              rw [beq_eq_false_iff_ne]; intro h; rw [rtcm_bits] at h; exact hr h
            pystep [hg, hpR, l2, List.getD_cons_zero, List.getD_cons_succ, byte_beq_211, hb']
            simp [encR, hu, hr]
        · pystep [hg, l2, List.getD_cons_zero, byte_beq_211, hb]
          simp [encR, hu, hb]
  | _ :: _ :: _ :: _, h => exact absurd h (by simp)

/-- the generated `NMEA_HDR` tuple is `b"$"` + each second byte of the model's table -/
theorem gen_hN : globLookup (ω := Empty) globals 0x4e4d45415f484452 = some (.tuple (Gen.nmeaHdr2.map (fun b => V.bytes [0x24, b]))) := by
  rfl

theorem protocol_eq_gen (F : Nat) (raw : Bytes) :
    runFn (helperHost (globLookup globals)) F fn_protocol [.bytes raw] ()
      = (encR (fun n : Nat => V.int n) (protocol Gen.nmeaHdr2 raw), ()) :=
  protocol_eq _ Gen.nmeaHdr2 rfl gen_hN rfl rfl rfl F raw

/-! ### `get_bits` -/

def gbLoop : S := match fn_get_bits.body with
  | [_, _, l, _] => l
  | _ => .pass
def gbCond : E := match gbLoop with | .while_ c _ => c | _ => .none
def gbBody : List S := match gbLoop with | .while_ _ b => b | _ => []

def gbSt (bf : Bytes) (v : Int) (m k : Nat) : St Empty Unit :=
  ⟨[(0x6269746669656c64, .bytes bf), (0x6269746d61736b, .int m), (0x69, .int k), (0x76616c, .int v)], ()⟩

theorem fdiv_shr (m t : Nat) : (m : Int).fdiv (2 ^ t) = ((m >>> t : Nat) : Int) := by
  have : (0:Int) ≤ 2 ^ t := Int.pow_nonneg (by decide)
  rw [Int.fdiv_eq_ediv_of_nonneg _ this, Nat.shiftRight_eq_div_pow]
  norm_cast

theorem gb_cond (glob : Name → Option (V Empty)) (G : Nat) (bf : Bytes) (v : Int) (m k : Nat) :
    whileCond (helperHost glob) G gbCond (gbSt bf v m k) = (.ok (((m &&& 1 : Nat) : Int) == 0), gbSt bf v m k) := by
  simp only [whileCond, gbCond, gbLoop, fn_get_bits, gbSt]
  pysimp [intAnd_nat_one]

theorem gb_body (glob : Name → Option (V Empty)) (G : Nat) (bf : Bytes) (v : Int) (m k : Nat) :
    whileBody (helperHost glob) G gbBody (gbSt bf v m k) = (.ok .next, gbSt bf v (m / 2) (k + 1)) := by
  simp only [whileBody, gbBody, gbLoop, fn_get_bits, gbSt]
  pystep
  have e : (m : Int).fdiv (2 ^ 1) = ((m / 2 : Nat) : Int) := by
    rw [Int.fdiv_eq_ediv_of_nonneg _ (by decide)]; simp
  rw [e]
  rfl

theorem gb_loop (glob : Name → Option (V Empty)) (G : Nat) (bf : Bytes) (v : Int) (F : Nat) : ∀ (m k : Nat), m ≠ 0 → m < 2 ^ F →
    whileLoop (whileCond (helperHost glob) G gbCond) (whileBody (helperHost glob) G gbBody) (F + 1) (gbSt bf v m k)
      = (.ok .next, gbSt bf v (m >>> trailingZeros F m) (k + trailingZeros F m)) := by
  induction F with
  | zero => intro m k h0 h1; simp at h1; omega
  | succ F ih =>
    intro m k h0 h1
    rw [whileLoop, gb_cond]
    have hand : m &&& 1 = m % 2 := Nat.and_one_is_mod m
    rw [hand]
    by_cases hp : m % 2 = 0
    · have e : (((m % 2 : Nat) : Int) == 0) = true := by simp [hp]
      simp only [e, gb_body]
      have := ih (m / 2) (k + 1) (by omega) (by rw [Nat.pow_succ] at h1; omega)
      rw [this]
      simp only [trailingZeros, hp, ↓reduceIte]
      have e1 : (m / 2) >>> trailingZeros F (m / 2) = m >>> (1 + trailingZeros F (m / 2)) := by
        rw [Nat.shiftRight_add, Nat.shiftRight_eq_div_pow m 1]
      have e2 : k + 1 + trailingZeros F (m / 2) = k + (1 + trailingZeros F (m / 2)) := by omega
      rw [e1, e2]
    · have e : (((m % 2 : Nat) : Int) == 0) = false := by
        rw [beq_eq_false_iff_ne]; omega
      simp only [e, trailingZeros, hp, ↓reduceIte, Nat.shiftRight_zero, Nat.add_zero]

theorem tz_stable : ∀ (f g m : Nat), m ≠ 0 → m < 2 ^ f → m < 2 ^ g → trailingZeros f m = trailingZeros g m := by
  intro f
  induction f with
  | zero => intro g m h0 h1; simp at h1; omega
  | succ f ih =>
    intro g m h0 h1 h2
    cases g with
    | zero => simp at h2; omega
    | succ g =>
      simp only [trailingZeros]
      by_cases hp : m % 2 = 0
      · simp only [hp, ↓reduceIte]
        rw [ih g (m / 2) (by omega) (by rw [Nat.pow_succ] at h1; omega) (by rw [Nat.pow_succ] at h2; omega)]
      · simp only [hp, ↓reduceIte]

/-- **`get_bits` as written = the model's `getBits`** for a non-zero mask, with any `while` budget that covers the
    mask's bit length (`mask < 2^F`) -/
theorem get_bits_eq (glob : Name → Option (V Empty)) (F : Nat) (bf : Bytes) (mask : Nat) (h0 : mask ≠ 0) (hF : mask < 2 ^ F) :
    some (runFn (helperHost glob) (F + 1) fn_get_bits [.bytes bf, .int mask] ())
      = (getBits bf mask).map (fun r => (encR (fun n : Nat => V.int n) r, ())) := by
  unfold runFn fn_get_bits getBits
  pystep
  cases bf with
  | nil =>
    pystep [List.isEmpty_nil, and_self]
    simp [encR, excName]; rfl
  | cons b bs =>
    pystep [List.isEmpty_nil, List.isEmpty_cons, and_self, Bool.false_eq_true]
    simp only [List.isEmpty_cons, Bool.false_eq_true, ↓reduceIte, h0]
    rw [execB_cons, execS_while]
    have hl := gb_loop glob (F + 1) (b :: bs) (fromBE (b :: bs) : Nat) F mask 0 h0 hF
    simp only [gbSt, gbCond, gbBody, gbLoop, fn_get_bits, Int.natCast_zero, Nat.zero_add] at hl
    rw [hl]
    simp only
    rw [tz_stable F (mask.log2 + 1) mask h0 hF Nat.lt_log2_self]
    generalize trailingZeros (mask.log2 + 1) mask = t
    have ht : ¬ ((t : Int) < 0) := by omega
    pystep [fdiv_shr, intAnd_nat, Int.natCast_nonneg, Int.toNat_natCast, ht]
    simp [encR]

theorem gb_loop_zero (glob : Name → Option (V Empty)) (G : Nat) (bf : Bytes) (v : Int) (F : Nat) : ∀ (k : Nat),
    (whileLoop (whileCond (helperHost glob) G gbCond) (whileBody (helperHost glob) G gbBody) F (gbSt bf v 0 k)).1
      = .error (.exc xFuel 0) := by
  induction F with
  | zero => intro k; rfl
  | succ F ih =>
    intro k
    rw [whileLoop, gb_cond]
    have e : ((((0 : Nat) &&& 1 : Nat) : Int) == 0) = true := by decide
    simp only [e, gb_body]
    exact ih (k + 1)

/-- a zero mask: the loop as written never ends (the model's `none`) — every budget runs out -/
theorem get_bits_zero_mask (glob : Name → Option (V Empty)) (F : Nat) (b : Byte) (bs : Bytes) :
    getBits (b :: bs) 0 = none ∧
    (runFn (helperHost glob) F fn_get_bits [.bytes (b :: bs), .int 0] ()).1 = .error (.exc xFuel 0) := by
  refine ⟨by simp [getBits], ?_⟩
  unfold runFn fn_get_bits
  pystep
  pystep [List.isEmpty_nil, List.isEmpty_cons, and_self, Bool.false_eq_true]
  rw [execB_cons, execS_while]
  have hl := gb_loop_zero glob F (b :: bs) (fromBE (b :: bs) : Nat) F 0
  simp only [gbSt, gbCond, gbBody, gbLoop, fn_get_bits, Int.natCast_zero] at hl
  generalize whileLoop _ _ F _ = r at hl ⊢
  obtain ⟨r1, r2⟩ := r
  simp only at hl
  subst hl
  rfl
end Ubx.Py
