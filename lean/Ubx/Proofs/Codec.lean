import Ubx.Proofs.Bytes
/-! # Scalar codecs: integers round-trip, widths, refusals -/
namespace Ubx

theorem two_pow_8n (n : Nat) : (256 : Nat) ^ n = 2 ^ (8 * n) := by
  rw [show (256 : Nat) = 2 ^ 8 by rfl, ← Nat.pow_mul]

theorem pow_split (n : Nat) (hn : 0 < n) : (256 : Nat) ^ n = 2 * 2 ^ (8 * n - 1) := by
  rw [two_pow_8n]
  have : 8 * n = (8 * n - 1) + 1 := by omega
  rw [this, Nat.pow_succ]; simp; omega

theorem fromLESigned_toLE_nonneg (n v : Nat) (hn : 0 < n) (hv : v < 2 ^ (8 * n - 1)) :
    fromLESigned (toLE n v) = (v : Int) := by
  unfold fromLESigned
  have hlt : v < 256 ^ n := by rw [pow_split n hn]; omega
  simp only [toLE_length, fromLE_toLE n v hlt]
  rw [if_neg (by omega), if_pos hv]

theorem fromLESigned_toLE_neg (n w : Nat) (hn : 0 < n) (h1 : 2 ^ (8 * n - 1) ≤ w) (h2 : w < 2 * 2 ^ (8 * n - 1)) :
    fromLESigned (toLE n w) = (w : Int) - ((2 * 2 ^ (8 * n - 1) : Nat) : Int) := by
  unfold fromLESigned
  have hlt : w < 256 ^ n := by rw [pow_split n hn]; exact h2
  simp only [toLE_length, fromLE_toLE n w hlt]
  rw [if_neg (by omega), if_neg (by omega)]

/-- unsigned integer types: every value in range encodes to exactly `n` bytes and decodes back -/
theorem uint_roundtrip (att : List (Nat × List Kind)) (l n : Nat) (v : Nat)
    (hl : l = cU ∨ l = cE ∨ l = cL) (hatt : ∃ ks, lookup l att = some ks ∧ ks.contains Kind.int = true)
    (hv : v < 256 ^ n) :
    val2bytes att (.int v) (.t l n) = .ok (toLE n v) ∧ bytes2val (toLE n v) (.t l n) = .ok (.int v) := by
  obtain ⟨ks, hk, hc⟩ := hatt
  have hint : isIntLetter l = true := by rcases hl with h | h | h <;> simp [h, isIntLetter, cU, cE, cL, cI]
  have hnX : (l = cX) = False := by rcases hl with h | h | h <;> simp [h, cU, cE, cL, cX]
  have hnC : (l = cC) = False := by rcases hl with h | h | h <;> simp [h, cU, cE, cL, cC]
  have hnI : (l = cI) = False := by rcases hl with h | h | h <;> simp [h, cU, cE, cL, cI]
  constructor
  · unfold val2bytes
    simp only [atttyp, hk, PyVal.kind?, hc, Bool.not_true, Bool.false_eq_true, if_false, hnX, hnC, hint, if_true,
      PyVal.asInt?, attsiz, Int.toNat_natCast, hnI, decide_false]
    unfold intToBytes
    simp only [Bool.false_eq_true, if_false]
    rw [if_pos (by constructor <;> omega)]
    simp
  · unfold bytes2val
    simp only [atttyp, hnX, hnC, decide_false, Bool.or_self, Bool.false_eq_true, if_false, hint, if_true, hnI]
    rw [fromLE_toLE n v hv]

/-- … and every value out of range is refused (OverflowError; UBXTypeError once inside the constructor) -/
theorem uint_refuses (att : List (Nat × List Kind)) (l n : Nat) (v : Int)
    (hl : l = cU ∨ l = cE ∨ l = cL) (hatt : ∃ ks, lookup l att = some ks ∧ ks.contains Kind.int = true)
    (hv : v < 0 ∨ ((256 ^ n : Nat) : Int) ≤ v) :
    val2bytes att (.int v) (.t l n) = .error .overflowE := by
  obtain ⟨ks, hk, hc⟩ := hatt
  have hint : isIntLetter l = true := by rcases hl with h | h | h <;> simp [h, isIntLetter, cU, cE, cL, cI]
  have hnX : (l = cX) = False := by rcases hl with h | h | h <;> simp [h, cU, cE, cL, cX]
  have hnC : (l = cC) = False := by rcases hl with h | h | h <;> simp [h, cU, cE, cL, cC]
  have hnI : (l = cI) = False := by rcases hl with h | h | h <;> simp [h, cU, cE, cL, cI]
  unfold val2bytes
  simp only [atttyp, hk, PyVal.kind?, hc, Bool.not_true, Bool.false_eq_true, if_false, hnX, hnC, hint, if_true,
    PyVal.asInt?, attsiz, Int.toNat_natCast, hnI, decide_false]
  unfold intToBytes
  simp only [Bool.false_eq_true, if_false]
  rw [if_neg (by omega)]

/-- signed integer types (two's complement) -/
theorem sint_roundtrip (att : List (Nat × List Kind)) (n : Nat) (v : Int) (hn : 0 < n)
    (hatt : ∃ ks, lookup cI att = some ks ∧ ks.contains Kind.int = true)
    (hlo : -((2 ^ (8 * n - 1) : Nat) : Int) ≤ v) (hhi : v < ((2 ^ (8 * n - 1) : Nat) : Int)) :
    ∃ bs, val2bytes att (.int v) (.t cI n) = .ok bs ∧ bs.length = n ∧ bytes2val bs (.t cI n) = .ok (.int v) := by
  obtain ⟨ks, hk, hc⟩ := hatt
  have hv2b : val2bytes att (.int v) (.t cI n)
      = .ok (toLE n (if v < 0 then (v + ((2 * 2 ^ (8 * n - 1) : Nat) : Int)).toNat else v.toNat)) := by
    unfold val2bytes
    simp only [atttyp, hk, PyVal.kind?, hc, Bool.not_true, Bool.false_eq_true, if_false,
      show (cI = cX) = False by simp [cI, cX], show (cI = cC) = False by simp [cI, cC],
      show isIntLetter cI = true by simp [isIntLetter, cI, cE, cL, cU], if_true, PyVal.asInt?, attsiz, Int.toNat_natCast,
      decide_true]
    unfold intToBytes
    simp only [if_true]
    rw [if_neg (by omega), if_pos ⟨hlo, hhi⟩]
  refine ⟨_, hv2b, by simp, ?_⟩
  unfold bytes2val
  simp only [atttyp, show (cI = cX) = False by simp [cI, cX], show (cI = cC) = False by simp [cI, cC], decide_false,
    Bool.or_self, Bool.false_eq_true, if_false, show isIntLetter cI = true by simp [isIntLetter, cI, cE, cL, cU], if_true]
  congr 2
  generalize hH : (2 ^ (8 * n - 1) : Nat) = H at hlo hhi ⊢
  by_cases hneg : v < 0
  · rw [if_pos hneg]
    obtain ⟨w, hw⟩ : ∃ w : Nat, v + ((2 * H : Nat) : Int) = (w : Int) := ⟨(v + ((2 * H : Nat) : Int)).toNat, by omega⟩
    rw [hw, Int.toNat_natCast, fromLESigned_toLE_neg n w hn (by rw [hH]; omega) (by rw [hH]; omega), hH]
    omega
  · rw [if_neg hneg]
    obtain ⟨k, hk1⟩ : ∃ k : Nat, v = (k : Int) := ⟨v.toNat, by omega⟩
    rw [hk1, Int.toNat_natCast, fromLESigned_toLE_nonneg n k hn (by rw [hH]; omega)]

theorem sint_refuses (att : List (Nat × List Kind)) (n : Nat) (v : Int) (hn : 0 < n)
    (hatt : ∃ ks, lookup cI att = some ks ∧ ks.contains Kind.int = true)
    (hv : v < -((2 ^ (8 * n - 1) : Nat) : Int) ∨ ((2 ^ (8 * n - 1) : Nat) : Int) ≤ v) :
    val2bytes att (.int v) (.t cI n) = .error .overflowE := by
  obtain ⟨ks, hk, hc⟩ := hatt
  unfold val2bytes
  simp only [atttyp, hk, PyVal.kind?, hc, Bool.not_true, Bool.false_eq_true, if_false,
    show (cI = cX) = False by simp [cI, cX], show (cI = cC) = False by simp [cI, cC],
    show isIntLetter cI = true by simp [isIntLetter, cI, cE, cL, cU], if_true, PyVal.asInt?, attsiz, Int.toNat_natCast,
    decide_true]
  unfold intToBytes
  simp only [if_true]
  rw [if_neg (by omega), if_neg (by omega)]

end Ubx
