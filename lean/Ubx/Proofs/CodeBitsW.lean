import Ubx.Proofs.CodeWalk
import Ubx.Proofs.CodeHelpers2
import Ubx.Proofs.CodeReader
/-!
# The bit-flag methods over the walker's host

`Proofs/CodeBits.lean` restated for any host that agrees with the walker's host off the self-calls (`WalkLike`), so that
`_set_attribute_bits` and `_set_attribute_bitfield` as written can be interpreted *inside* the recursive walker
(`Proofs/CodeWalkRec.lean`). Same statements, same proofs; the one call `_set_attribute_bitfield` makes on `self` —
`_set_attribute_bits` — is a hypothesis (`BitsParseOK` / `BitsGenOK`): it hands back what `set_bits_parse` / `set_bits_gen` say.
-/
set_option maxRecDepth 10000
set_option linter.unusedSimpArgs false
set_option linter.unusedVariables false
namespace Ubx.Py.WB
open Ubx Ubx.Gen.Code Ubx.Py

variable (cls id : Bytes) (mode : Nat) (H : Host AO ASt)

def sfxLoop : S := match fn_UBXMessage__set_attribute_bits.body with
  | _ :: l :: _ => l
  | _ => .pass
def sfxBody : List S := match sfxLoop with
  | .for_ _ _ b => b
  | _ => []

theorem sfx_body (c : WCtx) (hH : WalkLike c cls id mode H) (F : Nat) (key : Name) (p : List Nat) (i : Nat) (hi : 0 < i) (vars : List (Name × V AO)) (st : ASt)
    (hk : getVar vars 0x6b657972 = some (nameVA key p)) :
    forBody H F 0x69 sfxBody (.int i) ⟨vars, st⟩
      = (.ok .next, ⟨setVar (setVar vars 0x69 (.int i)) 0x6b657972 (nameVA key (p ++ [i])), st⟩) := by
  whs
  simp only [forBody, sfxBody, sfxLoop, fn_UBXMessage__set_attribute_bits]
  have hpos : decide ((i : Int) > 0) = true := by simp; omega
  pystep [hpos, wh_call, aCall, hk, anameOfA_nameVA, nameVA_snoc, Int.natCast_nonneg, Int.toNat_natCast]

theorem sfx_loop (c : WCtx) (hH : WalkLike c cls id mode H) (F : Nat) (key : Name) (idx : List Nat) (hidx : ∀ i ∈ idx, 0 < i) : ∀ (p : List Nat) (vars : List (Name × V AO)) (st : ASt),
    getVar vars 0x6b657972 = some (nameVA key p) →
    ∃ vars', forLoop (forBody H F 0x69 sfxBody) (idx.map (fun (i : Nat) => (V.int (i : Int) : V AO))) ⟨vars, st⟩ = (.ok .next, ⟨vars', st⟩)
      ∧ getVar vars' 0x6b657972 = some (nameVA key (p ++ idx))
      ∧ ∀ x, x ≠ 0x6b657972 → x ≠ 0x69 → getVar vars' x = getVar vars x := by
  whs
  induction idx with
  | nil => intro p vars st hk; exact ⟨vars, rfl, by simpa using hk, fun _ _ _ => rfl⟩
  | cons i rest ih =>
    intro p vars st hk
    have hi : 0 < i := hidx i (by simp)
    rw [List.map_cons, forLoop, sfx_body cls id mode H c hH F key p i hi vars st hk]
    simp only
    obtain ⟨vars', h1, h2, h3⟩ := ih (fun j hj => hidx j (by simp [hj])) (p ++ [i])
      (setVar (setVar vars 0x69 (.int i)) 0x6b657972 (nameVA key (p ++ [i]))) st (by rw [getVar_setVar_same])
    refine ⟨vars', h1, by rw [h2, List.append_assoc]; rfl, ?_⟩
    intro x hx1 hx2
    rw [h3 x hx1 hx2, getVar_setVar_ne _ _ _ _ (Ne.symm hx1), getVar_setVar_ne _ _ _ _ (Ne.symm hx2)]

theorem pow_sub_one_cast (k : Nat) : (1 : Int) * 2 ^ k - 1 = ((2 ^ k - 1 : Nat) : Int) := by
  have h : 1 ≤ 2 ^ k := Nat.one_le_two_pow
  rw [Int.one_mul, Int.natCast_sub h]
  simp

theorem nameLen_reserved : nameLen nmReserved = 8 := by decide +kernel

theorem reserved_beq (key : Name) : (nameTake key 8 == 0x7265736572766564) = isReservedName key := by
  unfold isReservedName
  by_cases h : nameLen key ≥ 8
  · simp only [h, decide_true, Bool.true_and]
    simp only [nmReserved, beq_iff_eq]
    by_cases hh : nameTake key 8 = 0x7265736572766564 <;> simp [hh]
  · have ht : nameTake key 8 = key := by simp only [nameTake]; rw [if_pos (by omega)]
    have hne : ¬ (key = 0x7265736572766564) := by
      intro heq
      have : nameLen key = 8 := by rw [heq]; exact nameLen_reserved
      omega
    simp [h, ht, hne]

def bitsRet (bitfield bfo atts : Nat) : V AO := .tuple [.int bitfield, .int ((bfo + atts : Nat) : Int)]

/-- what `_set_attribute_bits` hands back, parse direction -/
def bitsParseRes (c : WCtx) (bitfield bfo : Nat) (key : Name) (keyt : Ty) (idx : List Nat) (st : ASt) : X AO (V AO) × ASt :=
  match flagWidth keyt with
  | .error e => (.error (.exc (excName e) 0), st)
  | .ok atts =>
    if isReservedName key then (.ok (bitsRet bitfield bfo atts), st)
    else
      match setAttr c st.env ⟨key, idx⟩ (.int (((bitfield >>> bfo) &&& (2 ^ atts - 1) : Nat) : Int)) with
      | .ok env' => (.ok (bitsRet bitfield bfo atts), { st with env := env' })
      | .error e => (.error (.exc (excName e) 0), st)

/-- … generate direction, for a flag of width `k` whose keyword value is the integer `i` -/
def bitsGenRes (c : WCtx) (bitfield bfo : Nat) (key : Name) (k : Nat) (idx : List Nat) (st : ASt) (i : Int) : X AO (V AO) × ASt :=
  if i < 0 ∨ i ≥ (2 ^ k : Nat) then (.error (.exc xOverflowError 0), st)
  else if isReservedName key then (.ok (bitsRet (bitfield ||| (i.toNat <<< bfo)) bfo k), st)
  else
    match setAttr c st.env ⟨key, idx⟩ ((kwLookup c.kwargs ⟨key, idx⟩).getD (.int 0)) with
    | .ok env' => (.ok (bitsRet (bitfield ||| (i.toNat <<< bfo)) bfo k), { st with env := env' })
    | .error e => (.error (.exc (excName e) 0), st)

/-- `self._set_attribute_bits(…)`, called by `_set_attribute_bitfield`, behaves as `set_bits_parse` says -/
def BitsParseOK (c : WCtx) (H : Host AO ASt) (idx : List Nat) : Prop :=
  ∀ (bitfield bfo : Nat) (key : Name) (keyt : Ty) (st : ASt),
    H.mcall (.host .self) 0x5f7365745f6174747269627574655f62697473 [.int bitfield, .int bfo, .str key, .host (.ty keyt), idxT idx, .host .kwargs] [] st
      = bitsParseRes c bitfield bfo key keyt idx st

/-- … as `set_bits_gen` says -/
def BitsGenOK (c : WCtx) (H : Host AO ASt) (idx : List Nat) : Prop :=
  ∀ (bitfield bfo : Nat) (key : Name) (keyt : Ty) (k : Nat) (st : ASt) (i : Int), flagWidth keyt = .ok k →
    ((kwLookup c.kwargs ⟨key, idx⟩).getD (.int 0)).asInt? = some i →
    H.mcall (.host .self) 0x5f7365745f6174747269627574655f62697473 [.int bitfield, .int bfo, .str key, .host (.ty keyt), idxT idx, .host .kwargs] [] st
      = bitsGenRes c bitfield bfo key k idx st i

theorem set_bits_parse (c : WCtx) (hH : WalkLike c cls id mode H) (hp : c.hasPayload = true) (F : Nat) (bitfield bfo : Nat) (key : Name) (keyt : Ty)
    (idx : List Nat) (hidx : ∀ i ∈ idx, 0 < i) (st : ASt) :
    runFn H F fn_UBXMessage__set_attribute_bits
        [.host .self, .int bitfield, .int bfo, .str key, .host (.ty keyt), idxT idx, .host .kwargs] st
      = bitsParseRes c bitfield bfo key keyt idx st := by
  whs
  unfold bitsParseRes runFn fn_UBXMessage__set_attribute_bits
  pystep
  rw [execB_cons, execS_for]
  pysimp [idxT, iterOf]
  obtain ⟨vars', h1, h2, h3⟩ := sfx_loop cls id mode H c hH F key idx hidx [] _ st (by pysimp; rfl : getVar
    [(0x73656c66, (V.host AO.self : V AO)), (0x6269746669656c64, V.int (bitfield : Int)), (0x62666f6666736574, V.int (bfo : Int)),
     (0x6b6579, V.str key), (0x6b657974, V.host (AO.ty keyt)), (0x696e646578, idxT idx), (0x6b7761726773, V.host AO.kwargs),
     (0x6b657972, V.str key)] 0x6b657972 = some (nameVA key []))
  simp only [sfxBody, sfxLoop, fn_UBXMessage__set_attribute_bits, idxT] at h1
  rw [h1]
  simp only [List.nil_append] at h2
  have gSelf : getVar vars' 0x73656c66 = some (.host .self) := by rw [h3 _ (by decide) (by decide)]; pysimp
  have gBf : getVar vars' 0x6269746669656c64 = some (.int bitfield) := by rw [h3 _ (by decide) (by decide)]; pysimp
  have gBfo : getVar vars' 0x62666f6666736574 = some (.int bfo) := by rw [h3 _ (by decide) (by decide)]; pysimp
  have gKey : getVar vars' 0x6b6579 = some (.str key) := by rw [h3 _ (by decide) (by decide)]; pysimp
  have gKeyt : getVar vars' 0x6b657974 = some (.host (.ty keyt)) := by rw [h3 _ (by decide) (by decide)]; pysimp
  have gKw : getVar vars' 0x6b7761726773 = some (.host .kwargs) := by rw [h3 _ (by decide) (by decide)]; pysimp
  simp only
  pystep [gKeyt, wh_call, aCall]
  unfold flagWidth
  cases hsz : attsiz keyt with
  | error e => simp [encR]
  | ok n =>
    simp only [encR]
    have hb : ¬ ((bfo : Int) < 0) := by omega
    by_cases hn : n < 0
    · pystep [gKw, gBf, gBfo, wh_contains, aContains, hp, fdiv_shr, hb, Int.toNat_natCast, hn]
      simp [hn, excName]
      rfl
    · obtain ⟨k, rfl⟩ := Int.eq_ofNat_of_zero_le (by omega : 0 ≤ n)
      have hk : ¬ (((k : Nat) : Int) < 0) := by omega
      pystep [gKw, gBf, gBfo, wh_contains, aContains, hp, fdiv_shr, hb, Int.toNat_natCast, hk, pow_sub_one_cast, intAnd_nat]
      pystep [gKey, reserved_beq]
      cases hr : isReservedName key
      · simp only [Bool.not_false, Bool.false_eq_true, ↓reduceIte]
        pysimp [gSelf, gBf, gBfo, h2, wh_call, aCall, anameOfA_nameVA, toPyA]
        cases setAttr c st.env ⟨key, idx⟩ (PyVal.int ((bitfield >>> bfo &&& (2 ^ k - 1) : Nat) : Int)) with
        | error e => rfl
        | ok env' =>
          simp only
          pysimp [gSelf, gBf, gBfo, bitsRet, Int.natCast_add]
      · simp only [Bool.not_true, ↓reduceIte]
        pysimp [gBf, gBfo, bitsRet, Int.natCast_add]

theorem flagWidth_ok {keyt : Ty} {k : Nat} (hw : flagWidth keyt = .ok k) : attsiz keyt = .ok (k : Int) := by
  unfold flagWidth at hw
  cases hs : attsiz keyt with
  | error e => rw [hs] at hw; cases hw
  | ok n =>
    rw [hs] at hw
    simp only at hw
    by_cases hn : n < 0
    · simp [hn] at hw
    · simp only [hn, ↓reduceIte] at hw
      cases hw
      congr 1; omega

/-- generate direction (`payload` not among the keywords), for a flag of known width and a keyword value that is an
    int or a bool (or absent: 0). Other value types are outside the fragment's comparison rules; the correspondence
    sweeps them (C15). -/
theorem set_bits_gen (c : WCtx) (hH : WalkLike c cls id mode H) (hp : c.hasPayload = false) (F : Nat) (bitfield bfo : Nat) (key : Name) (keyt : Ty) (k : Nat)
    (hw : flagWidth keyt = .ok k) (idx : List Nat) (hidx : ∀ i ∈ idx, 0 < i) (st : ASt) (i : Int)
    (hv : ((kwLookup c.kwargs ⟨key, idx⟩).getD (.int 0)).asInt? = some i) :
    runFn H F fn_UBXMessage__set_attribute_bits
        [.host .self, .int bitfield, .int bfo, .str key, .host (.ty keyt), idxT idx, .host .kwargs] st
      = bitsGenRes c bitfield bfo key k idx st i := by
  whs
  unfold bitsGenRes runFn fn_UBXMessage__set_attribute_bits
  pystep
  rw [execB_cons, execS_for]
  pysimp [idxT, iterOf]
  obtain ⟨vars', h1, h2, h3⟩ := sfx_loop cls id mode H c hH F key idx hidx [] _ st (by pysimp; rfl : getVar
    [(0x73656c66, (V.host AO.self : V AO)), (0x6269746669656c64, V.int (bitfield : Int)), (0x62666f6666736574, V.int (bfo : Int)),
     (0x6b6579, V.str key), (0x6b657974, V.host (AO.ty keyt)), (0x696e646578, idxT idx), (0x6b7761726773, V.host AO.kwargs),
     (0x6b657972, V.str key)] 0x6b657972 = some (nameVA key []))
  simp only [sfxBody, sfxLoop, fn_UBXMessage__set_attribute_bits, idxT] at h1
  rw [h1]
  simp only [List.nil_append] at h2
  have gSelf : getVar vars' 0x73656c66 = some (.host .self) := by rw [h3 _ (by decide) (by decide)]; pysimp
  have gBf : getVar vars' 0x6269746669656c64 = some (.int bitfield) := by rw [h3 _ (by decide) (by decide)]; pysimp
  have gBfo : getVar vars' 0x62666f6666736574 = some (.int bfo) := by rw [h3 _ (by decide) (by decide)]; pysimp
  have gKey : getVar vars' 0x6b6579 = some (.str key) := by rw [h3 _ (by decide) (by decide)]; pysimp
  have gKeyt : getVar vars' 0x6b657974 = some (.host (.ty keyt)) := by rw [h3 _ (by decide) (by decide)]; pysimp
  have gKw : getVar vars' 0x6b7761726773 = some (.host .kwargs) := by rw [h3 _ (by decide) (by decide)]; pysimp
  simp only
  pystep [gKeyt, wh_call, aCall, flagWidth_ok hw, encR]
  pystep [gKw, wh_contains, aContains, hp]
  pystep [gKw, h2, wh_mkw, aMcall, anameOfA_nameVA]
  have hval : ((kwLookup c.kwargs ⟨key, idx⟩).map (V.ofPy : PyVal → V AO)).getD (V.int 0)
      = V.ofPy ((kwLookup c.kwargs ⟨key, idx⟩).getD (.int 0)) := by
    cases kwLookup c.kwargs ⟨key, idx⟩ <;> rfl
  rw [hval]
  generalize (kwLookup c.kwargs ⟨key, idx⟩).getD (.int 0) = v at hv ⊢
  have hpow : (1 : Int) * 2 ^ k = ((2 ^ k : Nat) : Int) := by simp
  have hk : ¬ (((k : Nat) : Int) < 0) := by omega
  have hb : ¬ ((bfo : Int) < 0) := by omega
  have shl_cast : ∀ m : Nat, (m : Int) * 2 ^ bfo = ((m <<< bfo : Nat) : Int) := by
    intro m; rw [Nat.shiftLeft_eq]; simp
  cases v with
  | int j =>
    simp only [PyVal.asInt?, Option.some.injEq] at hv
    subst hv
    by_cases hr : j < 0 ∨ j ≥ ((2 ^ k : Nat) : Int)
    · simp only [hr, ↓reduceIte]
      by_cases h0 : (0 : Int) ≤ j
      · have hlt : ¬ (j < ((2 ^ k : Nat) : Int)) := by omega
        pystep [V.ofPy, hk, Int.toNat_natCast, hpow, h0, hlt, wh_call, aCall, decide_true, decide_false]
      · pystep [V.ofPy, hk, Int.toNat_natCast, hpow, h0, wh_call, aCall, decide_true, decide_false]
    · simp only [hr, ↓reduceIte]
      have h0 : (0 : Int) ≤ j := by omega
      have hlt : j < ((2 ^ k : Nat) : Int) := by omega
      obtain ⟨m, rfl⟩ := Int.eq_ofNat_of_zero_le h0
      pystep [V.ofPy, hk, Int.toNat_natCast, hpow, h0, hlt, wh_call, aCall, decide_true, decide_false, gBf, gBfo, hb, shl_cast, intOr_nat]
      pystep [gKey, reserved_beq]
      cases hres : isReservedName key
      · simp only [Bool.not_false, Bool.false_eq_true, ↓reduceIte]
        pysimp [gSelf, gBf, gBfo, h2, wh_call, aCall, anameOfA_nameVA, toPyA]
        cases setAttr c st.env ⟨key, idx⟩ (PyVal.int (m : Int)) with
        | error e => rfl
        | ok env' =>
          simp only
          pysimp [gSelf, gBf, gBfo, bitsRet, Int.natCast_add]
      · simp only [Bool.not_true, ↓reduceIte]
        pysimp [gBf, gBfo, bitsRet, Int.natCast_add]
  | bool bb =>
    simp only [PyVal.asInt?, Option.some.injEq] at hv
    subst hv
    generalize hj : (if bb = true then (1 : Int) else 0) = j
    have hj01 : j = 0 ∨ j = 1 := by cases bb <;> simp at hj <;> omega
    by_cases hr : j < 0 ∨ j ≥ ((2 ^ k : Nat) : Int)
    · simp only [hr, ↓reduceIte]
      by_cases h0 : (0 : Int) ≤ j
      · have hlt : ¬ (j < ((2 ^ k : Nat) : Int)) := by omega
        pystep [V.ofPy, asInt?, hj, hk, Int.toNat_natCast, hpow, h0, hlt, wh_call, aCall, decide_true, decide_false]
      · pystep [V.ofPy, asInt?, hj, hk, Int.toNat_natCast, hpow, h0, wh_call, aCall, decide_true, decide_false]
    · simp only [hr, ↓reduceIte]
      have h0 : (0 : Int) ≤ j := by omega
      have hlt : j < ((2 ^ k : Nat) : Int) := by omega
      obtain ⟨m, hm⟩ := Int.eq_ofNat_of_zero_le h0
      subst hm
      pystep [V.ofPy, asInt?, hj, hk, Int.toNat_natCast, hpow, h0, hlt, wh_call, aCall, decide_true, decide_false, gBf, gBfo, hb, shl_cast, intOr_nat]
      pystep [gKey, reserved_beq]
      cases hres : isReservedName key
      · simp only [Bool.not_false, Bool.false_eq_true, ↓reduceIte]
        pysimp [gSelf, gBf, gBfo, h2, wh_call, aCall, anameOfA_nameVA, toPyA]
        cases setAttr c st.env ⟨key, idx⟩ (PyVal.bool bb) with
        | error e => rfl
        | ok env' =>
          simp only
          pysimp [gSelf, gBf, gBfo, bitsRet, Int.natCast_add]
      · simp only [Bool.not_true, ↓reduceIte]
        pysimp [gBf, gBfo, bitsRet, Int.natCast_add]
  | float _ => simp [PyVal.asInt?] at hv
  | str _ => simp [PyVal.asInt?] at hv
  | bytes _ => simp [PyVal.asInt?] at hv
  | ints _ => simp [PyVal.asInt?] at hv
  | none => simp [PyVal.asInt?] at hv
  | other => simp [PyVal.asInt?] at hv

/-! ### `_set_attribute_bitfield` -/

def encFlag (kt : Name × Ty) : V AO := .tuple [.str kt.1, .host (.ty kt.2)]

def bfLoop : S := match fn_UBXMessage__set_attribute_bitfield.body with
  | [_, _, _, _, l, _, _] => l
  | _ => .pass
def bfBody : List S := match bfLoop with
  | .for_ _ _ b => b
  | _ => []

/-- one flag, parse direction, as the model has it -/
def flagStepParse (c : WCtx) (idx : List Nat) (B : Nat) (key : Name) (keyt : Ty) (bfo : Nat) (env : Env) : R (Nat × Env) :=
  match flagWidth keyt with
  | .error e => .error e
  | .ok atts =>
    if isReservedName key then .ok (bfo + atts, env)
    else
      match setAttr c env ⟨key, idx⟩ (.int (((B >>> bfo) &&& (2 ^ atts - 1) : Nat) : Int)) with
      | .error e => .error e
      | .ok env' => .ok (bfo + atts, env')

theorem flagsParse_cons (c : WCtx) (idx : List Nat) (B : Nat) (key : Name) (keyt : Ty) (rest : List (Name × Ty)) (bfo : Nat) (env : Env) :
    flagsParse c idx B ((key, keyt) :: rest) bfo env
      = (match flagStepParse c idx B key keyt bfo env with
         | .error e => .error e
         | .ok (bfo', env') => flagsParse c idx B rest bfo' env') := by
  simp only [flagsParse, flagStepParse]
  cases flagWidth keyt with
  | error e => rfl
  | ok atts =>
    simp only
    cases isReservedName key
    · simp only [Bool.false_eq_true, ↓reduceIte]
      cases setAttr c env ⟨key, idx⟩ _ <;> rfl
    · simp only [↓reduceIte]

def BfPost (res : R (Nat × Env)) (B : Nat) (vars : List (Name × V AO)) (st : ASt)
    (r : X AO (Flow AO) × St AO ASt) : Prop :=
  match res with
  | .ok (bfo', env') => r.1 = .ok .next ∧ r.2.h = { st with env := env' }
      ∧ getVar r.2.vars 0x6269746669656c64 = some (.int B) ∧ getVar r.2.vars 0x62666f6666736574 = some (.int bfo')
      ∧ ∀ x, x ≠ 0x6269746669656c64 → x ≠ 0x62666f6666736574 → x ≠ 0x6b6579 → x ≠ 0x6b657974 → x ≠ 0x5f5f6974656d5f5f →
          getVar r.2.vars x = getVar vars x
  | .error e => r.1 = .error (.exc (excName e) 0)

theorem bf_body_parse (c : WCtx) (hH : WalkLike c cls id mode H) (hp : c.hasPayload = true) (F : Nat) (B : Nat) (idx : List Nat) (hbits : BitsParseOK c H idx)
    (key : Name) (keyt : Ty) (bfo : Nat) (vars : List (Name × V AO)) (st : ASt)
    (gSelf : getVar vars 0x73656c66 = some (.host .self)) (gBf : getVar vars 0x6269746669656c64 = some (.int B))
    (gBfo : getVar vars 0x62666f6666736574 = some (.int bfo)) (gIdx : getVar vars 0x696e646578 = some (idxT idx))
    (gKw : getVar vars 0x6b7761726773 = some (.host .kwargs)) :
    BfPost (flagStepParse c idx B key keyt bfo st.env) B vars st
      (forBody H F 0x5f5f6974656d5f5f bfBody (encFlag (key, keyt)) ⟨vars, st⟩) := by
  whs
  have hb := hbits B bfo key keyt st
  simp only [forBody, bfBody, bfLoop, fn_UBXMessage__set_attribute_bitfield, encFlag]
  pystep [gSelf, gBf, gBfo, gIdx, gKw, hb, builtinMethod]
  unfold flagStepParse bitsParseRes
  cases hfw : flagWidth keyt with
  | error e => simp [BfPost]
  | ok atts =>
    simp only
    have frame : ∀ (v1 v2 v3 v4 v5 : V AO) (x : Name), ¬x = 0x6269746669656c64 → ¬x = 0x62666f6666736574 → ¬x = 0x6b6579 →
        ¬x = 0x6b657974 → ¬x = 0x5f5f6974656d5f5f →
        getVar (setVar (setVar (setVar (setVar (setVar vars 0x5f5f6974656d5f5f v1) 0x6b6579 v2) 0x6b657974 v3) 0x6269746669656c64 v4)
          0x62666f6666736574 v5) x = getVar vars x := by
      intro v1 v2 v3 v4 v5 x h1 h2 h3 h4 h5
      rw [getVar_setVar_ne _ _ _ _ (Ne.symm h2), getVar_setVar_ne _ _ _ _ (Ne.symm h1), getVar_setVar_ne _ _ _ _ (Ne.symm h4),
        getVar_setVar_ne _ _ _ _ (Ne.symm h3), getVar_setVar_ne _ _ _ _ (Ne.symm h5)]
    cases hres : isReservedName key
    · simp only [Bool.false_eq_true, ↓reduceIte]
      cases setAttr c st.env ⟨key, idx⟩ _ with
      | error e => simp [BfPost]
      | ok env' =>
        simp only [bitsRet, BfPost]
        pysimp [bindT]
        exact frame _ _ _ _ _
    · simp only [↓reduceIte, bitsRet, BfPost]
      pysimp [bindT]
      exact frame _ _ _ _ _

/-- the flag loop, parse direction: `flagsParse` -/
theorem bf_loop_parse (c : WCtx) (hH : WalkLike c cls id mode H) (hp : c.hasPayload = true) (F : Nat) (B : Nat) (idx : List Nat) (hbits : BitsParseOK c H idx)
    (flags : List (Name × Ty)) : ∀ (bfo : Nat) (vars : List (Name × V AO)) (st : ASt),
    getVar vars 0x73656c66 = some (.host .self) → getVar vars 0x6269746669656c64 = some (.int B) →
    getVar vars 0x62666f6666736574 = some (.int bfo) → getVar vars 0x696e646578 = some (idxT idx) →
    getVar vars 0x6b7761726773 = some (.host .kwargs) →
    (match flagsParse c idx B flags bfo st.env with
     | .ok env' => ∃ vars', forLoop (forBody H F 0x5f5f6974656d5f5f bfBody) (flags.map encFlag) ⟨vars, st⟩
          = (.ok .next, ⟨vars', { st with env := env' }⟩)
          ∧ ∀ x, x ≠ 0x6269746669656c64 → x ≠ 0x62666f6666736574 → x ≠ 0x6b6579 → x ≠ 0x6b657974 → x ≠ 0x5f5f6974656d5f5f →
              getVar vars' x = getVar vars x
     | .error e => (forLoop (forBody H F 0x5f5f6974656d5f5f bfBody) (flags.map encFlag) ⟨vars, st⟩).1
          = .error (.exc (excName e) 0)) := by
  whs
  induction flags with
  | nil =>
    intro bfo vars st _ _ _ _ _
    simp only [flagsParse, List.map_nil, forLoop]
    exact ⟨vars, rfl, fun _ _ _ _ _ _ => rfl⟩
  | cons kt rest ih =>
    intro bfo vars st gSelf gBf gBfo gIdx gKw
    obtain ⟨key, keyt⟩ := kt
    have hb := bf_body_parse cls id mode H c hH hp F B idx hbits key keyt bfo vars st gSelf gBf gBfo gIdx gKw
    rw [List.map_cons, forLoop, flagsParse_cons]
    generalize forBody H F 0x5f5f6974656d5f5f bfBody (encFlag (key, keyt)) ⟨vars, st⟩ = r0 at hb
    obtain ⟨r, ⟨vars1, st1⟩⟩ := r0
    cases hs : flagStepParse c idx B key keyt bfo st.env with
    | error e =>
      rw [hs] at hb
      simp only [BfPost] at hb
      subst hb
      rfl
    | ok be =>
      obtain ⟨bfo', env1⟩ := be
      rw [hs] at hb
      simp only [BfPost] at hb
      obtain ⟨h1, h2, h3, h4, h5⟩ := hb
      subst h1
      subst h2
      simp only
      have := ih bfo' vars1 { st with env := env1 } (by rw [h5 _ (by decide) (by decide) (by decide) (by decide) (by decide)]; exact gSelf)
        h3 h4 (by rw [h5 _ (by decide) (by decide) (by decide) (by decide) (by decide)]; exact gIdx)
        (by rw [h5 _ (by decide) (by decide) (by decide) (by decide) (by decide)]; exact gKw)
      cases hf : flagsParse c idx B rest bfo' env1 with
      | error e => rw [hf] at this; exact this
      | ok env2 =>
        rw [hf] at this
        obtain ⟨vars2, g1, g2⟩ := this
        exact ⟨vars2, g1, fun x a1 a2 a3 a4 a5 => by rw [g2 x a1 a2 a3 a4 a5, h5 x a1 a2 a3 a4 a5]⟩

/-- **`_set_attribute_bitfield` as written, parse direction = the model's `wBits`**: for every bitfield type of
    non-negative size, every flag dictionary, every payload, offset and group index -/
theorem set_bitfield_parse (c : WCtx) (hH : WalkLike c cls id mode H) (hp : c.hasPayload = true) (F : Nat) (ty : Ty) (bsiz : Nat)
    (hty : attsiz ty = .ok (bsiz : Int)) (flags : List (Name × Ty)) (off : Nat) (idx : List Nat)
    (hbits : BitsParseOK c H idx) (st : ASt) :
    (match wBits c idx ty flags ⟨off, st.payload, st.env⟩ with
     | .ok ws => runFn H F fn_UBXMessage__set_attribute_bitfield
          [.host .self, .tuple [.host (.ty ty), .host (.flags flags)], .int off, idxT idx, .host .kwargs] st
          = (.ok (.tuple [.int (ws.off : Nat), idxT idx]), ⟨ws.payload, ws.env⟩)
     | .error e => (runFn H F fn_UBXMessage__set_attribute_bitfield
          [.host .self, .tuple [.host (.ty ty), .host (.flags flags)], .int off, idxT idx, .host .kwargs] st).1
          = .error (.exc (excName e) 0)) := by
  whs
  unfold runFn fn_UBXMessage__set_attribute_bitfield wBits
  simp only [hty, hp, ↓reduceIte, Int.toNat_natCast]
  pystep [bindT]
  pystep [wh_call, aCall, hty, encR]
  pystep
  have hsl : pySlice st.payload (off : Int) ((off : Int) + (bsiz : Int)) = slice st.payload off (off + bsiz) := by
    rw [pySlice_nonneg _ _ _ (by omega) (by omega)]
    congr 1 <;> omega
  pystep [wh_contains, aContains, hp, wh_attr, aAttr, hsl, Bool.false_eq_true]
  rw [execB_cons, execS_for]
  pysimp [wh_mfl, wh_mint, aMcall, List.isEmpty_nil, iterOf, builtinMethod]
  have hl := bf_loop_parse cls id mode H c hH hp F (fromLE (slice st.payload off (off + bsiz))) idx hbits flags 0
    [(1936026726, V.host AO.self), (1635023216, V.tuple [V.host (AO.ty ty), V.host (AO.flags flags)]),
      (122485596185972, V.int ↑off), (452823639416, idxT idx), (118160480167795, V.host AO.kwargs),
      (1651800432, V.host (AO.ty ty)), (422591423348, V.host (AO.flags flags)), (1651730810, V.int ↑bsiz),
      (7090477148937610612, V.int 0),
      (7091327071475297380, V.int ↑(fromLE (slice st.payload off (off + bsiz))))] st
    (by pysimp) (by pysimp) (by pysimp) (by pysimp) (by pysimp)
  simp only [bfBody, bfLoop, fn_UBXMessage__set_attribute_bitfield] at hl
  have henc : (fun (kt : Name × Ty) => (V.tuple [V.str kt.fst, V.host (AO.ty kt.snd)] : V AO)) = encFlag := rfl
  rw [henc]
  cases hf : flagsParse c idx (fromLE (slice st.payload off (off + bsiz))) flags 0 st.env with
  | error e =>
    rw [hf] at hl
    simp only at hl ⊢
    generalize forLoop _ _ _ = r at hl ⊢
    obtain ⟨r1, r2⟩ := r
    simp only at hl
    subst hl
    rfl
  | ok env' =>
    rw [hf] at hl
    obtain ⟨vars', g1, g2⟩ := hl
    simp only
    rw [g1]
    simp only
    have gKw : getVar vars' 0x6b7761726773 = some (.host .kwargs) := by
      rw [g2 _ (by decide) (by decide) (by decide) (by decide) (by decide)]; pysimp
    have gOff : getVar vars' 0x6f6666736574 = some (.int off) := by
      rw [g2 _ (by decide) (by decide) (by decide) (by decide) (by decide)]; pysimp
    have gBsiz : getVar vars' 0x6273697a = some (.int bsiz) := by
      rw [g2 _ (by decide) (by decide) (by decide) (by decide) (by decide)]; pysimp
    have gIdx : getVar vars' 0x696e646578 = some (idxT idx) := by
      rw [g2 _ (by decide) (by decide) (by decide) (by decide) (by decide)]; pysimp
    pystep [gKw, wh_contains, aContains, hp]
    pysimp [gOff, gBsiz, gIdx, Int.natCast_add]

/-! ### generate direction of `_set_attribute_bitfield` -/

/-- every flag has a proper width and an int / bool (or absent) keyword value -/
def FlagsTyped (c : WCtx) (idx : List Nat) (flags : List (Name × Ty)) : Prop :=
  ∀ kt ∈ flags, (∃ k, flagWidth kt.2 = .ok k) ∧ ∃ i, ((kwLookup c.kwargs ⟨kt.1, idx⟩).getD (.int 0)).asInt? = some i

/-- one flag, generate direction, as the model has it -/
def flagStepGen (c : WCtx) (idx : List Nat) (key : Name) (keyt : Ty) (bfo bitfield : Nat) (env : Env) : R (Nat × Nat × Env) :=
  match flagWidth keyt with
  | .error e => .error e
  | .ok atts =>
    let v := (kwLookup c.kwargs ⟨key, idx⟩).getD (.int 0)
    match v.asInt? with
    | none => .error .typeE
    | some i =>
      if i < 0 ∨ i ≥ (2 ^ atts : Nat) then .error .overflowE
      else
        if isReservedName key then .ok (bfo + atts, bitfield ||| (i.toNat <<< bfo), env)
        else
          match setAttr c env ⟨key, idx⟩ v with
          | .error e => .error e
          | .ok env' => .ok (bfo + atts, bitfield ||| (i.toNat <<< bfo), env')

theorem flagsGen_cons (c : WCtx) (idx : List Nat) (key : Name) (keyt : Ty) (rest : List (Name × Ty)) (bfo bitfield : Nat) (env : Env) :
    flagsGen c idx ((key, keyt) :: rest) bfo bitfield env
      = (match flagStepGen c idx key keyt bfo bitfield env with
         | .error e => .error e
         | .ok (bfo', bf', env') => flagsGen c idx rest bfo' bf' env') := by
  simp only [flagsGen, flagStepGen]
  cases flagWidth keyt with
  | error e => rfl
  | ok atts =>
    simp only
    cases ((kwLookup c.kwargs ⟨key, idx⟩).getD (.int 0)).asInt? with
    | none => rfl
    | some i =>
      simp only
      by_cases h : i < 0 ∨ i ≥ ((2 ^ atts : Nat) : Int)
      · simp only [h, ↓reduceIte]
      · simp only [h, ↓reduceIte]
        cases isReservedName key
        · simp only [Bool.false_eq_true, ↓reduceIte]
          cases setAttr c env ⟨key, idx⟩ _ <;> rfl
        · simp only [↓reduceIte]

def BfPostG (res : R (Nat × Nat × Env)) (vars : List (Name × V AO)) (st : ASt)
    (r : X AO (Flow AO) × St AO ASt) : Prop :=
  match res with
  | .ok (bfo', bf', env') => r.1 = .ok .next ∧ r.2.h = { st with env := env' }
      ∧ getVar r.2.vars 0x6269746669656c64 = some (.int bf') ∧ getVar r.2.vars 0x62666f6666736574 = some (.int bfo')
      ∧ ∀ x, x ≠ 0x6269746669656c64 → x ≠ 0x62666f6666736574 → x ≠ 0x6b6579 → x ≠ 0x6b657974 → x ≠ 0x5f5f6974656d5f5f →
          getVar r.2.vars x = getVar vars x
  | .error e => r.1 = .error (.exc (excName e) 0)

theorem bf_body_gen (c : WCtx) (hH : WalkLike c cls id mode H) (hp : c.hasPayload = false) (F : Nat) (idx : List Nat) (hbits : BitsGenOK c H idx)
    (key : Name) (keyt : Ty) (k : Nat) (hw : flagWidth keyt = .ok k) (i : Int)
    (hv : ((kwLookup c.kwargs ⟨key, idx⟩).getD (.int 0)).asInt? = some i)
    (bfo B : Nat) (vars : List (Name × V AO)) (st : ASt)
    (gSelf : getVar vars 0x73656c66 = some (.host .self)) (gBf : getVar vars 0x6269746669656c64 = some (.int B))
    (gBfo : getVar vars 0x62666f6666736574 = some (.int bfo)) (gIdx : getVar vars 0x696e646578 = some (idxT idx))
    (gKw : getVar vars 0x6b7761726773 = some (.host .kwargs)) :
    BfPostG (flagStepGen c idx key keyt bfo B st.env) vars st
      (forBody H F 0x5f5f6974656d5f5f bfBody (encFlag (key, keyt)) ⟨vars, st⟩) := by
  whs
  have hb := hbits B bfo key keyt k st i hw hv
  simp only [forBody, bfBody, bfLoop, fn_UBXMessage__set_attribute_bitfield, encFlag]
  pystep [gSelf, gBf, gBfo, gIdx, gKw, wh_mfl, wh_mint, aMcall, hb, builtinMethod]
  unfold flagStepGen bitsGenRes
  simp only [hw, hv]
  have frame : ∀ (v1 v2 v3 v4 v5 : V AO) (x : Name), ¬x = 0x6269746669656c64 → ¬x = 0x62666f6666736574 → ¬x = 0x6b6579 →
      ¬x = 0x6b657974 → ¬x = 0x5f5f6974656d5f5f →
      getVar (setVar (setVar (setVar (setVar (setVar vars 0x5f5f6974656d5f5f v1) 0x6b6579 v2) 0x6b657974 v3) 0x6269746669656c64 v4)
        0x62666f6666736574 v5) x = getVar vars x := by
    intro v1 v2 v3 v4 v5 x h1 h2 h3 h4 h5
    rw [getVar_setVar_ne _ _ _ _ (Ne.symm h2), getVar_setVar_ne _ _ _ _ (Ne.symm h1), getVar_setVar_ne _ _ _ _ (Ne.symm h4),
      getVar_setVar_ne _ _ _ _ (Ne.symm h3), getVar_setVar_ne _ _ _ _ (Ne.symm h5)]
  by_cases hr : i < 0 ∨ i ≥ ((2 ^ k : Nat) : Int)
  · simp only [hr, ↓reduceIte, BfPostG]
    rfl
  · simp only [hr, ↓reduceIte]
    cases hres : isReservedName key
    · simp only [Bool.false_eq_true, ↓reduceIte]
      cases setAttr c st.env ⟨key, idx⟩ _ with
      | error e => simp [BfPostG]
      | ok env' =>
        simp only [bitsRet, BfPostG]
        pysimp [bindT]
        exact frame _ _ _ _ _
    · simp only [↓reduceIte, bitsRet, BfPostG]
      pysimp [bindT]
      exact frame _ _ _ _ _

theorem bf_loop_gen (c : WCtx) (hH : WalkLike c cls id mode H) (hp : c.hasPayload = false) (F : Nat) (idx : List Nat) (hbits : BitsGenOK c H idx)
    (flags : List (Name × Ty)) (hft : FlagsTyped c idx flags) : ∀ (bfo B : Nat) (vars : List (Name × V AO)) (st : ASt),
    getVar vars 0x73656c66 = some (.host .self) → getVar vars 0x6269746669656c64 = some (.int B) →
    getVar vars 0x62666f6666736574 = some (.int bfo) → getVar vars 0x696e646578 = some (idxT idx) →
    getVar vars 0x6b7761726773 = some (.host .kwargs) →
    (match flagsGen c idx flags bfo B st.env with
     | .ok (bf', env') => ∃ vars', forLoop (forBody H F 0x5f5f6974656d5f5f bfBody) (flags.map encFlag) ⟨vars, st⟩
          = (.ok .next, ⟨vars', { st with env := env' }⟩)
          ∧ getVar vars' 0x6269746669656c64 = some (.int bf')
          ∧ ∀ x, x ≠ 0x6269746669656c64 → x ≠ 0x62666f6666736574 → x ≠ 0x6b6579 → x ≠ 0x6b657974 → x ≠ 0x5f5f6974656d5f5f →
              getVar vars' x = getVar vars x
     | .error e => (forLoop (forBody H F 0x5f5f6974656d5f5f bfBody) (flags.map encFlag) ⟨vars, st⟩).1
          = .error (.exc (excName e) 0)) := by
  whs
  induction flags with
  | nil =>
    intro bfo B vars st _ gBf _ _ _
    simp only [flagsGen, List.map_nil, forLoop]
    exact ⟨vars, rfl, gBf, fun _ _ _ _ _ _ => rfl⟩
  | cons kt rest ih =>
    intro bfo B vars st gSelf gBf gBfo gIdx gKw
    obtain ⟨key, keyt⟩ := kt
    obtain ⟨⟨k, hw⟩, ⟨i, hv⟩⟩ := hft (key, keyt) (by simp)
    have hb := bf_body_gen cls id mode H c hH hp F idx hbits key keyt k hw i hv bfo B vars st gSelf gBf gBfo gIdx gKw
    rw [List.map_cons, forLoop, flagsGen_cons]
    generalize forBody H F 0x5f5f6974656d5f5f bfBody (encFlag (key, keyt)) ⟨vars, st⟩ = r0 at hb
    obtain ⟨r, ⟨vars1, st1⟩⟩ := r0
    cases hs : flagStepGen c idx key keyt bfo B st.env with
    | error e =>
      rw [hs] at hb
      simp only [BfPostG] at hb
      subst hb
      rfl
    | ok be =>
      obtain ⟨bfo', bf1, env1⟩ := be
      rw [hs] at hb
      simp only [BfPostG] at hb
      obtain ⟨h1, h2, h3, h4, h5⟩ := hb
      subst h1
      subst h2
      simp only
      have := ih (fun kt hkt => hft kt (by simp [hkt])) bfo' bf1 vars1 { st with env := env1 }
        (by rw [h5 _ (by decide) (by decide) (by decide) (by decide) (by decide)]; exact gSelf)
        h3 h4 (by rw [h5 _ (by decide) (by decide) (by decide) (by decide) (by decide)]; exact gIdx)
        (by rw [h5 _ (by decide) (by decide) (by decide) (by decide) (by decide)]; exact gKw)
      cases hf : flagsGen c idx rest bfo' bf1 env1 with
      | error e => rw [hf] at this; exact this
      | ok be2 =>
        obtain ⟨bf2, env2⟩ := be2
        rw [hf] at this
        obtain ⟨vars2, g1, g2, g3⟩ := this
        exact ⟨vars2, g1, g2, fun x a1 a2 a3 a4 a5 => by rw [g3 x a1 a2 a3 a4 a5, h5 x a1 a2 a3 a4 a5]⟩

/-- **`_set_attribute_bitfield` as written, generate direction = the model's `wBits`**, for flags of proper width whose
    keyword values are ints or bools (or absent) -/
theorem set_bitfield_gen (c : WCtx) (hH : WalkLike c cls id mode H) (hp : c.hasPayload = false) (F : Nat) (ty : Ty) (bsiz : Nat)
    (hty : attsiz ty = .ok (bsiz : Int)) (flags : List (Name × Ty)) (off : Nat) (idx : List Nat)
    (hbits : BitsGenOK c H idx) (hft : FlagsTyped c idx flags) (st : ASt) :
    (match wBits c idx ty flags ⟨off, st.payload, st.env⟩ with
     | .ok ws => runFn H F fn_UBXMessage__set_attribute_bitfield
          [.host .self, .tuple [.host (.ty ty), .host (.flags flags)], .int off, idxT idx, .host .kwargs] st
          = (.ok (.tuple [.int (ws.off : Nat), idxT idx]), ⟨ws.payload, ws.env⟩)
     | .error e => (runFn H F fn_UBXMessage__set_attribute_bitfield
          [.host .self, .tuple [.host (.ty ty), .host (.flags flags)], .int off, idxT idx, .host .kwargs] st).1
          = .error (.exc (excName e) 0)) := by
  whs
  unfold runFn fn_UBXMessage__set_attribute_bitfield wBits
  simp only [hty, hp, Bool.false_eq_true, ↓reduceIte, Int.toNat_natCast]
  pystep [bindT]
  pystep [wh_call, aCall, hty, encR]
  pystep
  pystep [wh_contains, aContains, hp]
  rw [execB_cons, execS_for]
  pysimp [wh_mfl, wh_mint, aMcall, List.isEmpty_nil, iterOf, builtinMethod]
  have hl := bf_loop_gen cls id mode H c hH hp F idx hbits flags hft 0 0
    [(1936026726, V.host AO.self), (1635023216, V.tuple [V.host (AO.ty ty), V.host (AO.flags flags)]),
      (122485596185972, V.int ↑off), (452823639416, idxT idx), (118160480167795, V.host AO.kwargs),
      (1651800432, V.host (AO.ty ty)), (422591423348, V.host (AO.flags flags)), (1651730810, V.int ↑bsiz),
      (7090477148937610612, V.int 0), (7091327071475297380, V.int 0)] st
    (by pysimp) (by pysimp) (by pysimp) (by pysimp) (by pysimp)
  simp only [bfBody, bfLoop, fn_UBXMessage__set_attribute_bitfield] at hl
  have henc : (fun (kt : Name × Ty) => (V.tuple [V.str kt.fst, V.host (AO.ty kt.snd)] : V AO)) = encFlag := rfl
  rw [henc]
  cases hf : flagsGen c idx flags 0 0 st.env with
  | error e =>
    rw [hf] at hl
    simp only at hl ⊢
    generalize forLoop _ _ _ = r at hl ⊢
    obtain ⟨r1, r2⟩ := r
    simp only at hl
    subst hl
    rfl
  | ok be =>
    obtain ⟨bf', env'⟩ := be
    rw [hf] at hl
    obtain ⟨vars', g1, gbf, g2⟩ := hl
    simp only
    rw [g1]
    simp only
    have gSelf : getVar vars' 0x73656c66 = some (.host .self) := by
      rw [g2 _ (by decide) (by decide) (by decide) (by decide) (by decide)]; pysimp
    have gKw : getVar vars' 0x6b7761726773 = some (.host .kwargs) := by
      rw [g2 _ (by decide) (by decide) (by decide) (by decide) (by decide)]; pysimp
    have gOff : getVar vars' 0x6f6666736574 = some (.int off) := by
      rw [g2 _ (by decide) (by decide) (by decide) (by decide) (by decide)]; pysimp
    have gBsiz : getVar vars' 0x6273697a = some (.int bsiz) := by
      rw [g2 _ (by decide) (by decide) (by decide) (by decide) (by decide)]; pysimp
    have gIdx : getVar vars' 0x696e646578 = some (idxT idx) := by
      rw [g2 _ (by decide) (by decide) (by decide) (by decide) (by decide)]; pysimp
    pystep [gKw, gSelf, gbf, gBsiz, wh_contains, aContains, hp, wh_attr, aAttr, wh_mfl, wh_mint, aMcall, builtinMethod,
      Int.natCast_nonneg, Int.toNat_natCast]
    cases hi : intToBytes (bf' : Int) bsiz false with
    | error e => simp [encR]
    | ok bs =>
      simp only [encR]
      pysimp [wh_setattr, aSetattr, gOff, gBsiz, gIdx, Int.natCast_add]
end Ubx.Py.WB

