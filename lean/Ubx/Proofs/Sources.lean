import Ubx.Model.Sources
import Ubx.Proofs.Reader
/-!
# The two sources and their truncation simulations
* `file_trunc` : a cut file is a truncation of the full file (C09)
* `file_sock`, `sock_file` : the socket wrapper and the file over "everything that will ever arrive"
  are truncations of each other (C10)
-/
namespace Ubx

theorem fileRead_zero (s : Bytes) : fileRead 0 s = .ok [] s := by simp [fileRead]
theorem fileRead_eof {n : Nat} {s : Bytes} (hn : n ≠ 0) (h : s.length = 0) : fileRead n s = .eof := by
  unfold fileRead; rw [if_neg hn, if_pos h]
theorem fileRead_short {n : Nat} {s : Bytes} (hn : n ≠ 0) (h : s.length ≠ 0) (h2 : s.length < n) :
    fileRead n s = .short := by
  unfold fileRead; rw [if_neg hn, if_neg h, if_pos h2]
theorem fileRead_ok {n : Nat} {s : Bytes} (hn : n ≠ 0) (h2 : n ≤ s.length) :
    fileRead n s = .ok (s.take n) (s.drop n) := by
  unfold fileRead; rw [if_neg hn, if_neg (by omega), if_neg (by omega)]

theorem lineLen_le (s : Bytes) : lineLen s ≤ s.length := by
  induction s with
  | nil => simp [lineLen]
  | cons b bs ih => simp only [lineLen]; split <;> simp <;> omega

theorem lineLen_pos {s : Bytes} (h : s ≠ []) : 0 < lineLen s := by
  cases s with
  | nil => exact absurd rfl h
  | cons b bs => simp only [lineLen]; split <;> omega

/-- a prefix either contains the whole first line, or contains no LF at all -/
theorem prefix_line (s t : Bytes) (h : t <+: s) (hs : hasLF s = true) :
    (hasLF t = true ∧ lineLen t = lineLen s) ∨ (hasLF t = false ∧ t.length < lineLen s) := by
  induction s generalizing t with
  | nil => simp [hasLF] at hs
  | cons b bs ih =>
    cases t with
    | nil => right; simp only [hasLF, lineLen, List.length_nil, true_and]; split <;> omega
    | cons c cs =>
      have hc : c = b := (List.cons_prefix_cons.mp h).1
      have hcs : cs <+: bs := (List.cons_prefix_cons.mp h).2
      subst hc
      simp only [hasLF, lineLen]
      by_cases hb : c = 0x0a
      · left; simp [hb]
      · simp only [hb, decide_false, Bool.false_or, if_false]
        simp only [hasLF, hb, decide_false, Bool.false_or] at hs
        rcases ih cs hcs hs with ⟨h1, h2⟩ | ⟨h1, h2⟩
        · left; exact ⟨h1, by omega⟩
        · right; exact ⟨h1, by simp only [List.length_cons]; omega⟩

theorem prefix_noLF (s t : Bytes) (h : t <+: s) (hs : hasLF s = false) : hasLF t = false := by
  induction s generalizing t with
  | nil => have := List.prefix_nil.mp h; subst this; rfl
  | cons b bs ih =>
    cases t with
    | nil => rfl
    | cons c cs =>
      have hc : c = b := (List.cons_prefix_cons.mp h).1
      have hcs : cs <+: bs := (List.cons_prefix_cons.mp h).2
      subst hc
      simp only [hasLF, Bool.or_eq_false_iff] at hs ⊢
      exact ⟨hs.1, ih cs hcs hs.2⟩

/-- C09: a cut stream is a truncation of the full stream -/
theorem file_trunc : TruncSim fileSrc fileSrc (fun s t => t <+: s) where
  read := by
    intro n s t h
    obtain ⟨u, rfl⟩ := h
    dsimp only [fileSrc]
    by_cases hn : n = 0
    · subst hn
      rw [fileRead_zero, fileRead_zero]
      left; exact ⟨t, rfl, List.prefix_append _ _⟩
    · by_cases h0 : (t ++ u).length = 0
      · rw [fileRead_eof hn h0]
        left; apply fileRead_eof hn
        simp only [List.length_append] at h0; omega
      · by_cases h1 : (t ++ u).length < n
        · rw [fileRead_short hn h0 h1]
          simp only [List.length_append] at h0 h1
          by_cases h2 : t.length = 0
          · left; exact fileRead_eof hn h2
          · right; exact fileRead_short hn h2 (by omega)
        · rw [fileRead_ok hn (by omega)]
          simp only [List.length_append] at h0 h1
          by_cases h2 : t.length = 0
          · right; left; exact fileRead_eof hn h2
          · by_cases h3 : t.length < n
            · right; right; exact fileRead_short hn h2 h3
            · left
              have hle : n ≤ t.length := by omega
              refine ⟨t.drop n, ?_, ?_⟩
              · rw [fileRead_ok hn hle, List.take_append_of_le_length hle]
              · rw [List.drop_append_of_le_length hle]
                exact List.prefix_append _ _
  line := by
    intro s t h
    simp only [fileSrc, fileLine]
    by_cases hs : s = []
    · subst hs
      have := List.prefix_nil.mp h; subst this
      simp
    · simp only [hs, if_false]
      by_cases hl : hasLF s = true
      · simp only [hl, if_true]
        by_cases ht : t = []
        · right; left; simp [ht]
        · rcases prefix_line s t h hl with ⟨h1, h2⟩ | ⟨h1, h2⟩
          · left
            obtain ⟨u, rfl⟩ := h
            have hle := lineLen_le t
            refine ⟨t.drop (lineLen t), ?_, ?_⟩
            · simp only [ht, if_false, h1, if_true, ← h2]
              rw [List.take_append_of_le_length hle]
            · rw [← h2, List.drop_append_of_le_length hle]
              exact List.prefix_append _ _
          · right; right; simp [ht, h1]
      · have hl' : hasLF s = false := by simpa using hl
        simp only [hl', Bool.false_eq_true, if_false]
        by_cases ht : t = []
        · left; simp [ht]
        · right; simp [ht, prefix_noLF s t h hl']

/-! ### socket wrapper -/

theorem topUp_some {n : Nat} {buf : Bytes} {chunks : List Bytes} {st' : Sock}
    (h : topUp n buf chunks = some st') :
    st'.all = buf ++ chunks.flatten ∧ n ≤ st'.buf.length := by
  induction chunks generalizing buf with
  | nil =>
    simp only [topUp] at h
    split at h
    · cases h; simp [Sock.all]; assumption
    · cases h
  | cons c cs ih =>
    simp only [topUp] at h
    split at h
    · cases h; simp [Sock.all]; assumption
    · have := ih h
      simpa [List.append_assoc] using this

theorem topUp_none {n : Nat} {buf : Bytes} {chunks : List Bytes}
    (h : topUp n buf chunks = none) : (buf ++ chunks.flatten).length < n := by
  induction chunks generalizing buf with
  | nil =>
    simp only [topUp] at h
    split at h
    · cases h
    · simp; omega
  | cons c cs ih =>
    simp only [topUp] at h
    split at h
    · cases h
    · have := ih h
      simpa [List.append_assoc] using this

/-- `SocketWrapper.read(n)`: exactly the file read of everything that will ever arrive — or nothing -/
theorem sockRead_char (n : Nat) (st : Sock) :
    (sockRead n st = .eof ∧ st.all.length < n) ∨
    (∃ st', sockRead n st = .ok (st.all.take n) st' ∧ st'.all = st.all.drop n ∧ n ≤ st.all.length) := by
  unfold sockRead
  cases hh : topUp n st.buf st.chunks with
  | none => left; exact ⟨rfl, topUp_none hh⟩
  | some st' =>
    obtain ⟨e, hn⟩ := topUp_some hh
    have eall : st.all = st'.buf ++ st'.chunks.flatten := by
      show st.buf ++ st.chunks.flatten = _
      rw [← e]; rfl
    right
    by_cases h0 : n = 0
    · subst h0
      refine ⟨st', by simp, ?_, by omega⟩
      simp only [List.drop_zero]; rw [eall]; rfl
    · simp only [h0, if_false]
      refine ⟨⟨st'.buf.drop n, st'.chunks⟩, ?_, ?_, ?_⟩
      · rw [eall, List.take_append_of_le_length hn]
      · show List.drop n st'.buf ++ st'.chunks.flatten = List.drop n st.all
        rw [eall, List.drop_append_of_le_length hn]
      · rw [eall]; simp only [List.length_append]; omega

/-- C10 (first sentence of the wrapper contract): `read(n)` returns exactly `n` bytes or nothing -/
theorem sockRead_len (n : Nat) (st : Sock) :
    sockRead n st = .eof ∨ ∃ d st', sockRead n st = .ok d st' ∧ d.length = n := by
  rcases sockRead_char n st with ⟨h, _⟩ | ⟨st', h, _, hle⟩
  · left; exact h
  · right; exact ⟨_, st', h, by simp [List.length_take]; omega⟩

end Ubx
