import Ubx.Model.Spec
import Ubx.Proofs.GenLen
import Ubx.Model.Message
/-!
# Generate direction: the walker's payload is the layout of the generated value tree (C03 / C15)
-/
namespace Ubx

theorem wSingle_gen_spec (c : WCtx) (hp : c.hasPayload = false) (idx : List Nat) (n l sz : Nat) (sc : Scale)
    (hw : widthExact l sz = true) (p : Bytes) (off : Nat) (env env' : Env) (vb : PyVal × Bytes)
    (hg : genVal c ⟨n, idx⟩ (.t l sz) sc = .ok vb) (hs : storeVal c idx n env vb.1 = .ok env') :
    wSingle c idx n (.t l sz) sc ⟨off, p, env⟩ = .ok ⟨off + vb.2.length, p ++ vb.2, env'⟩ := by
  have hlen := genVal_width c ⟨n, idx⟩ l sz sc vb hw hg
  unfold wSingle
  simp only [fieldSize, attsiz, Int.toNat_natCast, hp, Bool.false_eq_true, if_false, hg, hs, hlen]

mutual
theorem wItem_gen_spec (c : WCtx) (hp : c.hasPayload = false) (hcv : c.cfgval = false) (idx : List Nat)
    (i : Item) (hx : lenExact i = true) (p : Bytes) (env : Env) (v : VT) (env' : Env)
    (hs : gItem c idx i env = .ok (v, env')) :
    wItem c idx i ⟨p.length, p, env⟩ = .ok ⟨p.length + (encItem v).length, p ++ encItem v, env'⟩ := by
  match i, hx with
  | .attr n (.t l sz) sc, hx =>
    simp only [lenExact] at hx
    simp only [gItem] at hs
    split at hs
    · cases hs
    · rename_i vb hvb
      split at hs
      · cases hs
      · rename_i env1 h1
        cases hs
        simp only [wItem, encItem]
        exact wSingle_gen_spec c hp idx n l sz sc hx p p.length env env' vb hvb h1
  | .bits n (.t l sz) flags, hx =>
    simp only [lenExact] at hx
    simp only [gItem] at hs
    by_cases hbf : c.parsebf = true
    · simp only [hbf, if_true, attsiz, Int.toNat_natCast] at hs
      split at hs
      · cases hs
      · rename_i be hbe
        split at hs
        · cases hs
        · rename_i bs hbs
          cases hs
          simp only [wItem, hbf, if_true, encItem]
          unfold wBits
          simp only [attsiz, Int.toNat_natCast, hp, Bool.false_eq_true, if_false, hbe, hbs, intToBytes_len _ _ _ _ hbs]
    · simp only [hbf, Bool.false_eq_true, if_false] at hs
      split at hs
      · cases hs
      · rename_i vb hvb
        split at hs
        · cases hs
        · rename_i env1 h1
          cases hs
          simp only [wItem, hbf, Bool.false_eq_true, if_false, encItem]
          exact wSingle_gen_spec c hp idx n l sz .one hx p p.length env env' vb hvb h1
  | .group n cnt items, hx =>
    simp only [lenExact] at hx
    cases cnt with
    | fixed k =>
      simp only [gItem] at hs
      simp only [wItem, hcv, Bool.false_eq_true, if_false]
      split at hs
      · cases hs
      · rename_i re hre
        cases hs
        simp only [groupCount, encItem]
        exact wReps_gen_spec c hp hcv idx items hx k 1 p env re.1 re.2 hre
    | named a =>
      simp only [gItem] at hs
      simp only [wItem, hcv, Bool.false_eq_true, if_false]
      split at hs
      · cases hs
      · rename_i k hk
        split at hs
        · cases hs
        · rename_i re hre
          cases hs
          simp only [groupCount, hk, encItem]
          exact wReps_gen_spec c hp hcv idx items hx k 1 p env re.1 re.2 hre
    | var =>
      simp only [gItem] at hs
      simp only [wItem, hcv, Bool.false_eq_true, if_false]
      split at hs
      · cases hs
      · rename_i g hg
        split at hs
        · cases hs
        · rename_i hg0
          cases hs
          simp only [groupCount, calcNumRepeats, hg, hg0, if_false, Int.sub_self, Int.zero_tdiv, Int.toNat_zero, repeatN,
            encItem, encReps, List.length_nil, Nat.add_zero, List.append_nil]
theorem wItems_gen_spec (c : WCtx) (hp : c.hasPayload = false) (hcv : c.cfgval = false) (idx : List Nat)
    (is : List Item) (hx : lenExactL is = true) (p : Bytes) (env : Env) (vs : List VT) (env' : Env)
    (hs : gItems c idx is env = .ok (vs, env')) :
    wItems c idx is ⟨p.length, p, env⟩ = .ok ⟨p.length + (encItems vs).length, p ++ encItems vs, env'⟩ := by
  match is with
  | [] =>
    simp only [gItems] at hs; cases hs
    simp [wItems, encItems]
  | i :: rest =>
    simp only [lenExactL, Bool.and_eq_true] at hx
    simp only [gItems] at hs
    split at hs
    · cases hs
    · rename_i ve hve
      split at hs
      · cases hs
      · rename_i vse hvse
        cases hs
        simp only [wItems, encItems]
        rw [wItem_gen_spec c hp hcv idx i hx.1 p env ve.1 ve.2 hve]
        simp only
        have e : p.length + (encItem ve.1).length = (p ++ encItem ve.1).length := by simp
        rw [e, wItems_gen_spec c hp hcv idx rest hx.2 (p ++ encItem ve.1) ve.2 vse.1 vse.2 hvse]
        simp [List.append_assoc, Nat.add_assoc]
theorem wReps_gen_spec (c : WCtx) (hp : c.hasPayload = false) (hcv : c.cfgval = false) (idx : List Nat)
    (items : List Item) (hx : lenExactL items = true) (k start : Nat) (p : Bytes) (env : Env)
    (reps : List (List VT)) (env' : Env) (hs : gReps c idx items k start env = .ok (reps, env')) :
    repeatN (fun i s => wItems c (idx ++ [i]) items s) k start ⟨p.length, p, env⟩
      = .ok ⟨p.length + (encReps reps).length, p ++ encReps reps, env'⟩ := by
  match k with
  | 0 =>
    simp only [gReps] at hs; cases hs
    simp [repeatN, encReps]
  | k+1 =>
    simp only [gReps] at hs
    split at hs
    · cases hs
    · rename_i re hre
      split at hs
      · cases hs
      · rename_i rse hrse
        cases hs
        simp only [repeatN, encReps]
        rw [wItems_gen_spec c hp hcv (idx ++ [start]) items hx p env re.1 re.2 hre]
        simp only
        have e : p.length + (encItems re.1).length = (p ++ encItems re.1).length := by simp
        rw [e, wReps_gen_spec c hp hcv idx items hx k (start + 1) (p ++ encItems re.1) re.2 rse.1 rse.2 hrse]
        simp [List.append_assoc, Nat.add_assoc]
end

end Ubx

namespace Ubx

/-- `construct` with keyword attributes: the payload is the layout of the generated tree -/
theorem walkFor_attrs (ctx : Ctx) (cls id : Bytes) (mode : Mode) (bf : Bool) (kw : List (AName × PyVal)) (d : Defn)
    (hd : getDict ctx cls id mode (.attrs kw) = .ok d)
    (hcv : (walkCtx ctx cls id mode bf (.attrs kw)).cfgval = false)
    (hx : lenExactL d = true) (vts : List VT) (env' : Env)
    (hs : gItems (walkCtx ctx cls id mode bf (.attrs kw)) [] d [] = .ok (vts, env')) :
    walkFor ctx cls id mode bf (.attrs kw) = .ok (some (encItems vts), env') := by
  have hw := wItems_gen_spec (walkCtx ctx cls id mode bf (.attrs kw)) (by simp [walkCtx, kwPayload?]) hcv [] d hx [] [] vts env' hs
  simp only [List.length_nil, Nat.zero_add, List.nil_append] at hw
  unfold walkFor
  simp only [hd, kwPayload?, Option.getD_none, hw]

end Ubx
