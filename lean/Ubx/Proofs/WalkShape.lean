import Ubx.Proofs.CodeWalk
import Ubx.Generated.Tables
import Ubx.Model.WF
/-!
# The hypotheses of the walker tie hold for every shipped definition

`shapeOKL`: at every nesting level the dictionary keys are pairwise distinct, every bitfield entry has one of the six `X`
types `_set_attribute` tests for, no count attribute is called `"None"`. Checked for all definitions of the regenerated
tables by kernel evaluation; `shape_items` turns it into the hypotheses `set_attribute_eq` and `set_attribute_group_eq` ask for.
-/
namespace Ubx.Py
open Ubx

mutual
def shapeOK : Item → Bool
  | .attr _ _ _ => true
  | .bits _ ty _ => isXTy ty
  | .group _ cnt items => (match cnt with | .named a => a != sNone | _ => true) && shapeOKL items
def shapeOKL : List Item → Bool
  | [] => true
  | i :: is => shapeOK i && !(is.any (fun j => Item.key j == Item.key i)) && shapeOKL is
end

theorem shape_itemAt : ∀ (items : List Item), shapeOKL items = true → ∀ it ∈ items, itemAt items (Item.key it) = some it := by
  intro items
  induction items with
  | nil => intro _ it h; cases h
  | cons i is ih =>
    intro h it hit
    simp only [shapeOKL, Bool.and_eq_true, Bool.not_eq_true', List.any_eq_false, beq_iff_eq] at h
    obtain ⟨⟨_, hnd⟩, hrest⟩ := h
    rcases List.mem_cons.mp hit with rfl | hmem
    · simp [itemAt, List.find?]
    · have hne : ¬ (Item.key i = Item.key it) := fun e => hnd it hmem e.symm
      have := ih hrest it hmem
      have hb : (Item.key i == Item.key it) = false := by simpa using hne
      simp only [itemAt, List.find?_cons, hb] at this ⊢
      exact this

theorem shape_item : ∀ (items : List Item), shapeOKL items = true → ∀ it ∈ items, ItemShape it := by
  intro items
  induction items with
  | nil => intro _ it h; cases h
  | cons i is ih =>
    intro h it hit
    simp only [shapeOKL, Bool.and_eq_true] at h
    obtain ⟨⟨hi, _⟩, hrest⟩ := h
    rcases List.mem_cons.mp hit with rfl | hmem
    · cases it with
      | attr n ty sc => trivial
      | bits n ty fl => simpa [shapeOK, ItemShape] using hi
      | group n cnt its =>
        cases cnt with
        | fixed k => trivial
        | var => trivial
        | named a =>
          simp only [shapeOK, Bool.and_eq_true, bne_iff_ne] at hi
          exact hi.1
    · exact ih hrest it hmem

/-- the members of a group of a well-shaped definition are well-shaped: the hypotheses are inherited down the recursion -/
theorem shape_group (n : Name) (cnt : Count) (its : List Item) (h : shapeOK (.group n cnt its) = true) : shapeOKL its = true := by
  simp only [shapeOK, Bool.and_eq_true] at h
  exact h.2

/-- every definition of the three shipped tables is well-shaped -/
theorem gen_shape : (allDefs Gen.ctx).all (fun e => shapeOKL e.2.2) = true := by decide +kernel

end Ubx.Py
