import Ubx.Model.Reader
/-!
# Engine lemmas for the stream reader (C07, C09, C10, C11, C12)

`TruncSim S₁ S₂ R`: source `S₂` is a *truncation* of source `S₁` along relation `R` —
whatever `S₁` answers, `S₂` answers the same with `R`-related rest, or fails (eof / short).
`run_trunc_prefix`: then `S₂`'s delivered items are a prefix of `S₁`'s.
-/
namespace Ubx
variable {α σ : Type}

structure TruncSim (S₁ : Src σ) {τ : Type} (S₂ : Src τ) (R : σ → τ → Prop) : Prop where
  read : ∀ n s t, R s t →
    match S₁.read n s with
    | .ok d s' => (∃ t', S₂.read n t = .ok d t' ∧ R s' t') ∨ S₂.read n t = .eof ∨ S₂.read n t = .short
    | _ => S₂.read n t = .eof ∨ S₂.read n t = .short
  line : ∀ s t, R s t →
    match S₁.line s with
    | .ok d s' => (∃ t', S₂.line t = .ok d t' ∧ R s' t') ∨ S₂.line t = .eof ∨ S₂.line t = .short
    | _ => S₂.line t = .eof ∨ S₂.line t = .short

theorem step_trunc {τ : Type} (S₁ : Src σ) (S₂ : Src τ) (R : σ → τ → Prop) (T : TruncSim S₁ S₂ R)
    (nmeaHdr) (cfg : RCfg) (O : Oracle α) (s : σ) (t : τ) (h : R s t) :
    (∃ t', step S₂ nmeaHdr cfg O t = ((step S₁ nmeaHdr cfg O s).1, some t') ∧
        ∃ s', (step S₁ nmeaHdr cfg O s).2 = some s' ∧ R s' t')
    ∨ ((step S₂ nmeaHdr cfg O t).1.dead = true ∧ (step S₂ nmeaHdr cfg O t).2 = none) := by
  unfold step
  have r1 := T.read 1 s t h
  cases h1 : S₁.read 1 s with
  | eof => rw [h1] at r1; rcases r1 with e | e <;> (right; simp [e, Out.dead])
  | short => rw [h1] at r1; rcases r1 with e | e <;> (right; simp [e, Out.dead])
  | ok d1 s1 =>
    rw [h1] at r1
    rcases r1 with ⟨t1, e1, R1⟩ | e | e
    case inr.inl => right; simp [e, Out.dead]
    case inr.inr => right; simp [e, Out.dead]
    simp only [e1]
    split
    · left; exact ⟨t1, rfl, s1, rfl, R1⟩
    · have r2 := T.read 1 s1 t1 R1
      cases h2 : S₁.read 1 s1 with
      | eof => rw [h2] at r2; rcases r2 with e | e <;> (right; simp [e, Out.dead])
      | short => rw [h2] at r2; rcases r2 with e | e <;> (right; simp [e, Out.dead])
      | ok d2 s2 =>
        rw [h2] at r2
        rcases r2 with ⟨t2, e2, R2⟩ | e | e
        case inr.inl => right; simp [e, Out.dead]
        case inr.inr => right; simp [e, Out.dead]
        simp only [e2]
        split
        · -- UBX
          have r3 := T.read 4 s2 t2 R2
          cases h3 : S₁.read 4 s2 with
          | eof => rw [h3] at r3; rcases r3 with e | e <;> (right; simp [e, Out.dead])
          | short => rw [h3] at r3; rcases r3 with e | e <;> (right; simp [e, Out.dead])
          | ok hd s3 =>
            rw [h3] at r3
            rcases r3 with ⟨t3, e3, R3⟩ | e | e
            case inr.inl => right; simp [e, Out.dead]
            case inr.inr => right; simp [e, Out.dead]
            simp only [e3]
            have r4 := T.read (ubxLen hd) s3 t3 R3
            cases h4 : S₁.read (ubxLen hd) s3 with
            | eof => rw [h4] at r4; rcases r4 with e | e <;> (right; simp [e, Out.dead])
            | short => rw [h4] at r4; rcases r4 with e | e <;> (right; simp [e, Out.dead])
            | ok body s4 =>
              rw [h4] at r4
              rcases r4 with ⟨t4, e4, R4⟩ | e | e
              case inr.inl => right; simp [e, Out.dead]
              case inr.inr => right; simp [e, Out.dead]
              simp only [e4]
              left; exact ⟨t4, rfl, s4, rfl, R4⟩
        · split
          · -- NMEA
            have r3 := T.line s2 t2 R2
            cases h3 : S₁.line s2 with
            | eof => rw [h3] at r3; rcases r3 with e | e <;> (right; simp [e, Out.dead])
            | short => rw [h3] at r3; rcases r3 with e | e <;> (right; simp [e, Out.dead])
            | ok l s3 =>
              rw [h3] at r3
              rcases r3 with ⟨t3, e3, R3⟩ | e | e
              case inr.inl => right; simp [e, Out.dead]
              case inr.inr => right; simp [e, Out.dead]
              simp only [e3]
              left; exact ⟨t3, rfl, s3, rfl, R3⟩
          · split
            · -- RTCM
              have r3 := T.read 1 s2 t2 R2
              cases h3 : S₁.read 1 s2 with
              | eof => rw [h3] at r3; rcases r3 with e | e <;> (right; simp [e, Out.dead])
              | short => rw [h3] at r3; rcases r3 with e | e <;> (right; simp [e, Out.dead])
              | ok d3 s3 =>
                rw [h3] at r3
                rcases r3 with ⟨t3, e3, R3⟩ | e | e
                case inr.inl => right; simp [e, Out.dead]
                case inr.inr => right; simp [e, Out.dead]
                simp only [e3]
                have r4 := T.read (rtcmLen d3 d2) s3 t3 R3
                cases h4 : S₁.read (rtcmLen d3 d2) s3 with
                | eof => rw [h4] at r4; rcases r4 with e | e <;> (right; simp [e, Out.dead])
                | short => rw [h4] at r4; rcases r4 with e | e <;> (right; simp [e, Out.dead])
                | ok pl s4 =>
                  rw [h4] at r4
                  rcases r4 with ⟨t4, e4, R4⟩ | e | e
                  case inr.inl => right; simp [e, Out.dead]
                  case inr.inr => right; simp [e, Out.dead]
                  simp only [e4]
                  have r5 := T.read 3 s4 t4 R4
                  cases h5 : S₁.read 3 s4 with
                  | eof => rw [h5] at r5; rcases r5 with e | e <;> (right; simp [e, Out.dead])
                  | short => rw [h5] at r5; rcases r5 with e | e <;> (right; simp [e, Out.dead])
                  | ok crc s5 =>
                    rw [h5] at r5
                    rcases r5 with ⟨t5, e5, R5⟩ | e | e
                    case inr.inl => right; simp [e, Out.dead]
                    case inr.inr => right; simp [e, Out.dead]
                    simp only [e5]
                    left; exact ⟨t5, rfl, s5, rfl, R5⟩
            · left; exact ⟨t2, rfl, s2, rfl, R2⟩

theorem items_dead_run (S : Src σ) (nmeaHdr) (cfg : RCfg) (O : Oracle α) (f : Nat) :
    items (run S nmeaHdr cfg O f none) = [] := by
  cases f <;> simp [run, items, Out.asItem]

/-- engine of C09 / C10: a truncated source delivers a prefix of what the full source delivers -/
theorem run_trunc_prefix {τ : Type} (S₁ : Src σ) (S₂ : Src τ) (R : σ → τ → Prop) (T : TruncSim S₁ S₂ R)
    (nmeaHdr) (cfg : RCfg) (O : Oracle α) (f : Nat) (s : σ) (t : τ) (h : R s t) :
    items (run S₂ nmeaHdr cfg O f (some t)) <+: items (run S₁ nmeaHdr cfg O f (some s)) := by
  induction f generalizing s t with
  | zero => simp [run, items]
  | succ f ih =>
    rcases step_trunc S₁ S₂ R T nmeaHdr cfg O s t h with ⟨t', e2, s', e1, R'⟩ | ⟨hd, hn⟩
    · have e1' : step S₁ nmeaHdr cfg O s = ((step S₁ nmeaHdr cfg O s).1, some s') := by
        rw [← e1]
      generalize (step S₁ nmeaHdr cfg O s).1 = o at e1' e2
      simp only [run, e1', e2]
      cases o with
      | eof => simp [items]
      | crash p c => simp [items]
      | skip =>
        simp only [items, List.filterMap_cons, Out.asItem]
        exact ih s' t' R'
      | err k =>
        simp only [items, List.filterMap_cons, Out.asItem]
        exact ih s' t' R'
      | item p raw m =>
        simp only [items, List.filterMap_cons, Out.asItem]
        exact List.prefix_cons_inj _ |>.mpr (ih s' t' R')
    · have : items (run S₂ nmeaHdr cfg O (f+1) (some t)) = [] := by
        simp only [run]
        generalize hst : step S₂ nmeaHdr cfg O t = st at hd hn
        obtain ⟨o, r⟩ := st
        simp only at hd hn
        subst hn
        cases o with
        | eof => simp [items, Out.asItem]
        | skip => simp [Out.dead] at hd
        | item p raw m => simp [Out.dead] at hd
        | crash p c => simp [Out.dead] at hd
        | err k =>
          cases k with
          | stream =>
            simp only [items, List.filterMap_cons, Out.asItem]
            exact items_dead_run S₂ nmeaHdr cfg O f
          | unknownHdr => simp [Out.dead] at hd
          | rejected p c => simp [Out.dead] at hd
      rw [this]
      exact List.nil_prefix

end Ubx
