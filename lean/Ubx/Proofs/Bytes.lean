import Ubx.Model.Checksum
import Ubx.Model.Codec
/-! # Little-endian integers and the Fletcher closed form -/
namespace Ubx

@[simp] theorem toLE_length (k n : Nat) : (toLE k n).length = k := by
  induction k generalizing n with
  | zero => rfl
  | succ k ih => simp [toLE, ih]

theorem fromLE_toLE (k n : Nat) (h : n < 256 ^ k) : fromLE (toLE k n) = n := by
  induction k generalizing n with
  | zero => simp [toLE, fromLE] at *; omega
  | succ k ih =>
    simp only [toLE, fromLE]
    have h1 : (UInt8.ofNat (n % 256)).toNat = n % 256 := by simp
    rw [h1, ih (n / 256) (by rw [Nat.pow_succ] at h; omega)]
    omega

theorem fromLE_lt (bs : Bytes) : fromLE bs < 256 ^ bs.length := by
  induction bs with
  | nil => simp [fromLE]
  | cons b bs ih =>
    simp only [fromLE, List.length_cons, Nat.pow_succ]
    have := b.toNat_lt
    omega

theorem toLE_fromLE (bs : Bytes) : toLE bs.length (fromLE bs) = bs := by
  induction bs with
  | nil => rfl
  | cons b bs ih =>
    simp only [List.length_cons, toLE, fromLE]
    have hb := b.toNat_lt
    have h1 : (b.toNat + 256 * fromLE bs) % 256 = b.toNat := by omega
    have h2 : (b.toNat + 256 * fromLE bs) / 256 = fromLE bs := by omega
    rw [h1, h2, ih]
    simp

/-- `toLE` is injective below `256^k` -/
theorem toLE_inj (k a b : Nat) (ha : a < 256 ^ k) (hb : b < 256 ^ k) (h : toLE k a = toLE k b) : a = b := by
  rw [← fromLE_toLE k a ha, ← fromLE_toLE k b hb, h]

/-! ### Fletcher -/

theorem ck_gen (bs : Bytes) (a b : Nat) :
    bs.foldl ckStep (a % 256, b % 256)
      = ((a + sumA bs) % 256, (b + bs.length * a + sumB bs) % 256) := by
  induction bs generalizing a b with
  | nil => simp [sumA, sumB]
  | cons c cs ih =>
    simp only [List.foldl_cons, sumA, sumB, List.length_cons, ckStep]
    have h1 : (a % 256 + c.toNat) % 256 = (a + c.toNat) % 256 := by omega
    have h2 : (b % 256 + (a % 256 + c.toNat) % 256) % 256 = (b + (a + c.toNat)) % 256 := by omega
    rw [h2, h1, ih (a + c.toNat) (b + (a + c.toNat))]
    congr 1
    · rw [Nat.add_assoc]
    · congr 1
      simp only [Nat.mul_add, Nat.add_mul, Nat.one_mul]
      omega

/-- `calc_checksum` (running sums masked after every byte) is the textbook 8-bit Fletcher checksum -/
theorem ckPair_closed (bs : Bytes) : ckPair bs = (sumA bs % 256, sumB bs % 256) := by
  have := ck_gen bs 0 0
  simpa [ckPair] using this

theorem calcChecksum_eq_spec (bs : Bytes) : calcChecksum bs = fletcherSpec bs := by
  simp [calcChecksum, fletcherSpec, ckPair_closed]

@[simp] theorem calcChecksum_length (bs : Bytes) : (calcChecksum bs).length = 2 := rfl

end Ubx
