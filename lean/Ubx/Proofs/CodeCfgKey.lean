import Ubx.Proofs.CodeHelpers
import Ubx.Model.Walk
import Ubx.Model.PyCfgKeyHosts
set_option maxRecDepth 10000
set_option linter.unusedSimpArgs false
set_option linter.unusedVariables false
namespace Ubx.Py
open Ubx Ubx.Gen.Code

/-! ### `cfgkey2name` -/

variable (ctx : Ctx)
theorem ck_call : (ckHost ctx).call = kCall ctx := rfl
theorem ck_index : (ckHost ctx).index = kIndex ctx := rfl
theorem ck_glob : (ckHost ctx).glob 0x5542585f434f4e4649475f53544f5253495a45 = some (.host .storsize) := rfl

def ckTryBody : List S := match fn_cfgkey2name.body with
  | [.try_ b _ _ _ _ _ _] => b
  | _ => []
def ckLoop : S := ckTryBody.getD 1 .pass
def ckLoopBody : List S := match ckLoop with | .for_ _ _ b => b | _ => []
example : ckLoopBody ≠ [] := by decide

def ckNext (vars : List (Name × V KO)) (n : Name) (kid : Nat) (t : Ty) : List (Name × V KO) :=
  setVar (setVar (setVar (setVar (setVar vars 0x5f5f6974656d5f5f (.tuple [.str n, .tuple [.int kid, .host (.ty t)]])) 0x6b6579 (.str n))
    0x76616c (.tuple [.int kid, .host (.ty t)])) 0x6b6964 (.int kid)) 0x747970 (.host (.ty t))

theorem ck_body (F : Nat) (k : Nat) (n : Name) (kid : Nat) (t : Ty) (vars : List (Name × V KO))
    (hk : getVar vars 0x6b65796964 = some (.int k)) :
    forBody (ckHost ctx) F 0x5f5f6974656d5f5f ckLoopBody (kEntry (n, kid, t)) ⟨vars, ()⟩
      = (if kid = k then (.ok (.ret (.tuple [.str n, .host (.ty t)])), ⟨ckNext vars n kid t, ()⟩)
         else (.ok .next, ⟨ckNext vars n kid t, ()⟩)) := by
  simp only [forBody, ckLoopBody, ckLoop, ckTryBody, fn_cfgkey2name, List.getD_cons_succ, List.getD_cons_zero, kEntry, ckNext]
  rw [execB_cons]
  pysimp [bindT]
  rw [execB_cons]
  pysimp [bindT]
  by_cases hkk : kid = k
  · subst hkk
    pysimp [hk, beq_self_eq_true]
  · have hb : (((k : Nat) : Int) == (kid : Int)) = false := by
      simp only [beq_eq_false_iff_ne, ne_eq]; omega
    pysimp [hk, hb, hkk, Bool.false_eq_true]

/-- the scan: first entry with this key id wins -/
theorem ck_loop (F : Nat) (k : Nat) : ∀ (db : List (Name × Nat × Ty)) (vars : List (Name × V KO)),
    getVar vars 0x6b65796964 = some (.int k) →
    (match db.find? (fun e => e.2.1 == k) with
     | some e => ∃ vars', forLoop (forBody (ckHost ctx) F 0x5f5f6974656d5f5f ckLoopBody) (db.map kEntry) ⟨vars, ()⟩
          = (.ok (.ret (.tuple [.str e.1, .host (.ty e.2.2)])), ⟨vars', ()⟩)
     | none => ∃ vars', forLoop (forBody (ckHost ctx) F 0x5f5f6974656d5f5f ckLoopBody) (db.map kEntry) ⟨vars, ()⟩
          = (.ok .next, ⟨vars', ()⟩) ∧ getVar vars' 0x6b65796964 = some (.int k)) := by
  intro db
  induction db with
  | nil => intro vars hk; exact ⟨vars, rfl, hk⟩
  | cons e rest ih =>
    intro vars hk
    obtain ⟨n, kid, t⟩ := e
    rw [List.map_cons, forLoop, ck_body ctx F k n kid t vars hk, List.find?_cons]
    by_cases hkk : kid = k
    · have hb2 : (kid == k) = true := by simp [hkk]
      simp only [hkk, ↓reduceIte, beq_self_eq_true]
      exact ⟨_, rfl⟩
    · have hb2 : (kid == k) = false := by simpa using hkk
      simp only [hkk, ↓reduceIte, hb2]
      exact ih (ckNext vars n kid t) (by simp only [ckNext]; pysimp [hk])
theorem ck_body_eq : fn_cfgkey2name.body = [.try_ ckTryBody [0x4b65794572726f72] 0x657272
    [.raise (.call 0x5542584d6573736167654572726f72 [] [] [])] [] 0 []] := rfl

/-- `cfgkey2name`, as written, is the model's: the **first** database entry with this key id; otherwise the name `CFG_0x…` and
    an `X` type whose width is the storage size filed under the first hex digit of the id — ValueError when that digit is a
    letter (`int("a")`, not caught), UBXMessageError when no size is filed under it (the KeyError is caught) -/
theorem cfgkey2name_eq (F : Nat) (k : Nat) :
    (match cfgkey2name ctx k with
     | .ok nt => runFn (ckHost ctx) F fn_cfgkey2name [.int k] () = (.ok (.tuple [.str nt.1, .host (.ty nt.2)]), ())
     | .error e => (runFn (ckHost ctx) F fn_cfgkey2name [.int k] ()).1 = .error (.exc (excName e) 0)) := by
  have hp : fn_cfgkey2name.params = [0x6b65796964] := rfl
  simp only [runFn, hp, ck_body_eq, List.zip_cons_cons, List.zip_nil_right, cfgkey2name]
  rw [execB_one, execS_try]
  have hbody : ckTryBody = [.assign 0x76616c .none, ckLoop, ckTryBody.getD 2 .pass, ckTryBody.getD 3 .pass, ckTryBody.getD 4 .pass] := rfl
  rw [hbody, execB_cons]
  pysimp
  rw [execB_cons]
  have hloop : ckLoop = .for_ 0x5f5f6974656d5f5f (.call 0x5542585f434f4e4649475f44415441424153452e6974656d73 [] [] []) ckLoopBody := rfl
  rw [hloop, execS_for]
  pysimp [ck_call, kCall]
  have hl := ck_loop ctx F k ctx.cfgdb [(0x6b65796964, .int k), (0x76616c, .none)] (by pysimp)
  cases hf : ctx.cfgdb.find? (fun e => e.2.1 == k) with
  | some e =>
    rw [hf] at hl
    obtain ⟨vars', h1⟩ := hl
    rw [h1]
  | none =>
    rw [hf] at hl
    obtain ⟨vars', h1, h2⟩ := hl
    rw [h1]
    simp only [ckTryBody, fn_cfgkey2name, List.getD_cons_succ, List.getD_cons_zero]
    rw [execB_cons]
    pysimp [h2, ck_call, kCall, Int.natCast_nonneg, Int.toNat_natCast]
    rw [execB_cons]
    pysimp [h2, ck_call, kCall, Int.natCast_nonneg, Int.toNat_natCast, ck_index, kIndex, ck_glob]
    by_cases hd : (decide ((hexDigits k).headD 48 < 48) || decide ((hexDigits k).headD 48 > 57)) = true
    · simp only [hd, ↓reduceIte]
      rfl
    · simp only [hd, ↓reduceIte]
      cases hs : ctx.storsize.find? (fun e => e.1 == (hexDigits k).headD 48 - 48) with
      | some e =>
        pysimp [hs, Int.natCast_nonneg, Int.toNat_natCast, h2, Bool.false_eq_true, cfgHexName]
      | none =>
        pysimp [hs, Int.natCast_nonneg, Int.toNat_natCast, h2, Bool.false_eq_true, cfgHexName, beq_self_eq_true]
        rfl
end Ubx.Py
