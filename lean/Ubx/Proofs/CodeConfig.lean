import Ubx.Proofs.CodeHelpers
import Ubx.Model.Message
import Ubx.Model.PyConfigHosts
/-!
# `UBXMessage.config_set` / `config_del` / `config_poll`, as written in the working tree, are the model's `configSet` / `configDel` / `configPoll`

The three static helpers build a CFG-VALSET / CFG-VALDEL / CFG-VALGET message from a list of configuration keys
(names or ids) and values. Each theorem says: run against a host in which `val2bytes`, `cfgname2key`, `cfgkey2name`
and the `UBXMessage(...)` constructor are the model's functions of the same name, the translated function returns
exactly the message — or raises exactly the exception class — the model gives, for every layer/transaction/position
integer and every list of keys and values of any length (the loops are handled by induction on the list: `set_loop`,
`del_loop`). What the code contributes and the theorems pin down: the 64-entry limit and its comparison, the header
bytes and their order (version from `transaction == 0`, the trailing reserved byte of VALSET/VALDEL, the two-byte
position of VALGET), str-versus-int key dispatch, the key being packed as U4 and the value with the key's own storage
type, the concatenation order, and the class/name/mode (`SET`, `POLL`) handed to the constructor.
-/
set_option maxRecDepth 10000
set_option linter.unusedSimpArgs false
namespace Ubx.Py
open Ubx Ubx.Gen.Code

theorem toPyC_int (i : Int) : toPyC (.int i) = .int i := rfl
theorem toPyC_bytes (b : Bytes) : toPyC (.bytes b) = .bytes b := rfl
theorem toPyC_ofPy (v : PyVal) : toPyC (V.ofPy v) = v := by cases v <;> rfl

theorem ch_glob (ctx : Ctx) : (cfgHost ctx).glob = cfgGlob := rfl
theorem ch_call (ctx : Ctx) : (cfgHost ctx).call = cfgCall ctx := rfl

theorem cc_v2b_tok (ctx : Ctx) (v : V CO) (tok : Name) (ty : Ty) (ht : tyOfToken (.str tok) = some ty) (kw : List (Name × V CO)) (h : Unit) :
    cfgCall ctx 0x76616c326279746573 [v, .str tok] kw h = (encR .bytes (val2bytes ctx.atttype (toPyC v) ty), h) := by
  simp [cfgCall, ht]
theorem cc_v2b_ty (ctx : Ctx) (v : V CO) (ty : Ty) (kw : List (Name × V CO)) (h : Unit) :
    cfgCall ctx 0x76616c326279746573 [v, .host (.ty ty)] kw h = (encR .bytes (val2bytes ctx.atttype (toPyC v) ty), h) := by
  simp [cfgCall, tyOfToken]
theorem cc_name (ctx : Ctx) (n : Name) (kw : List (Name × V CO)) (h : Unit) :
    cfgCall ctx 0x6366676e616d65326b6579 [.str n] kw h
      = (encR (fun (kt : Nat × Ty) => .tuple [.int kt.1, .host (.ty kt.2)]) (cfgname2key ctx n), h) := rfl
theorem cc_key (ctx : Ctx) (k : Nat) (kw : List (Name × V CO)) (h : Unit) :
    cfgCall ctx 0x6366676b6579326e616d65 [.int (k : Int)] kw h
      = (encR (fun (nt : Name × Ty) => .tuple [.str nt.1, .host (.ty nt.2)]) (cfgkey2name ctx k), h) := by
  simp [cfgCall]
theorem cc_msg (ctx : Ctx) (n : Name) (m : Nat) (p : Bytes) (h : Unit) :
    cfgCall ctx 0x5542584d657373616765 [.str 0x434647, .str n, .int (m : Int)] [(0x7061796c6f6164, .bytes p)] h
      = (encR (fun m => .host (.msg m)) (constructNamed ctx N.cCFG n m p), h) := by
  simp [cfgCall]


/-- the body of `config_set`'s loop over `cfgData`, from the generated tree -/
def setLoop : S := match fn_UBXMessage_config_set.body with
  | [_, _, _, _, _, _, _, l, _] => l
  | _ => .pass
def setBody : List S := match setLoop with
  | .for_ _ _ b => b
  | _ => []

theorem set_shape : setLoop = .for_ 0x6366674974656d (.var 0x63666744617461) setBody := rfl

def ItemsPost (res : R Bytes) (acc : Bytes) (vars0 : List (Name × V CO)) (r : X CO (Flow CO) × St CO Unit) : Prop :=
  match res with
  | .ok bs => r.1 = .ok .next ∧ getVar r.2.vars 0x6c6973 = some (.bytes (acc ++ bs))
      ∧ getVar r.2.vars 0x7061796c6f6164 = getVar vars0 0x7061796c6f6164
  | .error e => r.1 = .error (.exc (excName e) 0)

macro "cp" "[" ls:Lean.Parser.Tactic.simpLemma,* "]" : tactic => `(tactic| pystep [ch_glob, ch_call, cfgGlob, cc_v2b_ty, cc_name, cc_key, cc_msg,
  toPyC_ofPy, toPyC_int, toPyC_bytes, encKey, Nat.reduceEqDiff, Bool.beq_eq_decide_eq, decide_true, decide_false, decide_eq_false, decide_eq_true,
  Int.natCast_nonneg, Int.toNat_natCast, $ls,*])
macro "cp" : tactic => `(tactic| cp [])

theorem v2b_U4 (ctx : Ctx) (v : V CO) (kw : List (Name × V CO)) (h : Unit) :
    cfgCall ctx 0x76616c326279746573 [v, .str 0x55303034] kw h = (encR .bytes (val2bytes ctx.atttype (toPyC v) (.t cU 4)), h) :=
  cc_v2b_tok ctx v _ _ rfl kw h
theorem v2b_U1 (ctx : Ctx) (v : V CO) (kw : List (Name × V CO)) (h : Unit) :
    cfgCall ctx 0x76616c326279746573 [v, .str 0x55303031] kw h = (encR .bytes (val2bytes ctx.atttype (toPyC v) (.t cU 1)), h) :=
  cc_v2b_tok ctx v _ _ rfl kw h
theorem v2b_U2 (ctx : Ctx) (v : V CO) (kw : List (Name × V CO)) (h : Unit) :
    cfgCall ctx 0x76616c326279746573 [v, .str 0x55303032] kw h = (encR .bytes (val2bytes ctx.atttype (toPyC v) (.t cU 2)), h) :=
  cc_v2b_tok ctx v _ _ rfl kw h

/-- what one (key, value) item contributes -/
def itemBytes (ctx : Ctx) (kv : CfgKey × PyVal) : R Bytes :=
  match (match kv.1 with
         | .byName n => cfgname2key ctx n
         | .byId kid => (match cfgkey2name ctx kid with | .ok nt => .ok (kid, nt.2) | .error e => .error e)) with
  | .error e => .error e
  | .ok kt =>
    match val2bytes ctx.atttype (.int kt.1) (.t cU 4) with
    | .error e => .error e
    | .ok kb =>
      match val2bytes ctx.atttype kv.2 kt.2 with
      | .error e => .error e
      | .ok vb => .ok (kb ++ vb)

theorem cfgItems_step (ctx : Ctx) (kv : CfgKey × PyVal) (rest : List (CfgKey × PyVal)) :
    cfgItems ctx (kv :: rest) =
      (match itemBytes ctx kv with
       | .error e => .error e
       | .ok b => match cfgItems ctx rest with | .error e => .error e | .ok r => .ok (b ++ r)) := by
  obtain ⟨k, v⟩ := kv
  simp only [cfgItems, itemBytes, bind, Except.bind, pure, Except.pure]
  cases k with
  | byName n =>
    simp only
    cases cfgname2key ctx n with
    | error e => rfl
    | ok kt =>
      obtain ⟨kid, ty⟩ := kt
      simp only
      cases val2bytes ctx.atttype (.int kid) (.t cU 4) with
      | error e => rfl
      | ok kb =>
        simp only
        cases val2bytes ctx.atttype v ty with
        | error e => rfl
        | ok vb =>
          simp only
          cases cfgItems ctx rest with
          | error e => rfl
          | ok r => simp [List.append_assoc]
  | byId kid =>
    simp only
    cases cfgkey2name ctx kid with
    | error e => rfl
    | ok nt =>
      obtain ⟨nm, ty⟩ := nt
      simp only
      cases val2bytes ctx.atttype (.int kid) (.t cU 4) with
      | error e => rfl
      | ok kb =>
        simp only
        cases val2bytes ctx.atttype v ty with
        | error e => rfl
        | ok vb =>
          simp only
          cases cfgItems ctx rest with
          | error e => rfl
          | ok r => simp [List.append_assoc]

theorem set_body (ctx : Ctx) (F : Nat) (kv : CfgKey × PyVal) (acc : Bytes) (vars : List (Name × V CO))
    (hl : getVar vars 0x6c6973 = some (.bytes acc)) :
    ItemsPost (itemBytes ctx kv) acc vars (forBody (cfgHost ctx) F 0x6366674974656d setBody (encItem kv) ⟨vars, ()⟩) := by
  obtain ⟨k, v⟩ := kv
  simp only [forBody, setBody, setLoop, fn_UBXMessage_config_set, encItem]
  cp; cp
  cases k with
  | byName n =>
    cp [v2b_U4]
    cases hn : cfgname2key ctx n with
    | error e => simp [itemBytes, hn, ItemsPost, encR]
    | ok kt =>
      obtain ⟨kid, ty⟩ := kt
      simp only [encR]
      pysimp
      cp [v2b_U4]
      cases hk : val2bytes ctx.atttype (.int kid) (.t cU 4) with
      | error e => simp [itemBytes, hn, hk, ItemsPost, encR]
      | ok kb =>
        simp only [encR]
        cp
        cases hv : val2bytes ctx.atttype v ty with
        | error e => simp [itemBytes, hn, hk, hv, ItemsPost, encR]
        | ok vb =>
          simp only [encR]
          pysimp [hl]
          simp only [itemBytes, hn, hk, hv, ItemsPost]
          pysimp [List.append_assoc]
  | byId kid =>
    cp; cp
    cases hn : cfgkey2name ctx kid with
    | error e => simp [itemBytes, hn, ItemsPost, encR]
    | ok nt =>
      obtain ⟨nm, ty⟩ := nt
      simp only [encR]
      pysimp
      cp [v2b_U4]
      cases hk : val2bytes ctx.atttype (.int kid) (.t cU 4) with
      | error e => simp [itemBytes, hn, hk, ItemsPost, encR]
      | ok kb =>
        simp only [encR]
        cp
        cases hv : val2bytes ctx.atttype v ty with
        | error e => simp [itemBytes, hn, hk, hv, ItemsPost, encR]
        | ok vb =>
          simp only [encR]
          pysimp [hl]
          simp only [itemBytes, hn, hk, hv, ItemsPost]
          pysimp [List.append_assoc]

theorem set_loop (ctx : Ctx) (F : Nat) (items : List (CfgKey × PyVal)) : ∀ (acc : Bytes) (vars : List (Name × V CO)),
    getVar vars 0x6c6973 = some (.bytes acc) →
    ItemsPost (cfgItems ctx items) acc vars
      (forLoop (forBody (cfgHost ctx) F 0x6366674974656d setBody) (items.map encItem) ⟨vars, ()⟩) := by
  induction items with
  | nil => intro acc vars hl; simp [cfgItems, forLoop, ItemsPost, hl]
  | cons kv rest ih =>
    intro acc vars hl
    have hb := set_body ctx F kv acc vars hl
    rw [cfgItems_step, List.map_cons, forLoop]
    generalize forBody (cfgHost ctx) F 0x6366674974656d setBody (encItem kv) ⟨vars, ()⟩ = r0 at hb
    obtain ⟨r, ⟨vars1, u⟩⟩ := r0
    cases hi : itemBytes ctx kv with
    | error e =>
      rw [hi] at hb
      simp only [ItemsPost] at hb ⊢
      subst hb
      rfl
    | ok b =>
      rw [hi] at hb
      simp only [ItemsPost] at hb
      obtain ⟨h1, h2, h3⟩ := hb
      subst h1
      have := ih (acc ++ b) vars1 h2
      simp only
      cases hr : cfgItems ctx rest with
      | error e => rw [hr] at this; simpa [ItemsPost] using this
      | ok rr =>
        rw [hr] at this
        simp only [ItemsPost] at this ⊢
        obtain ⟨g1, g2, g3⟩ := this
        exact ⟨g1, by rw [g2, List.append_assoc], by rw [g3, h3]⟩

theorem ItemsPost_ok {bs acc : Bytes} {vars0 : List (Name × V CO)} {r : X CO (Flow CO) × St CO Unit}
    (h : ItemsPost (.ok bs) acc vars0 r) :
    ∃ vars1, r = (.ok .next, ⟨vars1, ()⟩) ∧ getVar vars1 0x6c6973 = some (.bytes (acc ++ bs))
      ∧ getVar vars1 0x7061796c6f6164 = getVar vars0 0x7061796c6f6164 := by
  obtain ⟨r1, ⟨vars1, u⟩⟩ := r
  obtain ⟨h1, h2, h3⟩ := h
  exact ⟨vars1, by simp only at h1; rw [h1], h2, h3⟩
theorem ItemsPost_err {e : Exc} {acc : Bytes} {vars0 : List (Name × V CO)} {r : X CO (Flow CO) × St CO Unit}
    (h : ItemsPost (.error e) acc vars0 r) : ∃ st, r = (.error (.exc (excName e) 0), st) := by
  obtain ⟨r1, st⟩ := r
  exact ⟨st, by simp only [ItemsPost] at h; rw [h]⟩

theorem config_set_eq (ctx : Ctx) (F : Nat) (layers transaction : Int) (items : List (CfgKey × PyVal)) :
    runFn (cfgHost ctx) F fn_UBXMessage_config_set [.int layers, .int transaction, .tuple (items.map encItem)] ()
      = (encR (fun m => .host (.msg m)) (configSet ctx layers transaction items), ()) := by
  unfold runFn fn_UBXMessage_config_set
  cp
  cp
  have e1 : decide (((List.map encItem items).length : Int) > 64) = decide (items.length > 64) := by
    rw [List.length_map]; apply decide_eq_decide.mpr; omega
  rw [e1]
  by_cases hlen : items.length > 64
  · simp [hlen, configSet, encR, excName]; rfl
  · simp only [hlen, decide_false]
    cp [v2b_U1]
    have hv : (if transaction = 0 then (0:Int) else 1) = (if decide (transaction = 0) then 0 else 1) := by
      by_cases ht : transaction = 0 <;> simp [ht]
    simp only [configSet, hlen, ↓reduceIte, cfgHeader, hv, bind, Except.bind, pure, Except.pure]
    cases decide (transaction = 0) <;>
    · simp only
      pysimp [v2b_U1, toPyC_int]
      try simp only [Bool.false_eq_true, eq_self, ↓reduceIte]
      cases val2bytes ctx.atttype (PyVal.int _) (Ty.t cU 1) with
      | error e => rfl
      | ok vb =>
        simp only [encR]
        cp [v2b_U1, toPyC_int]
        cases val2bytes ctx.atttype (PyVal.int layers) (Ty.t cU 1) with
        | error e => rfl
        | ok lb =>
          simp only [encR]
          cp [v2b_U1, toPyC_int]
          cases val2bytes ctx.atttype (PyVal.int transaction) (Ty.t cU 1) with
          | error e => rfl
          | ok tb =>
            simp only [encR]
            cp; cp; cp
            have hL := set_loop ctx F items [] [(119165904319091, V.bytes lb), (140775542147331319923306350, V.bytes tb),
                (27978616409257057, V.tuple (List.map encItem items)),
                (7239021, V.int ↑(List.map encItem items).length), (33325589488824174, V.bytes vb),
                (31632371529769316, V.bytes (vb ++ lb ++ tb ++ [0])), (7104883, V.bytes [])] rfl
            simp only [setBody, setLoop, fn_UBXMessage_config_set, List.nil_append] at hL
            cases hc : cfgItems ctx items with
            | error e =>
              rw [hc] at hL
              obtain ⟨st, hr⟩ := ItemsPost_err hL
              rw [hr]
            | ok bs =>
              rw [hc] at hL
              obtain ⟨vars1, hr, h2, h3⟩ := ItemsPost_ok hL
              rw [hr]
              simp only
              pysimp [h2, h3]
              rw [show (V.int 1 : V CO) = V.int ((1 : Nat) : Int) from rfl, cc_msg]
              simp only [List.nil_append, encR, N.dCfgValset]
              cases constructNamed ctx N.cCFG _ 1 (vb ++ lb ++ tb ++ [0] ++ bs) <;> rfl

/-! ### `config_del`, `config_poll`: loops over keys -/

def delLoop : S := match fn_UBXMessage_config_del.body with
  | [_, _, _, _, _, _, _, l, _] => l
  | _ => .pass
def delBody : List S := match delLoop with
  | .for_ _ _ b => b
  | _ => []
def pollLoop : S := match fn_UBXMessage_config_poll.body with
  | [_, _, _, _, _, _, _, l, _] => l
  | _ => .pass
theorem pollLoop_eq : pollLoop = delLoop := rfl

def keyBytes (ctx : Ctx) (k : CfgKey) : R Bytes :=
  match keyId ctx k with
  | .error e => .error e
  | .ok kid => val2bytes ctx.atttype (.int kid) (.t cU 4)

theorem cfgKeys_step (ctx : Ctx) (k : CfgKey) (rest : List CfgKey) :
    cfgKeys ctx (k :: rest) =
      (match keyBytes ctx k with
       | .error e => .error e
       | .ok b => match cfgKeys ctx rest with | .error e => .error e | .ok r => .ok (b ++ r)) := by
  simp only [cfgKeys, keyBytes, bind, Except.bind, pure, Except.pure]
  cases keyId ctx k with
  | error e => rfl
  | ok kid =>
    simp only
    cases val2bytes ctx.atttype (.int kid) (.t cU 4) with
    | error e => rfl
    | ok kb => simp only; cases cfgKeys ctx rest <;> rfl

theorem del_body (ctx : Ctx) (F : Nat) (k : CfgKey) (acc : Bytes) (vars : List (Name × V CO))
    (hl : getVar vars 0x6c6973 = some (.bytes acc)) :
    ItemsPost (keyBytes ctx k) acc vars (forBody (cfgHost ctx) F 0x6b6579 delBody (encKey k) ⟨vars, ()⟩) := by
  simp only [forBody, delBody, delLoop, fn_UBXMessage_config_del]
  cases k with
  | byName n =>
    cp
    cases hn : cfgname2key ctx n with
    | error e => simp [keyBytes, keyId, hn, ItemsPost, encR, bind, Except.bind]
    | ok kt =>
      obtain ⟨kid, ty⟩ := kt
      simp only [encR]
      pysimp
      cp [v2b_U4]
      cases hk : val2bytes ctx.atttype (.int kid) (.t cU 4) with
      | error e => simp [keyBytes, keyId, hn, hk, ItemsPost, encR, bind, Except.bind, pure, Except.pure]
      | ok kb =>
        simp only [encR]
        pysimp [hl]
        simp only [keyBytes, keyId, hn, hk, ItemsPost, bind, Except.bind, pure, Except.pure]
        pysimp
  | byId kid =>
    cp
    cp [v2b_U4]
    cases hk : val2bytes ctx.atttype (.int kid) (.t cU 4) with
    | error e => simp [keyBytes, keyId, hk, ItemsPost, encR]
    | ok kb =>
      simp only [encR]
      pysimp [hl]
      simp only [keyBytes, keyId, hk, ItemsPost]
      pysimp

theorem del_loop (ctx : Ctx) (F : Nat) (keys : List CfgKey) : ∀ (acc : Bytes) (vars : List (Name × V CO)),
    getVar vars 0x6c6973 = some (.bytes acc) →
    ItemsPost (cfgKeys ctx keys) acc vars
      (forLoop (forBody (cfgHost ctx) F 0x6b6579 delBody) (keys.map encKey) ⟨vars, ()⟩) := by
  induction keys with
  | nil => intro acc vars hl; simp [cfgKeys, forLoop, ItemsPost, hl]
  | cons k rest ih =>
    intro acc vars hl
    have hb := del_body ctx F k acc vars hl
    rw [cfgKeys_step, List.map_cons, forLoop]
    generalize forBody (cfgHost ctx) F 0x6b6579 delBody (encKey k) ⟨vars, ()⟩ = r0 at hb
    obtain ⟨r, ⟨vars1, u⟩⟩ := r0
    cases hi : keyBytes ctx k with
    | error e =>
      rw [hi] at hb
      simp only [ItemsPost] at hb ⊢
      subst hb
      rfl
    | ok b =>
      rw [hi] at hb
      simp only [ItemsPost] at hb
      obtain ⟨h1, h2, h3⟩ := hb
      subst h1
      have := ih (acc ++ b) vars1 h2
      simp only
      cases hr : cfgKeys ctx rest with
      | error e => rw [hr] at this; simpa [ItemsPost] using this
      | ok rr =>
        rw [hr] at this
        simp only [ItemsPost] at this ⊢
        obtain ⟨g1, g2, g3⟩ := this
        exact ⟨g1, by rw [g2, List.append_assoc], by rw [g3, h3]⟩

theorem config_del_eq (ctx : Ctx) (F : Nat) (layers transaction : Int) (keys : List CfgKey) :
    runFn (cfgHost ctx) F fn_UBXMessage_config_del [.int layers, .int transaction, .tuple (keys.map encKey)] ()
      = (encR (fun m => .host (.msg m)) (configDel ctx layers transaction keys), ()) := by
  unfold runFn fn_UBXMessage_config_del
  cp
  cp
  have e1 : decide (((List.map encKey keys).length : Int) > 64) = decide (keys.length > 64) := by
    rw [List.length_map]; apply decide_eq_decide.mpr; omega
  rw [e1]
  by_cases hlen : keys.length > 64
  · simp [hlen, configDel, encR, excName]; rfl
  · simp only [hlen, decide_false]
    cp [v2b_U1]
    have hv : (if transaction = 0 then (0:Int) else 1) = (if decide (transaction = 0) then 0 else 1) := by
      by_cases ht : transaction = 0 <;> simp [ht]
    simp only [configDel, hlen, ↓reduceIte, cfgHeader, hv, bind, Except.bind, pure, Except.pure]
    cases decide (transaction = 0) <;>
    · simp only
      pysimp [v2b_U1, toPyC_int]
      try simp only [Bool.false_eq_true, eq_self, ↓reduceIte]
      cases val2bytes ctx.atttype (PyVal.int _) (Ty.t cU 1) with
      | error e => rfl
      | ok vb =>
        simp only [encR]
        cp [v2b_U1, toPyC_int]
        cases val2bytes ctx.atttype (PyVal.int layers) (Ty.t cU 1) with
        | error e => rfl
        | ok lb =>
          simp only [encR]
          cp [v2b_U1, toPyC_int]
          cases val2bytes ctx.atttype (PyVal.int transaction) (Ty.t cU 1) with
          | error e => rfl
          | ok tb =>
            simp only [encR]
            cp; cp; cp
            have hL := del_loop ctx F keys [] [(119165904319091, V.bytes lb), (140775542147331319923306350, V.bytes tb),
                (0x6b657973, V.tuple (List.map encKey keys)),
                (7239021, V.int ↑(List.map encKey keys).length), (33325589488824174, V.bytes vb),
                (31632371529769316, V.bytes (vb ++ lb ++ tb ++ [0])), (7104883, V.bytes [])] rfl
            simp only [delBody, delLoop, fn_UBXMessage_config_del, List.nil_append] at hL
            cases hc : cfgKeys ctx keys with
            | error e =>
              rw [hc] at hL
              obtain ⟨st, hr⟩ := ItemsPost_err hL
              rw [hr]
            | ok bs =>
              rw [hc] at hL
              obtain ⟨vars1, hr, h2, h3⟩ := ItemsPost_ok hL
              rw [hr]
              simp only
              pysimp [h2, h3]
              rw [show (V.int 1 : V CO) = V.int ((1 : Nat) : Int) from rfl, cc_msg]
              simp only [List.nil_append, encR, N.dCfgValdel]
              cases constructNamed ctx N.cCFG _ 1 (vb ++ lb ++ tb ++ [0] ++ bs) <;> rfl

theorem config_poll_eq (ctx : Ctx) (F : Nat) (layer position : Int) (keys : List CfgKey) :
    runFn (cfgHost ctx) F fn_UBXMessage_config_poll [.int layer, .int position, .tuple (keys.map encKey)] ()
      = (encR (fun m => .host (.msg m)) (configPoll ctx layer position keys), ()) := by
  unfold runFn fn_UBXMessage_config_poll
  cp
  cp
  have e1 : decide (((List.map encKey keys).length : Int) > 64) = decide (keys.length > 64) := by
    rw [List.length_map]; apply decide_eq_decide.mpr; omega
  rw [e1]
  by_cases hlen : keys.length > 64
  · simp [hlen, configPoll, encR, excName]; rfl
  · simp only [hlen, decide_false]
    cp [v2b_U1, toPyC_int]
    simp only [configPoll, hlen, ↓reduceIte, bind, Except.bind, pure, Except.pure]
    cases val2bytes ctx.atttype (PyVal.int 0) (Ty.t cU 1) with
    | error e => rfl
    | ok vb =>
      simp only [encR]
      cp [v2b_U1, toPyC_int]
      cases val2bytes ctx.atttype (PyVal.int layer) (Ty.t cU 1) with
      | error e => rfl
      | ok lb =>
        simp only [encR]
        cp [v2b_U2, toPyC_int]
        cases val2bytes ctx.atttype (PyVal.int position) (Ty.t cU 2) with
        | error e => rfl
        | ok tb =>
          simp only [encR]
          cp; cp; cp
          have hL := del_loop ctx F keys [] [(0x6c61796572, V.bytes lb), (0x706f736974696f6e, V.bytes tb),
              (0x6b657973, V.tuple (List.map encKey keys)),
              (7239021, V.int ↑(List.map encKey keys).length), (33325589488824174, V.bytes vb),
              (31632371529769316, V.bytes (vb ++ lb ++ tb)), (7104883, V.bytes [])] rfl
          simp only [delBody, delLoop, fn_UBXMessage_config_del, List.nil_append] at hL
          cases hc : cfgKeys ctx keys with
          | error e =>
            rw [hc] at hL
            obtain ⟨st, hr⟩ := ItemsPost_err hL
            rw [hr]
          | ok bs =>
            rw [hc] at hL
            obtain ⟨vars1, hr, h2, h3⟩ := ItemsPost_ok hL
            rw [hr]
            simp only
            pysimp [h2, h3]
            rw [show (V.int 2 : V CO) = V.int ((2 : Nat) : Int) from rfl, cc_msg]
            simp only [List.nil_append, encR, N.dCfgValget]
            cases constructNamed ctx N.cCFG _ 2 (vb ++ lb ++ tb ++ bs) <;> rfl
end Ubx.Py
