import Ubx.Proofs.ParseTotal
import Ubx.Proofs.Codec
/-!
# `str(m)` never raises on a message returned by `parse` (C08, "can be inspected")

`__str__` converts four attributes by name before rendering: `iTOW` through `itow2utc` (datetime arithmetic: raises for
non-numbers, NaN, infinities and values outside datetime's range) and, for ACK-* and CFG-MSG, `clsID`/`msgClass`/`msgID`
through `val2bytes(val, U1)` (raises outside 0…255). The parse walk stores, under a top-level name, only what the
definition's type for that name decodes to; so the claim reduces to a table fact (`strSafeL`: every top-level field
with one of the four names is an unscaled integer of a width whose whole range is acceptable, no bit flag carries one
of the names, no `_HP` companion merges into one) plus the fact that no configuration-database key name — listed or
synthesised as `CFG_0x…` — is one of the four.
-/
namespace Ubx

def special (n : Name) : Bool := n = N.aITOW || n = N.aClsID || n = N.aMsgClass || n = N.aMsgID

def isHPName' (n : Name) : Bool := nameLen n ≥ 3 && nameTake n 3 = nmHP

/-- the values `__str__` converts without raising -/
def okVal (n : AName) (v : PyVal) : Prop :=
  n.idx = [] → special n.base = true →
    ∃ i : Int, v = .int i ∧ ((n.base = N.aITOW ∧ -2147483648 ≤ i ∧ i < 4294967296) ∨ (0 ≤ i ∧ i < 256))

def EnvOK (env : Env) : Prop := ∀ x ∈ env, okVal x.1 x.2

theorem special_iTOW_or (n : Name) (h : special n = true) :
    n = N.aITOW ∨ n = N.aClsID ∨ n = N.aMsgClass ∨ n = N.aMsgID := by
  simpa [special, or_assoc] using h

theorem strLoop_none (ack : Bool) : ∀ (env : Env) (b : Bool), EnvOK env → strLoop ack env b = none := by
  intro env
  induction env with
  | nil => intro b _; rfl
  | cons x rest ih =>
    intro b h
    obtain ⟨n, v⟩ := x
    have hx : okVal n v := h (n, v) (List.mem_cons_self ..)
    have hr : EnvOK rest := fun y hy => h y (List.mem_cons_of_mem _ hy)
    simp only [strLoop]
    split
    · rename_i hc
      simp only [Bool.and_eq_true, List.isEmpty_iff, decide_eq_true_eq] at hc
      obtain ⟨i, rfl, hi⟩ := hx hc.1 (by simp [special, hc.2])
      have : itowExc (.int i) = none := by
        unfold itowExc
        simp only
        rcases hi with ⟨_, h1, h2⟩ | ⟨h1, h2⟩ <;> (rw [if_pos]; omega)
      rw [this]; exact ih _ hr
    · split
      · rename_i _ hc
        simp only [Bool.and_eq_true, List.isEmpty_iff, Bool.or_eq_true, decide_eq_true_eq] at hc
        obtain ⟨i, rfl, hi⟩ := hx hc.1.2 (by rcases hc.2 with h | h <;> simp [special, h])
        have hne : n.base ≠ N.aITOW := by
          rcases hc.2 with h | h <;> rw [h] <;> decide
        have : 0 ≤ i ∧ i < 256 := by
          rcases hi with ⟨h0, _⟩ | h
          · exact absurd h0 hne
          · exact h
        simp only [PyVal.asInt?, this, and_self, if_true]
        exact ih _ hr
      · split
        · rename_i _ _ hc
          simp only [Bool.and_eq_true, List.isEmpty_iff, decide_eq_true_eq] at hc
          obtain ⟨i, rfl, hi⟩ := hx hc.1.1.2 (by simp [special, hc.1.2])
          have hne : n.base ≠ N.aITOW := by rw [hc.1.2]; decide
          have : 0 ≤ i ∧ i < 256 := by
            rcases hi with ⟨h0, _⟩ | h
            · exact absurd h0 hne
            · exact h
          simp only [PyVal.asInt?, this, and_self, if_true]
          exact ih _ hr
        · exact ih _ hr

/-! ### the environment invariant through the parse walk -/

theorem EnvOK_set (env : Env) (n : AName) (v : PyVal) (he : EnvOK env) (hv : okVal n v) : EnvOK (env.set n v) := by
  unfold Env.set
  split
  · intro y hy
    rw [List.mem_map] at hy
    obtain ⟨p, hp, rfl⟩ := hy
    split
    · exact hv
    · exact he p hp
  · intro y hy
    rw [List.mem_append] at hy
    rcases hy with hy | hy
    · exact he y hy
    · simp only [List.mem_singleton] at hy; rw [hy]; exact hv

theorem setAttr_ok (c : WCtx) (env env' : Env) (n : AName) (v : PyVal) (he : EnvOK env) (hv : okVal n v)
    (h : setAttr c env n v = .ok env') : EnvOK env' := by
  unfold setAttr at h
  split at h
  · cases h
  · cases h; exact EnvOK_set env n v he hv

theorem okVal_nested (n : Name) (idx : List Nat) (i : Nat) (v : PyVal) : okVal ⟨n, idx ++ [i]⟩ v := by
  intro h; simp at h

theorem okVal_idx (n : Name) (idx : List Nat) (hi : idx ≠ []) (v : PyVal) : okVal ⟨n, idx⟩ v := by
  intro h; exact absurd h hi

theorem okVal_plain (n : Name) (idx : List Nat) (hs : special n = false) (v : PyVal) : okVal ⟨n, idx⟩ v := by
  intro _ h; simp only [hs] at h; cases h

/-- which types decode to an acceptable value for a special name -/
def strTy (n : Name) (ty : Ty) : Bool :=
  match ty with
  | .t l k => (l = cU && k ≤ (if n = N.aITOW then 4 else 1)) || (n = N.aITOW && l = cI && k ≤ 4)
  | _ => false

/-- the table-level condition on one top-level entry of a definition -/
def strSafeItem : Item → Bool
  | .attr n ty sc =>
    if isHPName' n then !special (nameDrop n 3)
    else if special n then sc == .one && strTy n ty else true
  | .bits n _ flags =>
    !special n && !(isHPName' n && special (nameDrop n 3)) && flags.all (fun f => !special f.1)
  | .group _ _ _ => true

def strSafeL : List Item → Bool
  | [] => true
  | i :: is => strSafeItem i && strSafeL is

theorem slice_length_le (p : Bytes) (a k : Nat) : (slice p a (a + k)).length ≤ k := by
  unfold slice
  simp only [List.length_take, List.length_drop]
  omega

theorem fromLESigned_bounds (b : Bytes) (hb : b.length ≤ 4) :
    -2147483648 ≤ fromLESigned b ∧ fromLESigned b < 4294967296 := by
  have hlt := fromLE_lt b
  have hp : (256 : Nat) ^ b.length ≤ 256 ^ 4 := Nat.pow_le_pow_right (by decide) hb
  have h4 : (256 : Nat) ^ 4 = 4294967296 := by decide
  unfold fromLESigned
  split
  · omega
  · split
    · omega
    · rename_i h0 _
      have hpos : 0 < b.length := Nat.pos_of_ne_zero h0
      have := pow_split b.length hpos
      omega

theorem decode_special (n : Name) (ty : Ty) (b : Bytes) (v : PyVal) (k : Nat)
    (hk : fieldSize ty p = .ok k) (hb : b.length ≤ k) (_hs : special n = true) (ht : strTy n ty = true)
    (h : decodeVal ty .one b = .ok v) :
    ∃ i : Int, v = .int i ∧ ((n = N.aITOW ∧ -2147483648 ≤ i ∧ i < 4294967296) ∨ (0 ≤ i ∧ i < 256)) := by
  cases ty with
  | ch => simp [strTy] at ht
  | malformed l => simp [strTy] at ht
  | t l sz =>
    simp only [fieldSize, attsiz] at hk
    cases hk
    simp only [Int.toNat_natCast] at hb
    simp only [strTy, Bool.or_eq_true, Bool.and_eq_true, decide_eq_true_eq] at ht
    have hlt := fromLE_lt b
    rcases ht with ⟨hl, hsz⟩ | ⟨⟨hn, hl⟩, hsz⟩
    · subst hl
      simp only [decodeVal, bytes2val, atttyp] at h
      have e1 : (cU = cX || cU = cC) = false := by decide
      have e2 : isIntLetter cU = true := by decide
      have e3 : (cU = cI) = False := by decide
      simp only [e1, e2, e3, Bool.false_eq_true, if_false, if_true] at h
      cases h
      refine ⟨_, rfl, ?_⟩
      by_cases hn : n = N.aITOW
      · left
        rw [if_pos hn] at hsz
        have hp : (256 : Nat) ^ b.length ≤ 256 ^ 4 := Nat.pow_le_pow_right (by decide) (by omega)
        have h4 : (256 : Nat) ^ 4 = 4294967296 := by decide
        refine ⟨hn, ?_, ?_⟩ <;> omega
      · right
        rw [if_neg hn] at hsz
        have hp : (256 : Nat) ^ b.length ≤ 256 ^ 1 := Nat.pow_le_pow_right (by decide) (by omega)
        have h1 : (256 : Nat) ^ 1 = 256 := by decide
        constructor <;> omega
    · subst hl
      simp only [decodeVal, bytes2val, atttyp] at h
      have e1 : (cI = cX || cI = cC) = false := by decide
      have e2 : isIntLetter cI = true := by decide
      simp only [e1, e2, Bool.false_eq_true, if_false, if_true] at h
      cases h
      refine ⟨_, rfl, Or.inl ⟨hn, ?_⟩⟩
      exact fromLESigned_bounds b (by omega)

theorem storeVal_ok (c : WCtx) (idx : List Nat) (n : Name) (env env' : Env) (v : PyVal) (he : EnvOK env)
    (hv : idx = [] → (if isHPName' n then special (nameDrop n 3) = false else okVal ⟨n, []⟩ v))
    (h : storeVal c idx n env v = .ok env') : EnvOK env' := by
  unfold storeVal at h
  by_cases hi : idx = []
  · have hv' := hv hi
    subst hi
    split at h
    · rename_i hc
      have : isHPName' n = true := hc
      rw [if_pos this] at hv'
      simp only at h
      split at h
      · cases h
      · split at h
        · cases h
        · exact setAttr_ok c env env' _ _ he (okVal_plain _ _ hv' _) h
    · rename_i hc
      have : isHPName' n = false := by simpa [isHPName'] using hc
      rw [this] at hv'
      simp only [Bool.false_eq_true, if_false] at hv'
      exact setAttr_ok c env env' _ _ he hv' h
  · split at h
    · simp only at h
      split at h
      · cases h
      · split at h
        · cases h
        · exact setAttr_ok c env env' _ _ he (okVal_idx _ _ hi _) h
    · exact setAttr_ok c env env' _ _ he (okVal_idx _ _ hi _) h

theorem wSingle_ok (c : WCtx) (hp : c.hasPayload = true) (idx : List Nat) (n : Name) (ty : Ty) (sc : Scale)
    (st st' : WState) (he : EnvOK st.env)
    (hs : idx = [] → (if isHPName' n then special (nameDrop n 3) = false
                      else (special n = true → sc = .one ∧ strTy n ty = true)))
    (h : wSingle c idx n ty sc st = .ok st') : EnvOK st'.env := by
  unfold wSingle at h
  split at h
  · cases h
  · rename_i asiz hsz
    rw [if_pos hp] at h
    split at h
    · cases h
    · rename_i v hv
      split at h
      · cases h
      · rename_i env' hst
        cases h
        refine storeVal_ok c idx n st.env env' v he ?_ hst
        intro hi
        have hs' := hs hi
        split
        · rename_i hh; rw [if_pos hh] at hs'; exact hs'
        · rename_i hh
          rw [if_neg hh] at hs'
          intro _ hsp
          obtain ⟨hsc, hty⟩ := hs' hsp
          subst hsc
          unfold readVal at hv
          exact decode_special (p := st.payload) n ty _ v asiz hsz (slice_length_le _ _ _) hsp hty hv

theorem flagsParse_ok (c : WCtx) (idx : List Nat) (bf : Nat) :
    ∀ (flags : List (Name × Ty)) (bfo : Nat) (env env' : Env), EnvOK env →
      (idx = [] → flags.all (fun f => !special f.1) = true) →
      flagsParse c idx bf flags bfo env = .ok env' → EnvOK env' := by
  intro flags
  induction flags with
  | nil => intro bfo env env' he _ h; simp only [flagsParse] at h; cases h; exact he
  | cons f rest ih =>
    intro bfo env env' he hf h
    obtain ⟨key, keyt⟩ := f
    have hf' : idx = [] → special key = false ∧ rest.all (fun f => !special f.1) = true := by
      intro hi
      have := hf hi
      simp only [List.all_cons, Bool.and_eq_true, Bool.not_eq_true'] at this
      exact this
    simp only [flagsParse] at h
    split at h
    · cases h
    · split at h
      · exact ih _ _ _ he (fun hi => (hf' hi).2) h
      · split at h
        · cases h
        · rename_i env1 hs1
          refine ih _ _ _ (setAttr_ok c env env1 _ _ he ?_ hs1) (fun hi => (hf' hi).2) h
          by_cases hi : idx = []
          · subst hi; exact okVal_plain _ _ (hf' rfl).1 _
          · exact okVal_idx _ _ hi _

theorem wBits_ok (c : WCtx) (hp : c.hasPayload = true) (idx : List Nat) (ty : Ty) (flags : List (Name × Ty))
    (st st' : WState) (he : EnvOK st.env) (hf : idx = [] → flags.all (fun f => !special f.1) = true)
    (h : wBits c idx ty flags st = .ok st') : EnvOK st'.env := by
  unfold wBits at h
  split at h
  · cases h
  · simp only [hp, if_true] at h
    split at h
    · cases h
    · rename_i env' hfp
      cases h
      exact flagsParse_ok c idx _ flags 0 st.env env' he hf hfp

/-- no configuration-database key name (listed, or synthesised for an unknown id) is a special name -/
def cfgNamesOK (ctx : Ctx) : Bool := ctx.cfgdb.all (fun e => !special e.1)

theorem foldl_ge (ds : List Nat) : ∀ a : Nat, a ≤ ds.foldl (fun a d => a * 256 + d) a := by
  induction ds with
  | nil => intro a; exact Nat.le_refl _
  | cons d rest ih =>
    intro a
    simp only [List.foldl_cons]
    exact Nat.le_trans (by omega) (ih _)

theorem hexDigits_lt (n : Nat) : ∀ d ∈ hexDigits n, d < 4294967296 := by
  intro d hd
  unfold hexDigits at hd
  rw [List.mem_map] at hd
  obtain ⟨c, _, rfl⟩ := hd
  have := c.val.toNat_lt
  exact this

theorem unknown_name_not_special (ds : List Nat) (hd : ∀ d ∈ ds, d < 4294967296) :
    special (ds.foldl (fun a d => a * 256 + d) 0x4346475f3078) = false := by
  have key : ∀ r : Nat, (r = 0x4346475f3078 ∨ (0x4346475f307800 ≤ r ∧ r < 0x4346475f307800 + 4294967296)
      ∨ (0x4346475f30780000 ≤ r ∧ r < 0x4346475f30780000 + 1103806595072) ∨ 0x4346475f3078000000 ≤ r) →
      special r = false := by
    intro r hr
    simp only [special, N.aITOW, N.aClsID, N.aMsgClass, N.aMsgID, Bool.or_eq_false_iff]
    refine ⟨⟨⟨?_, ?_⟩, ?_⟩, ?_⟩ <;> (apply decide_eq_false; intro hcontra; rw [hcontra] at hr; revert hr; decide)
  apply key
  match ds, hd with
  | [], _ => left; rfl
  | [d1], hd =>
    right; left
    have := hd d1 (by simp)
    simp only [List.foldl_cons, List.foldl_nil]; omega
  | [d1, d2], hd =>
    right; right; left
    have := hd d1 (by simp)
    have := hd d2 (by simp)
    simp only [List.foldl_cons, List.foldl_nil]; omega
  | d1 :: d2 :: d3 :: rest, _ =>
    right; right; right
    simp only [List.foldl_cons]
    exact Nat.le_trans (by omega) (foldl_ge rest _)

theorem find_mem {α : Type} (p : α → Bool) : ∀ (l : List α) (x : α), l.find? p = some x → x ∈ l := by
  intro l x h
  exact List.mem_of_find?_eq_some h

theorem cfgkey2name_not_special (ctx : Ctx) (hc : cfgNamesOK ctx = true) (k : Nat) (n : Name) (ty : Ty)
    (h : cfgkey2name ctx k = .ok (n, ty)) : special n = false := by
  unfold cfgkey2name at h
  split at h
  · rename_i e he
    cases h
    have hm := find_mem _ _ _ he
    have := List.all_eq_true.mp hc e hm
    simpa using this
  · simp only at h
    split at h
    · cases h
    · split at h
      · cases h
        exact unknown_name_not_special _ (hexDigits_lt k)
      · cases h

theorem cfgLoop_ok (c : WCtx) (hc : cfgNamesOK c.ctx = true) (p : Bytes) (cl : Nat) :
    ∀ (fuel off : Nat) (env env' : Env), EnvOK env → cfgLoop c p cl fuel off env = .ok env' → EnvOK env' := by
  intro fuel
  induction fuel with
  | zero => intro off env env' he h; simp only [cfgLoop] at h; cases h; exact he
  | succ f ih =>
    intro off env env' he h
    simp only [cfgLoop] at h
    split at h
    · simp only [bind, Except.bind] at h
      split at h
      · cases h
      · rename_i kt hk
        obtain ⟨kn, ty⟩ := kt
        simp only at h
        split at h
        · cases h
        · split at h
          · cases h
          · split at h
            · cases h
            · rename_i env1 hs1
              exact ih _ _ _ (setAttr_ok c env env1 _ _ he
                (okVal_plain _ _ (cfgkey2name_not_special c.ctx hc _ kn ty hk) _) hs1) h
    · cases h; exact he

theorem wCfgVal_ok (c : WCtx) (hc : cfgNamesOK c.ctx = true) (st st' : WState) (he : EnvOK st.env)
    (h : wCfgVal c st = .ok st') : EnvOK st'.env := by
  unfold wCfgVal at h
  split at h
  · cases h
  · simp only at h
    split at h
    · cases h
    · rename_i env' hl
      cases h
      exact cfgLoop_ok c hc _ _ _ _ _ _ he hl

theorem repeatN_ok (body : Nat → WState → R WState)
    (hb : ∀ i s s', EnvOK s.env → body i s = .ok s' → EnvOK s'.env) :
    ∀ k i st st', EnvOK st.env → repeatN body k i st = .ok st' → EnvOK st'.env := by
  intro k
  induction k with
  | zero => intro i st st' he h; simp only [repeatN] at h; cases h; exact he
  | succ k ih =>
    intro i st st' he h
    simp only [repeatN] at h
    split at h
    · rename_i s1 h1
      exact ih _ _ _ (hb _ _ _ he h1) h
    · cases h

mutual
theorem wItem_ok (c : WCtx) (hp : c.hasPayload = true) (hc : cfgNamesOK c.ctx = true) (idx : List Nat) (i : Item)
    (hs : idx = [] → strSafeItem i = true) (st st' : WState) (he : EnvOK st.env)
    (h : wItem c idx i st = .ok st') : EnvOK st'.env := by
  match i with
  | .attr n ty sc =>
    simp only [wItem] at h
    refine wSingle_ok c hp idx n ty sc st st' he ?_ h
    intro hi
    have := hs hi
    simp only [strSafeItem] at this
    split
    · rename_i hh; rw [if_pos hh] at this; simpa using this
    · rename_i hh
      rw [if_neg hh] at this
      intro hsp
      rw [if_pos hsp] at this
      simp only [Bool.and_eq_true, beq_iff_eq] at this
      exact this
  | .bits n ty flags =>
    simp only [wItem] at h
    have hs' : idx = [] → special n = false ∧ (isHPName' n && special (nameDrop n 3)) = false ∧
        flags.all (fun f => !special f.1) = true := by
      intro hi
      have := hs hi
      simp only [strSafeItem, Bool.and_eq_true, Bool.not_eq_true'] at this
      exact ⟨this.1.1, this.1.2, this.2⟩
    split at h
    · exact wBits_ok c hp idx ty flags st st' he (fun hi => (hs' hi).2.2) h
    · refine wSingle_ok c hp idx n ty .one st st' he ?_ h
      intro hi
      obtain ⟨h1, h2, _⟩ := hs' hi
      split
      · rename_i hh; simpa [hh] using h2
      · intro hsp; rw [h1] at hsp; cases hsp
  | .group n cnt items =>
    simp only [wItem] at h
    split at h
    · exact wCfgVal_ok c hc st st' he h
    · split at h
      · cases h
      · exact repeatN_ok _ (fun i s s' hes hb =>
          wItems_ok c hp hc (idx ++ [i]) items (fun hi => by simp at hi) s s' hes hb) _ _ _ _ he h
theorem wItems_ok (c : WCtx) (hp : c.hasPayload = true) (hc : cfgNamesOK c.ctx = true) (idx : List Nat) (is : List Item)
    (hs : idx = [] → strSafeL is = true) (st st' : WState) (he : EnvOK st.env)
    (h : wItems c idx is st = .ok st') : EnvOK st'.env := by
  match is with
  | [] => simp only [wItems] at h; cases h; exact he
  | i :: rest =>
    simp only [wItems] at h
    split at h
    · rename_i s1 h1
      have hs' : idx = [] → strSafeItem i = true ∧ strSafeL rest = true := by
        intro hi
        have := hs hi
        simp only [strSafeL, Bool.and_eq_true] at this
        exact this
      exact wItems_ok c hp hc idx rest (fun hi => (hs' hi).2) s1 st'
        (wItem_ok c hp hc idx i (fun hi => (hs' hi).1) st s1 he h1) h
    · cases h
end

/-- the table-level hypotheses of `str` totality -/
structure StrHyp (ctx : Ctx) : Prop where
  selectors : selectorsKnown ctx = true
  safe : (allDefs ctx).all (fun e => strSafeL e.2.2) = true
  cfg : cfgNamesOK ctx = true

theorem inTables_strSafe (ctx : Ctx) (H : StrHyp ctx) (d : Defn) (h : d = [] ∨ InTables ctx d) : strSafeL d = true := by
  rcases h with rfl | h
  · rfl
  · have hall := List.all_eq_true.mp H.safe
    rcases h with ⟨n, hn⟩ | ⟨n, hn⟩ | ⟨n, hn⟩
    · exact hall (.get, n, d) (by simp [allDefs, hn])
    · exact hall (.set, n, d) (by simp [allDefs, hn])
    · exact hall (.poll, n, d) (by simp [allDefs, hn])

theorem construct_str_total (ctx : Ctx) (H : StrHyp ctx) (cls id : Bytes) (modeN : Nat) (bf : Bool) (kw : Kw)
    (hkw : kw = .empty ∨ ∃ p, kw = .payload p) (m : Msg) (h : construct ctx cls id modeN bf kw = .ok m) :
    m.strExc = none := by
  unfold construct at h
  split at h
  · cases h
  · rename_i mode _
    split at h
    · cases h
    · rename_i pe hw
      split at h
      · cases h
      · cases h
        unfold Msg.strExc
        simp only
        rcases hkw with rfl | ⟨p, rfl⟩
        · unfold walkFor at hw; cases hw; rfl
        · unfold walkFor at hw
          simp only at hw
          obtain ⟨g1, _⟩ := getDict_payload ctx H.selectors cls id mode p
          split at hw
          · cases hw
          · rename_i defn hg
            split at hw
            · cases hw
            · rename_i st hst
              cases hw
              simp only
              apply strLoop_none
              exact wItems_ok _ (by simp [walkCtx, kwPayload?]) (by simpa [walkCtx] using H.cfg) [] defn
                (fun _ => inTables_strSafe ctx H defn (g1 defn hg)) _ st (by intro x hx; cases hx) hst

/-- **C08, inspection clause for `str`**: every message `parse` returns renders without raising -/
theorem parse_str_total (ctx : Ctx) (H : StrHyp ctx) (mm v : Nat) (bf : Bool) (bs : Bytes) (m : Msg)
    (h : parse ctx mm v bf bs = .ok m) : m.strExc = none := by
  unfold parse at h
  split at h
  · cases h
  · split at h
    · cases h
    · simp only at h
      split at h
      · exact construct_str_total ctx H _ _ _ _ _ (Or.inl rfl) m h
      · exact construct_str_total ctx H _ _ _ _ _ (Or.inr ⟨_, rfl⟩) m h

end Ubx
