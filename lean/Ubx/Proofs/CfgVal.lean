import Ubx.Model.Walk
import Ubx.Proofs.Bytes
import Ubx.Proofs.Assigns
/-!
# The key/value walk of CFG-VALGET (GET) / CFG-VALSET (SET) (C14)
-/
namespace Ubx

/-- one configuration item as laid out in a payload -/
structure CfgItem where
  key : Nat
  name : Name
  letter : Nat
  size : Nat
  vb : Bytes

def CfgItem.enc (it : CfgItem) : Bytes := toLE 4 it.key ++ it.vb

def encCfg (items : List CfgItem) : Bytes := (items.map CfgItem.enc).flatten

/-- the item is consistent with the lookup: 32-bit id, resolved (by the database or by the size-code fallback) to
    its name and a sized type of positive width, with a value of exactly that width -/
def CfgItem.ok (ctx : Ctx) (it : CfgItem) : Prop :=
  it.key < 256 ^ 4 ∧ cfgkey2name ctx it.key = .ok (it.name, .t it.letter it.size) ∧ it.vb.length = it.size ∧ 0 < it.size

theorem encCfg_cons (it : CfgItem) (rest : List CfgItem) : encCfg (it :: rest) = toLE 4 it.key ++ it.vb ++ encCfg rest := by
  simp [encCfg, CfgItem.enc, List.append_assoc]

theorem slice_at (pre x post : Bytes) (a : Nat) (ha : a = pre.length) (n : Nat) (hn : n = x.length) :
    slice (pre ++ x ++ post) a (a + n) = x := by
  subst ha hn; simp [slice]

/-- the specification: for each item in order, `setattr(name, bytes2val(value bytes, type))` -/
def applyAllDecoded (c : WCtx) : Env → List CfgItem → R Env
  | env, [] => .ok env
  | env, it :: rest =>
    match bytes2val it.vb (.t it.letter it.size) with
    | .error e => .error e
    | .ok v =>
      match setAttr c env ⟨it.name, []⟩ v with
      | .error e => .error e
      | .ok env' => applyAllDecoded c env' rest

/-- the loop visits every item in order and assigns `name = bytes2val(value bytes, type)`; nothing else -/
theorem cfgLoop_spec (c : WCtx) (items : List CfgItem) (hok : ∀ it ∈ items, it.ok c.ctx) :
    ∀ (pre : Bytes) (env env' : Env) (fuel : Nat), items.length + 1 ≤ fuel → 4 ≤ pre.length →
    applyAllDecoded c env items = .ok env' →
    cfgLoop c (pre ++ encCfg items) ((pre ++ encCfg items).length - 4) fuel pre.length env = .ok env' := by
  induction items with
  | nil =>
    intro pre env env' fuel hf hpre hs
    simp only [applyAllDecoded] at hs; cases hs
    cases fuel with
    | zero => omega
    | succ f =>
      simp only [cfgLoop, encCfg, List.map_nil, List.flatten_nil, List.append_nil]
      rw [if_neg (by omega)]
  | cons it rest ih =>
    intro pre env env' fuel hf hpre hs
    obtain ⟨hk, hname, hvb, hsz⟩ := hok it (List.mem_cons_self ..)
    cases fuel with
    | zero => omega
    | succ f =>
      simp only [applyAllDecoded] at hs
      split at hs
      · cases hs
      · rename_i v hv
        split at hs
        · cases hs
        · rename_i env1 h1
          have hlen : (pre ++ encCfg (it :: rest)).length = pre.length + (4 + it.size + (encCfg rest).length) := by
            rw [encCfg_cons]; simp [List.length_append, hvb]; omega
          simp only [cfgLoop]
          rw [if_pos (by rw [hlen]; omega)]
          have ekey : fromLE (slice (pre ++ encCfg (it :: rest)) pre.length (pre.length + 4)) = it.key := by
            rw [encCfg_cons]
            have : pre ++ (toLE 4 it.key ++ it.vb ++ encCfg rest) = pre ++ toLE 4 it.key ++ (it.vb ++ encCfg rest) := by
              simp [List.append_assoc]
            rw [this, slice_at pre (toLE 4 it.key) _ pre.length rfl 4 (by simp), fromLE_toLE 4 _ hk]
          have eval : slice (pre ++ encCfg (it :: rest)) (pre.length + 4) (pre.length + 4 + it.size) = it.vb := by
            rw [encCfg_cons]
            have : pre ++ (toLE 4 it.key ++ it.vb ++ encCfg rest) = (pre ++ toLE 4 it.key) ++ it.vb ++ encCfg rest := by
              simp [List.append_assoc]
            rw [this]
            exact slice_at (pre ++ toLE 4 it.key) it.vb _ _ (by simp) _ hvb.symm
          simp only [bind, Except.bind, ekey, hname, attsiz, Int.toNat_natCast, eval, hv, h1]
          have e2 : pre ++ encCfg (it :: rest) = (pre ++ toLE 4 it.key ++ it.vb) ++ encCfg rest := by
            rw [encCfg_cons]; simp [List.append_assoc]
          have e3 : pre.length + 4 + it.size = (pre ++ toLE 4 it.key ++ it.vb).length := by simp [hvb]; omega
          rw [e2, e3]
          exact ih (fun x hx => hok x (List.mem_cons_of_mem _ hx)) _ env1 env' f (by simp at hf; omega)
            (by simp; omega) hs

end Ubx
