import Ubx.Proofs.CodeReader
/-!
# One pass of `UBXReader.read()`'s loop, as written, is the model's `step`

`readBody` is the body of the `try` statement inside `read()`'s `while` loop, taken from the syntax tree generated from
the working tree. `body_eq`: run against the level-2 host (byte source, protocol parsers as the oracle, and the reader's
own `_parse_ubx` / `_parse_nmea` / `_parse_rtcm3` *as the code they are*), it ends exactly as the model's
`step S nmeaHdr cfg O s` says — same outcome (end of stream, skipped byte, delivered item, the exception the model
predicts), same remaining source state, and the local variables `raw_data`, `parsed_data`, `parsing` hold what the
return statement will read. All of C06–C12's theorems are about `step` / `run`; this is what ties them to the code.
-/
set_option maxRecDepth 10000
set_option linter.unusedSimpArgs false
namespace Ubx.Py
open Ubx Ubx.Gen.Code
variable {σ α : Type}

theorem h2_glob (E : REnv σ α) (f : Nat) : (h2 E f).glob = readGlob := rfl
theorem h2_call (E : REnv σ α) (f : Nat) : (h2 E f).call = h1Call E := rfl
theorem h2_mcall (E : REnv σ α) (f : Nat) : (h2 E f).mcall = h2Mcall E f := rfl
theorem h2_attr (E : REnv σ α) (f : Nat) : (h2 E f).attr = h1Attr E := rfl
theorem h2_truthy (E : REnv σ α) (f : Nat) (o : RO α) : (h2 E f).truthy o = true := rfl

theorem h2m_read (E : REnv σ α) (f : Nat) (n : Int) (hn : 0 ≤ n) (s : σ) (cs : List (Name × Nat)) (kw : List (Name × V (RO α))) :
    h2Mcall E f (.host .self) 0x5f726561645f6279746573 [.int n] kw ⟨some s, cs⟩
      = srcResult (E.S.read n.toNat s) ⟨some s, cs⟩ := by
  simp only [h2Mcall, Nat.reduceEqDiff, ↓reduceIte, hm_read E n hn]
theorem h2m_ubx (E : REnv σ α) (f : Nat) (hd : Bytes) (st : RSt σ) (kw : List (Name × V (RO α))) :
    h2Mcall E f (.host .self) 0x5f70617273655f756278 [.bytes hd] kw st
      = runFn (h1 E) f fn_UBXReader__parse_ubx [.host .self, .bytes hd] st := rfl
theorem h2m_nmea (E : REnv σ α) (f : Nat) (hd : Bytes) (st : RSt σ) (kw : List (Name × V (RO α))) :
    h2Mcall E f (.host .self) 0x5f70617273655f6e6d6561 [.bytes hd] kw st
      = runFn (h1 E) f fn_UBXReader__parse_nmea [.host .self, .bytes hd] st := rfl
theorem h2m_rtcm (E : REnv σ α) (f : Nat) (hd : Bytes) (st : RSt σ) (kw : List (Name × V (RO α))) :
    h2Mcall E f (.host .self) 0x5f70617273655f7274636d33 [.bytes hd] kw st
      = runFn (h1 E) f fn_UBXReader__parse_rtcm3 [.host .self, .bytes hd] st := rfl
theorem h2m_err (E : REnv σ α) (f : Nat) (c : Name) (a : Nat) (st : RSt σ) (kw : List (Name × V (RO α))) :
    h2Mcall E f (.host .self) 0x5f646f5f6572726f72 [.exc c a] kw st
      = runFn (h1 E) f fn_UBXReader__do_error [.host .self, .exc c a] st := rfl

/-- the loop body of `read()`: the `try` statement, its body and its two handlers, taken from the generated tree -/
def readTry : S := match fn_UBXReader_read.body with
  | [_, .while_ _ [t], _] => t
  | _ => .pass
def readBody : List S := match readTry with
  | .try_ b _ _ _ _ _ _ => b
  | _ => []

theorem read_shape : fn_UBXReader_read.body =
    [.assign 0x70617273696e67 .tt, .while_ (.var 0x70617273696e67) [readTry],
     .ret (.tuple [.var 0x7261775f64617461, .var 0x7061727365645f64617461])] := rfl

/-- how the model's verdict on one pass shows up in the `try` body -/
def encOut (E : REnv σ α) : Out α → X (RO α) (Flow (RO α))
  | .eof => .error (.exc xEOFError 0)
  | .skip => .ok .cont
  | .err .stream => .error (.exc xUBXStreamError 0)
  | .err .unknownHdr => .error (.exc xUBXParseError 0)
  | .err (.rejected p c) => .error (.exc (E.rej p c) c)
  | .crash p c => .error (.exc (E.crash p c) c)
  | .item _ _ _ => .ok .next


macro "r2" "[" ls:Lean.Parser.Tactic.simpLemma,* "]" : tactic => `(tactic| pystep [h2_glob, h2_call, h2_mcall, h2_attr, h2_truthy, h2m_read, h2m_ubx, h2m_nmea,
  h2m_rtcm, h2m_err, ha_filter, ha_parsing, ha_q, intAnd_nat1, intAnd_nat2, intAnd_nat4, rg_UBX, rg_NMEA, rg_RTCM, srcResult,
  Int.reduceBEq, Int.natCast_nonneg, Int.toNat_natCast, bne, Bool.beq_eq_decide_eq, Int.reduceEq, Int.reduceNe, decide_true, decide_false,
  decide_eq_false, decide_eq_true, not_false_eq_true, Bool.false_eq_true, Nat.reduceEqDiff, $ls,*])
macro "r2" : tactic => `(tactic| r2 [])

theorem rg_UBX_HDR : readGlob (α := α) 0x5542585f484452 = some (.bytes [0xb5, 0x62]) := by
  simp only [readGlob, globals, globLookup, Nat.reduceEqDiff, ↓reduceIte, G.toV]

theorem memTuple_hdr {ω τ : Type} (H : Host ω τ) (p : Bytes) (l : List Byte) :
    memTuple H (.bytes p) (l.map (fun b => V.bytes [0x24, b]))
      = some (decide (p.length = 2 ∧ p.getD 0 0 = 0x24 ∧ l.contains (p.getD 1 0) = true)) := by
  induction l with
  | nil => simp [memTuple]
  | cons b bs ih =>
    simp only [List.map_cons, memTuple, pyEq, ih]
    by_cases h : p = [0x24, b]
    · subst h; simp
    · have : (p == [0x24, b]) = false := by simpa using h
      simp only [this]
      congr 1
      match p, h with
      | [], _ => simp
      | [x], _ => simp
      | [x, y], h =>
        simp only [List.length_cons, List.length_nil, List.getD_cons_zero, List.getD_cons_succ, List.contains_cons,
          true_and, decide_eq_decide]
        by_cases hx : x = 0x24
        · subst hx
          have : y ≠ b := fun e => h (by rw [e])
          simp [this]
        · simp [hx]
      | x :: y :: z :: r, _ => simp

theorem rtcm_bits_nat : ∀ n : Fin 256, (intAnd ((n : Nat) : Int) (intInv 3) = 0) = ((UInt8.ofNat n) &&& 0xfc = 0) := by
  decide +kernel
theorem rtcm_bits (b : UInt8) : (intAnd (b.toNat : Int) (intInv 3) = 0) = (b &&& 0xfc = 0) := by
  have := rtcm_bits_nat ⟨b.toNat, b.toNat_lt⟩
  simpa using this

/-- what the caller sees of a delivered item -/
def parsedV : Option α → V (RO α)
  | none => .none
  | some m => .host (.parsed m)

/-- facts about the local variables after the `try` body, by outcome -/
def varsOK (vars0 vars' : List (Name × V (RO α))) : Out α → Prop
  | .item _ raw m => getVar vars' 0x70617273696e67 = some (.bool false) ∧ getVar vars' 0x7261775f64617461 = some (.bytes raw)
      ∧ getVar vars' 0x7061727365645f64617461 = some (parsedV m)
  | _ => getVar vars' 0x70617273696e67 = getVar vars0 0x70617273696e67

/-- what the `try` body must have done, given the model's verdict on the pass -/
def BodyPost (E : REnv σ α) (vars0 : List (Name × V (RO α))) (cs : List (Name × Nat)) (m : Out α × Option σ)
    (r : X (RO α) (Flow (RO α)) × St (RO α) (RSt σ)) : Prop :=
  r.1 = encOut E m.1 ∧ r.2.h = ⟨m.2, cs⟩ ∧ getVar r.2.vars 0x73656c66 = some (.host .self) ∧ varsOK vars0 r.2.vars m.1

set_option hygiene false in
/-- the part of a pass after `_parse_x` has returned: deliver, skip, or propagate the parser's exception -/
macro "ftail" "(" p:term ")" "(" b:num ")" : tactic => `(tactic| (
  by_cases hf : E.cfg.filter &&& $b = 0
  · have hf' : ((E.cfg.filter &&& $b : Nat) : Int) = 0 := by rw [hf]; rfl
    have hpo : parsedOf E $p raw = .ok (.tuple [.bytes raw, .none]) := by simp only [parsedOf, Proto.bit, hf, ne_eq, not_true_eq_false, false_and, ↓reduceIte]
    rw [hpo] at hpu
    r2 [hself, hpu, hf']
    simp only [BodyPost, finish, Proto.bit, hf, ne_eq, not_true_eq_false, ↓reduceIte, encOut, varsOK]
    pysimp [hself]
  · have hf' : ¬ (((E.cfg.filter &&& $b : Nat) : Int) = 0) := by omega
    cases hp : E.cfg.parsing
    · have hpo : parsedOf E $p raw = .ok (.tuple [.bytes raw, .none]) := by simp only [parsedOf, Proto.bit, hf, hp, ne_eq, not_false_eq_true, Bool.false_eq_true, and_false, ↓reduceIte]
      rw [hpo] at hpu
      r2 [hself, hpu, hf']
      simp only [BodyPost, finish, Proto.bit, hf, hp, ne_eq, not_false_eq_true, Bool.false_eq_true, ↓reduceIte, encOut, varsOK, parsedV]
      pysimp [hself]
    · cases hO : E.O $p raw with
      | ok m =>
        have hpo : parsedOf E $p raw = .ok (.tuple [.bytes raw, .host (.parsed m)]) := by
          simp only [parsedOf, Proto.bit, hf, hp, verdictResult, hO, ne_eq, not_false_eq_true, and_self, ↓reduceIte]
        rw [hpo] at hpu
        r2 [hself, hpu, hf']
        simp only [BodyPost, finish, Proto.bit, hf, hp, hO, ne_eq, not_false_eq_true, Bool.false_eq_true, ↓reduceIte,
          encOut, varsOK, parsedV]
        pysimp [hself]
      | rejected c =>
        have hpo : parsedOf E $p raw = .error (.exc (E.rej $p c) c) := by
          simp only [parsedOf, Proto.bit, hf, hp, verdictResult, hO, ne_eq, not_false_eq_true, and_self, ↓reduceIte]
        rw [hpo] at hpu
        r2 [hself, hpu, hf']
        simp only [BodyPost, finish, Proto.bit, hf, hp, hO, ne_eq, not_false_eq_true, Bool.false_eq_true, ↓reduceIte,
          encOut, varsOK, parsedV]
        pysimp [hself]
      | crash c =>
        have hpo : parsedOf E $p raw = .error (.exc (E.crash $p c) c) := by
          simp only [parsedOf, Proto.bit, hf, hp, verdictResult, hO, ne_eq, not_false_eq_true, and_self, ↓reduceIte]
        rw [hpo] at hpu
        r2 [hself, hpu, hf']
        simp only [BodyPost, finish, Proto.bit, hf, hp, hO, ne_eq, not_false_eq_true, Bool.false_eq_true, ↓reduceIte,
          encOut, varsOK, parsedV]
        pysimp [hself]
))

/-- the `try` body of one pass of `read()` against the model's `step` -/
theorem body_eq (E : REnv σ α) (hS : ExactReads E.S) (hdr2 : List Byte)
    (hN : readGlob (α := α) 0x4e4d45415f484452 = some (.tuple (hdr2.map (fun b => V.bytes [0x24, b]))))
    (fuel : Nat) (vars : List (Name × V (RO α))) (hself : getVar vars 0x73656c66 = some (.host .self))
    (s : σ) (cs : List (Name × Nat)) :
    BodyPost E vars cs (step E.S (fun b => hdr2.contains b) E.cfg E.O s)
      (execB (h2 E fuel) fuel readBody ⟨vars, ⟨some s, cs⟩⟩) := by
  simp only [readBody, readTry, fn_UBXReader_read]
  cases hr1 : E.S.read 1 s with
  | eof =>
    r2; r2; r2 [hself, hr1]
    simp only [BodyPost, step, hr1, encOut, varsOK]
    pysimp [hself]
  | short =>
    r2; r2; r2 [hself, hr1]
    simp only [BodyPost, step, hr1, encOut, varsOK]
    pysimp [hself]
  | ok d1 s1 =>
    have hl := hS _ _ _ _ hr1
    match d1, hl with
    | [b1], _ =>
      r2; r2; r2 [hself, hr1]
      by_cases hpre : isPre b1 = true
      · have hb : b1 = 0xb5 ∨ b1 = 0x24 ∨ b1 = 0xd3 := by
          simpa [isPre, or_assoc] using hpre
        rcases hb with rfl | rfl | rfl
        · -- UBX lead-in
          r2 [List.cons.injEq]
          cases hr2 : E.S.read 1 s1 with
          | eof =>
            r2 [hself, hr2]
            simp only [BodyPost, step, hr1, hr2, List.getD_cons_zero, hpre, Bool.not_true, Bool.false_eq_true, ↓reduceIte, encOut, varsOK]
            pysimp [hself]
          | short =>
            r2 [hself, hr2]
            simp only [BodyPost, step, hr1, hr2, List.getD_cons_zero, hpre, Bool.not_true, Bool.false_eq_true, ↓reduceIte, encOut, varsOK]
            pysimp [hself]
          | ok d2 s2 =>
            have hl2 := hS _ _ _ _ hr2
            match d2, hl2 with
            | [b2], _ =>
              r2 [hself, hr2]
              by_cases h62 : b2 = 0x62
              · subst h62
                r2 [List.cons_append, List.nil_append, rg_UBX_HDR]
                have hpu := parse_ubx_eq E hS fuel [181, 98] s2 cs
                cases hr3 : E.S.read 4 s2 with
                | eof =>
                  simp only [hr3] at hpu
                  r2 [hself, hpu]
                  simp only [BodyPost, step, hr1, hr2, hr3, List.getD_cons_zero, hpre, Bool.not_true, Bool.false_eq_true, ↓reduceIte,
                    and_self, encOut, varsOK]
                  pysimp [hself]
                | short =>
                  simp only [hr3] at hpu
                  r2 [hself, hpu]
                  simp only [BodyPost, step, hr1, hr2, hr3, List.getD_cons_zero, hpre, Bool.not_true, Bool.false_eq_true, ↓reduceIte,
                    and_self, encOut, varsOK]
                  pysimp [hself]
                | ok h s3 =>
                  simp only [hr3] at hpu
                  cases hr4 : E.S.read (ubxLen h) s3 with
                  | eof =>
                    simp only [hr4] at hpu
                    r2 [hself, hpu]
                    simp only [BodyPost, step, hr1, hr2, hr3, hr4, List.getD_cons_zero, hpre, Bool.not_true, Bool.false_eq_true, ↓reduceIte,
                      and_self, encOut, varsOK]
                    pysimp [hself]
                  | short =>
                    simp only [hr4] at hpu
                    r2 [hself, hpu]
                    simp only [BodyPost, step, hr1, hr2, hr3, hr4, List.getD_cons_zero, hpre, Bool.not_true, Bool.false_eq_true, ↓reduceIte,
                      and_self, encOut, varsOK]
                    pysimp [hself]
                  | ok body s4 =>
                    simp only [hr4] at hpu
                    have eraw : [181] ++ [98] ++ h ++ body = [181, 98] ++ h ++ body := rfl
                    have hstep : step E.S (fun b => hdr2.contains b) E.cfg E.O s
                        = (finish E.cfg E.O .ubx ([181, 98] ++ h ++ body), some s4) := by
                      simp only [step, hr1, hr2, hr3, hr4, List.getD_cons_zero, hpre, Bool.not_true, Bool.false_eq_true, ↓reduceIte,
                        and_self, eraw]
                    rw [hstep]
                    generalize [181, 98] ++ h ++ body = raw at hpu ⊢
                    ftail (Proto.ubx) (2)
              · -- b5 followed by something else: unknown protocol header
                have u1 : ¬ ((181 : UInt8) = 36) := by decide
                have u2 : ¬ ((181 : UInt8) = 211) := by decide
                r2 [List.cons_append, List.nil_append, rg_UBX_HDR, List.cons.injEq, h62, hN, memTuple_hdr,
                  List.getD_cons_zero, List.getD_cons_succ, List.length_cons, List.length_nil, u1, u2]
                simp only [BodyPost, step, hr1, hr2, List.getD_cons_zero, hpre, Bool.not_true, Bool.false_eq_true, ↓reduceIte,
                  h62, u1, u2, and_false, false_and, encOut, varsOK]
                pysimp [hself]
        · -- NMEA lead-in
          have u0 : ¬ ((36 : UInt8) = 181) := by decide
          have u3 : ¬ ((36 : UInt8) = 211) := by decide
          r2 [List.cons.injEq, u0, u3]
          cases hr2 : E.S.read 1 s1 with
          | eof =>
            r2 [hself, hr2]
            simp only [BodyPost, step, hr1, hr2, List.getD_cons_zero, hpre, Bool.not_true, Bool.false_eq_true, ↓reduceIte, encOut, varsOK]
            pysimp [hself]
          | short =>
            r2 [hself, hr2]
            simp only [BodyPost, step, hr1, hr2, List.getD_cons_zero, hpre, Bool.not_true, Bool.false_eq_true, ↓reduceIte, encOut, varsOK]
            pysimp [hself]
          | ok d2 s2 =>
            have hl2 := hS _ _ _ _ hr2
            match d2, hl2 with
            | [b2], _ =>
              r2 [hself, hr2]
              cases hc : hdr2.contains b2
              · -- '$' followed by a byte that starts no NMEA talker: unknown protocol header
                r2 [List.cons_append, List.nil_append, rg_UBX_HDR, List.cons.injEq, hN, memTuple_hdr,
                  List.getD_cons_zero, List.getD_cons_succ, List.length_cons, List.length_nil, u0, u3, hc]
                simp only [BodyPost, step, hr1, hr2, List.getD_cons_zero, hpre, Bool.not_true, Bool.false_eq_true, ↓reduceIte,
                  u0, u3, hc, and_false, false_and, encOut, varsOK]
                pysimp [hself]
              · r2 [List.cons_append, List.nil_append, rg_UBX_HDR, List.cons.injEq, hN, memTuple_hdr,
                  List.getD_cons_zero, List.getD_cons_succ, List.length_cons, List.length_nil, u0, u3, hc]
                have hpu := parse_nmea_eq E fuel [36, b2] s2 cs
                cases hr3 : E.S.line s2 with
                | eof =>
                  simp only [hr3] at hpu
                  r2 [hself, hpu]
                  simp only [BodyPost, step, hr1, hr2, hr3, List.getD_cons_zero, hpre, Bool.not_true, Bool.false_eq_true, ↓reduceIte,
                    u0, hc, and_self, and_false, false_and, true_and, encOut, varsOK]
                  pysimp [hself]
                | short =>
                  simp only [hr3] at hpu
                  r2 [hself, hpu]
                  simp only [BodyPost, step, hr1, hr2, hr3, List.getD_cons_zero, hpre, Bool.not_true, Bool.false_eq_true, ↓reduceIte,
                    u0, hc, and_self, and_false, false_and, true_and, encOut, varsOK]
                  pysimp [hself]
                | ok l s3 =>
                  simp only [hr3] at hpu
                  have eraw : [36] ++ [b2] ++ l = [36, b2] ++ l := rfl
                  have hstep : step E.S (fun b => hdr2.contains b) E.cfg E.O s
                      = (finish E.cfg E.O .nmea ([36, b2] ++ l), some s3) := by
                    simp only [step, hr1, hr2, hr3, List.getD_cons_zero, hpre, Bool.not_true, Bool.false_eq_true, ↓reduceIte,
                      u0, hc, and_self, and_false, false_and, true_and, eraw]
                  rw [hstep]
                  generalize [36, b2] ++ l = raw at hpu ⊢
                  ftail (Proto.nmea) (1)
        · -- RTCM3 lead-in
          have u0 : ¬ ((211 : UInt8) = 181) := by decide
          have u3 : ¬ ((211 : UInt8) = 36) := by decide
          r2 [List.cons.injEq, u0, u3]
          cases hr2 : E.S.read 1 s1 with
          | eof =>
            r2 [hself, hr2]
            simp only [BodyPost, step, hr1, hr2, List.getD_cons_zero, hpre, Bool.not_true, Bool.false_eq_true, ↓reduceIte, encOut, varsOK]
            pysimp [hself]
          | short =>
            r2 [hself, hr2]
            simp only [BodyPost, step, hr1, hr2, List.getD_cons_zero, hpre, Bool.not_true, Bool.false_eq_true, ↓reduceIte, encOut, varsOK]
            pysimp [hself]
          | ok d2 s2 =>
            have hl2 := hS _ _ _ _ hr2
            match d2, hl2 with
            | [b2], _ =>
              r2 [hself, hr2]
              by_cases hb : b2 &&& 0xfc = 0
              · r2 [List.cons_append, List.nil_append, rg_UBX_HDR, List.cons.injEq, hN, memTuple_hdr,
                  List.getD_cons_zero, List.getD_cons_succ, List.length_cons, List.length_nil, Nat.zero_add, Nat.reduceAdd,
                  Int.natCast_one, Int.natCast_zero, u0, u3, rtcm_bits, hb]
                have hpu := parse_rtcm3_eq E hS fuel 211 b2 s2 cs
                cases hr3 : E.S.read 1 s2 with
                | eof =>
                  simp only [hr3] at hpu
                  r2 [hself, hpu]
                  simp only [BodyPost, step, hr1, hr2, hr3, List.getD_cons_zero, hpre, Bool.not_true, Bool.false_eq_true, ↓reduceIte,
                    u0, u3, hb, and_self, and_false, false_and, true_and, encOut, varsOK]
                  pysimp [hself]
                | short =>
                  simp only [hr3] at hpu
                  r2 [hself, hpu]
                  simp only [BodyPost, step, hr1, hr2, hr3, List.getD_cons_zero, hpre, Bool.not_true, Bool.false_eq_true, ↓reduceIte,
                    u0, u3, hb, and_self, and_false, false_and, true_and, encOut, varsOK]
                  pysimp [hself]
                | ok d3 s3 =>
                  simp only [hr3] at hpu
                  cases hr4 : E.S.read (rtcmLen d3 [b2]) s3 with
                  | eof =>
                    simp only [hr4] at hpu
                    r2 [hself, hpu]
                    simp only [BodyPost, step, hr1, hr2, hr3, hr4, List.getD_cons_zero, hpre, Bool.not_true, Bool.false_eq_true, ↓reduceIte,
                      u0, u3, hb, and_self, and_false, false_and, true_and, encOut, varsOK]
                    pysimp [hself]
                  | short =>
                    simp only [hr4] at hpu
                    r2 [hself, hpu]
                    simp only [BodyPost, step, hr1, hr2, hr3, hr4, List.getD_cons_zero, hpre, Bool.not_true, Bool.false_eq_true, ↓reduceIte,
                      u0, u3, hb, and_self, and_false, false_and, true_and, encOut, varsOK]
                    pysimp [hself]
                  | ok pl s4 =>
                    simp only [hr4] at hpu
                    cases hr5 : E.S.read 3 s4 with
                    | eof =>
                      simp only [hr5] at hpu
                      r2 [hself, hpu]
                      simp only [BodyPost, step, hr1, hr2, hr3, hr4, hr5, List.getD_cons_zero, hpre, Bool.not_true, Bool.false_eq_true, ↓reduceIte,
                        u0, u3, hb, and_self, and_false, false_and, true_and, encOut, varsOK]
                      pysimp [hself]
                    | short =>
                      simp only [hr5] at hpu
                      r2 [hself, hpu]
                      simp only [BodyPost, step, hr1, hr2, hr3, hr4, hr5, List.getD_cons_zero, hpre, Bool.not_true, Bool.false_eq_true, ↓reduceIte,
                        u0, u3, hb, and_self, and_false, false_and, true_and, encOut, varsOK]
                      pysimp [hself]
                    | ok crc s5 =>
                      simp only [hr5] at hpu
                      have eraw : [211] ++ [b2] ++ d3 ++ pl ++ crc = [211, b2] ++ d3 ++ pl ++ crc := rfl
                      have hstep : step E.S (fun b => hdr2.contains b) E.cfg E.O s
                          = (finish E.cfg E.O .rtcm ([211, b2] ++ d3 ++ pl ++ crc), some s5) := by
                        simp only [step, hr1, hr2, hr3, hr4, hr5, List.getD_cons_zero, hpre, Bool.not_true, Bool.false_eq_true, ↓reduceIte,
                          u0, u3, hb, and_self, and_false, false_and, true_and, eraw]
                      rw [hstep]
                      generalize [211, b2] ++ d3 ++ pl ++ crc = raw at hpu ⊢
                      ftail (Proto.rtcm) (4)
              · -- d3 followed by a byte with high bits set: unknown protocol header
                r2 [List.cons_append, List.nil_append, rg_UBX_HDR, List.cons.injEq, hN, memTuple_hdr,
                  List.getD_cons_zero, List.getD_cons_succ, List.length_cons, List.length_nil, Nat.zero_add, Nat.reduceAdd,
                  Int.natCast_one, Int.natCast_zero, u0, u3, rtcm_bits, hb]
                simp only [BodyPost, step, hr1, hr2, List.getD_cons_zero, hpre, Bool.not_true, Bool.false_eq_true, ↓reduceIte,
                  u0, u3, hb, and_false, false_and, true_and, encOut, varsOK]
                pysimp [hself]
      · -- not a preamble byte: discard and continue
        have n1 : ¬ (b1 = 0xb5) := by intro h; apply hpre; simp [isPre, h]
        have n2 : ¬ (b1 = 0x24) := by intro h; apply hpre; simp [isPre, h]
        have n3 : ¬ (b1 = 0xd3) := by intro h; apply hpre; simp [isPre, h]
        r2 [List.cons.injEq, n1, n2, n3]
        have hpre' : isPre b1 = false := by simpa using hpre
        simp only [BodyPost, step, hr1, List.getD_cons_zero, hpre', Bool.not_false, ↓reduceIte, encOut, varsOK]
        pysimp [hself]
end Ubx.Py
