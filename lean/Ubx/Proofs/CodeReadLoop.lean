import Ubx.Proofs.CodeReadPass
/-!
# `UBXReader.read()`, as written in the working tree, is the model's loop over `step`

`try_eq`: the whole `try` statement of one pass — body, `except EOFError`, `except (…12 classes…) as err` with
`if self._quitonerror: self._do_error(err); continue` — against the model's `step` and the error policy (`passOut`):
end of stream returns `(None, None)`; a skipped byte or a filtered frame goes to the next pass; a rejected frame is
ignored / reported once to the handler / re-raised according to `quitonerror`; an exception outside the catch list
leaves `read()`; a delivered item ends the loop. `loop_eq` / `read_eq`: the `while parsing:` loop and the final
`return (raw_data, parsed_data)`, by induction on the iteration budget. The catch list is the one in the generated
syntax tree (`catchNames`); `CatchOK` says which exception classes the protocol parsers' verdicts stand for.
-/
set_option maxRecDepth 10000
set_option linter.unusedSimpArgs false
namespace Ubx.Py
open Ubx Ubx.Gen.Code
variable {σ α : Type}

/-- the exception classes `read()` catches and hands to `_do_error` (second handler), from the generated tree -/
def catchNames : List Name := match readTry with
  | .try_ _ _ _ _ h2n _ _ => h2n
  | _ => []

/-- class and tag of the exception behind an error event of the model -/
def excOfKind (E : REnv σ α) : EKind → Name × Nat
  | .stream => (xUBXStreamError, 0)
  | .unknownHdr => (xUBXParseError, 0)
  | .rejected p c => (E.rej p c, c)

/-- what one pass of the loop amounts to for the caller of `read()`, error policy included -/
inductive PassOut (α : Type) where
  | eofRet                                  -- `return (None, None)`
  | cont                                    -- next pass
  | deliver (raw : Bytes) (m : Option α)    -- `parsing = False`: the loop ends and the item is returned
  | raised (c : Name) (a : Nat)             -- an exception leaves `read()`

def passOut (E : REnv σ α) : Out α → PassOut α × List (Name × Nat)
  | .eof => (.eofRet, [])
  | .skip => (.cont, [])
  | .item _ raw m => (.deliver raw m, [])
  | .crash p c => (.raised (E.crash p c) c, [])
  | .err k =>
    if E.q = 0 then (.cont, [])
    else if E.q = 2 then (.raised (excOfKind E k).1 (excOfKind E k).2, [])
    else if E.q = 1 then (.cont, [excOfKind E k])
    else (.cont, [])

def encPass : PassOut α → X (RO α) (Flow (RO α))
  | .eofRet => .ok (.ret (.tuple [.none, .none]))
  | .cont => .ok .cont
  | .deliver _ _ => .ok .next
  | .raised c a => .error (.exc c a)

/-- the verdict classes are consistent with `read()`'s catch list -/
structure CatchOK (E : REnv σ α) : Prop where
  rej_in : ∀ p c, catchNames.contains (E.rej p c) = true
  rej_ne : ∀ p c, E.rej p c ≠ xEOFError
  crash_out : ∀ p c, catchNames.contains (E.crash p c) = false
  crash_ne : ∀ p c, E.crash p c ≠ xEOFError

def TryPost (E : REnv σ α) (vars0 : List (Name × V (RO α))) (cs : List (Name × Nat)) (m : Out α × Option σ)
    (r : X (RO α) (Flow (RO α)) × St (RO α) (RSt σ)) : Prop :=
  r.1 = encPass (passOut E m.1).1 ∧ r.2.h = ⟨m.2, cs ++ (passOut E m.1).2⟩
    ∧ getVar r.2.vars 0x73656c66 = some (.host .self) ∧ varsOK vars0 r.2.vars m.1

theorem readTry_shape : readTry = .try_ readBody [0x454f464572726f72] 0 [.ret (.tuple [.none, .none])]
    catchNames 0x657272
    [.if_ (.attr (.var 0x73656c66) 0x5f717569746f6e6572726f72) [.expr (.mcall (.var 0x73656c66) 0x5f646f5f6572726f72 [.var 0x657272] [] [])] [],
     .continue_] := rfl

theorem try_eq (E : REnv σ α) (hS : ExactReads E.S) (hC : CatchOK E) (hdr2 : List Byte)
    (hN : readGlob (α := α) 0x4e4d45415f484452 = some (.tuple (hdr2.map (fun b => V.bytes [0x24, b]))))
    (fuel : Nat) (vars : List (Name × V (RO α))) (hself : getVar vars 0x73656c66 = some (.host .self))
    (s : σ) (cs : List (Name × Nat)) :
    TryPost E vars cs (step E.S (fun b => hdr2.contains b) E.cfg E.O s)
      (execS (h2 E fuel) fuel readTry ⟨vars, ⟨some s, cs⟩⟩) := by
  have hb := body_eq E hS hdr2 hN fuel vars hself s cs
  rw [readTry_shape, execS_try]
  generalize execB (h2 E fuel) fuel readBody ⟨vars, ⟨some s, cs⟩⟩ = r0 at hb ⊢
  obtain ⟨out0, st0⟩ := r0
  obtain ⟨h1, h2', h3, h4⟩ := hb
  simp only at h1 h2' h3 h4
  generalize step E.S (fun b => hdr2.contains b) E.cfg E.O s = m at h1 h2' h4 ⊢
  obtain ⟨o, s'⟩ := m
  simp only at h1 h2' h4
  subst h1
  cases o with
  | eof =>
    simp only [encOut, excCls, xEOFError, List.contains_cons, List.contains_nil, beq_self_eq_true, Bool.or_false, ↓reduceIte]
    pysimp
    simp only [TryPost, passOut, encPass, h2', h3, List.append_nil, true_and, and_self, varsOK] at h4 ⊢
    exact h4
  | skip =>
    simp only [encOut, TryPost, passOut, encPass, h2', h3, List.append_nil, true_and, and_self, varsOK] at h4 ⊢
    exact h4
  | item p raw m =>
    simp only [encOut, TryPost, passOut, encPass, h2', h3, List.append_nil, true_and, and_self, varsOK] at h4 ⊢
    exact h4
  | crash p c =>
    have hn : ¬ (E.crash p c = 4994287775863959410) := hC.crash_ne p c
    have ho := hC.crash_out p c
    simp only [encOut, excCls, List.contains_cons, List.contains_nil, Bool.or_false, beq_iff_eq, hn, ↓reduceIte, ho,
      Bool.false_eq_true]
    simp only [TryPost, passOut, encPass, h2', h3, List.append_nil, true_and, and_self, varsOK] at h4 ⊢
    exact h4
  | err k =>
    -- every error event's exception is in the catch list and is not EOFError
    have hin : catchNames.contains (excOfKind E k).1 = true := by
      cases k with
      | stream => show catchNames.contains xUBXStreamError = true; decide
      | unknownHdr => show catchNames.contains xUBXParseError = true; decide
      | rejected p c => exact hC.rej_in p c
    have hne : ¬ ((excOfKind E k).1 = 4994287775863959410) := by
      cases k with
      | stream => show ¬ (xUBXStreamError = 4994287775863959410); decide
      | unknownHdr => show ¬ (xUBXParseError = 4994287775863959410); decide
      | rejected p c => exact hC.rej_ne p c
    have henc : encOut E (Out.err k) = .error (.exc (excOfKind E k).1 (excOfKind E k).2) := by
      cases k <;> rfl
    rw [henc]
    simp only [excCls, List.contains_cons, List.contains_nil, Bool.or_false, beq_iff_eq, hne, ↓reduceIte, hin, Nat.reduceEqDiff]
    have hpo : passOut E (Out.err k) =
        (if E.q = 0 then (.cont, [])
         else if E.q = 2 then (.raised (excOfKind E k).1 (excOfKind E k).2, [])
         else if E.q = 1 then (.cont, [excOfKind E k])
         else (.cont, [])) := rfl
    simp only [TryPost, hpo]
    generalize excOfKind E k = ca at *
    obtain ⟨c, a⟩ := ca
    simp only at *
    have hself' : getVar (setVar st0.vars 6648434 (V.exc c a)) 0x73656c66 = some (.host .self) := by
      rw [getVar_setVar_ne _ _ _ _ (by decide)]; exact h3
    have hv : varsOK vars (setVar st0.vars 6648434 (V.exc c a)) (Out.err k) := by
      simp only [varsOK] at h4 ⊢
      rw [getVar_setVar_ne _ _ _ _ (by decide)]; exact h4
    by_cases hq0 : E.q = 0
    · have e0 : ((E.q : Nat) : Int) = 0 := by rw [hq0]; rfl
      r2 [hself', e0]
      simp only [hq0, ↓reduceIte, encPass, h2', List.append_nil, true_and]
      exact hv
    · have e0 : ¬ (((E.q : Nat) : Int) = 0) := by omega
      have hde := do_error_eq E fuel c a st0.h
      by_cases hq2 : E.q = 2
      · simp only [hq2, ↓reduceIte] at hde
        r2 [hself', e0, hde]
        simp only [hq2, Nat.reduceEqDiff, ↓reduceIte, encPass, h2', List.append_nil, true_and]
        exact hv
      · by_cases hq1 : E.q = 1
        · simp only [hq2, hq1, ↓reduceIte] at hde
          r2 [hself', e0, hde]
          simp only [hq1, Nat.reduceEqDiff, ↓reduceIte, encPass, h2', true_and]
          exact hv
        · simp only [hq2, hq1, ↓reduceIte] at hde
          r2 [hself', e0, hde]
          simp only [hq0, hq1, hq2, ↓reduceIte, encPass, h2', List.append_nil, true_and]
          exact hv

/-! ### the `while` loop and `read()` -/

def DeadPost (cs : List (Name × Nat)) (r : X (RO α) (Flow (RO α)) × St (RO α) (RSt σ)) : Prop :=
  r.1 = .ok (.ret (.tuple [.none, .none])) ∧ r.2.h = ⟨none, cs⟩

/-- a pass that starts on a dead source: `_read_bytes(1)` raises EOFError at once -/
theorem try_dead (E : REnv σ α) (fuel : Nat) (vars : List (Name × V (RO α)))
    (hself : getVar vars 0x73656c66 = some (.host .self)) (cs : List (Name × Nat)) :
    DeadPost cs (execS (h2 E fuel) fuel readTry ⟨vars, ⟨none, cs⟩⟩) := by
  rw [readTry_shape, execS_try]
  simp only [readBody, readTry, fn_UBXReader_read]
  r2; r2
  r2 [hself, h2Mcall, h1Mcall]
  exact ⟨rfl, rfl⟩

/-- what `read()` returns or raises, with the source state and handler calls afterwards -/
inductive LoopOut (σ α : Type) where
  | fuel
  | eofRet (s' : Option σ) (cs : List (Name × Nat))
  | deliver (raw : Bytes) (m : Option α) (s' : Option σ) (cs : List (Name × Nat))
  | raised (c : Name) (a : Nat) (s' : Option σ) (cs : List (Name × Nat))

/-- the loop of `read()` over the model's `step`, with the same iteration budget as the interpreter's `while` -/
def loopModel (E : REnv σ α) (hdr2 : List Byte) : Nat → Option σ → List (Name × Nat) → LoopOut σ α
  | 0, _, _ => .fuel
  | _+1, none, cs => .eofRet none cs
  | f+1, some s, cs =>
    match step E.S (fun b => hdr2.contains b) E.cfg E.O s with
    | (o, s') =>
      match passOut E o with
      | (.eofRet, ex) => .eofRet s' (cs ++ ex)
      | (.cont, ex) => loopModel E hdr2 f s' (cs ++ ex)
      | (.deliver raw m, ex) => (match f with | 0 => .fuel | _+1 => .deliver raw m s' (cs ++ ex))
      | (.raised c a, ex) => .raised c a s' (cs ++ ex)

def LoopPost : LoopOut σ α → X (RO α) (Flow (RO α)) × St (RO α) (RSt σ) → Prop
  | .fuel, r => r.1 = .error (.exc xFuel 0)
  | .eofRet s' cs, r => r.1 = .ok (.ret (.tuple [.none, .none])) ∧ r.2.h = ⟨s', cs⟩
  | .deliver raw m s' cs, r => r.1 = .ok .next ∧ r.2.h = ⟨s', cs⟩
      ∧ getVar r.2.vars 0x7261775f64617461 = some (.bytes raw) ∧ getVar r.2.vars 0x7061727365645f64617461 = some (parsedV m)
  | .raised c a s' cs, r => r.1 = .error (.exc c a) ∧ r.2.h = ⟨s', cs⟩

theorem loop_eq (E : REnv σ α) (hS : ExactReads E.S) (hC : CatchOK E) (hdr2 : List Byte)
    (hN : readGlob (α := α) 0x4e4d45415f484452 = some (.tuple (hdr2.map (fun b => V.bytes [0x24, b]))))
    (F : Nat) (f : Nat) (vars : List (Name × V (RO α))) (hself : getVar vars 0x73656c66 = some (.host .self))
    (hpars : getVar vars 0x70617273696e67 = some (.bool true)) (src : Option σ) (cs : List (Name × Nat)) :
    LoopPost (loopModel E hdr2 f src cs)
      (whileLoop (whileCond (h2 E F) F (.var 0x70617273696e67)) (whileBody (h2 E F) F [readTry]) f ⟨vars, ⟨src, cs⟩⟩) := by
  induction f generalizing vars src cs with
  | zero => simp [loopModel, whileLoop, LoopPost, raiseX]
  | succ f ih =>
    have hcond : whileCond (h2 E F) F (.var 0x70617273696e67) ⟨vars, ⟨src, cs⟩⟩ = (.ok true, ⟨vars, ⟨src, cs⟩⟩) := by
      simp only [whileCond]; pysimp [hpars]
    rw [whileLoop, hcond]
    simp only [whileBody, execB_one]
    cases src with
    | none =>
      have hd := try_dead E F vars hself cs
      generalize execS (h2 E F) F readTry ⟨vars, ⟨none, cs⟩⟩ = r at hd ⊢
      obtain ⟨out, st⟩ := r
      obtain ⟨d1, d2⟩ := hd
      simp only at d1 d2
      subst d1
      simp only [loopModel, LoopPost, d2, and_self]
    | some s =>
      have ht := try_eq E hS hC hdr2 hN F vars hself s cs
      generalize execS (h2 E F) F readTry ⟨vars, ⟨some s, cs⟩⟩ = r at ht ⊢
      obtain ⟨out, st⟩ := r
      obtain ⟨t1, t2, t3, t4⟩ := ht
      simp only at t1 t2 t3 t4
      simp only [loopModel]
      generalize step E.S (fun b => hdr2.contains b) E.cfg E.O s = m at t1 t2 t4 ⊢
      obtain ⟨o, s'⟩ := m
      simp only at t1 t2 t4 ⊢
      subst t1
      cases o with
      | eof =>
        simp only [passOut, encPass, LoopPost, List.append_nil] at t2 ⊢
        exact ⟨by trivial, t2⟩
      | skip =>
        simp only [passOut, encPass, List.append_nil, varsOK] at t2 t4 ⊢
        have := ih st.vars t3 (t4.trans hpars) s' cs
        rw [← t2] at this
        exact this
      | crash p c =>
        simp only [passOut, encPass, LoopPost, List.append_nil] at t2 ⊢
        exact ⟨by trivial, t2⟩
      | item p raw m =>
        simp only [passOut, encPass, List.append_nil, varsOK] at t2 t4 ⊢
        cases f with
        | zero => simp [whileLoop, LoopPost, raiseX]
        | succ n =>
          have hc2 : whileCond (h2 E F) F (.var 0x70617273696e67) st = (.ok false, st) := by
            simp only [whileCond]; pysimp [t4.1]
          rw [whileLoop, hc2]
          simp only [LoopPost]
          exact ⟨by trivial, t2, t4.2.1, t4.2.2⟩
      | err k =>
        simp only [varsOK] at t4
        by_cases hq0 : E.q = 0
        · simp only [passOut, hq0, ↓reduceIte, encPass, List.append_nil] at t2 ⊢
          have := ih st.vars t3 (t4.trans hpars) s' cs
          rw [← t2] at this
          exact this
        · by_cases hq2 : E.q = 2
          · simp only [passOut, hq0, hq2, ↓reduceIte, encPass, LoopPost, List.append_nil] at t2 ⊢
            exact ⟨by trivial, t2⟩
          · by_cases hq1 : E.q = 1
            · simp only [passOut, hq0, hq2, hq1, Nat.reduceEqDiff, ↓reduceIte, encPass] at t2 ⊢
              have := ih st.vars t3 (t4.trans hpars) s' (cs ++ [excOfKind E k])
              rw [← t2] at this
              exact this
            · simp only [passOut, hq0, hq2, hq1, ↓reduceIte, encPass, List.append_nil] at t2 ⊢
              have := ih st.vars t3 (t4.trans hpars) s' cs
              rw [← t2] at this
              exact this

/-- what the caller of `read()` gets -/
def ReadPost : LoopOut σ α → X (RO α) (V (RO α)) × RSt σ → Prop
  | .fuel, r => r.1 = .error (.exc xFuel 0)
  | .eofRet s' cs, r => r = (.ok (.tuple [.none, .none]), ⟨s', cs⟩)
  | .deliver raw m s' cs, r => r = (.ok (.tuple [.bytes raw, parsedV m]), ⟨s', cs⟩)
  | .raised c a s' cs, r => r = (.error (.exc c a), ⟨s', cs⟩)

/-- **`UBXReader.read()` as written is the model's loop over `step`** (any well-behaved byte source, any protocol
    parsers, any `protfilter` / `parsing` / `quitonerror`), `F` being the iteration budget of the `while` -/
theorem read_eq (E : REnv σ α) (hS : ExactReads E.S) (hC : CatchOK E) (hdr2 : List Byte)
    (hN : readGlob (α := α) 0x4e4d45415f484452 = some (.tuple (hdr2.map (fun b => V.bytes [0x24, b]))))
    (F : Nat) (src : Option σ) (cs : List (Name × Nat)) :
    ReadPost (loopModel E hdr2 F src cs) (runFn (h2 E F) F fn_UBXReader_read [.host .self] ⟨src, cs⟩) := by
  unfold runFn
  rw [read_shape]
  simp only [fn_UBXReader_read, List.zip_cons_cons, List.zip_nil_right]
  pystep
  rw [execB_cons, execS_while]
  have hl := loop_eq E hS hC hdr2 hN F F [(0x73656c66, .host .self), (0x70617273696e67, .bool true)]
    (by pysimp) (by pysimp) src cs
  generalize whileLoop _ _ F _ = r at hl ⊢
  obtain ⟨out, st⟩ := r
  cases hm : loopModel E hdr2 F src cs with
  | fuel =>
    rw [hm] at hl
    simp only [LoopPost] at hl
    subst hl
    simp [ReadPost]
  | eofRet s' cs' =>
    rw [hm] at hl
    obtain ⟨h1, h2'⟩ := hl
    simp only at h1 h2'
    subst h1
    simp [ReadPost, h2']
  | raised c a s' cs' =>
    rw [hm] at hl
    obtain ⟨h1, h2'⟩ := hl
    simp only at h1 h2'
    subst h1
    simp [ReadPost, h2']
  | deliver raw m s' cs' =>
    rw [hm] at hl
    obtain ⟨h1, h2', h3, h4⟩ := hl
    simp only at h1 h2' h3 h4
    subst h1
    pysimp [h3, h4]
    simp [ReadPost, h2']
end Ubx.Py
