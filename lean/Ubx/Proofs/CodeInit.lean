import Ubx.Proofs.CodeDoAttrs
/-!
# `UBXMessage.__init__`, as written, is the model's constructor

`init_bytes`, `init_str`, `init_int`: the fields are reset (`_immutable` through `super().__setattr__`), the mode is checked
first (`msgmode not in (GET, SET, POLL)` → UBXMessageError, before any lookup), class and id are resolved by the form they come
in — two names: `msgstr2bytes`; two ints: `msgclass2bytes`; anything else is stored as it is — then `_do_attributes(**kwargs)`
(the model's `doAttrs`, tied in `CodeDoAttrs.lean`), then `_immutable = True`. The object left behind is exactly the model's
`Msg` (`msgSt`); an exception of the resolution step is not translated (it is raised outside `_do_attributes`).
`msgstr2bytes` / `msgclass2bytes` are the model's functions here (tied in `CodeNames.lean`); mode and `parsebitfield` are taken
as an int and a bool.
-/
set_option maxRecDepth 10000
set_option linter.unusedSimpArgs false
set_option linter.unusedVariables false
namespace Ubx.Py
open Ubx Ubx.Gen.Code

/-! ### `UBXMessage.__init__` -/

inductive NO_ where
  | self
  | super
  | kwargs

/-- the object under construction -/
structure ISt where
  cls : Bytes
  id : Bytes
  modeV : Int
  bf : Bool
  payload : Option Bytes
  length : Bytes
  checksum : Bytes
  env : Env
  immutable : Bool

def inCall (ctx : Ctx) (f : Name) (args : List (V NO_)) (_kws : List (Name × V NO_)) (st : ISt) : X NO_ (V NO_) × ISt :=
  if f = 0x7375706572 then (.ok (.host .super), st)                                   -- super()
  else if f = 0x6d7367737472326279746573 then                                         -- msgstr2bytes(cls, id)
    match args with
    | [.str c, .str i] => (encR (fun (p : Bytes × Bytes) => V.tuple [.bytes p.1, .bytes p.2]) (msgstr2bytes ctx c i), st)
    | _ => (raiseX xUnsupported, st)
  else if f = 0x6d7367636c617373326279746573 then                                     -- msgclass2bytes(cls, id)
    match args with
    | [.int c, .int i] => (encR (fun (p : Bytes × Bytes) => V.tuple [.bytes p.1, .bytes p.2]) (msgclass2bytes ctx c i), st)
    | _ => (raiseX xUnsupported, st)
  else (raiseX xUnsupported, st)

def inMcall (ctx : Ctx) (kw : Kw) (obj : V NO_) (m : Name) (args : List (V NO_)) (_kws : List (Name × V NO_)) (st : ISt) :
    X NO_ (V NO_) × ISt :=
  match obj with
  | .host .super =>
    if m = 0x5f5f736574617474725f5f then              -- super().__setattr__("_immutable", False)
      match args with
      | [.str 0x5f696d6d757461626c65, .bool b] => (.ok .none, { st with immutable := b })
      | _ => (raiseX xUnsupported, st)
    else (raiseX xUnsupported, st)
  | .host .self =>
    if m = 0x5f646f5f61747472696275746573 then        -- self._do_attributes(**kwargs)
      match args with
      | [.host .kwargs] =>
        (match Mode.ofNat? st.modeV.toNat with
         | some mode =>
           (match doAttrs ctx st.cls st.id mode st.bf kw with
            | .ok r => (.ok .none, { st with payload := r.1, env := r.2.1, length := r.2.2.1, checksum := r.2.2.2 })
            | .error e => (.error (.exc (excName e) 0), st))
         | none => (raiseX xUnsupported, st))
      | _ => (raiseX xUnsupported, st)
    else (raiseX xUnsupported, st)
  | _ => (raiseX xUnsupported, st)

def inSetattr (obj : V NO_) (a : Name) (v : V NO_) (st : ISt) : X NO_ Unit × ISt :=
  match obj with
  | .host .self =>
    if a = 0x5f6d6f6465 then (match v with | .int m => (.ok (), { st with modeV := m }) | _ => (raiseX xUnsupported, st))
    else if a = 0x5f7061796c6f6164 then (match v with | .bytes b => (.ok (), { st with payload := some b }) | _ => (raiseX xUnsupported, st))
    else if a = 0x5f6c656e677468 then (match v with | .bytes b => (.ok (), { st with length := b }) | _ => (raiseX xUnsupported, st))
    else if a = 0x5f636865636b73756d then (match v with | .bytes b => (.ok (), { st with checksum := b }) | _ => (raiseX xUnsupported, st))
    else if a = 0x5f70617273656266 then (match v with | .bool b => (.ok (), { st with bf := b }) | _ => (raiseX xUnsupported, st))
    else if a = 0x5f756278436c617373 then (match v with | .bytes b => (.ok (), { st with cls := b }) | _ => (raiseX xUnsupported, st))
    else if a = 0x5f7562784944 then (match v with | .bytes b => (.ok (), { st with id := b }) | _ => (raiseX xUnsupported, st))
    else if a = 0x5f696d6d757461626c65 then (match v with | .bool b => (.ok (), { st with immutable := b }) | _ => (raiseX xUnsupported, st))
    else (raiseX xUnsupported, st)
  | _ => (raiseX xUnsupported, st)

def inHost (ctx : Ctx) (kw : Kw) : Host NO_ ISt where
  glob := fun x => globLookup Ubx.Gen.Code.globals x
  call := inCall ctx
  mcall := inMcall ctx kw
  attr := fun _ _ _ => raiseX xUnsupported
  setattr := inSetattr
  index := fun _ _ _ => raiseX xUnsupported
  contains := fun _ _ _ => raiseX xUnsupported
  truthy := fun _ => true
  eqHost := fun _ _ => false

variable (ctx : Ctx) (kw : Kw)
theorem in_call : (inHost ctx kw).call = inCall ctx := rfl
theorem in_mcall : (inHost ctx kw).mcall = inMcall ctx kw := rfl
theorem in_setattr : (inHost ctx kw).setattr = inSetattr := rfl
theorem in_glob_GET : (inHost ctx kw).glob 0x474554 = some (.int 0) := rfl
theorem in_glob_SET : (inHost ctx kw).glob 0x534554 = some (.int 1) := rfl
theorem in_glob_POLL : (inHost ctx kw).glob 0x504f4c4c = some (.int 2) := rfl

/-- the object a successful construction leaves -/
def msgSt (m : Msg) : ISt :=
  ⟨m.cls, m.id, m.mode.toNat, m.parsebf, m.payload, m.length, m.checksum, m.env, m.immutable⟩

/-- the constructor once class and id are resolved to bytes (`res`): mode check first, then the resolution's own error, then
    the attribute phase -/
def initModel (ctx : Ctx) (res : R (Bytes × Bytes)) (m : Int) (bf : Bool) (kw : Kw) : R Msg :=
  if 0 ≤ m then
    match Mode.ofNat? m.toNat with
    | none => .error .ubxMessage
    | some _ =>
      match res with
      | .error e => .error e
      | .ok p => construct ctx p.1 p.2 m.toNat bf kw
  else .error .ubxMessage

/-- `__init__` with class and id given as bytes -/
theorem init_bytes (F : Nat) (c i : Bytes) (m : Int) (bf : Bool) (st0 : ISt) :
    (match (if 0 ≤ m then construct ctx c i m.toNat bf kw else .error .ubxMessage) with
     | .ok msg => runFn (inHost ctx kw) F fn_UBXMessage___init__ [.host .self, .bytes c, .bytes i, .int m, .bool bf, .host .kwargs] st0
          = (.ok .none, msgSt msg)
     | .error e => (runFn (inHost ctx kw) F fn_UBXMessage___init__ [.host .self, .bytes c, .bytes i, .int m, .bool bf, .host .kwargs] st0).1
          = .error (.exc (excName e) 0)) := by
  simp only [runFn, fn_UBXMessage___init__, List.zip_cons_cons, List.zip_nil_right]
  pystep [in_call, inCall, in_mcall, inMcall, builtinMethod]
  pystep [in_setattr, inSetattr]
  pystep [in_setattr, inSetattr]
  pystep [in_setattr, inSetattr]
  pystep [in_setattr, inSetattr]
  pystep [in_setattr, inSetattr]
  pystep [in_glob_GET, in_glob_SET, in_glob_POLL]
  by_cases hm : m = 0 ∨ m = 1 ∨ m = 2
  · obtain ⟨mode, rfl⟩ : ∃ mode : Mode, m = (mode.toNat : Int) := by
      rcases hm with h | h | h
      · exact ⟨.get, by simp [Mode.toNat, h]⟩
      · exact ⟨.set, by simp [Mode.toNat, h]⟩
      · exact ⟨.poll, by simp [Mode.toNat, h]⟩
    have hof : Mode.ofNat? ((mode.toNat : Int)).toNat = some mode := by cases mode <;> rfl
    have hnn : (0 : Int) ≤ (mode.toNat : Int) := Int.natCast_nonneg _
    simp only [hnn, ↓reduceIte, construct_doAttrs, hof]
    cases mode
    all_goals (
      simp only [Mode.toNat] at hof ⊢
      pysimp [Int.reduceBEq, Bool.not_true, Bool.not_false, Bool.false_eq_true, Int.cast_ofNat_Int, Int.natCast_zero, Int.natCast_one]
      rw [execB_cons]
      pysimp [in_setattr, inSetattr]
      rw [execB_cons]
      pysimp [in_setattr, inSetattr]
      rw [execB_cons]
      pysimp [in_mcall, inMcall, builtinMethod, hof])
    all_goals (
      simp only [Mode.ofNat?]
      cases doAttrs ctx c i _ bf kw with
      | error e => simp
      | ok r =>
        simp only
        pysimp [in_setattr, inSetattr, msgSt, Mode.toNat])
  · have h0 : (m == 0) = false := by simp only [beq_eq_false_iff_ne, ne_eq]; omega
    have h1 : (m == 1) = false := by simp only [beq_eq_false_iff_ne, ne_eq]; omega
    have h2 : (m == 2) = false := by simp only [beq_eq_false_iff_ne, ne_eq]; omega
    have hmod : (if 0 ≤ m then construct ctx c i m.toNat bf kw else .error .ubxMessage) = .error .ubxMessage := by
      by_cases hn : 0 ≤ m
      · simp only [hn, ↓reduceIte, construct]
        have : Mode.ofNat? m.toNat = none := by
          have h3 : 3 ≤ m.toNat := by omega
          obtain ⟨k, hk⟩ : ∃ k, m.toNat = k + 3 := ⟨m.toNat - 3, by omega⟩
          rw [hk]; rfl
        rw [this]
      · simp [hn]
    rw [hmod]
    pysimp [h0, h1, h2, Bool.not_false, excName, xUBXMessageError]
/-- `__init__` with class and id given as names: `msgstr2bytes` resolves them (UBXMessageError for unknown names), after the mode check -/
theorem init_str (F : Nat) (c i : Name) (m : Int) (bf : Bool) (st0 : ISt) :
    (match initModel ctx (msgstr2bytes ctx c i) m bf kw with
     | .ok msg => runFn (inHost ctx kw) F fn_UBXMessage___init__ [.host .self, .str c, .str i, .int m, .bool bf, .host .kwargs] st0
          = (.ok .none, msgSt msg)
     | .error e => (runFn (inHost ctx kw) F fn_UBXMessage___init__ [.host .self, .str c, .str i, .int m, .bool bf, .host .kwargs] st0).1
          = .error (.exc (excName e) 0)) := by
  simp only [runFn, fn_UBXMessage___init__, List.zip_cons_cons, List.zip_nil_right, initModel]
  pystep [in_call, inCall, in_mcall, inMcall, builtinMethod]
  pystep [in_setattr, inSetattr]
  pystep [in_setattr, inSetattr]
  pystep [in_setattr, inSetattr]
  pystep [in_setattr, inSetattr]
  pystep [in_setattr, inSetattr]
  pystep [in_glob_GET, in_glob_SET, in_glob_POLL]
  by_cases hm : m = 0 ∨ m = 1 ∨ m = 2
  · obtain ⟨mode, rfl⟩ : ∃ mode : Mode, m = (mode.toNat : Int) := by
      rcases hm with h | h | h
      · exact ⟨.get, by simp [Mode.toNat, h]⟩
      · exact ⟨.set, by simp [Mode.toNat, h]⟩
      · exact ⟨.poll, by simp [Mode.toNat, h]⟩
    have hof : Mode.ofNat? ((mode.toNat : Int)).toNat = some mode := by cases mode <;> rfl
    have hnn : (0 : Int) ≤ (mode.toNat : Int) := Int.natCast_nonneg _
    simp only [hnn, ↓reduceIte, hof]
    cases mode
    all_goals (
      simp only [Mode.toNat] at hof ⊢
      pysimp [Int.reduceBEq, Bool.not_true, Bool.not_false, Bool.false_eq_true, Int.cast_ofNat_Int, Int.natCast_zero, Int.natCast_one]
      rw [execB_cons]
      pysimp [in_call, inCall]
      rw [execB_cons]
      cases hres : msgstr2bytes ctx c i with
      | error e =>
        pysimp [in_call, inCall, hres, encR]
      | ok p =>
        simp only [Mode.ofNat?]
        pysimp [in_call, inCall, hres, encR, bindT, in_setattr, inSetattr, in_mcall, inMcall, builtinMethod, hof]
        try (rw [execB_cons]; pysimp [in_call, inCall, hres, encR, bindT, in_setattr, inSetattr, in_mcall, inMcall, builtinMethod, hof])
        try (rw [execB_cons]; pysimp [in_call, inCall, hres, encR, bindT, in_setattr, inSetattr, in_mcall, inMcall, builtinMethod, hof])
        try (rw [execB_cons]; pysimp [in_call, inCall, hres, encR, bindT, in_setattr, inSetattr, in_mcall, inMcall, builtinMethod, hof])
        simp only [Mode.ofNat?, construct_doAttrs]
        cases doAttrs ctx p.1 p.2 _ bf kw with
        | error e => simp
        | ok r =>
          simp only
          pysimp [in_setattr, inSetattr, msgSt, Mode.toNat])
  · have h0 : (m == 0) = false := by simp only [beq_eq_false_iff_ne, ne_eq]; omega
    have h1 : (m == 1) = false := by simp only [beq_eq_false_iff_ne, ne_eq]; omega
    have h2 : (m == 2) = false := by simp only [beq_eq_false_iff_ne, ne_eq]; omega
    have hmod : (if 0 ≤ m then (match Mode.ofNat? m.toNat with
          | none => (.error .ubxMessage : R Msg)
          | some _ => match msgstr2bytes ctx c i with | .error e => .error e | .ok p => construct ctx p.1 p.2 m.toNat bf kw) else .error .ubxMessage)
        = (.error .ubxMessage : R Msg) := by
      by_cases hn : 0 ≤ m
      · simp only [hn, ↓reduceIte]
        have : Mode.ofNat? m.toNat = none := by
          have h3 : 3 ≤ m.toNat := by omega
          obtain ⟨k, hk⟩ : ∃ k, m.toNat = k + 3 := ⟨m.toNat - 3, by omega⟩
          rw [hk]; rfl
        rw [this]
      · simp [hn]
    rw [hmod]
    pysimp [h0, h1, h2, Bool.not_false, excName, xUBXMessageError]
/-- `__init__` with class and id given as ints: `msgclass2bytes` (its OverflowError is *not* turned into UBXTypeError: it is raised outside `_do_attributes`) -/
theorem init_int (F : Nat) (c i : Int) (m : Int) (bf : Bool) (st0 : ISt) :
    (match initModel ctx (msgclass2bytes ctx c i) m bf kw with
     | .ok msg => runFn (inHost ctx kw) F fn_UBXMessage___init__ [.host .self, .int c, .int i, .int m, .bool bf, .host .kwargs] st0
          = (.ok .none, msgSt msg)
     | .error e => (runFn (inHost ctx kw) F fn_UBXMessage___init__ [.host .self, .int c, .int i, .int m, .bool bf, .host .kwargs] st0).1
          = .error (.exc (excName e) 0)) := by
  simp only [runFn, fn_UBXMessage___init__, List.zip_cons_cons, List.zip_nil_right, initModel]
  pystep [in_call, inCall, in_mcall, inMcall, builtinMethod]
  pystep [in_setattr, inSetattr]
  pystep [in_setattr, inSetattr]
  pystep [in_setattr, inSetattr]
  pystep [in_setattr, inSetattr]
  pystep [in_setattr, inSetattr]
  pystep [in_glob_GET, in_glob_SET, in_glob_POLL]
  by_cases hm : m = 0 ∨ m = 1 ∨ m = 2
  · obtain ⟨mode, rfl⟩ : ∃ mode : Mode, m = (mode.toNat : Int) := by
      rcases hm with h | h | h
      · exact ⟨.get, by simp [Mode.toNat, h]⟩
      · exact ⟨.set, by simp [Mode.toNat, h]⟩
      · exact ⟨.poll, by simp [Mode.toNat, h]⟩
    have hof : Mode.ofNat? ((mode.toNat : Int)).toNat = some mode := by cases mode <;> rfl
    have hnn : (0 : Int) ≤ (mode.toNat : Int) := Int.natCast_nonneg _
    simp only [hnn, ↓reduceIte, hof]
    cases mode
    all_goals (
      simp only [Mode.toNat] at hof ⊢
      pysimp [Int.reduceBEq, Bool.not_true, Bool.not_false, Bool.false_eq_true, Int.cast_ofNat_Int, Int.natCast_zero, Int.natCast_one]
      rw [execB_cons]
      pysimp [in_call, inCall]
      rw [execB_cons]
      cases hres : msgclass2bytes ctx c i with
      | error e =>
        pysimp [in_call, inCall, hres, encR]
      | ok p =>
        simp only [Mode.ofNat?]
        pysimp [in_call, inCall, hres, encR, bindT, in_setattr, inSetattr, in_mcall, inMcall, builtinMethod, hof]
        try (rw [execB_cons]; pysimp [in_call, inCall, hres, encR, bindT, in_setattr, inSetattr, in_mcall, inMcall, builtinMethod, hof])
        try (rw [execB_cons]; pysimp [in_call, inCall, hres, encR, bindT, in_setattr, inSetattr, in_mcall, inMcall, builtinMethod, hof])
        try (rw [execB_cons]; pysimp [in_call, inCall, hres, encR, bindT, in_setattr, inSetattr, in_mcall, inMcall, builtinMethod, hof])
        simp only [Mode.ofNat?, construct_doAttrs]
        cases doAttrs ctx p.1 p.2 _ bf kw with
        | error e => simp
        | ok r =>
          simp only
          pysimp [in_setattr, inSetattr, msgSt, Mode.toNat])
  · have h0 : (m == 0) = false := by simp only [beq_eq_false_iff_ne, ne_eq]; omega
    have h1 : (m == 1) = false := by simp only [beq_eq_false_iff_ne, ne_eq]; omega
    have h2 : (m == 2) = false := by simp only [beq_eq_false_iff_ne, ne_eq]; omega
    have hmod : (if 0 ≤ m then (match Mode.ofNat? m.toNat with
          | none => (.error .ubxMessage : R Msg)
          | some _ => match msgclass2bytes ctx c i with | .error e => .error e | .ok p => construct ctx p.1 p.2 m.toNat bf kw) else .error .ubxMessage)
        = (.error .ubxMessage : R Msg) := by
      by_cases hn : 0 ≤ m
      · simp only [hn, ↓reduceIte]
        have : Mode.ofNat? m.toNat = none := by
          have h3 : 3 ≤ m.toNat := by omega
          obtain ⟨k, hk⟩ : ∃ k, m.toNat = k + 3 := ⟨m.toNat - 3, by omega⟩
          rw [hk]; rfl
        rw [this]
      · simp [hn]
    rw [hmod]
    pysimp [h0, h1, h2, Bool.not_false, excName, xUBXMessageError]
/-! ### `__setattr__` / `__delattr__`: the immutability guard -/

/-- what the guard methods see of an object: the flag, and the writes / deletions that reach `object` -/
structure GSt where
  immutable : Bool
  writes : List (V NO_ × V NO_)
  dels : List (V NO_)

def guardHost : Host NO_ GSt where
  glob := fun _ => none
  call := fun f _ _ st => if f = 0x7375706572 then (.ok (.host .super), st) else (raiseX xUnsupported, st)
  mcall := fun obj m args _ st =>
    match obj with
    | .host .super =>
      if m = 0x5f5f736574617474725f5f then
        match args with
        | [n, v] => (.ok .none, { st with writes := st.writes ++ [(n, v)] })
        | _ => (raiseX xUnsupported, st)
      else if m = 0x5f5f64656c617474725f5f then
        match args with
        | [n] => (.ok .none, { st with dels := st.dels ++ [n] })
        | _ => (raiseX xUnsupported, st)
      else (raiseX xUnsupported, st)
    | _ => (raiseX xUnsupported, st)
  attr := fun obj a st =>
    match obj with
    | .host .self => if a = 0x5f696d6d757461626c65 then .ok (.bool st.immutable) else raiseX xUnsupported
    | _ => raiseX xUnsupported
  setattr := fun _ _ _ st => (raiseX xUnsupported, st)
  index := fun _ _ _ => raiseX xUnsupported
  contains := fun _ _ _ => raiseX xUnsupported
  truthy := fun _ => true
  eqHost := fun _ _ => false

/-- `__setattr__` as written: an immutable object refuses with UBXMessageError and nothing reaches `object.__setattr__`;
    a mutable one passes the write on unchanged -/
theorem setattr_eq (F : Nat) (n v : V NO_) (st : GSt) :
    runFn guardHost F fn_UBXMessage___setattr__ [.host .self, n, v] st
      = (if st.immutable then (.error (.exc xUBXMessageError 0), st) else (.ok .none, { st with writes := st.writes ++ [(n, v)] })) := by
  simp only [runFn, fn_UBXMessage___setattr__, List.zip_cons_cons, List.zip_nil_right]
  cases h : st.immutable <;> (rw [execB_cons]; pysimp [guardHost, h, builtinMethod, Bool.false_eq_true])

/-- `__delattr__` as written: likewise -/
theorem delattr_eq (F : Nat) (n : V NO_) (st : GSt) :
    runFn guardHost F fn_UBXMessage___delattr__ [.host .self, n] st
      = (if st.immutable then (.error (.exc xUBXMessageError 0), st) else (.ok .none, { st with dels := st.dels ++ [n] })) := by
  simp only [runFn, fn_UBXMessage___delattr__, List.zip_cons_cons, List.zip_nil_right]
  cases h : st.immutable <;> (rw [execB_cons]; pysimp [guardHost, h, builtinMethod, Bool.false_eq_true])


end Ubx.Py
