import Ubx.Proofs.CodeStreams
/-!
# `SocketWrapper`, as written in the working tree, is the model's `sockSrc`

`recv_cons` / `recv_nil`: `_recv()` appends a delivered chunk to the buffer and reports success, and reports failure
when `recv()` returns `b""` (orderly close) or raises `TimeoutError` / `OSError`. `sock_read_eq`: `read(num)` — the
`while len(self._buffer) < num` top-up loop, by induction on the recv schedule — returns exactly the next `num` bytes
or nothing (everything received stays buffered); `sock_read_classify`: what `_read_bytes` makes of that is the model's
`sockRead`. `sock_readline_eq` / `sock_line_classify`: `readline()` — `read(1)` until LF — and the model's `sockLine`.
Hypotheses: chunks handed out by `recv()` are non-empty (socket API) and the interpreter's iteration budget exceeds
the number of chunks / bytes still to come. With `C10_sock_eq_file` (Props/C10) this ties "chunking does not matter"
to the code of the wrapper itself.
-/
set_option maxRecDepth 10000
set_option linter.unusedSimpArgs false
namespace Ubx.Py
open Ubx Ubx.Gen.Code

inductive SO where
  | self
  | socket
deriving Repr

/-- `recv()` on the underlying socket: the next chunk; after the last one, `b""` (peer closed) or TimeoutError -/
def s1Mcall (closes : Bool) (obj : V SO) (m : Name) (args : List (V SO)) (_kw : List (Name × V SO)) (st : Sock) :
    X SO (V SO) × Sock :=
  match obj with
  | .host .socket =>
    if m = 0x72656376 then
      match args with
      | [.int i] =>
        -- the request must be `self._bufsize` (the token 4096 below): the recv schedule `chunks` is what successive
        -- `recv(bufsize)` calls return; a request of any other size is outside what the model describes
        if i == 4096 then
          (match st.chunks with
           | c :: cs => (.ok (.bytes c), { st with chunks := cs })
           | [] => if closes then (.ok (.bytes []), st) else (.error (.exc 0x54696d656f75744572726f72 0), st))
        else (raiseX xUnsupported, st)
      | _ => (raiseX xUnsupported, st)
    else (raiseX xUnsupported, st)
  | _ => (raiseX xUnsupported, st)

def s1Attr (obj : V SO) (a : Name) (st : Sock) : X SO (V SO) :=
  match obj with
  | .host .self =>
    if a = 0x5f736f636b6574 then .ok (.host .socket)          -- _socket
    else if a = 0x5f62756673697a65 then .ok (.int 4096)       -- _bufsize
    else if a = 0x5f627566666572 then .ok (.bytes st.buf)     -- _buffer
    else raiseX xUnsupported
  | _ => raiseX xUnsupported

def s1Setattr (obj : V SO) (a : Name) (v : V SO) (st : Sock) : X SO Unit × Sock :=
  match obj, v with
  | .host .self, .bytes b => if a = 0x5f627566666572 then (.ok (), { st with buf := b }) else (raiseX xUnsupported, st)
  | _, _ => (raiseX xUnsupported, st)

def sockH1 (closes : Bool) : Host SO Sock where
  glob := fun _ => none
  call := fun _ _ _ st => (raiseX xUnsupported, st)
  mcall := s1Mcall closes
  attr := s1Attr
  setattr := s1Setattr
  index := fun _ _ _ => raiseX xUnsupported
  contains := fun _ _ _ => raiseX xUnsupported
  truthy := fun _ => true
  eqHost := fun _ _ => false

theorem s1_mcall (c : Bool) : (sockH1 c).mcall = s1Mcall c := rfl
theorem s1_attr (c : Bool) : (sockH1 c).attr = s1Attr := rfl
theorem s1_setattr (c : Bool) : (sockH1 c).setattr = s1Setattr := rfl
theorem sa_socket (st : Sock) : s1Attr (.host .self) 0x5f736f636b6574 st = .ok (.host .socket) := rfl
theorem sa_bufsize (st : Sock) : s1Attr (.host .self) 0x5f62756673697a65 st = .ok (.int 4096) := rfl
theorem sa_buffer (st : Sock) : s1Attr (.host .self) 0x5f627566666572 st = .ok (.bytes st.buf) := rfl
theorem ss_buffer (b : Bytes) (st : Sock) : s1Setattr (.host .self) 0x5f627566666572 (.bytes b) st = (.ok (), { st with buf := b }) := rfl
theorem sm_recv_cons (cl : Bool) (buf c : Bytes) (cs : List Bytes) (kw : List (Name × V SO)) :
    s1Mcall cl (.host .socket) 0x72656376 [.int 4096] kw ⟨buf, c :: cs⟩ = (.ok (.bytes c), ⟨buf, cs⟩) := rfl
theorem sm_recv_nil (cl : Bool) (buf : Bytes) (kw : List (Name × V SO)) :
    s1Mcall cl (.host .socket) 0x72656376 [.int 4096] kw ⟨buf, []⟩
      = (if cl then (.ok (.bytes []), ⟨buf, []⟩) else (.error (.exc 0x54696d656f75744572726f72 0), ⟨buf, []⟩)) := rfl

macro "sp" "[" ls:Lean.Parser.Tactic.simpLemma,* "]" : tactic => `(tactic| pystep [s1_mcall, s1_attr, s1_setattr, sa_socket, sa_bufsize, sa_buffer,
  ss_buffer, sm_recv_cons, sm_recv_nil, Bool.beq_eq_decide_eq, decide_true, decide_false, decide_eq_false, decide_eq_true, Int.reduceLT,
  Int.reduceEq, Nat.reduceEqDiff, Bool.false_eq_true, Bool.or_false, Bool.false_or, Bool.or_true, Bool.true_or, List.contains_cons, List.contains_nil, excCls, List.length_nil, Int.natCast_zero, $ls,*])
macro "sp" : tactic => `(tactic| sp [])

/-- **`SocketWrapper._recv` as written**: a delivered chunk is appended to the buffer -/
theorem recv_cons (cl : Bool) (fuel : Nat) (buf c : Bytes) (cs : List Bytes) (hc : c ≠ []) :
    runFn (sockH1 cl) fuel fn_SocketWrapper__recv [.host .self] ⟨buf, c :: cs⟩
      = (.ok (.bool true), ⟨buf ++ c, cs⟩) := by
  unfold runFn fn_SocketWrapper__recv
  rw [execB_cons, execS_try]
  have hl : ¬ (((c.length : Nat) : Int) = 0) := by
    have : c.length ≠ 0 := fun h => hc (List.length_eq_zero_iff.mp h)
    omega
  sp [hl]
  sp [hl]

/-- … and when nothing more arrives (`b""` after an orderly close, or TimeoutError/OSError) it reports failure -/
theorem recv_nil (cl : Bool) (fuel : Nat) (buf : Bytes) :
    runFn (sockH1 cl) fuel fn_SocketWrapper__recv [.host .self] ⟨buf, []⟩ = (.ok (.bool false), ⟨buf, []⟩) := by
  unfold runFn fn_SocketWrapper__recv
  rw [execB_cons, execS_try]
  cases cl
  · sp
  · sp
    sp

/-! ### `SocketWrapper.read` -/

def s2Mcall (cl : Bool) (F : Nat) (obj : V SO) (m : Name) (args : List (V SO)) (kw : List (Name × V SO)) (st : Sock) :
    X SO (V SO) × Sock :=
  if m = 0x5f72656376 then                       -- self._recv()
    match obj, args with
    | .host .self, [] => runFn (sockH1 cl) F fn_SocketWrapper__recv [.host .self] st
    | _, _ => (raiseX xUnsupported, st)
  else s1Mcall cl obj m args kw st

def sockH2 (cl : Bool) (F : Nat) : Host SO Sock := { sockH1 cl with mcall := s2Mcall cl F }

theorem s2_mcall (c : Bool) (F : Nat) : (sockH2 c F).mcall = s2Mcall c F := rfl
theorem s2_attr (c : Bool) (F : Nat) : (sockH2 c F).attr = s1Attr := rfl
theorem s2_setattr (c : Bool) (F : Nat) : (sockH2 c F).setattr = s1Setattr := rfl
theorem s2_truthy (c : Bool) (F : Nat) (o : SO) : (sockH2 c F).truthy o = true := rfl
theorem s2m_recv (cl : Bool) (F : Nat) (st : Sock) (kw : List (Name × V SO)) :
    s2Mcall cl F (.host .self) 0x5f72656376 [] kw st = runFn (sockH1 cl) F fn_SocketWrapper__recv [.host .self] st := rfl

def readVars (n : Nat) : List (Name × V SO) := [(0x73656c66, .host .self), (0x6e756d, .int (n : Int))]

abbrev rdCond : E := .cmp .lt (.call 0x6c656e [(.attr (.var 0x73656c66) 0x5f627566666572)] [] []) (.var 0x6e756d)
abbrev rdBody : List S := [(.if_ (.not_ (.mcall (.var 0x73656c66) 0x5f72656376 [] [] [])) [(.ret (.bytes []))] [])]

theorem rd_condT (cl : Bool) (F n : Nat) (buf : Bytes) (chunks : List Bytes) (h : buf.length < n) :
    whileCond (sockH2 cl F) F rdCond ⟨readVars n, ⟨buf, chunks⟩⟩ = (.ok true, ⟨readVars n, ⟨buf, chunks⟩⟩) := by
  have hc : ((buf.length : Int) < (n : Int)) := by omega
  simp only [whileCond, readVars]; pysimp [s2_attr, sa_buffer, hc, decide_eq_true]

theorem rd_condF (cl : Bool) (F n : Nat) (buf : Bytes) (chunks : List Bytes) (h : n ≤ buf.length) :
    whileCond (sockH2 cl F) F rdCond ⟨readVars n, ⟨buf, chunks⟩⟩ = (.ok false, ⟨readVars n, ⟨buf, chunks⟩⟩) := by
  have hc : ¬ ((buf.length : Int) < (n : Int)) := by omega
  simp only [whileCond, readVars]; pysimp [s2_attr, sa_buffer, hc, decide_eq_false]

theorem rd_bodyNil (cl : Bool) (F n : Nat) (buf : Bytes) :
    whileBody (sockH2 cl F) F rdBody ⟨readVars n, ⟨buf, []⟩⟩ = (.ok (.ret (.bytes [])), ⟨readVars n, ⟨buf, []⟩⟩) := by
  simp only [whileBody, readVars]
  pysimp [s2_mcall, s2m_recv, recv_nil, s2_truthy]

theorem rd_bodyCons (cl : Bool) (F n : Nat) (buf c : Bytes) (cs : List Bytes) (hc : c ≠ []) :
    whileBody (sockH2 cl F) F rdBody ⟨readVars n, ⟨buf, c :: cs⟩⟩ = (.ok .next, ⟨readVars n, ⟨buf ++ c, cs⟩⟩) := by
  simp only [whileBody, readVars]
  pysimp [s2_mcall, s2m_recv, recv_cons cl F buf c cs hc, s2_truthy]

/-- the top-up loop of `read(num)`: receive until the buffer holds `num` bytes or nothing more arrives -/
theorem topup_loop (cl : Bool) (F : Nat) (n : Nat) (chunks : List Bytes) :
    ∀ (buf : Bytes) (f : Nat), chunks.length < f → (∀ c ∈ chunks, c ≠ []) →
    whileLoop (whileCond (sockH2 cl F) F rdCond) (whileBody (sockH2 cl F) F rdBody) f ⟨readVars n, ⟨buf, chunks⟩⟩
      = (match topUp n buf chunks with
         | none => (.ok (.ret (.bytes [])), ⟨readVars n, ⟨buf ++ chunks.flatten, []⟩⟩)
         | some st' => (.ok .next, ⟨readVars n, st'⟩)) := by
  induction chunks with
  | nil =>
    intro buf f hf _
    obtain ⟨g, rfl⟩ : ∃ g, f = g + 1 := ⟨f - 1, by simp at hf; omega⟩
    rw [whileLoop]
    by_cases hle : n ≤ buf.length
    · rw [rd_condF cl F n buf [] hle]
      simp [topUp, hle]
    · rw [rd_condT cl F n buf [] (by omega)]
      dsimp only
      rw [rd_bodyNil]
      simp [topUp, hle]
  | cons c cs ih =>
    intro buf f hf hne
    obtain ⟨g, rfl⟩ : ∃ g, f = g + 1 := ⟨f - 1, by simp at hf; omega⟩
    rw [whileLoop]
    by_cases hle : n ≤ buf.length
    · rw [rd_condF cl F n buf (c :: cs) hle]
      simp [topUp, hle]
    · have hc : c ≠ [] := hne c (List.mem_cons_self ..)
      rw [rd_condT cl F n buf (c :: cs) (by omega)]
      dsimp only
      rw [rd_bodyCons cl F n buf c cs hc]
      dsimp only
      rw [ih (buf ++ c) g (by simp at hf; omega) (fun x hx => hne x (List.mem_cons_of_mem _ hx))]
      simp [topUp, hle, List.append_assoc]

theorem slice_zero (b : Bytes) (n : Nat) : slice b 0 n = b.take n := by simp [slice]
theorem slice_to_end (b : Bytes) (n : Nat) : slice b n b.length = b.drop n := by
  unfold slice
  rw [List.take_of_length_le (by rw [List.length_drop]; omega)]

/-- what `SocketWrapper.read(n)` returns and leaves behind: nothing (everything received stays buffered), or exactly
    the next `n` bytes — the model's `topUp` decides which -/
def rawSockRead (n : Nat) (st : Sock) : Bytes × Sock :=
  match topUp n st.buf st.chunks with
  | none => ([], ⟨st.buf ++ st.chunks.flatten, []⟩)
  | some st' => (st'.buf.take n, ⟨st'.buf.drop n, st'.chunks⟩)

/-- **`SocketWrapper.read` as written** (any recv schedule of non-empty chunks, either way of ending) -/
theorem sock_read_eq (cl : Bool) (F : Nat) (n : Nat) (st : Sock) (hF : st.chunks.length < F)
    (hne : ∀ c ∈ st.chunks, c ≠ []) :
    runFn (sockH2 cl F) F fn_SocketWrapper_read [.host .self, .int (n : Int)] st
      = (.ok (.bytes (rawSockRead n st).1), (rawSockRead n st).2) := by
  obtain ⟨buf, chunks⟩ := st
  unfold runFn fn_SocketWrapper_read
  simp only [List.zip_cons_cons, List.zip_nil_right]
  rw [execB_cons, execS_while]
  have hl := topup_loop cl F n chunks buf F hF hne
  simp only [rdCond, rdBody, readVars] at hl
  rw [hl]
  simp only [rawSockRead]
  cases topUp n buf chunks with
  | none => rfl
  | some st' =>
    dsimp only
    pystep [s2_attr, sa_buffer, Int.natCast_nonneg, Int.toNat_natCast, pySlice_nonneg]
    pystep [s2_attr, s2_setattr, sa_buffer, ss_buffer, Int.natCast_nonneg, Int.toNat_natCast, pySlice_nonneg, slice_zero, slice_to_end]

/-- what `_read_bytes` makes of a `SocketWrapper` is the model's `sockRead` -/
theorem sock_read_classify (n : Nat) (st : Sock) :
    (match sockRead n st with
     | .eof => classifyRead n (rawSockRead n st).1 = .error (.exc xEOFError 0)
     | .short => False
     | .ok d st'' => classifyRead n (rawSockRead n st).1 = .ok (.bytes d) ∧ (rawSockRead n st).2 = st'') := by
  unfold sockRead rawSockRead classifyRead
  cases hh : topUp n st.buf st.chunks with
  | none =>
    have := topUp_none hh
    have hn : 0 < n := by omega
    simp [hn]
  | some st' =>
    obtain ⟨_, hn⟩ := topUp_some hh
    by_cases h0 : n = 0
    · subst h0; simp
    · have hl : (st'.buf.take n).length = n := by rw [List.length_take]; omega
      simp [h0, hl]

theorem exactReads_sock : ExactReads sockSrc := by
  intro n s d s' h
  rcases sockRead_len n s with h1 | ⟨d', st', h1, hl⟩
  · simp only [sockSrc] at h; rw [h1] at h; cases h
  · simp only [sockSrc] at h; rw [h1] at h; cases h; exact hl

/-! ### `SocketWrapper.readline` -/

def s3Mcall (cl : Bool) (F : Nat) (obj : V SO) (m : Name) (args : List (V SO)) (kw : List (Name × V SO)) (st : Sock) :
    X SO (V SO) × Sock :=
  if m = 0x72656164 then                          -- self.read(n)
    match obj, args with
    | .host .self, [.int n] =>
      if 0 ≤ n then runFn (sockH2 cl F) F fn_SocketWrapper_read [.host .self, .int n] st else (raiseX xUnsupported, st)
    | _, _ => s2Mcall cl F obj m args kw st
  else s2Mcall cl F obj m args kw st

def sockH3 (cl : Bool) (F : Nat) : Host SO Sock := { sockH1 cl with mcall := s3Mcall cl F }
theorem s3_mcall (c : Bool) (F : Nat) : (sockH3 c F).mcall = s3Mcall c F := rfl
theorem s3_truthy (c : Bool) (F : Nat) (o : SO) : (sockH3 c F).truthy o = true := rfl
theorem s3m_read1 (cl : Bool) (F : Nat) (st : Sock) (kw : List (Name × V SO)) :
    s3Mcall cl F (.host .self) 0x72656164 [.int 1] kw st
      = runFn (sockH2 cl F) F fn_SocketWrapper_read [.host .self, .int 1] st := by
  simp [s3Mcall]

theorem topUp_suffix {n : Nat} {buf : Bytes} {chunks : List Bytes} {st' : Sock}
    (h : topUp n buf chunks = some st') : st'.chunks <:+ chunks := by
  induction chunks generalizing buf with
  | nil =>
    simp only [topUp] at h
    split at h
    · cases h; exact List.suffix_refl _
    · cases h
  | cons c cs ih =>
    simp only [topUp] at h
    split at h
    · cases h; exact List.suffix_refl _
    · exact List.suffix_cons_iff.mpr (Or.inr (ih h))

theorem rawSockRead_chunks (n : Nat) (st : Sock) : (rawSockRead n st).2.chunks <:+ st.chunks := by
  unfold rawSockRead
  cases h : topUp n st.buf st.chunks with
  | none => simp
  | some st' => simpa using topUp_suffix h

theorem rawSockRead_one (st : Sock) : (rawSockRead 1 st).1 = [] ∨ ∃ b, (rawSockRead 1 st).1 = [b] := by
  unfold rawSockRead
  cases h : topUp 1 st.buf st.chunks with
  | none => left; rfl
  | some st' =>
    right
    obtain ⟨_, hn⟩ := topUp_some h
    match hb : st'.buf, hn with
    | b :: rest, _ => exact ⟨b, by simp [hb]⟩

theorem rawSockRead_one_all (st : Sock) (b : Byte) (hb : (rawSockRead 1 st).1 = [b]) :
    (rawSockRead 1 st).2.all.length + 1 = st.all.length := by
  unfold rawSockRead at hb ⊢
  cases h : topUp 1 st.buf st.chunks with
  | none => rw [h] at hb; simp at hb
  | some st' =>
    obtain ⟨hall, hn⟩ := topUp_some h
    simp only [Sock.all] at hall ⊢
    have : (st'.buf ++ st'.chunks.flatten).length = (st.buf ++ st.chunks.flatten).length := by rw [hall]
    simp only [List.length_append, List.length_drop] at this ⊢
    omega

theorem drop_last_snoc (acc : Bytes) (b : Byte) : (acc ++ [b]).drop ((acc ++ [b]).length - 1) = [b] := by
  simp

/-- `readline()`: `read(1)` until LF or until nothing comes -/
def rawSockLine : Nat → Sock → Bytes → Bytes × Sock
  | 0, st, acc => (acc, st)
  | k+1, st, acc =>
    match rawSockRead 1 st with
    | ([b], st') => if b = 0x0a then (acc ++ [b], st') else rawSockLine k st' (acc ++ [b])
    | (_, st') => (acc, st')

abbrev rlBody : List S :=
  [(.assign 0x64617461 (.mcall (.var 0x73656c66) 0x72656164 [(.int (1))] [] [])),
   (.if_ (.cmp .eq (.call 0x6c656e [(.var 0x64617461)] [] []) (.int (1)))
      [(.aug 0x6c696e65 .add (.var 0x64617461)),
       (.if_ (.cmp .eq (.slice (.var 0x6c696e65) (.neg (.int (1))) .none) (.bytes [0xa])) [.break_] [])]
      [.break_])]

def LinePost (res : Bytes × Sock) (r : X SO (Flow SO) × St SO Sock) : Prop :=
  r.1 = .ok .next ∧ r.2.h = res.2 ∧ getVar r.2.vars 0x6c696e65 = some (.bytes res.1)

theorem readline_loop (cl : Bool) (F : Nat) :
    ∀ (k : Nat) (st : Sock) (acc : Bytes) (vars : List (Name × V SO)) (f : Nat),
      k < f → st.all.length < k → st.chunks.length < F → (∀ c ∈ st.chunks, c ≠ []) →
      getVar vars 0x73656c66 = some (.host .self) → getVar vars 0x6c696e65 = some (.bytes acc) →
      LinePost (rawSockLine k st acc)
        (whileLoop (whileCond (sockH3 cl F) F .tt) (whileBody (sockH3 cl F) F rlBody) f ⟨vars, st⟩) := by
  intro k
  induction k with
  | zero => intro st acc vars f _ hk; omega
  | succ k ih =>
    intro st acc vars f hf hk hF hne hself hline
    obtain ⟨g, rfl⟩ : ∃ g, f = g + 1 := ⟨f - 1, by omega⟩
    rw [whileLoop]
    have hcond : whileCond (sockH3 cl F) F .tt ⟨vars, st⟩ = (.ok true, ⟨vars, st⟩) := by
      simp only [whileCond]; pysimp
    rw [hcond]
    dsimp only
    have hrd : runFn (sockH2 cl F) F fn_SocketWrapper_read [.host .self, .int 1] st
        = (.ok (.bytes (rawSockRead 1 st).1), (rawSockRead 1 st).2) := sock_read_eq cl F 1 st hF hne
    simp only [whileBody, rlBody]
    pystep [hself, s3_mcall, s3m_read1, hrd]
    have hsuf := rawSockRead_chunks 1 st
    have hF' : (rawSockRead 1 st).2.chunks.length < F := Nat.lt_of_le_of_lt hsuf.length_le hF
    have hne' : ∀ c ∈ (rawSockRead 1 st).2.chunks, c ≠ [] := fun c hc => hne c (hsuf.subset hc)
    rcases rawSockRead_one st with h0 | ⟨b, hb⟩
    · -- nothing came: leave the loop with what was collected
      have hres : rawSockLine (k + 1) st acc = (acc, (rawSockRead 1 st).2) := by
        simp only [rawSockLine]
        generalize rawSockRead 1 st = r at h0 ⊢
        obtain ⟨d, st'⟩ := r
        simp only at h0; subst h0; rfl
      rw [hres, h0]
      pysimp [List.length_nil, Int.natCast_zero, Int.reduceBEq]
      refine ⟨rfl, rfl, ?_⟩
      simp only
      rw [getVar_setVar_ne _ _ _ _ (by decide)]; exact hline
    · rw [hb]
      have hvs : getVar (setVar vars 1684108385 (V.bytes [b])) 0x6c696e65 = some (.bytes acc) := by
        rw [getVar_setVar_ne _ _ _ _ (by decide)]; exact hline
      by_cases hlf : b = 0x0a
      · have hres : rawSockLine (k + 1) st acc = (acc ++ [b], (rawSockRead 1 st).2) := by
          simp only [rawSockLine]
          generalize rawSockRead 1 st = r at hb ⊢
          obtain ⟨d, st'⟩ := r
          simp only at hb; subst hb; simp [hlf]
        rw [hres]
        pysimp [List.length_cons, List.length_nil, Nat.zero_add, Int.natCast_one, Int.reduceBEq]
        pystep [hvs]
        pysimp [Int.reduceNeg, pySlice_last, drop_last_snoc, hlf, Bool.beq_eq_decide_eq, decide_true]
        exact ⟨rfl, rfl, by simp only; rw [getVar_setVar_same]⟩
      · have hres : rawSockLine (k + 1) st acc = rawSockLine k (rawSockRead 1 st).2 (acc ++ [b]) := by
          simp only [rawSockLine]
          generalize rawSockRead 1 st = r at hb ⊢
          obtain ⟨d, st'⟩ := r
          simp only at hb; subst hb; simp [hlf]
        rw [hres]
        pysimp [List.length_cons, List.length_nil, Nat.zero_add, Int.natCast_one, Int.reduceBEq]
        pystep [hvs]
        pysimp [Int.reduceNeg, pySlice_last, drop_last_snoc, hlf, Bool.beq_eq_decide_eq, decide_false, List.cons.injEq, and_true,
          decide_eq_false]
        have hlen := rawSockRead_one_all st b hb
        refine ih (rawSockRead 1 st).2 (acc ++ [b]) _ g (by omega) (by omega) hF' hne' ?_ ?_
        · rw [getVar_setVar_ne _ _ _ _ (by decide), getVar_setVar_ne _ _ _ _ (by decide)]; exact hself
        · rw [getVar_setVar_same]

/-- **`SocketWrapper.readline` as written**: the bytes up to and including the next LF, or whatever came before the
    source dried up -/
theorem sock_readline_eq (cl : Bool) (F : Nat) (st : Sock) (hF : st.chunks.length < F) (hF2 : st.all.length + 1 < F)
    (hne : ∀ c ∈ st.chunks, c ≠ []) :
    runFn (sockH3 cl F) F fn_SocketWrapper_readline [.host .self] st
      = (.ok (.bytes (rawSockLine (st.all.length + 1) st []).1), (rawSockLine (st.all.length + 1) st []).2) := by
  unfold runFn fn_SocketWrapper_readline
  simp only [List.zip_cons_cons, List.zip_nil_right]
  pystep
  rw [execB_cons, execS_while]
  have hl := readline_loop cl F (st.all.length + 1) st [] [(0x73656c66, .host .self), (0x6c696e65, .bytes [])] F
    hF2 (by omega) hF hne (by pysimp) (by pysimp)
  simp only [rlBody] at hl
  generalize whileLoop _ _ F _ = r at hl ⊢
  obtain ⟨out, st'⟩ := r
  obtain ⟨h1, h2, h3⟩ := hl
  simp only at h1 h2 h3
  subst h1
  pysimp [h3]
  rw [h2]

theorem rawSockRead_sockRead1 (st : Sock) :
    (sockRead 1 st = .eof ∧ (rawSockRead 1 st).1 = []) ∨
    (∃ b, sockRead 1 st = .ok [b] (rawSockRead 1 st).2 ∧ (rawSockRead 1 st).1 = [b]) := by
  unfold sockRead rawSockRead
  cases h : topUp 1 st.buf st.chunks with
  | none => left; exact ⟨rfl, rfl⟩
  | some st' =>
    right
    obtain ⟨_, hn⟩ := topUp_some h
    match hb : st'.buf, hn with
    | b :: rest, _ => exact ⟨b, by simp [hb], by simp [hb]⟩

/-- what `_read_line` makes of a `SocketWrapper` is the model's `sockLine` -/
theorem sock_line_classify (k : Nat) : ∀ (st : Sock) (acc : Bytes), st.all.length < k →
    acc.drop (acc.length - 1) ≠ [0x0a] →
    (match sockLineAux k st acc with
     | .eof => classifyLine (rawSockLine k st acc).1 = .error (.exc xEOFError 0)
     | .short => classifyLine (rawSockLine k st acc).1 = .error (.exc xUBXStreamError 0)
     | .ok d st'' => classifyLine (rawSockLine k st acc).1 = .ok (.bytes d) ∧ (rawSockLine k st acc).2 = st'') := by
  induction k with
  | zero => intro st acc hk; omega
  | succ k ih =>
    intro st acc hk hacc
    rcases rawSockRead_sockRead1 st with ⟨h1, h2⟩ | ⟨b, h1, h2⟩
    · -- nothing came
      have hres : rawSockLine (k + 1) st acc = (acc, (rawSockRead 1 st).2) := by
        simp only [rawSockLine]
        generalize rawSockRead 1 st = r at h2 ⊢
        obtain ⟨d, st'⟩ := r
        simp only at h2; subst h2; rfl
      simp only [sockLineAux, h1, hres]
      by_cases he : acc = []
      · subst he; simp [classifyLine]
      · have hl : ¬ (acc.length = 0) := fun h0 => he (List.length_eq_zero_iff.mp h0)
        have : acc.isEmpty = false := by simpa using he
        simp only [this, Bool.false_eq_true, if_false, classifyLine, hl, ne_eq, hacc, not_false_eq_true, if_true]
    · have hlen := rawSockRead_one_all st b h2
      by_cases hlf : b = 0x0a
      · have hres : rawSockLine (k + 1) st acc = (acc ++ [b], (rawSockRead 1 st).2) := by
          simp only [rawSockLine]
          generalize rawSockRead 1 st = r at h2 ⊢
          obtain ⟨d, st'⟩ := r
          simp only at h2; subst h2; simp [hlf]
        subst hlf
        simp only [sockLineAux, h1, hres, if_true]
        have hl : ¬ ((acc ++ [10]).length = 0) := by simp
        simp only [classifyLine, hl, if_false, ne_eq, drop_last_snoc, not_true_eq_false, and_self]
      · have hres : rawSockLine (k + 1) st acc = rawSockLine k (rawSockRead 1 st).2 (acc ++ [b]) := by
          simp only [rawSockLine]
          generalize rawSockRead 1 st = r at h2 ⊢
          obtain ⟨d, st'⟩ := r
          simp only at h2; subst h2; simp [hlf]
        have hne1 : ¬ ([b] = [(10 : Byte)]) := by simpa using hlf
        simp only [sockLineAux, h1, hres, hne1, if_false]
        exact ih (rawSockRead 1 st).2 (acc ++ [b]) (by omega) (by rw [drop_last_snoc]; simpa using hlf)
end Ubx.Py
