import Ubx.Proofs.CodeHelpers
import Ubx.Model.Message
import Ubx.Model.PyStrHosts
set_option maxRecDepth 10000
set_option linter.unusedSimpArgs false
set_option linter.unusedVariables false
namespace Ubx.Py
open Ubx Ubx.Gen.Code

/-! ### `UBXMessage.__str__`: whether it raises -/

variable (c : StrCfg)
theorem t_call : (strHost c).call = tCall c := rfl
theorem t_attr : (strHost c).attr = tAttr c := rfl
theorem t_index : (strHost c).index = tIndex c := rfl
theorem t_eq : (strHost c).eqHost = tEq c := rfl

def strBody : List S := fn_UBXMessage___str__.body
def strLoopS : S := strBody.getD 6 .pass
def strLoopBody : List S := match strLoopS with | .for_ _ _ b => b | _ => []
example : strLoopBody ≠ [] := by decide


theorem t_key (j : Nat) (n : AName) (v : PyVal) (hj : c.env[j]? = some (n, v)) (s : Name) :
    tEq c (.key j) (.str s) = (n.idx.isEmpty && n.base == s) := by
  unfold tEq; split <;> simp_all
theorem t_pre6 (j : Nat) (n : AName) (v : PyVal) (hj : c.env[j]? = some (n, v)) (s : Name) :
    tEq c (.pre6 j) (.str s) = (nameTake n.base 6 == s) := by
  unfold tEq; split <;> simp_all
theorem t_ch0 (j : Nat) (s : Name) : tEq c (.ch0 j) (.str s) = false := by
  unfold tEq; split <;> simp_all
theorem t_dict (j : Nat) (n : AName) (v : PyVal) (hj : c.env[j]? = some (n, v)) :
    tIndex c .dict (.host (.key j)) () = .ok (V.ofPy v) := by
  simp only [tIndex, hj]

theorem t_globU1 : (strHost c).glob 0x5531 = some (.str 0x55303031) := rfl
theorem t_ident : tEq c .ident (.str 0x4d4f4e2d564552) = c.monver := rfl
theorem t_last7 : tEq c .last7 (.str 0x4e4f4d494e414c) = c.nominal := rfl

theorem t_idx0 (j : Nat) : tIndex c (.key j) (.int 0) () = .ok (.host (.ch0 j)) := rfl
theorem t_idx6 (j : Nat) : tIndex c (.key j) (.tuple [.int 0, .int 6]) () = .ok (.host (.pre6 j)) := rfl

theorem setVar_idem {ω : Type} (vs : List (Name × V ω)) (x : Name) (a b : V ω) : setVar (setVar vs x a) x b = setVar vs x b := by
  induction vs with
  | nil => simp [setVar]
  | cons p ps ih =>
    obtain ⟨n, w⟩ := p
    by_cases h : n = x
    · simp [setVar, h]
    · simp [setVar, h, ih]

def strInner : List S := match strLoopBody.getD 1 .pass with | .if_ _ b _ => b | _ => []
def sS (k : Nat) : S := strInner.getD k .pass
example : strInner.length = 7 := by decide

def isBytesV : PyVal → Bool | .bytes _ => true | _ => false

/-- the facts about the locals every statement of the loop body relies on -/
structure Frame (c : StrCfg) (j : Nat) (X : List (Name × V StO)) (i : Int) : Prop where
  att : getVar X 0x617474 = some (.host (.key j))
  self : getVar X 0x73656c66 = some (.host .self)
  stg : getVar X 0x737467 = some .ostr
  i : getVar X 0x69 = some (.int i)

/-- statement 1: bytes are escaped (unless the attribute is `datumName` or the message MON-VER) -/
theorem st_escape (F : Nat) (i : Int) (j : Nat) (n : AName) (v : PyVal) (hj : c.env[j]? = some (n, v))
    (X : List (Name × V StO)) (hX : Frame c j X i) :
    execS (strHost c) F (sS 1) ⟨setVar X 0x76616c (V.ofPy v), ()⟩
      = (.ok .next, ⟨setVar X 0x76616c (if isBytesV v && !(n.idx.isEmpty && n.base == 0x646174756d4e616d65) && !c.monver
            then .ostr else V.ofPy v), ()⟩) := by
  have ha := hX.att
  have hs := hX.self
  simp only [sS, strInner, strLoopBody, strLoopS, strBody, fn_UBXMessage___str__, List.getD_cons_succ, List.getD_cons_zero]
  generalize hD : (n.idx.isEmpty && n.base == 0x646174756d4e616d65) = bD
  have hk := t_key c j n v hj 0x646174756d4e616d65
  rw [hD] at hk
  cases hm : c.monver <;> cases bD <;> cases v <;>
    pysimp [ha, hs, t_call, tCall, t_attr, tAttr, t_eq, hk, hm, isBytesV, V.ofPy, setVar_idem, t_ident, Bool.not_true, Bool.not_false, Bool.false_eq_true, Bool.and_true, Bool.true_and, Bool.false_and, Bool.and_false]

/-- one step of the model's `strLoop` -/
def strStep (ack : Bool) (n : AName) (v : PyVal) (cs : Bool) : Except Exc Bool :=
  if n.idx.isEmpty && n.base = N.aITOW then
    (match itowExc v with | some e => .error e | none => .ok cs)
  else if ack && n.idx.isEmpty && (n.base = N.aClsID || n.base = N.aMsgClass) then
    (match u1Exc v with | some e => .error e | none => .ok true)
  else if ack && n.idx.isEmpty && n.base = N.aMsgID && cs then
    (match u1Exc v with | some e => .error e | none => .ok cs)
  else .ok cs

theorem strLoop_cons (ack : Bool) (n : AName) (v : PyVal) (rest : Env) (cs : Bool) :
    strLoop ack ((n, v) :: rest) cs = (match strStep ack n v cs with | .error e => some e | .ok cs' => strLoop ack rest cs') := by
  rw [strLoop]
  simp only [strStep, u1Exc]
  by_cases h1 : (n.idx.isEmpty && decide (n.base = N.aITOW)) = true
  · simp only [h1, ↓reduceIte]; cases itowExc v <;> rfl
  · simp only [h1, ↓reduceIte, Bool.false_eq_true]
    by_cases h2 : (ack && n.idx.isEmpty && (decide (n.base = N.aClsID) || decide (n.base = N.aMsgClass))) = true
    · simp only [h2, ↓reduceIte]
      cases v.asInt? with
      | none => rfl
      | some i => dsimp only; generalize (if 0 ≤ i ∧ i < 256 then none else some Exc.overflowE) = r; cases r <;> rfl
    · simp only [h2, ↓reduceIte, Bool.false_eq_true]
      by_cases h3 : (ack && n.idx.isEmpty && decide (n.base = N.aMsgID) && cs) = true
      · simp only [h3, ↓reduceIte]
        cases v.asInt? with
        | none => rfl
        | some i => dsimp only; generalize (if 0 ≤ i ∧ i < 256 then none else some Exc.overflowE) = r; cases r <;> rfl
      · simp only [h3, ↓reduceIte, Bool.false_eq_true]

def ackOf : Bool := c.cls == [0x05] || (c.cls == [0x06] && c.id == [0x01])

/-- what the loop needs of the local variables: `self`, the text so far, and `clsid` — `None` until a class byte was converted -/
def StrInv (vars : List (Name × V StO)) (cs : Bool) : Prop :=
  getVar vars 0x73656c66 = some (.host .self) ∧ getVar vars 0x737467 = some .ostr ∧
  (if cs then ∃ b, getVar vars 0x636c736964 = some (.bytes [b]) else getVar vars 0x636c736964 = some .none)

def itemVars (vars : List (Name × V StO)) (i : Int) (k : V StO) : List (Name × V StO) :=
  setVar (setVar (setVar vars 0x5f5f6974656d5f5f (.tuple [.int i, k])) 0x69 (.int i)) 0x617474 k

theorem inv_item (vars : List (Name × V StO)) (i : Int) (k : V StO) (cs : Bool) (h : StrInv vars cs) : StrInv (itemVars vars i k) cs := by
  unfold StrInv itemVars at *
  cases cs <;> pysimp [h.1, h.2.1] <;> simpa using h.2.2

theorem str_priv (F : Nat) (i : Int) (k : Nat) (vars : List (Name × V StO)) :
    forBody (strHost c) F 0x5f5f6974656d5f5f strLoopBody (.tuple [.int i, .host (.priv k)]) ⟨vars, ()⟩
      = (.ok .next, ⟨itemVars vars i (.host (.priv k)), ()⟩) := by
  simp only [forBody, strLoopBody, strLoopS, strBody, fn_UBXMessage___str__, List.getD_cons_succ, List.getD_cons_zero, itemVars]
  rw [execB_cons]
  pysimp [bindT, t_index, tIndex, beq_self_eq_true, Bool.not_true]

theorem tToPy_ofPy (v : PyVal) : tToPy (V.ofPy v : V StO) = some v := by cases v <;> rfl

/-- statement 2: a `gnssId…` attribute is shown by name -/
theorem st_gnss (F : Nat) (i : Int) (j : Nat) (n : AName) (v : PyVal) (hj : c.env[j]? = some (n, v))
    (X : List (Name × V StO)) (hX : Frame c j X i) (x : V StO) :
    execS (strHost c) F (sS 2) ⟨setVar X 0x76616c x, ()⟩
      = (.ok .next, ⟨setVar X 0x76616c (if nameTake n.base 6 == 0x676e73734964 then .ostr else x), ()⟩) := by
  have ha := hX.att
  simp only [sS, strInner, strLoopBody, strLoopS, strBody, fn_UBXMessage___str__, List.getD_cons_succ, List.getD_cons_zero]
  have hk := t_pre6 c j n v hj 0x676e73734964
  cases hG : (nameTake n.base 6 == 0x676e73734964) <;> rw [hG] at hk <;>
    pysimp [ha, t_call, tCall, t_eq, hk, t_index, t_idx6, setVar_idem, Bool.false_eq_true]

/-- statement 3: `iTOW` is shown as a time of day — `itow2utc` is where `__str__` can fail -/
theorem st_itow_no (F : Nat) (i : Int) (j : Nat) (n : AName) (v : PyVal) (hj : c.env[j]? = some (n, v))
    (X : List (Name × V StO)) (hX : Frame c j X i) (x : V StO) (hI : (n.idx.isEmpty && n.base == 0x69544f57) = false) :
    execS (strHost c) F (sS 3) ⟨setVar X 0x76616c x, ()⟩ = (.ok .next, ⟨setVar X 0x76616c x, ()⟩) := by
  have ha := hX.att
  simp only [sS, strInner, strLoopBody, strLoopS, strBody, fn_UBXMessage___str__, List.getD_cons_succ, List.getD_cons_zero]
  have hk := t_key c j n v hj 0x69544f57
  rw [hI] at hk
  pysimp [ha, t_eq, hk, Bool.false_eq_true]

theorem st_itow_yes (F : Nat) (i : Int) (j : Nat) (n : AName) (v : PyVal) (hj : c.env[j]? = some (n, v))
    (X : List (Name × V StO)) (hX : Frame c j X i) (x : V StO) (hI : (n.idx.isEmpty && n.base == 0x69544f57) = true)
    (hx : x = V.ofPy v ∨ (x = .ostr ∧ isBytesV v = true)) :
    (match itowExc v with
     | none => execS (strHost c) F (sS 3) ⟨setVar X 0x76616c x, ()⟩ = (.ok .next, ⟨setVar X 0x76616c .ostr, ()⟩)
     | some e => (execS (strHost c) F (sS 3) ⟨setVar X 0x76616c x, ()⟩).1 = .error (.exc (excName e) 0)) := by
  have ha := hX.att
  simp only [sS, strInner, strLoopBody, strLoopS, strBody, fn_UBXMessage___str__, List.getD_cons_succ, List.getD_cons_zero]
  have hk := t_key c j n v hj 0x69544f57
  rw [hI] at hk
  rcases hx with hx | ⟨hx, hb⟩
  · subst hx
    cases hi : itowExc v <;> pysimp [ha, t_eq, hk, t_call, tCall, tToPy_ofPy, hi, setVar_idem]
  · subst hx
    cases v <;> simp only [isBytesV, Bool.false_eq_true] at hb
    pysimp [ha, t_eq, hk, t_call, tCall, tToPy, itowExc, setVar_idem, excName]

/-! statement 4: for an ACK-* or CFG-MSG message, `clsID` / `msgClass` and then `msgID` are shown by name (`val2bytes(val, U1)`) -/

theorem ack_cond (F : Nat) (W : List (Name × V StO)) (hs : getVar W 0x73656c66 = some (.host .self)) :
    evalCond (strHost c) F ((E.cmp CmpOp.eq ((E.var 1936026726).attr 1760899142283539084147) (E.bytes [5])).or_
              ((E.cmp CmpOp.eq ((E.var 1936026726).attr 1760899142283539084147) (E.bytes [6])).and_
                (E.cmp CmpOp.eq ((E.var 1936026726).attr 104957767862596) (E.bytes [1])))) ⟨W, ()⟩ = (.ok (ackOf c), ⟨W, ()⟩) := by
  unfold ackOf
  cases h5 : (c.cls == [0x05]) <;> cases h6 : (c.cls == [0x06]) <;> cases h1 : (c.id == [0x01]) <;>
    pysimp [hs, t_attr, tAttr, h5, h6, h1, Bool.false_eq_true, Bool.or_false, Bool.false_or, Bool.and_true, Bool.true_and, Bool.and_false,
      Bool.false_and, Bool.or_true, Bool.true_or]

def sAck : List S := match sS 4 with | .if_ _ b _ => b | _ => []
theorem sS4_eq : sS 4 = .if_ ((E.cmp CmpOp.eq ((E.var 1936026726).attr 1760899142283539084147) (E.bytes [5])).or_
              ((E.cmp CmpOp.eq ((E.var 1936026726).attr 1760899142283539084147) (E.bytes [6])).and_
                (E.cmp CmpOp.eq ((E.var 1936026726).attr 104957767862596) (E.bytes [1])))) sAck [] := rfl

theorem st_ack (F : Nat) (W : List (Name × V StO)) (hs : getVar W 0x73656c66 = some (.host .self)) :
    execS (strHost c) F (sS 4) ⟨W, ()⟩ = (if ackOf c then execB (strHost c) F sAck ⟨W, ()⟩ else (.ok .next, ⟨W, ()⟩)) := by
  rw [sS4_eq, execS_if, ack_cond c F W hs]
  cases ackOf c <;> simp [execB]

/-- neither `clsID` / `msgClass`, nor `msgID` after a class byte: nothing happens -/
theorem ack_other (F : Nat) (j : Nat) (n : AName) (v : PyVal) (hj : c.env[j]? = some (n, v)) (W : List (Name × V StO))
    (ha : getVar W 0x617474 = some (.host (.key j))) (cs : Bool)
    (hcl : if cs then ∃ b, getVar W 0x636c736964 = some (.bytes [b]) else getVar W 0x636c736964 = some .none)
    (hC : (n.idx.isEmpty && n.base == 0x636c734944) = false) (hM : (n.idx.isEmpty && n.base == 0x6d7367436c617373) = false)
    (hD : ((n.idx.isEmpty && n.base == 0x6d73674944) && cs) = false) :
    execB (strHost c) F sAck ⟨W, ()⟩ = (.ok .next, ⟨W, ()⟩) := by
  simp only [sAck, sS, strInner, strLoopBody, strLoopS, strBody, fn_UBXMessage___str__, List.getD_cons_succ, List.getD_cons_zero]
  have k1 := t_key c j n v hj 0x636c734944
  have k2 := t_key c j n v hj 0x6d7367436c617373
  have k3 := t_key c j n v hj 0x6d73674944
  rw [hC] at k1; rw [hM] at k2
  rw [execB_cons]
  pysimp [ha, t_eq, k1, k2, Bool.false_eq_true, Bool.or_false]
  cases cs with
  | false =>
    simp only [Bool.false_eq_true, ↓reduceIte] at hcl
    cases hk : (n.idx.isEmpty && n.base == 0x6d73674944) <;> rw [hk] at k3 <;> pysimp [ha, t_eq, k3, hcl, Bool.false_eq_true]
  | true =>
    simp only [Bool.and_true] at hD
    rw [hD] at k3
    pysimp [ha, t_eq, k3, Bool.false_eq_true]
/-- `clsID` / `msgClass`: the class byte is converted (this is where a value outside 0…255 fails) and remembered -/
theorem ack_cls (F : Nat) (j : Nat) (n : AName) (v : PyVal) (hj : c.env[j]? = some (n, v)) (W : List (Name × V StO))
    (ha : getVar W 0x617474 = some (.host (.key j))) (x : V StO) (hv : getVar W 0x76616c = some x)
    (hx : x = V.ofPy v ∨ (x = .ostr ∧ isBytesV v = true))
    (hCM : (n.idx.isEmpty && n.base == 0x636c734944) = true ∨ (n.idx.isEmpty && n.base == 0x6d7367436c617373) = true) :
    (match u1Exc v with
     | none => ∃ b, execB (strHost c) F sAck ⟨W, ()⟩ = (.ok .next, ⟨setVar (setVar W 0x636c736964 (.bytes [b])) 0x76616c .ostr, ()⟩)
     | some e => (execB (strHost c) F sAck ⟨W, ()⟩).1 = .error (.exc (excName e) 0)) := by
  simp only [sAck, sS, strInner, strLoopBody, strLoopS, strBody, fn_UBXMessage___str__, List.getD_cons_succ, List.getD_cons_zero]
  have k1 := t_key c j n v hj 0x636c734944
  have k2 := t_key c j n v hj 0x6d7367436c617373
  have k3 := t_key c j n v hj 0x6d73674944
  have h3 : (n.idx.isEmpty && n.base == 0x6d73674944) = false := by
    rcases hCM with h | h <;> simp only [Bool.and_eq_true, beq_iff_eq] at h <;> simp [h.2]
  rw [h3] at k3
  have hor : (tEq c (.key j) (.str 0x636c734944) || tEq c (.key j) (.str 0x6d7367436c617373)) = true := by
    rw [k1, k2]; rcases hCM with h | h <;> simp [h]
  rw [execB_cons]
  rcases hx with hx | ⟨hx, hb⟩
  · subst hx
    cases hu : u1Exc v with
    | none =>
      refine ⟨(v.asInt?.getD 0).toNat.toUInt8, ?_⟩
      cases h1 : tEq c (.key j) (.str 0x636c734944) <;> cases h2 : tEq c (.key j) (.str 0x6d7367436c617373) <;>
        simp only [h1, h2, Bool.or_self, Bool.false_eq_true] at hor <;>
        (pysimp [ha, hv, t_eq, h1, h2, Bool.false_eq_true, Bool.or_false, Bool.or_true, Bool.true_or, Bool.false_or]
         rw [execB_cons]
         pysimp [ha, hv, t_eq, k3, t_call, tCall, tToPy_ofPy, hu, t_globU1, Bool.false_eq_true])
    | some e =>
      cases h1 : tEq c (.key j) (.str 0x636c734944) <;> cases h2 : tEq c (.key j) (.str 0x6d7367436c617373) <;>
        simp only [h1, h2, Bool.or_self, Bool.false_eq_true] at hor <;>
        (pysimp [ha, hv, t_eq, h1, h2, Bool.false_eq_true, Bool.or_false, Bool.or_true, Bool.true_or, Bool.false_or]
         rw [execB_cons]
         pysimp [ha, hv, t_eq, k3, t_call, tCall, tToPy_ofPy, hu, t_globU1, Bool.false_eq_true])
  · subst hx
    cases v <;> simp only [isBytesV, Bool.false_eq_true] at hb
    cases h1 : tEq c (.key j) (.str 0x636c734944) <;> cases h2 : tEq c (.key j) (.str 0x6d7367436c617373) <;>
      simp only [h1, h2, Bool.or_self, Bool.false_eq_true] at hor <;>
      (pysimp [ha, hv, t_eq, h1, h2, Bool.false_eq_true, Bool.or_false, Bool.or_true, Bool.true_or, Bool.false_or]
       rw [execB_cons]
       pysimp [ha, hv, t_eq, k3, t_call, tCall, tToPy, u1Exc, PyVal.asInt?, excName, t_globU1, Bool.false_eq_true])
/-- `msgID` once a class byte is known: converted the same way -/
theorem ack_mid (F : Nat) (j : Nat) (n : AName) (v : PyVal) (hj : c.env[j]? = some (n, v)) (W : List (Name × V StO))
    (ha : getVar W 0x617474 = some (.host (.key j))) (x : V StO) (hv : getVar W 0x76616c = some x)
    (hx : x = V.ofPy v ∨ (x = .ostr ∧ isBytesV v = true)) (b : Byte) (hcl : getVar W 0x636c736964 = some (.bytes [b]))
    (hD : (n.idx.isEmpty && n.base == 0x6d73674944) = true) :
    (match u1Exc v with
     | none => ∃ b', execB (strHost c) F sAck ⟨W, ()⟩ = (.ok .next, ⟨setVar (setVar W 0x6d73676964 (.bytes [b'])) 0x76616c .ostr, ()⟩)
     | some e => (execB (strHost c) F sAck ⟨W, ()⟩).1 = .error (.exc (excName e) 0)) := by
  simp only [sAck, sS, strInner, strLoopBody, strLoopS, strBody, fn_UBXMessage___str__, List.getD_cons_succ, List.getD_cons_zero]
  have k1 := t_key c j n v hj 0x636c734944
  have k2 := t_key c j n v hj 0x6d7367436c617373
  have k3 := t_key c j n v hj 0x6d73674944
  have hb := hD
  simp only [Bool.and_eq_true, beq_iff_eq] at hb
  have h1 : (n.idx.isEmpty && n.base == 0x636c734944) = false := by simp [hb.2]
  have h2 : (n.idx.isEmpty && n.base == 0x6d7367436c617373) = false := by simp [hb.2]
  rw [h1] at k1; rw [h2] at k2; rw [hD] at k3
  rw [execB_cons]
  pysimp [ha, t_eq, k1, k2, Bool.false_eq_true, Bool.or_false]
  rcases hx with hx | ⟨hx, hbv⟩
  · subst hx
    cases hu : u1Exc v with
    | none =>
      refine ⟨(v.asInt?.getD 0).toNat.toUInt8, ?_⟩
      pysimp [ha, hv, hcl, t_eq, k3, List.isEmpty_cons, Bool.not_false]
      rw [execB_cons]
      pysimp [ha, hv, hcl, t_call, tCall, tToPy_ofPy, hu, t_globU1, List.cons_append, List.nil_append]
    | some e =>
      pysimp [ha, hv, hcl, t_eq, k3, List.isEmpty_cons, Bool.not_false]
      rw [execB_cons]
      pysimp [ha, hv, hcl, t_call, tCall, tToPy_ofPy, hu, t_globU1]
  · subst hx
    cases v <;> simp only [isBytesV, Bool.false_eq_true] at hbv
    pysimp [ha, hv, hcl, t_eq, k3, List.isEmpty_cons, Bool.not_false]
    rw [execB_cons]
    pysimp [ha, hv, hcl, t_call, tCall, tToPy, u1Exc, PyVal.asInt?, excName, t_globU1]

/-- statements 5 and 6: the text grows (its content is not inspected) -/
theorem st_text (F : Nat) (i : Int) (j : Nat) (W : List (Name × V StO)) (hW : Frame c j W i) (x : V StO) (hv : getVar W 0x76616c = some x) :
    ∃ W', execB (strHost c) F [sS 5, sS 6] ⟨W, ()⟩ = (.ok .next, ⟨W', ()⟩) ∧ (W' = setVar W 0x737467 .ostr) := by
  have ha := hW.att
  have hs := hW.self
  have hg := hW.stg
  have hi := hW.i
  simp only [sS, strInner, strLoopBody, strLoopS, strBody, fn_UBXMessage___str__, List.getD_cons_succ, List.getD_cons_zero]
  rw [execB_cons]
  pysimp [ha, hs, hg, hv, t_call, tCall]
  by_cases hlt : i < ((c.npriv + c.env.length : Nat) : Int) - 1
  · refine ⟨_, ?_, rfl⟩
    pysimp [hi, hs, t_attr, tAttr, t_call, tCall, hlt, decide_true, setVar_idem]
  · refine ⟨_, ?_, rfl⟩
    pysimp [hi, hs, t_attr, tAttr, t_call, tCall, hlt, decide_false, Bool.false_eq_true]
/-- the class / id part of `strStep` -/
def ackStep (ack : Bool) (n : AName) (v : PyVal) (cs : Bool) : Except Exc Bool :=
  if ack && ((n.idx.isEmpty && n.base == 0x636c734944) || (n.idx.isEmpty && n.base == 0x6d7367436c617373)) then
    (match u1Exc v with | some e => .error e | none => .ok true)
  else if ack && ((n.idx.isEmpty && n.base == 0x6d73674944) && cs) then
    (match u1Exc v with | some e => .error e | none => .ok cs)
  else .ok cs

def ClsFact (W : List (Name × V StO)) (cs : Bool) : Prop :=
  if cs then ∃ b, getVar W 0x636c736964 = some (.bytes [b]) else getVar W 0x636c736964 = some .none

theorem inv_of (j : Nat) (i : Int) (W : List (Name × V StO)) (cs : Bool) (hW : Frame c j W i) (hc : ClsFact W cs) : StrInv W cs :=
  ⟨hW.self, hW.stg, hc⟩

theorem frame_set (j : Nat) (i : Int) (W : List (Name × V StO)) (hW : Frame c j W i) (k : Name) (x : V StO)
    (h1 : k ≠ 0x617474) (h2 : k ≠ 0x73656c66) (h3 : k ≠ 0x737467) (h4 : k ≠ 0x69) : Frame c j (setVar W k x) i :=
  ⟨by rw [getVar_setVar_ne _ _ _ _ h1]; exact hW.att, by rw [getVar_setVar_ne _ _ _ _ h2]; exact hW.self,
   by rw [getVar_setVar_ne _ _ _ _ h3]; exact hW.stg, by rw [getVar_setVar_ne _ _ _ _ h4]; exact hW.i⟩

theorem cls_set (W : List (Name × V StO)) (cs : Bool) (hc : ClsFact W cs) (k : Name) (x : V StO) (h : k ≠ 0x636c736964) :
    ClsFact (setVar W k x) cs := by
  unfold ClsFact at *
  cases cs <;> simp only [Bool.false_eq_true, ↓reduceIte] at hc ⊢
  · rw [getVar_setVar_ne _ _ _ _ h]; exact hc
  · obtain ⟨b, hb⟩ := hc; exact ⟨b, by rw [getVar_setVar_ne _ _ _ _ h]; exact hb⟩

/-- statements 4–6 from any state the first three leave -/
theorem str_tail (F : Nat) (i : Int) (j : Nat) (n : AName) (v : PyVal) (hj : c.env[j]? = some (n, v))
    (W : List (Name × V StO)) (hW : Frame c j W i) (x : V StO) (hv : getVar W 0x76616c = some x) (cs : Bool) (hcl : ClsFact W cs)
    (hx : ((n.idx.isEmpty && n.base == 0x636c734944) || (n.idx.isEmpty && n.base == 0x6d7367436c617373)
            || (n.idx.isEmpty && n.base == 0x6d73674944)) = true → (x = V.ofPy v ∨ (x = .ostr ∧ isBytesV v = true))) :
    (match ackStep (ackOf c) n v cs with
     | .error e => (execB (strHost c) F [sS 4, sS 5, sS 6] ⟨W, ()⟩).1 = .error (.exc (excName e) 0)
     | .ok cs' => ∃ W', execB (strHost c) F [sS 4, sS 5, sS 6] ⟨W, ()⟩ = (.ok .next, ⟨W', ()⟩) ∧ StrInv W' cs') := by
  rw [execB_cons, st_ack c F W hW.self]
  unfold ackStep
  cases hack : ackOf c with
  | false =>
    simp only [Bool.false_and, Bool.false_eq_true, ↓reduceIte]
    obtain ⟨W', h1, h2⟩ := st_text c F i j W hW x hv
    refine ⟨W', h1, ?_⟩
    subst h2
    exact ⟨by rw [getVar_setVar_ne _ _ _ _ (by decide)]; exact hW.self, getVar_setVar_same _ _ _, cls_set W cs hcl _ _ (by decide)⟩
  | true =>
    simp only [Bool.true_and, ↓reduceIte]
    by_cases hCM : ((n.idx.isEmpty && n.base == 0x636c734944) || (n.idx.isEmpty && n.base == 0x6d7367436c617373)) = true
    · simp only [hCM, ↓reduceIte]
      have hx' := hx (by simp only [hCM, Bool.true_or])
      have hor : (n.idx.isEmpty && n.base == 0x636c734944) = true ∨ (n.idx.isEmpty && n.base == 0x6d7367436c617373) = true := by
        simpa only [Bool.or_eq_true] using hCM
      have h := ack_cls c F j n v hj W hW.att x hv hx' hor
      cases hu : u1Exc v with
      | some e =>
        rw [hu] at h
        simp only at h ⊢
        cases hr : execB (strHost c) F sAck ⟨W, ()⟩ with
        | mk r st' => rw [hr] at h; simp only at h; subst h; rfl
      | none =>
        rw [hu] at h
        obtain ⟨b, hb⟩ := h
        simp only [hb]
        have hW1 : Frame c j (setVar (setVar W 0x636c736964 (.bytes [b])) 0x76616c .ostr) i :=
          frame_set c j i _ (frame_set c j i W hW _ _ (by decide) (by decide) (by decide) (by decide)) _ _ (by decide) (by decide) (by decide) (by decide)
        obtain ⟨W', h1, h2⟩ := st_text c F i j _ hW1 .ostr (getVar_setVar_same _ _ _)
        refine ⟨W', h1, ?_⟩
        subst h2
        refine ⟨by rw [getVar_setVar_ne _ _ _ _ (by decide)]; exact hW1.self, getVar_setVar_same _ _ _, ?_⟩
        refine ⟨b, ?_⟩
        rw [getVar_setVar_ne _ _ _ _ (by decide), getVar_setVar_ne _ _ _ _ (by decide)]
        exact getVar_setVar_same _ _ _
    · have hCM' : ((n.idx.isEmpty && n.base == 0x636c734944) || (n.idx.isEmpty && n.base == 0x6d7367436c617373)) = false := by
        simpa using hCM
      simp only [hCM', Bool.false_eq_true, ↓reduceIte]
      have hC : (n.idx.isEmpty && n.base == 0x636c734944) = false := by
        cases h : (n.idx.isEmpty && n.base == 0x636c734944) <;> simp_all
      have hM : (n.idx.isEmpty && n.base == 0x6d7367436c617373) = false := by
        cases h : (n.idx.isEmpty && n.base == 0x6d7367436c617373) <;> simp_all
      by_cases hD : ((n.idx.isEmpty && n.base == 0x6d73674944) && cs) = true
      · simp only [hD, ↓reduceIte]
        have hD1 : (n.idx.isEmpty && n.base == 0x6d73674944) = true := by
          cases h : (n.idx.isEmpty && n.base == 0x6d73674944) <;> simp_all
        have hcs : cs = true := by cases cs <;> simp_all
        subst hcs
        have hx' := hx (by simp only [hD1, Bool.or_true])
        obtain ⟨b0, hb0⟩ : ∃ b, getVar W 0x636c736964 = some (.bytes [b]) := by simpa [ClsFact] using hcl
        have h := ack_mid c F j n v hj W hW.att x hv hx' b0 hb0 hD1
        cases hu : u1Exc v with
        | some e =>
          rw [hu] at h
          simp only at h ⊢
          cases hr : execB (strHost c) F sAck ⟨W, ()⟩ with
          | mk r st' => rw [hr] at h; simp only at h; subst h; rfl
        | none =>
          rw [hu] at h
          obtain ⟨b, hb⟩ := h
          simp only [hb]
          have hW1 : Frame c j (setVar (setVar W 0x6d73676964 (.bytes [b])) 0x76616c .ostr) i :=
            frame_set c j i _ (frame_set c j i W hW _ _ (by decide) (by decide) (by decide) (by decide)) _ _ (by decide) (by decide) (by decide) (by decide)
          obtain ⟨W', h1, h2⟩ := st_text c F i j _ hW1 .ostr (getVar_setVar_same _ _ _)
          refine ⟨W', h1, ?_⟩
          subst h2
          refine ⟨by rw [getVar_setVar_ne _ _ _ _ (by decide)]; exact hW1.self, getVar_setVar_same _ _ _, ?_⟩
          refine ⟨b0, ?_⟩
          rw [getVar_setVar_ne _ _ _ _ (by decide), getVar_setVar_ne _ _ _ _ (by decide), getVar_setVar_ne _ _ _ _ (by decide)]
          exact hb0
      · have hD' : ((n.idx.isEmpty && n.base == 0x6d73674944) && cs) = false := by simpa using hD
        simp only [hD', Bool.false_eq_true, ↓reduceIte]
        rw [ack_other c F j n v hj W hW.att cs hcl hC hM hD']
        obtain ⟨W', h1, h2⟩ := st_text c F i j W hW x hv
        refine ⟨W', h1, ?_⟩
        subst h2
        exact ⟨by rw [getVar_setVar_ne _ _ _ _ (by decide)]; exact hW.self, getVar_setVar_same _ _ _, cls_set W cs hcl _ _ (by decide)⟩
theorem strStep_eq (ack : Bool) (n : AName) (v : PyVal) (cs : Bool) :
    strStep ack n v cs = (if (n.idx.isEmpty && n.base == 0x69544f57) then (match itowExc v with | some e => .error e | none => .ok cs)
      else ackStep ack n v cs) := by
  unfold strStep ackStep
  simp only [N.aITOW, N.aClsID, N.aMsgClass, N.aMsgID]
  by_cases h1 : n.base = 0x69544f57 <;> by_cases h2 : n.base = 0x636c734944 <;> by_cases h3 : n.base = 0x6d7367436c617373 <;>
    by_cases h4 : n.base = 0x6d73674944 <;> cases ack <;> cases hE : n.idx.isEmpty <;> cases cs <;> simp [h1, h2, h3, h4] <;> omega

theorem strLoopBody_eq : strLoopBody = [.assignT [0x69, 0x617474] (.var 0x5f5f6974656d5f5f),
    .if_ (.cmp .ne (.index (.var 0x617474) (.int 0)) (.str 0x5f)) strInner []] := rfl
theorem strInner_eq : strInner = [sS 0, sS 1, sS 2, sS 3, sS 4, sS 5, sS 6] := rfl
theorem sS0_eq : sS 0 = .assign 0x76616c (.index (.attr (.var 0x73656c66) 0x5f5f646963745f5f) (.var 0x617474)) := rfl

theorem frame_item (i : Int) (j : Nat) (vars : List (Name × V StO)) (cs : Bool) (h : StrInv vars cs) :
    Frame c j (itemVars vars i (.host (.key j))) i := by
  unfold itemVars
  exact ⟨getVar_setVar_same _ _ _,
    by rw [getVar_setVar_ne _ _ _ _ (by decide), getVar_setVar_ne _ _ _ _ (by decide), getVar_setVar_ne _ _ _ _ (by decide)]; exact h.1,
    by rw [getVar_setVar_ne _ _ _ _ (by decide), getVar_setVar_ne _ _ _ _ (by decide), getVar_setVar_ne _ _ _ _ (by decide)]; exact h.2.1,
    by rw [getVar_setVar_ne _ _ _ _ (by decide)]; exact getVar_setVar_same _ _ _⟩

theorem str_pub (F : Nat) (i : Int) (j : Nat) (n : AName) (v : PyVal) (hj : c.env[j]? = some (n, v))
    (vars : List (Name × V StO)) (cs : Bool) (hinv : StrInv vars cs) :
    (match strStep (ackOf c) n v cs with
     | .error e => (forBody (strHost c) F 0x5f5f6974656d5f5f strLoopBody (.tuple [.int i, .host (.key j)]) ⟨vars, ()⟩).1
          = .error (.exc (excName e) 0)
     | .ok cs' => ∃ vars', forBody (strHost c) F 0x5f5f6974656d5f5f strLoopBody (.tuple [.int i, .host (.key j)]) ⟨vars, ()⟩
          = (.ok .next, ⟨vars', ()⟩) ∧ StrInv vars' cs') := by
  have hX := frame_item c i j vars cs hinv
  have hclX : ClsFact (itemVars vars i (.host (.key j))) cs := by
    unfold itemVars
    exact cls_set _ cs (cls_set _ cs (cls_set _ cs hinv.2.2 _ _ (by decide)) _ _ (by decide)) _ _ (by decide)
  generalize hXd : itemVars vars i (.host (.key j)) = X at hX hclX
  have hstart : forBody (strHost c) F 0x5f5f6974656d5f5f strLoopBody (.tuple [.int i, .host (.key j)]) ⟨vars, ()⟩
      = execB (strHost c) F [sS 1, sS 2, sS 3, sS 4, sS 5, sS 6] ⟨setVar X 0x76616c (V.ofPy v), ()⟩ := by
    subst hXd
    simp only [forBody, strLoopBody_eq, itemVars]
    rw [execB_cons]
    pysimp [bindT, t_index, t_idx0, t_eq, t_ch0, Bool.not_false]
    rw [strInner_eq, execB_cons, sS0_eq]
    pysimp [hinv.1, t_attr, tAttr, t_index, t_dict c j n v hj]
  rw [hstart, strStep_eq]
  -- statement 1
  rw [execB_cons, st_escape c F i j n v hj X hX]
  simp only
  generalize hx1d : (if (isBytesV v && !(n.idx.isEmpty && n.base == 0x646174756d4e616d65) && !c.monver) = true then (V.ostr : V StO) else V.ofPy v) = x1
  have hx1 : x1 = V.ofPy v ∨ (x1 = .ostr ∧ isBytesV v = true) := by
    subst hx1d
    by_cases hb : (isBytesV v && !(n.idx.isEmpty && n.base == 0x646174756d4e616d65) && !c.monver) = true
    · right; simp only [hb, ↓reduceIte, true_and]
      cases hv : isBytesV v <;> simp_all
    · left; simp only [hb, ↓reduceIte, Bool.false_eq_true]
  -- statement 2
  rw [execB_cons, st_gnss c F i j n v hj X hX x1]
  simp only
  -- a name among iTOW / clsID / msgClass / msgID does not begin with "gnssId"
  have hG : ∀ k : Name, (k = 0x69544f57 ∨ k = 0x636c734944 ∨ k = 0x6d7367436c617373 ∨ k = 0x6d73674944) →
      (n.idx.isEmpty && n.base == k) = true → (nameTake n.base 6 == 0x676e73734964) = false := by
    intro k hk h
    simp only [Bool.and_eq_true, beq_iff_eq] at h
    rw [h.2]
    rcases hk with hk | hk | hk | hk <;> subst hk <;> decide
  by_cases hI : (n.idx.isEmpty && n.base == 0x69544f57) = true
  · -- iTOW
    simp only [hI, ↓reduceIte, hG _ (Or.inl rfl) hI, Bool.false_eq_true]
    have hb := hI
    simp only [Bool.and_eq_true, beq_iff_eq] at hb
    have h3 := st_itow_yes c F i j n v hj X hX x1 hI hx1
    rw [execB_cons]
    cases hi : itowExc v with
    | some e =>
      rw [hi] at h3
      simp only at h3 ⊢
      cases hr : execS (strHost c) F (sS 3) ⟨setVar X 0x76616c x1, ()⟩ with
      | mk r st' => rw [hr] at h3; simp only at h3; subst h3; rfl
    | none =>
      rw [hi] at h3
      simp only at h3
      rw [h3]
      simp only
      have hW : Frame c j (setVar X 0x76616c .ostr) i := frame_set c j i X hX _ _ (by decide) (by decide) (by decide) (by decide)
      have ht := str_tail c F i j n v hj _ hW .ostr (getVar_setVar_same _ _ _) cs (cls_set X cs hclX _ _ (by decide))
        (by intro h; exfalso; simp [hb.2] at h)
      have ha : ackStep (ackOf c) n v cs = .ok cs := by
        unfold ackStep; simp [hb.2]
      rw [ha] at ht
      exact ht
  · have hI' : (n.idx.isEmpty && n.base == 0x69544f57) = false := by simpa using hI
    simp only [hI', Bool.false_eq_true, ↓reduceIte]
    rw [execB_cons, st_itow_no c F i j n v hj X hX _ hI']
    simp only
    have hW : Frame c j (setVar X 0x76616c (if (nameTake n.base 6 == 0x676e73734964) = true then .ostr else x1)) i :=
      frame_set c j i X hX _ _ (by decide) (by decide) (by decide) (by decide)
    refine str_tail c F i j n v hj _ hW _ (getVar_setVar_same _ _ _) cs (cls_set X cs hclX _ _ (by decide)) ?_
    intro h
    have hg : (nameTake n.base 6 == 0x676e73734964) = false := by
      simp only [Bool.or_eq_true] at h
      rcases h with (h | h) | h
      · exact hG _ (Or.inr (Or.inl rfl)) h
      · exact hG _ (Or.inr (Or.inr (Or.inl rfl))) h
      · exact hG _ (Or.inr (Or.inr (Or.inr rfl))) h
    simp only [hg, Bool.false_eq_true, ↓reduceIte]
    exact hx1

/-- the private entries of `__dict__` are passed over -/
theorem loop_priv (F : Nat) (l2 : List (V StO)) (cs : Bool) : ∀ (l : List Nat) (vars : List (Name × V StO)), StrInv vars cs →
    ∃ vars', forLoop (forBody (strHost c) F 0x5f5f6974656d5f5f strLoopBody)
        (l.map (fun (k : Nat) => V.tuple [.int ((k : Nat) : Int), .host (.priv k)]) ++ l2) ⟨vars, ()⟩
      = forLoop (forBody (strHost c) F 0x5f5f6974656d5f5f strLoopBody) l2 ⟨vars', ()⟩ ∧ StrInv vars' cs := by
  intro l
  induction l with
  | nil => intro vars h; exact ⟨vars, rfl, h⟩
  | cons k ks ih =>
    intro vars h
    obtain ⟨vars', h1, h2⟩ := ih (itemVars vars k (.host (.priv k))) (inv_item vars k _ cs h)
    refine ⟨vars', ?_, h2⟩
    rw [List.map_cons, List.cons_append, forLoop, str_priv c F k k vars]
    exact h1

/-- the public attributes, in order: the model's `strLoop` -/
theorem loop_pub (F : Nat) : ∀ (m j0 : Nat), j0 + m = c.env.length → ∀ (vars : List (Name × V StO)) (cs : Bool), StrInv vars cs →
    (match strLoop (ackOf c) (c.env.drop j0) cs with
     | none => ∃ vars' cs', forLoop (forBody (strHost c) F 0x5f5f6974656d5f5f strLoopBody)
          ((List.range' j0 m).map (fun (j : Nat) => V.tuple [.int ((c.npriv + j : Nat) : Int), .host (.key j)])) ⟨vars, ()⟩
          = (.ok .next, ⟨vars', ()⟩) ∧ StrInv vars' cs'
     | some e => (forLoop (forBody (strHost c) F 0x5f5f6974656d5f5f strLoopBody)
          ((List.range' j0 m).map (fun (j : Nat) => V.tuple [.int ((c.npriv + j : Nat) : Int), .host (.key j)])) ⟨vars, ()⟩).1
          = .error (.exc (excName e) 0)) := by
  intro m
  induction m with
  | zero =>
    intro j0 hj vars cs h
    have : c.env.drop j0 = [] := List.drop_eq_nil_of_le (by omega)
    rw [this, strLoop]
    exact ⟨vars, cs, rfl, h⟩
  | succ m ih =>
    intro j0 hj vars cs h
    have hlt : j0 < c.env.length := by omega
    rw [List.drop_eq_getElem_cons hlt]
    cases hnv : c.env[j0] with
    | mk n v =>
    have hj0 : c.env[j0]? = some (n, v) := by rw [List.getElem?_eq_getElem hlt, hnv]
    rw [strLoop_cons, List.range'_succ, List.map_cons, forLoop]
    have hb := str_pub c F ((c.npriv + j0 : Nat) : Int) j0 n v hj0 vars cs h
    cases hs : strStep (ackOf c) n v cs with
    | error e =>
      rw [hs] at hb
      simp only at hb ⊢
      cases hr : forBody (strHost c) F 0x5f5f6974656d5f5f strLoopBody (.tuple [.int ((c.npriv + j0 : Nat) : Int), .host (.key j0)]) ⟨vars, ()⟩ with
      | mk r st' => rw [hr] at hb; simp only at hb; subst hb; rfl
    | ok cs' =>
      rw [hs] at hb
      obtain ⟨vars', h1, h2⟩ := hb
      simp only [h1]
      exact ih (j0 + 1) (by omega) vars' cs' h2

/-- the exception `str(m)` raises, read off what `__str__` consults -/
def strExcC : Option Exc :=
  match c.payload with
  | none => none
  | some _ => strLoop (ackOf c) c.env false

theorem strBody_eq : strBody = [strBody.getD 0 .pass, strBody.getD 1 .pass, strBody.getD 2 .pass, strBody.getD 3 .pass,
    strBody.getD 4 .pass, strBody.getD 5 .pass, .for_ 0x5f5f6974656d5f5f (.call 0x656e756d6572617465 [(.attr (.var 0x73656c66) 0x5f5f646963745f5f)] [] []) strLoopBody,
    strBody.getD 7 .pass, strBody.getD 8 .pass] := rfl

/-- **`UBXMessage.__str__` as written** raises exactly when the model's `strLoop` says so, and with that exception: nothing
    for a message without payload or without definition (NOMINAL identity); otherwise the public attributes are visited
    in `__dict__` order and the only calls that can fail are `itow2utc` on an attribute named `iTOW` and — for ACK-* and
    CFG-MSG — `val2bytes(·, U1)` on `clsID` / `msgClass` and on a `msgID` that follows one of them -/
theorem str_eq (F : Nat) (hnom : c.nominal = true → c.env = []) :
    (runFn (strHost c) F fn_UBXMessage___str__ [.host .self] ()).1
      = (match strExcC c with | none => .ok .ostr | some e => .error (.exc (excName e) 0)) := by
  have hb : fn_UBXMessage___str__.body = strBody := rfl
  have hp : fn_UBXMessage___str__.params = [0x73656c66] := rfl
  simp only [runFn, hp, hb, List.zip_cons_cons, List.zip_nil_right, strExcC]
  rw [strBody_eq]
  simp only [strBody, fn_UBXMessage___str__, List.getD_cons_succ, List.getD_cons_zero]
  rw [execB_cons]; pysimp
  rw [execB_cons]; pysimp
  rw [execB_cons]; pysimp [t_attr, tAttr]
  rw [execB_cons]
  cases hpl : c.payload with
  | none => pysimp [t_attr, tAttr, hpl]
  | some pl =>
    pysimp [t_attr, tAttr, hpl]
    rw [execB_cons]
    cases hn : c.nominal with
    | true =>
      pysimp [t_attr, tAttr, t_index, tIndex, t_eq, t_last7, hn]
      rw [hnom hn, strLoop]
    | false =>
      pysimp [t_attr, tAttr, t_index, tIndex, t_eq, t_last7, hn, Bool.false_eq_true]
      rw [execB_cons]; pysimp
      rw [execB_cons, execS_for]
      pysimp [t_attr, tAttr, t_call, tCall]
      have hinv0 : StrInv [(0x73656c66, V.host StO.self), (0x636c736964, V.none), (0x6d73676964, V.none),
          (0x756d73675f6e616d65, V.host StO.ident), (0x737467, V.ostr)] false := by
        refine ⟨by pysimp, by pysimp, ?_⟩
        simp only [Bool.false_eq_true, ↓reduceIte]
        pysimp
      obtain ⟨vars1, h1, hinv1⟩ := loop_priv c F
        (List.map (fun (j : Nat) => V.tuple [V.int ((c.npriv + j : Nat) : Int), V.host (StO.key j)]) (List.range c.env.length)) false
        (List.range c.npriv) _ hinv0
      rw [h1]
      have h2 := loop_pub c F c.env.length 0 (by omega) vars1 false hinv1
      rw [List.drop_zero, ← List.range_eq_range'] at h2
      cases hl : strLoop (ackOf c) c.env false with
      | some e =>
        rw [hl] at h2
        simp only at h2 ⊢
        cases hr : forLoop (forBody (strHost c) F 0x5f5f6974656d5f5f strLoopBody)
          (List.map (fun (j : Nat) => V.tuple [V.int ((c.npriv + j : Nat) : Int), V.host (StO.key j)]) (List.range c.env.length)) ⟨vars1, ()⟩ with
        | mk r st' => rw [hr] at h2; simp only at h2; subst h2; rfl
      | none =>
        rw [hl] at h2
        obtain ⟨vars2, cs2, h3, hinv2⟩ := h2
        rw [h3]
        simp only
        rw [execB_cons]
        pysimp [hinv2.2.1, t_call, tCall]

/-- for a message `m`: `str(m)` raises exactly the model's `m.strExc` (whatever its private fields are; a NOMINAL message has no
    public attributes) -/
theorem str_msg (F : Nat) (m : Msg) (nominal monver : Bool) (npriv : Nat) (hnom : nominal = true → m.env = []) :
    (runFn (strHost ⟨m.cls, m.id, m.payload, nominal, monver, npriv, m.env⟩) F fn_UBXMessage___str__ [.host .self] ()).1
      = (match m.strExc with | none => .ok .ostr | some e => .error (.exc (excName e) 0)) := by
  rw [str_eq _ F hnom]
  have : strExcC ⟨m.cls, m.id, m.payload, nominal, monver, npriv, m.env⟩ = m.strExc := by
    unfold strExcC Msg.strExc ackOf
    cases m.payload with
    | none => rfl
    | some p =>
      simp only
      congr 1
      by_cases h5 : m.cls = [0x05] <;> by_cases h6 : m.cls = [0x06] <;> by_cases h1 : m.id = [0x01] <;> simp [h5, h6, h1]
  rw [this]
end Ubx.Py
