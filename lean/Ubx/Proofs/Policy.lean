import Ubx.Proofs.Frames
/-!
# The error policy only decides how a rejection is reported (C12)

`runP q` follows `read()`'s `except … : if self._quitonerror: self._do_error(err); continue`
literally; the theorems relate it to the policy-free trace `run`.
-/
namespace Ubx
variable {α σ : Type}

theorem runP_items (S : Src σ) (nmeaHdr) (cfg : RCfg) (O : Oracle α) (q : Nat) (hq : q ≠ 2)
    (f : Nat) (st : Option σ) :
    (runP S nmeaHdr cfg O q f st).items = items (run S nmeaHdr cfg O f st) := by
  induction f generalizing st with
  | zero => simp [runP, run, items]
  | succ f ih =>
    cases st with
    | none => simp [runP, run, items, Out.asItem]
    | some s =>
      simp only [runP, run]
      generalize step S nmeaHdr cfg O s = r
      obtain ⟨o, s'⟩ := r
      cases o with
      | eof => simp [items, Out.asItem]
      | crash p c => simp [items, Out.asItem]
      | skip => simp only [items, List.filterMap_cons, Out.asItem]; exact ih s'
      | item p raw m =>
        simp only [items, List.filterMap_cons, Out.asItem, PRes.consItem]
        have := ih s'; simp only [items] at this; rw [this]
      | err k =>
        simp only [items, List.filterMap_cons, Out.asItem]
        by_cases h0 : q = 0
        · simp only [h0, if_true]; have := ih s'; simp only [items, h0] at this; exact this
        · simp only [h0, if_false, hq]
          by_cases h1 : q = 1
          · simp only [h1, if_true, PRes.consCall]; have := ih s'; simp only [items, h1] at this; exact this
          · simp only [h1, if_false]; exact ih s'

theorem runP_calls_ignore (S : Src σ) (nmeaHdr) (cfg : RCfg) (O : Oracle α)
    (f : Nat) (st : Option σ) : (runP S nmeaHdr cfg O 0 f st).calls = [] := by
  induction f generalizing st with
  | zero => simp [runP]
  | succ f ih =>
    cases st with
    | none => simp [runP]
    | some s =>
      simp only [runP]
      generalize step S nmeaHdr cfg O s = r
      obtain ⟨o, s'⟩ := r
      cases o with
      | eof => rfl
      | crash p c => rfl
      | skip => exact ih s'
      | item p raw m => simp only [PRes.consItem]; exact ih s'
      | err k => simp only [if_true]; exact ih s'

theorem runP_calls_log (S : Src σ) (nmeaHdr) (cfg : RCfg) (O : Oracle α)
    (f : Nat) (st : Option σ) :
    (runP S nmeaHdr cfg O 1 f st).calls = handlerCalls (run S nmeaHdr cfg O f st) := by
  induction f generalizing st with
  | zero => simp [runP, run, handlerCalls]
  | succ f ih =>
    cases st with
    | none => simp [runP, run, handlerCalls, Out.asErr]
    | some s =>
      simp only [runP, run]
      generalize step S nmeaHdr cfg O s = r
      obtain ⟨o, s'⟩ := r
      cases o with
      | eof => simp [handlerCalls, Out.asErr]
      | crash p c => simp [handlerCalls, Out.asErr]
      | skip => simp only [handlerCalls, List.filterMap_cons, Out.asErr]; exact ih s'
      | item p raw m =>
        simp only [handlerCalls, List.filterMap_cons, Out.asErr, PRes.consItem]; exact ih s'
      | err k =>
        simp only [handlerCalls, List.filterMap_cons, Out.asErr, PRes.consCall]
        have := ih s'; simp only [handlerCalls] at this
        simp [this]

theorem runP_raise (S : Src σ) (nmeaHdr) (cfg : RCfg) (O : Oracle α)
    (f : Nat) (st : Option σ) :
    (runP S nmeaHdr cfg O 2 f st).items = (raiseView (run S nmeaHdr cfg O f st)).1 ∧
    (runP S nmeaHdr cfg O 2 f st).raised = (raiseView (run S nmeaHdr cfg O f st)).2 := by
  induction f generalizing st with
  | zero => simp [runP, run, raiseView]
  | succ f ih =>
    cases st with
    | none => simp [runP, run, raiseView]
    | some s =>
      simp only [runP, run]
      generalize step S nmeaHdr cfg O s = r
      obtain ⟨o, s'⟩ := r
      cases o with
      | eof => simp [raiseView]
      | crash p c => simp [raiseView]
      | skip => simp only [raiseView]; exact ih s'
      | item p raw m =>
        simp only [raiseView, PRes.consItem]
        obtain ⟨h1, h2⟩ := ih s'
        exact ⟨by rw [h1], h2⟩
      | err k => simp [raiseView]

end Ubx
