import Ubx.Proofs.CodeHelpers
import Ubx.Model.PyWalkHosts
/-!
# The attribute walker, as written, is the model's walker

`UBXMessage._set_attribute`, `_set_attribute_group`, `_set_attribute_single` and `_calc_num_repeats` (ubxmessage.py) walk a
payload definition: they decide which bytes every attribute is decoded from (or encoded to), under which `_NN`-suffixed name
it is stored, how often a group repeats. Each method is shown equal to its model function — for every definition, payload,
offset, group index and keyword dictionary — *given* that the methods it calls behave as their model functions (the host of
`Model/PyWalkHosts.lean`); the model's own recursion (`wItem` / `wItems` / `repeatN`) then is the recursion of the code,
unrolled one method at a time.

* `calc_num_repeats_eq` — the loop over `attd.items()`, the `isinstance(val, tuple)` unwrapping, `attsiz` of every member
  (incl. its TypeError / ValueError on a scaled attribute, a fixed count, a count name), `int(lenpayload / lengroup)` with
  ZeroDivisionError = `calcNumRepeats`.
* `set_attribute_eq` — the dispatch on the dictionary entry: tuple or not, `numr in (X1, X2, X4, X6, X8, X24)`,
  `self._parsebf`, = the case analysis of `wItem`.
* `set_attribute_group_eq` — `index.append(0)`, the CFG-VALGET / CFG-VALSET test, the three sources of the repeat count
  (fixed, variable by size, named attribute with the ESF-MEAS `calibTtagValid` adjustment), the double loop with
  `index[-1] = i + 1` (by induction: `repeatN` of `wItems`), `index.pop()` = the group branch of `wItem`.
* `set_attribute_single_eq` — scale list unpacking, the `_NN` suffix loop (induction), `CH` vs `attsiz`, the parse direction
  (`payload[offset : offset + asiz]`, `bytes2val`, `round(… * ares, SCALROUND)`), the generate direction
  (`kwargs.get(anami, nomval(adef))`, `val2bytes(val)` / `val2bytes(int(val / ares))`, `self._payload += valb`), the `_HP` test
  on the first three characters of the *suffixed* name and the merge into `anami[3:]`, `setattr`, `offset + asiz` = `wSingle`.

Trusted in the host: float arithmetic (`round(a * b, n)`, `int(a / b)`, `round(a + b, n)` are handed to the host whole — the
translator recognises exactly these shapes — and mean the model's `scaleUp` / `scaleDown` / `hpMerge`, whose agreement with
CPython's floats is the correspondence check's business); a suffixed name is (base, index list); the group index list, which
the Python code updates in place, travels as a value that every caller rebinds (the translator checks that discipline,
`linear_list_params`); dictionaries hand out their entries in order and by key.
-/
set_option maxRecDepth 10000
set_option linter.unusedSimpArgs false
set_option linter.unusedVariables false
namespace Ubx.Py
open Ubx Ubx.Gen.Code

variable (c : WCtx) (cls id : Bytes) (mode : Nat) (H : Host AO ASt)


set_option hygiene false in
/-- the host's fields, as rewrite rules -/
macro "whs" : tactic => `(tactic| (
  have wh_call := hH.call; have wh_attr := hH.attr; have wh_setattr := hH.setattr; have wh_index := hH.index
  have wh_contains := hH.contains; have wh_glob := hH.glob; have wh_eq := hH.eqHost
  have wh_mkw := hH.mcall_kw; have wh_mdict := hH.mcall_dict; have wh_mfl := hH.mcall_flags; have wh_mint := hH.mcall_int))

/-- the type-string constants the host stands in for are the working tree's -/
example : (globLookup Ubx.Gen.Code.globals 0x5831 : Option (V AO)) = some (.str 0x58303031) := rfl
example : (globLookup Ubx.Gen.Code.globals 0x5832 : Option (V AO)) = some (.str 0x58303032) := rfl
example : (globLookup Ubx.Gen.Code.globals 0x5834 : Option (V AO)) = some (.str 0x58303034) := rfl
example : (globLookup Ubx.Gen.Code.globals 0x5836 : Option (V AO)) = some (.str 0x58303036) := rfl
example : (globLookup Ubx.Gen.Code.globals 0x5838 : Option (V AO)) = some (.str 0x58303038) := rfl
example : (globLookup Ubx.Gen.Code.globals 0x583234 : Option (V AO)) = some (.str 0x58303234) := rfl
example : (globLookup Ubx.Gen.Code.globals 0x4348 : Option (V AO)) = some (.str 0x4348) := rfl

/-! ### `_calc_num_repeats` -/

def cnrLoop : S := match fn_UBXMessage__calc_num_repeats.body with
  | [_, _, l, _] => l
  | _ => .pass
def cnrBody : List S := match cnrLoop with
  | .for_ _ _ b => b
  | _ => []

example : cnrBody ≠ [] := by decide

def CnrPost (res : R Int) (acc : Int) (vars : List (Name × V AO)) (st : ASt)
    (r : X AO (Flow AO) × St AO ASt) : Prop :=
  match res with
  | .ok s => r.1 = .ok .next ∧ r.2.h = st ∧ getVar r.2.vars 0x6c656e67726f7570 = some (.int (acc + s))
      ∧ ∀ x, x ≠ 0x6c656e67726f7570 → x ≠ 0x5f → x ≠ 0x76616c → x ≠ 0x5f5f6974656d5f5f → getVar r.2.vars x = getVar vars x
  | .error e => r.1 = .error (.exc (excName e) 0)

theorem cnr_frame (vars : List (Name × V AO)) (v1 v2 v3 v4 : V AO) (x : Name) (h1 : x ≠ 0x6c656e67726f7570) (h2 : x ≠ 0x5f)
    (h3 : x ≠ 0x76616c) (h4 : x ≠ 0x5f5f6974656d5f5f) :
    getVar (setVar (setVar (setVar (setVar vars 0x5f5f6974656d5f5f v1) 0x5f v2) 0x76616c v3) 0x6c656e67726f7570 v4) x = getVar vars x := by
  rw [getVar_setVar_ne _ _ _ _ (Ne.symm h1), getVar_setVar_ne _ _ _ _ (Ne.symm h3), getVar_setVar_ne _ _ _ _ (Ne.symm h2),
    getVar_setVar_ne _ _ _ _ (Ne.symm h4)]

theorem cnr_body (hH : WalkLike c cls id mode H) (F : Nat) (it : Item) (acc : Int) (vars : List (Name × V AO)) (st : ASt)
    (gL : getVar vars 0x6c656e67726f7570 = some (.int acc)) :
    CnrPost (memberSize it) acc vars st
      (forBody H F 0x5f5f6974656d5f5f cnrBody (.tuple [.str (Item.key it), defV it]) ⟨vars, st⟩) := by
  whs
  simp only [forBody, cnrBody, cnrLoop, fn_UBXMessage__calc_num_repeats]
  have fr : ∀ (vs : List (Name × V AO)) (x y : Name) (v : V AO), ¬ x = y → getVar (setVar vs y v) x = getVar vs x :=
    fun vs x y v h => getVar_setVar_ne vs y x v (fun e => h e.symm)
  cases it with
  | attr n ty sc =>
    cases sc with
    | one =>
      simp only [defV, memberSize]
      pystep [bindT]
      pystep [wh_call, aCall, gL]
      cases attsiz ty with
      | error e => simp [CnrPost, encR]
      | ok k =>
        simp only [encR, CnrPost]
        pysimp
        intro x h1 h2 h3 h4
        rw [fr _ _ _ _ h1, fr _ _ _ _ h3, fr _ _ _ _ h2, fr _ _ _ _ h4]
    | int k =>
      simp only [defV, memberSize]
      pystep [bindT]
      pystep [wh_call, aCall, gL]
      simp [CnrPost, excName, xTypeError, xValueError]
    | flt b =>
      simp only [defV, memberSize]
      pystep [bindT]
      pystep [wh_call, aCall, gL]
      simp [CnrPost, excName, xTypeError, xValueError]
  | bits n ty fl =>
    simp only [defV, memberSize]
    pystep [bindT]
    pystep [wh_call, aCall, gL, bindT]
    cases attsiz ty with
    | error e => simp [CnrPost, encR]
    | ok k =>
      simp only [encR, CnrPost]
      pysimp
      intro x h1 h2 h3 h4
      rw [fr _ _ _ _ h1, fr _ _ _ _ h2, fr _ _ _ _ h3, fr _ _ _ _ h3, fr _ _ _ _ h2, fr _ _ _ _ h4]
  | group n cnt items =>
    cases cnt with
    | fixed k =>
      simp only [defV, memberSize, cntV]
      pystep [bindT]
      pystep [wh_call, aCall, gL, bindT]
      simp [CnrPost, excName, xTypeError, xValueError]
    | var =>
      simp only [defV, memberSize, cntV]
      pystep [bindT]
      pystep [wh_call, aCall, gL, bindT]
      simp [CnrPost, excName, xTypeError, xValueError]
    | named a =>
      simp only [defV, memberSize, cntV]
      pystep [bindT]
      pystep [wh_call, aCall, gL, bindT]
      simp [CnrPost, excName, xTypeError, xValueError]

def encDictItem (i : Item) : V AO := .tuple [.str (Item.key i), defV i]

theorem cnr_loop (hH : WalkLike c cls id mode H) (F : Nat) (items : List Item) : ∀ (acc : Int) (vars : List (Name × V AO)) (st : ASt),
    getVar vars 0x6c656e67726f7570 = some (.int acc) →
    (match sumSizes items acc with
     | .ok s => ∃ vars', forLoop (forBody H F 0x5f5f6974656d5f5f cnrBody) (items.map encDictItem) ⟨vars, st⟩
          = (.ok .next, ⟨vars', st⟩) ∧ getVar vars' 0x6c656e67726f7570 = some (.int s)
          ∧ ∀ x, x ≠ 0x6c656e67726f7570 → x ≠ 0x5f → x ≠ 0x76616c → x ≠ 0x5f5f6974656d5f5f → getVar vars' x = getVar vars x
     | .error e => (forLoop (forBody H F 0x5f5f6974656d5f5f cnrBody) (items.map encDictItem) ⟨vars, st⟩).1
          = .error (.exc (excName e) 0)) := by
  whs
  induction items with
  | nil =>
    intro acc vars st gL
    simp only [sumSizes, List.map_nil, forLoop]
    exact ⟨vars, rfl, gL, fun _ _ _ _ _ => rfl⟩
  | cons it rest ih =>
    intro acc vars st gL
    have hb := cnr_body c cls id mode H hH F it acc vars st gL
    rw [List.map_cons, forLoop, sumSizes]
    simp only [encDictItem] at hb ⊢
    generalize forBody H F 0x5f5f6974656d5f5f cnrBody (.tuple [.str (Item.key it), defV it]) ⟨vars, st⟩ = r0 at hb ⊢
    obtain ⟨r, ⟨vars1, st1⟩⟩ := r0
    cases hm : memberSize it with
    | error e =>
      rw [hm] at hb
      simp only [CnrPost] at hb
      subst hb
      rfl
    | ok s =>
      rw [hm] at hb
      simp only [CnrPost] at hb
      obtain ⟨h1, h2, h3, h4⟩ := hb
      subst h1; subst h2
      simp only
      have := ih (acc + s) vars1 st1 h3
      cases hs : sumSizes rest (acc + s) with
      | error e => rw [hs] at this; exact this
      | ok t =>
        rw [hs] at this
        obtain ⟨vars', e1, e2, e3⟩ := this
        exact ⟨vars', e1, e2, fun x a b c d => by rw [e3 x a b c d, h4 x a b c d]⟩

/-- `_calc_num_repeats`, as written, is the model's `calcNumRepeats` -/
theorem calc_num_repeats_eq (hH : WalkLike c cls id mode H) (F : Nat) (items : List Item) (payload : Bytes) (off : Nat) (st : ASt) :
    (match calcNumRepeats items payload off with
     | .ok k => runFn H F fn_UBXMessage__calc_num_repeats
          [.host .self, .host (.dict items), .bytes payload, .int off, .int 0] st = (.ok (.int k), st)
     | .error e => (runFn H F fn_UBXMessage__calc_num_repeats
          [.host .self, .host (.dict items), .bytes payload, .int off, .int 0] st).1 = .error (.exc (excName e) 0)) := by
  whs
  simp only [runFn, fn_UBXMessage__calc_num_repeats, List.zip_cons_cons, List.zip_nil_right]
  pystep
  pystep
  rw [execB_cons, execS_for]
  pysimp [wh_mkw, wh_mdict, aMcall, builtinMethod]
  have hl := cnr_loop c cls id mode H hH F items 0
    [(0x73656c66, .host .self), (0x61747464, .host (.dict items)), (0x7061796c6f6164, .bytes payload), (0x6f6666736574, .int off),
     (0x6f6666736574656e64, .int 0), (0x6c656e7061796c6f6164, .int ((payload.length : Int) - off - 0)), (0x6c656e67726f7570, .int 0)] st (by pysimp)
  unfold calcNumRepeats
  simp only [cnrBody, cnrLoop, fn_UBXMessage__calc_num_repeats] at hl
  have henc : (fun (i : Item) => (V.tuple [V.str (Item.key i), defV i] : V AO)) = encDictItem := rfl
  rw [henc]
  cases hs : sumSizes items 0 with
  | error e =>
    rw [hs] at hl
    simp only at hl ⊢
    generalize forLoop _ _ _ = r at hl ⊢
    obtain ⟨r1, r2⟩ := r
    simp only at hl
    subst hl
    rfl
  | ok s =>
    rw [hs] at hl
    obtain ⟨vars', g1, g2, g3⟩ := hl
    simp only
    have gLp : getVar vars' 0x6c656e7061796c6f6164 = some (.int ((payload.length : Int) - off - 0)) := by
      rw [g3 _ (by decide) (by decide) (by decide) (by decide)]; pysimp
    by_cases h0 : s = 0
    · simp only [h0, ↓reduceIte]
      rw [g1]
      subst h0
      pysimp [gLp, g2, wh_call, aCall, excName]
    · simp only [h0, ↓reduceIte]
      rw [g1]
      pysimp [gLp, g2, wh_call, aCall, h0, Int.sub_zero]

/-! ### `_set_attribute` -/

theorem decIdx_map (idx : List Nat) : decIdx (idx.map (fun (i : Nat) => (V.int (i : Int) : V AO))) = some idx := by
  induction idx with
  | nil => rfl
  | cons i rest ih => simp [decIdx, ih]

/-- the six bitfield type strings -/
def isXTy (ty : Ty) : Bool :=
  ty == .t cX 1 || ty == .t cX 2 || ty == .t cX 4 || ty == .t cX 6 || ty == .t cX 8 || ty == .t cX 24

/-- a bitfield entry carries one of the six `X` types the code tests for (`translate.py` classifies by the same test) -/
def ItemShape : Item → Prop
  | .bits _ ty _ => isXTy ty = true
  | .group _ (.named a) _ => a ≠ sNone      -- the string "None" as a count means "variable by size"
  | _ => True

/-- what a walker method called on `self` hands back, as far as its caller looks at it: `(offset, index)` and the message
    after a normal return, the exception class otherwise -/
def SpecW (idx : List Nat) (r : X AO (V AO) × ASt) (res : R WState) : Prop :=
  match res with
  | .ok s => r = (.ok (.tuple [.int s.off, idxT idx]), ⟨s.payload, s.env⟩)
  | .error e => r.1 = .error (.exc (excName e) 0)

/-- … for `_set_attribute_single`, which hands back the offset alone -/
def SpecS (r : X AO (V AO) × ASt) (res : R WState) : Prop :=
  match res with
  | .ok s => r = (.ok (.int s.off), ⟨s.payload, s.env⟩)
  | .error e => r.1 = .error (.exc (excName e) 0)

/-- the one call `_set_attribute` makes for this entry behaves as its model function -/
def CalleeOK (c : WCtx) (H : Host AO ASt) (idx : List Nat) (off : Nat) (st : ASt) : Item → Prop
  | .attr n ty sc =>
    SpecS (H.mcall (.host .self) 0x5f7365745f6174747269627574655f73696e676c65
        [.str n, defV (.attr n ty sc), .int off, idxT idx, .host .kwargs] [] st) (wSingle c idx n ty sc ⟨off, st.payload, st.env⟩)
  | .bits n ty fl =>
    (c.parsebf = false →
      SpecS (H.mcall (.host .self) 0x5f7365745f6174747269627574655f73696e676c65
        [.str n, .host (.ty ty), .int off, idxT idx, .host .kwargs] [] st) (wSingle c idx n ty .one ⟨off, st.payload, st.env⟩)) ∧
    (c.parsebf = true →
      SpecW idx (H.mcall (.host .self) 0x5f7365745f6174747269627574655f6269746669656c64
        [.tuple [.host (.ty ty), .host (.flags fl)], .int off, idxT idx, .host .kwargs] [] st) (wBits c idx ty fl ⟨off, st.payload, st.env⟩))
  | .group _ cnt its =>
    SpecW idx (H.mcall (.host .self) 0x5f7365745f6174747269627574655f67726f7570
        [.tuple [cntV cnt, .host (.dict its)], .int off, idxT idx, .host .kwargs] [] st) (wGroup c idx cnt its ⟨off, st.payload, st.env⟩)

theorem set_attribute_eq (hH : WalkLike c cls id mode H) (F : Nat) (items : List Item) (key : Name) (it : Item) (hit : itemAt items key = some it)
    (hsh : ItemShape it) (off : Nat) (idx : List Nat) (st : ASt) (hcall : CalleeOK c H idx off st it) :
    SpecW idx (runFn H F fn_UBXMessage__set_attribute
          [.host .self, .str key, .host (.dict items), .int off, idxT idx, .host .kwargs] st) (wItem c idx it ⟨off, st.payload, st.env⟩) := by
  whs
  have hk : Item.key it = key := by
    have := List.find?_some hit
    simpa using this
  simp only [runFn, fn_UBXMessage__set_attribute, List.zip_cons_cons, List.zip_nil_right]
  pystep [wh_index, aIndex, hit]
  cases it with
  | attr n ty sc =>
    simp only [Item.key] at hk
    subst hk
    simp only [CalleeOK] at hcall
    cases sc with
    | one =>
      simp only [defV, wItem] at hcall ⊢
      pystep [wh_call, aCall]
      simp only [SpecW, SpecS] at hcall ⊢
      cases hws : wSingle c idx n ty .one ⟨off, st.payload, st.env⟩ with
      | error e =>
        rw [hws] at hcall
        simp only at hcall
        pysimp [hcall]
      | ok s =>
        rw [hws] at hcall
        simp only at hcall ⊢
        pysimp [hcall]
    | int k =>
      simp only [defV, wItem] at hcall ⊢
      pystep [wh_call, aCall]
      simp only [SpecW, SpecS] at hcall ⊢
      cases hws : wSingle c idx n ty (.int k) ⟨off, st.payload, st.env⟩ with
      | error e =>
        rw [hws] at hcall
        simp only at hcall
        pysimp [hcall]
      | ok s =>
        rw [hws] at hcall
        simp only at hcall ⊢
        pysimp [hcall]
    | flt b =>
      simp only [defV, wItem] at hcall ⊢
      pystep [wh_call, aCall]
      simp only [SpecW, SpecS] at hcall ⊢
      cases hws : wSingle c idx n ty (.flt b) ⟨off, st.payload, st.env⟩ with
      | error e =>
        rw [hws] at hcall
        simp only at hcall
        pysimp [hcall]
      | ok s =>
        rw [hws] at hcall
        simp only at hcall ⊢
        pysimp [hcall]
  | bits n ty fl =>
    simp only [Item.key] at hk
    subst hk
    simp only [CalleeOK] at hcall
    simp only [defV, wItem]
    have h6 : ty = .t cX 1 ∨ ty = .t cX 2 ∨ ty = .t cX 4 ∨ ty = .t cX 6 ∨ ty = .t cX 8 ∨ ty = .t cX 24 := by
      have h := hsh
      simp [ItemShape, isXTy] at h
      rcases h with ((((h | h) | h) | h) | h) | h <;> simp [h]
    have hmem : memTuple H (V.host (AO.ty ty))
        [.host (.ty (.t cX 1)), .host (.ty (.t cX 2)), .host (.ty (.t cX 4)), .host (.ty (.t cX 6)), .host (.ty (.t cX 8)),
         .host (.ty (.t cX 24))] = some true := by
      rcases h6 with rfl | rfl | rfl | rfl | rfl | rfl <;> simp only [memTuple, pyEq, wh_eq, aEq, cX] <;> rfl
    simp only [memTuple, pyEq] at hmem
    pystep [wh_call, aCall, bindT, wh_glob, aGlob, hmem, wh_attr, aAttr]
    pystep [wh_call, aCall, bindT, wh_glob, aGlob, hmem, wh_attr, aAttr]
    cases hpb : c.parsebf
    · simp only [Bool.false_eq_true, ↓reduceIte]
      pysimp
      have hcall := hcall.1 hpb
      simp only [SpecW, SpecS] at hcall ⊢
      cases hws : wSingle c idx n ty .one ⟨off, st.payload, st.env⟩ with
      | error e =>
        rw [hws] at hcall
        simp only at hcall
        pysimp [hcall]
      | ok s =>
        rw [hws] at hcall
        simp only at hcall ⊢
        pysimp [hcall]
    · simp only [↓reduceIte]
      pysimp
      have hcall := hcall.2 hpb
      simp only [SpecW] at hcall ⊢
      cases hws : wBits c idx ty fl ⟨off, st.payload, st.env⟩ with
      | error e =>
        rw [hws] at hcall
        simp only at hcall
        pysimp [hcall]
      | ok s =>
        rw [hws] at hcall
        simp only at hcall ⊢
        pysimp [hcall, bindT]
  | group n cnt its =>
    simp only [Item.key] at hk
    subst hk
    simp only [CalleeOK] at hcall
    simp only [defV]
    have hw : ∀ s, wGroup c idx cnt its s = wItem c idx (.group n cnt its) s := by
      intro s; simp only [wGroup, wItem]
    cases cnt with
    | fixed k =>
      simp only [cntV] at hcall ⊢
      pystep [wh_call, aCall, bindT, wh_glob, aGlob, wh_eq, aEq, wh_attr, aAttr]
      pystep [wh_call, aCall, bindT, wh_glob, aGlob, wh_eq, aEq, wh_attr, aAttr]
      simp only [SpecW, hw] at hcall ⊢
      cases hws : wItem c idx (.group n (.fixed k) its) ⟨off, st.payload, st.env⟩ with
      | error e =>
        rw [hws] at hcall
        simp only at hcall
        pysimp [hcall]
      | ok s =>
        rw [hws] at hcall
        simp only at hcall ⊢
        pysimp [hcall, bindT]
    | var =>
      simp only [cntV] at hcall ⊢
      pystep [wh_call, aCall, bindT, wh_glob, aGlob, wh_eq, aEq, wh_attr, aAttr]
      pystep [wh_call, aCall, bindT, wh_glob, aGlob, wh_eq, aEq, wh_attr, aAttr]
      simp only [SpecW, hw] at hcall ⊢
      cases hws : wItem c idx (.group n .var its) ⟨off, st.payload, st.env⟩ with
      | error e =>
        rw [hws] at hcall
        simp only at hcall
        pysimp [hcall]
      | ok s =>
        rw [hws] at hcall
        simp only at hcall ⊢
        pysimp [hcall, bindT]
    | named a =>
      simp only [cntV] at hcall ⊢
      pystep [wh_call, aCall, bindT, wh_glob, aGlob, wh_eq, aEq, wh_attr, aAttr]
      pystep [wh_call, aCall, bindT, wh_glob, aGlob, wh_eq, aEq, wh_attr, aAttr]
      simp only [SpecW, hw] at hcall ⊢
      cases hws : wItem c idx (.group n (.named a) its) ⟨off, st.payload, st.env⟩ with
      | error e =>
        rw [hws] at hcall
        simp only at hcall
        pysimp [hcall]
      | ok s =>
        rw [hws] at hcall
        simp only at hcall ⊢
        pysimp [hcall, bindT]

/-! ### `_set_attribute_group` -/

def grpIf : S := match fn_UBXMessage__set_attribute_group.body with
  | [_, _, s, _, _] => s
  | _ => .pass
def grpElse : List S := match grpIf with
  | .if_ _ _ e => e
  | _ => []
def grpOuter : S := match grpElse with
  | [_, l] => l
  | _ => .pass
def grpOuterBody : List S := match grpOuter with
  | .for_ _ _ b => b
  | _ => []
def grpInner : S := match grpOuterBody with
  | [_, l] => l
  | _ => .pass
def grpInnerBody : List S := match grpInner with
  | .for_ _ _ b => b
  | _ => []
example : grpInnerBody ≠ [] := by decide

def InnerPost (res : R WState) (idx' : List Nat) (vars : List (Name × V AO)) (st : ASt)
    (r : X AO (Flow AO) × St AO ASt) : Prop :=
  match res with
  | .ok s => r.1 = .ok .next ∧ r.2.h = ⟨s.payload, s.env⟩ ∧ getVar r.2.vars 0x6f6666736574 = some (.int s.off)
      ∧ getVar r.2.vars 0x696e646578 = some (idxT idx')
      ∧ ∀ x, x ≠ 0x6f6666736574 → x ≠ 0x696e646578 → x ≠ 0x6b657931 → getVar r.2.vars x = getVar vars x
  | .error e => r.1 = .error (.exc (excName e) 0)

theorem grp_inner_body (hH : WalkLike c cls id mode H) (F : Nat) (its : List Item) (it : Item)
    (off : Nat) (idx' : List Nat) (vars : List (Name × V AO)) (st : ASt)
    (hcall : SpecW idx' (H.mcall (.host .self) 0x5f7365745f617474726962757465 [.str (Item.key it), .host (.dict its), .int off, idxT idx', .host .kwargs] [] st)
      (wItem c idx' it ⟨off, st.payload, st.env⟩))
    (gSelf : getVar vars 0x73656c66 = some (.host .self)) (gD : getVar vars 0x6764696374 = some (.host (.dict its)))
    (gOff : getVar vars 0x6f6666736574 = some (.int off)) (gIdx : getVar vars 0x696e646578 = some (idxT idx'))
    (gKw : getVar vars 0x6b7761726773 = some (.host .kwargs)) :
    InnerPost (wItem c idx' it ⟨off, st.payload, st.env⟩) idx' vars st
      (forBody H F 0x6b657931 grpInnerBody (.str (Item.key it)) ⟨vars, st⟩) := by
  whs
  simp only [forBody, grpInnerBody, grpInner, grpOuterBody, grpOuter, grpElse, grpIf, fn_UBXMessage__set_attribute_group]
  have fr : ∀ (vs : List (Name × V AO)) (x y : Name) (v : V AO), ¬ x = y → getVar (setVar vs y v) x = getVar vs x :=
    fun vs x y v h => getVar_setVar_ne vs y x v (fun e => h e.symm)
  simp only [SpecW] at hcall
  cases hws : wItem c idx' it ⟨off, st.payload, st.env⟩ with
  | error e =>
    rw [hws] at hcall
    simp only at hcall
    pysimp [gSelf, gD, gOff, gIdx, gKw, hcall, InnerPost]
  | ok s =>
    rw [hws] at hcall
    simp only at hcall
    simp only [InnerPost]
    pysimp [gSelf, gD, gOff, gIdx, gKw, hcall, bindT]
    intro x h1 h2 h3
    rw [fr _ _ _ _ h2, fr _ _ _ _ h1, fr _ _ _ _ h3]

theorem grp_inner_loop (hH : WalkLike c cls id mode H) (F : Nat) (its : List Item) (idx' : List Nat) : ∀ (l : List Item),
    (∀ it ∈ l, ∀ (off : Nat) (st : ASt), SpecW idx' (H.mcall (.host .self) 0x5f7365745f617474726962757465 [.str (Item.key it), .host (.dict its), .int off, idxT idx', .host .kwargs] [] st)
      (wItem c idx' it ⟨off, st.payload, st.env⟩)) → ∀ (off : Nat) (vars : List (Name × V AO)) (st : ASt),
    getVar vars 0x73656c66 = some (.host .self) → getVar vars 0x6764696374 = some (.host (.dict its)) →
    getVar vars 0x6f6666736574 = some (.int off) → getVar vars 0x696e646578 = some (idxT idx') →
    getVar vars 0x6b7761726773 = some (.host .kwargs) →
    (match wItems c idx' l ⟨off, st.payload, st.env⟩ with
     | .ok s => ∃ vars', forLoop (forBody H F 0x6b657931 grpInnerBody) (l.map (fun i => V.str (Item.key i))) ⟨vars, st⟩
          = (.ok .next, ⟨vars', ⟨s.payload, s.env⟩⟩) ∧ getVar vars' 0x6f6666736574 = some (.int s.off)
          ∧ getVar vars' 0x696e646578 = some (idxT idx')
          ∧ ∀ x, x ≠ 0x6f6666736574 → x ≠ 0x696e646578 → x ≠ 0x6b657931 → getVar vars' x = getVar vars x
     | .error e => (forLoop (forBody H F 0x6b657931 grpInnerBody) (l.map (fun i => V.str (Item.key i))) ⟨vars, st⟩).1
          = .error (.exc (excName e) 0)) := by
  whs
  intro l
  induction l with
  | nil =>
    intro _ off vars st _ _ gOff gIdx _
    simp only [wItems, List.map_nil, forLoop]
    exact ⟨vars, rfl, gOff, gIdx, fun _ _ _ _ => rfl⟩
  | cons it rest ih =>
    intro hl off vars st gSelf gD gOff gIdx gKw
    have hb := grp_inner_body c cls id mode H hH F its it off idx' vars st (hl it (by simp) off st) gSelf gD gOff gIdx gKw
    rw [List.map_cons, forLoop, wItems]
    generalize forBody H F 0x6b657931 grpInnerBody (.str (Item.key it)) ⟨vars, st⟩ = r0 at hb ⊢
    obtain ⟨r, ⟨vars1, st1⟩⟩ := r0
    cases hm : wItem c idx' it ⟨off, st.payload, st.env⟩ with
    | error e =>
      rw [hm] at hb
      simp only [InnerPost] at hb
      subst hb
      rfl
    | ok s =>
      rw [hm] at hb
      simp only [InnerPost] at hb
      obtain ⟨h1, h2, h3, h4, h5⟩ := hb
      subst h1; subst h2
      simp only
      have := ih (fun i hi => hl i (by simp [hi])) s.off vars1 ⟨s.payload, s.env⟩
        (by rw [h5 _ (by decide) (by decide) (by decide)]; exact gSelf)
        (by rw [h5 _ (by decide) (by decide) (by decide)]; exact gD) h3 h4
        (by rw [h5 _ (by decide) (by decide) (by decide)]; exact gKw)
      cases hs : wItems c idx' rest s with
      | error e => rw [hs] at this; exact this
      | ok t =>
        rw [hs] at this
        obtain ⟨vars', e1, e2, e3, e4⟩ := this
        exact ⟨vars', e1, e2, e3, fun x a b d => by rw [e4 x a b d, h5 x a b d]⟩

/-- every member of the group, reached through `self._set_attribute`, behaves as `wItem` — whatever the repetition, offset and message state -/
def ItemsOK (c : WCtx) (H : Host AO ASt) (idx : List Nat) (its : List Item) : Prop :=
  ∀ (a : Nat), ∀ it ∈ its, ∀ (off : Nat) (st : ASt),
    SpecW (idx ++ [a + 1]) (H.mcall (.host .self) 0x5f7365745f617474726962757465 [.str (Item.key it), .host (.dict its), .int off, idxT (idx ++ [a + 1]), .host .kwargs] [] st)
      (wItem c (idx ++ [a + 1]) it ⟨off, st.payload, st.env⟩)

def OuterPost (res : R WState) (idx' : List Nat) (vars : List (Name × V AO)) (r : X AO (Flow AO) × St AO ASt) : Prop :=
  match res with
  | .ok s => r.1 = .ok .next ∧ r.2.h = ⟨s.payload, s.env⟩ ∧ getVar r.2.vars 0x6f6666736574 = some (.int s.off)
      ∧ getVar r.2.vars 0x696e646578 = some (idxT idx')
      ∧ ∀ x, x ≠ 0x6f6666736574 → x ≠ 0x696e646578 → x ≠ 0x6b657931 → x ≠ 0x69 → getVar r.2.vars x = getVar vars x
  | .error e => r.1 = .error (.exc (excName e) 0)

theorem grp_outer_body (hH : WalkLike c cls id mode H) (F : Nat) (its : List Item) (idx : List Nat) (hks : ItemsOK c H idx its)
    (jv : V AO) (a off : Nat) (vars : List (Name × V AO)) (st : ASt)
    (gSelf : getVar vars 0x73656c66 = some (.host .self)) (gD : getVar vars 0x6764696374 = some (.host (.dict its)))
    (gOff : getVar vars 0x6f6666736574 = some (.int off))
    (gIdx : getVar vars 0x696e646578 = some (.tuple (idx.map (fun (i : Nat) => (V.int (i : Int) : V AO)) ++ [jv])))
    (gKw : getVar vars 0x6b7761726773 = some (.host .kwargs)) :
    OuterPost (wItems c (idx ++ [a + 1]) its ⟨off, st.payload, st.env⟩) (idx ++ [a + 1]) vars
      (forBody H F 0x69 grpOuterBody (.int a) ⟨vars, st⟩) := by
  whs
  simp only [forBody, grpOuterBody, grpOuter, grpElse, grpIf, fn_UBXMessage__set_attribute_group]
  have fr : ∀ (vs : List (Name × V AO)) (x y : Name) (v : V AO), ¬ x = y → getVar (setVar vs y v) x = getVar vs x :=
    fun vs x y v h => getVar_setVar_ne vs y x v (fun e => h e.symm)
  have hne : (List.map (fun (i : Nat) => (V.int (i : Int) : V AO)) idx ++ [jv]).isEmpty = false := by simp
  have hidx' : (V.tuple (List.map (fun (i : Nat) => (V.int (i : Int) : V AO)) idx ++ [V.int ((a : Int) + 1)]) : V AO) = idxT (idx ++ [a + 1]) := by
    simp [idxT]
  pystep [gIdx, List.dropLast_concat, hne, Bool.false_eq_true, gD, wh_mkw, wh_mdict, aMcall, hidx']
  have hl := grp_inner_loop c cls id mode H hH F its (idx ++ [a + 1]) its (hks a) off
    (setVar (setVar vars 0x69 (.int a)) 0x696e646578 (idxT (idx ++ [a + 1]))) st
    (by rw [fr _ _ _ _ (by decide), fr _ _ _ _ (by decide)]; exact gSelf)
    (by rw [fr _ _ _ _ (by decide), fr _ _ _ _ (by decide)]; exact gD)
    (by rw [fr _ _ _ _ (by decide), fr _ _ _ _ (by decide)]; exact gOff)
    (by rw [getVar_setVar_same])
    (by rw [fr _ _ _ _ (by decide), fr _ _ _ _ (by decide)]; exact gKw)
  simp only [grpInnerBody, grpInner, grpOuterBody, grpOuter, grpElse, grpIf, fn_UBXMessage__set_attribute_group] at hl
  cases hw : wItems c (idx ++ [a + 1]) its ⟨off, st.payload, st.env⟩ with
  | error e =>
    rw [hw] at hl
    simp only [OuterPost]
    generalize forLoop _ _ _ = r at hl ⊢
    obtain ⟨r1, r2⟩ := r
    simp only at hl
    subst hl
    rfl
  | ok s =>
    rw [hw] at hl
    obtain ⟨vars', g1, g2, g3, g4⟩ := hl
    simp only [OuterPost]
    rw [g1]
    refine ⟨rfl, rfl, g2, g3, ?_⟩
    intro x h1 h2 h3 h4
    simp only
    rw [g4 x h1 h2 h3, fr _ _ _ _ h2, fr _ _ _ _ h4]

def intV (i : Nat) : V AO := .int (i : Int)

theorem grp_outer_loop (hH : WalkLike c cls id mode H) (F : Nat) (its : List Item) (idx : List Nat) (hks : ItemsOK c H idx its) :
    ∀ (k a off : Nat) (jv : V AO) (vars : List (Name × V AO)) (st : ASt),
    getVar vars 0x73656c66 = some (.host .self) → getVar vars 0x6764696374 = some (.host (.dict its)) →
    getVar vars 0x6f6666736574 = some (.int off) →
    getVar vars 0x696e646578 = some (.tuple (idx.map (fun (i : Nat) => (V.int (i : Int) : V AO)) ++ [jv])) →
    getVar vars 0x6b7761726773 = some (.host .kwargs) →
    (match repeatN (fun i s => wItems c (idx ++ [i]) its s) k (a + 1) ⟨off, st.payload, st.env⟩ with
     | .ok s => ∃ vars' jv', forLoop (forBody H F 0x69 grpOuterBody) ((List.range' a k).map intV) ⟨vars, st⟩
          = (.ok .next, ⟨vars', ⟨s.payload, s.env⟩⟩) ∧ getVar vars' 0x6f6666736574 = some (.int s.off)
          ∧ getVar vars' 0x696e646578 = some (.tuple (idx.map (fun (i : Nat) => (V.int (i : Int) : V AO)) ++ [jv']))
          ∧ ∀ x, x ≠ 0x6f6666736574 → x ≠ 0x696e646578 → x ≠ 0x6b657931 → x ≠ 0x69 → getVar vars' x = getVar vars x
     | .error e => (forLoop (forBody H F 0x69 grpOuterBody) ((List.range' a k).map intV) ⟨vars, st⟩).1
          = .error (.exc (excName e) 0)) := by
  whs
  intro k
  induction k with
  | zero =>
    intro a off jv vars st _ _ gOff gIdx _
    simp only [repeatN, List.range'_zero, List.map_nil, forLoop]
    exact ⟨vars, jv, rfl, gOff, gIdx, fun _ _ _ _ _ => rfl⟩
  | succ k ih =>
    intro a off jv vars st gSelf gD gOff gIdx gKw
    have hb := grp_outer_body c cls id mode H hH F its idx hks jv a off vars st gSelf gD gOff gIdx gKw
    rw [List.range'_succ, List.map_cons, forLoop, repeatN]
    simp only [intV] at hb ⊢
    generalize forBody H F 0x69 grpOuterBody (.int (a : Int)) ⟨vars, st⟩ = r0 at hb ⊢
    obtain ⟨r, ⟨vars1, st1⟩⟩ := r0
    cases hm : wItems c (idx ++ [a + 1]) its ⟨off, st.payload, st.env⟩ with
    | error e =>
      rw [hm] at hb
      simp only [OuterPost] at hb
      subst hb
      rfl
    | ok s =>
      rw [hm] at hb
      simp only [OuterPost] at hb
      obtain ⟨h1, h2, h3, h4, h5⟩ := hb
      subst h1; subst h2
      simp only
      have h4' : getVar vars1 0x696e646578 = some (.tuple (idx.map (fun (i : Nat) => (V.int (i : Int) : V AO)) ++ [.int ((a + 1 : Nat) : Int)])) := by
        rw [h4]; simp [idxT]
      have := ih (a + 1) s.off (.int ((a + 1 : Nat) : Int)) vars1 ⟨s.payload, s.env⟩
        (by rw [h5 _ (by decide) (by decide) (by decide) (by decide)]; exact gSelf)
        (by rw [h5 _ (by decide) (by decide) (by decide) (by decide)]; exact gD) h3 h4'
        (by rw [h5 _ (by decide) (by decide) (by decide) (by decide)]; exact gKw)
      simp only [intV] at this
      cases hs : repeatN (fun i s => wItems c (idx ++ [i]) its s) k (a + 1 + 1) s with
      | error e => rw [hs] at this; exact this
      | ok t =>
        rw [hs] at this
        obtain ⟨vars', jv', e1, e2, e3, e4⟩ := this
        exact ⟨vars', jv', e1, e2, e3, fun x a b d f => by rw [e4 x a b d f, h5 x a b d f]⟩

theorem aglob_GET : aGlob 0x474554 = some (.int 0) := rfl
theorem aglob_SET : aGlob 0x534554 = some (.int 1) := rfl

def grpS1 : S := match fn_UBXMessage__set_attribute_group.body with | [s, _, _, _, _] => s | _ => .pass
def grpS2 : S := match fn_UBXMessage__set_attribute_group.body with | [_, s, _, _, _] => s | _ => .pass
def grpS4 : S := match fn_UBXMessage__set_attribute_group.body with | [_, _, _, s, _] => s | _ => .pass
def grpS5 : S := match fn_UBXMessage__set_attribute_group.body with | [_, _, _, _, s] => s | _ => .pass
def grpThen : List S := match grpIf with | .if_ _ t _ => t | _ => []
theorem grp_body : fn_UBXMessage__set_attribute_group.body = [grpS1, grpS2, grpIf, grpS4, grpS5] := rfl

/-- the test that sends CFG-VALGET (GET) and CFG-VALSET (SET) to the key/value walker -/
def cfgvalB (cls id : Bytes) (mode : Nat) : Bool :=
  (cls == [0x06]) && (((id == [0x8b]) && ((mode : Int) == 0)) || ((id == [0x8a]) && ((mode : Int) == 1)))

theorem grp_if_eq (hH : WalkLike c cls id mode H) (F : Nat) (vars : List (Name × V AO)) (st : ASt) (gSelf : getVar vars 0x73656c66 = some (.host .self)) :
    execS H F grpIf ⟨vars, st⟩
      = (if cfgvalB cls id mode then execB H F grpThen ⟨vars, st⟩
         else execB H F grpElse ⟨vars, st⟩) := by
  whs
  simp only [grpIf, grpThen, grpElse, fn_UBXMessage__set_attribute_group, cfgvalB]
  rw [execS_if]
  rcases Bool.eq_false_or_eq_true (cls == [0x06]) with h1 | h1 <;> rcases Bool.eq_false_or_eq_true (id == [0x8b]) with h2 | h2
    <;> rcases Bool.eq_false_or_eq_true ((mode : Int) == 0) with h3 | h3 <;> rcases Bool.eq_false_or_eq_true (id == [0x8a]) with h4 | h4
    <;> rcases Bool.eq_false_or_eq_true ((mode : Int) == 1) with h5 | h5
    <;> pysimp [gSelf, wh_attr, aAttr, wh_glob, aglob_GET, aglob_SET, h1, h2, h3, h4, h5, Bool.false_eq_true, Bool.and_false, Bool.and_true, Bool.or_false, Bool.or_true, Bool.and_self, Bool.or_self]

theorem setVar_setVar_same (vs : List (Name × V AO)) (x : Name) (a b : V AO) : setVar (setVar vs x a) x b = setVar vs x b := by
  induction vs with
  | nil => simp [setVar]
  | cons p ps ih =>
    obtain ⟨n, w⟩ := p
    by_cases h : n = x
    · simp [setVar, h]
    · simp [setVar, h, ih]

def grpCount : S := match grpElse with | [s, _] => s | _ => .pass
theorem grp_else : grpElse = [grpCount, grpOuter] := rfl

def gcC1 : E := match grpCount with | .if_ c _ _ => c | _ => .none
def gcT1 : List S := match grpCount with | .if_ _ t _ => t | _ => []
def gcE1 : List S := match grpCount with | .if_ _ _ e => e | _ => []
def gcIf2 : S := match gcE1 with | [s] => s | _ => .pass
def gcC2 : E := match gcIf2 with | .if_ c _ _ => c | _ => .none
def gcT2 : List S := match gcIf2 with | .if_ _ t _ => t | _ => []
def gcE2 : List S := match gcIf2 with | .if_ _ _ e => e | _ => []
def gcGetattr : S := match gcE2 with | [s, _] => s | _ => .pass
def esfIf : S := match gcE2 with | [_, s] => s | _ => .pass
def esfCond : E := match esfIf with | .if_ c _ _ => c | _ => .none
def esfThen : List S := match esfIf with | .if_ _ t _ => t | _ => []
theorem grpCount_def : grpCount = .if_ gcC1 gcT1 [.if_ gcC2 gcT2 [gcGetattr, esfIf]] := rfl
theorem esfIf_def : esfIf = .if_ esfCond esfThen [] := rfl

/-- values the interpreter carries natively (ints, bools, bytes, None) -/
def Native : PyVal → Prop
  | .int _ | .bool _ | .bytes _ | .none => True
  | _ => False

def esfB (cls id : Bytes) (mode : Nat) : Bool := (cls == [0x10]) && ((id == [0x02]) && ((mode : Int) == 1))

theorem range_ofPy (g : PyVal) (st : ASt) :
    aCall c 0x72616e6765 [V.ofPy g] [] st
      = (match g.asInt? with
         | some i => (.ok (.tuple ((List.range' 0 i.toNat).map intV)), st)
         | none => (.error (.exc xTypeError 0), st)) := by
  cases g with
  | bool b => cases b <;> simp [aCall, V.ofPy, PyVal.asInt?, List.range_eq_range', intV]
  | _ => simp [aCall, V.ofPy, PyVal.asInt?, List.range_eq_range', intV]

def calibTruthy (env : Env) : Bool :=
  match env.get? ⟨nmCalibTtagValid, []⟩ with
  | some v => v.truthy
  | none => false

theorem esf_cond (hH : WalkLike c cls id mode H) (F : Nat) (vars : List (Name × V AO)) (st : ASt) (gSelf : getVar vars 0x73656c66 = some (.host .self)) :
    evalCond H F esfCond ⟨vars, st⟩ = (.ok (esfB cls id mode), ⟨vars, st⟩) := by
  whs
  simp only [esfCond, esfIf, gcE2, gcIf2, gcE1, grpCount, grpElse, grpIf, fn_UBXMessage__set_attribute_group, esfB]
  rcases Bool.eq_false_or_eq_true (cls == [0x10]) with h1 | h1 <;> rcases Bool.eq_false_or_eq_true (id == [0x02]) with h2 | h2
    <;> rcases Bool.eq_false_or_eq_true ((mode : Int) == 1) with h3 | h3
    <;> pysimp [gSelf, wh_attr, aAttr, wh_glob, aglob_SET, h1, h2, h3, Bool.false_eq_true, Bool.and_false, Bool.and_true, Bool.and_self]

theorem truthy_native (hH : WalkLike c cls id mode H) (v : PyVal) (hv : Native v) : truthy H (V.ofPy v) = .ok v.truthy := by
  whs
  cases v with
  | int i => by_cases h : i = 0 <;> simp [truthy, V.ofPy, PyVal.truthy, h]
  | bool b => simp [truthy, V.ofPy, PyVal.truthy]
  | bytes b => simp [truthy, V.ofPy, PyVal.truthy]
  | none => simp [truthy, V.ofPy, PyVal.truthy]
  | float _ => simp [Native] at hv
  | str _ => simp [Native] at hv
  | ints _ => simp [Native] at hv
  | other => simp [Native] at hv

theorem esf_if_eq (hH : WalkLike c cls id mode H) (F : Nat) (vars : List (Name × V AO)) (st : ASt) (g : PyVal)
    (gSelf : getVar vars 0x73656c66 = some (.host .self)) (gG : getVar vars 0x6773697a = some (V.ofPy g))
    (hN : esfB cls id mode = true → ∀ v, st.env.get? ⟨nmCalibTtagValid, []⟩ = some v → Native v) :
    execS H F esfIf ⟨vars, st⟩
      = (if esfB cls id mode && calibTruthy st.env then
           (match binOp .add (V.ofPy g) (.int 1) with
            | .ok r => (.ok .next, ⟨setVar vars 0x6773697a r, st⟩)
            | .error e => (.error e, ⟨vars, st⟩))
         else (.ok .next, ⟨vars, st⟩)) := by
  whs
  rw [esfIf_def, execS_if, esf_cond c cls id mode H hH F vars st gSelf]
  rcases Bool.eq_false_or_eq_true (esfB cls id mode) with hb | hb
  · simp only [hb, Bool.true_and]
    simp only [esfThen, esfIf, gcE2, gcIf2, gcE1, grpCount, grpElse, grpIf, fn_UBXMessage__set_attribute_group]
    unfold calibTruthy
    cases hc : st.env.get? ⟨nmCalibTtagValid, []⟩ with
    | none =>
      simp [nmCalibTtagValid] at hc
      pysimp [gSelf, wh_call, aCall, anameOfA, hc, bne_self_eq_false, Bool.false_eq_true]
    | some v =>
      have hv := hN hb v hc
      simp [nmCalibTtagValid] at hc
      cases v with
      | int i =>
        by_cases h : i = 0
        · subst h
          pysimp [gSelf, wh_call, aCall, anameOfA, hc, V.ofPy, PyVal.truthy, bne_self_eq_false, Bool.false_eq_true, decide_false]
        · have hne : (i != 0) = true := by simp [h]
          pysimp [gSelf, wh_call, aCall, anameOfA, hc, V.ofPy, PyVal.truthy, hne, h, decide_true, gG]
          cases g <;> rfl
      | bool b =>
        cases b
        · pysimp [gSelf, wh_call, aCall, anameOfA, hc, V.ofPy, PyVal.truthy, Bool.false_eq_true]
        · pysimp [gSelf, wh_call, aCall, anameOfA, hc, V.ofPy, PyVal.truthy, gG]
          cases g <;> rfl
      | bytes b =>
        cases hbe : b.isEmpty
        · pysimp [gSelf, wh_call, aCall, anameOfA, hc, V.ofPy, PyVal.truthy, hbe, Bool.not_false, gG]
          cases g <;> rfl
        · pysimp [gSelf, wh_call, aCall, anameOfA, hc, V.ofPy, PyVal.truthy, hbe, Bool.not_true, Bool.false_eq_true]
      | none => pysimp [gSelf, wh_call, aCall, anameOfA, hc, V.ofPy, PyVal.truthy, Bool.false_eq_true]
      | float _ => simp [Native] at hv
      | str _ => simp [Native] at hv
      | ints _ => simp [Native] at hv
      | other => simp [Native] at hv
  · simp only [hb, Bool.false_and, Bool.false_eq_true, ↓reduceIte]
    pysimp

theorem namedCount_eq (a : Name) (env : Env) :
    namedCount c a env
      = (match env.get? ⟨a, []⟩ with
         | none => .error .attributeE
         | some g =>
           match g.asInt? with
           | some i => .ok (if (c.esfmeas && calibTruthy env) = true then i + 1 else i).toNat
           | none => .error .typeE) := by
  unfold namedCount calibTruthy
  cases env.get? ⟨a, []⟩ with
  | none => rfl
  | some g => cases g.asInt? <;> rfl

def GsizPost (res : R Nat) (vars : List (Name × V AO)) (st : ASt) (r : X AO (Flow AO) × St AO ASt) : Prop :=
  match res with
  | .ok k => ∃ g, r = (.ok .next, ⟨setVar vars 0x6773697a g, st⟩)
      ∧ aCall c 0x72616e6765 [g] [] st = (.ok (.tuple ((List.range' 0 k).map intV)), st)
  | .error e => r.1 = .error (.exc (excName e) 0) ∨
      ∃ g, r = (.ok .next, ⟨setVar vars 0x6773697a g, st⟩) ∧ aCall c 0x72616e6765 [g] [] st = (.error (.exc (excName e) 0), st)

/-- `self._calc_num_repeats(gdict, payload, offset, 0)` behaves as `calcNumRepeats` -/
def CalcOK (H : Host AO ASt) (its : List Item) : Prop :=
  ∀ (p : Bytes) (off : Nat) (st : ASt),
    (match calcNumRepeats its p off with
     | .ok k => H.mcall (.host .self) 0x5f63616c635f6e756d5f72657065617473 [.host (.dict its), .bytes p, .int off, .int 0] [] st = (.ok (.int k), st)
     | .error e => (H.mcall (.host .self) 0x5f63616c635f6e756d5f72657065617473 [.host (.dict its), .bytes p, .int off, .int 0] [] st).1 = .error (.exc (excName e) 0))

theorem grp_count (hH : WalkLike c cls id mode H) (F : Nat) (cnt : Count) (its : List Item) (hcalc : CalcOK H its) (hnamed : ∀ a, cnt = .named a → a ≠ sNone)
    (hesf : c.esfmeas = esfB cls id mode)
    (off : Nat) (vars : List (Name × V AO)) (st : ASt)
    (hnat : c.esfmeas = true → ∀ a, cnt = .named a →
      (∀ v, st.env.get? ⟨nmCalibTtagValid, []⟩ = some v → Native v) ∧ (∀ g, st.env.get? ⟨a, []⟩ = some g → Native g))
    (gSelf : getVar vars 0x73656c66 = some (.host .self)) (gA : getVar vars 0x616e616d = some (cntV cnt))
    (gD : getVar vars 0x6764696374 = some (.host (.dict its))) (gOff : getVar vars 0x6f6666736574 = some (.int off)) :
    GsizPost c (groupCount c cnt its ⟨off, st.payload, st.env⟩) vars st
      (execS H F grpCount ⟨vars, st⟩) := by
  whs
  cases cnt with
  | fixed k =>
    simp only [grpCount, grpElse, grpIf, fn_UBXMessage__set_attribute_group]
    simp only [cntV] at gA
    pysimp [gA, groupCount, GsizPost]
    exact ⟨_, rfl, by simp [aCall, List.range_eq_range', intV]⟩
  | var =>
    simp only [grpCount, grpElse, grpIf, fn_UBXMessage__set_attribute_group]
    simp only [cntV] at gA
    have hc := hcalc st.payload off st
    cases hcn : calcNumRepeats its st.payload off with
    | error e =>
      rw [hcn] at hc
      simp only at hc
      pysimp [gA, groupCount, sNone, beq_self_eq_true, gSelf, gD, gOff, wh_attr, aAttr, hc, hcn, builtinMethod, GsizPost]
    | ok k =>
      rw [hcn] at hc
      simp only at hc
      pysimp [gA, groupCount, sNone, beq_self_eq_true, gSelf, gD, gOff, wh_attr, aAttr, hc, hcn, builtinMethod, GsizPost]
      exact ⟨_, rfl, by simp [aCall, List.range_eq_range', intV]⟩
  | named a =>
    have ha : a ≠ sNone := hnamed a rfl
    have ha' : (a == 1315925605) = false := by simpa [sNone] using ha
    simp only [cntV] at gA
    simp only [groupCount, namedCount_eq]
    rw [grpCount_def, execS_if]
    simp only [gcC1, grpCount, grpElse, grpIf, fn_UBXMessage__set_attribute_group]
    pysimp [gA]
    simp only [gcC2, gcIf2, gcE1, grpCount, grpElse, grpIf, fn_UBXMessage__set_attribute_group]
    pysimp [gA, ha']
    rw [execB_cons]
    simp only [gcGetattr, gcE2, gcIf2, gcE1, grpCount, grpElse, grpIf, fn_UBXMessage__set_attribute_group]
    cases hg : st.env.get? ⟨a, []⟩ with
    | none =>
      pysimp [gA, gSelf, wh_call, aCall, anameOfA, hg]
      simp [GsizPost, excName]
    | some g =>
      pysimp [gA, gSelf, wh_call, aCall, anameOfA, hg]
      rw [esf_if_eq c cls id mode H hH F _ st g (by rw [getVar_setVar_ne _ _ _ _ (by decide)]; exact gSelf) (by rw [getVar_setVar_same])
        (fun hb v hv => (hnat (by rw [hesf]; exact hb) a rfl).1 v hv)]
      rw [hesf]
      rcases Bool.eq_false_or_eq_true (esfB cls id mode && calibTruthy st.env) with hb | hb
      · have hN : Native g := (hnat (by rw [hesf]; simp only [Bool.and_eq_true] at hb; exact hb.1) a rfl).2 g hg
        simp only [hb, ↓reduceIte]
        cases g with
        | int i =>
          simp only [V.ofPy, binOp, asInt?, binInt, PyVal.asInt?, GsizPost, setVar_setVar_same]
          exact ⟨_, rfl, by simp [aCall, List.range_eq_range', intV]⟩
        | bool b =>
          simp only [V.ofPy, binOp, asInt?, binInt, PyVal.asInt?, GsizPost, setVar_setVar_same]
          exact ⟨_, rfl, by simp [aCall, List.range_eq_range', intV]⟩
        | bytes b => simp [V.ofPy, binOp, asInt?, PyVal.asInt?, GsizPost, excName, raiseX]
        | none => simp [V.ofPy, binOp, asInt?, PyVal.asInt?, GsizPost, excName, raiseX]
        | float _ => simp [Native] at hN
        | str _ => simp [Native] at hN
        | ints _ => simp [Native] at hN
        | other => simp [Native] at hN
      · simp only [hb, Bool.false_eq_true, ↓reduceIte]
        have hr := range_ofPy c g st
        cases hgi : g.asInt? with
        | some i =>
          rw [hgi] at hr
          simp only [GsizPost]
          exact ⟨_, rfl, hr⟩
        | none =>
          rw [hgi] at hr
          simp only [GsizPost]
          exact Or.inr ⟨_, rfl, by simpa [excName] using hr⟩

/-- `self._set_attribute_cfgval(offset, **kwargs)` behaves as `wCfgVal` -/
def CfgOK (c : WCtx) (H : Host AO ASt) : Prop :=
  ∀ (off : Nat) (st : ASt),
    (match wCfgVal c ⟨off, st.payload, st.env⟩ with
     | .ok s => H.mcall (.host .self) 0x5f7365745f6174747269627574655f63666776616c [.int off, .host .kwargs] [] st = (.ok .none, ⟨s.payload, s.env⟩)
     | .error e => (H.mcall (.host .self) 0x5f7365745f6174747269627574655f63666776616c [.int off, .host .kwargs] [] st).1 = .error (.exc (excName e) 0))

theorem grp_tail (hH : WalkLike c cls id mode H) (F : Nat) (idx : List Nat) (jv : V AO) (o : Int) (vars : List (Name × V AO)) (st : ASt)
    (gOff : getVar vars 0x6f6666736574 = some (.int o))
    (gIdx : getVar vars 0x696e646578 = some (.tuple (idx.map (fun (i : Nat) => (V.int (i : Int) : V AO)) ++ [jv]))) :
    retOf (execB H F [grpS4, grpS5] ⟨vars, st⟩) = (.ok (.tuple [.int o, idxT idx]), st) := by
  whs
  have hne : (List.map (fun (i : Nat) => (V.int (i : Int) : V AO)) idx ++ [jv]).isEmpty = false := by simp
  simp only [grpS4, grpS5, fn_UBXMessage__set_attribute_group]
  pystep [gIdx, hne, Bool.false_eq_true, List.dropLast_concat]
  pysimp [gOff, idxT]

theorem set_attribute_group_eq (hH : WalkLike c cls id mode H) (F : Nat) (cnt : Count) (its : List Item) (idx : List Nat)
    (hks : ItemsOK c H idx its) (hcalc : CalcOK H its) (hcfgv : CfgOK c H)
    (hnamed : ∀ a, cnt = .named a → a ≠ sNone) (hcfg : c.cfgval = cfgvalB cls id mode) (hesf : c.esfmeas = esfB cls id mode)
    (off : Nat) (st : ASt)
    (hnat : c.esfmeas = true → ∀ a, cnt = .named a →
      (∀ v, st.env.get? ⟨nmCalibTtagValid, []⟩ = some v → Native v) ∧ (∀ g, st.env.get? ⟨a, []⟩ = some g → Native g)) :
    SpecW idx (runFn H F fn_UBXMessage__set_attribute_group
          [.host .self, .tuple [cntV cnt, .host (.dict its)], .int off, idxT idx, .host .kwargs] st)
      (wGroup c idx cnt its ⟨off, st.payload, st.env⟩) := by
  simp only [SpecW]
  whs
  have fr : ∀ (vs : List (Name × V AO)) (x y : Name) (v : V AO), ¬ x = y → getVar (setVar vs y v) x = getVar vs x :=
    fun vs x y v h => getVar_setVar_ne vs y x v (fun e => h e.symm)
  simp only [runFn, grp_body, wGroup, wItem]
  have hp : fn_UBXMessage__set_attribute_group.params = [0x73656c66, 0x61646566, 0x6f6666736574, 0x696e646578, 0x6b7761726773] := rfl
  simp only [hp, List.zip_cons_cons, List.zip_nil_right]
  rw [execB_cons]
  simp only [grpS1, fn_UBXMessage__set_attribute_group]
  pysimp [idxT]
  rw [execB_cons]
  simp only [grpS2, fn_UBXMessage__set_attribute_group]
  pysimp [bindT]
  rw [execB_cons, grp_if_eq c cls id mode H hH F _ st (by pysimp), hcfg]
  rcases Bool.eq_false_or_eq_true (cfgvalB cls id mode) with hb | hb
  · simp only [hb, ↓reduceIte]
    simp only [grpThen, grpIf, fn_UBXMessage__set_attribute_group]
    have hc := hcfgv off st
    simp only [wCfgVal] at hc ⊢
    cases hpl : c.hasPayload
    · rw [hpl] at hc
      simp only [Bool.not_false, ↓reduceIte] at hc ⊢
      pysimp [hc]
    · rw [hpl] at hc
      simp only [Bool.not_true, Bool.false_eq_true, ↓reduceIte] at hc ⊢
      cases hcl : cfgLoop c st.payload (st.payload.length - off) (st.payload.length - off + 1) off st.env with
      | error e =>
        rw [hcl] at hc
        simp only at hc ⊢
        pysimp [hc]
      | ok env' =>
        rw [hcl] at hc
        simp only at hc ⊢
        pysimp [hc]
        have := grp_tail c cls id mode H hH F idx (.int 0) off
          [(1936026726, V.host AO.self), (1633969510, V.tuple [cntV cnt, V.host (AO.dict its)]),
              (122485596185972, V.int ↑off), (452823639416, V.tuple (List.map (fun (i : Nat) => (V.int (i : Int) : V AO)) idx ++ [V.int 0])),
              (118160480167795, V.host AO.kwargs), (1634623853, cntV cnt), (444066259828, V.host (AO.dict its))]
          ⟨st.payload, env'⟩ (by pysimp) (by pysimp)
        simp only [retOf] at this
        rw [this]
        rfl
  · simp only [hb, Bool.false_eq_true, ↓reduceIte]
    rw [grp_else, execB_cons]
    have hc := grp_count c cls id mode H hH F cnt its hcalc hnamed hesf off
      [(1936026726, V.host AO.self), (1633969510, V.tuple [cntV cnt, V.host (AO.dict its)]),
        (122485596185972, V.int ↑off), (452823639416, V.tuple (List.map (fun (i : Nat) => (V.int (i : Int) : V AO)) idx ++ [V.int 0])),
        (118160480167795, V.host AO.kwargs), (1634623853, cntV cnt), (444066259828, V.host (AO.dict its))] st hnat
      (by pysimp) (by pysimp) (by pysimp) (by pysimp)
    generalize execS H F grpCount _ = r0 at hc ⊢
    have hOuterOk : ∀ (vars : List (Name × V AO)) (g : V AO) (l : List (V AO)), getVar vars 0x6773697a = some g →
        aCall c 0x72616e6765 [g] [] st = (.ok (.tuple l), st) →
        execS H F grpOuter ⟨vars, st⟩
          = forLoop (forBody H F 0x69 grpOuterBody) l ⟨vars, st⟩ := by
      intro vars g l hg hr
      simp only [grpOuter, grpOuterBody, grpElse, grpIf, fn_UBXMessage__set_attribute_group]
      rw [execS_for]
      simp only [evalE, evalEs, hg, builtin, fLen, fBytes, fIntFromBytes, fIsinstance, fInt, fSetLast, fDropLast, xEOFError, xTypeError,
        xValueError, xKeyError, xStopIteration, xUBXParseError, xUBXMessageError, xUBXTypeError, xUBXStreamError, Nat.reduceEqDiff,
        ↓reduceIte, or_self, wh_call, List.zip_nil_right, hr, iterOf]
    have hOuterErr : ∀ (vars : List (Name × V AO)) (g : V AO) (e : V AO), getVar vars 0x6773697a = some g →
        aCall c 0x72616e6765 [g] [] st = (.error e, st) →
        execS H F grpOuter ⟨vars, st⟩ = (.error e, ⟨vars, st⟩) := by
      intro vars g e hg hr
      simp only [grpOuter, grpOuterBody, grpElse, grpIf, fn_UBXMessage__set_attribute_group]
      rw [execS_for]
      simp only [evalE, evalEs, hg, builtin, fLen, fBytes, fIntFromBytes, fIsinstance, fInt, fSetLast, fDropLast, xEOFError, xTypeError,
        xValueError, xKeyError, xStopIteration, xUBXParseError, xUBXMessageError, xUBXTypeError, xUBXStreamError, Nat.reduceEqDiff,
        ↓reduceIte, or_self, wh_call, List.zip_nil_right, hr]
    cases hgc : groupCount c cnt its ⟨off, st.payload, st.env⟩ with
    | error e =>
      rw [hgc] at hc
      simp only [GsizPost] at hc
      rcases hc with hc | ⟨g, hr0, hrange⟩
      · obtain ⟨r, st'⟩ := r0
        simp only at hc
        subst hc
        rfl
      · subst hr0
        simp only
        rw [execB_one, hOuterErr _ g _ (by rw [getVar_setVar_same]) hrange]
    | ok k =>
      rw [hgc] at hc
      simp only [GsizPost] at hc
      obtain ⟨g, hr0, hrange⟩ := hc
      subst hr0
      simp only
      rw [execB_one, hOuterOk _ g _ (by rw [getVar_setVar_same]) hrange]
      have hl := grp_outer_loop c cls id mode H hH F its idx hks k 0 off (.int 0)
        (setVar [(1936026726, V.host AO.self), (1633969510, V.tuple [cntV cnt, V.host (AO.dict its)]),
          (122485596185972, V.int ↑off), (452823639416, V.tuple (List.map (fun (i : Nat) => (V.int (i : Int) : V AO)) idx ++ [V.int 0])),
          (118160480167795, V.host AO.kwargs), (1634623853, cntV cnt), (444066259828, V.host (AO.dict its))] 0x6773697a g) st
        (by rw [fr _ _ _ _ (by decide)]; pysimp) (by rw [fr _ _ _ _ (by decide)]; pysimp) (by rw [fr _ _ _ _ (by decide)]; pysimp)
        (by rw [fr _ _ _ _ (by decide)]; pysimp) (by rw [fr _ _ _ _ (by decide)]; pysimp)
      simp only [Nat.zero_add] at hl
      cases hrep : repeatN (fun i s => wItems c (idx ++ [i]) its s) k 1 ⟨off, st.payload, st.env⟩ with
      | error e =>
        rw [hrep] at hl
        simp only at hl ⊢
        generalize forLoop _ _ _ = r at hl ⊢
        obtain ⟨r1, r2⟩ := r
        simp only at hl
        subst hl
        rfl
      | ok s =>
        rw [hrep] at hl
        obtain ⟨vars', jv', g1, g2, g3, g4⟩ := hl
        simp only
        rw [g1]
        simp only
        have := grp_tail c cls id mode H hH F idx jv' s.off vars' ⟨s.payload, s.env⟩ g2 g3
        simp only [retOf] at this
        rw [this]
        rfl

/-! ### `_set_attribute_single` -/

theorem anameOfA_nameVA (key : Name) (p : List Nat) : anameOfA (nameVA key p) = some ⟨key, p⟩ := by
  cases p <;> rfl
theorem nameVA_snoc (key : Name) (p : List Nat) (i : Nat) : nameVA key (p ++ [i]) = .host (.nm ⟨key, p ++ [i]⟩) := by
  cases p <;> rfl

def sgS (k : Nat) : S := fn_UBXMessage__set_attribute_single.body.getD k .pass
theorem sg_body : fn_UBXMessage__set_attribute_single.body = [sgS 0, sgS 1, sgS 2, sgS 3, sgS 4, sgS 5, sgS 6, sgS 7] := rfl

def sgSfxBody : List S := match sgS 3 with
  | .for_ _ _ b => b
  | _ => []

theorem sg_sfx_body (hH : WalkLike c cls id mode H) (F : Nat) (key : Name) (p : List Nat) (i : Nat) (hi : 0 < i) (vars : List (Name × V AO)) (st : ASt)
    (hk : getVar vars 0x616e616d69 = some (nameVA key p)) :
    forBody H F 0x69 sgSfxBody (.int i) ⟨vars, st⟩
      = (.ok .next, ⟨setVar (setVar vars 0x69 (.int i)) 0x616e616d69 (nameVA key (p ++ [i])), st⟩) := by
  whs
  simp only [forBody, sgSfxBody, sgS, fn_UBXMessage__set_attribute_single, List.getD_cons_succ, List.getD_cons_zero]
  have hpos : decide ((i : Int) > 0) = true := by simp; omega
  pysimp [hpos, wh_call, aCall, hk, anameOfA_nameVA, nameVA_snoc, Int.natCast_nonneg, Int.toNat_natCast]

theorem sg_sfx_loop (hH : WalkLike c cls id mode H) (F : Nat) (key : Name) (idx : List Nat) (hidx : ∀ i ∈ idx, 0 < i) : ∀ (p : List Nat) (vars : List (Name × V AO)) (st : ASt),
    getVar vars 0x616e616d69 = some (nameVA key p) →
    ∃ vars', forLoop (forBody H F 0x69 sgSfxBody) (idx.map (fun (i : Nat) => (V.int (i : Int) : V AO))) ⟨vars, st⟩ = (.ok .next, ⟨vars', st⟩)
      ∧ getVar vars' 0x616e616d69 = some (nameVA key (p ++ idx))
      ∧ ∀ x, x ≠ 0x616e616d69 → x ≠ 0x69 → getVar vars' x = getVar vars x := by
  whs
  induction idx with
  | nil => intro p vars st hk; exact ⟨vars, rfl, by simpa using hk, fun _ _ _ => rfl⟩
  | cons i rest ih =>
    intro p vars st hk
    have hi : 0 < i := hidx i (by simp)
    rw [List.map_cons, forLoop, sg_sfx_body c cls id mode H hH F key p i hi vars st hk]
    simp only
    obtain ⟨vars', h1, h2, h3⟩ := ih (fun j hj => hidx j (by simp [hj])) (p ++ [i])
      (setVar (setVar vars 0x69 (.int i)) 0x616e616d69 (nameVA key (p ++ [i]))) st (by rw [getVar_setVar_same])
    refine ⟨vars', h1, by rw [h2, List.append_assoc]; rfl, ?_⟩
    intro x hx1 hx2
    rw [h3 x hx1 hx2, getVar_setVar_ne _ _ _ _ (Ne.symm hx1), getVar_setVar_ne _ _ _ _ (Ne.symm hx2)]

theorem leadDigits_lt (i : Nat) : (leadDigits i).1 < 10 ∧ (leadDigits i).2 < 10 := by
  induction i using Nat.strongRecOn with
  | _ i ih =>
    unfold leadDigits
    by_cases h : i < 100
    · simp only [h, ↓reduceDIte]; omega
    · simp only [h, ↓reduceDIte]
      exact ih (i / 10) (by omega)

theorem nameLen_nmHP : nameLen nmHP = 3 := by decide +kernel

theorem hp_beq (n : Name) : (nameTake n 3 == 0x5f4850) = (decide (nameLen n ≥ 3) && decide (nameTake n 3 = nmHP)) := by
  by_cases h : nameLen n ≥ 3
  · simp only [h, decide_true, Bool.true_and, nmHP]
    by_cases hh : nameTake n 3 = 0x5f4850 <;> simp [hh]
  · have ht : nameTake n 3 = n := by simp only [nameTake]; rw [if_pos (by omega)]
    have hne : ¬ (n = 0x5f4850) := by
      intro heq
      have : nameLen n = 3 := by rw [heq]; exact nameLen_nmHP
      omega
    simp [h, ht, hne]

theorem hp_beq_render (n : Name) (i : Nat) :
    (renderPrefix3 n i == 0x5f4850) = (decide (nameLen n ≥ 3) && decide (nameTake n 3 = nmHP)) := by
  by_cases h : nameLen n ≥ 3
  · have : renderPrefix3 n i = nameTake n 3 := by simp [renderPrefix3, h]
    rw [this, hp_beq]
  · obtain ⟨h1, h2⟩ := leadDigits_lt i
    have hne : ¬ (renderPrefix3 n i = 0x5f4850) := by
      unfold renderPrefix3
      simp only [show ¬ (3 ≤ nameLen n) from h, ↓reduceIte]
      intro heq
      by_cases h2' : nameLen n = 2
      · rw [if_pos h2'] at heq
        have : @Eq Nat (n * 256 + 95) 6244432 := heq
        omega
      · rw [if_neg h2'] at heq
        by_cases h1' : nameLen n = 1
        · rw [if_pos h1'] at heq
          have : @Eq Nat (n * 65536 + 24320 + (48 + (leadDigits i).fst)) 6244432 := heq
          omega
        · rw [if_neg h1'] at heq
          have : 6225920 + (48 + (leadDigits i).fst) * 256 + (48 + (leadDigits i).snd) = 6244432 := heq
          omega
    simp [h, hne]
def sgT67 : List S := [sgS 6, sgS 7]

theorem toPyA_ofPy (v : PyVal) : toPyA (V.ofPy v) = v := by cases v <;> rfl

theorem aglob_SCALROUND : aGlob 0x5343414c524f554e44 = some (.int 12) := rfl

theorem sg_store (hH : WalkLike c cls id mode H) (F : Nat) (n : Name) (idx : List Nat) (v : PyVal) (off a : Int) (vars : List (Name × V AO)) (st : ASt)
    (gSelf : getVar vars 0x73656c66 = some (.host .self)) (gN : getVar vars 0x616e616d69 = some (nameVA n idx))
    (gV : getVar vars 0x76616c = some (V.ofPy v)) (gOff : getVar vars 0x6f6666736574 = some (.int off))
    (gA : getVar vars 0x6173697a = some (.int a)) :
    (match storeVal c idx n st.env v with
     | .ok env' => retOf (execB H F sgT67 ⟨vars, st⟩) = (.ok (.int (off + a)), ⟨st.payload, env'⟩)
     | .error e => (retOf (execB H F sgT67 ⟨vars, st⟩)).1 = .error (.exc (excName e) 0)) := by
  whs
  simp only [sgT67, sgS, fn_UBXMessage__set_attribute_single, List.getD_cons_succ, List.getD_cons_zero, storeVal]
  cases idx with
  | nil =>
    simp only [nameVA] at gN
    rcases Bool.eq_false_or_eq_true (decide (nameLen n ≥ 3) && decide (nameTake n 3 = nmHP)) with hB | hB
    · have hb' := hB
      rw [← hp_beq] at hb'
      simp only [hB, ↓reduceIte]
      pystep [gN, hb', gSelf, wh_call, aCall, anameOfA, gV, wh_glob, aglob_SCALROUND]
      cases hold : st.env.get? ⟨nameDrop n 3, []⟩ with
      | none => simp [excName]
      | some old =>
        simp only [toPyA_ofPy]
        pysimp [gV, toPyA_ofPy]
        cases hm : hpMerge old v with
        | error e => simp [encR]
        | ok r =>
          simp only [encR, toPyA_ofPy]
          cases hs : setAttr c st.env ⟨nameDrop n 3, []⟩ r with
          | error e => simp
          | ok env' =>
            simp only
            pysimp [gOff, gA]
    · have hb' := hB
      rw [← hp_beq] at hb'
      simp only [hB, Bool.false_eq_true, ↓reduceIte]
      pystep [gN, hb', gSelf, wh_call, aCall, anameOfA, gV, toPyA_ofPy, Bool.false_eq_true]
      cases hs : setAttr c st.env ⟨n, []⟩ v with
      | error e => simp
      | ok env' =>
        simp only
        pysimp [gOff, gA]
  | cons i rest =>
    simp only [nameVA] at gN
    rcases Bool.eq_false_or_eq_true (decide (nameLen n ≥ 3) && decide (nameTake n 3 = nmHP)) with hB | hB
    · have hb' := hB
      rw [← hp_beq_render n i] at hb'
      have h3 : 3 ≤ nameLen n := by
        simp only [Bool.and_eq_true, decide_eq_true_eq] at hB; exact hB.1
      simp only [hB, ↓reduceIte]
      pystep [gN, wh_index, aIndex, hb', h3, gSelf, wh_call, aCall, anameOfA, gV, wh_glob, aglob_SCALROUND]
      cases hold : st.env.get? ⟨nameDrop n 3, i :: rest⟩ with
      | none => simp [excName]
      | some old =>
        simp only [toPyA_ofPy]
        pysimp [gV, toPyA_ofPy]
        cases hm : hpMerge old v with
        | error e => simp [encR]
        | ok r =>
          simp only [encR, toPyA_ofPy]
          cases hs : setAttr c st.env ⟨nameDrop n 3, i :: rest⟩ r with
          | error e => simp
          | ok env' =>
            simp only
            pysimp [gOff, gA]
    · have hb' := hB
      rw [← hp_beq_render n i] at hb'
      simp only [hB, Bool.false_eq_true, ↓reduceIte]
      pystep [gN, wh_index, aIndex, hb', gSelf, wh_call, aCall, anameOfA, gV, toPyA_ofPy, Bool.false_eq_true]
      cases hs : setAttr c st.env ⟨n, i :: rest⟩ v with
      | error e => simp
      | ok env' =>
        simp only
        pysimp [gOff, gA]
def aresV : Scale → V AO
  | .one => .int 1
  | sc => .host (.scale sc)

/-- the value read or generated, and the payload afterwards: the middle of `wSingle` -/
def singleVal (c : WCtx) (idx : List Nat) (n : Name) (ty : Ty) (sc : Scale) (payload : Bytes) (off k : Nat) : R (PyVal × Bytes) :=
  if c.hasPayload then
    match readVal ty sc payload off k with
    | .error e => .error e
    | .ok v => .ok (v, payload)
  else
    match genVal c ⟨n, idx⟩ ty sc with
    | .error e => .error e
    | .ok vb => .ok (vb.1, payload ++ vb.2)

def SgPost5 (res : R (PyVal × Bytes)) (vars : List (Name × V AO)) (st : ASt) (r : X AO (Flow AO) × St AO ASt) : Prop :=
  match res with
  | .ok vp => r.1 = .ok .next ∧ r.2.h = ⟨vp.2, st.env⟩ ∧ getVar r.2.vars 0x76616c = some (V.ofPy vp.1)
      ∧ ∀ x, x ≠ 0x76616c → x ≠ 0x76616c62 → getVar r.2.vars x = getVar vars x
  | .error e => r.1 = .error (.exc (excName e) 0)

theorem sg_stage5 (hH : WalkLike c cls id mode H) (F : Nat) (n : Name) (idx : List Nat) (ty : Ty) (sc : Scale) (off k : Nat) (vars : List (Name × V AO)) (st : ASt)
    (gSelf : getVar vars 0x73656c66 = some (.host .self)) (gN : getVar vars 0x616e616d69 = some (nameVA n idx))
    (gD : getVar vars 0x61646566 = some (.host (.ty ty))) (gR : getVar vars 0x61726573 = some (aresV sc))
    (gOff : getVar vars 0x6f6666736574 = some (.int off)) (gA : getVar vars 0x6173697a = some (.int k))
    (gKw : getVar vars 0x6b7761726773 = some (.host .kwargs)) :
    SgPost5 (singleVal c idx n ty sc st.payload off k) vars st (execS H F (sgS 5) ⟨vars, st⟩) := by
  whs
  simp only [sgS, fn_UBXMessage__set_attribute_single, List.getD_cons_succ, List.getD_cons_zero, singleVal]
  have fr : ∀ (vs : List (Name × V AO)) (x y : Name) (v : V AO), ¬ x = y → getVar (setVar vs y v) x = getVar vs x :=
    fun vs x y v h => getVar_setVar_ne vs y x v (fun e => h e.symm)
  have hsl : pySlice st.payload (off : Int) ((off : Int) + (k : Int)) = slice st.payload off (off + k) := by
    rw [pySlice_nonneg _ _ _ (by omega) (by omega)]
    congr 1 <;> omega
  cases hp : c.hasPayload
  · -- generate
    simp only [Bool.false_eq_true, ↓reduceIte, genVal]
    rw [execS_if]
    pysimp [gKw, wh_contains, aContains, hp, Bool.false_eq_true]
    rw [execB_cons]
    pysimp [gKw, gN, gD, wh_call, aCall, wh_mkw, wh_mdict, aMcall, anameOfA_nameVA, builtinMethod]
    cases nomval ty with
    | error e => simp [SgPost5, encR]
    | ok nv =>
      simp only [encR]
      have hget : ((kwLookup c.kwargs ⟨n, idx⟩).map (V.ofPy : PyVal → V AO)).getD (V.ofPy nv)
          = V.ofPy ((kwLookup c.kwargs ⟨n, idx⟩).getD nv) := by
        cases kwLookup c.kwargs ⟨n, idx⟩ <;> rfl
      pysimp [anameOfA_nameVA, hget]
      generalize (kwLookup c.kwargs ⟨n, idx⟩).getD nv = v
      cases sc with
      | one =>
        simp only [aresV] at gR
        pystep [gR, gD, gSelf, wh_call, aCall, wh_attr, aAttr, beq_self_eq_true, toPyA_ofPy]
        cases val2bytes c.ctx.atttype v ty with
        | error e => simp [SgPost5, encR]
        | ok b =>
          simp only [encR, SgPost5]
          pysimp [gSelf, wh_attr, aAttr, wh_setattr, aSetattr]
          intro x h1 h2
          rw [fr _ _ _ _ h2, fr _ _ _ _ h1]
      | int m =>
        simp only [aresV] at gR
        pystep [gR, gD, gSelf, wh_call, aCall, wh_attr, aAttr, wh_eq, aEq, Bool.false_eq_true, toPyA_ofPy]
        cases scaleDown v (.int m) with
        | error e => simp [SgPost5, encR]
        | ok r =>
          simp only [encR]
          pysimp [gD, toPyA, wh_call, aCall]
          cases val2bytes c.ctx.atttype (.int r) ty with
          | error e => simp [SgPost5, encR]
          | ok b =>
            simp only [encR, SgPost5]
            pysimp [gSelf, wh_attr, aAttr, wh_setattr, aSetattr]
            intro x h1 h2
            rw [fr _ _ _ _ h2, fr _ _ _ _ h1]
      | flt f =>
        simp only [aresV] at gR
        pystep [gR, gD, gSelf, wh_call, aCall, wh_attr, aAttr, wh_eq, aEq, Bool.false_eq_true, toPyA_ofPy]
        cases scaleDown v (.flt f) with
        | error e => simp [SgPost5, encR]
        | ok r =>
          simp only [encR]
          pysimp [gD, toPyA, wh_call, aCall]
          cases val2bytes c.ctx.atttype (.int r) ty with
          | error e => simp [SgPost5, encR]
          | ok b =>
            simp only [encR, SgPost5]
            pysimp [gSelf, wh_attr, aAttr, wh_setattr, aSetattr]
            intro x h1 h2
            rw [fr _ _ _ _ h2, fr _ _ _ _ h1]
  · simp only [↓reduceIte, readVal, decodeVal]
    rw [execS_if]
    pysimp [gKw, wh_contains, aContains, hp, gSelf, wh_attr, aAttr, gOff, gA, hsl]
    cases sc with
    | one =>
      simp only [aresV] at gR
      pystep [gKw, wh_contains, aContains, hp, gSelf, wh_attr, aAttr, gOff, gA, hsl, gR, gD, wh_call, aCall, beq_self_eq_true]
      cases bytes2val (slice st.payload off (off + k)) ty with
      | error e => simp [SgPost5, encR]
      | ok v =>
        simp only [encR, SgPost5]
        pysimp
        intro x h1 h2
        rw [fr _ _ _ _ h1, fr _ _ _ _ h2]
    | int m =>
      simp only [aresV] at gR
      pystep [gKw, wh_contains, aContains, hp, gSelf, wh_attr, aAttr, gOff, gA, hsl, gR, gD, wh_call, aCall, wh_eq, aEq, Bool.false_eq_true, wh_glob, aglob_SCALROUND]
      cases bytes2val (slice st.payload off (off + k)) ty with
      | error e => simp [SgPost5, encR]
      | ok v =>
        simp only [encR, toPyA_ofPy]
        pysimp [gR, toPyA_ofPy]
        cases scaleUp v (.int m) with
        | error e => simp [SgPost5]
        | ok w =>
          simp only [SgPost5]
          pysimp
          intro x h1 h2
          rw [fr _ _ _ _ h1, fr _ _ _ _ h2]
    | flt b =>
      simp only [aresV] at gR
      pystep [gKw, wh_contains, aContains, hp, gSelf, wh_attr, aAttr, gOff, gA, hsl, gR, gD, wh_call, aCall, wh_eq, aEq, Bool.false_eq_true, wh_glob, aglob_SCALROUND]
      cases bytes2val (slice st.payload off (off + k)) ty with
      | error e => simp [SgPost5, encR]
      | ok v =>
        simp only [encR, toPyA_ofPy]
        pysimp [gR, toPyA_ofPy]
        cases scaleUp v (.flt b) with
        | error e => simp [SgPost5]
        | ok w =>
          simp only [SgPost5]
          pysimp
          intro x h1 h2
          rw [fr _ _ _ _ h1, fr _ _ _ _ h2]
theorem wSingle_eq (n : Name) (idx : List Nat) (ty : Ty) (sc : Scale) (ws : WState) :
    wSingle c idx n ty sc ws
      = (match fieldSize ty ws.payload with
         | .error e => .error e
         | .ok k =>
           match singleVal c idx n ty sc ws.payload ws.off k with
           | .error e => .error e
           | .ok vp =>
             match storeVal c idx n ws.env vp.1 with
             | .error e => .error e
             | .ok env' => .ok ⟨ws.off + k, vp.2, env'⟩) := by
  unfold wSingle singleVal
  cases fieldSize ty ws.payload with
  | error e => rfl
  | ok k =>
    simp only
    cases c.hasPayload
    · simp only [Bool.false_eq_true, ↓reduceIte]
      cases genVal c ⟨n, idx⟩ ty sc with
      | error e => rfl
      | ok vb => rfl
    · simp only [↓reduceIte]
      cases readVal ty sc ws.payload ws.off k with
      | error e => rfl
      | ok v => rfl

theorem aglob_CH : aGlob 0x4348 = some (.host (.ty .ch)) := rfl

theorem sg_stage4 (hH : WalkLike c cls id mode H) (F : Nat) (ty : Ty) (vars : List (Name × V AO)) (st : ASt)
    (gSelf : getVar vars 0x73656c66 = some (.host .self)) (gD : getVar vars 0x61646566 = some (.host (.ty ty))) :
    execS H F (sgS 4) ⟨vars, st⟩
      = (match fieldSize ty st.payload with
         | .ok k => (.ok .next, ⟨setVar vars 0x6173697a (.int k), st⟩)
         | .error e => (.error (.exc (excName e) 0), ⟨vars, st⟩)) := by
  whs
  simp only [sgS, fn_UBXMessage__set_attribute_single, List.getD_cons_succ, List.getD_cons_zero, fieldSize]
  cases ty with
  | ch => pysimp [gD, gSelf, wh_glob, aglob_CH, wh_eq, aEq, wh_attr, aAttr, beq_self_eq_true]
  | t l k =>
    have hne : (Ty.t l k == Ty.ch) = false := by simp
    pysimp [gD, gSelf, wh_glob, aglob_CH, wh_eq, aEq, hne, Bool.false_eq_true, wh_call, aCall, attsiz, encR, Int.toNat_natCast]
  | malformed l =>
    have hne : (Ty.malformed l == Ty.ch) = false := by simp
    pysimp [gD, gSelf, wh_glob, aglob_CH, wh_eq, aEq, hne, Bool.false_eq_true, wh_call, aCall, attsiz, encR]
theorem sgS3_def : sgS 3 = .for_ 0x69 (.var 0x696e646578) sgSfxBody := rfl

theorem sg_rest (hH : WalkLike c cls id mode H) (F : Nat) (n : Name) (idx : List Nat) (hidx : ∀ i ∈ idx, 0 < i) (ty : Ty) (sc : Scale) (off : Nat)
    (vars : List (Name × V AO)) (st : ASt)
    (gSelf : getVar vars 0x73656c66 = some (.host .self)) (gN : getVar vars 0x616e616d69 = some (.str n))
    (gD : getVar vars 0x61646566 = some (.host (.ty ty))) (gR : getVar vars 0x61726573 = some (aresV sc))
    (gOff : getVar vars 0x6f6666736574 = some (.int off)) (gIdx : getVar vars 0x696e646578 = some (idxT idx))
    (gKw : getVar vars 0x6b7761726773 = some (.host .kwargs)) :
    (match wSingle c idx n ty sc ⟨off, st.payload, st.env⟩ with
     | .ok s => retOf (execB H F (sgS 3 :: sgS 4 :: sgS 5 :: sgT67) ⟨vars, st⟩)
          = (.ok (.int s.off), ⟨s.payload, s.env⟩)
     | .error e => (retOf (execB H F (sgS 3 :: sgS 4 :: sgS 5 :: sgT67) ⟨vars, st⟩)).1
          = .error (.exc (excName e) 0)) := by
  whs
  rw [wSingle_eq]
  simp only
  rw [execB_cons, sgS3_def, execS_for]
  simp only [evalE, gIdx, idxT, iterOf]
  obtain ⟨vars1, hl, gN1, fr1⟩ := sg_sfx_loop c cls id mode H hH F n idx hidx [] vars st (by simpa [nameVA] using gN)
  rw [hl]
  simp only [List.nil_append] at gN1
  have gSelf1 : getVar vars1 0x73656c66 = some (.host .self) := by rw [fr1 _ (by decide) (by decide)]; exact gSelf
  have gD1 : getVar vars1 0x61646566 = some (.host (.ty ty)) := by rw [fr1 _ (by decide) (by decide)]; exact gD
  have gR1 : getVar vars1 0x61726573 = some (aresV sc) := by rw [fr1 _ (by decide) (by decide)]; exact gR
  have gOff1 : getVar vars1 0x6f6666736574 = some (.int off) := by rw [fr1 _ (by decide) (by decide)]; exact gOff
  have gKw1 : getVar vars1 0x6b7761726773 = some (.host .kwargs) := by rw [fr1 _ (by decide) (by decide)]; exact gKw
  simp only
  rw [execB_cons, sg_stage4 c cls id mode H hH F ty vars1 st gSelf1 gD1]
  cases hfs : fieldSize ty st.payload with
  | error e => simp [retOf]
  | ok k =>
    simp only
    rw [execB_cons]
    have fr : ∀ (vs : List (Name × V AO)) (x y : Name) (v : V AO), ¬ x = y → getVar (setVar vs y v) x = getVar vs x :=
      fun vs x y v h => getVar_setVar_ne vs y x v (fun e => h e.symm)
    have h5 := sg_stage5 c cls id mode H hH F n idx ty sc off k (setVar vars1 0x6173697a (.int k)) st
      (by rw [fr _ _ _ _ (by decide)]; exact gSelf1) (by rw [fr _ _ _ _ (by decide)]; exact gN1)
      (by rw [fr _ _ _ _ (by decide)]; exact gD1) (by rw [fr _ _ _ _ (by decide)]; exact gR1)
      (by rw [fr _ _ _ _ (by decide)]; exact gOff1) (by rw [getVar_setVar_same])
      (by rw [fr _ _ _ _ (by decide)]; exact gKw1)
    generalize execS H F (sgS 5) _ = r5 at h5 ⊢
    obtain ⟨r, ⟨vars2, st2⟩⟩ := r5
    cases hsv : singleVal c idx n ty sc st.payload off k with
    | error e =>
      rw [hsv] at h5
      simp only [SgPost5] at h5
      subst h5
      rfl
    | ok vp =>
      rw [hsv] at h5
      simp only [SgPost5] at h5
      obtain ⟨h1, h2, h3, h4⟩ := h5
      subst h1; subst h2
      simp only
      have hs := sg_store c cls id mode H hH F n idx vp.1 off k vars2 ⟨vp.2, st.env⟩
        (by rw [h4 _ (by decide) (by decide), fr _ _ _ _ (by decide)]; exact gSelf1)
        (by rw [h4 _ (by decide) (by decide), fr _ _ _ _ (by decide)]; exact gN1) h3
        (by rw [h4 _ (by decide) (by decide), fr _ _ _ _ (by decide)]; exact gOff1)
        (by rw [h4 _ (by decide) (by decide), getVar_setVar_same])
      cases hst : storeVal c idx n st.env vp.1 with
      | error e => rw [hst] at hs; exact hs
      | ok env' =>
        rw [hst] at hs
        simp only at hs ⊢
        rw [hs]
        simp [Int.natCast_add]

/-- `_set_attribute_single`, as written, is the model's `wSingle` -/
theorem set_attribute_single_eq (hH : WalkLike c cls id mode H) (F : Nat) (n : Name) (ty : Ty) (sc : Scale) (off : Nat) (idx : List Nat) (hidx : ∀ i ∈ idx, 0 < i)
    (st : ASt) :
    (match wSingle c idx n ty sc ⟨off, st.payload, st.env⟩ with
     | .ok s => runFn H F fn_UBXMessage__set_attribute_single
          [.host .self, .str n, defV (.attr n ty sc), .int off, idxT idx, .host .kwargs] st = (.ok (.int s.off), ⟨s.payload, s.env⟩)
     | .error e => (runFn H F fn_UBXMessage__set_attribute_single
          [.host .self, .str n, defV (.attr n ty sc), .int off, idxT idx, .host .kwargs] st).1 = .error (.exc (excName e) 0)) := by
  whs
  have hp : fn_UBXMessage__set_attribute_single.params = [0x73656c66, 0x616e616d, 0x61646566, 0x6f6666736574, 0x696e646578, 0x6b7761726773] := rfl
  have hb : fn_UBXMessage__set_attribute_single.body = sgS 0 :: sgS 1 :: sgS 2 :: sgS 3 :: sgS 4 :: sgS 5 :: sgT67 := rfl
  simp only [runFn, hp, hb, List.zip_cons_cons, List.zip_nil_right]
  have h012 : ∀ (dv : V AO), (dv = .host (.ty ty) ∧ sc = .one) ∨ (dv = .host (.scaled ty sc) ∧ sc ≠ .one) →
      ∃ vars, execB H F (sgS 0 :: sgS 1 :: sgS 2 :: sgS 3 :: sgS 4 :: sgS 5 :: sgT67)
          ⟨[(0x73656c66, .host .self), (0x616e616d, .str n), (0x61646566, dv), (0x6f6666736574, .int off), (0x696e646578, idxT idx),
            (0x6b7761726773, .host .kwargs)], st⟩
        = execB H F (sgS 3 :: sgS 4 :: sgS 5 :: sgT67) ⟨vars, st⟩
        ∧ getVar vars 0x73656c66 = some (.host .self) ∧ getVar vars 0x616e616d69 = some (.str n)
        ∧ getVar vars 0x61646566 = some (.host (.ty ty)) ∧ getVar vars 0x61726573 = some (aresV sc)
        ∧ getVar vars 0x6f6666736574 = some (.int off) ∧ getVar vars 0x696e646578 = some (idxT idx)
        ∧ getVar vars 0x6b7761726773 = some (.host .kwargs) := by
    intro dv hdv
    rcases hdv with ⟨rfl, rfl⟩ | ⟨rfl, hne⟩
    · refine ⟨[(0x73656c66, .host .self), (0x616e616d, .str n), (0x61646566, .host (.ty ty)), (0x6f6666736574, .int off),
          (0x696e646578, idxT idx), (0x6b7761726773, .host .kwargs), (0x61726573, .int 1), (0x616e616d69, .str n)], ?_, ?_⟩
      · rw [execB_cons]
        simp only [sgS, fn_UBXMessage__set_attribute_single, List.getD_cons_succ, List.getD_cons_zero]
        pysimp
        rw [execB_cons]
        pysimp [wh_call, aCall]
        rw [execB_cons]
        pysimp
      · pysimp [aresV]
    · refine ⟨[(0x73656c66, .host .self), (0x616e616d, .str n), (0x61646566, .host (.ty ty)), (0x6f6666736574, .int off),
          (0x696e646578, idxT idx), (0x6b7761726773, .host .kwargs), (0x61726573, .host (.scale sc)), (0x616e616d69, .str n)], ?_, ?_⟩
      · rw [execB_cons]
        simp only [sgS, fn_UBXMessage__set_attribute_single, List.getD_cons_succ, List.getD_cons_zero]
        pysimp
        rw [execB_cons]
        pysimp [wh_call, aCall, wh_index, aIndex]
        rw [execB_cons]
        pysimp [wh_call, aCall, wh_index, aIndex]
        rw [execB_cons]
        pysimp [wh_call, aCall, wh_index, aIndex]
      · cases sc with
        | one => exact absurd rfl hne
        | int m => pysimp [aresV]
        | flt b => pysimp [aresV]
  obtain ⟨vars, he, g1, g2, g3, g4, g5, g6, g7⟩ := h012 (defV (.attr n ty sc)) (by
    cases sc with
    | one => exact Or.inl ⟨rfl, rfl⟩
    | int m => exact Or.inr ⟨rfl, by simp⟩
    | flt b => exact Or.inr ⟨rfl, by simp⟩)
  rw [he]
  exact sg_rest c cls id mode H hH F n idx hidx ty sc off vars st g1 g2 g3 g4 g5 g6 g7

end Ubx.Py
