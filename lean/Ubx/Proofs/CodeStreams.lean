import Ubx.Proofs.CodeReadLoop
import Ubx.Proofs.Sources
/-!
# `_read_bytes` / `_read_line`, as written, over the stream object; `io.BytesIO` is the model's `fileSrc`

`read_bytes_eq`, `read_line_eq`: the two methods run against any stream object (`RawStream`: `read(n)` and
`readline()` return bytes, possibly fewer or none) classify the result exactly as `classifyRead` / `classifyLine`
say: EOFError for nothing, UBXStreamError for a short read / a line without LF, the data otherwise — including
`read(0)` (an empty RTCM3 payload), which is data, not end of stream (fix bb00c73). `file_read` / `file_line`: for
`io.BytesIO` (`take n` / through the next LF) that classification is the model's `fileRead` / `fileLine`, so
`fileSrc` — the source C06, C07, C09, C11, C12 are proved for — is what the code computes on a file-like stream.
-/
set_option maxRecDepth 10000
set_option linter.unusedSimpArgs false
namespace Ubx.Py
open Ubx Ubx.Gen.Code

/-- objects of the raw level: the reader and the stream object it was given -/
inductive SWO where
  | self
  | stream
deriving Repr

/-- the stream object as Python sees it: `read(n)` and `readline()` return bytes (possibly fewer / none) -/
structure RawStream (τ : Type) where
  read : Nat → τ → Bytes × τ
  line : τ → Bytes × τ

variable {τ : Type}

def rawMcall (R : RawStream τ) (obj : V SWO) (m : Name) (args : List (V SWO)) (_kw : List (Name × V SWO)) (t : τ) :
    X SWO (V SWO) × τ :=
  match obj with
  | .host .stream =>
    if m = 0x72656164 then                     -- read(size)
      match args with
      | [.int n] => if 0 ≤ n then ((.ok (.bytes (R.read n.toNat t).1)), (R.read n.toNat t).2) else (raiseX xUnsupported, t)
      | _ => (raiseX xUnsupported, t)
    else if m = 0x726561646c696e65 then        -- readline()
      match args with
      | [] => (.ok (.bytes (R.line t).1), (R.line t).2)
      | _ => (raiseX xUnsupported, t)
    else (raiseX xUnsupported, t)
  | _ => (raiseX xUnsupported, t)

def rawAttr (obj : V SWO) (a : Name) (_t : τ) : X SWO (V SWO) :=
  match obj with
  | .host .self => if a = 0x5f73747265616d then .ok (.host .stream) else raiseX xUnsupported
  | _ => raiseX xUnsupported

def rawHost (R : RawStream τ) : Host SWO τ where
  glob := fun _ => none
  call := fun _ _ _ t => (raiseX xUnsupported, t)
  mcall := rawMcall R
  attr := rawAttr
  setattr := fun _ _ _ t => (raiseX xUnsupported, t)
  index := fun _ _ _ => raiseX xUnsupported
  contains := fun _ _ _ => raiseX xUnsupported
  truthy := fun _ => true
  eqHost := fun _ _ => false

theorem raw_mcall (R : RawStream τ) : (rawHost R).mcall = rawMcall R := rfl
theorem raw_attr (R : RawStream τ) : (rawHost R).attr = rawAttr := rfl
theorem ra_stream (t : τ) : rawAttr (.host .self) 0x5f73747265616d t = .ok (.host .stream) := rfl
theorem rm_read (R : RawStream τ) (n : Nat) (t : τ) (kw : List (Name × V SWO)) :
    rawMcall R (.host .stream) 0x72656164 [.int (n : Int)] kw t = (.ok (.bytes (R.read n t).1), (R.read n t).2) := by
  simp [rawMcall]
theorem rm_line (R : RawStream τ) (t : τ) (kw : List (Name × V SWO)) :
    rawMcall R (.host .stream) 0x726561646c696e65 [] kw t = (.ok (.bytes (R.line t).1), (R.line t).2) := rfl

/-- `_read_bytes(size)` on what `stream.read(size)` returned -/
def classifyRead (n : Nat) (d : Bytes) : X SWO (V SWO) :=
  if d.length = 0 ∧ 0 < n then .error (.exc xEOFError 0)
  else if 0 < d.length ∧ d.length < n then .error (.exc xUBXStreamError 0)
  else .ok (.bytes d)

/-- **`_read_bytes` as written** -/
theorem read_bytes_eq (R : RawStream τ) (fuel : Nat) (n : Nat) (t : τ) :
    runFn (rawHost R) fuel fn_UBXReader__read_bytes [.host .self, .int (n : Int)] t
      = (classifyRead n (R.read n t).1, (R.read n t).2) := by
  unfold runFn fn_UBXReader__read_bytes
  pystep [raw_mcall, raw_attr, ra_stream, rm_read]
  generalize R.read n t = r
  obtain ⟨d, t'⟩ := r
  simp only
  by_cases h0 : d.length = 0
  · by_cases hn : 0 < n
    · have e1 : ((d.length : Nat) : Int) = 0 := by omega
      have e2 : (0 : Int) < (n : Int) := by omega
      repeat pystep [e1, e2, Bool.beq_eq_decide_eq, decide_true, decide_false]
      simp [classifyRead, h0, hn, xEOFError]
    · have e1 : ((d.length : Nat) : Int) = 0 := by omega
      have e2 : ¬ ((0 : Int) < (n : Int)) := by omega
      have e3 : ¬ ((0 : Int) < (d.length : Int)) := by omega
      repeat pystep [e1, e2, e3, Bool.beq_eq_decide_eq, decide_true, decide_false, decide_eq_false, Int.reduceLT]
      simp [classifyRead, h0, hn]
  · have e1 : ¬ (((d.length : Nat) : Int) = 0) := by omega
    have e3 : ((0 : Int) < (d.length : Int)) := by omega
    by_cases hlt : d.length < n
    · have e4 : ((d.length : Int) < (n : Int)) := by omega
      repeat pystep [e1, e3, e4, Bool.beq_eq_decide_eq, decide_true, decide_false, decide_eq_false, decide_eq_true, Int.reduceLT]
      have : 0 < d.length := by omega
      simp [classifyRead, h0, hlt, this, xUBXStreamError]
    · have e4 : ¬ ((d.length : Int) < (n : Int)) := by omega
      repeat pystep [e1, e3, e4, Bool.beq_eq_decide_eq, decide_true, decide_false, decide_eq_false, decide_eq_true, Int.reduceLT]
      simp [classifyRead, h0, hlt]

/-- `_read_line()` on what `stream.readline()` returned -/
def classifyLine (d : Bytes) : X SWO (V SWO) :=
  if d.length = 0 then .error (.exc xEOFError 0)
  else if d.drop (d.length - 1) ≠ [0x0a] then .error (.exc xUBXStreamError 0)
  else .ok (.bytes d)

theorem pySlice_last (d : Bytes) : pySlice d (-1) (d.length : Int) = d.drop (d.length - 1) := by
  unfold pySlice
  simp only []
  have e1 : (if (-1 : Int) < 0 then (if (-1 : Int) + (d.length : Int) < 0 then 0 else (-1 : Int) + d.length)
      else if (-1 : Int) > (d.length : Int) then (d.length : Int) else (-1 : Int)).toNat = d.length - 1 := by
    have : (-1 : Int) < 0 := by decide
    simp only [this, if_true]
    split <;> omega
  have e2 : (if (d.length : Int) < 0 then (if (d.length : Int) + (d.length : Int) < 0 then 0 else (d.length : Int) + d.length)
      else if (d.length : Int) > (d.length : Int) then (d.length : Int) else (d.length : Int)).toNat = d.length := by
    have : ¬ ((d.length : Int) < 0) := by omega
    simp only [this, if_false]
    split <;> omega
  rw [e1, e2]
  unfold slice
  rw [List.take_of_length_le (by rw [List.length_drop]; omega)]

/-- **`_read_line` as written** -/
theorem read_line_eq (R : RawStream τ) (fuel : Nat) (t : τ) :
    runFn (rawHost R) fuel fn_UBXReader__read_line [.host .self] t
      = (classifyLine (R.line t).1, (R.line t).2) := by
  unfold runFn fn_UBXReader__read_line
  pystep [raw_mcall, raw_attr, ra_stream, rm_line]
  generalize R.line t = r
  obtain ⟨d, t'⟩ := r
  simp only
  by_cases h0 : d.length = 0
  · have e1 : ((d.length : Nat) : Int) = 0 := by omega
    repeat pystep [e1, Bool.beq_eq_decide_eq, decide_true, decide_false]
    simp [classifyLine, h0, xEOFError]
  · have e1 : ¬ (((d.length : Nat) : Int) = 0) := by omega
    by_cases hl : d.drop (d.length - 1) = [0x0a]
    · repeat pystep [e1, Bool.beq_eq_decide_eq, decide_true, decide_false, decide_eq_false, decide_eq_true, Int.reduceNeg,
        pySlice_last, hl, bne]
      simp [classifyLine, h0, hl]
    · repeat pystep [e1, Bool.beq_eq_decide_eq, decide_true, decide_false, decide_eq_false, decide_eq_true, Int.reduceNeg,
        pySlice_last, hl, bne]
      simp [classifyLine, h0, hl, xUBXStreamError]

/-! ### `io.BytesIO` -/

/-- `io.BytesIO`: `read(n)` takes up to `n` bytes, `readline()` takes through the next LF or everything -/
def bytesIO : RawStream Bytes := ⟨fun n s => (s.take n, s.drop n), fun s => (s.take (lineLen s), s.drop (lineLen s))⟩

theorem take_lineLen_last (s : Bytes) (h : hasLF s = true) :
    (s.take (lineLen s)).drop ((s.take (lineLen s)).length - 1) = [0x0a] := by
  induction s with
  | nil => simp [hasLF] at h
  | cons b bs ih =>
    by_cases hb : b = 0x0a
    · subst hb; simp [lineLen]
    · have hbs : hasLF bs = true := by simpa [hasLF, hb] using h
      have := ih hbs
      have hne : bs ≠ [] := by intro e; subst e; simp [hasLF] at hbs
      have hp := lineLen_pos hne
      have hle := lineLen_le bs
      simp only [lineLen, hb, if_false]
      rw [show 1 + lineLen bs = lineLen bs + 1 by omega, List.take_succ_cons]
      simp only [List.length_cons, List.length_take, Nat.min_eq_left hle, Nat.add_sub_cancel] at this ⊢
      rw [show lineLen bs = (lineLen bs - 1) + 1 by omega, List.drop_succ_cons]
      rw [show lineLen bs - 1 + 1 = lineLen bs by omega]
      exact this

theorem noLF_all (s : Bytes) (h : hasLF s = false) : lineLen s = s.length := by
  induction s with
  | nil => rfl
  | cons b bs ih =>
    have hb : ¬ (b = 0x0a) := by intro e; subst e; simp [hasLF] at h
    have hbs : hasLF bs = false := by simpa [hasLF, hb] using h
    simp only [lineLen, hb, if_false, List.length_cons, ih hbs]; omega

theorem noLF_last (s : Bytes) (h : hasLF s = false) : s.drop (s.length - 1) ≠ [0x0a] := by
  induction s with
  | nil => simp
  | cons b bs ih =>
    have hb : ¬ (b = 0x0a) := by intro e; subst e; simp [hasLF] at h
    have hbs : hasLF bs = false := by simpa [hasLF, hb] using h
    cases bs with
    | nil => simp [hb]
    | cons c cs =>
      have := ih hbs
      simp only [List.length_cons, Nat.add_sub_cancel] at this ⊢
      rw [show cs.length + 1 = cs.length + 1 from rfl, List.drop_succ_cons]
      exact this

/-- what `_read_bytes` makes of a `BytesIO` is the model's `fileRead` -/
theorem file_read (n : Nat) (s : Bytes) :
    (match fileRead n s with
     | .eof => classifyRead n (s.take n) = .error (.exc xEOFError 0)
     | .short => classifyRead n (s.take n) = .error (.exc xUBXStreamError 0)
     | .ok d rest => classifyRead n (s.take n) = .ok (.bytes d) ∧ rest = s.drop n) := by
  unfold fileRead classifyRead
  by_cases hn : n = 0
  · subst hn; simp
  · by_cases hs : s.length = 0
    · have : s = [] := List.length_eq_zero_iff.mp hs
      subst this
      simp [hn]
    · by_cases hlt : s.length < n
      · have h1 : (s.take n).length = s.length := by rw [List.length_take]; omega
        simp [hn, hs, hlt, h1]
      · have h1 : (s.take n).length = n := by rw [List.length_take]; omega
        simp [hn, hs, hlt, h1]

/-- what `_read_line` makes of a `BytesIO` is the model's `fileLine` -/
theorem file_line (s : Bytes) :
    (match fileLine s with
     | .eof => classifyLine (s.take (lineLen s)) = .error (.exc xEOFError 0)
     | .short => classifyLine (s.take (lineLen s)) = .error (.exc xUBXStreamError 0)
     | .ok d rest => classifyLine (s.take (lineLen s)) = .ok (.bytes d) ∧ rest = s.drop (lineLen s)) := by
  unfold fileLine classifyLine
  by_cases hs : s = []
  · subst hs; simp [lineLen]
  · cases hl : hasLF s
    · have e := noLF_all s hl
      have hne := noLF_last s hl
      have hlen : ¬ (s.length = 0) := by intro h0; exact hs (List.length_eq_zero_iff.mp h0)
      simp only [hs, if_false, Bool.false_eq_true, e, List.take_length, hlen, ne_eq, hne, not_false_eq_true, if_true]
    · have hlast := take_lineLen_last s hl
      have hp := lineLen_pos hs
      have hle := lineLen_le s
      have hlen : ¬ ((s.take (lineLen s)).length = 0) := by rw [List.length_take]; omega
      simp only [hs, if_false, if_true, hlen, ne_eq, hlast, not_true_eq_false, and_self]

theorem exactReads_file : ExactReads fileSrc := by
  intro n s d s' h
  simp only [fileSrc, fileRead] at h
  split at h
  · cases h; simp_all
  · split at h
    · cases h
    · split at h
      · cases h
      · cases h; rw [List.length_take]; omega
end Ubx.Py
