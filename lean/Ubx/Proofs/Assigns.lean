import Ubx.Model.Spec
/-!
# The specification as a list of attribute assignments, in payload order (C02)

`assignsItems` lists, in payload order, every (rendered name, decoded value) pair the definition prescribes for a
value tree — no environment involved. `spec_is_assigns`: the specification is "perform these `setattr`s one after
the other". `applyAll_fresh`: when the names are new and pairwise distinct, performing them appends them. Together
with `wItems_spec`: the parsed message exposes exactly these attributes, in this order, with these values.
(Definitions containing `_HP…` parts are excluded here: their merge rewrites an earlier attribute.)
-/
namespace Ubx

def isHPName (n : Name) : Bool := nameLen n ≥ 3 && nameTake n 3 = nmHP

/-- flags of a bitfield: value `(B >> off) & (2^w − 1)` for every non-reserved flag -/
def flagAssigns (idx : List Nat) (B : Nat) : List (Name × Ty) → Nat → List (AName × PyVal)
  | [], _ => []
  | (key, keyt) :: rest, off =>
    let w := tySizeOf keyt
    let tail := flagAssigns idx B rest (off + w)
    if isReservedName key then tail
    else (⟨key, idx⟩, .int (((B >>> off) &&& (2 ^ w - 1) : Nat) : Int)) :: tail
where
  tySizeOf : Ty → Nat
    | .t _ n => n
    | _ => 0

mutual
def assignsItem (bf : Bool) (idx : List Nat) : Item → VT → R (List (AName × PyVal))
  | .attr n ty sc, .leaf b =>
    (match decodeVal ty sc b with
     | .error e => .error e
     | .ok v => .ok [(⟨n, idx⟩, v)])
  | .bits n ty flags, .leaf b =>
    if bf then .ok (flagAssigns idx (fromLE b) flags 0)
    else
      (match decodeVal ty .one b with
       | .error e => .error e
       | .ok v => .ok [(⟨n, idx⟩, v)])
  | .group _ _ items, .node reps => assignsReps bf idx items reps 1
  | _, _ => .error .memoryE
def assignsItems (bf : Bool) (idx : List Nat) : List Item → List VT → R (List (AName × PyVal))
  | [], [] => .ok []
  | i :: is, v :: vs =>
    (match assignsItem bf idx i v with
     | .error e => .error e
     | .ok l =>
       match assignsItems bf idx is vs with
       | .error e => .error e
       | .ok l' => .ok (l ++ l'))
  | _, _ => .error .memoryE
def assignsReps (bf : Bool) (idx : List Nat) (items : List Item) : List (List VT) → Nat → R (List (AName × PyVal))
  | [], _ => .ok []
  | r :: rs, i =>
    (match assignsItems bf (idx ++ [i]) items r with
     | .error e => .error e
     | .ok l =>
       match assignsReps bf idx items rs (i + 1) with
       | .error e => .error e
       | .ok l' => .ok (l ++ l'))
end

/-- perform a list of `setattr`s -/
def applyAll (c : WCtx) : Env → List (AName × PyVal) → R Env
  | env, [] => .ok env
  | env, (n, v) :: rest =>
    match setAttr c env n v with
    | .error e => .error e
    | .ok env' => applyAll c env' rest

theorem applyAll_append (c : WCtx) (env env1 env2 : Env) (l1 l2 : List (AName × PyVal))
    (h1 : applyAll c env l1 = .ok env1) (h2 : applyAll c env1 l2 = .ok env2) : applyAll c env (l1 ++ l2) = .ok env2 := by
  induction l1 generalizing env with
  | nil => simp only [applyAll] at h1; cases h1; simpa using h2
  | cons x rest ih =>
    obtain ⟨n, v⟩ := x
    simp only [applyAll, List.cons_append] at h1 ⊢
    split at h1
    · cases h1
    · exact ih _ h1

mutual
def noHP : Item → Bool
  | .attr n _ _ => !isHPName n
  | .bits _ _ _ => true
  | .group _ _ items => noHPL items
def noHPL : List Item → Bool
  | [] => true
  | i :: is => noHP i && noHPL is
end

mutual
/-- every flag has a sized type and no bitfield is itself named `_HP…` -/
def flagsOK : Item → Bool
  | .attr _ _ _ => true
  | .bits n _ flags => flags.all (fun f => match f.2 with | .t _ _ => true | _ => false) && !isHPName n
  | .group _ _ items => flagsOKL items
def flagsOKL : List Item → Bool
  | [] => true
  | i :: is => flagsOK i && flagsOKL is
end

theorem flagsParse_assigns (c : WCtx) (idx : List Nat) (B : Nat) (flags : List (Name × Ty)) (hok : flags.all (fun f => match f.2 with | .t _ _ => true | _ => false) = true) :
    ∀ off env env', flagsParse c idx B flags off env = .ok env' → applyAll c env (flagAssigns idx B flags off) = .ok env' := by
  induction flags with
  | nil => intro off env env' h; simp only [flagsParse] at h; cases h; rfl
  | cons f rest ih =>
    intro off env env' h
    obtain ⟨key, keyt⟩ := f
    simp only [List.all_cons, Bool.and_eq_true] at hok
    match keyt, hok with
    | .t l w, hok =>
      have hw : ¬ ((w : Int) < 0) := by omega
      simp only [flagsParse, flagWidth, attsiz, hw, if_false, Int.toNat_natCast] at h
      simp only [flagAssigns, flagAssigns.tySizeOf]
      by_cases hr : isReservedName key = true
      · simp only [hr, if_true] at h ⊢
        exact ih hok.2 _ _ _ h
      · simp only [hr, Bool.false_eq_true, if_false] at h ⊢
        split at h
        · cases h
        · rename_i env1 h1
          simp only [applyAll, h1]
          exact ih hok.2 _ _ _ h

mutual
theorem specItem_assigns (c : WCtx) (idx : List Nat) (i : Item) (v : VT) (env env' : Env) (hn : noHP i = true)
    (hfl : flagsOK i = true) (hs : specItem c idx i v env = .ok env') :
    ∃ l, assignsItem c.parsebf idx i v = .ok l ∧ applyAll c env l = .ok env' := by
  match i, v with
  | .attr n ty sc, .leaf b =>
    simp only [specItem] at hs
    simp only [noHP, Bool.not_eq_true'] at hn
    split at hs
    · cases hs
    · rename_i val hv
      simp only [storeVal, isHPName] at hn hs
      rw [hn] at hs
      simp only [Bool.false_eq_true, if_false] at hs
      exact ⟨[(⟨n, idx⟩, val)], by simp [assignsItem, hv], by simp [applyAll, hs]⟩
  | .bits n ty flags, .leaf b =>
    simp only [specItem] at hs
    simp only [flagsOK, Bool.and_eq_true, Bool.not_eq_true'] at hfl
    by_cases hbf : c.parsebf = true
    · simp only [hbf, if_true] at hs
      exact ⟨_, by simp [assignsItem, hbf], flagsParse_assigns c idx _ flags hfl.1 _ _ _ hs⟩
    · simp only [hbf] at hs
      cases hd : decodeVal ty .one b with
      | error e => rw [hd] at hs; cases hs
      | ok val =>
        rw [hd] at hs
        have hnn : (nameLen n ≥ 3 && nameTake n 3 = nmHP) = false := hfl.2
        simp only [storeVal, hnn, Bool.false_eq_true, if_false] at hs
        refine ⟨[(⟨n, idx⟩, val)], ?_, ?_⟩
        · simp only [assignsItem, hbf, Bool.false_eq_true, if_false, hd]
        · simp only [applyAll, hs]
  | .group n cnt items, .node reps =>
    simp only [specItem] at hs
    simp only [noHP] at hn
    simp only [flagsOK] at hfl
    have hreps : specReps c idx items reps 1 env = .ok env' := by
      cases cnt with
      | fixed k => simp only at hs; split at hs; exact hs; cases hs
      | named a =>
        simp only at hs
        split at hs
        · cases hs
        · split at hs
          · exact hs
          · cases hs
      | var => exact hs
    obtain ⟨l, h1, h2⟩ := specReps_assigns c idx items reps 1 env env' hn hfl hreps
    exact ⟨l, by simp [assignsItem, h1], h2⟩
  | .attr _ _ _, .node _ => simp [specItem] at hs
  | .bits _ _ _, .node _ => simp [specItem] at hs
  | .group _ _ _, .leaf _ => simp [specItem] at hs
theorem specItems_assigns (c : WCtx) (idx : List Nat) (is : List Item) (vs : List VT) (env env' : Env) (hn : noHPL is = true)
    (hfl : flagsOKL is = true) (hs : specItems c idx is vs env = .ok env') :
    ∃ l, assignsItems c.parsebf idx is vs = .ok l ∧ applyAll c env l = .ok env' := by
  match is, vs with
  | [], [] => simp only [specItems] at hs; cases hs; exact ⟨[], rfl, rfl⟩
  | i :: is', v :: vs' =>
    simp only [noHPL, Bool.and_eq_true] at hn
    simp only [flagsOKL, Bool.and_eq_true] at hfl
    simp only [specItems] at hs
    split at hs
    · cases hs
    · rename_i env1 h1
      obtain ⟨l1, a1, b1⟩ := specItem_assigns c idx i v env env1 hn.1 hfl.1 h1
      obtain ⟨l2, a2, b2⟩ := specItems_assigns c idx is' vs' env1 env' hn.2 hfl.2 hs
      exact ⟨l1 ++ l2, by simp [assignsItems, a1, a2], applyAll_append c env env1 env' l1 l2 b1 b2⟩
  | [], _ :: _ => simp [specItems] at hs
  | _ :: _, [] => simp [specItems] at hs
theorem specReps_assigns (c : WCtx) (idx : List Nat) (items : List Item) (reps : List (List VT)) (start : Nat) (env env' : Env)
    (hn : noHPL items = true) (hfl : flagsOKL items = true) (hs : specReps c idx items reps start env = .ok env') :
    ∃ l, assignsReps c.parsebf idx items reps start = .ok l ∧ applyAll c env l = .ok env' := by
  match reps with
  | [] => simp only [specReps] at hs; cases hs; exact ⟨[], rfl, rfl⟩
  | r :: rs =>
    simp only [specReps] at hs
    split at hs
    · cases hs
    · rename_i env1 h1
      obtain ⟨l1, a1, b1⟩ := specItems_assigns c (idx ++ [start]) items r env env1 hn hfl h1
      obtain ⟨l2, a2, b2⟩ := specReps_assigns c idx items rs (start + 1) env1 env' hn hfl hs
      exact ⟨l1 ++ l2, by simp [assignsReps, a1, a2], applyAll_append c env env1 env' l1 l2 b1 b2⟩
end

end Ubx

namespace Ubx

theorem env_set_fresh (env : Env) (n : AName) (v : PyVal) (h : n ∉ env.map (·.1)) : env.set n v = env ++ [(n, v)] := by
  unfold Env.set
  have : env.any (fun p => p.1 == n) = false := by
    simp only [List.any_eq_false, beq_iff_eq]
    intro p hp heq
    exact h (by simp only [List.mem_map]; exact ⟨p, hp, heq⟩)
  simp [this]

/-- names that `setattr` accepts: not one of `UBXMessage`'s read-only properties at top level -/
def settable (c : WCtx) (n : AName) : Bool := !(n.idx.isEmpty && c.ctx.readonly.contains n.base)

/-- performing assignments to new, pairwise distinct, settable names appends them in order -/
theorem applyAll_fresh (c : WCtx) (env : Env) (l : List (AName × PyVal))
    (hnd : (env.map (·.1) ++ l.map (·.1)).Nodup) (hset : ∀ x ∈ l, settable c x.1 = true) :
    applyAll c env l = .ok (env ++ l) := by
  induction l generalizing env with
  | nil => simp [applyAll]
  | cons x rest ih =>
    obtain ⟨n, v⟩ := x
    have hs := hset (n, v) (List.mem_cons_self ..)
    have hn : n ∉ env.map (·.1) := by
      intro hm
      have := List.nodup_append.mp hnd
      exact this.2.2 n hm n (by simp) rfl
    simp only [applyAll, setAttr]
    simp only [settable, Bool.not_eq_true'] at hs
    rw [hs]
    simp only [Bool.false_eq_true, if_false, env_set_fresh env n v hn]
    have hnd' : ((env ++ [(n, v)]).map (·.1) ++ rest.map (·.1)).Nodup := by
      simpa [List.map_append, List.append_assoc] using hnd
    rw [ih (env ++ [(n, v)]) hnd' (fun x hx => hset x (List.mem_cons_of_mem _ hx))]
    simp [List.append_assoc]

end Ubx
