import Ubx.Proofs.CodeWalkRec
import Ubx.Model.PyDoHosts
import Ubx.Generated.Tables
/-!
# `UBXMessage._do_attributes`, as written, is the model's attribute phase of the constructor

`do_attributes_eq`: for any walker that answers `self._set_attribute(key, pdict, offset, [], **kwargs)` as `wItem` (`TopOK`):
no keywords → `_payload = None`; otherwise `_payload = kwargs.get("payload", b"")`, the definition from `_get_dict` (the model's
`getDict`; its UBXMessageError passes through both `except` clauses), every entry in dictionary order (loop by induction:
`wItems`), then `_do_len_checksum()` *inside* the `try`; the six listed exception classes — the regenerated `catchType`
— become UBXTypeError, by case analysis over all exception kinds of the model.

`do_attributes_rec`: the same with the walker of `rec_item` plugged in, i.e. `_do_attributes`, `_set_attribute`,
`_set_attribute_group`, `_set_attribute_single`, `_calc_num_repeats` as written, interpreted together, compute `doAttrs` —
the payload, attribute dictionary, length and checksum fields the constructor leaves behind, or its exception.
`construct_doAttrs` restates the model's `construct` through `doAttrs`.
-/
set_option maxRecDepth 10000
set_option linter.unusedSimpArgs false
set_option linter.unusedVariables false
namespace Ubx.Py
open Ubx Ubx.Gen.Code

variable (ctx : Ctx) (cls id : Bytes) (mode : Mode) (kw : Kw) (walker : Host AO ASt)

theorem dh_call : (doHost ctx cls id mode kw walker).call = dCall kw := rfl
theorem dh_mcall : (doHost ctx cls id mode kw walker).mcall = dMcall ctx cls id mode kw walker := rfl
theorem dh_setattr : (doHost ctx cls id mode kw walker).setattr = dSetattr := rfl

/-- every top-level entry of the definition, reached through `self._set_attribute`, behaves as `wItem` -/
def TopOK (c : WCtx) (walker : Host AO ASt) (defn : List Item) : Prop :=
  ∀ it ∈ defn, ∀ (off : Nat) (st : ASt),
    SpecW [] (walker.mcall (.host .self) 0x5f7365745f617474726962757465
        [.str (Item.key it), .host (.dict defn), .int off, .tuple [], .host .kwargs] [] st) (wItem c [] it ⟨off, st.payload, st.env⟩)

def daTry : S := fn_UBXMessage__do_attributes.body.getD 3 .pass
def daTryBody : List S := match daTry with | .try_ b _ _ _ _ _ _ => b | _ => []
def daIf : S := daTryBody.getD 0 .pass
def daElse : List S := match daIf with | .if_ _ _ e => e | _ => []
def daLoop : S := daElse.getD 2 .pass
def daLoopBody : List S := match daLoop with | .for_ _ _ b => b | _ => []
example : daLoopBody ≠ [] := by decide

def DaPost (res : R WState) (lc : Option (Bytes × Bytes)) (vars : List (Name × V AO)) (r : X AO (Flow AO) × St AO DSt) : Prop :=
  match res with
  | .ok s => r.1 = .ok .next ∧ r.2.h = ⟨some s.payload, s.env, lc⟩ ∧ getVar r.2.vars 0x6f6666736574 = some (.int s.off)
      ∧ getVar r.2.vars 0x696e646578 = some (.tuple [])
      ∧ ∀ x, x ≠ 0x6f6666736574 → x ≠ 0x696e646578 → x ≠ 0x616e616d → getVar r.2.vars x = getVar vars x
  | .error e => r.1 = .error (.exc (excName e) 0)

theorem da_body (c : WCtx) (F : Nat) (defn : List Item) (it : Item) (off : Nat) (p : Bytes) (env : Env) (lc : Option (Bytes × Bytes))
    (vars : List (Name × V AO))
    (hcall : SpecW [] (walker.mcall (.host .self) 0x5f7365745f617474726962757465
        [.str (Item.key it), .host (.dict defn), .int off, .tuple [], .host .kwargs] [] ⟨p, env⟩) (wItem c [] it ⟨off, p, env⟩))
    (gSelf : getVar vars 0x73656c66 = some (.host .self)) (gD : getVar vars 0x7064696374 = some (.host (.dict defn)))
    (gOff : getVar vars 0x6f6666736574 = some (.int off)) (gIdx : getVar vars 0x696e646578 = some (.tuple []))
    (gKw : getVar vars 0x6b7761726773 = some (.host .kwargs)) :
    DaPost (wItem c [] it ⟨off, p, env⟩) lc vars
      (forBody (doHost ctx cls id mode kw walker) F 0x616e616d daLoopBody (.str (Item.key it)) ⟨vars, ⟨some p, env, lc⟩⟩) := by
  simp only [forBody, daLoopBody, daLoop, daElse, daIf, daTryBody, daTry, fn_UBXMessage__do_attributes, List.getD_cons_succ, List.getD_cons_zero]
  have fr : ∀ (vs : List (Name × V AO)) (x y : Name) (v : V AO), ¬ x = y → getVar (setVar vs y v) x = getVar vs x :=
    fun vs x y v h => getVar_setVar_ne vs y x v (fun e => h e.symm)
  simp only [SpecW, idxT, List.map_nil] at hcall
  cases hws : wItem c [] it ⟨off, p, env⟩ with
  | error e =>
    rw [hws] at hcall
    simp only at hcall
    pysimp [gSelf, gD, gOff, gIdx, gKw, dh_mcall, dMcall, dLift, hcall, DaPost]
  | ok s =>
    rw [hws] at hcall
    simp only at hcall
    simp only [DaPost]
    pysimp [gSelf, gD, gOff, gIdx, gKw, dh_mcall, dMcall, dLift, hcall, bindT]
    intro x h1 h2 h3
    rw [fr _ _ _ _ h2, fr _ _ _ _ h1, fr _ _ _ _ h3]
theorem da_loop (c : WCtx) (F : Nat) (defn : List Item) (lc : Option (Bytes × Bytes)) : ∀ (l : List Item),
    (∀ it ∈ l, ∀ (off : Nat) (st : ASt), SpecW [] (walker.mcall (.host .self) 0x5f7365745f617474726962757465
        [.str (Item.key it), .host (.dict defn), .int off, .tuple [], .host .kwargs] [] st) (wItem c [] it ⟨off, st.payload, st.env⟩)) →
    ∀ (off : Nat) (p : Bytes) (env : Env) (vars : List (Name × V AO)),
    getVar vars 0x73656c66 = some (.host .self) → getVar vars 0x7064696374 = some (.host (.dict defn)) →
    getVar vars 0x6f6666736574 = some (.int off) → getVar vars 0x696e646578 = some (.tuple []) →
    getVar vars 0x6b7761726773 = some (.host .kwargs) →
    (match wItems c [] l ⟨off, p, env⟩ with
     | .ok s => ∃ vars', forLoop (forBody (doHost ctx cls id mode kw walker) F 0x616e616d daLoopBody) (l.map (fun i => V.str (Item.key i)))
            ⟨vars, ⟨some p, env, lc⟩⟩ = (.ok .next, ⟨vars', ⟨some s.payload, s.env, lc⟩⟩)
          ∧ ∀ x, x ≠ 0x6f6666736574 → x ≠ 0x696e646578 → x ≠ 0x616e616d → getVar vars' x = getVar vars x
     | .error e => (forLoop (forBody (doHost ctx cls id mode kw walker) F 0x616e616d daLoopBody) (l.map (fun i => V.str (Item.key i)))
            ⟨vars, ⟨some p, env, lc⟩⟩).1 = .error (.exc (excName e) 0)) := by
  intro l
  induction l with
  | nil =>
    intro _ off p env vars _ _ _ _ _
    simp only [wItems, List.map_nil, forLoop]
    exact ⟨vars, rfl, fun _ _ _ _ => rfl⟩
  | cons it rest ih =>
    intro hl off p env vars gSelf gD gOff gIdx gKw
    have hb := da_body ctx cls id mode kw walker c F defn it off p env lc vars (hl it (by simp) off ⟨p, env⟩) gSelf gD gOff gIdx gKw
    rw [List.map_cons, forLoop, wItems]
    generalize forBody (doHost ctx cls id mode kw walker) F 0x616e616d daLoopBody (.str (Item.key it)) ⟨vars, ⟨some p, env, lc⟩⟩ = r0 at hb ⊢
    obtain ⟨r, ⟨vars1, st1⟩⟩ := r0
    cases hm : wItem c [] it ⟨off, p, env⟩ with
    | error e =>
      rw [hm] at hb
      simp only [DaPost] at hb
      subst hb
      rfl
    | ok s =>
      rw [hm] at hb
      simp only [DaPost] at hb
      obtain ⟨h1, h2, h3, h4, h5⟩ := hb
      subst h1; subst h2
      simp only
      have := ih (fun i hi => hl i (by simp [hi])) s.off s.payload s.env vars1
        (by rw [h5 _ (by decide) (by decide) (by decide)]; exact gSelf)
        (by rw [h5 _ (by decide) (by decide) (by decide)]; exact gD) h3 h4
        (by rw [h5 _ (by decide) (by decide) (by decide)]; exact gKw)
      cases hs : wItems c [] rest s with
      | error e => rw [hs] at this; exact this
      | ok t =>
        rw [hs] at this
        obtain ⟨vars', e1, e4⟩ := this
        exact ⟨vars', e1, fun x a b d => by rw [e4 x a b d, h5 x a b d]⟩

/-- what `_do_attributes` leaves behind: payload, attributes, length and checksum fields — or the exception, with the
    listed classes turned into UBXTypeError -/
def doAttrs (ctx : Ctx) (cls id : Bytes) (mode : Mode) (bf : Bool) (kw : Kw) : R (Option Bytes × Env × (Bytes × Bytes)) :=
  match walkFor ctx cls id mode bf kw with
  | .error e => .error (translateExc ctx e)
  | .ok pe =>
    match lenChecksum cls id pe.1 with
    | .error e => .error (translateExc ctx e)
    | .ok lc => .ok (pe.1, pe.2, lc)

/-- the exception the two `except` clauses let out -/
theorem handlers (hct : ctx.catchType = [.attributeE, .indexE, .structE, .typeE, .valueE, .overflowE]) (e : Exc) :
    (if [0x4174747269627574654572726f72, 0x496e6465784572726f72, 0x7374727563742e6572726f72, 0x547970654572726f72, 0x56616c75654572726f72].contains (excName e)
       then xUBXTypeError else if [0x4f766572666c6f774572726f72].contains (excName e) then xUBXTypeError else excName e)
      = excName (translateExc ctx e) := by
  unfold translateExc
  rw [hct]
  cases e <;> decide

def daThen : List S := match daIf with | .if_ _ t _ => t | _ => []
def daCond : E := match daIf with | .if_ c _ _ => c | _ => .none
theorem daIf_def : daIf = .if_ daCond daThen daElse := rfl
def daLenck : S := daTryBody.getD 1 .pass
theorem daTryBody_def : daTryBody = [daIf, daLenck] := rfl

/-- the walk part for a non-empty keyword set: `payload`, definition lookup, the loop -/
def walkNE (ctx : Ctx) (cls id : Bytes) (mode : Mode) (bf : Bool) (kw : Kw) : R (Option Bytes × Env) :=
  match getDict ctx cls id mode kw with
  | .error e => .error e
  | .ok defn =>
    match wItems (walkCtx ctx cls id mode bf kw) [] defn ⟨0, (kwPayload? kw).getD [], []⟩ with
    | .error e => .error e
    | .ok st => .ok (some st.payload, st.env)

theorem da_else (bf : Bool) (F : Nat)
    (hTop : ∀ defn, getDict ctx cls id mode kw = .ok defn → TopOK (walkCtx ctx cls id mode bf kw) walker defn)
    (p0 : Option Bytes) (lc0 : Option (Bytes × Bytes)) (vars : List (Name × V AO))
    (gSelf : getVar vars 0x73656c66 = some (.host .self)) (gOff : getVar vars 0x6f6666736574 = some (.int 0))
    (gIdx : getVar vars 0x696e646578 = some (.tuple [])) (gKw : getVar vars 0x6b7761726773 = some (.host .kwargs)) :
    (match walkNE ctx cls id mode bf kw with
     | .ok pe => ∃ vars', execB (doHost ctx cls id mode kw walker) F daElse ⟨vars, ⟨p0, [], lc0⟩⟩ = (.ok .next, ⟨vars', ⟨pe.1, pe.2, lc0⟩⟩)
          ∧ getVar vars' 0x73656c66 = some (.host .self)
     | .error e => (execB (doHost ctx cls id mode kw walker) F daElse ⟨vars, ⟨p0, [], lc0⟩⟩).1 = .error (.exc (excName e) 0)) := by
  have fr : ∀ (vs : List (Name × V AO)) (x y : Name) (v : V AO), ¬ x = y → getVar (setVar vs y v) x = getVar vs x :=
    fun vs x y v h => getVar_setVar_ne vs y x v (fun e => h e.symm)
  simp only [daElse, daIf, daTryBody, daTry, fn_UBXMessage__do_attributes, List.getD_cons_succ, List.getD_cons_zero, walkNE]
  pystep [gSelf, gKw, dh_mcall, dMcall, dh_setattr, dSetattr, builtinMethod]
  pystep [gSelf, gKw, dh_mcall, dMcall, dh_setattr, dSetattr, builtinMethod]
  cases hgd : getDict ctx cls id mode kw with
  | error e => simp [encR]
  | ok defn =>
    simp only [encR]
    pysimp [dh_mcall, dMcall]
    have hl := da_loop ctx cls id mode kw walker (walkCtx ctx cls id mode bf kw) F defn lc0 defn (hTop defn hgd) 0 ((kwPayload? kw).getD []) []
      (setVar vars 0x7064696374 (.host (.dict defn)))
      (by rw [fr _ _ _ _ (by decide)]; exact gSelf) (by rw [getVar_setVar_same])
      (by rw [fr _ _ _ _ (by decide)]; exact gOff) (by rw [fr _ _ _ _ (by decide)]; exact gIdx)
      (by rw [fr _ _ _ _ (by decide)]; exact gKw)
    simp only [daLoopBody, daLoop, daElse, daIf, daTryBody, daTry, fn_UBXMessage__do_attributes, List.getD_cons_succ, List.getD_cons_zero] at hl
    cases hw : wItems (walkCtx ctx cls id mode bf kw) [] defn ⟨0, (kwPayload? kw).getD [], []⟩ with
    | error e =>
      rw [hw] at hl
      simp only at hl ⊢
      exact hl
    | ok s =>
      rw [hw] at hl
      obtain ⟨vars', g1, g2⟩ := hl
      simp only
      exact ⟨vars', g1, by rw [g2 _ (by decide) (by decide) (by decide), fr _ _ _ _ (by decide)]; exact gSelf⟩
theorem walkFor_ne (bf : Bool) (h : kwLen kw ≠ 0) : walkFor ctx cls id mode bf kw = walkNE ctx cls id mode bf kw := by
  cases kw with
  | empty => exact absurd rfl h
  | payload p => rfl
  | attrs l => rfl

theorem daTry_def : daTry = .try_ daTryBody
    [0x4174747269627574654572726f72, 0x496e6465784572726f72, 0x7374727563742e6572726f72, 0x547970654572726f72, 0x56616c75654572726f72] 0x657272
    [.raise (.call 0x554258547970654572726f72 [] [] [])]
    [0x4f766572666c6f774572726f72] 0x657272 [.raise (.call 0x554258547970654572726f72 [] [] [])] := rfl

/-- `_do_attributes`, as written, is the model's `doAttrs`: null payload for no keywords; otherwise `payload` (or `b""`), the
    definition from `_get_dict`, every entry through `_set_attribute` in dictionary order, `_do_len_checksum()` inside the
    `try`; AttributeError, IndexError, struct.error, TypeError, ValueError and OverflowError become UBXTypeError, everything
    else (UBXMessageError from `_get_dict`, …) passes. -/
theorem do_attributes_eq (bf : Bool) (F : Nat) (hkw : ∀ l, kw = .attrs l → l ≠ [])
    (hct : ctx.catchType = [.attributeE, .indexE, .structE, .typeE, .valueE, .overflowE])
    (hTop : ∀ defn, getDict ctx cls id mode kw = .ok defn → TopOK (walkCtx ctx cls id mode bf kw) walker defn)
    (p0 : Option Bytes) (lc0 : Option (Bytes × Bytes)) :
    (match doAttrs ctx cls id mode bf kw with
     | .ok r => runFn (doHost ctx cls id mode kw walker) F fn_UBXMessage__do_attributes [.host .self, .host .kwargs] ⟨p0, [], lc0⟩
          = (.ok .none, ⟨r.1, r.2.1, some r.2.2⟩)
     | .error e => (runFn (doHost ctx cls id mode kw walker) F fn_UBXMessage__do_attributes [.host .self, .host .kwargs] ⟨p0, [], lc0⟩).1
          = .error (.exc (excName e) 0)) := by
  have hp : fn_UBXMessage__do_attributes.params = [0x73656c66, 0x6b7761726773] := rfl
  have hb : fn_UBXMessage__do_attributes.body = [.assign 0x6f6666736574 (.int 0), .assign 0x696e646578 (.tuple []), .assign 0x616e616d (.str 0), daTry] := rfl
  simp only [runFn, hp, hb, List.zip_cons_cons, List.zip_nil_right]
  pystep
  pystep
  pystep
  rw [daTry_def, execS_try, daTryBody_def, execB_cons, daIf_def, execS_if]
  simp only [daCond, daIf, daTryBody, daTry, fn_UBXMessage__do_attributes, List.getD_cons_succ, List.getD_cons_zero]
  pysimp [dh_call, dCall]
  by_cases hlen : kwLen kw = 0
  · -- no keywords: null payload
    have hk : kw = .empty := by
      cases kw with
      | empty => rfl
      | payload p => simp [kwLen] at hlen
      | attrs l => simp only [kwLen] at hlen; exact absurd (List.eq_nil_of_length_eq_zero hlen) (hkw l rfl)
    subst hk
    simp only [kwLen, Int.natCast_zero, beq_self_eq_true, doAttrs, walkFor]
    simp only [daThen, daLenck, daIf, daTryBody, daTry, fn_UBXMessage__do_attributes, List.getD_cons_succ, List.getD_cons_zero]
    pysimp [dh_setattr, dSetattr, dh_mcall, dMcall, builtinMethod]
    cases hlc : lenChecksum cls id none with
    | error e =>
      simp only [translateExc, hct]
      cases e <;> pysimp [excName, xUBXTypeError, xAttributeError, xIndexError, xStructError, xTypeError, xValueError, xOverflowError, xKeyError, xZeroDivisionError, xUnboundLocalError, xUBXParseError, xUBXMessageError, xUBXStreamError] <;> simp
    | ok lc =>
      simp only
  · -- keywords given
    have hl' : (((kwLen kw : Nat) : Int) == 0) = false := by
      simp only [beq_eq_false_iff_ne, ne_eq]; omega
    simp only [hl', doAttrs, walkFor_ne ctx cls id mode kw bf hlen]
    have he := da_else ctx cls id mode kw walker bf F hTop p0 lc0
      [(1936026726, V.host AO.self), (118160480167795, V.host AO.kwargs), (122485596185972, V.int 0),
        (452823639416, V.tuple []), (1634623853, V.str 0)] (by pysimp) (by pysimp) (by pysimp) (by pysimp)
    generalize execB (doHost ctx cls id mode kw walker) F daElse _ = r0 at he ⊢
    obtain ⟨r, ⟨vars1, st1⟩⟩ := r0
    cases hw : walkNE ctx cls id mode bf kw with
    | error e =>
      rw [hw] at he
      simp only at he
      subst he
      simp only [translateExc, hct]
      cases e <;> pysimp [excName, xUBXTypeError, xAttributeError, xIndexError, xStructError, xTypeError, xValueError, xOverflowError, xKeyError, xZeroDivisionError, xUnboundLocalError, xUBXParseError, xUBXMessageError, xUBXStreamError] <;> simp
    | ok pe =>
      rw [hw] at he
      obtain ⟨vars', g1, g2⟩ := he
      cases g1
      simp only [daLenck, daTryBody, daTry, fn_UBXMessage__do_attributes, List.getD_cons_succ, List.getD_cons_zero]
      pysimp [g2, dh_mcall, dMcall, builtinMethod]
      cases hlc : lenChecksum cls id pe.1 with
      | error e =>
        simp only [translateExc, hct]
        cases e <;> pysimp [excName, xUBXTypeError, xAttributeError, xIndexError, xStructError, xTypeError, xValueError, xOverflowError, xKeyError, xZeroDivisionError, xUnboundLocalError, xUBXParseError, xUBXMessageError, xUBXStreamError] <;> simp
      | ok lc =>
        simp only
theorem dec_beq (a b : Bytes) : decide (a = b) = (a == b) := by
  by_cases h : a = b <;> simp [h]

theorem walkCtx_cfgval (bf : Bool) : (walkCtx ctx cls id mode bf kw).cfgval = cfgvalB cls id mode.toNat := by
  cases mode <;> simp [walkCtx, cfgvalB, Mode.toNat, dec_beq]

theorem walkCtx_esf (bf : Bool) : (walkCtx ctx cls id mode bf kw).esfmeas = esfB cls id mode.toNat := by
  cases mode <;> simp [walkCtx, esfB, Mode.toNat, dec_beq]

/-- **The constructor's attribute phase, all translated methods interpreted together**: `_do_attributes` over the walker of
    `rec_item` (`_set_attribute`, `_set_attribute_group`, `_set_attribute_single`, `_calc_num_repeats` as written, calling each
    other, the two bit-flag methods included) is the model's `doAttrs`, for every well-shaped definition `_get_dict` may return
    and a call budget of two per nesting level plus three (any message but ESF-MEAS SET; when generating, flag keywords
    are ints or bools). -/
theorem do_attributes_rec (bf : Bool) (F f : Nat) (hkw : ∀ l, kw = .attrs l → l ≠ [])
    (hct : ctx.catchType = [.attributeE, .indexE, .structE, .typeE, .valueE, .overflowE])
    (hshape : ∀ defn, getDict ctx cls id mode kw = .ok defn → shapeOKL defn = true ∧ 2 * idepthL defn + 3 ≤ f
      ∧ ((walkCtx ctx cls id mode bf kw).hasPayload = false → genOKL (walkCtx ctx cls id mode bf kw) defn))
    (hesf : esfB cls id mode.toNat = false)
    (hsz : ∀ k n t, cfgkey2name ctx k = .ok (n, t) → ∃ m : Nat, attsiz t = .ok (m : Int))
    (p0 : Option Bytes) (lc0 : Option (Bytes × Bytes)) :
    (match doAttrs ctx cls id mode bf kw with
     | .ok r => runFn (doHost ctx cls id mode kw (recHost (walkCtx ctx cls id mode bf kw) cls id mode.toNat F f)) F
            fn_UBXMessage__do_attributes [.host .self, .host .kwargs] ⟨p0, [], lc0⟩ = (.ok .none, ⟨r.1, r.2.1, some r.2.2⟩)
     | .error e => (runFn (doHost ctx cls id mode kw (recHost (walkCtx ctx cls id mode bf kw) cls id mode.toNat F f)) F
            fn_UBXMessage__do_attributes [.host .self, .host .kwargs] ⟨p0, [], lc0⟩).1 = .error (.exc (excName e) 0)) := by
  refine do_attributes_eq ctx cls id mode kw _ bf F hkw hct ?_ p0 lc0
  intro defn hgd it hmem off st
  obtain ⟨hs, hd, hg⟩ := hshape defn hgd
  have := rec_item (walkCtx ctx cls id mode bf kw) cls id mode.toNat (walkCtx_cfgval ctx cls id mode kw bf)
    (walkCtx_esf ctx cls id mode kw bf) (by rw [walkCtx_esf]; exact hesf) hsz F (idepthL defn) f hd it (idepth_mem defn it hmem)
    (shapeOKL_mem defn hs it hmem) (fun hp => genOKL_mem _ defn (hg hp) it hmem) defn (shape_itemAt defn hs it hmem) [] (by intro i hi; cases hi) off st
  simpa [idxT] using this
/-- the model's constructor is `doAttrs` plus the fixed fields -/
theorem construct_doAttrs (modeN : Nat) (bf : Bool) :
    construct ctx cls id modeN bf kw
      = (match Mode.ofNat? modeN with
         | none => .error .ubxMessage
         | some mode =>
           match doAttrs ctx cls id mode bf kw with
           | .error e => .error e
           | .ok r => .ok { cls := cls, id := id, mode := mode, payload := r.1, length := r.2.2.1, checksum := r.2.2.2,
                            parsebf := bf, env := r.2.1, immutable := true }) := by
  unfold construct doAttrs
  cases Mode.ofNat? modeN with
  | none => rfl
  | some mode =>
    simp only
    cases walkFor ctx cls id mode bf kw with
    | error e => rfl
    | ok pe =>
      simp only
      cases lenChecksum cls id pe.1 <;> rfl

/-- the `except` clauses of the working tree are the six classes the theorem was proved for -/
theorem gen_catchType : Gen.ctx.catchType = [.attributeE, .indexE, .structE, .typeE, .valueE, .overflowE] := rfl

end Ubx.Py
