/-!
# A kernel-friendly O(n log n) distinctness check for lists of naturals

`distinctNat l = true → l.Nodup`, where `distinctNat` merge-sorts the list (structural recursion on a
fuel argument, so the kernel can evaluate it) and checks that the result is strictly increasing.
-/
namespace Ubx

def mergeN : Nat → List Nat → List Nat → List Nat
  | 0, a, b => a ++ b
  | _+1, [], b => b
  | _+1, a, [] => a
  | f+1, x :: xs, y :: ys => if x ≤ y then x :: mergeN f xs (y :: ys) else y :: mergeN f (x :: xs) ys

def splitAlt : List Nat → List Nat × List Nat
  | [] => ([], [])
  | [x] => ([x], [])
  | x :: y :: rest => let p := splitAlt rest; (x :: p.1, y :: p.2)

def msortN : Nat → List Nat → List Nat
  | 0, l => l
  | f+1, l =>
    match l with
    | [] => []
    | [x] => [x]
    | _ => let p := splitAlt l; mergeN (l.length) (msortN f p.1) (msortN f p.2)

def strictInc : List Nat → Bool
  | [] => true
  | [_] => true
  | x :: y :: rest => x < y && strictInc (y :: rest)

def distinctNat (l : List Nat) : Bool := strictInc (msortN (l.length) l)

theorem mergeN_perm (f : Nat) (a b : List Nat) : (mergeN f a b).Perm (a ++ b) := by
  induction f generalizing a b with
  | zero => exact List.Perm.refl _
  | succ f ih =>
    cases a with
    | nil => simp [mergeN]
    | cons x xs =>
      cases b with
      | nil => simp [mergeN]
      | cons y ys =>
        simp only [mergeN]
        split
        · exact List.Perm.cons x (ih xs (y :: ys))
        · have h1 := ih (x :: xs) ys
          have h2 : (y :: (x :: xs ++ ys)).Perm (x :: xs ++ y :: ys) := by
            exact (List.perm_middle (a := y) (l₁ := x :: xs) (l₂ := ys)).symm
          exact (List.Perm.cons y h1).trans h2

theorem splitAlt_perm (l : List Nat) : ((splitAlt l).1 ++ (splitAlt l).2).Perm l := by
  induction l using splitAlt.induct with
  | case1 => simp [splitAlt]
  | case2 x => simp [splitAlt]
  | case3 x y rest ih =>
    simp only [splitAlt]
    have h : (x :: ((splitAlt rest).1 ++ y :: (splitAlt rest).2)).Perm (x :: y :: ((splitAlt rest).1 ++ (splitAlt rest).2)) :=
      List.Perm.cons x List.perm_middle
    exact h.trans (List.Perm.cons x (List.Perm.cons y ih))

theorem msortN_perm (f : Nat) (l : List Nat) : (msortN f l).Perm l := by
  induction f generalizing l with
  | zero => exact List.Perm.refl _
  | succ f ih =>
    unfold msortN
    split
    · exact List.Perm.refl _
    · exact List.Perm.refl _
    · simp only
      exact (mergeN_perm _ _ _).trans ((List.Perm.append (ih _) (ih _)).trans (splitAlt_perm l))

theorem strictInc_lt_all : ∀ (x : Nat) (l : List Nat), strictInc (x :: l) = true → ∀ y ∈ l, x < y := by
  intro x l
  induction l generalizing x with
  | nil => intro _ y hy; cases hy
  | cons z rest ih =>
    intro h y hy
    simp only [strictInc, Bool.and_eq_true, decide_eq_true_eq] at h
    rcases List.mem_cons.mp hy with rfl | hy
    · exact h.1
    · exact Nat.lt_trans h.1 (ih z h.2 y hy)

theorem strictInc_nodup : ∀ (l : List Nat), strictInc l = true → l.Nodup := by
  intro l
  induction l with
  | nil => intro _; exact List.nodup_nil
  | cons x rest ih =>
    intro h
    have hall := strictInc_lt_all x rest h
    have hrest : strictInc rest = true := by
      cases rest with
      | nil => rfl
      | cons y ys => simp only [strictInc, Bool.and_eq_true] at h; exact h.2
    refine List.nodup_cons.mpr ⟨?_, ih hrest⟩
    intro hm
    exact Nat.lt_irrefl x (hall x hm)

theorem distinctNat_nodup (l : List Nat) (h : distinctNat l = true) : l.Nodup :=
  (msortN_perm _ l).nodup_iff.mp (strictInc_nodup _ h)

/-- in a list whose keys are pairwise distinct, `find?` by key returns the element itself -/
theorem find?_of_nodup_keys {α : Type} (key : α → Nat) (l : List α) (hnd : (l.map key).Nodup) (e : α) (he : e ∈ l) :
    l.find? (fun x => key x == key e) = some e := by
  induction l with
  | nil => cases he
  | cons x rest ih =>
    simp only [List.map_cons, List.nodup_cons] at hnd
    simp only [List.find?_cons]
    rcases List.mem_cons.mp he with rfl | he'
    · simp
    · have hne : key x ≠ key e := by
        intro hc
        exact hnd.1 (by rw [hc]; exact List.mem_map_of_mem he')
      have : (key x == key e) = false := by simpa using hne
      rw [this]
      exact ih hnd.2 he'

end Ubx
