import Ubx.Proofs.CodeBits
import Ubx.Generated.Tables
/-!
# `UBXMessage._set_attribute_cfgval`, as written, is the model's `wCfgVal`

The parser of CFG-VALGET / CFG-VALSET payloads: `self._payload = kwargs["payload"]` (UBXMessageError without it),
`cfglen = len(self._payload[offset:])`, and the `while offset < cfglen` loop that idles four passes (`i` = 0…3) and on
the fifth reads a 4-byte key id, looks up name and type (`cfgkey2name`), takes `attsiz(att)` value bytes, decodes them
(`bytes2val`), stores the attribute and advances. `cv_round` unrolls five passes of the interpreter's loop into one
step of the model's `cfgLoop`; `cv_loop` is the induction (model fuel `n` with `cfglen ≤ off + 4n`, interpreter budget
`≥ 5n + 1`); `set_cfgval_eq` is the whole method, for every payload and offset. The one hypothesis, that every type
`cfgkey2name` returns has a non-negative size, is proved for the shipped database and the synthesised `X` types
(`gen_cfg_sizes`, by kernel evaluation over the 1 242 keys).
-/
set_option maxRecDepth 10000
set_option linter.unusedSimpArgs false
namespace Ubx.Py
open Ubx Ubx.Gen.Code

theorem toPyB_ofPy (v : PyVal) : toPyB (V.ofPy v) = v := by cases v <;> rfl

def cvCall (c : WCtx) (f : Name) (args : List (V BO)) (kw : List (Name × V BO)) (st : BSt) : X BO (V BO) × BSt :=
  if f = 0x6366676b6579326e616d65 then               -- cfgkey2name(key)
    match args with
    | [.int k] =>
      if 0 ≤ k then (encR (fun (nt : Name × Ty) => V.tuple [.str nt.1, .host (.ty nt.2)]) (cfgkey2name c.ctx k.toNat), st)
      else (raiseX xUnsupported, st)
    | _ => (raiseX xUnsupported, st)
  else if f = 0x62797465733276616c then              -- bytes2val(valb, att)
    match args with
    | [.bytes b, .host (.ty t)] => (encR V.ofPy (bytes2val b t), st)
    | _ => (raiseX xUnsupported, st)
  else if f = 0x5542584d6573736167654572726f72 then  -- UBXMessageError(...)
    (.ok (.exc xUBXMessageError 0), st)
  else bCall c f args kw st

/-- `kwargs["payload"]` -/
def cvIndex (kwp : Bytes) (o : BO) (i : V BO) (_st : BSt) : X BO (V BO) :=
  match o, i with
  | .kwargs, .str 0x7061796c6f6164 => .ok (.bytes kwp)
  | _, _ => raiseX xUnsupported

def cvHost (c : WCtx) (kwp : Bytes) : Host BO BSt :=
  { bitsHost c with call := cvCall c, attr := bfAttr, setattr := bfSetattr, index := cvIndex kwp }

theorem cv_call (c : WCtx) (kwp : Bytes) : (cvHost c kwp).call = cvCall c := rfl
theorem cv_attr (c : WCtx) (kwp : Bytes) : (cvHost c kwp).attr = bfAttr := rfl
theorem cv_setattr (c : WCtx) (kwp : Bytes) : (cvHost c kwp).setattr = bfSetattr := rfl
theorem cv_index (c : WCtx) (kwp : Bytes) : (cvHost c kwp).index = cvIndex kwp := rfl
theorem cv_contains (c : WCtx) (kwp : Bytes) : (cvHost c kwp).contains = bContains c := rfl

def cvLoop : S := match fn_UBXMessage__set_attribute_cfgval.body with
  | [_, _, _, _, l] => l
  | _ => .pass
def cvCond : E := match cvLoop with | .while_ c _ => c | _ => .none
def cvBody : List S := match cvLoop with | .while_ _ b => b | _ => []

/-- the local variables of the loop: `self, offset, kwargs, KEYLEN, cfglen, i` and, once a key has been processed,
    `key, keyname, att, atts, valb, val` (their values no longer matter) -/
def CvVars (vars : List (Name × V BO)) (off cfglen i : Nat) : Prop :=
  getVar vars 0x73656c66 = some (.host .self) ∧ getVar vars 0x6f6666736574 = some (.int off)
  ∧ getVar vars 0x4b45594c454e = some (.int 4) ∧ getVar vars 0x6366676c656e = some (.int cfglen)
  ∧ getVar vars 0x69 = some (.int i)

theorem cv_cond (c : WCtx) (kwp : Bytes) (F : Nat) (vars : List (Name × V BO)) (st : BSt) (off cfglen i : Nat)
    (hv : CvVars vars off cfglen i) :
    whileCond (cvHost c kwp) F cvCond ⟨vars, st⟩ = (.ok (decide (off < cfglen)), ⟨vars, st⟩) := by
  obtain ⟨_, h2, _, h4, _⟩ := hv
  simp only [whileCond, cvCond, cvLoop, fn_UBXMessage__set_attribute_cfgval]
  pysimp [h2, h4]
  congr 2
  simp

theorem cv_idle (c : WCtx) (kwp : Bytes) (F : Nat) (vars : List (Name × V BO)) (st : BSt) (off cfglen i : Nat)
    (hv : CvVars vars off cfglen i) (hi : i ≠ 4) :
    ∃ vars', whileBody (cvHost c kwp) F cvBody ⟨vars, st⟩ = (.ok .next, ⟨vars', st⟩) ∧ CvVars vars' off cfglen (i + 1) := by
  obtain ⟨h1, h2, h3, h4, h5⟩ := hv
  simp only [whileBody, cvBody, cvLoop, fn_UBXMessage__set_attribute_cfgval]
  have hne : ((i : Int) == 4) = false := by
    rw [beq_eq_false_iff_ne]; omega
  rw [execB_one]
  pysimp [h5, h3, hne]
  refine ⟨_, rfl, ?_⟩
  refine ⟨?_, ?_, ?_, ?_, ?_⟩ <;> pysimp [h1, h2, h3, h4, h5, Int.natCast_add, Int.natCast_one]

/-- one key, as the model has it: the new offset and environment -/
def cvStep (c : WCtx) (payload : Bytes) (off : Nat) (env : Env) : R (Nat × Env) :=
  match cfgkey2name c.ctx (fromLE (slice payload off (off + 4))) with
  | .error e => .error e
  | .ok (kn, ty) =>
    match attsiz ty with
    | .error e => .error e
    | .ok atts =>
      match bytes2val (slice payload (off + 4) (off + 4 + atts.toNat)) ty with
      | .error e => .error e
      | .ok v =>
        match setAttr c env ⟨kn, []⟩ v with
        | .error e => .error e
        | .ok env' => .ok (off + 4 + atts.toNat, env')

def CvPost (res : R (Nat × Env)) (cfglen : Nat) (st : BSt) (r : X BO (Flow BO) × St BO BSt) : Prop :=
  match res with
  | .ok (off', env') => r.1 = .ok .next ∧ r.2.h = { st with env := env' } ∧ CvVars r.2.vars off' cfglen 0
  | .error e => r.1 = .error (.exc (excName e) 0)

/-- the iteration with `i == KEYLEN`: one key is decoded and stored (sizes are never negative: `hsz`) -/
theorem cv_key (c : WCtx) (kwp : Bytes) (F : Nat) (vars : List (Name × V BO)) (st : BSt) (off cfglen : Nat)
    (hv : CvVars vars off cfglen 4)
    (hsz : ∀ k n t, cfgkey2name c.ctx k = .ok (n, t) → ∃ m : Nat, attsiz t = .ok (m : Int)) :
    CvPost (cvStep c st.payload off st.env) cfglen st (whileBody (cvHost c kwp) F cvBody ⟨vars, st⟩) := by
  obtain ⟨h1, h2, h3, h4, h5⟩ := hv
  simp only [whileBody, cvBody, cvLoop, fn_UBXMessage__set_attribute_cfgval]
  have heq : (((4 : Nat) : Int) == 4) = true := by decide
  have hsl : pySlice st.payload (off : Int) ((off : Int) + 4) = slice st.payload off (off + 4) := by
    rw [pySlice_nonneg _ _ _ (by omega) (by omega)]; congr 1 <;> omega
  rw [execB_one]
  pysimp [h5, h3, heq, Int.reduceBEq]
  pystep [h1, h2, h3, cv_attr, bfAttr, hsl, Bool.false_eq_true, kwArg, builtin]
  pystep [cv_call, cvCall, Int.natCast_nonneg, Int.toNat_natCast]
  unfold cvStep
  cases hk : cfgkey2name c.ctx (fromLE (slice st.payload off (off + 4))) with
  | error e => simp [CvPost, encR]
  | ok nt =>
    obtain ⟨kn, ty⟩ := nt
    obtain ⟨m, hm⟩ := hsz _ _ _ hk
    simp only [encR, hm, Int.toNat_natCast]
    pysimp [bindT]
    pystep [cv_call, cvCall, bCall, hm, encR]
    have hsl2 : pySlice st.payload ((off : Int) + 4) ((off : Int) + 4 + (m : Int)) = slice st.payload (off + 4) (off + 4 + m) := by
      rw [pySlice_nonneg _ _ _ (by omega) (by omega)]; congr 1 <;> omega
    pystep [h1, h2, h3, cv_attr, bfAttr, hsl2]
    pystep [cv_call, cvCall]
    cases hb : bytes2val (slice st.payload (off + 4) (off + 4 + m)) ty with
    | error e => simp [CvPost, encR]
    | ok v =>
      simp only [encR]
      pystep [h1, cv_call, cvCall, bCall, anameOf, toPyB_ofPy]
      cases hs : setAttr c st.env ⟨kn, []⟩ v with
      | error e => simp [CvPost]
      | ok env' =>
        simp only
        pystep [h2, h3]
        simp only [CvPost, CvVars]
        refine ⟨trivial, trivial, ?_, ?_, ?_, ?_, ?_⟩ <;> pysimp [h1, h2, h3, h4, Int.natCast_add] <;> first | rfl | (congr 2; omega)

theorem cfgLoop_succ (c : WCtx) (p : Bytes) (cfglen n off : Nat) (env : Env) :
    cfgLoop c p cfglen (n + 1) off env
      = (if off < cfglen then
           match cvStep c p off env with
           | .error e => .error e
           | .ok (off', env') => cfgLoop c p cfglen n off' env'
         else .ok env) := by
  simp only [cfgLoop, cvStep, bind, Except.bind, pure, Except.pure]
  by_cases h : off < cfglen
  · simp only [h, ↓reduceIte]
    cases cfgkey2name c.ctx (fromLE (slice p off (off + 4))) with
    | error e => rfl
    | ok nt =>
      obtain ⟨kn, ty⟩ := nt
      simp only
      cases attsiz ty with
      | error e => rfl
      | ok atts =>
        simp only
        cases bytes2val (slice p (off + 4) (off + 4 + atts.toNat)) ty with
        | error e => rfl
        | ok v =>
          simp only
          cases setAttr c env ⟨kn, []⟩ v <;> rfl
  · simp only [h, ↓reduceIte]

theorem cvStep_adv (c : WCtx) (p : Bytes) (off : Nat) (env : Env) (off' : Nat) (env' : Env)
    (h : cvStep c p off env = .ok (off', env')) : off + 4 ≤ off' := by
  unfold cvStep at h
  cases h1 : cfgkey2name c.ctx (fromLE (slice p off (off + 4))) with
  | error e => rw [h1] at h; cases h
  | ok nt =>
    obtain ⟨kn, ty⟩ := nt
    rw [h1] at h
    simp only at h
    cases h2 : attsiz ty with
    | error e => rw [h2] at h; cases h
    | ok atts =>
      rw [h2] at h
      simp only at h
      cases h3 : bytes2val (slice p (off + 4) (off + 4 + atts.toNat)) ty with
      | error e => rw [h3] at h; cases h
      | ok v =>
        rw [h3] at h
        simp only at h
        cases h4 : setAttr c env ⟨kn, []⟩ v with
        | error e => rw [h4] at h; cases h
        | ok e' =>
          rw [h4] at h
          simp only [Except.ok.injEq, Prod.mk.injEq] at h
          omega

/-- four idle iterations (`i` = 0…3) and the iteration that decodes a key -/
theorem cv_round (c : WCtx) (kwp : Bytes) (G F : Nat) (vars : List (Name × V BO)) (st : BSt) (off cfglen : Nat)
    (hv : CvVars vars off cfglen 0) (hlt : off < cfglen)
    (hsz : ∀ k n t, cfgkey2name c.ctx k = .ok (n, t) → ∃ m : Nat, attsiz t = .ok (m : Int)) :
    (match cvStep c st.payload off st.env with
     | .ok (off', env') => ∃ vars', CvVars vars' off' cfglen 0 ∧
          whileLoop (whileCond (cvHost c kwp) G cvCond) (whileBody (cvHost c kwp) G cvBody) (F + 5) ⟨vars, st⟩
            = whileLoop (whileCond (cvHost c kwp) G cvCond) (whileBody (cvHost c kwp) G cvBody) F ⟨vars', { st with env := env' }⟩
     | .error e => (whileLoop (whileCond (cvHost c kwp) G cvCond) (whileBody (cvHost c kwp) G cvBody) (F + 5) ⟨vars, st⟩).1
          = .error (.exc (excName e) 0)) := by
  have hd : decide (off < cfglen) = true := by simp [hlt]
  obtain ⟨v1, e1, hv1⟩ := cv_idle c kwp G vars st off cfglen 0 hv (by decide)
  obtain ⟨v2, e2, hv2⟩ := cv_idle c kwp G v1 st off cfglen 1 hv1 (by decide)
  obtain ⟨v3, e3, hv3⟩ := cv_idle c kwp G v2 st off cfglen 2 hv2 (by decide)
  obtain ⟨v4, e4, hv4⟩ := cv_idle c kwp G v3 st off cfglen 3 hv3 (by decide)
  have hk := cv_key c kwp G v4 st off cfglen hv4 hsz
  have unroll : whileLoop (whileCond (cvHost c kwp) G cvCond) (whileBody (cvHost c kwp) G cvBody) (F + 5) ⟨vars, st⟩
      = whileLoop (whileCond (cvHost c kwp) G cvCond) (whileBody (cvHost c kwp) G cvBody) (F + 1) ⟨v4, st⟩ := by
    rw [show F + 5 = (F + 4) + 1 from rfl, whileLoop, cv_cond c kwp G vars st off cfglen 0 hv, hd]
    simp only [e1]
    rw [show F + 4 = (F + 3) + 1 from rfl, whileLoop, cv_cond c kwp G v1 st off cfglen 1 hv1, hd]
    simp only [e2]
    rw [show F + 3 = (F + 2) + 1 from rfl, whileLoop, cv_cond c kwp G v2 st off cfglen 2 hv2, hd]
    simp only [e3]
    rw [show F + 2 = (F + 1) + 1 from rfl, whileLoop, cv_cond c kwp G v3 st off cfglen 3 hv3, hd]
    simp only [e4]
  rw [unroll, whileLoop, cv_cond c kwp G v4 st off cfglen 4 hv4, hd]
  simp only
  generalize whileBody (cvHost c kwp) G cvBody ⟨v4, st⟩ = r at hk ⊢
  obtain ⟨r1, ⟨vars5, st5⟩⟩ := r
  cases hs : cvStep c st.payload off st.env with
  | error e =>
    rw [hs] at hk
    simp only [CvPost] at hk
    subst hk
    rfl
  | ok oe =>
    obtain ⟨off', env'⟩ := oe
    rw [hs] at hk
    simp only [CvPost] at hk
    obtain ⟨k1, k2, k3⟩ := hk
    subst k1
    subst k2
    exact ⟨vars5, k3, rfl⟩

/-- the `while offset < cfglen` loop as written = the model's `cfgLoop` (one model step per five passes) -/
theorem cv_loop (c : WCtx) (kwp : Bytes) (G : Nat) (cfglen : Nat)
    (hsz : ∀ k n t, cfgkey2name c.ctx k = .ok (n, t) → ∃ m : Nat, attsiz t = .ok (m : Int)) (n : Nat) :
    ∀ (off : Nat) (vars : List (Name × V BO)) (st : BSt) (F : Nat), CvVars vars off cfglen 0 → cfglen ≤ off + 4 * n →
      5 * n + 1 ≤ F →
      (match cfgLoop c st.payload cfglen n off st.env with
       | .ok env' => ∃ vars', whileLoop (whileCond (cvHost c kwp) G cvCond) (whileBody (cvHost c kwp) G cvBody) F ⟨vars, st⟩
            = (.ok .next, ⟨vars', { st with env := env' }⟩)
       | .error e => (whileLoop (whileCond (cvHost c kwp) G cvCond) (whileBody (cvHost c kwp) G cvBody) F ⟨vars, st⟩).1
            = .error (.exc (excName e) 0)) := by
  induction n with
  | zero =>
    intro off vars st F hv hle hF
    obtain ⟨F', rfl⟩ : ∃ F', F = F' + 1 := ⟨F - 1, by omega⟩
    have hd : decide (off < cfglen) = false := by simp; omega
    simp only [cfgLoop]
    rw [whileLoop, cv_cond c kwp G vars st off cfglen 0 hv, hd]
    exact ⟨vars, rfl⟩
  | succ n ih =>
    intro off vars st F hv hle hF
    rw [cfgLoop_succ]
    by_cases hlt : off < cfglen
    · simp only [hlt, ↓reduceIte]
      obtain ⟨F', rfl⟩ : ∃ F', F = F' + 5 := ⟨F - 5, by omega⟩
      have hr := cv_round c kwp G F' vars st off cfglen hv hlt hsz
      cases hs : cvStep c st.payload off st.env with
      | error e => rw [hs] at hr; exact hr
      | ok oe =>
        obtain ⟨off', env'⟩ := oe
        rw [hs] at hr
        obtain ⟨vars', hv', heq⟩ := hr
        simp only
        rw [heq]
        have hadv := cvStep_adv c st.payload off st.env off' env' hs
        exact ih off' vars' { st with env := env' } F' hv' (by omega) (by omega)
    · simp only [hlt, ↓reduceIte]
      obtain ⟨F', rfl⟩ : ∃ F', F = F' + 1 := ⟨F - 1, by omega⟩
      have hd : decide (off < cfglen) = false := by simp; omega
      rw [whileLoop, cv_cond c kwp G vars st off cfglen 0 hv, hd]
      exact ⟨vars, rfl⟩

/-- **`_set_attribute_cfgval` as written = the model's `wCfgVal`**: CFG-VALGET / CFG-VALSET payloads of any length,
    any keys (documented or not), provided every key's value size is non-negative (`hsz`; true of the shipped
    configuration database, whose types are all sized, and of the `X` types synthesised for unknown keys) and the
    `while` budget covers the payload (`5·(len + 1) + 1` passes) -/
theorem set_cfgval_eq (c : WCtx) (F : Nat) (off : Nat) (st : BSt)
    (hsz : ∀ k n t, cfgkey2name c.ctx k = .ok (n, t) → ∃ m : Nat, attsiz t = .ok (m : Int))
    (hF : 5 * (st.payload.length - off + 1) + 1 ≤ F) :
    (match wCfgVal c ⟨off, st.payload, st.env⟩ with
     | .ok ws => runFn (cvHost c st.payload) F fn_UBXMessage__set_attribute_cfgval [.host .self, .int off, .host .kwargs] st
          = (.ok .none, ⟨ws.env, ws.payload⟩)
     | .error e => (runFn (cvHost c st.payload) F fn_UBXMessage__set_attribute_cfgval [.host .self, .int off, .host .kwargs] st).1
          = .error (.exc (excName e) 0)) := by
  unfold runFn fn_UBXMessage__set_attribute_cfgval wCfgVal
  pystep
  cases hp : c.hasPayload
  · simp only [Bool.not_false, ↓reduceIte]
    pystep [cv_contains, bContains, hp, cv_call, cvCall]
    rfl
  · simp only [Bool.not_true, Bool.false_eq_true, ↓reduceIte]
    pystep [cv_contains, bContains, hp, cv_index, cvIndex, cv_setattr, bfSetattr]
    have hlen : ((pySlice st.payload (off : Int) (st.payload.length : Int)).length : Int) = ((st.payload.length - off : Nat) : Int) := by
      rw [pySlice_nonneg _ _ _ (by omega) (by omega)]
      simp [slice]
    pystep [cv_attr, bfAttr, boundOf, hlen]
    pystep
    have hl := cv_loop c st.payload (F) (st.payload.length - off) hsz (st.payload.length - off + 1) off
      [(1936026726, V.host BO.self), (122485596185972, V.int ↑off), (118160480167795, V.host BO.kwargs),
        (82761222997326, V.int 4), (109291472971118, V.int ((st.payload.length - off : Nat) : Int)), (105, V.int 0)]
      { env := st.env, payload := st.payload } F
      (by refine ⟨?_, ?_, ?_, ?_, ?_⟩ <;> pysimp <;> rfl) (by omega) (by omega)
    simp only [cvCond, cvBody, cvLoop, fn_UBXMessage__set_attribute_cfgval] at hl
    cases hc : cfgLoop c st.payload (st.payload.length - off) (st.payload.length - off + 1) off st.env with
    | error e =>
      rw [hc] at hl
      simp only at hl ⊢
      generalize whileLoop _ _ F _ = r at hl ⊢
      obtain ⟨r1, r2⟩ := r
      simp only at hl
      subst hl
      rfl
    | ok env' =>
      rw [hc] at hl
      obtain ⟨vars', hw⟩ := hl
      simp only
      rw [hw]

def sizedOK (t : Ty) : Bool := match attsiz t with | .ok n => decide (0 ≤ n) | .error _ => false

theorem gen_cfgdb_sized : Gen.ctx.cfgdb.all (fun e => sizedOK e.2.2) = true := by decide +kernel

/-- every type `cfgkey2name` can return with the shipped configuration database has a non-negative size -/
theorem gen_cfg_sizes (c : WCtx) (hc : c.ctx = Gen.ctx) :
    ∀ k n t, cfgkey2name c.ctx k = .ok (n, t) → ∃ m : Nat, attsiz t = .ok (m : Int) := by
  intro k n t h
  rw [hc] at h
  unfold cfgkey2name at h
  cases hf : Gen.ctx.cfgdb.find? (fun e => e.2.1 == k) with
  | some e =>
    rw [hf] at h
    simp only [Except.ok.injEq, Prod.mk.injEq] at h
    have hmem := List.mem_of_find?_eq_some hf
    have hall := List.all_eq_true.mp gen_cfgdb_sized e hmem
    rw [h.2] at hall
    unfold sizedOK at hall
    cases ha : attsiz t with
    | error x => rw [ha] at hall; cases hall
    | ok m =>
      rw [ha] at hall
      simp only [decide_eq_true_eq] at hall
      exact ⟨m.toNat, by congr 1; omega⟩
  | none =>
    rw [hf] at h
    simp only at h
    split at h
    · cases h
    · split at h
      · rename_i e he
        simp only [Except.ok.injEq, Prod.mk.injEq] at h
        exact ⟨e.2, by rw [← h.2]; rfl⟩
      · cases h
end Ubx.Py
