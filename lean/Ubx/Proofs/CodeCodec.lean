import Ubx.Proofs.CodeHelpers
import Ubx.Model.Codec
/-!
# `bytes2val`, as written, is the model's `bytes2val`

The decoder of one attribute's bytes: `CH` → text (kept as its bytes), `X` / `C` → the bytes themselves, `E I L U` →
`int.from_bytes(valb, byteorder="little", signed=(letter == "I"))`, `R` → `struct.unpack("<f" | "<d", valb)[0]` by
`attsiz` (struct.error on a wrong length), `A` → the first `attsiz` bytes as a list of ints (`a_loop`, by induction;
IndexError when the bytes run out), anything else → UBXTypeError. `bytes2val_ch` and `bytes2val_eq` together cover every
byte string and every type, including malformed type strings. Host: `atttyp`, `attsiz`, `struct.unpack`, `range`,
`bytes.decode` are the model's functions of the same meaning. (Seeded change S58 — the signed minimum decoded as a
positive number — was in this function.)
-/
set_option maxRecDepth 10000
set_option linter.unusedSimpArgs false
namespace Ubx.Py
open Ubx Ubx.Gen.Code

inductive TO where
  | ty (t : Ty)

def encVal : PyVal → V TO
  | .ints l => .tuple (l.map (fun x => match x with | some i => V.int i | none => V.none))
  | v => V.ofPy v

def tvCall (f : Name) (args : List (V TO)) (_kw : List (Name × V TO)) (st : Unit) : X TO (V TO) × Unit :=
  if f = 0x617474747970 then                       -- atttyp(att)
    match args with
    | [.host (.ty t)] => (.ok (.str (atttyp t)), st)
    | _ => (raiseX xUnsupported, st)
  else if f = 0x61747473697a then                  -- attsiz(att)
    match args with
    | [.host (.ty t)] => (encR (fun n : Int => V.int n) (attsiz t), st)
    | _ => (raiseX xUnsupported, st)
  else if f = 0x7374727563742e756e7061636b then    -- struct.unpack(fmt, valb)
    match args with
    | [.str 0x3c66, .bytes b] =>
      (if b.length = 4 then .ok (.tuple [.py (.float (F64.ofF32 (fromLE b)))]) else .error (.exc xStructError 0), st)
    | [.str 0x3c64, .bytes b] =>
      (if b.length = 8 then .ok (.tuple [.py (.float (fromLE b))]) else .error (.exc xStructError 0), st)
    | _ => (raiseX xUnsupported, st)
  else if f = 0x72616e6765 then                    -- range(n)
    match args with
    | [.int n] => (.ok (.tuple ((List.range n.toNat).map (fun (i : Nat) => (V.int (i : Int) : V TO)))), st)
    | _ => (raiseX xUnsupported, st)
  else (raiseX xUnsupported, st)

def tvMcall (obj : V TO) (m : Name) (_args : List (V TO)) (_kw : List (Name × V TO)) (st : Unit) : X TO (V TO) × Unit :=
  match obj with
  | .bytes b =>
    if m = 0x6465636f6465 then (.ok (.py (.str b)), st)     -- valb.decode("utf-8", "backslashreplace"): text kept as its bytes
    else (raiseX xUnsupported, st)
  | _ => (raiseX xUnsupported, st)

def tvHost : Host TO Unit where
  glob := fun x => if x = 0x4348 then some (.host (.ty .ch)) else none
  call := tvCall
  mcall := tvMcall
  attr := fun _ _ _ => raiseX xUnsupported
  setattr := fun _ _ _ st => (raiseX xUnsupported, st)
  index := fun _ _ _ => raiseX xUnsupported
  contains := fun _ _ _ => raiseX xUnsupported
  truthy := fun _ => true
  eqHost := fun o v => match o, v with
    | .ty a, .host (.ty b) => a == b
    | _, _ => false

theorem tv_call : tvHost.call = tvCall := rfl
theorem tv_mcall : tvHost.mcall = tvMcall := rfl
theorem tv_glob (x : Name) : tvHost.glob x = (if x = 0x4348 then some (.host (.ty .ch)) else none) := rfl
theorem tv_eq (a : Ty) (v : V TO) : tvHost.eqHost (.ty a) v = (match v with | .host (.ty b) => a == b | _ => false) := by
  cases v <;> rfl

theorem bytes2val_ch (F : Nat) (valb : Bytes) :
    (runFn tvHost F fn_bytes2val [.bytes valb, .host (.ty .ch)] ()).1
      = (match bytes2val valb .ch with
         | .ok v => .ok (encVal v)
         | .error e => .error (.exc (excName e) 0)) := by
  unfold runFn fn_bytes2val bytes2val
  pystep [tv_glob, tv_eq, tv_mcall, tvMcall, builtinMethod, beq_self_eq_true]
  rfl

/-- the A-type loop: `for i in range(n): val.append(valb[i])` -/
def aLoop : S := match fn_bytes2val.body with
  | [.if_ _ _ [.if_ _ _ [.if_ _ _ [.if_ _ _ [.if_ _ [_, l] _]]]], _] => l
  | _ => .pass
def aBody : List S := match aLoop with | .for_ _ _ b => b | _ => []

theorem a_body (F : Nat) (valb : Bytes) (s : Nat) (acc : List (V TO)) (vars : List (Name × V TO))
    (hb : getVar vars 0x76616c62 = some (.bytes valb)) (hv : getVar vars 0x76616c = some (.tuple acc)) :
    forBody tvHost F 0x69 aBody (.int (s : Int)) ⟨vars, ()⟩
      = (if s < valb.length then
           (.ok .next, ⟨setVar (setVar vars 0x69 (.int (s : Int))) 0x76616c (.tuple (acc ++ [V.int ((valb[s]?.getD 0).toNat : Int)])), ()⟩)
         else (.error (.exc xIndexError 0), ⟨setVar vars 0x69 (.int (s : Int)), ()⟩)) := by
  simp only [forBody, aBody, aLoop, fn_bytes2val]
  rw [execB_one]
  have hneg : ¬ ((s : Int) < 0) := by omega
  pysimp [hb, hv, hneg, Int.natCast_nonneg, Int.toNat_natCast, true_and]
  by_cases hlt : s < valb.length
  · have hl' : (s : Int) < (valb.length : Int) := by omega
    simp only [hl', hlt, ↓reduceIte]
    simp [List.getD_eq_getElem?_getD]
  · have hl' : ¬ ((s : Int) < (valb.length : Int)) := by omega
    simp only [hl', hlt, ↓reduceIte]

theorem take_succ_map (valb : Bytes) (s : Nat) (h : s < valb.length) :
    (valb.take (s + 1)).map (fun b => (V.int (b.toNat : Int) : V TO))
      = (valb.take s).map (fun b => (V.int (b.toNat : Int) : V TO)) ++ [V.int ((valb[s]?.getD 0).toNat : Int)] := by
  rw [List.take_add_one, List.map_append]
  congr 1
  rw [List.getElem?_eq_getElem h]
  simp

theorem a_loop (F : Nat) (valb : Bytes) (k : Nat) : ∀ (s : Nat) (vars : List (Name × V TO)),
    getVar vars 0x76616c62 = some (.bytes valb) →
    getVar vars 0x76616c = some (.tuple ((valb.take s).map (fun b => V.int (b.toNat : Int)))) → s ≤ valb.length →
    (if s + k ≤ valb.length then
       ∃ vars', forLoop (forBody tvHost F 0x69 aBody) ((List.range' s k).map (fun (i : Nat) => (V.int (i : Int) : V TO))) ⟨vars, ()⟩
          = (.ok .next, ⟨vars', ()⟩)
          ∧ getVar vars' 0x76616c = some (.tuple ((valb.take (s + k)).map (fun b => V.int (b.toNat : Int))))
     else (forLoop (forBody tvHost F 0x69 aBody) ((List.range' s k).map (fun (i : Nat) => (V.int (i : Int) : V TO))) ⟨vars, ()⟩).1
          = .error (.exc xIndexError 0)) := by
  induction k with
  | zero =>
    intro s vars _ hv hs
    simp only [Nat.add_zero, hs, ↓reduceIte, List.range'_zero, List.map_nil, forLoop]
    exact ⟨vars, rfl, hv⟩
  | succ k ih =>
    intro s vars hb hv hs
    rw [List.range'_succ, List.map_cons, forLoop, a_body F valb s _ vars hb hv]
    by_cases hlt : s < valb.length
    · simp only [hlt, ↓reduceIte]
      have := ih (s + 1) (setVar (setVar vars 0x69 (.int (s : Int))) 0x76616c (.tuple ((valb.take s).map (fun b => V.int (b.toNat : Int)) ++ [V.int ((valb[s]?.getD 0).toNat : Int)])))
        (by pysimp [hb]) (by rw [getVar_setVar_same, take_succ_map valb s hlt]) (by omega)
      have e : s + 1 + k = s + (k + 1) := by omega
      rw [e] at this
      exact this
    · have hgt : ¬ (s + (k + 1) ≤ valb.length) := by omega
      simp only [hlt, hgt, ↓reduceIte]

theorem tvc_atttyp (t : Ty) (kw : List (Name × V TO)) (st : Unit) :
    tvCall 0x617474747970 [.host (.ty t)] kw st = (.ok (.str (atttyp t)), st) := rfl
theorem tvc_attsiz (t : Ty) (kw : List (Name × V TO)) (st : Unit) :
    tvCall 0x61747473697a [.host (.ty t)] kw st = (encR (fun n : Int => V.int n) (attsiz t), st) := rfl

/-- **`bytes2val` as written = the model's**, for every byte string and every type that is not `CH` (see `bytes2val_ch`) -/
theorem bytes2val_eq (F : Nat) (valb : Bytes) (t : Ty) (ht : t ≠ .ch) :
    (runFn tvHost F fn_bytes2val [.bytes valb, .host (.ty t)] ()).1
      = (match bytes2val valb t with
         | .ok v => .ok (encVal v)
         | .error e => .error (.exc (excName e) 0)) := by
  have hne : (t == Ty.ch) = false := by simpa using ht
  unfold runFn fn_bytes2val
  rw [execB_cons]
  pysimp [tv_glob, tv_eq, hne]
  pysimp [tv_call, tvc_atttyp, memTuple, pyEq]
  have hb2v : bytes2val valb t = (let l := atttyp t
      if l = cX || l = cC then .ok (.bytes valb)
      else if isIntLetter l then .ok (.int (if l = cI then fromLESigned valb else (fromLE valb : Int)))
      else if l = cR then
        match attsiz t with
        | .error e => .error e
        | .ok n =>
          if n = 4 then (if valb.length = 4 then .ok (.float (F64.ofF32 (fromLE valb))) else .error .structE)
          else (if valb.length = 8 then .ok (.float (fromLE valb)) else .error .structE)
      else if l = cA then
        match attsiz t with
        | .error e => .error e
        | .ok n => if n.toNat ≤ valb.length then .ok (.ints ((valb.take n.toNat).map (fun b => some (b.toNat : Int)))) else .error .indexE
      else .error .ubxType) := by
    cases t with
    | ch => exact absurd rfl ht
    | t l n => rfl
    | malformed l => rfl
  rw [hb2v]
  obtain ⟨l, hl⟩ : ∃ l, atttyp t = l := ⟨_, rfl⟩
  simp only [hl, cX, cC, cR, cA, cI, isIntLetter, cE, cL, cU]
  by_cases h88 : l = 88
  · subst h88; pysimp [Nat.reduceBEq]; rfl
  by_cases h67 : l = 67
  · subst h67; pysimp [Nat.reduceBEq]; rfl
  have b88 : (l == 88) = false := by simpa using h88
  have b67 : (l == 67) = false := by simpa using h67
  by_cases h69 : l = 69
  · subst h69; pysimp [tv_call, tvc_atttyp, memTuple, pyEq, hl, builtin, kwArg, Nat.reduceBEq]; rfl
  by_cases h73 : l = 73
  · subst h73; pysimp [tv_call, tvc_atttyp, memTuple, pyEq, hl, builtin, kwArg, Nat.reduceBEq]; rfl
  by_cases h76 : l = 76
  · subst h76; pysimp [tv_call, tvc_atttyp, memTuple, pyEq, hl, builtin, kwArg, Nat.reduceBEq]; rfl
  by_cases h85 : l = 85
  · subst h85; pysimp [tv_call, tvc_atttyp, memTuple, pyEq, hl, builtin, kwArg, Nat.reduceBEq]; rfl
  have b69 : (l == 69) = false := by simpa using h69
  have b73 : (l == 73) = false := by simpa using h73
  have b76 : (l == 76) = false := by simpa using h76
  have b85 : (l == 85) = false := by simpa using h85
  by_cases h82 : l = 82
  · subst h82
    pysimp [tv_call, tvc_atttyp, tvc_attsiz, memTuple, pyEq, hl, Nat.reduceBEq]
    cases attsiz t with
    | error e => rfl
    | ok n =>
      simp only [encR]
      by_cases h4 : n = 4
      · subst h4
        pysimp [tv_call, tvCall, Int.reduceBEq]
        by_cases hlen : valb.length = 4
        · pysimp [hlen]; rfl
        · pysimp [hlen]; rfl
      · have b4 : (n == 4) = false := by simpa using h4
        pysimp [tv_call, tvCall, b4, h4]
        by_cases hlen : valb.length = 8
        · pysimp [hlen]; rfl
        · pysimp [hlen]; rfl
  have b82 : (l == 82) = false := by simpa using h82
  by_cases h65 : l = 65
  · subst h65
    pysimp [tv_call, tvc_atttyp, memTuple, pyEq, hl, Nat.reduceBEq]
    pystep
    cases hs : attsiz t with
    | error e =>
      pysimp [tv_call, tvc_attsiz, hs, encR]
      rfl
    | ok n =>
      have hrange : tvCall 0x72616e6765 [V.int n] [] () = (.ok (.tuple ((List.range n.toNat).map (fun (i : Nat) => (V.int (i : Int) : V TO)))), ()) := rfl
      pysimp [tv_call, tvc_attsiz, hs, encR, hrange, iterOf]
      have hl2 := a_loop F valb n.toNat 0 [(1986096226, V.bytes valb), (6386804, V.host (TO.ty t)), (7758188, V.tuple [])]
        (by pysimp) (by pysimp; rfl) (by omega)
      simp only [aBody, aLoop, fn_bytes2val, Nat.zero_add, ← List.range_eq_range'] at hl2
      by_cases hle : n.toNat ≤ valb.length
      · simp only [hle, ↓reduceIte] at hl2 ⊢
        obtain ⟨vars', g1, g2⟩ := hl2
        rw [g1]
        simp only
        pysimp [g2]
        simp [encVal, List.map_map]
        rfl
      · simp only [hle, ↓reduceIte] at hl2 ⊢
        generalize forLoop _ _ _ = r at hl2 ⊢
        obtain ⟨r1, r2⟩ := r
        simp only at hl2
        subst hl2
        rfl
  have b65 : (l == 65) = false := by simpa using h65
  pysimp [tv_call, tvc_atttyp, memTuple, pyEq, hl, b88, b67, b69, b73, b76, b85, b82, b65, h88, h67, h69, h73, h76, h85, h82, h65]
  rfl
end Ubx.Py
