import Ubx.Proofs.CodeHelpers
import Ubx.Model.Message
/-!
# Name ↔ id lookups, as written, are the model's

`key_from_val` (first key whose value equals the argument, by induction over the table; KeyError otherwise),
`msgstr2bytes` (class by name, second byte of the message id by name — exact matches, UBXMessageError when either is
missing; calls the *translated* `key_from_val`), `msgclass2bytes` (two `val2bytes(·, U1)`), `cfgname2key` (the database
entry of that exact name). These are what addressing a message or a configuration key *by name* goes through; seeded
changes S21 / S83 (prefix instead of exact match) were here.
-/
set_option maxRecDepth 10000
set_option linter.unusedSimpArgs false
namespace Ubx.Py
open Ubx Ubx.Gen.Code

/-- objects of the name-lookup helpers: the three tables and storage-type strings -/
inductive NO where
  | classes
  | msgids
  | cfgdb
  | ty (t : Ty)

def nTable (ctx : Ctx) : NO → List (Bytes × Name)
  | .classes => ctx.classes
  | .msgids => ctx.msgids
  | _ => []

def nGlob : Name → Option (V NO)
  | 0x5542585f434c4153534553 => some (.host .classes)                          -- UBX_CLASSES
  | 0x5542585f4d5347494453 => some (.host .msgids)                              -- UBX_MSGIDS
  | 0x5542585f434f4e4649475f4441544142415345 => some (.host .cfgdb)            -- UBX_CONFIG_DATABASE
  | 0x5531 => some (.str 0x55303031)                                            -- U1
  | _ => none

def nMcall (ctx : Ctx) (obj : V NO) (m : Name) (args : List (V NO)) (_kw : List (Name × V NO)) (st : Unit) : X NO (V NO) × Unit :=
  match obj with
  | .host o =>
    if m = 0x6974656d73 ∧ args.isEmpty then      -- dictionary.items()
      (.ok (.tuple ((nTable ctx o).map (fun e => V.tuple [.bytes e.1, .str e.2]))), st)
    else (raiseX xUnsupported, st)
  | _ => (raiseX xUnsupported, st)

def nIndex (ctx : Ctx) (o : NO) (i : V NO) (_st : Unit) : X NO (V NO) :=
  match o, i with
  | .cfgdb, .str n =>                               -- UBX_CONFIG_DATABASE[name]
    (match ctx.cfgdb.find? (fun e => e.1 == n) with
     | some e => .ok (.tuple [.int e.2.1, .host (.ty e.2.2)])
     | none => .error (.exc xKeyError 0))
  | _, _ => raiseX xUnsupported

/-- level 1: `key_from_val` runs against the tables -/
def nHost1 (ctx : Ctx) : Host NO Unit where
  glob := nGlob
  call := fun f args _ st =>
    if f = 0x76616c326279746573 then                 -- val2bytes(v, U1)
      match args with
      | [.int v, .str 0x55303031] => (encR .bytes (val2bytes ctx.atttype (.int v) (.t cU 1)), st)
      | _ => (raiseX xUnsupported, st)
    else (raiseX xUnsupported, st)
  mcall := nMcall ctx
  attr := fun _ _ _ => raiseX xUnsupported
  setattr := fun _ _ _ st => (raiseX xUnsupported, st)
  index := nIndex ctx
  contains := fun _ _ _ => raiseX xUnsupported
  truthy := fun _ => true
  eqHost := fun _ _ => false

theorem n1_mcall (ctx : Ctx) : (nHost1 ctx).mcall = nMcall ctx := rfl
theorem n1_glob (ctx : Ctx) : (nHost1 ctx).glob = nGlob := rfl
theorem n1_index (ctx : Ctx) : (nHost1 ctx).index = nIndex ctx := rfl

def kfvLoop : S := match fn_key_from_val.body with
  | [_, l, _] => l
  | _ => .pass
def kfvBody : List S := match kfvLoop with | .for_ _ _ b => b | _ => []

theorem kfv_loop (ctx : Ctx) (F : Nat) (v : Name) (T : List (Bytes × Name)) : ∀ (vars : List (Name × V NO)),
    getVar vars 0x76616c7565 = some (.str v) →
    (match T.find? (fun e => e.2 == v) with
     | some e => ∃ st', forLoop (forBody (nHost1 ctx) F 0x5f5f6974656d5f5f kfvBody) (T.map (fun e => V.tuple [.bytes e.1, .str e.2])) ⟨vars, ()⟩
          = (.ok (.ret (.bytes e.1)), st')
     | none => ∃ st', forLoop (forBody (nHost1 ctx) F 0x5f5f6974656d5f5f kfvBody) (T.map (fun e => V.tuple [.bytes e.1, .str e.2])) ⟨vars, ()⟩
          = (.ok .next, st')) := by
  induction T with
  | nil => intro vars _; exact ⟨_, rfl⟩
  | cons e rest ih =>
    intro vars hv
    obtain ⟨k, n⟩ := e
    rw [List.map_cons, forLoop, List.find?_cons]
    have hb : forBody (nHost1 ctx) F 0x5f5f6974656d5f5f kfvBody (V.tuple [.bytes k, .str n]) ⟨vars, ()⟩
        = (if n == v then (.ok (.ret (.bytes k)), ⟨setVar (setVar (setVar vars 0x5f5f6974656d5f5f (V.tuple [.bytes k, .str n])) 0x6b6579 (.bytes k)) 0x76616c (.str n), ()⟩)
           else (.ok .next, ⟨setVar (setVar (setVar vars 0x5f5f6974656d5f5f (V.tuple [.bytes k, .str n])) 0x6b6579 (.bytes k)) 0x76616c (.str n), ()⟩)) := by
      simp only [forBody, kfvBody, kfvLoop, fn_key_from_val]
      pystep [bindT, hv]
      cases n == v <;> pysimp [Bool.false_eq_true]
    rw [hb]
    cases hnv : n == v
    · simp only [Bool.false_eq_true, ↓reduceIte]
      exact ih _ (by pysimp [hv])
    · simp only [↓reduceIte]
      exact ⟨_, rfl⟩

/-- `key_from_val(table, value)`: the first key whose value equals `value`, KeyError when there is none -/
theorem key_from_val_eq (ctx : Ctx) (F : Nat) (o : NO) (v : Name) :
    (runFn (nHost1 ctx) F fn_key_from_val [.host o, .str v] ()).1
      = (match (nTable ctx o).find? (fun e => e.2 == v) with
         | some e => .ok (.bytes e.1)
         | none => .error (.exc xKeyError 0)) := by
  unfold runFn fn_key_from_val
  pystep
  rw [execB_cons, execS_for]
  pysimp [n1_mcall, nMcall, List.isEmpty_nil, iterOf, builtinMethod]
  have hl := kfv_loop ctx F v (nTable ctx o)
    [(0x64696374696f6e617279, V.host o), (0x76616c7565, V.str v), (0x76616c, V.none)] (by pysimp)
  simp only [kfvBody, kfvLoop, fn_key_from_val] at hl
  cases hf : (nTable ctx o).find? (fun e => e.2 == v) with
  | some e =>
    rw [hf] at hl
    obtain ⟨st', h⟩ := hl
    rw [h]
  | none =>
    rw [hf] at hl
    obtain ⟨st', h⟩ := hl
    rw [h]

/-- level 2: `msgstr2bytes` calls the translated `key_from_val` -/
def nHost2 (ctx : Ctx) (fuel : Nat) : Host NO Unit :=
  { nHost1 ctx with call := fun f args kw st =>
      if f = 0x6b65795f66726f6d5f76616c then          -- key_from_val(table, value)
        match args with
        | [.host o, .str v] => runFn (nHost1 ctx) fuel fn_key_from_val [.host o, .str v] st
        | _ => (raiseX xUnsupported, st)
      else (nHost1 ctx).call f args kw st }

theorem n2_glob (ctx : Ctx) (f : Nat) : (nHost2 ctx f).glob = nGlob := rfl
theorem n2_call_kfv (ctx : Ctx) (f : Nat) (o : NO) (v : Name) (kw : List (Name × V NO)) (st : Unit) :
    (nHost2 ctx f).call 0x6b65795f66726f6d5f76616c [.host o, .str v] kw st
      = runFn (nHost1 ctx) f fn_key_from_val [.host o, .str v] st := rfl

/-- **`msgstr2bytes` as written = the model's**: the first class whose name is `msgclass`, the second byte of the first
    message id whose name is `msgid`, UBXMessageError when either is missing — exact matches only -/
theorem msgstr2bytes_eq (ctx : Ctx) (F : Nat) (c i : Name) :
    (runFn (nHost2 ctx F) F fn_msgstr2bytes [.str c, .str i] ()).1
      = (match msgstr2bytes ctx c i with
         | .ok (cb, ib) => .ok (.tuple [.bytes cb, .bytes ib])
         | .error e => .error (.exc (excName e) 0)) := by
  unfold runFn fn_msgstr2bytes msgstr2bytes
  have k1 := key_from_val_eq ctx F .classes c
  have k2 := key_from_val_eq ctx F .msgids i
  simp only [nTable] at k1 k2
  rw [execB_one, execS_try]
  rw [execB_one]
  pysimp [n2_glob, nGlob, n2_call_kfv]
  generalize runFn (nHost1 ctx) F fn_key_from_val [.host .classes, .str c] () = r1 at k1 ⊢
  obtain ⟨a1, u1⟩ := r1
  simp only at k1
  subst k1
  cases hc : ctx.classes.find? (fun e => e.2 == c) with
  | none =>
    simp only
    pysimp [execB_one]
    simp [excName]
    rfl
  | some ce =>
    simp only
    pysimp [n2_glob, nGlob, n2_call_kfv]
    generalize runFn (nHost1 ctx) F fn_key_from_val [.host .msgids, .str i] () = r2 at k2 ⊢
    obtain ⟨a2, u2⟩ := r2
    simp only at k2
    subst k2
    cases hi : ctx.msgids.find? (fun e => e.2 == i) with
    | none =>
      simp only
      pysimp [execB_one]
      simp [excName]
      rfl
    | some ie =>
      simp only
      try pysimp [execB_one]

theorem n1_call_v2b (ctx : Ctx) (v : Int) (kw : List (Name × V NO)) (st : Unit) :
    (nHost1 ctx).call 0x76616c326279746573 [.int v, .str 0x55303031] kw st
      = (encR .bytes (val2bytes ctx.atttype (.int v) (.t cU 1)), st) := rfl

/-- `msgclass2bytes(msgclass, msgid)` for integer arguments = the model's: each packed as U1, class first -/
theorem msgclass2bytes_eq (ctx : Ctx) (F : Nat) (c i : Int) :
    (runFn (nHost1 ctx) F fn_msgclass2bytes [.int c, .int i] ()).1
      = (match msgclass2bytes ctx c i with
         | .ok (cb, ib) => .ok (.tuple [.bytes cb, .bytes ib])
         | .error e => .error (.exc (excName e) 0)) := by
  unfold runFn fn_msgclass2bytes msgclass2bytes
  simp only [bind, Except.bind, pure, Except.pure]
  rw [execB_one]
  pysimp [n1_glob, nGlob, n1_call_v2b]
  cases val2bytes ctx.atttype (.int c) (.t cU 1) with
  | error e => rfl
  | ok cb =>
    simp only [encR]
    pysimp [n1_glob, nGlob, n1_call_v2b]
    cases val2bytes ctx.atttype (.int i) (.t cU 1) with
    | error e => rfl
    | ok ib => rfl

/-- `cfgname2key(name)` as written = the model's: the database entry of that exact name, UBXMessageError otherwise -/
theorem cfgname2key_eq (ctx : Ctx) (F : Nat) (n : Name) :
    (runFn (nHost1 ctx) F fn_cfgname2key [.str n] ()).1
      = (match cfgname2key ctx n with
         | .ok (k, t) => .ok (.tuple [.int k, .host (.ty t)])
         | .error e => .error (.exc (excName e) 0)) := by
  unfold runFn fn_cfgname2key cfgname2key
  rw [execB_one, execS_try]
  rw [execB_one]
  pysimp [n1_glob, nGlob, n1_index, nIndex]
  cases ctx.cfgdb.find? (fun e => e.1 == n) with
  | none =>
    simp only
    pysimp [execB_one]
    simp [excName]
    rfl
  | some e =>
    simp only
    try pysimp
end Ubx.Py
