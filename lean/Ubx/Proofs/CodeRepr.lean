import Ubx.Proofs.CodeHelpers
import Ubx.Model.Message
set_option maxRecDepth 10000
set_option linter.unusedSimpArgs false
set_option linter.unusedVariables false
namespace Ubx.Py
open Ubx Ubx.Gen.Code

/-! ### `UBXMessage.__repr__` with its f-strings evaluated

The text `repr` returns is an opaque object that records which constructor call it spells: the literal pieces must be
exactly `UBXMessage(`, `, `, `, `, [`, payload=`,] `)` and the holes, in order, the class, id, mode [and payload] fields.
How CPython prints a `bytes` / `int` inside an f-string and reads it back under `eval` is outside the model. -/

inductive RpO where
  | self
  | text (cls id : Bytes) (mode : Int) (payload : Option Bytes)

def rAttr (m : Msg) (obj : V RpO) (a : Name) (_st : Unit) : X RpO (V RpO) :=
  match obj with
  | .host .self =>
    if a = 0x5f7061796c6f6164 then .ok (match m.payload with | none => .none | some p => .bytes p)
    else if a = 0x5f756278436c617373 then .ok (.bytes m.cls)
    else if a = 0x5f7562784944 then .ok (.bytes m.id)
    else if a = 0x5f6d6f6465 then .ok (.int m.mode.toNat)
    else raiseX xUnsupported
  | _ => raiseX xUnsupported

def rCall (f : Name) (args : List (V RpO)) (_kws : List (Name × V RpO)) (st : Unit) : X RpO (V RpO) × Unit :=
  if f = 0x5f5f667374725f5f then
    match args with
    | [.str 0x5542584d65737361676528, .bytes c, .str 0x2c20, .bytes i, .str 0x2c20, .int m, .str 0x29] =>
      (.ok (.host (.text c i m none)), st)
    | [.str 0x5542584d65737361676528, .bytes c, .str 0x2c20, .bytes i, .str 0x2c20, .int m, .str 0x2c207061796c6f61643d, .bytes p, .str 0x29] =>
      (.ok (.host (.text c i m (some p))), st)
    | _ => (raiseX xUnsupported, st)
  else (raiseX xUnsupported, st)

def reprHost (m : Msg) : Host RpO Unit where
  glob := fun _ => none
  call := rCall
  mcall := fun _ _ _ _ st => (raiseX xUnsupported, st)
  attr := rAttr m
  setattr := fun _ _ _ st => (raiseX xUnsupported, st)
  index := fun _ _ _ => raiseX xUnsupported
  contains := fun _ _ _ => raiseX xUnsupported
  truthy := fun _ => true
  eqHost := fun _ _ => false

theorem r_attr (m : Msg) : (reprHost m).attr = rAttr m := rfl
theorem r_call (m : Msg) : (reprHost m).call = rCall := rfl

/-- the constructor call a `repr` text spells, evaluated -/
def evalText (ctx : Ctx) : RpO → R Msg
  | .text c i m none => if 0 ≤ m then construct ctx c i m.toNat true .empty else .error .ubxMessage
  | .text c i m (some p) => if 0 ≤ m then construct ctx c i m.toNat true (.payload p) else .error .ubxMessage
  | .self => .error .ubxMessage

/-- `__repr__` as written spells the constructor call with this message's class, id, mode and — exactly when there is one —
    its payload, in that order -/
theorem repr_eq (F : Nat) (m : Msg) :
    runFn (reprHost m) F fn_UBXMessage___repr__ [.host .self] () = (.ok (.host (.text m.cls m.id m.mode.toNat m.payload)), ()) := by
  simp only [runFn, fn_UBXMessage___repr__, List.zip_cons_cons, List.zip_nil_right]
  cases hp : m.payload with
  | none =>
    rw [execB_cons]
    pysimp [r_attr, rAttr, hp, r_call, rCall]
  | some p =>
    rw [execB_cons]
    pysimp [r_attr, rAttr, hp, r_call, rCall]

/-- so evaluating what `__repr__` returns is the model's `reprEval` -/
theorem repr_eval (ctx : Ctx) (F : Nat) (m : Msg) :
    (match (runFn (reprHost m) F fn_UBXMessage___repr__ [.host .self] ()).1 with
     | .ok (.host t) => evalText ctx t
     | _ => .error .ubxMessage) = reprEval ctx m := by
  rw [repr_eq]
  cases hp : m.payload <;> simp [evalText, reprEval, hp]
end Ubx.Py
