import Ubx.Proofs.CodeHelpers
import Ubx.Model.PyGetDictHosts
import Ubx.Generated.Tables
/-!
# `UBXMessage._get_dict`, as written, is the model's `getDict`

`get_dict_eq`: the variant table of the mode is consulted first (`VARIANTS[self._mode].get(msg, False)`); a selector found
there is called with `(msg, mode, **kwargs)` when the class byte is 0x13 (the MGA selectors) and with `(**kwargs)` otherwise;
without a selector the mode's payload table is indexed by the message's `identity`, an unrecognised GET message
(`identity[-7:] == "NOMINAL"`) getting the empty definition; KeyError — from a table or from inside a selector — becomes
UBXMessageError, every other exception passes. Two facts about the tables are needed — exactly the MGA selectors sit under
class 0x13 and no variant key is empty; no message name ends in "NOMINAL" — and both are checked on the regenerated tables by
kernel evaluation (`gen_variantsOK`, `gen_namesOK`), giving `get_dict_gen` for every class, id, mode and keyword set.
The selectors themselves are the model's `selectDefn` here; their own ties are `Proofs/CodeSelectors.lean`.
-/
set_option maxRecDepth 10000
set_option linter.unusedSimpArgs false
set_option linter.unusedVariables false
namespace Ubx.Py
open Ubx Ubx.Gen.Code

variable (ctx : Ctx) (cls id : Bytes) (mode : Mode) (kw : Kw)

theorem gd_glob : (gdHost ctx cls id mode kw).glob = gdGlob := rfl
theorem gd_call : (gdHost ctx cls id mode kw).call = gdCall ctx cls id mode kw := rfl
theorem gd_mcall : (gdHost ctx cls id mode kw).mcall = gdMcall ctx := rfl
theorem gd_attr : (gdHost ctx cls id mode kw).attr = gdAttr ctx cls id mode kw := rfl
theorem gd_index : (gdHost ctx cls id mode kw).index = gdIndex ctx := rfl

theorem gdglob_POLL : gdGlob 0x504f4c4c = some (.int 2) := rfl
theorem gdglob_SET : gdGlob 0x534554 = some (.int 1) := rfl
theorem gdglob_V : gdGlob 0x56415249414e5453 = some (.host .variants) := rfl
theorem gdglob_TP : gdGlob 0x5542585f5041594c4f4144535f504f4c4c = some (.host (.ptab .poll)) := rfl
theorem gdglob_TS : gdGlob 0x5542585f5041594c4f4144535f534554 = some (.host (.ptab .set)) := rfl
theorem gdglob_TG : gdGlob 0x5542585f5041594c4f4144535f474554 = some (.host (.ptab .get)) := rfl

/-- what the `try` body computes, before the `except KeyError` clause -/
def getDictRaw (ctx : Ctx) (cls id : Bytes) (mode : Mode) (kw : Kw) : R Defn :=
  match findVariant ctx mode (cls ++ id) with
  | some sel => selectDefn ctx sel (cls ++ id) mode kw
  | none =>
    match identityOf ctx cls id (kwPayload? kw <|> some []) with
    | .known n => defnByName (tableOf ctx mode) n
    | .nominal => if mode = .get then .ok [] else .error .keyE

theorem getDict_raw : getDict ctx cls id mode kw = keyToMsg (getDictRaw ctx cls id mode kw) := rfl

def gdTryBody : List S := match fn_UBXMessage__get_dict.body with
  | [.try_ b _ _ _ _ _ _] => b
  | _ => []
theorem gd_body : fn_UBXMessage__get_dict.body = [.try_ gdTryBody [0x4b65794572726f72] 0x657272
    [.assign 0x6d6f6465 (.index (.tuple [.str 0x474554, .str 0x534554, .str 0x504f4c4c]) (.attr (.var 0x73656c66) 0x5f6d6f6465)),
     .raise (.call 0x5542584d6573736167654572726f72 [] [] [])] [] 0 []] := rfl

theorem gd_try (F : Nat)
    (hv : ∀ sel, findVariant ctx mode (cls ++ id) = some sel → ∃ b rest, cls ++ id = b :: rest ∧ (b = 0x13 ↔ sel = .mga))
    (hn : ∀ n, identityOf ctx cls id (kwPayload? kw <|> some []) = .known n → nameLast7 n ≠ sNOMINAL) :
    (match getDictRaw ctx cls id mode kw with
     | .ok d => ∃ vars', execB (gdHost ctx cls id mode kw) F gdTryBody ⟨[(0x73656c66, .host .self), (0x6b7761726773, .host .kwargs)], ()⟩
          = (.ok (.ret (.host (.dict d))), ⟨vars', ()⟩)
     | .error e => ∃ vars', execB (gdHost ctx cls id mode kw) F gdTryBody ⟨[(0x73656c66, .host .self), (0x6b7761726773, .host .kwargs)], ()⟩
          = (.error (.exc (excName e) 0), ⟨vars', ()⟩) ∧ getVar vars' 0x73656c66 = some (.host .self)) := by
  simp only [gdTryBody, fn_UBXMessage__get_dict, getDictRaw]
  have hm1 : Mode.ofNat? ((mode.toNat : Int)).toNat = some mode := by cases mode <;> rfl
  have hm2 : (0 : Int) ≤ (mode.toNat : Int) := Int.natCast_nonneg _
  pystep [gd_attr, gdAttr]
  pystep [gd_attr, gdAttr, gd_glob, gdglob_V, gd_index, gdIndex, gd_mcall, gdMcall, builtinMethod, hm1, hm2]
  have gd_truthy : (gdHost ctx cls id mode kw).truthy = fun _ => true := rfl
  cases hfv : findVariant ctx mode (cls ++ id) with
  | some sel =>
    obtain ⟨b, rest, hmsg, hb⟩ := hv sel hfv
    simp only
    rw [hmsg]
    have hlen : (0 : Int) < ((b :: rest).length : Int) := by simp only [List.length_cons]; omega
    by_cases hmga : sel = .mga
    · subst hmga
      have hb13 : b = 0x13 := hb.mpr rfl
      subst hb13
      have h19 : ((((0x13 : UInt8).toNat : Nat) : Int) == 19) = true := by decide
      pystep [gd_attr, gdAttr, gd_call, gdCall, gd_truthy, hlen, List.getD_cons_zero, h19]
      cases selectDefn ctx .mga (19 :: rest) mode kw with
      | error e => exact ⟨_, rfl, by pysimp⟩
      | ok d =>
        simp only [encR]
        pysimp
        exact ⟨_, rfl⟩
    · have hbne : ¬ b = 0x13 := fun h => hmga (hb.mp h)
      have h19 : (((b.toNat : Nat) : Int) == 19) = false := by
        simp only [beq_eq_false_iff_ne, ne_eq]
        intro hh
        apply hbne
        have : b.toNat = 19 := by omega
        exact UInt8.toNat_inj.mp this
      pystep [gd_attr, gdAttr, gd_call, gdCall, gd_truthy, hlen, List.getD_cons_zero, h19, Bool.false_eq_true, hmga, hmsg]
      cases selectDefn ctx sel (b :: rest) mode kw with
      | error e => exact ⟨_, rfl, by pysimp⟩
      | ok d =>
        simp only [encR]
        pysimp
        exact ⟨_, rfl⟩
  | none =>
    simp only
    cases hid : identityOf ctx cls id (kwPayload? kw <|> some []) with
    | known n =>
      have hn7 : (nameLast7 n == 0x4e4f4d494e414c) = false := by
        have := hn n hid
        simpa [sNOMINAL] using this
      cases mode with
      | get =>
        pystep [gd_attr, gdAttr, gd_call, gdCall, gd_glob, gdglob_POLL, gdglob_SET, gdglob_V, gdglob_TP, gdglob_TS, gdglob_TG, gd_index, gdIndex, hid, Mode.toNat, Bool.false_eq_true, Int.reduceBEq, hn7, tableOf]
        cases defnByName ctx.get n with
        | error e => exact ⟨_, rfl, by pysimp⟩
        | ok d =>
          simp only [encR]
          pysimp
          exact ⟨_, rfl⟩
      | set =>
        pystep [gd_attr, gdAttr, gd_call, gdCall, gd_glob, gdglob_POLL, gdglob_SET, gdglob_V, gdglob_TP, gdglob_TS, gdglob_TG, gd_index, gdIndex, hid, Mode.toNat, Bool.false_eq_true, Int.reduceBEq, hn7, tableOf]
        cases defnByName ctx.set n with
        | error e => exact ⟨_, rfl, by pysimp⟩
        | ok d =>
          simp only [encR]
          pysimp
          exact ⟨_, rfl⟩
      | poll =>
        pystep [gd_attr, gdAttr, gd_call, gdCall, gd_glob, gdglob_POLL, gdglob_SET, gdglob_V, gdglob_TP, gdglob_TS, gdglob_TG, gd_index, gdIndex, hid, Mode.toNat, Bool.false_eq_true, Int.reduceBEq, hn7, tableOf]
        cases defnByName ctx.poll n with
        | error e => exact ⟨_, rfl, by pysimp⟩
        | ok d =>
          simp only [encR]
          pysimp
          exact ⟨_, rfl⟩
    | nominal =>
      cases mode with
      | get =>
        pystep [gd_attr, gdAttr, gd_call, gdCall, gd_glob, gdglob_POLL, gdglob_SET, gdglob_V, gdglob_TP, gdglob_TS, gdglob_TG, gd_index, gdIndex, hid, Mode.toNat, Bool.false_eq_true, Int.reduceBEq, sNOMINAL, beq_self_eq_true]
        exact ⟨_, rfl⟩
      | set =>
        pystep [gd_attr, gdAttr, gd_call, gdCall, gd_glob, gdglob_POLL, gdglob_SET, gdglob_V, gdglob_TP, gdglob_TS, gdglob_TG, gd_index, gdIndex, hid, Mode.toNat, Bool.false_eq_true, Int.reduceBEq]
        exact ⟨_, rfl, by pysimp⟩
      | poll =>
        pystep [gd_attr, gdAttr, gd_call, gdCall, gd_glob, gdglob_POLL, gdglob_SET, gdglob_V, gdglob_TP, gdglob_TS, gdglob_TG, gd_index, gdIndex, hid, Mode.toNat, Bool.false_eq_true, Int.reduceBEq]
        exact ⟨_, rfl, by pysimp⟩

/-- `_get_dict`, as written, is the model's `getDict`: the variant table of the mode first (MGA selectors — recognised by the
    class byte 0x13 — get `msg` and the mode, the others the keywords only), else the mode's payload table under the message's
    `identity`, an unknown GET message getting the empty definition; KeyError becomes UBXMessageError, other exceptions pass. -/
theorem get_dict_eq (F : Nat)
    (hv : ∀ sel, findVariant ctx mode (cls ++ id) = some sel → ∃ b rest, cls ++ id = b :: rest ∧ (b = 0x13 ↔ sel = .mga))
    (hn : ∀ n, identityOf ctx cls id (kwPayload? kw <|> some []) = .known n → nameLast7 n ≠ sNOMINAL) :
    (match getDict ctx cls id mode kw with
     | .ok d => runFn (gdHost ctx cls id mode kw) F fn_UBXMessage__get_dict [.host .self, .host .kwargs] () = (.ok (.host (.dict d)), ())
     | .error e => (runFn (gdHost ctx cls id mode kw) F fn_UBXMessage__get_dict [.host .self, .host .kwargs] ()).1
          = .error (.exc (excName e) 0)) := by
  have hp : fn_UBXMessage__get_dict.params = [0x73656c66, 0x6b7761726773] := rfl
  have ht := gd_try ctx cls id mode kw F hv hn
  rw [getDict_raw]
  simp only [runFn, hp, gd_body, List.zip_cons_cons, List.zip_nil_right]
  rw [execB_one, execS_try]
  cases hr : getDictRaw ctx cls id mode kw with
  | ok d =>
    rw [hr] at ht
    obtain ⟨vars', h1⟩ := ht
    rw [h1]
    rfl
  | error e =>
    rw [hr] at ht
    obtain ⟨vars', h1, h2⟩ := ht
    rw [h1]
    have hm : (Mode.toNat mode : Int) = 0 ∨ (Mode.toNat mode : Int) = 1 ∨ (Mode.toNat mode : Int) = 2 := by cases mode <;> simp [Mode.toNat]
    cases e <;> simp only [keyToMsg] <;> pysimp [excName, xKeyError, xUBXParseError, xUBXMessageError, xUBXTypeError, xUBXStreamError, xIndexError, xTypeError, xValueError, xOverflowError, xAttributeError, xStructError, xZeroDivisionError, xUnboundLocalError, Nat.reduceBEq, Bool.or_false, Bool.false_eq_true]
    -- KeyError: the handler runs
    have g2 : getVar (setVar vars' 6648434 (V.exc 5432881864672178034 0 : V GO)) 1936026726 = some (.host .self) := by
      rw [getVar_setVar_ne _ _ _ _ (by decide)]; exact h2
    rcases hm with hm | hm | hm <;> (rw [execB_cons]; pysimp [g2, gd_attr, gdAttr, hm]; simp)

/-! ### the two table facts hold for the shipped tables -/

def variantsOK (ctx : Ctx) : Bool :=
  ctx.variants.all (fun v => match v.2.1 with
    | [] => false
    | b :: _ => (b == 0x13) == (v.2.2 == .mga))

def namesOK (ctx : Ctx) : Bool := ctx.msgids.all (fun e => nameLast7 e.2 != sNOMINAL)

theorem hv_of_variantsOK (h : variantsOK ctx = true) (sel : Selector) (hf : findVariant ctx mode (cls ++ id) = some sel) :
    ∃ b rest, cls ++ id = b :: rest ∧ (b = 0x13 ↔ sel = .mga) := by
  unfold findVariant at hf
  cases hfind : ctx.variants.find? (fun v => v.1 == mode && v.2.1 == cls ++ id) with
  | none => rw [hfind] at hf; cases hf
  | some v =>
    rw [hfind] at hf
    simp only [Option.some.injEq] at hf
    have hmem := List.mem_of_find?_eq_some hfind
    have hp := List.find?_some hfind
    simp only [Bool.and_eq_true, beq_iff_eq] at hp
    have hv := (List.all_eq_true.mp h) v hmem
    rw [hp.2] at hv
    cases hmsg : cls ++ id with
    | nil => rw [hmsg] at hv; simp at hv
    | cons b rest =>
      rw [hmsg] at hv
      refine ⟨b, rest, rfl, ?_⟩
      simp only [beq_iff_eq] at hv
      rw [← hf]
      constructor
      · intro hb
        have : (b == 0x13) = true := by simp [hb]
        rw [this] at hv
        exact of_decide_eq_true (by simpa using hv.symm)
      · intro hs
        have : (v.2.2 == Selector.mga) = true := by simp [hs]
        rw [this] at hv
        simpa using hv

theorem lookupB_mem {β : Type} (k : Bytes) : ∀ (l : List (Bytes × β)) (v : β), lookupB k l = some v → ∃ e ∈ l, e.2 = v := by
  intro l
  induction l with
  | nil => intro v h; cases h
  | cons e es ih =>
    intro v h
    obtain ⟨n, w⟩ := e
    simp only [lookupB] at h
    by_cases hk : n = k
    · simp only [hk, ↓reduceIte, Option.some.injEq] at h
      exact ⟨(n, w), by simp, h⟩
    · simp only [hk, ↓reduceIte] at h
      obtain ⟨e', hm, he⟩ := ih v h
      exact ⟨e', by simp [hm], he⟩

theorem hn_of_namesOK (h : namesOK ctx = true) (p : Option Bytes) (n : Name) (hi : identityOf ctx cls id p = .known n) :
    nameLast7 n ≠ sNOMINAL := by
  unfold identityOf at hi
  simp only at hi
  generalize (if cls = [0x13] ∧ id ≠ [0x80] then cls ++ id ++ slice (p.getD []) 0 1 else cls ++ id) = key at hi
  cases hl : lookupB key ctx.msgids with
  | none => rw [hl] at hi; cases hi
  | some n' =>
    rw [hl] at hi
    cases hi
    obtain ⟨e, hm, he⟩ := lookupB_mem _ ctx.msgids n hl
    have := (List.all_eq_true.mp h) e hm
    rw [he] at this
    simpa using this

theorem gen_variantsOK : variantsOK Gen.ctx = true := by decide +kernel
theorem gen_namesOK : namesOK Gen.ctx = true := by decide +kernel

/-- `_get_dict` as written = `getDict`, for the shipped tables: every class / id / mode / keyword set -/
theorem get_dict_gen (F : Nat) :
    (match getDict Gen.ctx cls id mode kw with
     | .ok d => runFn (gdHost Gen.ctx cls id mode kw) F fn_UBXMessage__get_dict [.host .self, .host .kwargs] () = (.ok (.host (.dict d)), ())
     | .error e => (runFn (gdHost Gen.ctx cls id mode kw) F fn_UBXMessage__get_dict [.host .self, .host .kwargs] ()).1
          = .error (.exc (excName e) 0)) :=
  get_dict_eq Gen.ctx cls id mode kw F (hv_of_variantsOK Gen.ctx cls id mode gen_variantsOK)
    (hn_of_namesOK Gen.ctx cls id gen_namesOK _)

/-! ### `identity` -/

inductive IO_ where
  | self
  | msgids
  | classes

def idCtxGlob (x : Name) : Option (V IO_) :=
  if x = 0x5542585f4d5347494453 then some (.host .msgids)          -- UBX_MSGIDS
  else if x = 0x5542585f434c4153534553 then some (.host .classes)  -- UBX_CLASSES
  else none

def idAttr (cls id : Bytes) (payload : Option Bytes) (obj : V IO_) (a : Name) (_st : Unit) : X IO_ (V IO_) :=
  match obj with
  | .host .self =>
    if a = 0x5f756278436c617373 then .ok (.bytes cls)
    else if a = 0x5f7562784944 then .ok (.bytes id)
    else if a = 0x5f7061796c6f6164 then .ok (match payload with | some p => .bytes p | none => .none)
    else raiseX xUnsupported
  | _ => raiseX xUnsupported

def idIndex (ctx : Ctx) (o : IO_) (i : V IO_) (_st : Unit) : X IO_ (V IO_) :=
  match o, i with
  | .msgids, .bytes k => (match lookupB k ctx.msgids with | some n => .ok (.str n) | none => .error (.exc xKeyError 0))
  | .classes, .bytes k => (match lookupB k ctx.classes with | some n => .ok (.str n) | none => .error (.exc xKeyError 0))
  | _, _ => raiseX xUnsupported

def idContains (ctx : Ctx) (o : IO_) (x : V IO_) (_st : Unit) : X IO_ Bool :=
  match o, x with
  | .classes, .bytes k => .ok (lookupB k ctx.classes).isSome
  | _, _ => raiseX xUnsupported

def idHost (ctx : Ctx) (cls id : Bytes) (payload : Option Bytes) : Host IO_ Unit where
  glob := idCtxGlob
  call := fun _ _ _ st => (raiseX xUnsupported, st)
  mcall := fun _ _ _ _ st => (raiseX xUnsupported, st)
  attr := idAttr cls id payload
  setattr := fun _ _ _ st => (raiseX xUnsupported, st)
  index := idIndex ctx
  contains := idContains ctx
  truthy := fun _ => true
  eqHost := fun _ _ => false

variable (ctx : Ctx) (cls id : Bytes) (payload : Option Bytes)

theorem id_glob : (idHost ctx cls id payload).glob = idCtxGlob := rfl
theorem id_attr : (idHost ctx cls id payload).attr = idAttr cls id payload := rfl
theorem id_index : (idHost ctx cls id payload).index = idIndex ctx := rfl
theorem id_contains : (idHost ctx cls id payload).contains = idContains ctx := rfl

/-- the `identity` property as written: the name under class ++ id (++ the first payload byte for class 0x13 other than
    id 0x80, a `None` payload read as empty), or — KeyError — a made-up `…-NOMINAL` text (its content is not modelled) -/
theorem identity_eq (F : Nat) :
    runFn (idHost ctx cls id payload) F fn_UBXMessage_identity [.host .self] ()
      = (.ok (match identityOf ctx cls id payload with | .known n => .str n | .nominal => .ostr), ()) := by
  simp only [runFn, fn_UBXMessage_identity, List.zip_cons_cons, List.zip_nil_right, identityOf]
  rw [execB_cons, execS_try]
  by_cases c1 : cls = [0x13]
  · by_cases c2 : id = [0x80]
    · have h1 : (cls == [0x13]) = true := by simp [c1]
      have h2 : (id == [0x80]) = true := by simp [c2]
      have hk : (if cls = [0x13] ∧ id ≠ [0x80] then cls ++ id ++ slice (payload.getD []) 0 1 else cls ++ id) = cls ++ id := by
        simp [c1, c2]
      rw [hk]
      pysimp [id_attr, idAttr, h1, h2, Bool.not_true, Bool.false_eq_true, id_glob, idCtxGlob, id_index, idIndex]
      cases hl : lookupB (cls ++ id) ctx.msgids with
      | some n => simp only [hl]; pysimp
      | none =>
        simp only [hl]
        pysimp [xKeyError, beq_self_eq_true, Bool.or_false]
        rw [execB_cons]
        pysimp [id_attr, idAttr, id_glob, idCtxGlob, id_contains, idContains]
        cases hc : lookupB cls ctx.classes <;> pysimp [hc, Option.isSome, Bool.false_eq_true, id_attr, idAttr, id_index, idIndex, id_glob, idCtxGlob]
    · have h1 : (cls == [0x13]) = true := by simp [c1]
      have h2 : (id == [0x80]) = false := by simp [c2]
      have hk : (if cls = [0x13] ∧ id ≠ [0x80] then cls ++ id ++ slice (payload.getD []) 0 1 else cls ++ id)
          = cls ++ id ++ slice (payload.getD []) 0 1 := by simp [c1, c2]
      rw [hk]
      cases payload with
      | none =>
        have hs : pySlice ([] : Bytes) 0 1 = slice ([] : Bytes) 0 1 := by rw [pySlice_nonneg _ _ _ (by omega) (by omega)]; rfl
        simp only [Option.getD_none]
        pysimp [id_attr, idAttr, h1, h2, Bool.not_false, id_glob, idCtxGlob, id_index, idIndex, hs]
        rw [execB_cons]
        pysimp [id_attr, idAttr, h1, h2, Bool.not_false, id_glob, idCtxGlob, id_index, idIndex, hs]
        cases hl : lookupB (cls ++ id ++ slice [] 0 1) ctx.msgids with
        | some n => simp only [hl]; pysimp
        | none =>
          simp only [hl]
          pysimp [xKeyError, beq_self_eq_true, Bool.or_false]
          rw [execB_cons]
          pysimp [id_attr, idAttr, id_glob, idCtxGlob, id_contains, idContains]
          cases hc : lookupB cls ctx.classes <;> pysimp [hc, Option.isSome, Bool.false_eq_true, id_attr, idAttr, id_index, idIndex, id_glob, idCtxGlob]
      | some p =>
        have hs : pySlice p 0 1 = slice p 0 1 := by rw [pySlice_nonneg _ _ _ (by omega) (by omega)]; rfl
        simp only [Option.getD_some]
        pysimp [id_attr, idAttr, h1, h2, Bool.not_false, id_glob, idCtxGlob, id_index, idIndex, hs]
        rw [execB_cons]
        pysimp [id_attr, idAttr, h1, h2, Bool.not_false, id_glob, idCtxGlob, id_index, idIndex, hs]
        cases hl : lookupB (cls ++ id ++ slice p 0 1) ctx.msgids with
        | some n => simp only [hl]; pysimp
        | none =>
          simp only [hl]
          pysimp [xKeyError, beq_self_eq_true, Bool.or_false]
          rw [execB_cons]
          pysimp [id_attr, idAttr, id_glob, idCtxGlob, id_contains, idContains]
          cases hc : lookupB cls ctx.classes <;> pysimp [hc, Option.isSome, Bool.false_eq_true, id_attr, idAttr, id_index, idIndex, id_glob, idCtxGlob]
  · have h1 : (cls == [0x13]) = false := by simp [c1]
    have hk : (if cls = [0x13] ∧ id ≠ [0x80] then cls ++ id ++ slice (payload.getD []) 0 1 else cls ++ id) = cls ++ id := by
      simp [c1]
    rw [hk]
    pysimp [id_attr, idAttr, h1, Bool.false_eq_true, id_glob, idCtxGlob, id_index, idIndex]
    cases hl : lookupB (cls ++ id) ctx.msgids with
    | some n => simp only [hl]; pysimp
    | none =>
      simp only [hl]
      pysimp [xKeyError, beq_self_eq_true, Bool.or_false]
      rw [execB_cons]
      pysimp [id_attr, idAttr, id_glob, idCtxGlob, id_contains, idContains]
      cases hc : lookupB cls ctx.classes <;> pysimp [hc, Option.isSome, Bool.false_eq_true, id_attr, idAttr, id_index, idIndex, id_glob, idCtxGlob]

end Ubx.Py
