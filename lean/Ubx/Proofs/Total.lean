import Ubx.Model.WF
/-!
# Which exceptions the parse-direction walk can raise (C08)

`walkOK e`: `e` is one of the exceptions `_do_attributes` translates (for the shipped catch list) or
already a UBX error. The only other exception the parse-direction walk can produce is
ZeroDivisionError, from a variable-by-size group whose members have total size zero.
-/
namespace Ubx

def Exc.walkOK : Exc → Bool
  | .ubxMessage | .ubxType | .attributeE | .indexE | .structE | .typeE | .valueE | .overflowE => true
  | _ => false

/-- `P` holds of every error a computation can return -/
def ErrIn {α : Type} (P : Exc → Prop) (x : R α) : Prop := ∀ e, x = .error e → P e

theorem attsiz_err (ty : Ty) : ErrIn (fun e => e.walkOK = true) (attsiz ty) := by
  intro e h; cases ty <;> simp [attsiz] at h <;> (subst h; rfl)

theorem fieldSize_err (ty : Ty) (p : Bytes) : ErrIn (fun e => e.walkOK = true) (fieldSize ty p) := by
  intro e h
  unfold fieldSize at h
  split at h
  · cases h
  · split at h
    · cases h
    · rename_i e' he; cases h; exact attsiz_err _ _ he

theorem bytes2val_err (b : Bytes) (ty : Ty) : ErrIn (fun e => e.walkOK = true) (bytes2val b ty) := by
  intro e h
  unfold bytes2val at h
  split at h
  · cases h
  · simp only at h
    repeat' split at h
    all_goals first | (cases h; done) | (cases h; rfl) | skip
    all_goals (rename_i e' he; cases h; exact attsiz_err _ _ he)

theorem toFloat_err (v : PyVal) : ErrIn (fun e => e.walkOK = true) (toFloat? v) := by
  intro e h; unfold toFloat? at h
  repeat' split at h
  all_goals first | (cases h; done) | (cases h; rfl)

theorem scaleBits_err (sc : Scale) : ErrIn (fun e => e.walkOK = true) (scaleBits sc) := by
  intro e h; unfold scaleBits at h
  repeat' split at h
  all_goals first | (cases h; done) | (cases h; rfl)

theorem scaleUp_err (v : PyVal) (sc : Scale) : ErrIn (fun e => e.walkOK = true) (scaleUp v sc) := by
  intro e h
  unfold scaleUp at h
  repeat' split at h
  all_goals first
    | (cases h; done)
    | (cases h; rfl)
    | (cases h; exact toFloat_err _ _ (by assumption))
    | (cases h; exact scaleBits_err _ _ (by assumption))

theorem readVal_err (ty sc p off n) : ErrIn (fun e => e.walkOK = true) (readVal ty sc p off n) := by
  intro e h
  unfold readVal decodeVal at h
  split at h
  · rename_i e' he; cases h; exact bytes2val_err _ _ _ he
  · split at h
    · cases h
    · exact scaleUp_err _ _ _ h

theorem setAttr_err (c : WCtx) (env n v) : ErrIn (fun e => e.walkOK = true) (setAttr c env n v) := by
  intro e h; unfold setAttr at h; split at h
  · cases h; rfl
  · cases h

theorem hpMerge_err (a b : PyVal) : ErrIn (fun e => e.walkOK = true) (hpMerge a b) := by
  intro e h
  unfold hpMerge at h
  repeat' split at h
  all_goals first
    | (cases h; done)
    | (cases h; rfl)
    | (cases h; exact toFloat_err _ _ (by assumption))

theorem storeVal_err (c : WCtx) (idx n env v) : ErrIn (fun e => e.walkOK = true) (storeVal c idx n env v) := by
  intro e h
  unfold storeVal at h
  split at h
  · simp only at h
    split at h
    · cases h; rfl
    · split at h
      · rename_i e' he; cases h; exact hpMerge_err _ _ _ he
      · exact setAttr_err _ _ _ _ _ h
  · exact setAttr_err _ _ _ _ _ h

theorem wSingle_err (c : WCtx) (hp : c.hasPayload = true) (idx n ty sc st) :
    ErrIn (fun e => e.walkOK = true) (wSingle c idx n ty sc st) := by
  intro e h
  unfold wSingle at h
  split at h
  · rename_i e' he; cases h; exact fieldSize_err _ _ _ he
  · rw [if_pos hp] at h
    split at h
    · rename_i e' he; cases h; exact readVal_err _ _ _ _ _ _ he
    · split at h
      · rename_i e' he; cases h; exact storeVal_err _ _ _ _ _ _ he
      · cases h

theorem flagWidth_err (t : Ty) : ErrIn (fun e => e.walkOK = true) (flagWidth t) := by
  intro e h; unfold flagWidth at h
  split at h
  · rename_i e' he; cases h; exact attsiz_err _ _ he
  · split at h
    · cases h; rfl
    · cases h

theorem flagsParse_err (c : WCtx) (idx bf) : ∀ flags bfo env, ErrIn (fun e => e.walkOK = true) (flagsParse c idx bf flags bfo env) := by
  intro flags
  induction flags with
  | nil => intro bfo env e h; cases h
  | cons f rest ih =>
    intro bfo env e h
    obtain ⟨key, keyt⟩ := f
    simp only [flagsParse] at h
    split at h
    · rename_i e' he; cases h; exact flagWidth_err _ _ he
    · split at h
      · exact ih _ _ _ h
      · split at h
        · rename_i e' he; cases h; exact setAttr_err _ _ _ _ _ he
        · exact ih _ _ _ h

theorem wBits_err (c : WCtx) (hp : c.hasPayload = true) (idx ty flags st) :
    ErrIn (fun e => e.walkOK = true) (wBits c idx ty flags st) := by
  intro e h
  unfold wBits at h
  split at h
  · rename_i e' he; cases h; exact attsiz_err _ _ he
  · simp only [hp, if_true] at h
    split at h
    · rename_i e' he; cases h; exact flagsParse_err _ _ _ _ _ _ _ he
    · cases h

theorem cfgkey2name_err (ctx : Ctx) (k : Nat) : ErrIn (fun e => e.walkOK = true) (cfgkey2name ctx k) := by
  intro e h
  unfold cfgkey2name at h
  split at h
  · cases h
  · simp only at h
    split at h
    · cases h; rfl
    · split at h
      · cases h
      · cases h; rfl

theorem cfgLoop_err (c : WCtx) (p : Bytes) (cl : Nat) : ∀ fuel off env, ErrIn (fun e => e.walkOK = true) (cfgLoop c p cl fuel off env) := by
  intro fuel
  induction fuel with
  | zero => intro off env e h; cases h
  | succ f ih =>
    intro off env e h
    simp only [cfgLoop] at h
    split at h
    · simp only [bind, Except.bind] at h
      split at h
      · rename_i e' he; cases h; exact cfgkey2name_err _ _ _ he
      · split at h
        · rename_i e' he; cases h; exact attsiz_err _ _ he
        · split at h
          · rename_i e' he; cases h; exact bytes2val_err _ _ _ he
          · split at h
            · rename_i e' he; cases h; exact setAttr_err _ _ _ _ _ he
            · exact ih _ _ _ h
    · cases h

theorem wCfgVal_err (c : WCtx) (hp : c.hasPayload = true) (st) : ErrIn (fun e => e.walkOK = true) (wCfgVal c st) := by
  intro e h
  unfold wCfgVal at h
  simp only [hp, Bool.not_true, Bool.false_eq_true, if_false] at h
  split at h
  · rename_i e' he; cases h; exact cfgLoop_err _ _ _ _ _ _ _ he
  · cases h

theorem memberSize_err (i : Item) : ErrIn (fun e => e.walkOK = true) (memberSize i) := by
  intro e h
  unfold memberSize at h
  split at h
  · exact attsiz_err _ _ h
  · cases h; rfl
  · exact attsiz_err _ _ h
  · cases h; rfl
  · cases h; rfl

theorem sumSizes_err : ∀ (items : List Item) (acc : Int), ErrIn (fun e => e.walkOK = true) (sumSizes items acc) := by
  intro items
  induction items with
  | nil => intro acc e h; cases h
  | cons i rest ih =>
    intro acc e h
    simp only [sumSizes] at h
    split at h
    · rename_i e' he; cases h; exact memberSize_err _ _ he
    · exact ih _ _ h

/-- a variable-by-size group divides by the total size of its members: zero there is the only way to a
    ZeroDivisionError -/
def zeroVar (items : List Item) : Bool := sumSizes items 0 == .ok 0

theorem calcNumRepeats_err (items : List Item) (p : Bytes) (off : Nat) :
    ErrIn (fun e => e.walkOK = true ∨ (e = .zeroDivE ∧ zeroVar items = true)) (calcNumRepeats items p off) := by
  intro e h
  unfold calcNumRepeats at h
  split at h
  · rename_i e' he; cases h; exact Or.inl (sumSizes_err _ _ _ he)
  · rename_i lg hlg
    split at h
    · rename_i h0
      cases h
      right
      refine ⟨rfl, ?_⟩
      unfold zeroVar
      rw [hlg, h0]; rfl
    · cases h

mutual
/-- no variable-by-size group with zero total member size, at any depth -/
def noZeroVar : Item → Bool
  | .group _ .var items => !zeroVar items && noZeroVarL items
  | .group _ _ items => noZeroVarL items
  | _ => true
def noZeroVarL : List Item → Bool
  | [] => true
  | i :: is => noZeroVar i && noZeroVarL is
end

theorem groupCount_err (c : WCtx) (cnt : Count) (items : List Item) (st : WState)
    (hz : cnt = .var → zeroVar items = false) :
    ErrIn (fun e => e.walkOK = true) (groupCount c cnt items st) := by
  intro e h
  unfold groupCount at h
  split at h
  · cases h
  · split at h
    · rename_i e' he
      cases h
      rcases calcNumRepeats_err _ _ _ _ he with h1 | ⟨_, h2⟩
      · exact h1
      · rw [hz rfl] at h2; cases h2
    · cases h
  · unfold namedCount at h
    split at h
    · cases h; rfl
    · simp only at h
      split at h
      · cases h
      · cases h; rfl

theorem repeatN_err (P : Exc → Prop) (body : Nat → WState → R WState) (hb : ∀ i s, ErrIn P (body i s)) :
    ∀ k i st, ErrIn P (repeatN body k i st) := by
  intro k
  induction k with
  | zero => intro i st e h; cases h
  | succ k ih =>
    intro i st e h
    simp only [repeatN] at h
    split at h
    · exact ih _ _ _ h
    · rename_i e' he; cases h; exact hb _ _ _ he

mutual
theorem wItem_err (c : WCtx) (hp : c.hasPayload = true) (idx : List Nat) (i : Item) (hz : noZeroVar i = true) (st : WState) :
    ErrIn (fun e => e.walkOK = true) (wItem c idx i st) := by
  match i with
  | .attr n ty sc => simp only [wItem]; exact wSingle_err c hp idx n ty sc st
  | .bits n ty flags =>
    simp only [wItem]
    split
    · exact wBits_err c hp idx ty flags st
    · exact wSingle_err c hp idx n ty .one st
  | .group n cnt items =>
    simp only [wItem]
    split
    · exact wCfgVal_err c hp st
    · have hzi : noZeroVarL items = true := by
        cases cnt <;> simp_all [noZeroVar]
      have hzv : cnt = .var → zeroVar items = false := by
        intro hc; subst hc; simp only [noZeroVar, Bool.and_eq_true, Bool.not_eq_true'] at hz; exact hz.1
      intro e h
      split at h
      · rename_i e' he; cases h; exact groupCount_err c cnt items st hzv _ he
      · exact repeatN_err _ _ (fun i s => wItems_err c hp (idx ++ [i]) items hzi s) _ _ _ _ h
theorem wItems_err (c : WCtx) (hp : c.hasPayload = true) (idx : List Nat) (is : List Item) (hz : noZeroVarL is = true) (st : WState) :
    ErrIn (fun e => e.walkOK = true) (wItems c idx is st) := by
  match is with
  | [] => intro e h; simp only [wItems] at h; cases h
  | i :: rest =>
    simp only [noZeroVarL, Bool.and_eq_true] at hz
    intro e h
    simp only [wItems] at h
    split at h
    · exact wItems_err c hp idx rest hz.2 _ _ h
    · rename_i e' he; cases h; exact wItem_err c hp idx i hz.1 st _ he
end

end Ubx
