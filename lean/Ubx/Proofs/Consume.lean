import Ubx.Proofs.Sources
import Ubx.Proofs.SockFile
/-!
# What a pass of the reader consumes (C07)

A source is *linear* over `all : σ → Bytes` ("everything that can still be read") when every
successful read returns a prefix of `all` and leaves the rest. For such a source each pass of
`read()` that does not end the iteration consumes a non-empty prefix of the stream, and a
delivered item is exactly that prefix.
-/
namespace Ubx
variable {α σ : Type}

structure Linear (S : Src σ) (all : σ → Bytes) : Prop where
  read : ∀ n s d s', S.read n s = .ok d s' → all s = d ++ all s' ∧ d.length = n
  line : ∀ s d s', S.line s = .ok d s' → all s = d ++ all s' ∧ d ≠ []

theorem finish_item (cfg : RCfg) (O : Oracle α) (p : Proto) (raw : Bytes) {q raw' m} :
    finish cfg O p raw = .item q raw' m → q = p ∧ raw' = raw := by
  unfold finish; split
  · split
    · split
      · intro h; cases h; exact ⟨rfl, rfl⟩
      · intro h; cases h
      · intro h; cases h
    · intro h; cases h; exact ⟨rfl, rfl⟩
  · intro h; cases h

theorem finish_not_eof (cfg : RCfg) (O : Oracle α) (p : Proto) (raw : Bytes) :
    finish cfg O p raw ≠ .eof := by
  unfold finish; split
  · split
    · split <;> (intro h; cases h)
    · intro h; cases h
  · intro h; cases h

/-- a pass that leaves a live state consumed a non-empty prefix; an item is exactly that prefix
    and begins with a preamble byte -/
theorem step_linear (S : Src σ) (all : σ → Bytes) (L : Linear S all) (nmeaHdr) (cfg : RCfg) (O : Oracle α)
    (s s' : σ) (o : Out α) (h : step S nmeaHdr cfg O s = (o, some s')) :
    ∃ pre, pre ≠ [] ∧ all s = pre ++ all s' ∧
      ∀ p raw m, o = .item p raw m → raw = pre ∧ ∃ b rest, raw = b :: rest ∧ isPre b = true := by
  unfold step at h
  cases h1 : S.read 1 s with
  | eof => rw [h1] at h; cases h
  | short => rw [h1] at h; cases h
  | ok d1 s1 =>
    rw [h1] at h
    obtain ⟨a1, l1⟩ := L.read 1 s d1 s1 h1
    have hd1 : d1 ≠ [] := by intro hc; rw [hc] at l1; simp at l1
    obtain ⟨b1, hb1⟩ : ∃ b, d1 = [b] := by
      match d1, l1 with
      | [b], _ => exact ⟨b, rfl⟩
    subst hb1
    simp only [List.getD_cons_zero] at h
    split at h
    · cases h
      exact ⟨[b1], by simp, a1, by intro p raw m hh; cases hh⟩
    · rename_i hpre
      have hpre' : isPre b1 = true := by simpa using hpre
      cases h2 : S.read 1 s1 with
      | eof => rw [h2] at h; cases h
      | short => rw [h2] at h; cases h
      | ok d2 s2 =>
        rw [h2] at h
        obtain ⟨a2, l2⟩ := L.read 1 s1 d2 s2 h2
        simp only at h
        split at h
        · -- UBX
          cases h3 : S.read 4 s2 with
          | eof => rw [h3] at h; cases h
          | short => rw [h3] at h; cases h
          | ok hd s3 =>
            rw [h3] at h
            obtain ⟨a3, _⟩ := L.read 4 s2 hd s3 h3
            simp only at h
            cases h4 : S.read (ubxLen hd) s3 with
            | eof => rw [h4] at h; cases h
            | short => rw [h4] at h; cases h
            | ok body s4 =>
              rw [h4] at h
              obtain ⟨a4, _⟩ := L.read _ s3 body s4 h4
              cases h
              refine ⟨[b1] ++ d2 ++ hd ++ body, by simp, ?_, ?_⟩
              · rw [a1, a2, a3, a4]; simp [List.append_assoc]
              · intro p raw m hh
                obtain ⟨_, e⟩ := finish_item cfg O .ubx _ hh
                exact ⟨e, b1, d2 ++ hd ++ body, by rw [e]; simp [List.append_assoc], hpre'⟩
        · split at h
          · -- NMEA
            cases h3 : S.line s2 with
            | eof => rw [h3] at h; cases h
            | short => rw [h3] at h; cases h
            | ok l s3 =>
              rw [h3] at h
              obtain ⟨a3, _⟩ := L.line s2 l s3 h3
              cases h
              refine ⟨[b1] ++ d2 ++ l, by simp, ?_, ?_⟩
              · rw [a1, a2, a3]; simp [List.append_assoc]
              · intro p raw m hh
                obtain ⟨_, e⟩ := finish_item cfg O .nmea _ hh
                exact ⟨e, b1, d2 ++ l, by rw [e]; simp [List.append_assoc], hpre'⟩
          · split at h
            · -- RTCM
              cases h3 : S.read 1 s2 with
              | eof => rw [h3] at h; cases h
              | short => rw [h3] at h; cases h
              | ok d3 s3 =>
                rw [h3] at h
                obtain ⟨a3, _⟩ := L.read 1 s2 d3 s3 h3
                simp only at h
                cases h4 : S.read (rtcmLen d3 d2) s3 with
                | eof => rw [h4] at h; cases h
                | short => rw [h4] at h; cases h
                | ok pl s4 =>
                  rw [h4] at h
                  obtain ⟨a4, _⟩ := L.read _ s3 pl s4 h4
                  simp only at h
                  cases h5 : S.read 3 s4 with
                  | eof => rw [h5] at h; cases h
                  | short => rw [h5] at h; cases h
                  | ok crc s5 =>
                    rw [h5] at h
                    obtain ⟨a5, _⟩ := L.read 3 s4 crc s5 h5
                    cases h
                    refine ⟨[b1] ++ d2 ++ d3 ++ pl ++ crc, by simp, ?_, ?_⟩
                    · rw [a1, a2, a3, a4, a5]; simp [List.append_assoc]
                    · intro p raw m hh
                      obtain ⟨_, e⟩ := finish_item cfg O .rtcm _ hh
                      exact ⟨e, b1, d2 ++ d3 ++ pl ++ crc, by rw [e]; simp [List.append_assoc], hpre'⟩
            · cases h
              refine ⟨[b1] ++ d2, by simp, ?_, ?_⟩
              · rw [a1, a2]; simp [List.append_assoc]
              · intro p raw m hh; cases hh

/-- a pass that kills the stream delivers nothing: its outcome is end-of-stream or a stream error -/
theorem step_none_dead (S : Src σ) (nmeaHdr) (cfg : RCfg) (O : Oracle α) (s : σ) :
    (step S nmeaHdr cfg O s).2 = none →
    ((step S nmeaHdr cfg O s).1 = .eof ∨ (step S nmeaHdr cfg O s).1 = .err .stream) := by
  unfold step
  cases S.read 1 s with
  | eof => simp
  | short => simp
  | ok d1 s1 =>
    dsimp only
    split
    · simp
    · cases S.read 1 s1 with
      | eof => simp
      | short => simp
      | ok d2 s2 =>
        dsimp only
        split
        · cases S.read 4 s2 with
          | eof => simp
          | short => simp
          | ok hd s3 => dsimp only; cases S.read (ubxLen hd) s3 <;> simp
        · split
          · cases S.line s2 <;> simp
          · split
            · cases S.read 1 s2 with
              | eof => simp
              | short => simp
              | ok d3 s3 =>
                dsimp only
                cases S.read (rtcmLen d3 d2) s3 with
                | eof => simp
                | short => simp
                | ok pl s4 => dsimp only; cases S.read 3 s4 <;> simp
            · simp

/-- `raws` occur in `s` as non-overlapping slices, in order -/
inductive Slices : List Bytes → Bytes → Prop where
  | nil (s : Bytes) : Slices [] s
  | cons (gap r t : Bytes) (rs : List Bytes) : Slices rs t → Slices (r :: rs) (gap ++ r ++ t)

theorem Slices.skip {rs : List Bytes} {t : Bytes} (pre : Bytes) (h : Slices rs t) : Slices rs (pre ++ t) := by
  cases h with
  | nil => exact .nil _
  | cons gap r t' rs' h' =>
    have : pre ++ (gap ++ r ++ t') = (pre ++ gap) ++ r ++ t' := by simp [List.append_assoc]
    rw [this]; exact .cons _ _ _ _ h'

def rawsOf (tr : List (Out α)) : List Bytes := (items tr).map (fun x => x.2.1)

@[simp] theorem rawsOf_nil : rawsOf ([] : List (Out α)) = [] := rfl
@[simp] theorem rawsOf_item (p raw) (m : Option α) (tr) : rawsOf (Out.item p raw m :: tr) = raw :: rawsOf tr := rfl
@[simp] theorem rawsOf_skip (tr : List (Out α)) : rawsOf (Out.skip :: tr) = rawsOf tr := rfl
@[simp] theorem rawsOf_err (k) (tr : List (Out α)) : rawsOf (Out.err k :: tr) = rawsOf tr := rfl
@[simp] theorem rawsOf_eof (tr : List (Out α)) : rawsOf (Out.eof :: tr) = rawsOf tr := rfl
@[simp] theorem rawsOf_crash (p c) (tr : List (Out α)) : rawsOf (Out.crash p c :: tr) = rawsOf tr := rfl

theorem rawsOf_run_none (S : Src σ) (nmeaHdr) (cfg : RCfg) (O : Oracle α) (f : Nat) :
    rawsOf (run S nmeaHdr cfg O f none) = [] := by
  cases f <;> simp [run]

/-- C07: the delivered raw items are non-overlapping slices of the stream, in stream order, and
    each begins with a preamble byte -/
theorem run_slices (S : Src σ) (all : σ → Bytes) (L : Linear S all) (nmeaHdr) (cfg : RCfg) (O : Oracle α)
    (f : Nat) (s : σ) :
    Slices (rawsOf (run S nmeaHdr cfg O f (some s))) (all s) ∧
    ∀ raw ∈ rawsOf (run S nmeaHdr cfg O f (some s)), ∃ b rest, raw = b :: rest ∧ isPre b = true := by
  induction f generalizing s with
  | zero => simp only [run, rawsOf_nil]; exact ⟨Slices.nil _, by simp⟩
  | succ f ih =>
    simp only [run]
    generalize hst : step S nmeaHdr cfg O s = st
    obtain ⟨o, r⟩ := st
    cases r with
    | none =>
      have hd := step_none_dead S nmeaHdr cfg O s (by rw [hst])
      rw [hst] at hd
      rcases hd with hd | hd
      · simp only at hd; subst hd
        simp only [rawsOf_eof, rawsOf_nil]; exact ⟨Slices.nil _, by simp⟩
      · simp only at hd; subst hd
        simp only [rawsOf_err, rawsOf_run_none]; exact ⟨Slices.nil _, by simp⟩
    | some s' =>
      obtain ⟨pre, hpre, hall, hitem⟩ := step_linear S all L nmeaHdr cfg O s s' o hst
      obtain ⟨ih1, ih2⟩ := ih s'
      cases o with
      | eof => simp only [rawsOf_eof, rawsOf_nil]; exact ⟨Slices.nil _, by simp⟩
      | crash p c => simp only [rawsOf_crash, rawsOf_nil]; exact ⟨Slices.nil _, by simp⟩
      | skip => simp only [rawsOf_skip]; rw [hall]; exact ⟨ih1.skip pre, ih2⟩
      | err k => simp only [rawsOf_err]; rw [hall]; exact ⟨ih1.skip pre, ih2⟩
      | item p raw m =>
        obtain ⟨hraw, b, rest, hb, hp⟩ := hitem p raw m rfl
        simp only [rawsOf_item]
        rw [hall, ← hraw]
        constructor
        · have := Slices.cons [] raw (all s') _ ih1
          simpa using this
        · intro r hr
          rcases List.mem_cons.mp hr with rfl | hr
          · exact ⟨b, rest, hb, hp⟩
          · exact ih2 r hr

theorem file_linear : Linear fileSrc (fun s => s) where
  read := by
    intro n s d s' h
    simp only [fileSrc, fileRead] at h
    split at h
    · cases h; rename_i h0; subst h0; simp
    · split at h
      · cases h
      · split at h
        · cases h
        · cases h
          refine ⟨(List.take_append_drop n s).symm, ?_⟩
          simp [List.length_take]; omega
  line := by
    intro s d s' h
    simp only [fileSrc, fileLine] at h
    split at h
    · cases h
    · split at h
      · cases h
        rename_i hs _
        refine ⟨(List.take_append_drop _ s).symm, ?_⟩
        intro hc
        have := lineLen_pos hs
        rcases List.take_eq_nil_iff.mp hc with h0 | h0
        · omega
        · exact hs h0
      · cases h

theorem sock_linear : Linear sockSrc Sock.all where
  read := by
    intro n st d st' h
    rcases sockRead_char n st with ⟨he, _⟩ | ⟨st'', he, ha, hle⟩
    · simp only [sockSrc] at h; rw [he] at h; cases h
    · simp only [sockSrc] at h; rw [he] at h; cases h
      refine ⟨by rw [ha]; exact (List.take_append_drop n st.all).symm, ?_⟩
      simp [List.length_take]; omega
  line := by
    intro st d st' h
    simp only [sockSrc] at h
    rcases sockLine_char st with ⟨hl, st'', e, ea⟩ | ⟨hl, e⟩
    · rw [e] at h; cases h
      refine ⟨by rw [ea]; exact (List.take_append_drop _ st.all).symm, ?_⟩
      have hne : st.all ≠ [] := by intro hc; rw [hc] at hl; simp [hasLF] at hl
      intro hc
      have := lineLen_pos hne
      rcases List.take_eq_nil_iff.mp hc with h0 | h0
      · omega
      · exact hne h0
    · rw [e] at h; split at h <;> cases h

end Ubx

namespace Ubx
variable {α σ : Type}

theorem run_none_succ (S : Src σ) (nmeaHdr) (cfg : RCfg) (O : Oracle α) (f : Nat) :
    run S nmeaHdr cfg O (f + 1) none = [.eof] := rfl

/-- enough fuel: one more unit changes nothing once `fuel ≥ |remaining| + 2` -/
theorem run_fuel_succ (S : Src σ) (all : σ → Bytes) (L : Linear S all) (nmeaHdr) (cfg : RCfg) (O : Oracle α)
    (f : Nat) (s : σ) (hf : (all s).length + 2 ≤ f) :
    run S nmeaHdr cfg O (f + 1) (some s) = run S nmeaHdr cfg O f (some s) := by
  induction f generalizing s with
  | zero => omega
  | succ f ih =>
    rw [run, run]
    generalize hst : step S nmeaHdr cfg O s = st
    obtain ⟨o, r⟩ := st
    cases r with
    | none =>
      have hf1 : f = (f - 1) + 1 := by omega
      cases o <;> simp only [] <;> (try rfl) <;> (rw [hf1, run_none_succ, run_none_succ])
    | some s' =>
      obtain ⟨pre, hpre, hall, _⟩ := step_linear S all L nmeaHdr cfg O s s' o hst
      have hlen : (all s').length + 1 ≤ (all s).length := by
        rw [hall, List.length_append]
        have : 0 < pre.length := List.length_pos_iff.mpr hpre
        omega
      have := ih s' (by omega)
      cases o <;> simp only [] <;> (try rfl) <;> rw [this]

theorem run_fuel_ge (S : Src σ) (all : σ → Bytes) (L : Linear S all) (nmeaHdr) (cfg : RCfg) (O : Oracle α)
    (s : σ) (f : Nat) (hf : (all s).length + 2 ≤ f) :
    run S nmeaHdr cfg O f (some s) = run S nmeaHdr cfg O ((all s).length + 2) (some s) := by
  obtain ⟨d, rfl⟩ : ∃ d, f = (all s).length + 2 + d := ⟨f - ((all s).length + 2), by omega⟩
  induction d with
  | zero => rfl
  | succ d ih =>
    rw [← Nat.add_assoc, run_fuel_succ S all L nmeaHdr cfg O _ s (by omega)]
    exact ih (by omega)

/-- a whole iteration over a byte string held in a file-like stream -/
def readFile (nmeaHdr : Byte → Bool) (cfg : RCfg) (O : Oracle α) (s : Bytes) : List (Out α) :=
  run fileSrc nmeaHdr cfg O (s.length + 2) (some s)

/-- a whole iteration over a socket whose `recv()` calls deliver `chunks` -/
def readSock (nmeaHdr : Byte → Bool) (cfg : RCfg) (O : Oracle α) (chunks : List Bytes) : List (Out α) :=
  run sockSrc nmeaHdr cfg O (chunks.flatten.length + 2) (some (sockInit chunks))

/-- with enough fuel the trace ends with end-of-stream or a crash: the iteration terminates -/
theorem run_ends (S : Src σ) (all : σ → Bytes) (L : Linear S all) (nmeaHdr) (cfg : RCfg) (O : Oracle α)
    (f : Nat) (st : Option σ) (hf : ∀ s, st = some s → (all s).length + 2 ≤ f) (h0 : 0 < f) :
    ∃ tr o, run S nmeaHdr cfg O f st = tr ++ [o] ∧ (o = .eof ∨ ∃ p c, o = .crash p c) := by
  induction f generalizing st with
  | zero => omega
  | succ f ih =>
    cases st with
    | none => exact ⟨[], .eof, rfl, Or.inl rfl⟩
    | some s =>
      rw [run]
      generalize hst : step S nmeaHdr cfg O s = stp
      obtain ⟨o, r⟩ := stp
      have hfs := hf s rfl
      have hrec : ∃ tr o', run S nmeaHdr cfg O f r = tr ++ [o'] ∧ (o' = .eof ∨ ∃ p c, o' = .crash p c) := by
        apply ih r
        · intro s' hs'
          subst hs'
          obtain ⟨pre, hpre, hall, _⟩ := step_linear S all L nmeaHdr cfg O s s' o hst
          have : 0 < pre.length := List.length_pos_iff.mpr hpre
          rw [hall, List.length_append] at hfs
          omega
        · omega
      obtain ⟨tr, o', e, ho'⟩ := hrec
      cases o with
      | eof => exact ⟨[], .eof, rfl, Or.inl rfl⟩
      | crash p c => exact ⟨[], .crash p c, rfl, Or.inr ⟨p, c, rfl⟩⟩
      | skip => exact ⟨.skip :: tr, o', by simp [e], ho'⟩
      | err k => exact ⟨.err k :: tr, o', by simp [e], ho'⟩
      | item p raw m => exact ⟨.item p raw m :: tr, o', by simp [e], ho'⟩

end Ubx
