import Ubx.Proofs.CodeHelpers
import Ubx.Model.Codec
import Ubx.Generated.Tables
/-!
# `val2bytes`, as written, is the model's `val2bytes`

The encoder of one attribute value, with the shipped `ATTTYPE` table (`attShipped_gen`: it is the regenerated one): the
`isinstance(val, ATTTYPE[atttyp(att)])` check (TypeError; KeyError → UBXTypeError for an unknown letter), then by type
letter — `X`: length must equal `attsiz` (ValueError); `C`: text is encoded, bytes pass; `E I L U`:
`val.to_bytes(attsiz, byteorder="little", signed=(letter == "I"))` (OverflowError out of range; bools are ints);
`R`: `struct.pack("<f" | "<d", float(val))` with the OverflowErrors of `float()` and of single precision; `A`: length
check, then every element's `to_bytes(1, …)` in order (`wa_loop`, by induction; AttributeError for an element that is no
int, OverflowError outside 0…255). `val2bytes_eq`: for **every** value of every Python type the harness distinguishes
(int, bool, float, text, bytes, list with int / non-int elements, None, anything else) and every type string
`<letter><size>`, known letter or not, the result — bytes or exception class — is the model's. Lists travel as tuples
of elements; `float()`, `struct.pack`, `to_bytes`, `encode`, `range` are the model's functions of the same meaning.
(Seeded changes S05, S13, S51, S100 and batch-5's signed wrap-around were in this function.)
-/
set_option maxRecDepth 10000
set_option linter.unusedSimpArgs false
namespace Ubx.Py
open Ubx Ubx.Gen.Code

/-- objects of `val2bytes`: a type string, the `ATTTYPE` table, one of its entries (a Python type or tuple of types) -/
inductive WO where
  | ty (t : Ty)
  | atttype
  | kinds (ks : List Kind)

def encElem : Option Int → V WO
  | some i => .int i
  | none => .none

/-- a keyword / attribute value as the interpreter sees it: lists as tuples of ints (`None` = an element without `to_bytes`) -/
def encW : PyVal → V WO
  | .ints l => .tuple (l.map encElem)
  | v => V.ofPy v

def decElem : V WO → Option Int
  | .int i => some i
  | _ => none

def decW : V WO → PyVal
  | .int i => .int i
  | .bool b => .bool b
  | .bytes b => .bytes b
  | .none => .none
  | .py v => v
  | .tuple l => .ints (l.map decElem)
  | _ => .other

theorem decElem_enc (x : Option Int) : decElem (encElem x) = x := by cases x <;> rfl
theorem decW_encW (v : PyVal) : decW (encW v) = v := by
  cases v <;> try rfl
  case ints l =>
    simp only [encW, decW, List.map_map]
    congr 1
    induction l with
    | nil => rfl
    | cons x xs ih => simp [decElem_enc, ih]

def wCall (f : Name) (args : List (V WO)) (_kw : List (Name × V WO)) (st : Unit) : X WO (V WO) × Unit :=
  if f = 0x617474747970 then                       -- atttyp(att)
    match args with
    | [.host (.ty t)] => (.ok (.str (atttyp t)), st)
    | _ => (raiseX xUnsupported, st)
  else if f = 0x61747473697a then                  -- attsiz(att)
    match args with
    | [.host (.ty t)] => (encR (fun n : Int => V.int n) (attsiz t), st)
    | _ => (raiseX xUnsupported, st)
  else if f = 0x6973696e7374616e6365 then          -- isinstance(val, ATTTYPE[…])
    match args with
    | [v, .host (.kinds ks)] =>
      (.ok (.bool (match (decW v).kind? with | some k => ks.contains k | none => false)), st)
    | _ => (raiseX xUnsupported, st)
  else if f = 0x666c6f6174 then                    -- float(val)
    match args with
    | [v] =>
      (match decW v with
       | .float b => .ok (.py (.float b))
       | .int i => (match F64.ofInt i with | some b => .ok (.py (.float b)) | none => .error (.exc xOverflowError 0))
       | .bool b => .ok (.py (.float (if b then 0x3FF0000000000000 else 0)))
       | _ => .error (.exc xTypeError 0), st)
    | _ => (raiseX xUnsupported, st)
  else if f = 0x7374727563742e7061636b then        -- struct.pack(fmt, x)
    match args with
    | [.str 0x3c66, .py (.float b)] =>
      (match F64.toF32 b with | some w => .ok (.bytes (toLE 4 w)) | none => .error (.exc xOverflowError 0), st)
    | [.str 0x3c64, .py (.float b)] => (.ok (.bytes (toLE 8 b)), st)
    | _ => (raiseX xUnsupported, st)
  else if f = 0x72616e6765 then                    -- range(n)
    match args with
    | [.int n] => (.ok (.tuple ((List.range n.toNat).map (fun (i : Nat) => (V.int (i : Int) : V WO)))), st)
    | _ => (raiseX xUnsupported, st)
  else (raiseX xUnsupported, st)

def wMcall (obj : V WO) (m : Name) (args : List (V WO)) (kw : List (Name × V WO)) (st : Unit) : X WO (V WO) × Unit :=
  if m = 0x746f5f6279746573 then                   -- val.to_bytes(size, byteorder="little", signed=…)
    match args, kwArg kw 0x627974656f72646572, kwArg kw 0x7369676e6564 with
    | [.int size], some (.str 0x6c6974746c65), some (.bool sg) =>
      if 0 ≤ size then
        (match obj with
         | .int i => (encR .bytes (intToBytes i size.toNat sg), st)
         | .bool b => (encR .bytes (intToBytes (if b then 1 else 0) size.toNat sg), st)
         | _ => (.error (.exc xAttributeError 0), st))
      else (raiseX xUnsupported, st)
    | _, _, _ => (raiseX xUnsupported, st)
  else if m = 0x656e636f6465 then                  -- val.encode("utf-8", "backslashreplace")
    match obj with
    | .py (.str s) => (.ok (.bytes s), st)
    | _ => (raiseX xUnsupported, st)
  else (raiseX xUnsupported, st)

def wIndex (att : List (Nat × List Kind)) (o : WO) (i : V WO) (_st : Unit) : X WO (V WO) :=
  match o, i with
  | .atttype, .str l => (match lookup l att with
      | some ks => .ok (.host (.kinds ks))
      | none => .error (.exc xKeyError 0))
  | _, _ => raiseX xUnsupported

def wHost (att : List (Nat × List Kind)) : Host WO Unit where
  glob := fun x => if x = 0x41545454595045 then some (.host .atttype) else none
  call := wCall
  mcall := wMcall
  attr := fun _ _ _ => raiseX xUnsupported
  setattr := fun _ _ _ st => (raiseX xUnsupported, st)
  index := wIndex att
  contains := fun _ _ _ => raiseX xUnsupported
  truthy := fun _ => true
  eqHost := fun _ _ => false

theorem w_call (att : List (Nat × List Kind)) : (wHost att).call = wCall := rfl
theorem w_mcall (att : List (Nat × List Kind)) : (wHost att).mcall = wMcall := rfl
theorem w_index (att : List (Nat × List Kind)) : (wHost att).index = wIndex att := rfl
theorem w_glob (att : List (Nat × List Kind)) (x : Name) :
    (wHost att).glob x = (if x = 0x41545454595045 then some (.host .atttype) else none) := rfl
theorem wc_atttyp (t : Ty) (kw : List (Name × V WO)) (st : Unit) :
    wCall 0x617474747970 [.host (.ty t)] kw st = (.ok (.str (atttyp t)), st) := rfl
theorem wc_attsiz (t : Ty) (kw : List (Name × V WO)) (st : Unit) :
    wCall 0x61747473697a [.host (.ty t)] kw st = (encR (fun n : Int => V.int n) (attsiz t), st) := rfl
theorem wc_isinst (v : V WO) (ks : List Kind) (kw : List (Name × V WO)) (st : Unit) :
    wCall 0x6973696e7374616e6365 [v, .host (.kinds ks)] kw st
      = (.ok (.bool (match (decW v).kind? with | some k => ks.contains k | none => false)), st) := rfl

theorem atttyp_t (l n : Nat) : atttyp (.t l n) = l := rfl
theorem attsiz_t (l n : Nat) : attsiz (.t l n) = .ok (n : Int) := rfl

/-- the model on a well-formed type string, with the letter and size in place -/
theorem val2bytes_t (att : List (Nat × List Kind)) (v : PyVal) (l n : Nat) :
    val2bytes att v (.t l n) =
      (match lookup l att with
       | none => .error .ubxType
       | some kinds =>
         match v.kind? with
         | none => .error .typeE
         | some k =>
           if !kinds.contains k then .error .typeE
           else if l = cX then
             match v with
             | .bytes b => if (b.length : Int) = (n : Int) then .ok b else .error .valueE
             | _ => .error .typeE
           else if l = cC then
             match v with
             | .str s => .ok s
             | .bytes b => .ok b
             | _ => .error .typeE
           else if isIntLetter l then
             match v.asInt? with
             | some i => intToBytes i n (l = cI)
             | none => .error .attributeE
           else if l = cR then
             (match (match v with
                | .float b => (.ok b : R Nat)
                | .int i => (match F64.ofInt i with | some b => .ok b | none => .error .overflowE)
                | .bool b => .ok (if b then 0x3FF0000000000000 else 0)
                | _ => .error .typeE) with
              | .error e => .error e
              | .ok b =>
                if (n : Int) = 4 then
                  match F64.toF32 b with
                  | some w => .ok (toLE 4 w)
                  | none => .error .overflowE
                else .ok (toLE 8 b))
           else if l = cA then
             match v with
             | .ints xs => if (xs.length : Int) = (n : Int) then arrayToBytes n xs else .error .valueE
             | _ => .error .typeE
           else .error .unboundLocalE) := by
  unfold val2bytes
  simp only [atttyp_t, attsiz_t, Int.toNat_natCast]
  rfl

def attShipped : List (Nat × List Kind) :=
  [(65, [.list]), (67, [.bytes, .str]), (69, [.int]), (73, [.int]), (76, [.int]), (82, [.int, .float]), (85, [.int]), (88, [.bytes])]

macro "v2b" "[" ls:Lean.Parser.Tactic.simpLemma,* "]" : tactic => `(tactic| pysimp [w_glob, w_call, w_mcall, w_index, wIndex, wc_atttyp, wc_attsiz, wc_isinst,
  builtin, decW_encW, atttyp_t, attsiz_t, encR, execB_one, Nat.reduceBEq, Bool.false_eq_true, attShipped, lookup, encW, V.ofPy, decW,
  PyVal.kind?, memTuple, pyEq, kwArg, List.contains_cons, List.contains_nil, Bool.or_false, Bool.or_true, Bool.true_or, Bool.false_or,
  beq_self_eq_true, Bool.not_true, Bool.not_false, Bool.beq_eq_decide_eq, reduceCtorEq, decide_false, decide_true, $ls,*])

/-- an unknown type letter: `ATTTYPE[…]` raises KeyError, which becomes UBXTypeError -/
theorem v2b_unknown (F : Nat) (v : PyVal) (l n : Nat) (h : lookup l attShipped = none) :
    (runFn (wHost attShipped) F fn_val2bytes [encW v, .host (.ty (.t l n))] ()).1
      = .error (.exc xUBXTypeError 0) := by
  unfold runFn fn_val2bytes
  rw [execB_cons, execS_try]
  rw [execB_one]
  pysimp [w_glob, w_call, w_index, wIndex, wc_atttyp, atttyp_t, h]
  pysimp [execB_one, Nat.reduceBEq, Bool.true_or]

theorem v2b_X (F : Nat) (v : PyVal) (n : Nat) :
    (runFn (wHost attShipped) F fn_val2bytes [encW v, .host (.ty (.t 88 n))] ()).1
      = (match val2bytes attShipped v (.t 88 n) with
         | .ok b => .ok (.bytes b)
         | .error e => .error (.exc (excName e) 0)) := by
  rw [val2bytes_t]
  unfold runFn fn_val2bytes
  rw [execB_cons, execS_try]
  rw [execB_one]
  cases v with
  | bytes b =>
    v2b []
    simp only [cX, ↓reduceIte]
    rw [execB_cons]
    by_cases hlen : (b.length : Int) = (n : Int)
    · have hb : ((b.length : Int) == (n : Int)) = true := by simpa using hlen
      v2b [hlen, hb]
      rw [execB_cons]
      v2b [hlen, hb]
    · have hb : ((b.length : Int) == (n : Int)) = false := by simpa using hlen
      v2b [hlen, hb]
      rw [execB_cons]
      v2b [hlen, hb]
      rfl
  | int i => v2b []; rfl
  | bool b => v2b []; rfl
  | float b => v2b []; rfl
  | str s => v2b []; rfl
  | ints xs => v2b []; rfl
  | none => v2b []; rfl
  | other => v2b []; rfl

theorem v2b_C (F : Nat) (v : PyVal) (n : Nat) :
    (runFn (wHost attShipped) F fn_val2bytes [encW v, .host (.ty (.t 67 n))] ()).1
      = (match val2bytes attShipped v (.t 67 n) with
         | .ok b => .ok (.bytes b)
         | .error e => .error (.exc (excName e) 0)) := by
  rw [val2bytes_t]
  unfold runFn fn_val2bytes
  rw [execB_cons, execS_try]
  rw [execB_one]
  cases v with
  | bytes b => v2b [cX, cC]; rw [execB_cons]; v2b []
  | str s => v2b [cX, cC]; rw [execB_cons]; v2b [wMcall]
  | int i => v2b []; rfl
  | bool b => v2b []; rfl
  | float b => v2b []; rfl
  | ints xs => v2b []; rfl
  | none => v2b []; rfl
  | other => v2b []; rfl

theorem v2b_E (F : Nat) (v : PyVal) (n : Nat) :
    (runFn (wHost attShipped) F fn_val2bytes [encW v, .host (.ty (.t 69 n))] ()).1
      = (match val2bytes attShipped v (.t 69 n) with
         | .ok b => .ok (.bytes b)
         | .error e => .error (.exc (excName e) 0)) := by
  rw [val2bytes_t]
  unfold runFn fn_val2bytes
  rw [execB_cons, execS_try]
  rw [execB_one]
  cases v with
  | int i =>
    v2b [cX, cC, cI, isIntLetter, cE, cL, cU]
    rw [execB_cons]
    v2b [wMcall, Int.natCast_nonneg, Int.toNat_natCast, PyVal.asInt?]
    cases intToBytes i n _ <;> rfl
  | bool b =>
    v2b [cX, cC, cI, isIntLetter, cE, cL, cU]
    rw [execB_cons]
    v2b [wMcall, Int.natCast_nonneg, Int.toNat_natCast, PyVal.asInt?]
    cases intToBytes _ n _ <;> rfl
  | bytes b => v2b []; rfl
  | str s => v2b []; rfl
  | float b => v2b []; rfl
  | ints xs => v2b []; rfl
  | none => v2b []; rfl
  | other => v2b []; rfl

theorem v2b_I (F : Nat) (v : PyVal) (n : Nat) :
    (runFn (wHost attShipped) F fn_val2bytes [encW v, .host (.ty (.t 73 n))] ()).1
      = (match val2bytes attShipped v (.t 73 n) with
         | .ok b => .ok (.bytes b)
         | .error e => .error (.exc (excName e) 0)) := by
  rw [val2bytes_t]
  unfold runFn fn_val2bytes
  rw [execB_cons, execS_try]
  rw [execB_one]
  cases v with
  | int i =>
    v2b [cX, cC, cI, isIntLetter, cE, cL, cU]
    rw [execB_cons]
    v2b [wMcall, Int.natCast_nonneg, Int.toNat_natCast, PyVal.asInt?]
    cases intToBytes i n _ <;> rfl
  | bool b =>
    v2b [cX, cC, cI, isIntLetter, cE, cL, cU]
    rw [execB_cons]
    v2b [wMcall, Int.natCast_nonneg, Int.toNat_natCast, PyVal.asInt?]
    cases intToBytes _ n _ <;> rfl
  | bytes b => v2b []; rfl
  | str s => v2b []; rfl
  | float b => v2b []; rfl
  | ints xs => v2b []; rfl
  | none => v2b []; rfl
  | other => v2b []; rfl

theorem v2b_L (F : Nat) (v : PyVal) (n : Nat) :
    (runFn (wHost attShipped) F fn_val2bytes [encW v, .host (.ty (.t 76 n))] ()).1
      = (match val2bytes attShipped v (.t 76 n) with
         | .ok b => .ok (.bytes b)
         | .error e => .error (.exc (excName e) 0)) := by
  rw [val2bytes_t]
  unfold runFn fn_val2bytes
  rw [execB_cons, execS_try]
  rw [execB_one]
  cases v with
  | int i =>
    v2b [cX, cC, cI, isIntLetter, cE, cL, cU]
    rw [execB_cons]
    v2b [wMcall, Int.natCast_nonneg, Int.toNat_natCast, PyVal.asInt?]
    cases intToBytes i n _ <;> rfl
  | bool b =>
    v2b [cX, cC, cI, isIntLetter, cE, cL, cU]
    rw [execB_cons]
    v2b [wMcall, Int.natCast_nonneg, Int.toNat_natCast, PyVal.asInt?]
    cases intToBytes _ n _ <;> rfl
  | bytes b => v2b []; rfl
  | str s => v2b []; rfl
  | float b => v2b []; rfl
  | ints xs => v2b []; rfl
  | none => v2b []; rfl
  | other => v2b []; rfl

theorem v2b_U (F : Nat) (v : PyVal) (n : Nat) :
    (runFn (wHost attShipped) F fn_val2bytes [encW v, .host (.ty (.t 85 n))] ()).1
      = (match val2bytes attShipped v (.t 85 n) with
         | .ok b => .ok (.bytes b)
         | .error e => .error (.exc (excName e) 0)) := by
  rw [val2bytes_t]
  unfold runFn fn_val2bytes
  rw [execB_cons, execS_try]
  rw [execB_one]
  cases v with
  | int i =>
    v2b [cX, cC, cI, isIntLetter, cE, cL, cU]
    rw [execB_cons]
    v2b [wMcall, Int.natCast_nonneg, Int.toNat_natCast, PyVal.asInt?]
    cases intToBytes i n _ <;> rfl
  | bool b =>
    v2b [cX, cC, cI, isIntLetter, cE, cL, cU]
    rw [execB_cons]
    v2b [wMcall, Int.natCast_nonneg, Int.toNat_natCast, PyVal.asInt?]
    cases intToBytes _ n _ <;> rfl
  | bytes b => v2b []; rfl
  | str s => v2b []; rfl
  | float b => v2b []; rfl
  | ints xs => v2b []; rfl
  | none => v2b []; rfl
  | other => v2b []; rfl

theorem v2b_R (F : Nat) (v : PyVal) (n : Nat) :
    (runFn (wHost attShipped) F fn_val2bytes [encW v, .host (.ty (.t 82 n))] ()).1
      = (match val2bytes attShipped v (.t 82 n) with
         | .ok b => .ok (.bytes b)
         | .error e => .error (.exc (excName e) 0)) := by
  rw [val2bytes_t]
  unfold runFn fn_val2bytes
  rw [execB_cons, execS_try]
  rw [execB_one]
  have h4 : ((n : Int) == 4) = decide ((n : Int) = 4) := by
    rw [Bool.eq_iff_iff]; simp
  cases v with
  | float b =>
    v2b [cX, cC, cI, cR, isIntLetter, cE, cL, cU]
    rw [execB_cons]
    by_cases hn : (n : Int) = 4
    · v2b [wCall, hn, h4]
      cases F64.toF32 b <;> rfl
    · v2b [wCall, hn, h4]
  | int i =>
    v2b [cX, cC, cI, cR, isIntLetter, cE, cL, cU]
    rw [execB_cons]
    by_cases hn : (n : Int) = 4
    · v2b [wCall, hn, h4]
      cases F64.ofInt i with
      | none => rfl
      | some b => simp only; cases F64.toF32 b <;> rfl
    · v2b [wCall, hn, h4]
      cases F64.ofInt i <;> rfl
  | bool b =>
    v2b [cX, cC, cI, cR, isIntLetter, cE, cL, cU]
    rw [execB_cons]
    by_cases hn : (n : Int) = 4
    · v2b [wCall, hn, h4]
      cases F64.toF32 _ <;> rfl
    · v2b [wCall, hn, h4]
  | bytes b => v2b []; rfl
  | str s => v2b []; rfl
  | ints xs => v2b []; rfl
  | none => v2b []; rfl
  | other => v2b []; rfl

/-! ### the array type: `for i in range(attsiz(att)): valb += val[i].to_bytes(1, byteorder="little", signed=False)` -/

def wLoopA : S := match fn_val2bytes.body with
  | [_, .if_ _ _ [.if_ _ _ [.if_ _ _ [.if_ _ _ [.if_ _ [_, _, l] _]]]], _] => l
  | _ => .pass
def wBodyA : List S := match wLoopA with | .for_ _ _ b => b | _ => []

/-- one element -/
def elemBytes (x : Option Int) : R Bytes :=
  match x with
  | none => .error .attributeE
  | some v => if 0 ≤ v ∧ v < 256 then .ok [UInt8.ofNat v.toNat] else .error .overflowE

theorem arrayToBytes_cons (k : Nat) (x : Option Int) (rest : List (Option Int)) :
    arrayToBytes (k + 1) (x :: rest)
      = (match elemBytes x with
         | .error e => .error e
         | .ok b => match arrayToBytes k rest with | .ok bs => .ok (b ++ bs) | .error e => .error e) := by
  cases x with
  | none => rfl
  | some v =>
    simp only [arrayToBytes, elemBytes]
    by_cases h : 0 ≤ v ∧ v < 256
    · simp only [h, and_self, ↓reduceIte]
      cases arrayToBytes k rest <;> rfl
    · simp only [h, ↓reduceIte]

theorem intToBytes_one (v : Int) : intToBytes v 1 false = elemBytes (some v) := by
  simp only [intToBytes, elemBytes, Bool.false_eq_true, ↓reduceIte]
  have : ((256 ^ 1 : Nat) : Int) = 256 := by decide
  rw [this]
  by_cases h : 0 ≤ v ∧ v < 256
  · simp only [h, and_self, ↓reduceIte]
    have hm : v.toNat % 256 = v.toNat := Nat.mod_eq_of_lt (by omega)
    simp only [toLE, hm]
  · simp only [h, ↓reduceIte]

theorem wa_body (att : List (Nat × List Kind)) (F : Nat) (xs : List (Option Int)) (s : Nat) (hs : s < xs.length) (pre : Bytes)
    (vars : List (Name × V WO)) (hv : getVar vars 0x76616c = some (.tuple (xs.map encElem)))
    (hb : getVar vars 0x76616c62 = some (.bytes pre)) :
    forBody (wHost att) F 0x69 wBodyA (.int (s : Int)) ⟨vars, ()⟩
      = (match elemBytes (xs[s]?.getD none) with
         | .ok b => (.ok .next, ⟨setVar (setVar vars 0x69 (.int (s : Int))) 0x76616c62 (.bytes (pre ++ b)), ()⟩)
         | .error e => (.error (.exc (excName e) 0), ⟨setVar vars 0x69 (.int (s : Int)), ()⟩)) := by
  simp only [forBody, wBodyA, wLoopA, fn_val2bytes]
  rw [execB_one]
  have hneg : ¬ ((s : Int) < 0) := by omega
  have hlt : (s : Int) < ((xs.map encElem).length : Int) := by rw [List.length_map]; omega
  pysimp [hv, hb, hneg, hlt, Int.natCast_nonneg, Int.toNat_natCast, true_and, w_mcall]
  have hget : ((xs.map encElem)[s]?) = some (encElem (xs[s]?.getD none)) := by
    rw [List.getElem?_map, List.getElem?_eq_getElem hs]; rfl
  rw [hget]
  cases hx : xs[s]?.getD none with
  | none =>
    simp only [encElem, elemBytes]
    pysimp [wMcall, kwArg, builtinMethod]
    rfl
  | some v =>
    simp only [encElem]
    pysimp [wMcall, kwArg, builtinMethod, intToBytes_one]
    cases elemBytes (some v) with
    | error e => rfl
    | ok b => simp only [encR]

theorem wa_loop (att : List (Nat × List Kind)) (F : Nat) (xs : List (Option Int)) (k : Nat) : ∀ (s : Nat) (pre : Bytes)
    (vars : List (Name × V WO)), getVar vars 0x76616c = some (.tuple (xs.map encElem)) →
    getVar vars 0x76616c62 = some (.bytes pre) → s + k ≤ xs.length →
    (match arrayToBytes k (xs.drop s) with
     | .ok bs => ∃ vars', forLoop (forBody (wHost att) F 0x69 wBodyA) ((List.range' s k).map (fun (i : Nat) => (V.int (i : Int) : V WO))) ⟨vars, ()⟩
          = (.ok .next, ⟨vars', ()⟩) ∧ getVar vars' 0x76616c62 = some (.bytes (pre ++ bs))
     | .error e => (forLoop (forBody (wHost att) F 0x69 wBodyA) ((List.range' s k).map (fun (i : Nat) => (V.int (i : Int) : V WO))) ⟨vars, ()⟩).1
          = .error (.exc (excName e) 0)) := by
  induction k with
  | zero =>
    intro s pre vars _ hb _
    simp only [arrayToBytes, List.range'_zero, List.map_nil, forLoop, List.append_nil]
    exact ⟨vars, rfl, hb⟩
  | succ k ih =>
    intro s pre vars hv hb hle
    have hs : s < xs.length := by omega
    have hdrop : xs.drop s = (xs[s]?.getD none) :: xs.drop (s + 1) := by
      rw [List.getElem?_eq_getElem hs, Option.getD_some]
      exact List.drop_eq_getElem_cons hs
    rw [hdrop, arrayToBytes_cons, List.range'_succ, List.map_cons, forLoop, wa_body att F xs s hs pre vars hv hb]
    cases he : elemBytes (xs[s]?.getD none) with
    | error e => rfl
    | ok b =>
      simp only
      have := ih (s + 1) (pre ++ b) (setVar (setVar vars 0x69 (.int (s : Int))) 0x76616c62 (.bytes (pre ++ b)))
        (by pysimp [hv]) (by rw [getVar_setVar_same]) (by omega)
      cases ha : arrayToBytes k (xs.drop (s + 1)) with
      | error e => rw [ha] at this; exact this
      | ok bs =>
        rw [ha] at this
        obtain ⟨vars', g1, g2⟩ := this
        exact ⟨vars', g1, by rw [g2, List.append_assoc]⟩

theorem v2b_A (F : Nat) (v : PyVal) (n : Nat) :
    (runFn (wHost attShipped) F fn_val2bytes [encW v, .host (.ty (.t 65 n))] ()).1
      = (match val2bytes attShipped v (.t 65 n) with
         | .ok b => .ok (.bytes b)
         | .error e => .error (.exc (excName e) 0)) := by
  rw [val2bytes_t]
  unfold runFn fn_val2bytes
  rw [execB_cons, execS_try]
  rw [execB_one]
  cases v with
  | ints xs =>
    v2b [cX, cC, cI, cR, cA, isIntLetter, cE, cL, cU]
    rw [execB_cons]
    have hlm : ((xs.map encElem).length : Int) = (xs.length : Int) := by rw [List.length_map]
    by_cases hlen : (xs.length : Int) = (n : Int)
    · have hb : ((xs.length : Int) == (n : Int)) = true := by simpa using hlen
      v2b [hlen, hb, hlm]
      rw [execB_cons]
      v2b [hlen, hb, hlm]
      rw [execB_cons]
      v2b []
      have hrange : wCall 0x72616e6765 [V.int (n : Int)] [] () = (.ok (.tuple ((List.range n).map (fun (i : Nat) => (V.int (i : Int) : V WO)))), ()) := by
        simp [wCall]
      v2b [hrange, iterOf]
      have hxn : xs.length = n := by omega
      have hl := wa_loop attShipped F xs n 0 [] [(7758188, V.tuple (List.map encElem xs)), (6386804, V.host (WO.ty (Ty.t 65 n))), (1986096226, V.bytes [])]
        (by pysimp) (by pysimp) (by omega)
      simp only [wBodyA, wLoopA, fn_val2bytes, List.drop_zero, List.nil_append, ← List.range_eq_range', attShipped] at hl
      cases ha : arrayToBytes n xs with
      | error e =>
        rw [ha] at hl
        simp only at hl ⊢
        generalize forLoop _ _ _ = r at hl ⊢
        obtain ⟨r1, r2⟩ := r
        simp only at hl
        subst hl
        rfl
      | ok bs =>
        rw [ha] at hl
        obtain ⟨vars', g1, g2⟩ := hl
        simp only
        rw [g1]
        simp only
        pysimp [g2]
    · have hb : ((xs.length : Int) == (n : Int)) = false := by simpa using hlen
      v2b [hlen, hb, hlm]
      rw [execB_cons]
      v2b [hlen, hb, hlm]
      rfl
  | int i => v2b []; rfl
  | bool b => v2b []; rfl
  | float b => v2b []; rfl
  | bytes b => v2b []; rfl
  | str s => v2b []; rfl
  | none => v2b []; rfl
  | other => v2b []; rfl

theorem lookup_shipped_none (l : Nat) (h65 : l ≠ 65) (h67 : l ≠ 67) (h69 : l ≠ 69) (h73 : l ≠ 73) (h76 : l ≠ 76) (h82 : l ≠ 82)
    (h85 : l ≠ 85) (h88 : l ≠ 88) : lookup l attShipped = none := by
  simp [attShipped, lookup, Ne.symm h65, Ne.symm h67, Ne.symm h69, Ne.symm h73, Ne.symm h76, Ne.symm h82, Ne.symm h85, Ne.symm h88]

/-- **`val2bytes` as written = the model's**, with the shipped `ATTTYPE` table, for every value (of any Python type the
    harness distinguishes) and every well-formed type string `<letter><size>` — known letter or not -/
theorem val2bytes_eq (F : Nat) (v : PyVal) (l n : Nat) :
    (runFn (wHost attShipped) F fn_val2bytes [encW v, .host (.ty (.t l n))] ()).1
      = (match val2bytes attShipped v (.t l n) with
         | .ok b => .ok (.bytes b)
         | .error e => .error (.exc (excName e) 0)) := by
  by_cases h65 : l = 65
  · subst h65; exact v2b_A F v n
  by_cases h67 : l = 67
  · subst h67; exact v2b_C F v n
  by_cases h69 : l = 69
  · subst h69; exact v2b_E F v n
  by_cases h73 : l = 73
  · subst h73; exact v2b_I F v n
  by_cases h76 : l = 76
  · subst h76; exact v2b_L F v n
  by_cases h82 : l = 82
  · subst h82; exact v2b_R F v n
  by_cases h85 : l = 85
  · subst h85; exact v2b_U F v n
  by_cases h88 : l = 88
  · subst h88; exact v2b_X F v n
  have hn := lookup_shipped_none l h65 h67 h69 h73 h76 h82 h85 h88
  rw [v2b_unknown F v l n hn, val2bytes_t, hn]
  rfl

/-- the shipped table is the one the theorems are about -/
theorem attShipped_gen : Gen.ctx.atttype = attShipped := by decide +kernel
end Ubx.Py
