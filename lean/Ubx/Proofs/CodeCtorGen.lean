import Ubx.Proofs.CodeDoAttrs
import Ubx.Proofs.CodeCfgVal
/-!
# The constructor core as written, for the shipped tables: every input

`gen_getDict_shape`: whatever `_get_dict` returns from the regenerated tables — a table entry reached by name, by a variant
selector (`selectDefn_tables`: every selector returns an entry of one of the three tables) or the empty definition — is
well-shaped (`gen_shape`) and at most two groups deep (`gen_depth`). With that, `do_attributes_rec` needs no hypothesis about
definitions any more: `do_attributes_gen_parse` (every class, id, mode, bitfield view and payload) and
`do_attributes_gen_build` (every non-empty keyword set whose flag values are ints or bools) say that nine methods of
`UBXMessage` as written, interpreted together, compute the model's `doAttrs` — ESF-MEAS (SET) aside.
-/
set_option maxRecDepth 10000
namespace Ubx.Py
open Ubx Ubx.Gen.Code

/-- a definition that comes out of one of the three payload tables (or the empty one of an unknown GET message) -/
def InTables (ctx : Ctx) (d : Defn) : Prop :=
  (∃ n, defnByName ctx.get n = .ok d) ∨ (∃ n, defnByName ctx.set n = .ok d) ∨ (∃ n, defnByName ctx.poll n = .ok d) ∨ d = []

theorem inG {ctx : Ctx} {d : Defn} {n : Name} (h : defnByName ctx.get n = .ok d) : InTables ctx d := Or.inl ⟨n, h⟩
theorem inS {ctx : Ctx} {d : Defn} {n : Name} (h : defnByName ctx.set n = .ok d) : InTables ctx d := Or.inr (Or.inl ⟨n, h⟩)
theorem inP {ctx : Ctx} {d : Defn} {n : Name} (h : defnByName ctx.poll n = .ok d) : InTables ctx d := Or.inr (Or.inr (Or.inl ⟨n, h⟩))

theorem selectDefn_tables (ctx : Ctx) (sel : Selector) (msg : Bytes) (mode : Mode) (kw : Kw) (d : Defn)
    (h : selectDefn ctx sel msg mode kw = .ok d) : InTables ctx d := by
  cases sel <;> simp only [selectDefn, bind, Except.bind] at h
  all_goals (repeat' split at h)
  all_goals first
    | cases h
    | exact inG h
    | exact inS h
    | exact inP h

theorem keyToMsg_ok {α : Type} (r : R α) (d : α) (h : keyToMsg r = .ok d) : r = .ok d := by
  cases r with
  | ok a => simpa [keyToMsg] using h
  | error e => cases e <;> simp [keyToMsg] at h

theorem getDict_tables (ctx : Ctx) (cls id : Bytes) (mode : Mode) (kw : Kw) (d : Defn)
    (h : getDict ctx cls id mode kw = .ok d) : InTables ctx d := by
  unfold getDict at h
  have h' := keyToMsg_ok _ d h
  split at h'
  · exact selectDefn_tables ctx _ _ mode kw d h'
  · split at h'
    · cases mode
      · exact inG h'
      · exact inS h'
      · exact inP h'
    · split at h'
      · cases h'; exact Or.inr (Or.inr (Or.inr rfl))
      · cases h'

theorem lookup_mem {β : Type} (k : Name) : ∀ (l : List (Name × β)) (v : β), lookup k l = some v → (k, v) ∈ l := by
  intro l
  induction l with
  | nil => intro v h; cases h
  | cons e es ih =>
    intro v h
    obtain ⟨n, w⟩ := e
    simp only [lookup] at h
    by_cases hk : n = k
    · simp only [hk, ↓reduceIte, Option.some.injEq] at h
      subst hk; subst h; simp
    · simp only [hk, ↓reduceIte] at h
      exact List.mem_cons_of_mem _ (ih v h)

theorem defnByName_mem (tbl : List (Name × Defn)) (n : Name) (d : Defn) (h : defnByName tbl n = .ok d) : (n, d) ∈ tbl := by
  unfold defnByName at h
  cases hl : lookup n tbl with
  | none => rw [hl] at h; cases h
  | some v =>
    rw [hl] at h
    simp only [Except.ok.injEq] at h
    subst h
    exact lookup_mem n tbl v hl

/-- nesting depth of every shipped definition -/
theorem gen_depth : (allDefs Gen.ctx).all (fun e => decide (idepthL e.2.2 ≤ 2)) = true := by decide +kernel

/-- every definition `_get_dict` can return from the shipped tables is well-shaped and at most two groups deep -/
theorem gen_getDict_shape (cls id : Bytes) (mode : Mode) (kw : Kw) (d : Defn) (h : getDict Gen.ctx cls id mode kw = .ok d) :
    shapeOKL d = true ∧ idepthL d ≤ 2 := by
  have hall : ∀ (m : Mode) (n : Name), (m, n, d) ∈ allDefs Gen.ctx → shapeOKL d = true ∧ idepthL d ≤ 2 := by
    intro m n hm
    have h1 := (List.all_eq_true.mp gen_shape) (m, n, d) hm
    have h2 := (List.all_eq_true.mp gen_depth) (m, n, d) hm
    exact ⟨h1, by simpa using h2⟩
  rcases getDict_tables Gen.ctx cls id mode kw d h with ⟨n, hn⟩ | ⟨n, hn⟩ | ⟨n, hn⟩ | rfl
  · exact hall .get n (by
      have := defnByName_mem _ n d hn
      simp only [allDefs, List.mem_append, List.mem_map]
      exact Or.inl (Or.inl ⟨(n, d), this, rfl⟩))
  · exact hall .set n (by
      have := defnByName_mem _ n d hn
      simp only [allDefs, List.mem_append, List.mem_map]
      exact Or.inl (Or.inr ⟨(n, d), this, rfl⟩))
  · exact hall .poll n (by
      have := defnByName_mem _ n d hn
      simp only [allDefs, List.mem_append, List.mem_map]
      exact Or.inr ⟨(n, d), this, rfl⟩)
  · exact ⟨rfl, by simp [idepthL]⟩

/-- **Parse direction, shipped tables, every input.** For every class, id, mode (ESF-MEAS SET aside), bitfield view and payload
    bytes: `_do_attributes` with `_set_attribute`, `_set_attribute_group`, `_set_attribute_single`, `_calc_num_repeats`,
    `_set_attribute_bitfield`, `_set_attribute_bits`, `_set_attribute_cfgval` — all as written, interpreted together with a call
    budget of 7 — leaves exactly the payload, attributes, length and checksum fields of the model's `doAttrs`, or raises its
    exception. (`_get_dict` and `_do_len_checksum` are answered by `getDict` / `lenChecksum` here; their ties are
    `get_dict_gen` and `do_len_checksum_eq`.) -/
theorem do_attributes_gen_parse (cls id : Bytes) (mode : Mode) (bf : Bool) (p : Bytes) (F : Nat)
    (hesf : esfB cls id mode.toNat = false) (p0 : Option Bytes) (lc0 : Option (Bytes × Bytes)) :
    (match doAttrs Gen.ctx cls id mode bf (.payload p) with
     | .ok r => runFn (doHost Gen.ctx cls id mode (.payload p) (recHost (walkCtx Gen.ctx cls id mode bf (.payload p)) cls id mode.toNat F 7)) F
            fn_UBXMessage__do_attributes [.host .self, .host .kwargs] ⟨p0, [], lc0⟩ = (.ok .none, ⟨r.1, r.2.1, some r.2.2⟩)
     | .error e => (runFn (doHost Gen.ctx cls id mode (.payload p) (recHost (walkCtx Gen.ctx cls id mode bf (.payload p)) cls id mode.toNat F 7)) F
            fn_UBXMessage__do_attributes [.host .self, .host .kwargs] ⟨p0, [], lc0⟩).1 = .error (.exc (excName e) 0)) := by
  refine do_attributes_rec Gen.ctx cls id mode (.payload p) bf F 7 (by intro l h; cases h) gen_catchType ?_ hesf ?_ p0 lc0
  · intro defn hgd
    obtain ⟨h1, h2⟩ := gen_getDict_shape cls id mode (.payload p) defn hgd
    refine ⟨h1, by omega, ?_⟩
    intro hp
    simp [walkCtx, kwPayload?] at hp
  · exact gen_cfg_sizes (walkCtx Gen.ctx cls id mode bf (.payload p)) rfl

/-- **Generate direction, shipped tables.** The same for a non-empty set of attribute keywords, provided the keyword
    values given for bit flags are ints or bools (`genOKL`; anything else is refused by the code and is C15's subject). -/
theorem do_attributes_gen_build (cls id : Bytes) (mode : Mode) (bf : Bool) (l : List (AName × PyVal)) (hl : l ≠ []) (F : Nat)
    (hesf : esfB cls id mode.toNat = false)
    (hflags : ∀ defn, getDict Gen.ctx cls id mode (.attrs l) = .ok defn → genOKL (walkCtx Gen.ctx cls id mode bf (.attrs l)) defn)
    (p0 : Option Bytes) (lc0 : Option (Bytes × Bytes)) :
    (match doAttrs Gen.ctx cls id mode bf (.attrs l) with
     | .ok r => runFn (doHost Gen.ctx cls id mode (.attrs l) (recHost (walkCtx Gen.ctx cls id mode bf (.attrs l)) cls id mode.toNat F 7)) F
            fn_UBXMessage__do_attributes [.host .self, .host .kwargs] ⟨p0, [], lc0⟩ = (.ok .none, ⟨r.1, r.2.1, some r.2.2⟩)
     | .error e => (runFn (doHost Gen.ctx cls id mode (.attrs l) (recHost (walkCtx Gen.ctx cls id mode bf (.attrs l)) cls id mode.toNat F 7)) F
            fn_UBXMessage__do_attributes [.host .self, .host .kwargs] ⟨p0, [], lc0⟩).1 = .error (.exc (excName e) 0)) := by
  refine do_attributes_rec Gen.ctx cls id mode (.attrs l) bf F 7 (by intro l' h; cases h; exact hl) gen_catchType ?_ hesf ?_ p0 lc0
  · intro defn hgd
    obtain ⟨h1, h2⟩ := gen_getDict_shape cls id mode (.attrs l) defn hgd
    exact ⟨h1, by omega, fun _ => hflags defn hgd⟩
  · exact gen_cfg_sizes (walkCtx Gen.ctx cls id mode bf (.attrs l)) rfl
end Ubx.Py
