import Ubx.Proofs.Assigns
import Ubx.Model.WF
/-!
# No two payload fields are exposed under one attribute name (C16 ⇒ C02)

For a definition whose exposed base names are pairwise distinct (grammar rule W5, a table obligation), the rendered
names — base name plus the indices of the enclosing repetitions — of *all* assignments the definition prescribes
for *any* value tree are pairwise distinct: whatever the repeat counts and nesting depth.
-/
namespace Ubx

def namesV (bf : Bool) (i : Item) : List Name := if bf then namesOf i else namesOf0 i
def namesVL (bf : Bool) (is : List Item) : List Name := if bf then namesOfL is else namesOf0L is

theorem namesVL_cons (bf : Bool) (i : Item) (is : List Item) : namesVL bf (i :: is) = namesV bf i ++ namesVL bf is := by
  cases bf <;> simp [namesVL, namesV, namesOfL, namesOf0L]

theorem namesV_group (bf : Bool) (n : Name) (cnt : Count) (items : List Item) :
    namesV bf (.group n cnt items) = namesVL bf items := by
  cases bf <;> simp [namesV, namesVL, namesOf, namesOf0]

/-- `n`'s index list extends `pre` -/
def ExtOf (pre : List Nat) (n : AName) : Prop := ∃ s, n.idx = pre ++ s

theorem flagAssigns_names (idx : List Nat) (B : Nat) (flags : List (Name × Ty)) (off : Nat) :
    (flagAssigns idx B flags off).map (fun x => x.1) =
      ((flags.filter (fun f => !isReservedName f.1)).map (fun f => (⟨f.1, idx⟩ : AName))) := by
  induction flags generalizing off with
  | nil => rfl
  | cons f rest ih =>
    obtain ⟨key, keyt⟩ := f
    simp only [flagAssigns, List.filter_cons]
    by_cases hr : isReservedName key = true
    · simp [hr, ih]
    · simp [hr, ih]

theorem distinctNames_append (a b : List Name) (h : distinctNames (a ++ b) = true) :
    distinctNames a = true ∧ distinctNames b = true ∧ ∀ x ∈ a, x ∉ b := by
  induction a with
  | nil => exact ⟨rfl, h, by intro x hx; cases hx⟩
  | cons x xs ih =>
    simp only [List.cons_append, distinctNames, Bool.and_eq_true, Bool.not_eq_true'] at h
    obtain ⟨h1, h2⟩ := h
    obtain ⟨i1, i2, i3⟩ := ih h2
    have hx : x ∉ xs ∧ x ∉ b := by
      have : ¬ (x ∈ xs ++ b) := by
        intro hm
        have : (xs ++ b).contains x = true := by simpa using hm
        rw [this] at h1; cases h1
      simp only [List.mem_append, not_or] at this
      exact this
    refine ⟨?_, i2, ?_⟩
    · simp only [distinctNames, Bool.and_eq_true, Bool.not_eq_true']
      refine ⟨?_, i1⟩
      cases hc : xs.contains x with
      | false => rfl
      | true => exact absurd (by simpa using hc) hx.1
    · intro y hy
      rcases List.mem_cons.mp hy with rfl | hy
      · exact hx.2
      · exact i3 y hy

theorem distinctNames_nodup' (l : List Name) (h : distinctNames l = true) : l.Nodup := by
  induction l with
  | nil => exact List.nodup_nil
  | cons x xs ih =>
    simp only [distinctNames, Bool.and_eq_true, Bool.not_eq_true'] at h
    refine List.nodup_cons.mpr ⟨?_, ih h.2⟩
    intro hm
    have : xs.contains x = true := by simpa using hm
    rw [this] at h; cases h.1

theorem namesV_attr (bf : Bool) (n : Name) (ty : Ty) (sc : Scale) (hn : isHPName n = false) : namesV bf (.attr n ty sc) = [n] := by
  have : (nameLen n ≥ 3 && nameTake n 3 = nmHP) = false := hn
  cases bf <;> simp [namesV, namesOf, namesOf0, this]

mutual
/-- every assignment name of an item has a base among the item's exposed names and an index list extending `idx` -/
theorem assignsItem_names (bf : Bool) (idx : List Nat) (i : Item) (v : VT) (l : List (AName × PyVal)) (hn : noHP i = true)
    (h : assignsItem bf idx i v = .ok l) : ∀ x ∈ l, x.1.base ∈ namesV bf i ∧ ExtOf idx x.1 := by
  match i, v with
  | .attr n ty sc, .leaf b =>
    simp only [noHP, Bool.not_eq_true'] at hn
    simp only [assignsItem] at h
    split at h
    · cases h
    · cases h
      intro x hx
      simp only [List.mem_singleton] at hx
      subst hx
      rw [namesV_attr bf n ty sc hn]
      exact ⟨by simp, ⟨[], by simp⟩⟩
  | .bits n ty flags, .leaf b =>
    simp only [assignsItem] at h
    cases bf with
    | true =>
      simp only [if_true] at h
      cases h
      intro x hx
      have hm : x.1 ∈ (flagAssigns idx (fromLE b) flags 0).map (fun y => y.1) := List.mem_map_of_mem hx
      rw [flagAssigns_names] at hm
      obtain ⟨f, hf, hfx⟩ := List.mem_map.mp hm
      rw [← hfx]
      refine ⟨?_, ⟨[], by simp⟩⟩
      simp only [namesV, if_true, namesOf]
      exact List.mem_map_of_mem hf
    | false =>
      simp only [Bool.false_eq_true, if_false] at h
      split at h
      · cases h
      · cases h
        intro x hx
        simp only [List.mem_singleton] at hx
        subst hx
        exact ⟨by simp [namesV, namesOf0], ⟨[], by simp⟩⟩
  | .group n cnt items, .node reps =>
    simp only [noHP] at hn
    simp only [assignsItem] at h
    rw [namesV_group]
    intro x hx
    obtain ⟨h1, k, _, h2⟩ := assignsReps_names bf idx items reps 1 l hn h x hx
    obtain ⟨s, hs⟩ := h2
    exact ⟨h1, ⟨k :: s, by rw [hs]; simp⟩⟩
  | .attr _ _ _, .node _ => simp [assignsItem] at h
  | .bits _ _ _, .node _ => simp [assignsItem] at h
  | .group _ _ _, .leaf _ => simp [assignsItem] at h
theorem assignsItems_names (bf : Bool) (idx : List Nat) (is : List Item) (vs : List VT) (l : List (AName × PyVal))
    (hn : noHPL is = true) (h : assignsItems bf idx is vs = .ok l) : ∀ x ∈ l, x.1.base ∈ namesVL bf is ∧ ExtOf idx x.1 := by
  match is, vs with
  | [], [] => simp only [assignsItems] at h; cases h; intro x hx; cases hx
  | i :: is', v :: vs' =>
    simp only [noHPL, Bool.and_eq_true] at hn
    simp only [assignsItems] at h
    split at h
    · cases h
    · rename_i l1 h1
      split at h
      · cases h
      · rename_i l2 h2
        cases h
        intro x hx
        rw [namesVL_cons]
        rcases List.mem_append.mp hx with hx | hx
        · obtain ⟨a, b⟩ := assignsItem_names bf idx i v l1 hn.1 h1 x hx
          exact ⟨List.mem_append_left _ a, b⟩
        · obtain ⟨a, b⟩ := assignsItems_names bf idx is' vs' l2 hn.2 h2 x hx
          exact ⟨List.mem_append_right _ a, b⟩
  | [], _ :: _ => simp [assignsItems] at h
  | _ :: _, [] => simp [assignsItems] at h
/-- names of repetition number `k ≥ start` extend `idx ++ [k]` -/
theorem assignsReps_names (bf : Bool) (idx : List Nat) (items : List Item) (reps : List (List VT)) (start : Nat)
    (l : List (AName × PyVal)) (hn : noHPL items = true) (h : assignsReps bf idx items reps start = .ok l) :
    ∀ x ∈ l, x.1.base ∈ namesVL bf items ∧ ∃ k, start ≤ k ∧ ExtOf (idx ++ [k]) x.1 := by
  match reps with
  | [] => simp only [assignsReps] at h; cases h; intro x hx; cases hx
  | r :: rs =>
    simp only [assignsReps] at h
    split at h
    · cases h
    · rename_i l1 h1
      split at h
      · cases h
      · rename_i l2 h2
        cases h
        intro x hx
        rcases List.mem_append.mp hx with hx | hx
        · obtain ⟨a, b⟩ := assignsItems_names bf (idx ++ [start]) items r l1 hn h1 x hx
          exact ⟨a, start, Nat.le_refl _, b⟩
        · obtain ⟨a, k, hk, b⟩ := assignsReps_names bf idx items rs (start + 1) l2 hn h2 x hx
          exact ⟨a, k, by omega, b⟩
end

theorem nodup_map_inj {α β : Type} (f : α → β) (hf : ∀ a b, f a = f b → a = b) (l : List α) (h : l.Nodup) : (l.map f).Nodup := by
  induction l with
  | nil => exact List.nodup_nil
  | cons x xs ih =>
    have hx := List.nodup_cons.mp h
    simp only [List.map_cons]
    refine List.nodup_cons.mpr ⟨?_, ih hx.2⟩
    intro hm
    obtain ⟨y, hy, hxy⟩ := List.mem_map.mp hm
    have := hf _ _ hxy
    subst this
    exact hx.1 hy

theorem ext_disjoint (idx : List Nat) (k k' : Nat) (hne : k ≠ k') (n : AName) (h1 : ExtOf (idx ++ [k]) n) (h2 : ExtOf (idx ++ [k']) n) : False := by
  obtain ⟨s, hs⟩ := h1
  obtain ⟨s', hs'⟩ := h2
  rw [hs] at hs'
  simp only [List.append_assoc, List.append_cancel_left_eq, List.cons_append, List.nil_append] at hs'
  injection hs' with hk _
  exact hne hk

mutual
theorem assignsItem_nodup (bf : Bool) (idx : List Nat) (i : Item) (v : VT) (l : List (AName × PyVal)) (hn : noHP i = true)
    (hd : distinctNames (namesV bf i) = true) (h : assignsItem bf idx i v = .ok l) : (l.map (fun x => x.1)).Nodup := by
  match i, v with
  | .attr n ty sc, .leaf b =>
    simp only [assignsItem] at h
    split at h
    · cases h
    · cases h; simp
  | .bits n ty flags, .leaf b =>
    simp only [assignsItem] at h
    cases bf with
    | true =>
      simp only [if_true] at h
      cases h
      rw [flagAssigns_names]
      simp only [namesV, if_true, namesOf] at hd
      have hnd := distinctNames_nodup' _ hd
      have := nodup_map_inj (fun (b : Name) => (⟨b, idx⟩ : AName)) (fun a b hab => by injection hab) _ hnd
      rw [List.map_map] at this
      exact this
    | false =>
      simp only [Bool.false_eq_true, if_false] at h
      split at h
      · cases h
      · cases h; simp
  | .group n cnt items, .node reps =>
    simp only [noHP] at hn
    simp only [assignsItem] at h
    rw [namesV_group] at hd
    exact assignsReps_nodup bf idx items reps 1 l hn hd h
  | .attr _ _ _, .node _ => simp [assignsItem] at h
  | .bits _ _ _, .node _ => simp [assignsItem] at h
  | .group _ _ _, .leaf _ => simp [assignsItem] at h
theorem assignsItems_nodup (bf : Bool) (idx : List Nat) (is : List Item) (vs : List VT) (l : List (AName × PyVal))
    (hn : noHPL is = true) (hd : distinctNames (namesVL bf is) = true) (h : assignsItems bf idx is vs = .ok l) :
    (l.map (fun x => x.1)).Nodup := by
  match is, vs with
  | [], [] => simp only [assignsItems] at h; cases h; simp
  | i :: is', v :: vs' =>
    simp only [noHPL, Bool.and_eq_true] at hn
    rw [namesVL_cons] at hd
    obtain ⟨d1, d2, d3⟩ := distinctNames_append _ _ hd
    simp only [assignsItems] at h
    split at h
    · cases h
    · rename_i l1 h1
      split at h
      · cases h
      · rename_i l2 h2
        cases h
        rw [List.map_append]
        refine List.nodup_append.mpr ⟨assignsItem_nodup bf idx i v l1 hn.1 d1 h1, assignsItems_nodup bf idx is' vs' l2 hn.2 d2 h2, ?_⟩
        intro a ha b hb hab
        obtain ⟨x, hx, rfl⟩ := List.mem_map.mp ha
        obtain ⟨y, hy, rfl⟩ := List.mem_map.mp hb
        have hxb := (assignsItem_names bf idx i v l1 hn.1 h1 x hx).1
        have hyb := (assignsItems_names bf idx is' vs' l2 hn.2 h2 y hy).1
        rw [hab] at hxb
        exact d3 _ hxb hyb
  | [], _ :: _ => simp [assignsItems] at h
  | _ :: _, [] => simp [assignsItems] at h
theorem assignsReps_nodup (bf : Bool) (idx : List Nat) (items : List Item) (reps : List (List VT)) (start : Nat)
    (l : List (AName × PyVal)) (hn : noHPL items = true) (hd : distinctNames (namesVL bf items) = true)
    (h : assignsReps bf idx items reps start = .ok l) : (l.map (fun x => x.1)).Nodup := by
  match reps with
  | [] => simp only [assignsReps] at h; cases h; simp
  | r :: rs =>
    simp only [assignsReps] at h
    split at h
    · cases h
    · rename_i l1 h1
      split at h
      · cases h
      · rename_i l2 h2
        cases h
        rw [List.map_append]
        refine List.nodup_append.mpr ⟨assignsItems_nodup bf (idx ++ [start]) items r l1 hn hd h1,
          assignsReps_nodup bf idx items rs (start + 1) l2 hn hd h2, ?_⟩
        intro a ha b hb hab
        obtain ⟨x, hx, rfl⟩ := List.mem_map.mp ha
        obtain ⟨y, hy, rfl⟩ := List.mem_map.mp hb
        have e1 := (assignsItems_names bf (idx ++ [start]) items r l1 hn h1 x hx).2
        obtain ⟨_, k, hk, e2⟩ := assignsReps_names bf idx items rs (start + 1) l2 hn h2 y hy
        rw [← hab] at e2
        exact ext_disjoint idx start k (by omega) x.1 e1 e2
end

/-- **C16 ⇒ C02**: for a definition whose exposed base names are pairwise distinct (W5), no two of the assignments it
    prescribes — for any value tree, any repeat counts, any nesting — go to the same attribute name -/
theorem wf_assign_names_nodup (bf : Bool) (d : List Item) (vts : List VT) (l : List (AName × PyVal))
    (hn : noHPL d = true) (hd : distinctNames (namesVL bf d) = true) (h : assignsItems bf [] d vts = .ok l) :
    (l.map (fun x => x.1)).Nodup :=
  assignsItems_nodup bf [] d vts l hn hd h

end Ubx
