import Ubx.Model.Types
import Ubx.Model.PyNames
import Ubx.Model.PyLiteAttr
/-!
# PyLite — a deep embedding of the Python fragment the pyubx2 control code is written in

`tools/translate_code.py` serialises the `ast` of selected functions of the working tree into values of
`E` / `S` (file `Generated/Code.lean`, rewritten on every run). This file gives those syntax trees a meaning:
a big-step interpreter over Python values `V`, with everything that is not plain byte/integer computation
(module-level tables, other functions, `self`, the byte stream) delegated to a `Host`.

The theorems in `Proofs/Code*.lean` then state, for every translated function, that interpreting *the code
that is in the working tree now* gives exactly the hand-written model function used by the property theorems
— for all arguments. That closes the gap between "the model" and "the code" for those functions by proof
instead of by sampling.

Unsupported operand combinations never get a made-up value: they raise the distinguished exception
`xUnsupported`, which no model function produces, so an equivalence theorem cannot hold by accident.
-/
namespace Ubx.Py

inductive BinOp where
  | add | sub | mul | floordiv | mod | band | bor | bxor | shl | shr
deriving DecidableEq, Repr, Inhabited

inductive CmpOp where
  | eq | ne | lt | le | gt | ge | in_ | notIn | is_ | isNot
deriving DecidableEq, Repr, Inhabited

/-- expressions -/
inductive E where
  | none | tt | ff
  | int (i : Int)
  | bytes (b : Bytes)
  | str (s : Name)
  | ostr                                              -- f-string / message text: content never inspected
  | var (x : Name)                                    -- local variable (a name the function assigns somewhere)
  | glob (x : Name)                                   -- module-level name (never assigned in the function)
  | attr (e : E) (a : Name)
  | bin (op : BinOp) (a b : E)
  | inv (a : E)
  | neg (a : E)
  | not_ (a : E)
  | and_ (a b : E)
  | or_ (a b : E)
  | cmp (op : CmpOp) (a b : E)
  | cmp2 (op1 : CmpOp) (a b : E) (op2 : CmpOp) (c : E)  -- `a op1 b op2 c` (b evaluated once)
  | index (e i : E)
  | slice (e lo hi : E)                               -- omitted bound = `none`
  | tuple (es : List E)
  | ife (c a b : E)                                   -- `a if c else b`
  | call (f : Name) (args : List E) (kwn : List Name) (kwv : List E)      -- `f(args, k=v…)`, `f` a dotted global name
  | mcall (obj : E) (m : Name) (args : List E) (kwn : List Name) (kwv : List E)  -- `obj.m(args, k=v…)`
deriving Repr, Inhabited

/-- statements -/
inductive S where
  | expr (e : E)
  | assign (x : Name) (e : E)
  | assignT (xs : List Name) (e : E)                  -- `(a, b) = e`
  | aug (x : Name) (op : BinOp) (e : E)
  | setAttr (obj : E) (a : Name) (e : E)              -- `obj.a = e`
  | ret (e : E)
  | raise (e : E)                                     -- `raise e` / `raise e from …`
  | if_ (c : E) (t f : List S)
  | for_ (x : Name) (it : E) (body : List S)
  | while_ (c : E) (body : List S)
  | try_ (body : List S) (h1n : List Name) (h1v : Name) (h1 : List S) (h2n : List Name) (h2v : Name) (h2 : List S)
      -- up to two handlers; handler names `[]` = absent; bound variable `0` = none
  | continue_ | break_ | pass
deriving Repr, Inhabited

/-- Python values. `ω` is the type of objects owned by the host (tables, messages, `self`, …). -/
inductive V (ω : Type) where
  | none
  | bool (b : Bool)
  | int (i : Int)
  | bytes (b : Bytes)
  | str (s : Name)
  | ostr
  | hex (b : Bytes)                                   -- result of `bytes.hex()`
  | tuple (l : List (V ω))
  | py (v : PyVal)                                    -- any other Python value (float, text, list, object) of a keyword argument
  | exc (cls : Name) (arg : Nat)                      -- exception instance: class name and an opaque tag
  | host (o : ω)
deriving Repr, Inhabited

/-- module-level constants (emitted by the translator from the live module objects) -/
inductive G where
  | none
  | bool (b : Bool)
  | int (i : Int)
  | bytes (b : Bytes)
  | str (s : Name)
  | tuple (l : List G)
deriving Repr, Inhabited

variable {ω σ : Type}

mutual
  def G.toV : G → V ω
    | .none => .none
    | .bool b => .bool b
    | .int i => .int i
    | .bytes b => .bytes b
    | .str s => .str s
    | .tuple l => .tuple (G.toVs l)
  def G.toVs : List G → List (V ω)
    | [] => []
    | g :: gs => g.toV :: G.toVs gs
end

def globLookup (gs : List (Name × G)) (x : Name) : Option (V ω) :=
  match gs with
  | [] => Option.none
  | (n, g) :: rest => if n = x then some g.toV else globLookup rest x

/-- embed a keyword-argument value -/
def V.ofPy : PyVal → V ω
  | .int i => .int i
  | .bool b => .bool b
  | .bytes b => .bytes b
  | .none => .none
  | v => .py v

abbrev X (ω : Type) (α : Type) := Except (V ω) α

def raiseX {α : Type} (cls : Name) : X ω α := .error (.exc cls 0)

structure St (ω σ : Type) where
  vars : List (Name × V ω)
  h : σ

def getVar (vars : List (Name × V ω)) (x : Name) : Option (V ω) :=
  match vars with
  | [] => Option.none
  | (n, v) :: rest => if n = x then some v else getVar rest x

def setVar (vars : List (Name × V ω)) (x : Name) (v : V ω) : List (Name × V ω) :=
  match vars with
  | [] => [(x, v)]
  | (n, w) :: rest => if n = x then (x, v) :: rest else (n, w) :: setVar rest x v

/-- everything outside the fragment -/
structure Host (ω σ : Type) where
  glob : Name → Option (V ω)
  call : Name → List (V ω) → List (Name × V ω) → σ → X ω (V ω) × σ
  mcall : V ω → Name → List (V ω) → List (Name × V ω) → σ → X ω (V ω) × σ
  attr : V ω → Name → σ → X ω (V ω)
  setattr : V ω → Name → V ω → σ → X ω Unit × σ
  index : ω → V ω → σ → X ω (V ω)
  contains : ω → V ω → σ → X ω Bool
  truthy : ω → Bool
  eqHost : ω → V ω → Bool

/-! ### pure operations -/

def asInt? : V ω → Option Int
  | .int i => some i
  | .bool b => some (if b then 1 else 0)
  | _ => Option.none

/-- truthiness -/
def truthy (H : Host ω σ) : V ω → X ω Bool
  | .none => .ok false
  | .bool b => .ok b
  | .int i => .ok (i != 0)
  | .bytes b => .ok (!b.isEmpty)
  | .str s => .ok (s != 0)
  | .ostr => .ok true
  | .hex b => .ok (!b.isEmpty)
  | .tuple l => .ok (!l.isEmpty)
  | .py _ => raiseX xUnsupported
  | .exc _ _ => .ok true
  | .host o => .ok (H.truthy o)

/-- `a == b` on the modelled values (`none` = a combination the fragment does not define) -/
def pyEq (H : Host ω σ) : V ω → V ω → Option Bool
  | .none, .none => some true
  | .bytes a, .bytes b => some (a == b)
  | .str a, .str b => some (a == b)
  | .host o, v => some (H.eqHost o v)
  | v, .host o => some (H.eqHost o v)
  | .py (.float f), b =>
      match asInt? b with
      | some i => some (F64.isFinite f && (F64.toQ f).num == i.natAbs * (F64.toQ f).den
                         && ((F64.toQ f).neg == decide (i < 0) || (F64.toQ f).num == 0))   -- exact: float == int
      | Option.none => Option.none
  | .py (.str _), .int _ => some false | .py (.str _), .bool _ => some false
  | .py (.ints _), .int _ => some false | .py (.ints _), .bool _ => some false
  | .py .other, .int _ => some false | .py .other, .bool _ => some false
  | .bytes _, .int _ => some false | .bytes _, .bool _ => some false
  | .int _, .bytes _ => some false | .bool _, .bytes _ => some false
  | .none, .int _ => some false | .none, .bool _ => some false | .none, .bytes _ => some false
  | .int _, .none => some false | .bool _, .none => some false | .bytes _, .none => some false
  | .none, .tuple _ => some false | .tuple _, .none => some false
  | .bytes _, .str _ => some false | .str _, .bytes _ => some false
  | a, b =>
      match asInt? a, asInt? b with
      | some i, some j => some (i == j)
      | _, _ => Option.none

def memTuple (H : Host ω σ) (x : V ω) : List (V ω) → Option Bool
  | [] => some false
  | y :: ys =>
    match pyEq H x y with
    | some true => some true
    | some false => memTuple H x ys
    | Option.none => Option.none

def isNone : V ω → Bool
  | .none => true
  | _ => false

/-- Python slice bounds (`None` = omitted) on a sequence of length `n` -/
def normBound (n : Nat) (dflt : Nat) : V ω → Option Nat
  | .none => some dflt
  | v =>
    match asInt? v with
    | some x =>
      let nn : Int := n
      some (if x < 0 then (if x + nn < 0 then 0 else x + nn) else if x > nn then nn else x).toNat
    | Option.none => Option.none

/-- `~x` -/
def intInv (x : Int) : Int := -x - 1

/-- Python `a & b` on unbounded two's-complement integers -/
def intAnd (a b : Int) : Int :=
  if 0 ≤ a then
    if 0 ≤ b then ((a.toNat &&& b.toNat : Nat) : Int)
    else ((a.toNat - (a.toNat &&& (intInv b).toNat) : Nat) : Int)                    -- a & ~m = a - (a & m)
  else
    if 0 ≤ b then ((b.toNat - (b.toNat &&& (intInv a).toNat) : Nat) : Int)
    else intInv (((intInv a).toNat ||| (intInv b).toNat : Nat) : Int)               -- ~m & ~n = ~(m | n)

def intOr (a b : Int) : Int := intInv (intAnd (intInv a) (intInv b))

def intXor (a b : Int) : Int :=
  if 0 ≤ a then
    if 0 ≤ b then ((a.toNat ^^^ b.toNat : Nat) : Int)
    else intInv ((a.toNat ^^^ (intInv b).toNat : Nat) : Int)
  else
    if 0 ≤ b then intInv (((intInv a).toNat ^^^ b.toNat : Nat) : Int)
    else (((intInv a).toNat ^^^ (intInv b).toNat : Nat) : Int)

def binInt (op : BinOp) (a b : Int) : X ω (V ω) :=
  match op with
  | .add => .ok (.int (a + b))
  | .sub => .ok (.int (a - b))
  | .mul => .ok (.int (a * b))
  | .floordiv => if b = 0 then raiseX xZeroDivisionError else .ok (.int (Int.fdiv a b))
  | .mod => if b = 0 then raiseX xZeroDivisionError else .ok (.int (Int.fmod a b))
  | .band => .ok (.int (intAnd a b))
  | .bor => .ok (.int (intOr a b))
  | .bxor => .ok (.int (intXor a b))
  | .shl => if b < 0 then raiseX xValueError else .ok (.int (a * 2 ^ b.toNat))
  | .shr => if b < 0 then raiseX xValueError else .ok (.int (Int.fdiv a (2 ^ b.toNat)))

def binOp (op : BinOp) (a b : V ω) : X ω (V ω) :=
  match op, a, b with
  | .add, .bytes x, .bytes y => .ok (.bytes (x ++ y))
  | .add, .tuple x, .tuple y => .ok (.tuple (x ++ y))
  | .add, .ostr, .ostr => .ok .ostr                    -- two message texts joined: content still not inspected
  | op, a, b =>
    match asInt? a, asInt? b with
    | some i, some j => binInt op i j
    | _, _ =>
      match a, b with
      | .bytes _, .none => raiseX xTypeError
      | .none, .bytes _ => raiseX xTypeError
      | .bytes _, .int _ => (match op with | .mul => raiseX xUnsupported | _ => raiseX xTypeError)
      | .int _, .bytes _ => (match op with | .mul => raiseX xUnsupported | _ => raiseX xTypeError)
      | .none, .int _ => raiseX xTypeError
      | .int _, .none => raiseX xTypeError
      | _, _ => raiseX xUnsupported

def cmpOrd (op : CmpOp) (a b : V ω) : X ω Bool :=
  match asInt? a, asInt? b with
  | some i, some j =>
    match op with
    | .lt => .ok (decide (i < j)) | .le => .ok (decide (i ≤ j))
    | .gt => .ok (decide (i > j)) | .ge => .ok (decide (i ≥ j))
    | _ => raiseX xUnsupported
  | _, _ => raiseX xUnsupported

def cmpOp (H : Host ω σ) (h : σ) (op : CmpOp) (a b : V ω) : X ω Bool :=
  match op with
  | .eq => (match pyEq H a b with | some r => .ok r | Option.none => raiseX xUnsupported)
  | .ne => (match pyEq H a b with | some r => .ok (!r) | Option.none => raiseX xUnsupported)
  | .is_ => (match b with | .none => .ok (isNone a) | _ => raiseX xUnsupported)
  | .isNot => (match b with | .none => .ok (!isNone a) | _ => raiseX xUnsupported)
  | .in_ =>
    (match b with
     | .tuple l => (match memTuple H a l with | some r => .ok r | Option.none => raiseX xUnsupported)
     | .host o => H.contains o a h
     | _ => raiseX xUnsupported)
  | .notIn =>
    (match b with
     | .tuple l => (match memTuple H a l with | some r => .ok (!r) | Option.none => raiseX xUnsupported)
     | .host o => (match H.contains o a h with | .ok r => .ok (!r) | .error e => .error e)
     | _ => raiseX xUnsupported)
  | op => cmpOrd op a b

def indexOp (H : Host ω σ) (h : σ) (a i : V ω) : X ω (V ω) :=
  match a with
  | .bytes b =>
    (match asInt? i with
     | some x =>
       let n : Int := b.length
       let k := if x < 0 then x + n else x
       if 0 ≤ k ∧ k < n then .ok (.int (b.getD k.toNat 0).toNat) else raiseX xIndexError
     | Option.none => raiseX xUnsupported)
  | .tuple l =>
    (match asInt? i with
     | some x =>
       let n : Int := l.length
       let k := if x < 0 then x + n else x
       if 0 ≤ k ∧ k < n then (match l[k.toNat]? with | some v => .ok v | Option.none => raiseX xIndexError)
       else raiseX xIndexError
     | Option.none => raiseX xUnsupported)
  | .host o => H.index o i h
  | .none => raiseX xTypeError
  | .int _ => raiseX xTypeError
  | _ => raiseX xUnsupported

/-- slice bound: `None` (omitted) is the default, otherwise an integer -/
def boundOf (dflt : Int) : V ω → Option Int
  | .none => some dflt
  | v => asInt? v

/-- `a[lo:hi]` on bytes: Python's clamping of negative / too large bounds is `pySlice` -/
def sliceOp (a lo hi : V ω) : X ω (V ω) :=
  match a with
  | .bytes b =>
    (match boundOf 0 lo, boundOf (b.length : Int) hi with
     | some l, some u => .ok (.bytes (pySlice b l u))
     | _, _ => raiseX xUnsupported)
  | .str s =>
    -- a prefix `s[0:k]` of a text value (identifiers are carried as numbers; `nameTake` is their first `k` bytes)
    (match lo, hi with
     | .int 0, .int k => if 0 ≤ k then .ok (.str (nameTake s k.toNat)) else raiseX xUnsupported
     | .int k, .none => if 0 ≤ k then .ok (.str (nameDrop s k.toNat)) else raiseX xUnsupported
     | _, _ => raiseX xUnsupported)
  | .none => raiseX xTypeError
  | .int _ => raiseX xTypeError
  | _ => raiseX xUnsupported

/-- slicing a host object is the host's `index` with the pair of bounds as the key -/
def sliceOpH (H : Host ω σ) (h : σ) (a lo hi : V ω) : X ω (V ω) :=
  match a with
  | .host o => H.index o (.tuple [lo, hi]) h
  | a => sliceOp a lo hi

/-- `bytes(iterable of ints)` -/
def bytesOfInts : List (V ω) → X ω Bytes
  | [] => .ok []
  | v :: vs =>
    match asInt? v with
    | some i =>
      if 0 ≤ i ∧ i < 256 then
        (match bytesOfInts vs with | .ok r => .ok (UInt8.ofNat i.toNat :: r) | .error e => .error e)
      else raiseX xValueError
    | Option.none => raiseX xTypeError

def kwArg (kw : List (Name × V ω)) (n : Name) : Option (V ω) := getVar kw n

/-- built-in functions of the fragment; `none` = not a builtin (ask the host) -/
def builtin (f : Name) (args : List (V ω)) (kw : List (Name × V ω)) : Option (X ω (V ω)) :=
  if f = fLen then
    match args, kw with
    | [.bytes b], [] => some (.ok (.int b.length))
    | [.tuple l], [] => some (.ok (.int l.length))
    | [.py (.str s)], [] => some (.ok (.int s.length))   -- modelled text is ASCII in this use
    | [.py (.ints l)], [] => some (.ok (.int l.length))
    | [.none], [] => some (raiseX xTypeError)
    | [.int _], [] => some (raiseX xTypeError)
    | [.bool _], [] => some (raiseX xTypeError)
    | [.py (.float _)], [] => some (raiseX xTypeError)
    | [.host _], [] => Option.none                        -- a host object (a dictionary, …): the host knows its size
    | _, _ => some (raiseX xUnsupported)
  else if f = fBytes then
    match args, kw with
    | [.tuple l], [] => some (match bytesOfInts l with | .ok b => .ok (.bytes b) | .error e => .error e)
    | [.bytes b], [] => some (.ok (.bytes b))            -- `bytes(bytearray)`: bytearrays are carried as bytes
    | _, _ => some (raiseX xUnsupported)
  else if f = fIntFromBytes then
    -- int.from_bytes(b, "little", signed=False)
    let order := match args with | [_, o] => some o | [_] => kwArg kw kByteorder | _ => Option.none
    let signed := match kwArg kw kSigned with | some (.bool s) => some s | Option.none => some false | _ => Option.none
    match args, order, signed with
    | (.bytes b) :: _, some (.str o), some sg =>
      if o = sLittle then some (.ok (.int (if sg then fromLESigned b else (fromLE b : Int))))
      else if o = sBig ∧ sg = false then some (.ok (.int (fromBE b : Int)))
      else some (raiseX xUnsupported)
    | _, _, _ => some (raiseX xUnsupported)
  else if f = fIsinstance then
    -- `isinstance(x, T)` for a built-in type given by name
    match args, kw with
    | [v, .str t], [] =>
      if t = tStr then some (.ok (.bool (match v with | .str _ => true | .ostr => true | .py (.str _) => true | _ => false)))
      else if t = tInt then some (.ok (.bool (match v with | .int _ => true | .bool _ => true | _ => false)))
      else if t = tBytes then some (.ok (.bool (match v with | .bytes _ => true | _ => false)))
      else if t = tTuple then
        -- `.tuple` stands for a Python tuple here; host objects answer for themselves
        (match v with
         | .tuple _ => some (.ok (.bool true))
         | .host _ => Option.none
         | .py _ => some (raiseX xUnsupported)
         | _ => some (.ok (.bool false)))
      else if t = tList then
        (match v with
         | .host _ => Option.none
         | .py (.ints _) => some (.ok (.bool true))
         | .tuple _ => some (raiseX xUnsupported)       -- some hosts carry lists as tuples: never guessed
         | .py .other => some (raiseX xUnsupported)
         | _ => some (.ok (.bool false)))
      else
        -- any other class, asked of a host object: the host knows (`isinstance(datastream, socket)`)
        (match v with
         | .host _ => Option.none
         | _ => some (raiseX xUnsupported))
    | [_, .host _], [] => Option.none           -- a type (or tuple of types) that is a host object: the host decides
    | _, _ => some (raiseX xUnsupported)
  else if f = fInt then
    match args, kw with
    | [.hex b, .int 16], [] => some (if b.isEmpty then raiseX xValueError else .ok (.int (fromBE b : Int)))
    | [.int i], [] => some (.ok (.int i))
    | [.bool b], [] => some (.ok (.int (if b then 1 else 0)))
    | [.py _], [] => Option.none                          -- `int(float)`, `int(text)`: the host's arithmetic
    | [.host _], [] => Option.none
    | _, _ => some (raiseX xUnsupported)
  else if f = fSetLast then
    -- `x[-1] = v` on a list carried as a tuple and rebound (the translator checks that no alias of the list is used)
    match args, kw with
    | [.tuple l, v], [] => some (if l.isEmpty then raiseX xIndexError else .ok (.tuple (l.dropLast ++ [v])))
    | _, _ => some (raiseX xUnsupported)
  else if f = fDropLast then
    -- `x.pop()` (value discarded) on such a list
    match args, kw with
    | [.tuple l], [] => some (if l.isEmpty then raiseX xIndexError else .ok (.tuple l.dropLast))
    | _, _ => some (raiseX xUnsupported)
  else if f = xEOFError ∨ f = xTypeError ∨ f = xValueError ∨ f = xKeyError ∨ f = xStopIteration
          ∨ f = xUBXParseError ∨ f = xUBXMessageError ∨ f = xUBXTypeError ∨ f = xUBXStreamError then
    some (.ok (.exc f 0))          -- exception constructors: the arguments (message texts) are not modelled
  else Option.none

/-- built-in methods on modelled values -/
def builtinMethod (obj : V ω) (m : Name) (args : List (V ω)) (kw : List (Name × V ω)) : Option (X ω (V ω)) :=
  match obj with
  | .bytes b => if m = mHex ∧ args.isEmpty ∧ kw.isEmpty then some (.ok (.hex b)) else Option.none
  | _ => Option.none

/-! ### the interpreter -/

inductive Flow (ω : Type) where
  | next
  | ret (v : V ω)
  | brk
  | cont

/-- `for` loop driver: the body is a closure, so the interpreter stays structurally recursive -/
def forLoop (body : V ω → St ω σ → X ω (Flow ω) × St ω σ) : List (V ω) → St ω σ → X ω (Flow ω) × St ω σ
  | [], st => (.ok .next, st)
  | v :: vs, st =>
    match body v st with
    | (.error e, st') => (.error e, st')
    | (.ok .next, st') => forLoop body vs st'
    | (.ok .cont, st') => forLoop body vs st'
    | (.ok .brk, st') => (.ok .next, st')
    | (.ok (.ret r), st') => (.ok (.ret r), st')

/-- `while` loop driver with an iteration budget; running out of budget raises `xFuel` -/
def whileLoop (cond : St ω σ → X ω Bool × St ω σ) (body : St ω σ → X ω (Flow ω) × St ω σ) :
    Nat → St ω σ → X ω (Flow ω) × St ω σ
  | 0, st => (raiseX xFuel, st)
  | f+1, st =>
    match cond st with
    | (.error e, st') => (.error e, st')
    | (.ok false, st') => (.ok .next, st')
    | (.ok true, st') =>
      match body st' with
      | (.error e, st'') => (.error e, st'')
      | (.ok .next, st'') => whileLoop cond body f st''
      | (.ok .cont, st'') => whileLoop cond body f st''
      | (.ok .brk, st'') => (.ok .next, st'')
      | (.ok (.ret r), st'') => (.ok (.ret r), st'')

def iterOf : V ω → Option (List (V ω))
  | .bytes b => some (b.map (fun x => .int x.toNat))
  | .tuple l => some l
  | _ => Option.none

def bindT (xs : List Name) (vs : List (V ω)) (vars : List (Name × V ω)) : Option (List (Name × V ω)) :=
  match xs, vs with
  | [], [] => some vars
  | x :: xs, v :: vs => bindT xs vs (setVar vars x v)
  | _, _ => Option.none

def excCls : V ω → Name
  | .exc c _ => c
  | _ => 0

mutual
  def evalE (H : Host ω σ) (fuel : Nat) : E → St ω σ → X ω (V ω) × St ω σ
    | .none, st => (.ok .none, st)
    | .tt, st => (.ok (.bool true), st)
    | .ff, st => (.ok (.bool false), st)
    | .int i, st => (.ok (.int i), st)
    | .bytes b, st => (.ok (.bytes b), st)
    | .str s, st => (.ok (.str s), st)
    | .ostr, st => (.ok .ostr, st)
    | .var x, st =>
      match getVar st.vars x with
      | some v => (.ok v, st)
      | Option.none => (raiseX xUnboundLocalError, st)
    | .glob x, st =>
      match H.glob x with
      | some v => (.ok v, st)
      | Option.none => (raiseX xNameError, st)
    | .attr e a, st =>
      match evalE H fuel e st with
      | (.error x, st') => (.error x, st')
      | (.ok v, st') => (H.attr v a st'.h, st')
    | .bin op a b, st =>
      match evalE H fuel a st with
      | (.error x, st') => (.error x, st')
      | (.ok va, st') =>
        match evalE H fuel b st' with
        | (.error x, st'') => (.error x, st'')
        | (.ok vb, st'') => (binOp op va vb, st'')
    | .inv a, st =>
      match evalE H fuel a st with
      | (.error x, st') => (.error x, st')
      | (.ok v, st') => ((match asInt? v with | some i => .ok (.int (intInv i)) | Option.none => raiseX xUnsupported), st')
    | .neg a, st =>
      match evalE H fuel a st with
      | (.error x, st') => (.error x, st')
      | (.ok v, st') => ((match asInt? v with | some i => .ok (.int (-i)) | Option.none => raiseX xUnsupported), st')
    | .not_ a, st =>
      match evalE H fuel a st with
      | (.error x, st') => (.error x, st')
      | (.ok v, st') => ((match truthy H v with | .ok b => .ok (.bool (!b)) | .error e => .error e), st')
    | .and_ a b, st =>
      match evalE H fuel a st with
      | (.error x, st') => (.error x, st')
      | (.ok va, st') =>
        match truthy H va with
        | .error e => (.error e, st')
        | .ok false => (.ok va, st')
        | .ok true => evalE H fuel b st'
    | .or_ a b, st =>
      match evalE H fuel a st with
      | (.error x, st') => (.error x, st')
      | (.ok va, st') =>
        match truthy H va with
        | .error e => (.error e, st')
        | .ok true => (.ok va, st')
        | .ok false => evalE H fuel b st'
    | .cmp op a b, st =>
      match evalE H fuel a st with
      | (.error x, st') => (.error x, st')
      | (.ok va, st') =>
        match evalE H fuel b st' with
        | (.error x, st'') => (.error x, st'')
        | (.ok vb, st'') => ((match cmpOp H st''.h op va vb with | .ok r => .ok (.bool r) | .error e => .error e), st'')
    | .cmp2 op1 a b op2 c, st =>
      match evalE H fuel a st with
      | (.error x, st') => (.error x, st')
      | (.ok va, st') =>
        match evalE H fuel b st' with
        | (.error x, st'') => (.error x, st'')
        | (.ok vb, st'') =>
          match cmpOp H st''.h op1 va vb with
          | .error e => (.error e, st'')
          | .ok false => (.ok (.bool false), st'')
          | .ok true =>
            match evalE H fuel c st'' with
            | (.error x, st3) => (.error x, st3)
            | (.ok vc, st3) => ((match cmpOp H st3.h op2 vb vc with | .ok r => .ok (.bool r) | .error e => .error e), st3)
    | .index e i, st =>
      match evalE H fuel e st with
      | (.error x, st') => (.error x, st')
      | (.ok ve, st') =>
        match evalE H fuel i st' with
        | (.error x, st'') => (.error x, st'')
        | (.ok vi, st'') => (indexOp H st''.h ve vi, st'')
    | .slice e lo hi, st =>
      match evalE H fuel e st with
      | (.error x, st') => (.error x, st')
      | (.ok ve, st') =>
        match evalE H fuel lo st' with
        | (.error x, st'') => (.error x, st'')
        | (.ok vl, st'') =>
          match evalE H fuel hi st'' with
          | (.error x, st3) => (.error x, st3)
          | (.ok vh, st3) => (sliceOpH H st3.h ve vl vh, st3)
    | .tuple es, st =>
      match evalEs H fuel es st with
      | (.error x, st') => (.error x, st')
      | (.ok vs, st') => (.ok (.tuple vs), st')
    | .ife c a b, st =>
      match evalE H fuel c st with
      | (.error x, st') => (.error x, st')
      | (.ok vc, st') =>
        match truthy H vc with
        | .error e => (.error e, st')
        | .ok true => evalE H fuel a st'
        | .ok false => evalE H fuel b st'
    | .call f args kwn kwv, st =>
      match evalEs H fuel args st with
      | (.error x, st') => (.error x, st')
      | (.ok vs, st') =>
        match evalEs H fuel kwv st' with
        | (.error x, st'') => (.error x, st'')
        | (.ok kvs, st'') =>
          match builtin f vs (kwn.zip kvs) with
          | some r => (r, st'')
          | Option.none =>
            match H.call f vs (kwn.zip kvs) st''.h with
            | (r, h') => (r, { st'' with h := h' })
    | .mcall obj m args kwn kwv, st =>
      match evalE H fuel obj st with
      | (.error x, st0) => (.error x, st0)
      | (.ok vo, st0) =>
        match evalEs H fuel args st0 with
        | (.error x, st') => (.error x, st')
        | (.ok vs, st') =>
          match evalEs H fuel kwv st' with
          | (.error x, st'') => (.error x, st'')
          | (.ok kvs, st'') =>
            match builtinMethod vo m vs (kwn.zip kvs) with
            | some r => (r, st'')
            | Option.none =>
              match H.mcall vo m vs (kwn.zip kvs) st''.h with
              | (r, h') => (r, { st'' with h := h' })

  def evalEs (H : Host ω σ) (fuel : Nat) : List E → St ω σ → X ω (List (V ω)) × St ω σ
    | [], st => (.ok [], st)
    | e :: es, st =>
      match evalE H fuel e st with
      | (.error x, st') => (.error x, st')
      | (.ok v, st') =>
        match evalEs H fuel es st' with
        | (.error x, st'') => (.error x, st'')
        | (.ok vs, st'') => (.ok (v :: vs), st'')
end

def evalCond (H : Host ω σ) (fuel : Nat) (c : E) (st : St ω σ) : X ω Bool × St ω σ :=
  match evalE H fuel c st with
  | (.error x, st') => (.error x, st')
  | (.ok v, st') => (truthy H v, st')

mutual
  def execS (H : Host ω σ) (fuel : Nat) : S → St ω σ → X ω (Flow ω) × St ω σ
    | .expr e, st =>
      match evalE H fuel e st with
      | (.error x, st') => (.error x, st')
      | (.ok _, st') => (.ok .next, st')
    | .assign x e, st =>
      match evalE H fuel e st with
      | (.error err, st') => (.error err, st')
      | (.ok v, st') => (.ok .next, { st' with vars := setVar st'.vars x v })
    | .assignT xs e, st =>
      match evalE H fuel e st with
      | (.error err, st') => (.error err, st')
      | (.ok (.tuple vs), st') =>
        (match bindT xs vs st'.vars with
         | some vars => (.ok .next, { st' with vars := vars })
         | Option.none => (raiseX xValueError, st'))
      | (.ok _, st') => (raiseX xUnsupported, st')
    | .aug x op e, st =>
      match getVar st.vars x with
      | Option.none => (raiseX xUnboundLocalError, st)
      | some cur =>
        match evalE H fuel e st with
        | (.error err, st') => (.error err, st')
        | (.ok v, st') =>
          match binOp op cur v with
          | .error err => (.error err, st')
          | .ok r => (.ok .next, { st' with vars := setVar st'.vars x r })
    | .setAttr obj a e, st =>
      match evalE H fuel obj st with
      | (.error err, st') => (.error err, st')
      | (.ok vo, st') =>
        match evalE H fuel e st' with
        | (.error err, st'') => (.error err, st'')
        | (.ok v, st'') =>
          match H.setattr vo a v st''.h with
          | (.error err, h') => (.error err, { st'' with h := h' })
          | (.ok _, h') => (.ok .next, { st'' with h := h' })
    | .ret e, st =>
      match evalE H fuel e st with
      | (.error err, st') => (.error err, st')
      | (.ok v, st') => (.ok (.ret v), st')
    | .raise e, st =>
      match evalE H fuel e st with
      | (.error err, st') => (.error err, st')
      | (.ok v, st') => (.error v, st')
    | .if_ c t f, st =>
      match evalCond H fuel c st with
      | (.error err, st') => (.error err, st')
      | (.ok true, st') => execB H fuel t st'
      | (.ok false, st') => execB H fuel f st'
    | .for_ x it body, st =>
      match evalE H fuel it st with
      | (.error err, st') => (.error err, st')
      | (.ok v, st') =>
        match iterOf v with
        | Option.none =>
          (match v with
           | .host _ =>
             -- a host object is iterated through its `__iter__`, which must hand back the items as a tuple
             (match H.mcall v mIter [] [] st'.h with
              | (.ok (.tuple l), h') =>
                forLoop (fun v s => execB H fuel body { s with vars := setVar s.vars x v }) l { st' with h := h' }
              | (.ok _, h') => (raiseX xUnsupported, { st' with h := h' })
              | (.error e, h') => (.error e, { st' with h := h' }))
           | _ => (raiseX xUnsupported, st'))
        | some l => forLoop (fun v s => execB H fuel body { s with vars := setVar s.vars x v }) l st'
    | .while_ c body, st =>
      whileLoop (fun s => evalCond H fuel c s) (fun s => execB H fuel body s) fuel st
    | .try_ body h1n h1v h1 h2n h2v h2, st =>
      match execB H fuel body st with
      | (.ok fl, st') => (.ok fl, st')
      | (.error x, st') =>
        if h1n.contains (excCls x) then
          execB H fuel h1 (if h1v = 0 then st' else { st' with vars := setVar st'.vars h1v x })
        else if h2n.contains (excCls x) then
          execB H fuel h2 (if h2v = 0 then st' else { st' with vars := setVar st'.vars h2v x })
        else (.error x, st')
    | .continue_, st => (.ok .cont, st)
    | .break_, st => (.ok .brk, st)
    | .pass, st => (.ok .next, st)

  def execB (H : Host ω σ) (fuel : Nat) : List S → St ω σ → X ω (Flow ω) × St ω σ
    | [], st => (.ok .next, st)
    | s :: ss, st =>
      match execS H fuel s st with
      | (.error x, st') => (.error x, st')
      | (.ok .next, st') => execB H fuel ss st'
      | (.ok fl, st') => (.ok fl, st')
end

/-! ### equations used by the equivalence proofs

Loop bodies and conditions get names (`forBody`, `whileCond`, `whileBody`) so that `simp` does not evaluate
the interpreter under their binders; proofs use the `execS_*` lemmas below instead of unfolding `execS`. -/

def forBody (H : Host ω σ) (fuel : Nat) (x : Name) (body : List S) : V ω → St ω σ → X ω (Flow ω) × St ω σ :=
  fun v s => execB H fuel body { s with vars := setVar s.vars x v }
def whileCond (H : Host ω σ) (fuel : Nat) (c : E) : St ω σ → X ω Bool × St ω σ := fun s => evalCond H fuel c s
def whileBody (H : Host ω σ) (fuel : Nat) (body : List S) : St ω σ → X ω (Flow ω) × St ω σ := fun s => execB H fuel body s

theorem execS_for (H : Host ω σ) (fuel : Nat) (x : Name) (it : E) (body : List S) (st : St ω σ) :
    execS H fuel (.for_ x it body) st =
      (match evalE H fuel it st with
       | (.error err, st') => (.error err, st')
       | (.ok v, st') =>
         match iterOf v with
         | Option.none =>
           (match v with
            | .host _ =>
              (match H.mcall v mIter [] [] st'.h with
               | (.ok (.tuple l), h') => forLoop (forBody H fuel x body) l { st' with h := h' }
               | (.ok _, h') => (raiseX xUnsupported, { st' with h := h' })
               | (.error e, h') => (.error e, { st' with h := h' }))
            | _ => (raiseX xUnsupported, st'))
         | some l => forLoop (forBody H fuel x body) l st') := by
  rw [execS]; rfl

theorem execS_while (H : Host ω σ) (fuel : Nat) (c : E) (body : List S) (st : St ω σ) :
    execS H fuel (.while_ c body) st = whileLoop (whileCond H fuel c) (whileBody H fuel body) fuel st := by
  rw [execS]; rfl

theorem execS_expr (H : Host ω σ) (fuel : Nat) (e : E) (st : St ω σ) :
    execS H fuel (.expr e) st = (match evalE H fuel e st with
      | (.error x, st') => (.error x, st')
      | (.ok _, st') => (.ok .next, st')) := by rw [execS]
theorem execS_assign (H : Host ω σ) (fuel : Nat) (x : Name) (e : E) (st : St ω σ) :
    execS H fuel (.assign x e) st = (match evalE H fuel e st with
      | (.error err, st') => (.error err, st')
      | (.ok v, st') => (.ok .next, { st' with vars := setVar st'.vars x v })) := by rw [execS]
theorem execS_assignT (H : Host ω σ) (fuel : Nat) (xs : List Name) (e : E) (st : St ω σ) :
    execS H fuel (.assignT xs e) st = (match evalE H fuel e st with
      | (.error err, st') => (.error err, st')
      | (.ok (.tuple vs), st') =>
        (match bindT xs vs st'.vars with
         | some vars => (.ok .next, { st' with vars := vars })
         | Option.none => (raiseX xValueError, st'))
      | (.ok _, st') => (raiseX xUnsupported, st')) := by rw [execS]
theorem execS_aug (H : Host ω σ) (fuel : Nat) (x : Name) (op : BinOp) (e : E) (st : St ω σ) :
    execS H fuel (.aug x op e) st = (match getVar st.vars x with
      | Option.none => (raiseX xUnboundLocalError, st)
      | some cur =>
        match evalE H fuel e st with
        | (.error err, st') => (.error err, st')
        | (.ok v, st') =>
          match binOp op cur v with
          | .error err => (.error err, st')
          | .ok r => (.ok .next, { st' with vars := setVar st'.vars x r })) := by rw [execS]
theorem execS_setAttr (H : Host ω σ) (fuel : Nat) (obj : E) (a : Name) (e : E) (st : St ω σ) :
    execS H fuel (.setAttr obj a e) st = (match evalE H fuel obj st with
      | (.error err, st') => (.error err, st')
      | (.ok vo, st') =>
        match evalE H fuel e st' with
        | (.error err, st'') => (.error err, st'')
        | (.ok v, st'') =>
          match H.setattr vo a v st''.h with
          | (.error err, h') => (.error err, { st'' with h := h' })
          | (.ok _, h') => (.ok .next, { st'' with h := h' })) := by rw [execS]
theorem execS_ret (H : Host ω σ) (fuel : Nat) (e : E) (st : St ω σ) :
    execS H fuel (.ret e) st = (match evalE H fuel e st with
      | (.error err, st') => (.error err, st')
      | (.ok v, st') => (.ok (.ret v), st')) := by rw [execS]
theorem execS_raise (H : Host ω σ) (fuel : Nat) (e : E) (st : St ω σ) :
    execS H fuel (.raise e) st = (match evalE H fuel e st with
      | (.error err, st') => (.error err, st')
      | (.ok v, st') => (.error v, st')) := by rw [execS]
theorem execS_if (H : Host ω σ) (fuel : Nat) (c : E) (t f : List S) (st : St ω σ) :
    execS H fuel (.if_ c t f) st = (match evalCond H fuel c st with
      | (.error err, st') => (.error err, st')
      | (.ok true, st') => execB H fuel t st'
      | (.ok false, st') => execB H fuel f st') := by rw [execS]
theorem execS_try (H : Host ω σ) (fuel : Nat) (body : List S) (h1n : List Name) (h1v : Name) (h1 : List S)
    (h2n : List Name) (h2v : Name) (h2 : List S) (st : St ω σ) :
    execS H fuel (.try_ body h1n h1v h1 h2n h2v h2) st = (match execB H fuel body st with
      | (.ok fl, st') => (.ok fl, st')
      | (.error x, st') =>
        if h1n.contains (excCls x) then
          execB H fuel h1 (if h1v = 0 then st' else { st' with vars := setVar st'.vars h1v x })
        else if h2n.contains (excCls x) then
          execB H fuel h2 (if h2v = 0 then st' else { st' with vars := setVar st'.vars h2v x })
        else (.error x, st')) := by rw [execS]
theorem execS_continue (H : Host ω σ) (fuel : Nat) (st : St ω σ) : execS H fuel .continue_ st = (.ok .cont, st) := by rw [execS]
theorem execS_break (H : Host ω σ) (fuel : Nat) (st : St ω σ) : execS H fuel .break_ st = (.ok .brk, st) := by rw [execS]
theorem execS_pass (H : Host ω σ) (fuel : Nat) (st : St ω σ) : execS H fuel .pass st = (.ok .next, st) := by rw [execS]

theorem slice_min (m : Bytes) (a b : Nat) : slice m (min a m.length) b = slice m a b := by
  unfold slice
  by_cases h : a ≤ m.length
  · rw [Nat.min_eq_left h]
  · have h' : m.length ≤ a := by omega
    rw [Nat.min_eq_right h', List.drop_length, List.drop_eq_nil_of_le h']
    simp

theorem slice_min_both (m : Bytes) (a b : Nat) : slice m (min a m.length) (min b m.length) = slice m a b := by
  rw [slice_min]
  unfold slice
  by_cases h : b ≤ m.length
  · rw [Nat.min_eq_left h]
  · have h' : m.length ≤ b := by omega
    rw [Nat.min_eq_right h']
    rw [List.take_of_length_le (by rw [List.length_drop]; omega), List.take_of_length_le (by rw [List.length_drop]; omega)]

/-- non-negative bounds (numerals: the side conditions are closed by `Int.reduceLE`) -/
theorem pySlice_nonneg (p : Bytes) (a b : Int) (ha : 0 ≤ a) (hb : 0 ≤ b) : pySlice p a b = slice p a.toNat b.toNat := by
  obtain ⟨i, rfl⟩ := Int.eq_ofNat_of_zero_le ha
  obtain ⟨j, rfl⟩ := Int.eq_ofNat_of_zero_le hb
  unfold pySlice
  simp only [Int.toNat_natCast]
  have e : ∀ k : Nat, (if (k : Int) < 0 then (if (k : Int) + (p.length : Int) < 0 then 0 else (k : Int) + p.length)
      else if (k : Int) > (p.length : Int) then (p.length : Int) else (k : Int)).toNat = min k p.length := by
    intro k
    have : ¬ ((k : Int) < 0) := by omega
    simp only [this, if_false]
    split <;> omega
  rw [e i, e j, slice_min_both]

/-- `x[len(x) - 2 : len(x)]` (Python wraps a negative bound once: right for `len(x) < 2` too) -/
theorem pySlice_tail2 (p : Bytes) : pySlice p ((p.length : Int) - 2) (p.length : Int) = slice p (p.length - 2) p.length := by
  unfold pySlice
  simp only []
  have e1 : (if (p.length : Int) - 2 < 0 then (if (p.length : Int) - 2 + (p.length : Int) < 0 then 0 else (p.length : Int) - 2 + p.length)
      else if (p.length : Int) - 2 > (p.length : Int) then (p.length : Int) else (p.length : Int) - 2).toNat = p.length - 2 := by
    split
    · split <;> omega
    · split <;> omega
  have e2 : (if (p.length : Int) < 0 then (if (p.length : Int) + (p.length : Int) < 0 then 0 else (p.length : Int) + p.length)
      else if (p.length : Int) > (p.length : Int) then (p.length : Int) else (p.length : Int)).toNat = p.length := by
    have : ¬ ((p.length : Int) < 0) := by omega
    simp only [this, if_false]
    split <;> omega
  rw [e1, e2]

/-- `x[a : len(x) - 2]` for a non-negative `a` -/
theorem pySlice_to_tail2 (p : Bytes) (a : Int) (ha : 0 ≤ a) :
    pySlice p a ((p.length : Int) - 2) = slice p a.toNat (p.length - 2) := by
  obtain ⟨i, rfl⟩ := Int.eq_ofNat_of_zero_le ha
  unfold pySlice
  simp only [Int.toNat_natCast]
  have e1 : (if (p.length : Int) - 2 < 0 then (if (p.length : Int) - 2 + (p.length : Int) < 0 then 0 else (p.length : Int) - 2 + p.length)
      else if (p.length : Int) - 2 > (p.length : Int) then (p.length : Int) else (p.length : Int) - 2).toNat = p.length - 2 := by
    split
    · split <;> omega
    · split <;> omega
  have e2 : (if (i : Int) < 0 then (if (i : Int) + (p.length : Int) < 0 then 0 else (i : Int) + p.length)
      else if (i : Int) > (p.length : Int) then (p.length : Int) else (i : Int)).toNat = min i p.length := by
    have : ¬ ((i : Int) < 0) := by omega
    simp only [this, if_false]
    split <;> omega
  rw [e1, e2, slice_min]

theorem normBound_nat (n d k : Nat) : normBound (ω := ω) n d (.int (k : Int)) = some (min k n) := by
  simp only [normBound, asInt?]
  congr 1
  have : ¬ ((k : Int) < 0) := by omega
  simp only [this, if_false]
  split <;> omega

/-- slice bound given as a non-negative numeral (the side condition is closed by `Int.reduceLE`) -/
theorem normBound_nonneg (n d : Nat) (i : Int) (h : 0 ≤ i) : normBound (ω := ω) n d (.int i) = some (min i.toNat n) := by
  obtain ⟨k, rfl⟩ := Int.eq_ofNat_of_zero_le h
  simpa using normBound_nat n d k

theorem normBound_none (n d : Nat) : normBound (ω := ω) n d .none = some d := rfl

/-- `x[len(x) - 2]`-style bound (Python wraps a negative bound once: right for `len(x) < 2` too) -/
theorem normBound_len_sub2 (n d : Nat) :
    normBound (ω := ω) n d (.int ((n : Int) - 2)) = some (n - 2) := by
  simp only [normBound, asInt?]
  congr 1
  split
  · split <;> omega
  · split <;> omega

theorem getVar_setVar_same (vs : List (Name × V ω)) (x : Name) (v : V ω) : getVar (setVar vs x v) x = some v := by
  induction vs with
  | nil => simp [setVar, getVar]
  | cons p ps ih =>
    obtain ⟨n, w⟩ := p
    by_cases h : n = x
    · simp [setVar, getVar, h]
    · simp [setVar, getVar, h, ih]

theorem getVar_setVar_ne (vs : List (Name × V ω)) (x y : Name) (v : V ω) (h : x ≠ y) :
    getVar (setVar vs x v) y = getVar vs y := by
  induction vs with
  | nil => simp [setVar, getVar, h]
  | cons p ps ih =>
    obtain ⟨n, w⟩ := p
    by_cases hn : n = x
    · subst hn
      simp [setVar, getVar, h]
    · simp only [setVar, hn, if_false, getVar, ih]

theorem execB_nil (H : Host ω σ) (fuel : Nat) (st : St ω σ) : execB H fuel [] st = (.ok .next, st) := by rw [execB]
theorem execB_cons (H : Host ω σ) (fuel : Nat) (s : S) (ss : List S) (st : St ω σ) :
    execB H fuel (s :: ss) st = (match execS H fuel s st with
      | (.error x, st') => (.error x, st')
      | (.ok .next, st') => execB H fuel ss st'
      | (.ok fl, st') => (.ok fl, st')) := by rw [execB]

/-- a one-statement block is that statement -/
theorem execB_one (H : Host ω σ) (fuel : Nat) (s : S) (st : St ω σ) : execB H fuel [s] st = execS H fuel s st := by
  rw [execB_cons]
  generalize execS H fuel s st = r
  obtain ⟨r1, st'⟩ := r
  cases r1 with
  | error x => rfl
  | ok fl => cases fl <;> simp [execB_nil]

/-- one statement executed normally: go on with the rest -/
theorem execB_step (H : Host ω σ) (fuel : Nat) (s : S) (ss : List S) (st st' : St ω σ)
    (h : execS H fuel s st = (.ok .next, st')) : execB H fuel (s :: ss) st = execB H fuel ss st' := by
  rw [execB_cons, h]

attribute [pyeval] execS_expr execS_assign execS_assignT execS_aug execS_setAttr execS_ret execS_raise execS_if
  execS_for execS_while execS_try execS_continue execS_break execS_pass execB_nil execB_one
  Bool.not_true Bool.not_false Int.cast_ofNat_Int
  evalE evalEs evalCond setVar getVar getVar_setVar_same getVar_setVar_ne bindT binOp binInt asInt? cmpOp cmpOrd pyEq memTuple isNone truthy indexOp sliceOp sliceOpH boundOf pySlice_nonneg pySlice_tail2 pySlice_to_tail2
  builtin builtinMethod iterOf excCls kwArg normBound_nat normBound_nonneg normBound_none normBound_len_sub2
  fLen fBytes fInt fIntFromBytes fIsinstance tStr tInt tBytes tTuple tList mIter fSetLast fDropLast mHex kByteorder kSigned sLittle sBig
  List.zip_cons_cons List.zip_nil_right List.zip_nil_left List.contains_cons List.contains_nil
  xEOFError xTypeError xValueError xKeyError xStopIteration xUBXParseError xUBXMessageError xUBXTypeError xUBXStreamError
  or_false false_or or_self or_true true_or and_true true_and and_false false_and raiseX ne_eq not_false_eq_true not_true_eq_false

/-- evaluate the interpreter on the statement at the head of the goal -/
macro "pysimp" : tactic => `(tactic| simp only [pyeval, Nat.reduceEqDiff, ↓reduceIte, Int.reduceLE, Int.reduceLT, Int.reduceToNat, Int.reduceNeg, Int.reduceSub, Int.reduceAdd])
/-- … with extra rewrite rules -/
macro "pysimp" "[" ls:Lean.Parser.Tactic.simpLemma,* "]" : tactic => `(tactic| simp only [pyeval, Nat.reduceEqDiff, ↓reduceIte, Int.reduceLE, Int.reduceLT, Int.reduceToNat, Int.reduceNeg, Int.reduceSub, Int.reduceAdd, $ls,*])
/-- execute the next statement of the block at the head of the goal -/
macro "pystep" : tactic => `(tactic| (rw [execB_cons]; pysimp))
macro "pystep" "[" ls:Lean.Parser.Tactic.simpLemma,* "]" : tactic => `(tactic| (rw [execB_cons]; pysimp [$ls,*]))

/-- a `for` loop over bytes whose body acts on the state like a fold step (`x` = the loop variable's value) -/
theorem forLoop_fold {β : Type} (body : V ω → St ω σ → X ω (Flow ω) × St ω σ) (f : β → Byte → β)
    (mk : β → V ω → St ω σ)
    (hstep : ∀ acc x (y : Byte), body (.int y.toNat) (mk acc x) = (.ok .next, mk (f acc y) (.int y.toNat)))
    (l : Bytes) (acc : β) (x : V ω) :
    ∃ x', forLoop body (l.map (fun y => V.int y.toNat)) (mk acc x) = (.ok .next, mk (l.foldl f acc) x') := by
  induction l generalizing acc x with
  | nil => exact ⟨x, by simp [forLoop]⟩
  | cons y ys ih =>
    obtain ⟨x', h⟩ := ih (f acc y) (.int y.toNat)
    refine ⟨x', ?_⟩
    rw [List.map_cons, forLoop, hstep]
    dsimp only
    rw [h, List.foldl_cons]

/-- a translated function -/
structure Fn where
  params : List Name
  body : List S
deriving Repr, Inhabited

/-- what a function call makes of the way its body ended; falling off the end returns `None` -/
def retOf (r : X ω (Flow ω) × St ω σ) : X ω (V ω) × σ :=
  match r with
  | (.error x, st) => (.error x, st.h)
  | (.ok (.ret v), st) => (.ok v, st.h)
  | (.ok _, st) => (.ok .none, st.h)

/-- call a translated function with positional arguments -/
def runFn (H : Host ω σ) (fuel : Nat) (f : Fn) (args : List (V ω)) (h : σ) : X ω (V ω) × σ :=
  retOf (execB H fuel f.body { vars := f.params.zip args, h := h })

attribute [pyeval] retOf

end Ubx.Py
