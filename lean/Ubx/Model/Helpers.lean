import Ubx.Model.Types
import Ubx.Model.Reader
/-!
# Stand-alone helpers of `ubxhelpers.py`: `protocol`, `get_bits`, `att2idx`, `att2name`,
`itow2utc`, `utc2itow`, `val2sphp`
-/
namespace Ubx

/-- `protocol(raw)`; IndexError on inputs shorter than the test needs -/
def protocol (nmeaHdr2 : List Byte) (raw : Bytes) : R Nat :=
  let p := slice raw 0 2
  if p = [0xb5, 0x62] then .ok 2
  else if p.length = 2 ∧ p.getD 0 0 = 0x24 ∧ nmeaHdr2.contains (p.getD 1 0) then .ok 1
  else
    match p with
    | [] => .error .indexE
    | [b] => if b = 0xd3 then .error .indexE else .ok 0
    | b0 :: b1 :: _ => if b0 = 0xd3 ∧ b1 &&& 0xfc = 0 then .ok 4 else .ok 0

def trailingZeros : Nat → Nat → Nat
  | 0, _ => 0
  | f+1, m => if m % 2 = 0 then 1 + trailingZeros f (m / 2) else 0

/-- `get_bits(bitfield, bitmask)`; `none` = does not terminate (`bitmask == 0`),
    ValueError for an empty bitfield (`int("", 16)`) -/
def getBits (bitfield : Bytes) (mask : Nat) : Option (R Nat) :=
  if bitfield.isEmpty then some (.error .valueE)
  else if mask = 0 then none
  else
    let tz := trailingZeros (mask.log2 + 1) mask
    some (.ok ((fromBE bitfield >>> tz) &&& (mask >>> tz)))

/-- split a string (list of character codes) on `'_'` -/
def splitUS : List Nat → List (List Nat)
  | [] => [[]]
  | c :: cs =>
    match splitUS cs with
    | [] => [[]]   -- unreachable
    | h :: t => if c = 95 then [] :: h :: t else (c :: h) :: t

/-- `int(s)` for a string of ASCII digits; `none` stands for "ValueError or outside the modelled
    domain" (Python's `int` also accepts signs, blanks, underscores and non-ASCII digits) -/
def digitsVal (s : List Nat) : Option Nat :=
  if s.isEmpty then none
  else if s.all (fun c => 48 ≤ c && c ≤ 57) then some (s.foldl (fun a c => a * 10 + (c - 48)) 0)
  else none

/-- is every segment after the first either all digits or free of characters that make
    Python's `int` lenient? (domain guard for the correspondence check) -/
def att2idxInDomain (s : List Nat) : Bool :=
  (splitUS s).all (fun seg => seg.all (fun c => (48 ≤ c && c ≤ 57) || (65 ≤ c && c ≤ 90) || (97 ≤ c && c ≤ 122) || c = 45))

inductive Idx where
  | zero
  | one (i : Nat)
  | many (is : List Nat)
deriving DecidableEq, Repr

/-- `att2idx(att)` -/
def att2idx (s : List Nat) : Idx :=
  match splitUS s with
  | [_, a] => (match digitsVal a with | some i => .one i | none => .zero)
  | _ :: a :: b :: rest =>
    let segs := a :: b :: rest
    if segs.all (fun x => (digitsVal x).isSome) then .many (segs.map (fun x => (digitsVal x).getD 0)) else .zero
  | _ => .zero

/-- `att2name(att)` -/
def att2name (s : List Nat) : List Nat := (splitUS s).headD []

/-- decimal digits of `n` as character codes, most significant first (`str(n)`) -/
def digits10 (n : Nat) : List Nat :=
  if n < 10 then [48 + n] else digits10 (n / 10) ++ [48 + n % 10]
termination_by n
decreasing_by omega

/-- `f"_{i:02d}"` -/
def suffix2 (i : Nat) : List Nat :=
  95 :: (if i < 10 then [48, 48 + i] else digits10 i)

/-- the rendered attribute name: base name followed by one suffix per enclosing group -/
def renderName (base : List Nat) (idx : List Nat) : List Nat :=
  base ++ (idx.map suffix2).flatten

/-! ### time helpers — floats through `F64`, datetimes as integer microseconds since EPOCH0 -/

def f64OfNat (n : Nat) : Nat := F64.rn ⟨false, n, 1⟩

/-- Python `round(x)` (no ndigits): nearest integer, ties to even -/
def roundToInt (x : Nat) : R Int :=
  if F64.isNaN x then .error .valueE
  else if F64.isInf x then .error .overflowE
  else
    let q := F64.toQ x
    let n : Int := (F64.rhe q.num q.den : Nat)
    .ok (if q.neg then -n else n)

def f64Neg (x : Nat) : Nat := if F64.isNeg x then x - 2 ^ 63 else x + 2 ^ 63

/-- `timedelta(seconds=x)` for a float `x`: total microseconds (CPython `accum` + half-even rounding) -/
def timedeltaUs (x : Nat) : R Int := do
  let whole ← F64.trunc x
  let wholeF ← (match F64.ofInt whole with | some b => pure b | none => throw .overflowE : R Nat)
  let frac := F64.add x (f64Neg wholeF)
  let y := F64.mul frac (f64OfNat 1000000)
  let r ← roundToInt y
  pure (whole * 1000000 + r)

/-- `itow2utc(itow)`: time of day in microseconds since midnight -/
def itow2utc (itow : Int) : R Nat := do
  let q := F64.rn ⟨itow < 0, itow.natAbs, 1000⟩          -- itow / 1000 (int / int true division)
  let x := F64.add q (f64Neg (f64OfNat 18))               -- … - LEAPOFFSET
  let us ← timedeltaUs x
  pure (us % 86400000000).toNat

/-- `utc2itow(utc)` with `utc` = microseconds since EPOCH0 (≥ 0) -/
def utc2itow (us : Nat) : R (Int × Int) := do
  let ts := F64.rn ⟨false, us, 1000000⟩                    -- total_seconds()
  let wq ← (match F64.div ts (f64OfNat 604800) with | some q => pure q | none => throw .zeroDivE : R Nat)
  let wno ← F64.trunc wq
  let sowUs : Int := wno * 604800 * 1000000
  let d : Int := (us : Int) - sowUs
  let ds := F64.rn ⟨d < 0, d.natAbs, 1000000⟩
  let v := F64.mul (F64.add ds (f64OfNat 18)) (f64OfNat 1000)
  let itow ← roundToInt v
  pure (wno, itow)

/-- `val2sphp(val, scale)` on floats -/
def val2sphp (val scale : Nat) : R (Int × Int) := do
  let v ← (match F64.div val scale with | some q => pure q | none => throw .zeroDivE : R Nat)
  let sp ← F64.trunc v
  let spF ← (match F64.ofInt sp with | some b => pure b | none => throw .overflowE : R Nat)
  let hp ← roundToInt (F64.mul (F64.add v (f64Neg spF)) (f64OfNat 100))
  pure (sp, hp)

end Ubx
