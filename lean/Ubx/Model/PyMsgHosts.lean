import Ubx.Model.PyHosts
import Ubx.Model.Message
import Ubx.Generated.Code
/-!
# Host of the small `UBXMessage` methods (definitions only)

`_do_len_checksum`, `serialize` and the property getters read and write instance fields (`_ubxClass`, `_ubxID`,
`_payload`, `_length`, `_checksum`, `_mode`) and call `val2bytes(·, U2)`, `calc_checksum`, `bytes2val(·, U2)`: the fields
are a record, the three helpers the model's functions.
-/
namespace Ubx.Py
open Ubx Ubx.Gen.Code

/-- the message object of the small `UBXMessage` methods -/
inductive MO where
  | self
deriving Repr

/-- the instance fields those methods read and write -/
structure MF where
  cls : Bytes
  id : Bytes
  payload : Option Bytes
  length : Bytes
  checksum : Bytes
  mode : Nat

def mCall (ctx : Ctx) (f : Name) (args : List (V MO)) (_kw : List (Name × V MO)) (st : MF) : X MO (V MO) × MF :=
  if f = 0x76616c326279746573 then                 -- val2bytes(n, U2)
    match args with
    | [.int n, .str 0x55303032] => (encR .bytes (val2bytes ctx.atttype (.int n) (.t cU 2)), st)
    | _ => (raiseX xUnsupported, st)
  else if f = 0x63616c635f636865636b73756d then    -- calc_checksum(content)
    match args with
    | [.bytes b] => (.ok (.bytes (calcChecksum b)), st)
    | _ => (raiseX xUnsupported, st)
  else if f = 0x62797465733276616c then            -- bytes2val(lenb, U2)
    match args with
    | [.bytes b, .str 0x55303032] => (.ok (.int (fromLE b : Nat)), st)
    | _ => (raiseX xUnsupported, st)
  else (raiseX xUnsupported, st)

/-- `self._payload`: `None` or the bytes -/
def payV : Option Bytes → V MO
  | none => .none
  | some p => .bytes p

def mAttr (obj : V MO) (a : Name) (st : MF) : X MO (V MO) :=
  match obj with
  | .host .self =>
    if a = 0x5f756278436c617373 then .ok (.bytes st.cls)                 -- _ubxClass
    else if a = 0x5f7562784944 then .ok (.bytes st.id)                   -- _ubxID
    else if a = 0x5f7061796c6f6164 then .ok (payV st.payload)   -- _payload
    else if a = 0x5f6c656e677468 then .ok (.bytes st.length)             -- _length
    else if a = 0x5f636865636b73756d then .ok (.bytes st.checksum)       -- _checksum
    else if a = 0x5f6d6f6465 then .ok (.int st.mode)                     -- _mode
    else raiseX xUnsupported
  | _ => raiseX xUnsupported

def mSetattr (obj : V MO) (a : Name) (v : V MO) (st : MF) : X MO Unit × MF :=
  match obj, v with
  | .host .self, .bytes b =>
    if a = 0x5f6c656e677468 then (.ok (), { st with length := b })
    else if a = 0x5f636865636b73756d then (.ok (), { st with checksum := b })
    else (raiseX xUnsupported, st)
  | _, _ => (raiseX xUnsupported, st)

def mGlob : Name → Option (V MO)
  | 0x5532 => some (.str 0x55303032)
  | 0x5542585f484452 => some (.bytes [0xb5, 0x62])
  | _ => none

def msgHost (ctx : Ctx) : Host MO MF where
  glob := mGlob
  call := mCall ctx
  mcall := fun _ _ _ _ h => (raiseX xUnsupported, h)
  attr := mAttr
  setattr := mSetattr
  index := fun _ _ _ => raiseX xUnsupported
  contains := fun _ _ _ => raiseX xUnsupported
  truthy := fun _ => true
  eqHost := fun _ _ => false

end Ubx.Py
