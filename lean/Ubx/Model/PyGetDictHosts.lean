import Ubx.Model.PyHosts
import Ubx.Model.Message
import Ubx.Generated.Code
/-!
# Host of `UBXMessage._get_dict`

Definitions only. `VARIANTS`, the three payload tables, a selector function taken from `VARIANTS`, the message's `identity`
are host objects; the selectors themselves (tied in `Proofs/CodeSelectors.lean`) are the model's `selectDefn`.
-/
namespace Ubx.Py
open Ubx Ubx.Gen.Code

inductive GO where
  | self
  | kwargs
  | variants
  | vtab (m : Mode)
  | sel (s : Selector)
  | ptab (m : Mode)
  | ident (i : Ident)
  | dict (d : Defn)

/-- `"NOMINAL"` -/
def sNOMINAL : Name := 0x4e4f4d494e414c

/-- the last seven characters of a name (the whole name when shorter) -/
def nameLast7 (n : Name) : Name := nameDrop n (nameLen n - 7)

def gdGlob (x : Name) : Option (V GO) :=
  if x = 0x56415249414e5453 then some (.host .variants)                       -- VARIANTS
  else if x = 0x5542585f5041594c4f4144535f504f4c4c then some (.host (.ptab .poll))
  else if x = 0x5542585f5041594c4f4144535f534554 then some (.host (.ptab .set))
  else if x = 0x5542585f5041594c4f4144535f474554 then some (.host (.ptab .get))
  else globLookup Ubx.Gen.Code.globals x

def gdCall (ctx : Ctx) (cls id : Bytes) (mode : Mode) (kw : Kw) (f : Name) (args : List (V GO)) (_kws : List (Name × V GO)) (st : Unit) :
    X GO (V GO) × Unit :=
  if f = 0x5f5f63616c6c5f5f then                      -- variant(msg, mode, **kwargs) / variant(**kwargs)
    match args with
    | [.host (.sel .mga), .bytes msg, .int m, .host .kwargs] =>
      if m = (mode.toNat : Int) then (encR (fun d => V.host (.dict d)) (selectDefn ctx .mga msg mode kw), st) else (raiseX xUnsupported, st)
    | [.host (.sel s), .host .kwargs] =>
      if s = .mga then (raiseX xUnsupported, st)         -- Python: TypeError (missing positional arguments); never reached
      else (encR (fun d => V.host (.dict d)) (selectDefn ctx s (cls ++ id) mode kw), st)
    | _ => (raiseX xUnsupported, st)
  else if f = 0x5f5f656d707479646963745f5f then       -- {}
    (.ok (.host (.dict [])), st)
  else (raiseX xUnsupported, st)

def gdMcall (ctx : Ctx) (obj : V GO) (m : Name) (args : List (V GO)) (_kws : List (Name × V GO)) (st : Unit) : X GO (V GO) × Unit :=
  match obj with
  | .host (.vtab md) =>
    if m = 0x676574 then                               -- VARIANTS[mode].get(msg, False)
      match args with
      | [.bytes msg, .bool false] =>
        (.ok (match findVariant ctx md msg with | some s => .host (.sel s) | none => .bool false), st)
      | _ => (raiseX xUnsupported, st)
    else (raiseX xUnsupported, st)
  | _ => (raiseX xUnsupported, st)

def gdAttr (ctx : Ctx) (cls id : Bytes) (mode : Mode) (kw : Kw) (obj : V GO) (a : Name) (_st : Unit) : X GO (V GO) :=
  match obj with
  | .host .self =>
    if a = 0x5f756278436c617373 then .ok (.bytes cls)
    else if a = 0x5f7562784944 then .ok (.bytes id)
    else if a = 0x5f6d6f6465 then .ok (.int mode.toNat)
    else if a = 0x6964656e74697479 then .ok (.host (.ident (identityOf ctx cls id (kwPayload? kw <|> some []))))   -- identity
    else raiseX xUnsupported
  | _ => raiseX xUnsupported

def gdIndex (ctx : Ctx) (o : GO) (i : V GO) (_st : Unit) : X GO (V GO) :=
  match o, i with
  | .variants, .int m =>
    (match Mode.ofNat? m.toNat with
     | some md => if 0 ≤ m then .ok (.host (.vtab md)) else .error (.exc xKeyError 0)
     | none => .error (.exc xKeyError 0))
  | .ptab md, .host (.ident (.known n)) => encR (fun d => V.host (.dict d)) (defnByName (tableOf ctx md) n)
  | .ptab _, .host (.ident .nominal) => .error (.exc xKeyError 0)
  | .ident (.known n), .tuple [.int (-7), .none] => .ok (.str (nameLast7 n))
  | .ident .nominal, .tuple [.int (-7), .none] => .ok (.str sNOMINAL)
  | _, _ => raiseX xUnsupported

def gdHost (ctx : Ctx) (cls id : Bytes) (mode : Mode) (kw : Kw) : Host GO Unit where
  glob := gdGlob
  call := gdCall ctx cls id mode kw
  mcall := gdMcall ctx
  attr := gdAttr ctx cls id mode kw
  setattr := fun _ _ _ st => (raiseX xUnsupported, st)
  index := gdIndex ctx
  contains := fun _ _ _ => raiseX xUnsupported
  truthy := fun _ => true
  eqHost := fun _ _ => false

end Ubx.Py
