import Ubx.Model.PyHosts
import Ubx.Model.Message
import Ubx.Generated.Code
/-!
# Host of the attribute walker (`_set_attribute`, `_set_attribute_group`, `_set_attribute_single`, `_calc_num_repeats`)

Definitions only. A payload dictionary travels as a host object (`dict items`); its entries are handed to the interpreted code
in the shapes the Python code tests for: a plain type string (`ty`), a `[type, scale]` list (`scaled`), a *tuple*
`(type, flag dictionary)` for a bitfield, a *tuple* `(count, group dictionary)` for a group. The walker methods the
interpreted function calls on `self` are the model's functions (`wItem`, `wSingle`, `wBits`, `wCfgVal`, `calcNumRepeats`):
each theorem of `Proofs/CodeWalk.lean` shows one method, as written, equal to its model function *given* that its callees
are — the recursion of the walker, unrolled one level per method.
-/
namespace Ubx.Py
open Ubx Ubx.Gen.Code

inductive AO where
  | self
  | kwargs
  | ty (t : Ty)
  | scaled (t : Ty) (sc : Scale)
  | scale (sc : Scale)
  | dict (items : List Item)
  | flags (l : List (Name × Ty))
  | nm (a : AName)

/-- the message as far as the walker touches it -/
structure ASt where
  payload : Bytes
  env : Env

def Item.key : Item → Name
  | .attr n _ _ => n
  | .bits n _ _ => n
  | .group n _ _ => n

/-- `"None"` -/
def sNone : Name := 0x4e6f6e65

def cntV : Count → V AO
  | .fixed n => .int n
  | .var => .str sNone
  | .named a => .str a

/-- a dictionary entry's value as the Python code sees it -/
def defV : Item → V AO
  | .attr _ ty .one => .host (.ty ty)
  | .attr _ ty sc => .host (.scaled ty sc)
  | .bits _ ty flags => .tuple [.host (.ty ty), .host (.flags flags)]
  | .group _ cnt items => .tuple [cntV cnt, .host (.dict items)]

def itemAt (items : List Item) (k : Name) : Option Item := items.find? (fun i => Item.key i == k)

def idxT (idx : List Nat) : V AO := .tuple (idx.map (fun (i : Nat) => (V.int (i : Int) : V AO)))

def decIdx : List (V AO) → Option (List Nat)
  | [] => some []
  | .int i :: rest => if 0 ≤ i then (match decIdx rest with | some l => some (i.toNat :: l) | none => none) else none
  | _ :: _ => none

def toPyA : V AO → PyVal
  | .int i => .int i
  | .bool b => .bool b
  | .bytes b => .bytes b
  | .none => .none
  | .py v => v
  | _ => .other

def anameOfA : V AO → Option AName
  | .str k => some ⟨k, []⟩
  | .host (.nm a) => some a
  | _ => none

/-- the value of `anami` after the suffix loop -/
def nameVA (key : Name) : List Nat → V AO
  | [] => .str key
  | l => .host (.nm ⟨key, l⟩)

/-- what a walker method hands back: `(offset, index)` and the message as it then is -/
def walkRet (idx : List Nat) (st : ASt) : R WState → X AO (V AO) × ASt
  | .ok s => (.ok (.tuple [.int s.off, idxT idx]), ⟨s.payload, s.env⟩)
  | .error e => (.error (.exc (excName e) 0), st)

/-- `_set_attribute_single` hands back the offset only -/
def singleRet (st : ASt) : R WState → X AO (V AO) × ASt
  | .ok s => (.ok (.int s.off), ⟨s.payload, s.env⟩)
  | .error e => (.error (.exc (excName e) 0), st)

def countOf : V AO → Option Count
  | .int n => if 0 ≤ n then some (.fixed n.toNat) else none
  | .str a => if a = sNone then some .var else some (.named a)
  | _ => none

/-- the group branch of `_set_attribute` (the dictionary key of the group plays no part) -/
def wGroup (c : WCtx) (idx : List Nat) (cnt : Count) (items : List Item) (st : WState) : R WState :=
  wItem c idx (.group 0 cnt items) st

def aCall (c : WCtx) (f : Name) (args : List (V AO)) (_kw : List (Name × V AO)) (st : ASt) : X AO (V AO) × ASt :=
  if f = 0x61747473697a then                         -- attsiz(att)
    match args with
    | [.host (.ty t)] => (encR (fun n : Int => V.int n) (attsiz t), st)
    | [.host (.scaled _ _)] => (.error (.exc xTypeError 0), st)     -- a list has no `[1:4]` an `int()` takes
    | [.int _] => (.error (.exc xTypeError 0), st)                  -- `3[1:4]`
    | [.str _] => (.error (.exc xValueError 0), st)                 -- `int("one")`, `int("umC")`: a group's size attribute
    | _ => (raiseX xUnsupported, st)
  else if f = 0x6973696e7374616e6365 then            -- isinstance(host object, tuple | list)
    match args with
    | [.host o, .str t] =>
      if t = tTuple then (.ok (.bool false), st)
      else if t = tList then (.ok (.bool (match o with | .scaled _ _ => true | _ => false)), st)
      else (raiseX xUnsupported, st)
    | _ => (raiseX xUnsupported, st)
  else if f = 0x5f5f696e745f6469765f5f then          -- int(a / b)
    match args with
    | [.int a, .int b] =>
      -- both operands far below 2^53 in this use (payload lengths): true division then `int()` is truncating division
      if b = 0 then (.error (.exc xZeroDivisionError 0), st) else (.ok (.int (Int.tdiv a b)), st)
    | [v, .host (.scale sc)] => (encR (fun r : Int => V.int r) (scaleDown (toPyA v) sc), st)
    | _ => (raiseX xUnsupported, st)
  else if f = 0x5f5f726f756e645f6d756c5f5f then      -- round(v * ares, SCALROUND)
    match args with
    | [v, .host (.scale sc), .int _] => (encR V.ofPy (scaleUp (toPyA v) sc), st)
    | _ => (raiseX xUnsupported, st)
  else if f = 0x5f5f726f756e645f6164645f5f then      -- round(old + v, SCALROUND)
    match args with
    | [a, b, .int _] => (encR V.ofPy (hpMerge (toPyA a) (toPyA b)), st)
    | _ => (raiseX xUnsupported, st)
  else if f = 0x62797465733276616c then              -- bytes2val(valb, adef)
    match args with
    | [.bytes b, .host (.ty t)] => (encR V.ofPy (bytes2val b t), st)
    | _ => (raiseX xUnsupported, st)
  else if f = 0x76616c326279746573 then              -- val2bytes(val, adef)
    match args with
    | [v, .host (.ty t)] => (encR .bytes (val2bytes c.ctx.atttype (toPyA v) t), st)
    | _ => (raiseX xUnsupported, st)
  else if f = 0x6e6f6d76616c then                    -- nomval(adef)
    match args with
    | [.host (.ty t)] => (encR V.ofPy (nomval t), st)
    | _ => (raiseX xUnsupported, st)
  else if f = 0x5f5f6164647366785f5f then            -- name += f"_{i:02d}"
    match args with
    | [n, .int i] =>
      (match anameOfA n with
       | some a => if 0 ≤ i then (.ok (.host (.nm ⟨a.base, a.idx ++ [i.toNat]⟩)), st) else (raiseX xUnsupported, st)
       | none => (raiseX xUnsupported, st))
    | _ => (raiseX xUnsupported, st)
  else if f = 0x73657461747472 then                  -- setattr(self, name, val)
    match args with
    | [.host .self, n, v] =>
      (match anameOfA n with
       | some a =>
         (match setAttr c st.env a (toPyA v) with
          | .ok env' => (.ok .none, { st with env := env' })
          | .error e => (.error (.exc (excName e) 0), st))
       | none => (raiseX xUnsupported, st))
    | _ => (raiseX xUnsupported, st)
  else if f = 0x67657461747472 then                  -- getattr(self, name[, default])
    match args with
    | [.host .self, n] =>
      (match anameOfA n with
       | some a => (match st.env.get? a with
                    | some v => (.ok (V.ofPy v), st)
                    | none => (.error (.exc xAttributeError 0), st))
       | none => (raiseX xUnsupported, st))
    | [.host .self, n, d] =>
      (match anameOfA n with
       | some a => (match st.env.get? a with
                    | some v => (.ok (V.ofPy v), st)
                    | none => (.ok d, st))
       | none => (raiseX xUnsupported, st))
    | _ => (raiseX xUnsupported, st)
  else if f = 0x72616e6765 then                      -- range(n)
    match args with
    | [.int n] => (.ok (.tuple ((List.range n.toNat).map (fun (i : Nat) => (V.int (i : Int) : V AO)))), st)
    | [.bool b] => (.ok (.tuple ((List.range (if b then 1 else 0)).map (fun (i : Nat) => (V.int (i : Int) : V AO)))), st)
    | [.py _] => (.error (.exc xTypeError 0), st)
    | [.bytes _] => (.error (.exc xTypeError 0), st)
    | [.none] => (.error (.exc xTypeError 0), st)
    | _ => (raiseX xUnsupported, st)
  else if f = 0x6366676b6579326e616d65 then          -- cfgkey2name(key)
    match args with
    | [.int k] =>
      if 0 ≤ k then (encR (fun (nt : Name × Ty) => V.tuple [.str nt.1, .host (.ty nt.2)]) (cfgkey2name c.ctx k.toNat), st)
      else (raiseX xUnsupported, st)
    | _ => (raiseX xUnsupported, st)
  else if f = 0x4f766572666c6f774572726f72 then      -- OverflowError(...)
    (.ok (.exc xOverflowError 0), st)
  else (raiseX xUnsupported, st)

def aMcall (c : WCtx) (obj : V AO) (m : Name) (args : List (V AO)) (_kw : List (Name × V AO)) (st : ASt) :
    X AO (V AO) × ASt :=
  match obj with
  | .host .kwargs =>
    if m = 0x676574 then                             -- kwargs.get(name, default)
      match args with
      | [n, d] =>
        (match anameOfA n with
         | some a => (.ok (((kwLookup c.kwargs a).map V.ofPy).getD d), st)
         | none => (raiseX xUnsupported, st))
      | _ => (raiseX xUnsupported, st)
    else (raiseX xUnsupported, st)
  | .host (.dict items) =>
    if m = 0x6974656d73 then                         -- attd.items()
      match args with
      | [] => (.ok (.tuple (items.map (fun i => V.tuple [.str (Item.key i), defV i]))), st)
      | _ => (raiseX xUnsupported, st)
    else if m = mIter then                           -- for key in dict
      match args with
      | [] => (.ok (.tuple (items.map (fun i => V.str (Item.key i)))), st)
      | _ => (raiseX xUnsupported, st)
    else (raiseX xUnsupported, st)
  | .host (.flags l) =>
    if m = 0x6974656d73 ∧ args.isEmpty then          -- bdict.items()
      (.ok (.tuple (l.map (fun kt => V.tuple [.str kt.1, .host (.ty kt.2)]))), st)
    else (raiseX xUnsupported, st)
  | .int n =>
    if m = 0x746f5f6279746573 then                   -- bitfield.to_bytes(bsiz, "little")
      match args with
      | [.int size, .str 0x6c6974746c65] =>
        if 0 ≤ size then (encR .bytes (intToBytes n size.toNat false), st) else (raiseX xUnsupported, st)
      | _ => (raiseX xUnsupported, st)
    else (raiseX xUnsupported, st)
  | .host .self =>
    if m = 0x5f7365745f617474726962757465 then       -- self._set_attribute(key, dict, offset, index, **kwargs)
      match args with
      | [.str k, .host (.dict items), .int off, .tuple ix, .host .kwargs] =>
        (match itemAt items k, decIdx ix with
         | some it, some idx =>
           if 0 ≤ off then walkRet idx st (wItem c idx it ⟨off.toNat, st.payload, st.env⟩) else (raiseX xUnsupported, st)
         | none, some _ => (.error (.exc xKeyError 0), st)
         | _, none => (raiseX xUnsupported, st))
      | _ => (raiseX xUnsupported, st)
    else if m = 0x5f7365745f6174747269627574655f73696e676c65 then   -- self._set_attribute_single(anam, adef, offset, index, **kwargs)
      match args with
      | [.str n, .host (.ty t), .int off, .tuple ix, .host .kwargs] =>
        (match decIdx ix with
         | some idx => if 0 ≤ off then singleRet st (wSingle c idx n t .one ⟨off.toNat, st.payload, st.env⟩) else (raiseX xUnsupported, st)
         | none => (raiseX xUnsupported, st))
      | [.str n, .host (.scaled t sc), .int off, .tuple ix, .host .kwargs] =>
        (match decIdx ix with
         | some idx => if 0 ≤ off then singleRet st (wSingle c idx n t sc ⟨off.toNat, st.payload, st.env⟩) else (raiseX xUnsupported, st)
         | none => (raiseX xUnsupported, st))
      | _ => (raiseX xUnsupported, st)
    else if m = 0x5f7365745f6174747269627574655f6269746669656c64 then   -- self._set_attribute_bitfield(adef, offset, index, **kwargs)
      match args with
      | [.tuple [.host (.ty t), .host (.flags fl)], .int off, .tuple ix, .host .kwargs] =>
        (match decIdx ix with
         | some idx => if 0 ≤ off then walkRet idx st (wBits c idx t fl ⟨off.toNat, st.payload, st.env⟩) else (raiseX xUnsupported, st)
         | none => (raiseX xUnsupported, st))
      | _ => (raiseX xUnsupported, st)
    else if m = 0x5f7365745f6174747269627574655f67726f7570 then     -- self._set_attribute_group(adef, offset, index, **kwargs)
      match args with
      | [.tuple [cv, .host (.dict items)], .int off, .tuple ix, .host .kwargs] =>
        (match countOf cv, decIdx ix with
         | some cnt, some idx =>
           if 0 ≤ off then walkRet idx st (wGroup c idx cnt items ⟨off.toNat, st.payload, st.env⟩) else (raiseX xUnsupported, st)
         | _, _ => (raiseX xUnsupported, st))
      | _ => (raiseX xUnsupported, st)
    else if m = 0x5f7365745f6174747269627574655f63666776616c then   -- self._set_attribute_cfgval(offset, **kwargs)
      match args with
      | [.int off, .host .kwargs] =>
        if 0 ≤ off then
          (match wCfgVal c ⟨off.toNat, st.payload, st.env⟩ with
           | .ok s => (.ok .none, ⟨s.payload, s.env⟩)
           | .error e => (.error (.exc (excName e) 0), st))
        else (raiseX xUnsupported, st)
      | _ => (raiseX xUnsupported, st)
    else if m = 0x5f63616c635f6e756d5f72657065617473 then           -- self._calc_num_repeats(gdict, payload, offset, 0)
      match args with
      | [.host (.dict items), .bytes p, .int off, .int 0] =>
        if 0 ≤ off then (encR (fun k : Int => V.int k) (calcNumRepeats items p off.toNat), st) else (raiseX xUnsupported, st)
      | _ => (raiseX xUnsupported, st)
    else (raiseX xUnsupported, st)
  | _ => (raiseX xUnsupported, st)

def aAttr (c : WCtx) (cls id : Bytes) (mode : Nat) (obj : V AO) (a : Name) (st : ASt) : X AO (V AO) :=
  match obj with
  | .host .self =>
    if a = 0x5f7061796c6f6164 then .ok (.bytes st.payload)            -- _payload
    else if a = 0x5f70617273656266 then .ok (.bool c.parsebf)          -- _parsebf
    else if a = 0x5f756278436c617373 then .ok (.bytes cls)             -- _ubxClass
    else if a = 0x5f7562784944 then .ok (.bytes id)                    -- _ubxID
    else if a = 0x5f6d6f6465 then .ok (.int mode)                      -- _mode
    else raiseX xUnsupported
  | _ => raiseX xUnsupported

def aSetattr (obj : V AO) (a : Name) (v : V AO) (st : ASt) : X AO Unit × ASt :=
  match obj, v with
  | .host .self, .bytes b => if a = 0x5f7061796c6f6164 then (.ok (), { st with payload := b }) else (raiseX xUnsupported, st)
  | _, _ => (raiseX xUnsupported, st)

/-- the two most significant decimal digits of `i` (`i ≥ 10`) -/
def leadDigits (i : Nat) : Nat × Nat :=
  if h : i < 100 then (i / 10, i % 10) else leadDigits (i / 10)
termination_by i
decreasing_by omega

/-- the first three characters of `base + f"_{i:02d}" + …` -/
def renderPrefix3 (base : Name) (i : Nat) : Name :=
  let d := leadDigits i
  if 3 ≤ nameLen base then nameTake base 3
  else if nameLen base = 2 then base * 256 + 0x5f
  else if nameLen base = 1 then base * 65536 + 0x5f00 + (48 + d.1)
  else 0x5f0000 + (48 + d.1) * 256 + (48 + d.2)

def aIndex (o : AO) (i : V AO) (st : ASt) : X AO (V AO) :=
  match o, i with
  -- `kwargs["payload"]`: what `_do_attributes` stored in `_payload` from the very same keywords
  | .kwargs, .str 0x7061796c6f6164 => .ok (.bytes st.payload)
  | .dict items, .str k => (match itemAt items k with | some it => .ok (defV it) | none => .error (.exc xKeyError 0))
  | .scaled t _, .int 0 => .ok (.host (.ty t))
  | .scaled _ sc, .int 1 => .ok (.host (.scale sc))
  -- the first three characters of a suffixed name; all but the first three when the base has three or more
  | .nm a, .tuple [.int 0, .int 3] =>
    (match a.idx with
     | i :: _ => .ok (.str (renderPrefix3 a.base i))
     | [] => .ok (.str (nameTake a.base 3)))
  | .nm a, .tuple [.int 3, .none] => if 3 ≤ nameLen a.base then .ok (.host (.nm ⟨nameDrop a.base 3, a.idx⟩)) else raiseX xUnsupported
  | _, _ => raiseX xUnsupported

def aContains (c : WCtx) (o : AO) (x : V AO) (_st : ASt) : X AO Bool :=
  match o, x with
  | .kwargs, .str 0x7061796c6f6164 => .ok c.hasPayload      -- "payload" in kwargs
  | _, _ => raiseX xUnsupported

def aEq (o : AO) (v : V AO) : Bool :=
  match o, v with
  | .ty a, .host (.ty b) => a == b
  | .scale sc, .int 1 => (match sc with | .one => true | _ => false)
  | _, _ => false

/-- `X1 … X24` and `CH` are type strings -/
def aGlob (x : Name) : Option (V AO) :=
  if x = 0x5831 then some (.host (.ty (.t cX 1)))
  else if x = 0x5832 then some (.host (.ty (.t cX 2)))
  else if x = 0x5834 then some (.host (.ty (.t cX 4)))
  else if x = 0x5836 then some (.host (.ty (.t cX 6)))
  else if x = 0x5838 then some (.host (.ty (.t cX 8)))
  else if x = 0x583234 then some (.host (.ty (.t cX 24)))
  else if x = 0x4348 then some (.host (.ty .ch))
  else globLookup Ubx.Gen.Code.globals x             -- GET, SET, SCALROUND, …: the working tree's values

def walkHost (c : WCtx) (cls id : Bytes) (mode : Nat) : Host AO ASt where
  glob := aGlob
  call := aCall c
  mcall := aMcall c
  attr := aAttr c cls id mode
  setattr := aSetattr
  index := aIndex
  contains := aContains c
  truthy := fun _ => true
  eqHost := aEq

/-! ### the walker interpreted as a whole

`recHost … f`: like `walkHost`, but the walker methods called on `self` are the *translated* methods again, interpreted under
`recHost … (f - 1)` — `f` bounds the depth of method calls (two per nesting level of groups, two more for a bitfield's flags).
`_set_attribute_bitfield` / `_set_attribute_bits` and `_set_attribute_cfgval` are interpreted too. -/

def mSetAttr : Name := 0x5f7365745f617474726962757465
def mSingle : Name := 0x5f7365745f6174747269627574655f73696e676c65
def mBitfield : Name := 0x5f7365745f6174747269627574655f6269746669656c64
def mGroup : Name := 0x5f7365745f6174747269627574655f67726f7570
def mCfgval : Name := 0x5f7365745f6174747269627574655f63666776616c
def mCalc : Name := 0x5f63616c635f6e756d5f72657065617473
def mBits : Name := 0x5f7365745f6174747269627574655f62697473

def recMcall (c : WCtx) (cls id : Bytes) (mode : Nat) (F : Nat) :
    Nat → V AO → Name → List (V AO) → List (Name × V AO) → ASt → X AO (V AO) × ASt
  | f, obj, m, args, kw, st =>
    match obj with
    | .host .self =>
      (match f with
       | 0 => if m = mSetAttr ∨ m = mSingle ∨ m = mGroup ∨ m = mCalc ∨ m = mBitfield ∨ m = mBits ∨ m = mCfgval then (raiseX xFuel, st) else aMcall c obj m args kw st
       | f'+1 =>
         let H : Host AO ASt := { walkHost c cls id mode with mcall := recMcall c cls id mode F f' }
         if m = mSetAttr then runFn H F fn_UBXMessage__set_attribute (.host .self :: args) st
         else if m = mSingle then runFn H F fn_UBXMessage__set_attribute_single (.host .self :: args) st
         else if m = mGroup then runFn H F fn_UBXMessage__set_attribute_group (.host .self :: args) st
         else if m = mCalc then runFn H F fn_UBXMessage__calc_num_repeats (.host .self :: args) st
         else if m = mBitfield then runFn H F fn_UBXMessage__set_attribute_bitfield (.host .self :: args) st
         else if m = mBits then runFn H F fn_UBXMessage__set_attribute_bits (.host .self :: args) st
         -- the key/value parser has a `while` loop: its pass budget is taken from the payload it will walk
         else if m = mCfgval then runFn H (max F (5 * (st.payload.length + 1) + 1)) fn_UBXMessage__set_attribute_cfgval (.host .self :: args) st
         else aMcall c obj m args kw st)
    | _ => aMcall c obj m args kw st

def recHost (c : WCtx) (cls id : Bytes) (mode : Nat) (F f : Nat) : Host AO ASt :=
  { walkHost c cls id mode with mcall := recMcall c cls id mode F f }

/-- a host that is `walkHost` except, possibly, for the methods called on `self` -/
structure WalkLike (c : WCtx) (cls id : Bytes) (mode : Nat) (H : Host AO ASt) : Prop where
  glob : H.glob = aGlob
  call : H.call = aCall c
  attr : H.attr = aAttr c cls id mode
  setattr : H.setattr = aSetattr
  index : H.index = aIndex
  contains : H.contains = aContains c
  eqHost : H.eqHost = aEq
  mcall_kw : ∀ m args kw st, H.mcall (.host .kwargs) m args kw st = aMcall c (.host .kwargs) m args kw st
  mcall_dict : ∀ items m args kw st, H.mcall (.host (.dict items)) m args kw st = aMcall c (.host (.dict items)) m args kw st
  mcall_flags : ∀ l m args kw st, H.mcall (.host (.flags l)) m args kw st = aMcall c (.host (.flags l)) m args kw st
  mcall_int : ∀ n m args kw st, H.mcall (.int n) m args kw st = aMcall c (.int n) m args kw st

end Ubx.Py
