import Lean.Meta.Tactic.Simp.RegisterCommand
/-! simp set used to evaluate the PyLite interpreter symbolically (one statement at a time) -/
register_simp_attr pyeval
