import Ubx.Model.Message
/-!
# The grammar of payload definitions (README "Extensibility", made precise — DESIGN.md §7 C16)

Every rule is a separate Boolean function so that a failure names its rule. These predicates are
evaluated by Lean's kernel over the regenerated tables (`Props/C16`), and they are the hypotheses
of the generic walker theorems (`Props/C02`).
-/
namespace Ubx

/-- W1: a valid attribute type: "CH", or a letter of `ATTTYPE` followed by a positive size -/
def okTy (ctx : Ctx) : Ty → Bool
  | .ch => true
  | .t l n => (lookup l ctx.atttype).isSome && n > 0
  | .malformed _ => false

/-- a flag type: any valid sized type (its size is a width in bits) -/
def okFlagTy (ctx : Ctx) : Ty → Bool
  | .t l n => (lookup l ctx.atttype).isSome && n > 0
  | _ => false

def tySize : Ty → Nat
  | .t _ n => n
  | _ => 0

def tyLetter : Ty → Nat
  | .t l _ => l
  | .ch => cC
  | .malformed l => l

def flagBits (flags : List (Name × Ty)) : Nat := (flags.map (fun f => tySize f.2)).sum

/-- W7: a scale factor only on U/I types, and positive -/
def okScale (ty : Ty) : Scale → Bool
  | .one => true
  | .int n => (tyLetter ty = cU || tyLetter ty = cI) && n > 0
  | .flt b => (tyLetter ty = cU || tyLetter ty = cI) && F64.isFinite b && !F64.isNeg b && (F64.toQ b).num > 0

mutual
/-- W1, W2, W7 on every item, at any depth -/
def okItem (ctx : Ctx) : Item → Bool
  | .attr _ ty sc => okTy ctx ty && okScale ty sc
  | .bits _ ty flags =>
    okTy ctx ty && tyLetter ty = cX && flags.all (fun f => okFlagTy ctx f.2) && flagBits flags ≤ 8 * tySize ty
  | .group _ _ items => okItems ctx items
def okItems (ctx : Ctx) : List Item → Bool
  | [] => true
  | i :: is => okItem ctx i && okItems ctx is
end

/-- what an earlier top-level item can offer as a group count -/
inductive CountSrc where
  | attr (ty : Ty)
  | flag (ty : Ty)
deriving Repr

/-- the top-level names defined by an item: attribute name, or (bitfield) its flags and its own name -/
def topSources : Item → List (Name × CountSrc)
  | .attr n ty _ => [(n, .attr ty)]
  | .bits _ _ flags => (flags.filter (fun f => !isReservedName f.1)).map (fun f => (f.1, CountSrc.flag f.2))
  | .group _ _ _ => []

def okCountSrc (bf : Bool) : CountSrc → Bool
  | .attr ty => isIntLetter (tyLetter ty) && tySize ty ≥ 1 && tySize ty ≤ 2
  | .flag _ => bf       -- a flag can serve as a count only when bitfields are parsed (wf₁)

mutual
/-- W3: every named count is an earlier *top-level* integer attribute of 1–2 bytes (or, with `bf`, an earlier
    top-level flag); `prior` = the top-level sources seen so far -/
def okCounts (bf : Bool) (prior : List (Name × CountSrc)) : Item → Bool
  | .attr _ _ _ => true
  | .bits _ _ _ => true
  | .group _ cnt items =>
    (match cnt with
     | .named a => (match prior.find? (fun p => p.1 == a) with
                    | some p => okCountSrc bf p.2
                    | none => false)
     | _ => true) && okCountsL bf prior items
def okCountsL (bf : Bool) (prior : List (Name × CountSrc)) : List Item → Bool
  | [] => true
  | i :: is => okCounts bf prior i && okCountsL bf prior is
end

/-- W3 along the top level: `prior` grows as items are passed -/
def okCountsTop (bf : Bool) : List (Name × CountSrc) → List Item → Bool
  | _, [] => true
  | prior, i :: is => okCounts bf prior i && okCountsTop bf (prior ++ topSources i) is

def isVarGroup : Item → Bool
  | .group _ .var _ => true
  | _ => false

def plainMember : Item → Bool
  | .attr _ ty .one => ty != .ch
  | .bits _ _ _ => true
  | _ => false

def memberBytes : Item → Nat
  | .attr _ ty _ => tySize ty
  | .bits _ ty _ => tySize ty
  | .group _ _ _ => 0

mutual
def noVarInside : Item → Bool
  | .group _ cnt items => cnt != .var && noVarInsideL items
  | _ => true
def noVarInsideL : List Item → Bool
  | [] => true
  | i :: is => noVarInside i && noVarInsideL is
end

/-- W4: at most one variable-by-size group, it is the last top-level item, its members are plain attributes /
    bitfields of non-zero total size; no variable group below the top level -/
def okVar : List Item → Bool
  | [] => true
  | [i] =>
    (match i with
     | .group _ .var items => items.all plainMember && (items.map memberBytes).sum > 0
     | .group _ _ items => noVarInsideL items
     | _ => true)
  | i :: is => !isVarGroup i && noVarInside i && okVar is

mutual
/-- exposed base names of an item in the flag view (reserved flags and `_HP` parts excluded) -/
def namesOf : Item → List Name
  | .attr n _ _ => if nameLen n ≥ 3 && nameTake n 3 = nmHP then [] else [n]
  | .bits _ _ flags => (flags.filter (fun f => !isReservedName f.1)).map (fun f => f.1)
  | .group _ _ items => namesOfL items
def namesOfL : List Item → List Name
  | [] => []
  | i :: is => namesOf i ++ namesOfL is
end

mutual
/-- exposed base names in the raw-bitfield view -/
def namesOf0 : Item → List Name
  | .attr n _ _ => if nameLen n ≥ 3 && nameTake n 3 = nmHP then [] else [n]
  | .bits n _ _ => [n]
  | .group _ _ items => namesOf0L items
def namesOf0L : List Item → List Name
  | [] => []
  | i :: is => namesOf0 i ++ namesOf0L is
end

/-- O(n²) distinctness, fine for the few dozen names of one definition -/
def distinctNames : List Name → Bool
  | [] => true
  | x :: xs => !xs.contains x && distinctNames xs

/-- W6: no top-level name is one of `UBXMessage`'s own names -/
def okOwn (ctx : Ctx) (d : List Item) : Bool :=
  d.all (fun i => match i with
    | .attr n _ _ => !ctx.ownNames.contains n
    | .bits n _ flags => !ctx.ownNames.contains n && flags.all (fun f => !ctx.ownNames.contains f.1)
    | .group _ _ _ => true)

/-- W8: "CH" only as the sole item of a definition -/
def okCH (d : List Item) : Bool :=
  match d with
  | [.attr _ .ch .one] => true
  | _ =>
    let rec noCH : List Item → Bool
      | [] => true
      | .attr _ ty _ :: is => ty != .ch && noCH is
      | .bits _ _ _ :: is => noCH is
      | .group _ _ items :: is => noCHg items && noCH is
    noCH d
where
  noCHg : List Item → Bool
    | [] => true
    | .attr _ ty _ :: is => ty != .ch && noCHg is
    | _ :: is => noCHg is

/-- W9: `_HPx` only after `x` in the same item list -/
def okHP : List Name → List Item → Bool
  | _, [] => true
  | seen, .attr n _ _ :: is =>
    (if nameLen n ≥ 3 && nameTake n 3 = nmHP then seen.contains (nameDrop n 3) else true) && okHP (seen ++ [n]) is
  | seen, _ :: is => okHP seen is

/-- rule numbers that a definition breaks (empty = well-formed). `bf` selects the view:
    `true` = flags parsed (wf₁), `false` = raw bitfields (wf₀) -/
def brokenRules (ctx : Ctx) (bf : Bool) (d : List Item) : List Nat :=
  (if okItems ctx d then [] else [1]) ++
  (if okCountsTop bf [] d then [] else [3]) ++
  (if okVar d then [] else [4]) ++
  (if distinctNames (if bf then namesOfL d else namesOf0L d) then [] else [5]) ++
  (if okOwn ctx d then [] else [6]) ++
  (if okCH d then [] else [8]) ++
  (if okHP [] d then [] else [9])

def wfDefn (ctx : Ctx) (bf : Bool) (d : List Item) : Bool := (brokenRules ctx bf d).isEmpty

/-- all definitions of the three tables with their mode -/
def allDefs (ctx : Ctx) : List (Mode × Name × Defn) :=
  ctx.get.map (fun e => (Mode.get, e.1, e.2)) ++ ctx.set.map (fun e => (Mode.set, e.1, e.2)) ++
  ctx.poll.map (fun e => (Mode.poll, e.1, e.2))

/-! ### reachability: which (mode, class/id) resolves to which definition name -/

/-- the definitions a selector can return (hand model of `ubxvariants.py`; `mga` returns whatever
    `UBX_MSGIDS[msg + type]` names) -/
def selectorTargets : Selector → List (Mode × Name)
  | .cfgtp5 => [(.poll, N.dCfgTp5Tpx), (.poll, N.dCfgTp5)]
  | .rxmpmreq => [(.set, N.dRxmPmreq), (.set, N.dRxmPmreqS)]
  | .rxmpmp => [(.set, N.dRxmPmpV0), (.set, N.dRxmPmpV1)]
  | .rxmrlm => [(.get, N.dRxmRlmS), (.get, N.dRxmRlmL)]
  | .cfgnmea => [(.get, N.dCfgNmeaVX), (.get, N.dCfgNmeaV0), (.get, N.dCfgNmea)]
  | .aopstatus => [(.get, N.dAopStatusL), (.get, N.dAopStatus)]
  | .relposned => [(.get, N.dRelposnedV0), (.get, N.dRelposned)]
  | .timvcocal => [(.set, N.dTimVcocalV0), (.set, N.dTimVcocal)]
  | .cfgdat => [(.set, N.dCfgDatNum), (.set, N.dCfgDat)]
  | .secsig => [(.get, N.dSecSigV1), (.get, N.dSecSigV2)]
  | .alpsrv => [(.get, N.dAlpsrvSend), (.get, N.dAlpsrvReq)]
  | .mga => []
  | .unknown _ => []

/-- class/id byte strings under which definition `name` of table `mode` can be selected -/
def idsOf (ctx : Ctx) (mode : Mode) (name : Name) : List Bytes :=
  -- directly through UBX_MSGIDS (2-byte keys; 3-byte MGA keys when the class/id has the mga selector or none)
  ((ctx.msgids.filter (fun e => e.2 == name)).filterMap (fun e =>
    let k2 := e.1.take 2
    match findVariant ctx mode k2 with
    | none => some k2
    | some .mga => if e.1.length = 3 then some k2 else none
    | some _ => none)) ++
  -- through a variant selector
  ((ctx.variants.filter (fun v => v.1 == mode && (selectorTargets v.2.2).any (fun t => t.2 == name))).filterMap (fun v =>
    -- the selector returns from a fixed table, which must be `mode`'s own table for the result to be this definition
    if (selectorTargets v.2.2).any (fun t => t.1 == mode && t.2 == name) then some v.2.1 else none))

end Ubx
