import Ubx.Model.Basic
/-!
# Exact IEEE-754 binary64 / binary32 arithmetic over naturals

A float is carried as its bit pattern (`Nat`). Every operation decodes to an exact signed
rational `num/den`, computes exactly, and rounds once to nearest-even (`rn`). This is the
behaviour IEEE-754 prescribes for `*`, `/`, `+`, int→float, and it is what CPython does for
`round(x, 12)` (correctly rounded decimal rounding via `dtoa` mode 3 followed by `strtod`).

Trusted (validated by the correspondence check `f64` ops against CPython on every run, not proved):
that CPython on this platform is IEEE-754 with round-to-nearest-even.
-/
namespace Ubx.F64

/-- round-half-even of `a / b` (b > 0) -/
def rhe (a b : Nat) : Nat :=
  let q := a / b
  let r := a % b
  if 2 * r < b then q else if b < 2 * r then q + 1 else if q % 2 = 0 then q else q + 1

/-- exact signed rational -/
structure Q where
  neg : Bool
  num : Nat
  den : Nat
deriving Repr, DecidableEq

/-- scale `num/den` by `2^(-E)` without leaving the naturals -/
def scaled (num den : Nat) (E : Int) : Nat × Nat :=
  if E ≥ 0 then (num, den * 2 ^ E.toNat) else (num * 2 ^ (-E).toNat, den)

/-- nearest-even rounding of a positive rational to precision `p+1` bits with minimum exponent `emin`:
    returns `(M, E)` with value `M * 2^E`, `M < 2^(p+1)`, `E ≥ emin`, and `M ≥ 2^p` unless `E = emin`. -/
def rnME (p : Nat) (emin : Int) (num den : Nat) : Nat × Int :=
  let ln := num.log2
  let ld := den.log2
  let E0 : Int := (ln : Int) - (ld : Int) - (p : Int)
  let ab0 := scaled num den E0
  let E1 := if ab0.1 < ab0.2 * 2 ^ p then E0 - 1 else E0
  let E := if E1 < emin then emin else E1
  let ab := scaled num den E
  let M := rhe ab.1 ab.2
  if M = 2 ^ (p + 1) then (2 ^ p, E + 1) else (M, E)

def signBit (neg : Bool) : Nat := if neg then 2 ^ 63 else 0
def posInf : Nat := 2047 * 2 ^ 52
def nanBits : Nat := 2047 * 2 ^ 52 + 2 ^ 51

def isNaN (b : Nat) : Bool := (b / 2 ^ 52) % 2048 = 2047 && b % 2 ^ 52 ≠ 0
def isInf (b : Nat) : Bool := (b / 2 ^ 52) % 2048 = 2047 && b % 2 ^ 52 = 0
def isFinite (b : Nat) : Bool := (b / 2 ^ 52) % 2048 ≠ 2047
def isNeg (b : Nat) : Bool := b / 2 ^ 63 % 2 = 1

/-- round an exact rational to binary64 (overflow gives ±inf) -/
def rn (q : Q) : Nat :=
  if q.num = 0 then signBit q.neg else
  let me := rnME 52 (-1074) q.num q.den
  let M := me.1
  let E := me.2
  if M < 2 ^ 52 then signBit q.neg + M
  else
    let be := E + 1075
    if be ≥ 2047 then signBit q.neg + posInf
    else signBit q.neg + be.toNat * 2 ^ 52 + (M - 2 ^ 52)

/-- exact value of a finite binary64 -/
def toQ (b : Nat) : Q :=
  let e := (b / 2 ^ 52) % 2048
  let m := b % 2 ^ 52
  if e = 0 then ⟨isNeg b, m, 2 ^ 1074⟩
  else if e ≥ 1075 then ⟨isNeg b, (2 ^ 52 + m) * 2 ^ (e - 1075), 1⟩
  else ⟨isNeg b, 2 ^ 52 + m, 2 ^ (1075 - e)⟩

def ofNatQ (neg : Bool) (n : Nat) : Q := ⟨neg, n, 1⟩

/-- Python `float(i)` for an int: `none` = OverflowError -/
def ofInt (i : Int) : Option Nat :=
  let b := rn ⟨i < 0, i.natAbs, 1⟩
  if isInf b then none else some b

def mulQ (a b : Q) : Q := ⟨a.neg != b.neg, a.num * b.num, a.den * b.den⟩
def divQ (a b : Q) : Q := ⟨a.neg != b.neg, a.num * b.den, a.den * b.num⟩
def addQ (a b : Q) : Q :=
  let x := a.num * b.den
  let y := b.num * a.den
  let d := a.den * b.den
  if a.neg = b.neg then ⟨a.neg, x + y, d⟩
  else if x ≥ y then ⟨a.neg, x - y, d⟩ else ⟨b.neg, y - x, d⟩

/-- float * float -/
def mul (a b : Nat) : Nat :=
  if isNaN a || isNaN b then nanBits
  else if isInf a || isInf b then
    (if (isInf a && (toQ b).num = 0 && isFinite b) || (isInf b && (toQ a).num = 0 && isFinite a) then nanBits
     else signBit (isNeg a != isNeg b) + posInf)
  else rn (mulQ (toQ a) (toQ b))

/-- float / float; `none` = ZeroDivisionError -/
def div (a b : Nat) : Option Nat :=
  if isFinite b && (toQ b).num = 0 then none
  else if isNaN a || isNaN b then some nanBits
  else if isInf a then (if isInf b then some nanBits else some (signBit (isNeg a != isNeg b) + posInf))
  else if isInf b then some (signBit (isNeg a != isNeg b))
  else some (rn (divQ (toQ a) (toQ b)))

/-- float + float -/
def add (a b : Nat) : Nat :=
  if isNaN a || isNaN b then nanBits
  else if isInf a then (if isInf b && isNeg a != isNeg b then nanBits else a)
  else if isInf b then b
  else
    let s := addQ (toQ a) (toQ b)
    if s.num = 0 then
      -- exact zero sum: +0 unless both operands are -0 (round-to-nearest)
      signBit (isNeg a && isNeg b)
    else rn s

/-- Python `round(x, 12)` on a float -/
def round12 (x : Nat) : Nat :=
  if !isFinite x then x else
  let q := toQ x
  let y := rhe (q.num * 10 ^ 12) q.den
  rn ⟨q.neg, y, 10 ^ 12⟩

/-- Python `int(x)` on a float: error kinds as Python raises them -/
def trunc (x : Nat) : R Int :=
  if isNaN x then .error .valueE
  else if isInf x then .error .overflowE
  else
    let q := toQ x
    let n : Int := (q.num / q.den : Nat)
    .ok (if q.neg then -n else n)

/-- `struct.pack("<f", x)`: binary32 bit pattern, `none` = OverflowError -/
def toF32 (x : Nat) : Option Nat :=
  let s := if isNeg x then 2 ^ 31 else 0
  if isNaN x then some (s + 255 * 2 ^ 23 + 2 ^ 22)
  else if isInf x then some (s + 255 * 2 ^ 23)
  else
    let q := toQ x
    if q.num = 0 then some s else
    let me := rnME 23 (-149) q.num q.den
    let M := me.1
    let E := me.2
    if M < 2 ^ 23 then some (s + M)
    else
      let be := E + 150
      if be ≥ 255 then none else some (s + be.toNat * 2 ^ 23 + (M - 2 ^ 23))

/-- `struct.unpack("<f", b)`: widen a binary32 bit pattern to binary64 (exact) -/
def ofF32 (b : Nat) : Nat :=
  let neg := b / 2 ^ 31 % 2 = 1
  let e := (b / 2 ^ 23) % 256
  let m := b % 2 ^ 23
  if e = 255 then (if m = 0 then signBit neg + posInf else signBit neg + nanBits)
  else if e = 0 then rn ⟨neg, m, 2 ^ 149⟩
  else if e ≥ 150 then rn ⟨neg, (2 ^ 23 + m) * 2 ^ (e - 150), 1⟩
  else rn ⟨neg, 2 ^ 23 + m, 2 ^ (150 - e)⟩

end Ubx.F64
