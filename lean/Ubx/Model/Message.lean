import Ubx.Model.Walk
import Ubx.Model.Checksum
import Ubx.Model.Names
/-!
# `UBXMessage`: constructor, `_do_attributes`, `_get_dict`, variant selectors, `identity`,
`serialize`, `__setattr__`/`__delattr__`, `__repr__` re-evaluation, `config_set/del/poll`,
and `UBXReader.parse`, `getinputmode`.
-/
namespace Ubx

/-- keyword arguments of the constructor, in the modelled domain -/
inductive Kw where
  | empty                                   -- no keyword arguments: null payload
  | payload (p : Bytes)                     -- `payload=…` (any other keyword is ignored by the walk)
  | attrs (kw : List (AName × PyVal))       -- individual attribute keywords (non-empty)
deriving Repr, Inhabited

structure Msg where
  cls : Bytes
  id : Bytes
  mode : Mode
  /-- `None` for the null payload -/
  payload : Option Bytes
  length : Bytes
  checksum : Bytes
  parsebf : Bool
  /-- public attributes in `__dict__` order -/
  env : Env
  immutable : Bool
deriving Repr, Inhabited, DecidableEq

inductive Ident where
  | known (n : Name)
  | nominal
deriving DecidableEq, Repr

/-- `identity` property (after fix 04fab32: a `None` payload is read as empty) -/
def identityOf (ctx : Ctx) (cls id : Bytes) (payload : Option Bytes) : Ident :=
  let key :=
    if cls = [0x13] ∧ id ≠ [0x80] then cls ++ id ++ slice (payload.getD []) 0 1
    else cls ++ id
  match lookupB key ctx.msgids with
  | some n => .known n
  | none => .nominal

def Msg.identity (ctx : Ctx) (m : Msg) : Ident := identityOf ctx m.cls m.id m.payload

def tableOf (ctx : Ctx) : Mode → List (Name × Defn)
  | .get => ctx.get | .set => ctx.set | .poll => ctx.poll

/-- `TABLE[name]`, KeyError ↦ `keyE` -/
def defnByName (tbl : List (Name × Defn)) (n : Name) : R Defn :=
  match lookup n tbl with
  | some d => .ok d
  | none => .error .keyE

def kwHas (kw : Kw) (n : Name) : Bool :=
  match kw with
  | .attrs l => l.any (fun p => p.1 == (⟨n, []⟩ : AName))
  | _ => false

def kwGet (kw : Kw) (n : Name) : Option PyVal :=
  match kw with
  | .attrs l => kwLookup l ⟨n, []⟩
  | _ => none

def kwPayload? : Kw → Option Bytes
  | .payload p => some p
  | _ => none

/-- the common "discriminator byte" idiom of the selectors:
    `val2bytes(kwargs[k], U1)` if the keyword is present, else `payload[a:b]`, else UBXMessageError -/
def discr (ctx : Ctx) (kw : Kw) (k : Name) (a b : Nat) : R Bytes :=
  match kwGet kw k with
  | some v => val2bytes ctx.atttype v (.t cU 1)
  | none =>
    match kwPayload? kw with
    | some p => .ok (slice p a b)
    | none => .error .ubxMessage

/-- the selector functions of `ubxvariants.py` -/
def selectDefn (ctx : Ctx) (sel : Selector) (msg : Bytes) (mode : Mode) (kw : Kw) : R Defn :=
  match sel with
  | .cfgtp5 =>
    let lp := match kwPayload? kw with
      | some p => p.length
      | none => if kwHas kw N.kwTpIdx then 1 else 0
    if lp = 1 then defnByName ctx.poll N.dCfgTp5Tpx else defnByName ctx.poll N.dCfgTp5
  | .mga => do
    let typ ← discr ctx kw N.kwType 0 1
    match lookupB (msg ++ typ) ctx.msgids with
    | none => .error .keyE
    | some ident => if mode = .set then defnByName ctx.set ident else defnByName ctx.get ident
  | .rxmpmreq =>
    if kwHas kw N.kwVersion then defnByName ctx.set N.dRxmPmreq
    else match kwPayload? kw with
      | some p => if p.length = 16 then defnByName ctx.set N.dRxmPmreq else defnByName ctx.set N.dRxmPmreqS
      | none => .error .ubxMessage
  | .rxmpmp => do
    let ver ← discr ctx kw N.kwVersion 0 1
    if ver = [0] then defnByName ctx.set N.dRxmPmpV0 else defnByName ctx.set N.dRxmPmpV1
  | .rxmrlm => do
    let typ ← discr ctx kw N.kwType 1 2
    if typ = [1] then defnByName ctx.get N.dRxmRlmS else defnByName ctx.get N.dRxmRlmL
  | .cfgnmea =>
    match kwPayload? kw with
    | none => .error .ubxMessage
    | some p =>
      if p.length = 4 then defnByName ctx.get N.dCfgNmeaVX
      else if p.length = 12 then defnByName ctx.get N.dCfgNmeaV0
      else defnByName ctx.get N.dCfgNmea
  | .aopstatus =>
    match kwPayload? kw with
    | none => .error .ubxMessage
    | some p => if p.length = 20 then defnByName ctx.get N.dAopStatusL else defnByName ctx.get N.dAopStatus
  | .relposned => do
    let ver ← discr ctx kw N.kwVersion 0 1
    if ver = [0] then defnByName ctx.get N.dRelposnedV0 else defnByName ctx.get N.dRelposned
  | .timvcocal =>
    match kwGet kw N.kwType with
    | some v =>
      -- lpd = 1; `typ == 0` on an arbitrary Python value
      let isZero : Bool := match v with
        | .int i => i == 0
        | .bool b => !b
        | .float b => F64.isFinite b && (F64.toQ b).num = 0
        | _ => false
      if isZero then defnByName ctx.set N.dTimVcocalV0 else defnByName ctx.set N.dTimVcocal
    | none =>
      match kwPayload? kw with
      | some p => if p.length = 1 then defnByName ctx.set N.dTimVcocalV0 else defnByName ctx.set N.dTimVcocal
      | none => .error .ubxMessage
  | .cfgdat =>
    let lpd := match kwPayload? kw with | some p => p.length | none => 0
    if lpd = 2 || kwHas kw N.kwDatumNum then defnByName ctx.set N.dCfgDatNum else defnByName ctx.set N.dCfgDat
  | .secsig => do
    let ver ← discr ctx kw N.kwVersion 0 1
    if ver = [1] then defnByName ctx.get N.dSecSigV1 else defnByName ctx.get N.dSecSigV2
  | .alpsrv => do
    let typ ← discr ctx kw N.kwType 1 2
    if typ = [0xff] then defnByName ctx.get N.dAlpsrvSend else defnByName ctx.get N.dAlpsrvReq
  | .unknown _ => .error .memoryE   -- a selector the hand model does not know: never matches the code

def findVariant (ctx : Ctx) (mode : Mode) (msg : Bytes) : Option Selector :=
  match ctx.variants.find? (fun v => v.1 == mode && v.2.1 == msg) with
  | some v => some v.2.2
  | none => none

/-- `except KeyError as err: raise UBXMessageError(…)` -/
def keyToMsg {α : Type} : R α → R α
  | .error .keyE => .error .ubxMessage
  | x => x

/-- `_get_dict`: KeyError ↦ UBXMessageError -/
def getDict (ctx : Ctx) (cls id : Bytes) (mode : Mode) (kw : Kw) : R Defn :=
  let msg := cls ++ id
  let r : R Defn :=
    match findVariant ctx mode msg with
    | some sel => selectDefn ctx sel msg mode kw
    | none =>
      match identityOf ctx cls id (kwPayload? kw <|> some []) with
      | .known n => defnByName (tableOf ctx mode) n
      | .nominal => if mode = .get then .ok [] else .error .keyE
  keyToMsg r

/-- `_do_len_checksum` -/
def lenChecksum (cls id : Bytes) (payload : Option Bytes) : R (Bytes × Bytes) :=
  if (payload.getD []).length < 65536 then
    .ok (toLE 2 (payload.getD []).length,
         calcChecksum (cls ++ id ++ toLE 2 (payload.getD []).length ++ payload.getD []))
  else .error .overflowE

/-- the `except` clauses of `_do_attributes` (after fixes f2f2bdb, 9d426cd): the listed exceptions
    (both clauses) become UBXTypeError -/
def translateExc (ctx : Ctx) (e : Exc) : Exc :=
  if ctx.catchType.contains e then .ubxType else e

def walkCtx (ctx : Ctx) (cls id : Bytes) (mode : Mode) (parsebf : Bool) (kw : Kw) : WCtx :=
  { ctx := ctx, parsebf := parsebf, hasPayload := (kwPayload? kw).isSome,
    kwargs := (match kw with | .attrs l => l | _ => []),
    cfgval := cls = [0x06] && ((id = [0x8b] && mode = .get) || (id = [0x8a] && mode = .set)),
    esfmeas := cls = [0x10] && id = [0x02] && mode = .set }

/-- the body of `_do_attributes` before `_do_len_checksum`: final payload and attributes -/
def walkFor (ctx : Ctx) (cls id : Bytes) (mode : Mode) (parsebf : Bool) (kw : Kw) : R (Option Bytes × Env) :=
  match kw with
  | .empty => .ok (none, [])
  | _ =>
    match getDict ctx cls id mode kw with
    | .error e => .error e
    | .ok defn =>
      match wItems (walkCtx ctx cls id mode parsebf kw) [] defn ⟨0, (kwPayload? kw).getD [], []⟩ with
      | .error e => .error e
      | .ok st => .ok (some st.payload, st.env)

/-- constructor with class and id already as bytes -/
def construct (ctx : Ctx) (cls id : Bytes) (modeN : Nat) (parsebf : Bool) (kw : Kw) : R Msg :=
  match Mode.ofNat? modeN with
  | none => .error .ubxMessage
  | some mode =>
    match walkFor ctx cls id mode parsebf kw with
    | .error e => .error (translateExc ctx e)
    | .ok pe =>
      match lenChecksum cls id pe.1 with
      | .error e => .error (translateExc ctx e)
      | .ok lc =>
        .ok { cls := cls, id := id, mode := mode, payload := pe.1, length := lc.1, checksum := lc.2,
              parsebf := parsebf, env := pe.2, immutable := true }

/-- `serialize()` -/
def Msg.serialize (m : Msg) : Bytes :=
  [0xb5, 0x62] ++ m.cls ++ m.id ++ m.length ++ m.payload.getD [] ++ m.checksum

/-- `length` property: `bytes2val(self._length, U2)` -/
def Msg.lengthVal (m : Msg) : Nat := fromLE m.length

/-- `eval(repr(m))`: the constructor re-invoked with class, id, mode and payload -/
def reprEval (ctx : Ctx) (m : Msg) : R Msg :=
  match m.payload with
  | none => construct ctx m.cls m.id m.mode.toNat true .empty
  | some p => construct ctx m.cls m.id m.mode.toNat true (.payload p)

/-- `setattr(m, name, v)` after construction -/
def Msg.setattr (m : Msg) (_n : AName) (_v : PyVal) : R Msg :=
  if m.immutable then .error .ubxMessage else .ok m

/-- `delattr(m, name)` after construction (after fix 7f8339a) -/
def Msg.delattr (m : Msg) (_n : AName) : R Msg :=
  if m.immutable then .error .ubxMessage else .ok m

/-- `msgclass2bytes(cls, id)` for int class and id -/
def msgclass2bytes (ctx : Ctx) (c i : Int) : R (Bytes × Bytes) := do
  let cb ← val2bytes ctx.atttype (.int c) (.t cU 1)
  let ib ← val2bytes ctx.atttype (.int i) (.t cU 1)
  pure (cb, ib)

/-- `msgstr2bytes(cls, id)`: reverse lookups in `UBX_CLASSES` / `UBX_MSGIDS` -/
def msgstr2bytes (ctx : Ctx) (c i : Name) : R (Bytes × Bytes) :=
  match ctx.classes.find? (fun e => e.2 == c), ctx.msgids.find? (fun e => e.2 == i) with
  | some ce, some ie => .ok (ce.1, slice ie.1 1 2)
  | _, _ => .error .ubxMessage

/-- `getinputmode(data)` -/
def getinputmode (ctx : Ctx) (data : Bytes) : Mode :=
  if data.length = ctx.pollLen || ctx.pollAlways.contains (slice data 2 4)
     || (ctx.pollShort.contains (slice data 2 4) && data.length ≤ ctx.pollMaxLen)
  then .poll else .set

/-- the payload `parse` hands to the constructor: `None` when the length field is `00 00` -/
def parsePayload (message : Bytes) : Option Bytes :=
  if slice message 4 6 = [0, 0] then none else some (pySlice message 6 ((message.length : Int) - 2))

/-- the three tests made under `validate & VALCKSUM` (each failure raises UBXParseError):
    header, `len(message) - 8 == length field` (fix 8176d01), checksum -/
def validFrame (message : Bytes) : Bool :=
  slice message 0 2 == [0xb5, 0x62]
  && ((message.length : Int) - 8 == (fromLE (slice message 4 6) : Int))
  && pySlice message ((message.length : Int) - 2) message.length
      == calcChecksum (slice message 2 3 ++ slice message 3 4 ++ slice message 4 6 ++ (parsePayload message).getD [])

/-- `UBXReader.parse(message, msgmode, validate, parsebitfield)` (after fix 8176d01) -/
def parse (ctx : Ctx) (msgmode validate : Nat) (parsebf : Bool) (message : Bytes) : R Msg :=
  if msgmode > 3 then .error .ubxParse
  else if validate &&& 1 ≠ 0 ∧ validFrame message = false then .error .ubxParse
  else
    let mode := if msgmode = 3 then (getinputmode ctx message).toNat else msgmode
    match parsePayload message with
    | none => construct ctx (slice message 2 3) (slice message 3 4) mode true .empty
    | some p => construct ctx (slice message 2 3) (slice message 3 4) mode parsebf (.payload p)

/-! ### `__str__`: only *whether it raises* is modelled -/

/-- `itow2utc(val)` raising behaviour -/
def itowExc (v : PyVal) : Option Exc :=
  match v with
  | .int i =>
    -- EPOCH0 + timedelta(seconds = i/1000 - 18) must stay inside datetime's range
    if -62451561582000 ≤ i ∧ i ≤ 253086336017999 then none else some .overflowE
  | .bool _ => none
  | .float b => if F64.isNaN b then some .valueE else if F64.isInf b then some .overflowE else none
  | _ => some .typeE

/-- the loop of `__str__` over the public attributes: first exception raised, if any.
    `clsidSet` tracks whether `clsid` has been assigned (`msgID` is only converted then). -/
def strLoop (ack : Bool) : Env → Bool → Option Exc
  | [], _ => none
  | (n, v) :: rest, clsidSet =>
    let u1 : Option Exc :=
      match v.asInt? with
      | some i => if 0 ≤ i ∧ i < 256 then none else some .overflowE
      | none => some .typeE
    if n.idx.isEmpty && n.base = N.aITOW then
      match itowExc v with
      | some e => some e
      | none => strLoop ack rest clsidSet
    else if ack && n.idx.isEmpty && (n.base = N.aClsID || n.base = N.aMsgClass) then
      match u1 with
      | some e => some e
      | none => strLoop ack rest true
    else if ack && n.idx.isEmpty && n.base = N.aMsgID && clsidSet then
      match u1 with
      | some e => some e
      | none => strLoop ack rest clsidSet
    else strLoop ack rest clsidSet

/-- the exception `str(m)` raises, if any -/
def Msg.strExc (m : Msg) : Option Exc :=
  match m.payload with
  | none => none
  | some _ =>
    strLoop (m.cls = [0x05] || (m.cls = [0x06] && m.id = [0x01])) m.env false

/-! ### configuration database helpers -/

inductive CfgKey where
  | byName (n : Name)
  | byId (k : Nat)
deriving Repr

/-- `version + layers + transaction + b"\x00"` -/
def cfgHeader (ctx : Ctx) (layers transaction : Int) : R Bytes := do
  let v ← val2bytes ctx.atttype (.int (if transaction = 0 then 0 else 1)) (.t cU 1)
  let l ← val2bytes ctx.atttype (.int layers) (.t cU 1)
  let t ← val2bytes ctx.atttype (.int transaction) (.t cU 1)
  pure (v ++ l ++ t ++ [0])

def keyId (ctx : Ctx) : CfgKey → R Nat
  | .byName n => do let (k, _) ← cfgname2key ctx n; pure k
  | .byId k => .ok k

def cfgItems (ctx : Ctx) : List (CfgKey × PyVal) → R Bytes
  | [] => .ok []
  | (k, v) :: rest => do
    let (kid, ty) ← (match k with
      | .byName n => cfgname2key ctx n
      | .byId kid => do let (_, ty) ← cfgkey2name ctx kid; pure (kid, ty))
    let kb ← val2bytes ctx.atttype (.int kid) (.t cU 4)
    let vb ← val2bytes ctx.atttype v ty
    let r ← cfgItems ctx rest
    pure (kb ++ vb ++ r)

def cfgKeys (ctx : Ctx) : List CfgKey → R Bytes
  | [] => .ok []
  | k :: rest => do
    let kid ← keyId ctx k
    let kb ← val2bytes ctx.atttype (.int kid) (.t cU 4)
    let r ← cfgKeys ctx rest
    pure (kb ++ r)

/-- `UBXMessage("CFG", name, mode, payload=…)` -/
def constructNamed (ctx : Ctx) (c i : Name) (mode : Nat) (p : Bytes) : R Msg := do
  let (cb, ib) ← msgstr2bytes ctx c i
  construct ctx cb ib mode true (.payload p)

def configSet (ctx : Ctx) (layers transaction : Int) (data : List (CfgKey × PyVal)) : R Msg :=
  if data.length > 64 then .error .ubxMessage else do
    let h ← cfgHeader ctx layers transaction
    let l ← cfgItems ctx data
    constructNamed ctx N.cCFG N.dCfgValset 1 (h ++ l)

def configDel (ctx : Ctx) (layers transaction : Int) (keys : List CfgKey) : R Msg :=
  if keys.length > 64 then .error .ubxMessage else do
    let h ← cfgHeader ctx layers transaction
    let l ← cfgKeys ctx keys
    constructNamed ctx N.cCFG N.dCfgValdel 1 (h ++ l)

def configPoll (ctx : Ctx) (layer position : Int) (keys : List CfgKey) : R Msg :=
  if keys.length > 64 then .error .ubxMessage else do
    let v ← val2bytes ctx.atttype (.int 0) (.t cU 1)
    let l ← val2bytes ctx.atttype (.int layer) (.t cU 1)
    let p ← val2bytes ctx.atttype (.int position) (.t cU 2)
    let ks ← cfgKeys ctx keys
    constructNamed ctx N.cCFG N.dCfgValget 2 (v ++ l ++ p ++ ks)

end Ubx
