import Ubx.Model.Reader
/-!
# Two byte sources: `io.BytesIO` and `SocketWrapper`, as seen through `_read_bytes` / `_read_line`
(after fix bb00c73: a request for zero bytes returns `b""` and is not end-of-stream).
-/
namespace Ubx

/-- `io.BytesIO.read(n)` through `_read_bytes(n)` -/
def fileRead (n : Nat) (s : Bytes) : Res Bytes :=
  if n = 0 then .ok [] s
  else if s.length = 0 then .eof           -- `read` returned b""
  else if s.length < n then .short         -- fewer bytes than asked for: UBXStreamError; stream now empty
  else .ok (s.take n) (s.drop n)

def lineLen : Bytes → Nat
  | [] => 0
  | b :: bs => if b = 0x0a then 1 else 1 + lineLen bs

def hasLF : Bytes → Bool
  | [] => false
  | b :: bs => b = 0x0a || hasLF bs

/-- `io.BytesIO.readline()` through `_read_line()` -/
def fileLine (s : Bytes) : Res Bytes :=
  if s = [] then .eof else if hasLF s then .ok (s.take (lineLen s)) (s.drop (lineLen s)) else .short

def fileSrc : Src Bytes := ⟨fileRead, fileLine⟩

/-- SocketWrapper state: internal buffer and what the following `recv()` calls will deliver;
    after the last chunk `recv()` reports closure or times out (both make `_recv` return False). -/
structure Sock where
  buf : Bytes
  chunks : List Bytes
deriving Repr

def Sock.all (st : Sock) : Bytes := st.buf ++ st.chunks.flatten

/-- `while len(self._buffer) < num: if not self._recv(): return b""`.
    The chunk list holds what the successful `recv()` calls return (non-empty by the socket API);
    when it is exhausted `recv()` returns `b""` or raises — `_recv` returns False either way. -/
def topUp (n : Nat) : Bytes → List Bytes → Option Sock
  | buf, [] => if n ≤ buf.length then some ⟨buf, []⟩ else none
  | buf, c :: cs =>
    if n ≤ buf.length then some ⟨buf, c :: cs⟩
    else topUp n (buf ++ c) cs

/-- `SocketWrapper.read(n)` followed by `_read_bytes`'s classification -/
def sockRead (n : Nat) (st : Sock) : Res Sock :=
  match topUp n st.buf st.chunks with
  | none => .eof
  | some st' => if n = 0 then .ok [] st' else .ok (st'.buf.take n) ⟨st'.buf.drop n, st'.chunks⟩

/-- `SocketWrapper.readline()`: `read(1)` until LF or failure; then `_read_line`'s classification -/
def sockLineAux : Nat → Sock → Bytes → Res Sock
  | 0, _, acc => if acc.isEmpty then .eof else .short
  | f+1, st, acc =>
    match sockRead 1 st with
    | .ok d st' =>
      let acc' := acc ++ d
      if d = [0x0a] then .ok acc' st' else sockLineAux f st' acc'
    | _ => if acc.isEmpty then .eof else .short

def sockLine (st : Sock) : Res Sock := sockLineAux (st.all.length + 1) st []

def sockSrc : Src Sock := ⟨sockRead, sockLine⟩

/-- the constructor `SocketWrapper(sock)` performs one `_recv()` -/
def sockInit (chunks : List Bytes) : Sock :=
  match chunks with
  | [] => ⟨[], []⟩
  | c :: cs => ⟨c, cs⟩

end Ubx
