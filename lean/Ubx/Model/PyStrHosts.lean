import Ubx.Model.PyHosts
import Ubx.Model.Message
import Ubx.Generated.Code
/-!
# Host of the translated `UBXMessage.__str__` (definitions only)

What `__str__` talks to when run under the PyLite semantics: the message's identity (only asked whether it ends in NOMINAL
and whether it is MON-VER), its class / id / payload fields, and `__dict__` — private entries first (their names begin
with an underscore), then the public attributes in the model's `env` order. Attribute names are opaque objects that
answer `== "literal"`, `[0]` and `[0:6]`; values travel as PyLite values (`V.ofPy`). The texts built (`escapeall`,
`gnss2str`, `str`, `+`) are not inspected. The calls that can fail are answered by the model: `itow2utc` by `itowExc`,
`val2bytes(·, U1)` by the range / type test `u1Exc`. Kept apart from the proof (Proofs/CodeStr) because the driver runs the
translated method against this host (`pyl-strm`).
-/
namespace Ubx.Py
open Ubx

inductive StO where
  | self | dict | ident | last7
  | priv (k : Nat)          -- a private entry of `__dict__` (`_mode`, `_payload`, …)
  | key (j : Nat)           -- the j-th public attribute name
  | ch0 (j : Nat)           -- its first character
  | pre6 (j : Nat)          -- its first six characters

/-- what `__str__` reads of the message -/
structure StrCfg where
  cls : Bytes
  id : Bytes
  payload : Option Bytes
  nominal : Bool            -- identity ends in NOMINAL
  monver : Bool             -- identity is MON-VER
  npriv : Nat               -- private entries of `__dict__` (they come first)
  env : Env

def u1Exc (v : PyVal) : Option Exc :=
  match v.asInt? with
  | some i => if 0 ≤ i ∧ i < 256 then none else some .overflowE
  | none => some .typeE

/-- the Python value a PyLite value stands for (`none` for the uninspected texts `escapeall` / `gnss2str` return) -/
def tToPy : V StO → Option PyVal
  | .int i => some (.int i)
  | .bool b => some (.bool b)
  | .bytes b => some (.bytes b)
  | .none => some .none
  | .py v => some v
  | _ => none

def tCall (c : StrCfg) (f : Name) (args : List (V StO)) (_kws : List (Name × V StO)) (st : Unit) : X StO (V StO) × Unit :=
  if f = 0x656e756d6572617465 then                  -- enumerate(self.__dict__)
    match args with
    | [.host .dict] => (.ok (.tuple ((List.range c.npriv).map (fun (k : Nat) => V.tuple [.int ((k : Nat) : Int), .host (.priv k)])
          ++ (List.range c.env.length).map (fun j => V.tuple [.int ((c.npriv + j : Nat) : Int), .host (.key j)]))), st)
    | _ => (raiseX xUnsupported, st)
  else if f = fLen then
    match args with
    | [.host .dict] => (.ok (.int ((c.npriv + c.env.length : Nat) : Int)), st)
    | _ => (raiseX xUnsupported, st)
  else if f = 0x657363617065616c6c then             -- escapeall(bytes): a text
    match args with
    | [.bytes _] => (.ok .ostr, st)
    | _ => (raiseX xUnsupported, st)
  else if f = 0x676e737332737472 then (.ok .ostr, st)   -- gnss2str: table lookup, the number as text otherwise
  else if f = 0x69746f7732757463 then               -- itow2utc
    match args with
    | [x] => (match tToPy x with
        | some v => (match itowExc v with | none => (.ok .ostr, st) | some e => (.error (.exc (excName e) 0), st))
        | none => (match x with | .ostr => (.error (.exc xTypeError 0), st) | _ => (raiseX xUnsupported, st)))
    | _ => (raiseX xUnsupported, st)
  else if f = 0x76616c326279746573 then             -- val2bytes(val, U1)
    match args with
    | [x, _] => (match tToPy x with
        | some v => (match u1Exc v with
          | none => (.ok (.bytes [(v.asInt?.getD 0).toNat.toUInt8]), st)
          | some e => (.error (.exc (excName e) 0), st))
        | none => (match x with | .ostr => (.error (.exc xTypeError 0), st) | _ => (raiseX xUnsupported, st)))
    | _ => (raiseX xUnsupported, st)
  else if f = 0x5542585f434c41535345532e676574 then (.ok .ostr, st)     -- UBX_CLASSES.get(k, k)
  else if f = 0x5542585f4d53474944532e676574 then (.ok .ostr, st)       -- UBX_MSGIDS.get(k, k)
  else if f = 0x737472 then (.ok .ostr, st)                             -- str(x)
  else if f = 0x5f5f636f6e6361745f5f then (.ok .ostr, st)               -- text + text
  else (raiseX xUnsupported, st)

def tAttr (c : StrCfg) (obj : V StO) (a : Name) (_st : Unit) : X StO (V StO) :=
  match obj with
  | .host .self =>
    if a = 0x6964656e74697479 then .ok (.host .ident)
    else if a = 0x7061796c6f6164 then .ok (match c.payload with | none => .none | some p => .bytes p)
    else if a = 0x5f756278436c617373 then .ok (.bytes c.cls)
    else if a = 0x5f7562784944 then .ok (.bytes c.id)
    else if a = 0x5f5f646963745f5f then .ok (.host .dict)
    else raiseX xUnsupported
  | _ => raiseX xUnsupported

def tIndex (c : StrCfg) (o : StO) (i : V StO) (_st : Unit) : X StO (V StO) :=
  match o, i with
  | .ident, .tuple [.int (-7), .none] => .ok (.host .last7)
  | .priv _, .int 0 => .ok (.str 0x5f)
  | .key j, .int 0 => .ok (.host (.ch0 j))
  | .key j, .tuple [.int 0, .int 6] => .ok (.host (.pre6 j))
  | .dict, .host (.key j) => (match c.env[j]? with | some e => .ok (V.ofPy e.2) | none => .error (.exc xKeyError 0))
  | _, _ => raiseX xUnsupported

def tEq (c : StrCfg) (o : StO) (v : V StO) : Bool :=
  match o, v with
  | .last7, .str 0x4e4f4d494e414c => c.nominal
  | .ident, .str 0x4d4f4e2d564552 => c.monver
  | .key j, .str s => (match c.env[j]? with | some e => e.1.idx.isEmpty && e.1.base == s | none => false)
  | .pre6 j, .str s => (match c.env[j]? with | some e => nameTake e.1.base 6 == s | none => false)
  | _, _ => false          -- in particular `.ch0 j` vs "_": public attribute names do not begin with an underscore

def strHost (c : StrCfg) : Host StO Unit where
  glob := fun x => globLookup Ubx.Gen.Code.globals x
  call := tCall c
  mcall := fun _ _ _ _ st => (raiseX xUnsupported, st)
  attr := tAttr c
  setattr := fun _ _ _ st => (raiseX xUnsupported, st)
  index := tIndex c
  contains := fun _ _ _ => raiseX xUnsupported
  truthy := fun _ => true
  eqHost := tEq c

end Ubx.Py
