import Ubx.Model.Basic
/-!
# `UBXReader.read()` / iteration, over an abstract byte source

`step` is one pass of the `while parsing:` loop body; `run` is the trace of passes of a whole
iteration (`for raw, parsed in reader`). The three protocol parsers are a parameter `O`
(for UBX the driver instantiates it with the model's own `parse`).
-/
namespace Ubx

inductive Proto where | ubx | nmea | rtcm
deriving DecidableEq, Repr, Inhabited

/-- `UBX_PROTOCOL = 2`, `NMEA_PROTOCOL = 1`, `RTCM3_PROTOCOL = 4` -/
def Proto.bit : Proto → Nat
  | .nmea => 1 | .ubx => 2 | .rtcm => 4

/-- what a protocol parser does with a delimited frame -/
inductive Verdict (α : Type) where
  | ok (m : α)
  | rejected (code : Nat)   -- an exception in `read()`'s catch list (UBX*/NMEA*/RTCM* errors)
  | crash (code : Nat)      -- any other exception: escapes `read()` whatever the policy

abbrev Oracle (α : Type) := Proto → Bytes → Verdict α

inductive EKind where
  | stream                      -- UBXStreamError: stream ended inside a frame
  | unknownHdr                  -- UBXParseError "Unknown protocol header"
  | rejected (p : Proto) (code : Nat)
deriving DecidableEq, Repr

structure RCfg where
  /-- `protfilter` -/
  filter : Nat
  /-- `parsing` -/
  parsing : Bool
deriving Repr

/-- outcome of `_read_bytes` / `_read_line`: EOFError, UBXStreamError, or data -/
inductive Res (σ : Type) where
  | eof
  | short
  | ok (d : Bytes) (rest : σ)

/-- a byte source as `_read_bytes(n)` and `_read_line()` see it -/
structure Src (σ : Type) where
  read : Nat → σ → Res σ
  line : σ → Res σ

inductive Out (α : Type) where
  | eof
  | skip
  | err (k : EKind)
  | item (p : Proto) (raw : Bytes) (parsed : Option α)
  | crash (p : Proto) (code : Nat)

variable {α σ : Type}

/-- the tail of `_parse_ubx/_parse_nmea/_parse_rtcm3` and the return-or-continue decision -/
def finish (cfg : RCfg) (O : Oracle α) (p : Proto) (raw : Bytes) : Out α :=
  if cfg.filter &&& p.bit ≠ 0 then
    if cfg.parsing then
      match O p raw with
      | .ok m => .item p raw (some m)
      | .rejected c => .err (.rejected p c)
      | .crash c => .crash p c
    else .item p raw none
  else .skip

def le16 (a b : Byte) : Nat := a.toNat + 256 * b.toNat
/-- number of bytes `_parse_ubx` reads after the 4-byte class/id/length block -/
def ubxLen (h : Bytes) : Nat := le16 (h.getD 2 0) (h.getD 3 0) + 2
/-- `size = hdr3[0] | (hdr[1] << 8)` -/
def rtcmLen (d3 d2 : Bytes) : Nat := (d3.getD 0 0).toNat + 256 * (d2.getD 0 0).toNat
def isPre (b : Byte) : Bool := b = 0xb5 || b = 0x24 || b = 0xd3

/-- one pass of the loop body of `UBXReader.read`; `none` state = nothing more can arrive -/
def step (S : Src σ) (nmeaHdr : Byte → Bool) (cfg : RCfg) (O : Oracle α) (s : σ) : Out α × Option σ :=
  match S.read 1 s with
  | .eof => (.eof, none)
  | .short => (.err .stream, none)
  | .ok d1 s1 =>
    let b1 := d1.getD 0 0
    if !isPre b1 then (.skip, some s1) else
    match S.read 1 s1 with
    | .eof => (.eof, none)
    | .short => (.err .stream, none)
    | .ok d2 s2 =>
      let b2 := d2.getD 0 0
      if b1 = 0xb5 ∧ b2 = 0x62 then
        match S.read 4 s2 with
        | .eof => (.eof, none)
        | .short => (.err .stream, none)
        | .ok h s3 =>
          match S.read (ubxLen h) s3 with
          | .eof => (.eof, none)
          | .short => (.err .stream, none)
          | .ok body s4 => (finish cfg O .ubx (d1 ++ d2 ++ h ++ body), some s4)
      else if b1 = 0x24 ∧ nmeaHdr b2 then
        match S.line s2 with
        | .eof => (.eof, none)
        | .short => (.err .stream, none)
        | .ok l s3 => (finish cfg O .nmea (d1 ++ d2 ++ l), some s3)
      else if b1 = 0xd3 ∧ b2 &&& 0xfc = 0 then
        match S.read 1 s2 with
        | .eof => (.eof, none)
        | .short => (.err .stream, none)
        | .ok d3 s3 =>
          match S.read (rtcmLen d3 d2) s3 with
          | .eof => (.eof, none)
          | .short => (.err .stream, none)
          | .ok pl s4 =>
            match S.read 3 s4 with
            | .eof => (.eof, none)
            | .short => (.err .stream, none)
            | .ok crc s5 => (finish cfg O .rtcm (d1 ++ d2 ++ d3 ++ pl ++ crc), some s5)
      else (.err .unknownHdr, some s2)

/-- "dead" outcomes: nothing is delivered and the source yields nothing afterwards -/
def Out.dead : Out α → Bool
  | .eof => true
  | .err .stream => true
  | _ => false

/-- the policy-free trace of a whole iteration: loop passes until EOF (or a crash).
    `none` = the stream is dead. The fuel bounds the number of passes. -/
def run (S : Src σ) (nmeaHdr : Byte → Bool) (cfg : RCfg) (O : Oracle α) : Nat → Option σ → List (Out α)
  | 0, _ => []
  | _+1, none => [.eof]
  | f+1, some s =>
    match step S nmeaHdr cfg O s with
    | (.eof, _) => [.eof]
    | (.crash p c, _) => [.crash p c]
    | (o, s') => o :: run S nmeaHdr cfg O f s'

def Out.asItem : Out α → Option (Proto × Bytes × Option α)
  | .item p raw m => some (p, raw, m)
  | _ => none

/-- what the caller of the iterator receives under ERR_IGNORE / ERR_LOG -/
def items (tr : List (Out α)) : List (Proto × Bytes × Option α) := tr.filterMap Out.asItem

def Out.asErr : Out α → Option EKind
  | .err k => some k
  | _ => none

/-- the calls made to the error handler under ERR_LOG -/
def handlerCalls (tr : List (Out α)) : List EKind := tr.filterMap Out.asErr

/-- under ERR_RAISE: the items delivered before the first error, and that error -/
def raiseView : List (Out α) → List (Proto × Bytes × Option α) × Option EKind
  | [] => ([], none)
  | .err k :: _ => ([], some k)
  | .item p raw m :: rest => let r := raiseView rest; ((p, raw, m) :: r.1, r.2)
  | _ :: rest => raiseView rest

end Ubx

namespace Ubx
variable {α σ : Type}

/-! ### Framing separated from parsing

`delimit` is the part of a pass that only talks to the byte source; `post` applies the filter and
the protocol parser. `step = post ∘ delimit` (theorem `step_eq` in `Proofs/Frames`). -/

inductive Pass (σ : Type) where
  | eof
  | short
  | skip (s1 : σ)
  | unknown (s2 : σ)
  | frame (p : Proto) (raw : Bytes) (s' : σ)

def delimit (S : Src σ) (nmeaHdr : Byte → Bool) (s : σ) : Pass σ :=
  match S.read 1 s with
  | .eof => .eof
  | .short => .short
  | .ok d1 s1 =>
    let b1 := d1.getD 0 0
    if !isPre b1 then .skip s1 else
    match S.read 1 s1 with
    | .eof => .eof
    | .short => .short
    | .ok d2 s2 =>
      let b2 := d2.getD 0 0
      if b1 = 0xb5 ∧ b2 = 0x62 then
        match S.read 4 s2 with
        | .eof => .eof
        | .short => .short
        | .ok h s3 =>
          match S.read (ubxLen h) s3 with
          | .eof => .eof
          | .short => .short
          | .ok body s4 => .frame .ubx (d1 ++ d2 ++ h ++ body) s4
      else if b1 = 0x24 ∧ nmeaHdr b2 then
        match S.line s2 with
        | .eof => .eof
        | .short => .short
        | .ok l s3 => .frame .nmea (d1 ++ d2 ++ l) s3
      else if b1 = 0xd3 ∧ b2 &&& 0xfc = 0 then
        match S.read 1 s2 with
        | .eof => .eof
        | .short => .short
        | .ok d3 s3 =>
          match S.read (rtcmLen d3 d2) s3 with
          | .eof => .eof
          | .short => .short
          | .ok pl s4 =>
            match S.read 3 s4 with
            | .eof => .eof
            | .short => .short
            | .ok crc s5 => .frame .rtcm (d1 ++ d2 ++ d3 ++ pl ++ crc) s5
      else .unknown s2

def post (cfg : RCfg) (O : Oracle α) : Pass σ → Out α × Option σ
  | .eof => (.eof, none)
  | .short => (.err .stream, none)
  | .skip s1 => (.skip, some s1)
  | .unknown s2 => (.err .unknownHdr, some s2)
  | .frame p raw s' => (finish cfg O p raw, some s')

/-- the frames the reader delimits, whatever the filter and the parsers say -/
def frames (S : Src σ) (nmeaHdr : Byte → Bool) : Nat → Option σ → List (Proto × Bytes)
  | 0, _ => []
  | _+1, none => []
  | f+1, some s =>
    match delimit S nmeaHdr s with
    | .eof => []
    | .short => []
    | .skip s1 => frames S nmeaHdr f (some s1)
    | .unknown s2 => frames S nmeaHdr f (some s2)
    | .frame p raw s' => (p, raw) :: frames S nmeaHdr f (some s')

/-- what becomes of a delimited frame under a configuration -/
def deliver (cfg : RCfg) (O : Oracle α) (fr : Proto × Bytes) : Option (Proto × Bytes × Option α) :=
  if cfg.filter &&& fr.1.bit ≠ 0 then
    if cfg.parsing then
      match O fr.1 fr.2 with
      | .ok m => some (fr.1, fr.2, some m)
      | _ => none
    else some (fr.1, fr.2, none)
  else none

/-! ### The iteration with the error policy as written (`quitonerror`, `_do_error`) -/

/-- what the caller of `for raw, parsed in reader` observes -/
structure PRes (α : Type) where
  items : List (Proto × Bytes × Option α)
  /-- calls of the error handler / logger -/
  calls : List EKind
  /-- exception raised out of the iteration by `_do_error` (ERR_RAISE) -/
  raised : Option EKind
  /-- foreign exception escaping `read()` -/
  crashed : Option (Proto × Nat)

def PRes.consItem (x : Proto × Bytes × Option α) (r : PRes α) : PRes α := { r with items := x :: r.items }
def PRes.consCall (k : EKind) (r : PRes α) : PRes α := { r with calls := k :: r.calls }

/-- iteration under `quitonerror = q`: 0 ignore, 1 log (handler called), 2 raise; other values are
    truthy but neither RAISE nor LOG, so `_do_error` does nothing -/
def runP (S : Src σ) (nmeaHdr : Byte → Bool) (cfg : RCfg) (O : Oracle α) (q : Nat) :
    Nat → Option σ → PRes α
  | 0, _ => ⟨[], [], none, none⟩
  | _+1, none => ⟨[], [], none, none⟩
  | f+1, some s =>
    match step S nmeaHdr cfg O s with
    | (.eof, _) => ⟨[], [], none, none⟩
    | (.crash p c, _) => ⟨[], [], none, some (p, c)⟩
    | (.skip, s') => runP S nmeaHdr cfg O q f s'
    | (.item p raw m, s') => (runP S nmeaHdr cfg O q f s').consItem (p, raw, m)
    | (.err k, s') =>
      if q = 0 then runP S nmeaHdr cfg O q f s'
      else if q = 2 then ⟨[], [], some k, none⟩
      else if q = 1 then (runP S nmeaHdr cfg O q f s').consCall k
      else runP S nmeaHdr cfg O q f s'

end Ubx
