import Ubx.Model.Basic
/-! # `calc_checksum` / `isvalid_checksum` as written, and the textbook 8-bit Fletcher sums -/
namespace Ubx

/-- one iteration of the loop in `calc_checksum` -/
def ckStep (ab : Nat × Nat) (c : Byte) : Nat × Nat :=
  let a := (ab.1 + c.toNat) % 256
  (a, (ab.2 + a) % 256)

/-- `calc_checksum` as written: running sums masked to 8 bits after every byte -/
def ckPair (bs : Bytes) : Nat × Nat := bs.foldl ckStep (0, 0)

def calcChecksum (bs : Bytes) : Bytes :=
  let ab := ckPair bs
  [UInt8.ofNat ab.1, UInt8.ofNat ab.2]

/-- textbook Fletcher-8: plain sums, reduced once at the end -/
def sumA : Bytes → Nat
  | [] => 0
  | b :: bs => b.toNat + sumA bs

/-- Σ (n - i) * bᵢ (the first byte is counted n times) -/
def sumB : Bytes → Nat
  | [] => 0
  | b :: bs => (bs.length + 1) * b.toNat + sumB bs

def fletcherSpec (bs : Bytes) : Bytes := [UInt8.ofNat (sumA bs % 256), UInt8.ofNat (sumB bs % 256)]

/-- `isvalid_checksum(message)`: `message[lenm-2:lenm] == calc_checksum(message[2:lenm-2])` -/
def isValidChecksum (m : Bytes) : Bool :=
  slice m (m.length - 2) m.length == calcChecksum (slice m 2 (m.length - 2))

end Ubx
