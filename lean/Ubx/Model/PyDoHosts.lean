import Ubx.Model.PyWalkHosts
/-!
# Host of `UBXMessage._do_attributes`

Definitions only. The message now also carries its length and checksum fields, and `_payload` may be `None`; the walker
methods keep their own, smaller view of the message (`ASt`) and are lifted (`dLift`).
-/
namespace Ubx.Py
open Ubx Ubx.Gen.Code

structure DSt where
  payload : Option Bytes
  env : Env
  lenck : Option (Bytes × Bytes)

def kwLen : Kw → Nat
  | .empty => 0
  | .payload _ => 1
  | .attrs l => l.length

/-- a walker method run on the message's walker view, its effect put back -/
def dLift (st : DSt) (r : X AO (V AO) × ASt) : X AO (V AO) × DSt :=
  (r.1, { st with payload := some r.2.payload, env := r.2.env })

def dCall (kw : Kw) (f : Name) (args : List (V AO)) (_kws : List (Name × V AO)) (st : DSt) : X AO (V AO) × DSt :=
  if f = fLen then
    match args with
    | [.host .kwargs] => (.ok (.int (kwLen kw)), st)
    | _ => (raiseX xUnsupported, st)
  else (raiseX xUnsupported, st)

def dMcall (ctx : Ctx) (cls id : Bytes) (mode : Mode) (kw : Kw) (walker : Host AO ASt)
    (obj : V AO) (m : Name) (args : List (V AO)) (kws : List (Name × V AO)) (st : DSt) : X AO (V AO) × DSt :=
  match obj with
  | .host .kwargs =>
    if m = 0x676574 then                             -- kwargs.get("payload", b"")
      match args with
      | [.str 0x7061796c6f6164, .bytes []] => (.ok (.bytes ((kwPayload? kw).getD [])), st)
      | _ => (raiseX xUnsupported, st)
    else (raiseX xUnsupported, st)
  | .host (.dict items) =>
    if m = mIter then
      match args with
      | [] => (.ok (.tuple (items.map (fun i => V.str (Item.key i)))), st)
      | _ => (raiseX xUnsupported, st)
    else (raiseX xUnsupported, st)
  | .host .self =>
    if m = 0x5f6765745f64696374 then                 -- self._get_dict(**kwargs)
      match args with
      | [.host .kwargs] => (encR (fun d => V.host (.dict d)) (getDict ctx cls id mode kw), st)
      | _ => (raiseX xUnsupported, st)
    else if m = 0x5f7365745f617474726962757465 then  -- self._set_attribute(...): the walker
      match st.payload with
      | some p => dLift st (walker.mcall obj m args kws ⟨p, st.env⟩)
      | none => (raiseX xUnsupported, st)
    else if m = 0x5f646f5f6c656e5f636865636b73756d then   -- self._do_len_checksum()
      match args with
      | [] =>
        (match lenChecksum cls id st.payload with
         | .ok lc => (.ok .none, { st with lenck := some lc })
         | .error e => (.error (.exc (excName e) 0), st))
      | _ => (raiseX xUnsupported, st)
    else (raiseX xUnsupported, st)
  | _ => (raiseX xUnsupported, st)

def dSetattr (obj : V AO) (a : Name) (v : V AO) (st : DSt) : X AO Unit × DSt :=
  match obj, v with
  | .host .self, .bytes b => if a = 0x5f7061796c6f6164 then (.ok (), { st with payload := some b }) else (raiseX xUnsupported, st)
  | .host .self, .none => if a = 0x5f7061796c6f6164 then (.ok (), { st with payload := none }) else (raiseX xUnsupported, st)
  | _, _ => (raiseX xUnsupported, st)

def doHost (ctx : Ctx) (cls id : Bytes) (mode : Mode) (kw : Kw) (walker : Host AO ASt) : Host AO DSt where
  glob := aGlob
  call := dCall kw
  mcall := dMcall ctx cls id mode kw walker
  attr := fun _ _ _ => raiseX xUnsupported
  setattr := dSetattr
  index := fun _ _ _ => raiseX xUnsupported
  contains := fun _ _ _ => raiseX xUnsupported
  truthy := fun _ => true
  eqHost := fun _ _ => false

end Ubx.Py
