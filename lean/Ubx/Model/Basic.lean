/-!
# Basic carriers: bytes, Python slicing, little-endian integers, Python values, exceptions

Mathlib-free; everything here is executable (used by the `driver` executable) and is what the
theorems in `Ubx/Proofs` and `Ubx/Props` talk about.
-/
namespace Ubx

abbrev Byte := UInt8
abbrev Bytes := List Byte

/-- identifiers (attribute names, message names, key names) are carried as the base-256
    big-endian value of their UTF-8 encoding: injective, and cheap for the kernel. -/
abbrev Name := Nat

/-- Python `p[a:b]` for `0 ≤ a`, `0 ≤ b` -/
def slice (p : Bytes) (a b : Nat) : Bytes := (p.drop a).take (b - a)

/-- Python slice with possibly negative bounds -/
def pySlice (p : Bytes) (a b : Int) : Bytes :=
  let n : Int := p.length
  let norm (x : Int) : Nat := (if x < 0 then (if x + n < 0 then 0 else x + n) else if x > n then n else x).toNat
  slice p (norm a) (norm b)

/-- `int.to_bytes(k, "little")` on a natural (caller checks the range) -/
def toLE : Nat → Nat → Bytes
  | 0, _ => []
  | k+1, n => UInt8.ofNat (n % 256) :: toLE k (n / 256)

/-- `int.from_bytes(bs, "little", signed=False)` -/
def fromLE : Bytes → Nat
  | [] => 0
  | b :: bs => b.toNat + 256 * fromLE bs

/-- `int.from_bytes(bs, "big")` (used by `get_bits` through `int(bitfield.hex(), 16)`) -/
def fromBE (bs : Bytes) : Nat := bs.foldl (fun acc b => acc * 256 + b.toNat) 0

/-- `int.from_bytes(bs, "little", signed=True)` -/
def fromLESigned (bs : Bytes) : Int :=
  if bs.length = 0 then 0
  else if fromLE bs < 2 ^ (8 * bs.length - 1) then (fromLE bs : Int)
  else (fromLE bs : Int) - ((2 * 2 ^ (8 * bs.length - 1) : Nat) : Int)

/-- Python exception kinds that the modelled code can raise. The first four are the
    library's own error types; everything else is "foreign". -/
inductive Exc where
  | ubxParse | ubxMessage | ubxType | ubxStream
  | indexE | typeE | valueE | overflowE | attributeE | structE | keyE | zeroDivE | unboundLocalE
  | unicodeE | memoryE
deriving DecidableEq, Repr, Inhabited

def Exc.isUBX : Exc → Bool
  | .ubxParse | .ubxMessage | .ubxType | .ubxStream => true
  | _ => false

def Exc.code : Exc → Nat
  | .ubxParse => 0 | .ubxMessage => 1 | .ubxType => 2 | .ubxStream => 3
  | .indexE => 4 | .typeE => 5 | .valueE => 6 | .overflowE => 7 | .attributeE => 8
  | .structE => 9 | .keyE => 10 | .zeroDivE => 11 | .unboundLocalE => 12 | .unicodeE => 13
  | .memoryE => 14

def Exc.ofCode : Nat → Exc
  | 0 => .ubxParse | 1 => .ubxMessage | 2 => .ubxType | 3 => .ubxStream
  | 4 => .indexE | 5 => .typeE | 6 => .valueE | 7 => .overflowE | 8 => .attributeE
  | 9 => .structE | 10 => .keyE | 11 => .zeroDivE | 12 => .unboundLocalE | 13 => .unicodeE
  | _ => .memoryE

def Exc.toString : Exc → String
  | .ubxParse => "UBXParseError" | .ubxMessage => "UBXMessageError" | .ubxType => "UBXTypeError"
  | .ubxStream => "UBXStreamError" | .indexE => "IndexError" | .typeE => "TypeError"
  | .valueE => "ValueError" | .overflowE => "OverflowError" | .attributeE => "AttributeError"
  | .structE => "struct.error" | .keyE => "KeyError" | .zeroDivE => "ZeroDivisionError"
  | .unboundLocalE => "UnboundLocalError" | .unicodeE => "UnicodeError" | .memoryE => "MemoryError"

instance : ToString Exc := ⟨Exc.toString⟩

abbrev R (α : Type) := Except Exc α

instance {α : Type} [DecidableEq α] : DecidableEq (Except Exc α) := fun a b =>
  match a, b with
  | .ok x, .ok y => if h : x = y then isTrue (by rw [h]) else isFalse (by intro hc; cases hc; exact h rfl)
  | .error x, .error y => if h : x = y then isTrue (by rw [h]) else isFalse (by intro hc; cases hc; exact h rfl)
  | .ok _, .error _ => isFalse (by intro hc; cases hc)
  | .error _, .ok _ => isFalse (by intro hc; cases hc)

/-- Python values that payload attributes and keyword arguments can take in the modelled domain.
    `float` carries the IEEE-754 binary64 bit pattern; `str` carries the UTF-8 bytes;
    `ints` is a list whose elements are ints (`some`) or something without `to_bytes` (`none`);
    `other` is any other Python object (dict, tuple, object …). `bool` is kept apart from `int`
    only for rendering: Python's `bool` is a subclass of `int`. -/
inductive PyVal where
  | int (v : Int)
  | bool (b : Bool)
  | float (bits : Nat)
  | str (utf8 : Bytes)
  | bytes (b : Bytes)
  | ints (l : List (Option Int))
  | none
  | other
deriving DecidableEq, Repr, Inhabited

/-- the integer behind an `int`/`bool` -/
def PyVal.asInt? : PyVal → Option Int
  | .int v => some v
  | .bool b => some (if b then 1 else 0)
  | _ => Option.none

end Ubx
