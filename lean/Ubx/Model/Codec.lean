import Ubx.Model.Types
/-! # `atttyp`, `attsiz`, `val2bytes`, `bytes2val`, `nomval` -/
namespace Ubx

/-- `attsiz(att)`: `-1` for "CH", `int(att[1:4])` otherwise (ValueError when not a number) -/
def attsiz : Ty → R Int
  | .ch => .ok (-1)
  | .t _ n => .ok n
  | .malformed _ => .error .valueE

/-- `atttyp(att)`: first character; "CH" starts with 'C' -/
def atttyp : Ty → Nat
  | .ch => cC
  | .t l _ => l
  | .malformed l => l

def isIntLetter (l : Nat) : Bool := l = cE || l = cI || l = cL || l = cU

/-- `int.to_bytes(size, "little", signed=signed)`; OverflowError when out of range.
    Signed values are stored in two's complement: a negative `v` as `v + 2^(8·size)`. -/
def intToBytes (v : Int) (size : Nat) (signed : Bool) : R Bytes :=
  if signed then
    if size = 0 then (if v = 0 then .ok [] else .error .overflowE)
    else
      if -((2 ^ (8 * size - 1) : Nat) : Int) ≤ v ∧ v < ((2 ^ (8 * size - 1) : Nat) : Int) then
        .ok (toLE size (if v < 0 then (v + ((2 * 2 ^ (8 * size - 1) : Nat) : Int)).toNat else v.toNat))
      else .error .overflowE
  else
    if 0 ≤ v ∧ v < ((256 ^ size : Nat) : Int) then .ok (toLE size v.toNat) else .error .overflowE

/-- the `for i in range(attsiz(att)): valb += val[i].to_bytes(1, …)` loop for type `A` -/
def arrayToBytes : Nat → List (Option Int) → R Bytes
  | 0, _ => .ok []
  | _+1, [] => .error .indexE
  | k+1, x :: xs =>
    match x with
    | none => .error .attributeE
    | some v =>
      if 0 ≤ v ∧ v < 256 then
        match arrayToBytes k xs with
        | .ok bs => .ok (UInt8.ofNat v.toNat :: bs)
        | .error e => .error e
      else .error .overflowE

/-- `val2bytes(val, att)`. `att` is the `ATTTYPE` table. -/
def val2bytes (att : List (Nat × List Kind)) (v : PyVal) (ty : Ty) : R Bytes :=
  let l := atttyp ty
  match lookup l att with
  | none => .error .ubxType                        -- KeyError → UBXTypeError
  | some kinds =>
    match v.kind? with
    | none => .error .typeE
    | some k =>
      if !kinds.contains k then .error .typeE
      else if l = cX then
        match v with
        | .bytes b =>
          -- `if len(val) != attsiz(att): raise ValueError` (fix eff6ead)
          (match attsiz ty with
           | .error e => .error e
           | .ok n => if (b.length : Int) = n then .ok b else .error .valueE)
        | _ => .error .typeE
      else if l = cC then
        match v with
        | .str s => .ok s
        | .bytes b => .ok b
        | _ => .error .typeE
      else if isIntLetter l then
        match v.asInt? with
        | some i =>
          match attsiz ty with
          | .ok n => intToBytes i n.toNat (l = cI)
          | .error e => .error e
        | none => .error .attributeE               -- e.g. a float has no `to_bytes`
      else if l = cR then
        match attsiz ty with
        | .error e => .error e
        | .ok n =>
          let f : R Nat := match v with
            | .float b => .ok b
            | .int i => (match F64.ofInt i with | some b => .ok b | none => .error .overflowE)
            | .bool b => .ok (if b then 0x3FF0000000000000 else 0)
            | _ => .error .typeE
          match f with
          | .error e => .error e
          | .ok b =>
            if n = 4 then
              match F64.toF32 b with
              | some w => .ok (toLE 4 w)
              | none => .error .overflowE
            else .ok (toLE 8 b)
      else if l = cA then
        match attsiz ty with
        | .error e => .error e
        | .ok n =>
          match v with
          | .ints xs =>
            -- `if len(val) != attsiz(att): raise ValueError` (fix 33b75ac)
            if (xs.length : Int) = n then arrayToBytes n.toNat xs else .error .valueE
          | _ => .error .typeE
      else .error .unboundLocalE                    -- no branch assigns `valb`

/-- `bytes2val(valb, att)` -/
def bytes2val (valb : Bytes) (ty : Ty) : R PyVal :=
  match ty with
  | .ch => .ok (.str valb)                          -- decode("utf-8", "backslashreplace"): kept as bytes
  | _ =>
    let l := atttyp ty
    if l = cX || l = cC then .ok (.bytes valb)
    else if isIntLetter l then
      .ok (.int (if l = cI then fromLESigned valb else (fromLE valb : Int)))
    else if l = cR then
      match attsiz ty with
      | .error e => .error e
      | .ok n =>
        if n = 4 then
          (if valb.length = 4 then .ok (.float (F64.ofF32 (fromLE valb))) else .error .structE)
        else (if valb.length = 8 then .ok (.float (fromLE valb)) else .error .structE)
    else if l = cA then
      match attsiz ty with
      | .error e => .error e
      | .ok n =>
        if n.toNat ≤ valb.length then .ok (.ints ((valb.take n.toNat).map (fun b => some (b.toNat : Int))))
        else .error .indexE
    else .error .ubxType

/-- `nomval(att)` -/
def nomval (ty : Ty) : R PyVal :=
  match ty with
  | .ch => .ok (.str [])
  | _ =>
    let l := atttyp ty
    if l = cX || l = cC then
      match attsiz ty with
      | .ok n => .ok (.bytes (List.replicate n.toNat 0))
      | .error e => .error e
    else if l = cR then .ok (.float 0)
    else if isIntLetter l then .ok (.int 0)
    else if l = cA then
      match attsiz ty with
      | .ok n => .ok (.ints (List.replicate n.toNat (some 0)))
      | .error e => .error e
    else .error .ubxType

end Ubx
