import Ubx.Model.Codec
/-!
# The attribute walk: `_set_attribute`, `_set_attribute_group`, `_set_attribute_single`,
`_set_attribute_bitfield`, `_set_attribute_bits`, `_set_attribute_cfgval`, `_calc_num_repeats`

One walker serves both directions, exactly as in the Python code: when `"payload" in kwargs`
values are read from the payload at the running offset, otherwise they are taken from the
keyword arguments (or the nominal value) and appended to the payload under construction.
-/
namespace Ubx

structure WCtx where
  ctx : Ctx
  parsebf : Bool
  /-- `"payload" in kwargs` -/
  hasPayload : Bool
  kwargs : List (AName × PyVal)
  /-- CFG-VALGET (GET) or CFG-VALSET (SET): groups are parsed as key/value pairs -/
  cfgval : Bool
  /-- ESF-MEAS (SET): group count adjusted by `calibTtagValid` -/
  esfmeas : Bool

structure WState where
  off : Nat
  /-- `self._payload` -/
  payload : Bytes
  env : Env
deriving Repr

def kwLookup (kw : List (AName × PyVal)) (n : AName) : Option PyVal :=
  match kw.find? (fun p => p.1 == n) with
  | some p => some p.2
  | none => none

/-- Python truthiness -/
def PyVal.truthy : PyVal → Bool
  | .int v => v ≠ 0
  | .bool b => b
  | .float b => !(F64.isFinite b && (F64.toQ b).num = 0)
  | .str s => !s.isEmpty
  | .bytes s => !s.isEmpty
  | .ints l => !l.isEmpty
  | .none => false
  | .other => true

/-- `setattr(self, name, val)` during construction: a read-only property of `UBXMessage`
    raises AttributeError -/
def setAttr (c : WCtx) (env : Env) (n : AName) (v : PyVal) : R Env :=
  if n.idx.isEmpty && c.ctx.readonly.contains n.base then .error .attributeE
  else .ok (env.set n v)

/-- Python `float(x)` for the arithmetic below -/
def toFloat? (v : PyVal) : R Nat :=
  match v with
  | .float b => .ok b
  | .int i => (match F64.ofInt i with | some b => .ok b | none => .error .overflowE)
  | .bool b => .ok (if b then 0x3FF0000000000000 else 0)
  | _ => .error .typeE

def scaleBits (sc : Scale) : R Nat :=
  match sc with
  | .flt b => .ok b
  | .int n => (match F64.ofInt n with | some b => .ok b | none => .error .overflowE)
  | .one => .ok 0x3FF0000000000000

/-- `round(x, SCALROUND)` -/
def pyRound (v : PyVal) : R PyVal :=
  match v with
  | .int i => .ok (.int i)
  | .bool b => .ok (.int (if b then 1 else 0))
  | .float b => .ok (.float (F64.round12 b))
  | _ => .error .typeE

/-- `round(val * ares, SCALROUND)` -/
def scaleUp (v : PyVal) (sc : Scale) : R PyVal :=
  match v.asInt?, sc with
  | some i, .int n => .ok (.int (i * n))
  | _, _ =>
    match v with
    | .int _ | .bool _ | .float _ =>
      match toFloat? v with
      | .error e => .error e
      | .ok a =>
        match scaleBits sc with
        | .error e => .error e
        | .ok b => .ok (.float (F64.round12 (F64.mul a b)))
    | _ => .error .typeE

/-- `int(val / ares)` -/
def scaleDown (v : PyVal) (sc : Scale) : R Int :=
  match v.asInt?, sc with
  | some i, .int n =>
    -- int / int: correctly rounded true division
    if n = 0 then .error .zeroDivE
    else
      let q := F64.rn ⟨(i < 0) != (n < 0), i.natAbs, n.natAbs⟩
      if F64.isInf q then .error .overflowE else F64.trunc q
  | _, _ =>
    match v with
    | .int _ | .bool _ | .float _ =>
      match toFloat? v with
      | .error e => .error e
      | .ok a =>
        match scaleBits sc with
        | .error e => .error e
        | .ok b =>
          match F64.div a b with
          | none => .error .zeroDivE
          | some q => F64.trunc q
    | _ => .error .typeE

/-- `a + b` followed by `round(·, SCALROUND)` in the `_HP` merge -/
def hpMerge (old v : PyVal) : R PyVal :=
  match old.asInt?, v.asInt? with
  | some a, some b => .ok (.int (a + b))
  | _, _ =>
    match old, v with
    | .int _, .float _ | .bool _, .float _ | .float _, .int _ | .float _, .bool _ | .float _, .float _ =>
      match toFloat? old with
      | .error e => .error e
      | .ok a =>
        match toFloat? v with
        | .error e => .error e
        | .ok b => .ok (.float (F64.round12 (F64.add a b)))
    | _, _ => .error .typeE

/-- byte width of a single attribute: `len(self._payload)` for "CH", `attsiz` otherwise -/
def fieldSize (ty : Ty) (payload : Bytes) : R Nat :=
  match ty with
  | .ch => .ok payload.length
  | _ =>
    match attsiz ty with
    | .ok n => .ok n.toNat
    | .error e => .error e

/-- decoding of one attribute from exactly its own bytes: `bytes2val(valb, adef)`, scaled and rounded to 12
    decimals when the attribute is scaled -/
def decodeVal (ty : Ty) (sc : Scale) (b : Bytes) : R PyVal :=
  match bytes2val b ty with
  | .error e => .error e
  | .ok v =>
    match sc with
    | .one => .ok v
    | _ => scaleUp v sc

/-- parse direction: the attribute's bytes are `payload[offset:offset+asiz]` -/
def readVal (ty : Ty) (sc : Scale) (payload : Bytes) (off asiz : Nat) : R PyVal :=
  decodeVal ty sc (slice payload off (off + asiz))

/-- generate direction: the value is the keyword argument or the nominal value; its bytes are
    `val2bytes(val, adef)` or `val2bytes(int(val / ares), adef)` -/
def genVal (c : WCtx) (an : AName) (ty : Ty) (sc : Scale) : R (PyVal × Bytes) :=
  match nomval ty with
  | .error e => .error e
  | .ok nv =>
    let v := (kwLookup c.kwargs an).getD nv
    match sc with
    | .one =>
      match val2bytes c.ctx.atttype v ty with
      | .ok b => .ok (v, b)
      | .error e => .error e
    | _ =>
      match scaleDown v sc with
      | .error e => .error e
      | .ok r =>
        match val2bytes c.ctx.atttype (.int r) ty with
        | .ok b => .ok (v, b)
        | .error e => .error e

/-- `setattr(self, anami, val)`, or the `_HP` merge into the attribute named by `anami[3:]` -/
def storeVal (c : WCtx) (idx : List Nat) (n : Name) (env : Env) (val : PyVal) : R Env :=
  if nameLen n ≥ 3 && nameTake n 3 = nmHP then
    let tgt : AName := ⟨nameDrop n 3, idx⟩
    match env.get? tgt with
    | none => .error .attributeE
    | some old =>
      match hpMerge old val with
      | .error e => .error e
      | .ok r => setAttr c env tgt r
  else setAttr c env ⟨n, idx⟩ val

/-- `_set_attribute_single` -/
def wSingle (c : WCtx) (idx : List Nat) (n : Name) (ty : Ty) (sc : Scale) (st : WState) : R WState :=
  match fieldSize ty st.payload with
  | .error e => .error e
  | .ok asiz =>
    if c.hasPayload then
      match readVal ty sc st.payload st.off asiz with
      | .error e => .error e
      | .ok v =>
        match storeVal c idx n st.env v with
        | .error e => .error e
        | .ok env' => .ok ⟨st.off + asiz, st.payload, env'⟩
    else
      match genVal c ⟨n, idx⟩ ty sc with
      | .error e => .error e
      | .ok vb =>
        match storeVal c idx n st.env vb.1 with
        | .error e => .error e
        | .ok env' => .ok ⟨st.off + asiz, st.payload ++ vb.2, env'⟩

def isReservedName (key : Name) : Bool := nameLen key ≥ 8 && nameTake key 8 = nmReserved

/-- width in bits of a flag: `attsiz(keyt)`; a negative width (`CH`) makes `1 << atts` raise ValueError -/
def flagWidth (keyt : Ty) : R Nat :=
  match attsiz keyt with
  | .error e => .error e
  | .ok n => if n < 0 then .error .valueE else .ok n.toNat

/-- parse direction of `_set_attribute_bits`, for every flag in dictionary order:
    `val = (bitfield >> bfoffset) & ((1 << atts) - 1)`; reserved flags are not stored -/
def flagsParse (c : WCtx) (idx : List Nat) (bitfield : Nat) : List (Name × Ty) → Nat → Env → R Env
  | [], _, env => .ok env
  | (key, keyt) :: rest, bfo, env =>
    match flagWidth keyt with
    | .error e => .error e
    | .ok atts =>
      let val : PyVal := .int (((bitfield >>> bfo) &&& (2 ^ atts - 1) : Nat) : Int)
      if isReservedName key then flagsParse c idx bitfield rest (bfo + atts) env
      else
        match setAttr c env ⟨key, idx⟩ val with
        | .error e => .error e
        | .ok env' => flagsParse c idx bitfield rest (bfo + atts) env'

/-- generate direction: `val = kwargs.get(keyr, 0)`; refused unless `0 <= val < (1 << atts)`
    (fix 7d1e5ea); `bitfield |= val << bfoffset` -/
def flagsGen (c : WCtx) (idx : List Nat) : List (Name × Ty) → Nat → Nat → Env → R (Nat × Env)
  | [], _, bitfield, env => .ok (bitfield, env)
  | (key, keyt) :: rest, bfo, bitfield, env =>
    match flagWidth keyt with
    | .error e => .error e
    | .ok atts =>
      let v := (kwLookup c.kwargs ⟨key, idx⟩).getD (.int 0)
      match v.asInt? with
      | none => .error .typeE
      | some i =>
        if i < 0 ∨ i ≥ (2 ^ atts : Nat) then .error .overflowE
        else
          let bitfield' := bitfield ||| (i.toNat <<< bfo)
          if isReservedName key then flagsGen c idx rest (bfo + atts) bitfield' env
          else
            match setAttr c env ⟨key, idx⟩ v with
            | .error e => .error e
            | .ok env' => flagsGen c idx rest (bfo + atts) bitfield' env'

/-- `_set_attribute_bitfield` -/
def wBits (c : WCtx) (idx : List Nat) (ty : Ty) (flags : List (Name × Ty)) (st : WState) : R WState :=
  match attsiz ty with
  | .error e => .error e
  | .ok bsizI =>
    let bsiz := bsizI.toNat
    if c.hasPayload then
      match flagsParse c idx (fromLE (slice st.payload st.off (st.off + bsiz))) flags 0 st.env with
      | .error e => .error e
      | .ok env' => .ok ⟨st.off + bsiz, st.payload, env'⟩
    else
      match flagsGen c idx flags 0 0 st.env with
      | .error e => .error e
      | .ok be =>
        match intToBytes (be.1 : Int) bsiz false with
        | .error e => .error e
        | .ok bs => .ok ⟨st.off + bsiz, st.payload ++ bs, be.2⟩

/-- size of one group member as `_calc_num_repeats` computes it -/
def memberSize : Item → R Int
  | .attr _ ty .one => attsiz ty
  | .attr _ _ _ => .error .typeE          -- `attsiz` applied to a `[type, scale]` list
  | .bits _ ty _ => attsiz ty
  | .group _ (.fixed _) _ => .error .typeE -- `attsiz` applied to an int
  | .group _ _ _ => .error .valueE         -- `int("umC")`

def sumSizes : List Item → Int → R Int
  | [], acc => .ok acc
  | i :: is, acc =>
    match memberSize i with
    | .error e => .error e
    | .ok s => sumSizes is (acc + s)

/-- `_calc_num_repeats`: `int(lenpayload / lengroup)` -/
def calcNumRepeats (items : List Item) (payload : Bytes) (off : Nat) : R Int :=
  match sumSizes items 0 with
  | .error e => .error e
  | .ok lengroup =>
    if lengroup = 0 then .error .zeroDivE
    else .ok (Int.tdiv ((payload.length : Int) - (off : Int)) lengroup)

/-- `cfgkey2name`: name and type for a key id. Unknown ids get `CFG_0x…` and an `X` type whose
    width is `UBX_CONFIG_STORSIZE[int(hex(keyid)[2:3])]`. -/
def hexDigits (n : Nat) : List Nat := (Nat.toDigits 16 n).map (fun c => c.toNat)

def cfgkey2name (ctx : Ctx) (keyid : Nat) : R (Name × Ty) :=
  match ctx.cfgdb.find? (fun e => e.2.1 == keyid) with
  | some e => .ok (e.1, e.2.2)
  | none =>
    let ds := hexDigits keyid
    let name := (ds.foldl (fun a d => a * 256 + d) 0x4346475f3078 : Nat)   -- "CFG_0x" ++ hex digits
    let d0 := ds.headD 48
    if d0 < 48 || d0 > 57 then .error .valueE        -- int("a") … int("f")
    else
      match ctx.storsize.find? (fun e => e.1 == d0 - 48) with
      | some e => .ok (name, .t cX e.2)
      | none => .error .ubxMessage                    -- KeyError → UBXMessageError

def cfgname2key (ctx : Ctx) (name : Name) : R (Nat × Ty) :=
  match ctx.cfgdb.find? (fun e => e.1 == name) with
  | some e => .ok e.2
  | none => .error .ubxMessage

/-- the `while offset < cfglen` loop of `_set_attribute_cfgval`, one key per iteration -/
def cfgLoop (c : WCtx) (payload : Bytes) (cfglen : Nat) : Nat → Nat → Env → R Env
  | 0, _, env => .ok env
  | fuel+1, off, env =>
    if off < cfglen then do
      let key := fromLE (slice payload off (off + 4))
      let (kn, ty) ← cfgkey2name c.ctx key
      let atts ← attsiz ty
      let valb := slice payload (off + 4) (off + 4 + atts.toNat)
      let v ← bytes2val valb ty
      let env' ← setAttr c env ⟨kn, []⟩ v
      cfgLoop c payload cfglen fuel (off + 4 + atts.toNat) env'
    else .ok env

def wCfgVal (c : WCtx) (st : WState) : R WState :=
  if !c.hasPayload then .error .ubxMessage
  else
    let cfglen := st.payload.length - st.off
    match cfgLoop c st.payload cfglen (cfglen + 1) st.off st.env with
    | .error e => .error e
    | .ok env' => .ok { st with env := env' }

/-- `"calibTtagValid"` -/
def nmCalibTtagValid : Name := 0x63616c69625474616756616c6964

/-- repeat count held by the top-level attribute `a` (`getattr(self, anam)`), with the ESF-MEAS adjustment -/
def namedCount (c : WCtx) (a : Name) (env : Env) : R Nat :=
  match env.get? ⟨a, []⟩ with
  | none => .error .attributeE
  | some g =>
    let bump : Bool :=
      c.esfmeas && (match env.get? ⟨nmCalibTtagValid, []⟩ with
                    | some v => v.truthy
                    | none => false)
    match g.asInt? with
    | some i => .ok (if bump then i + 1 else i).toNat
    | none => .error .typeE

/-- number of repeats of a group -/
def groupCount (c : WCtx) (cnt : Count) (items : List Item) (st : WState) : R Nat :=
  match cnt with
  | .fixed n => .ok n
  | .var =>
    match calcNumRepeats items st.payload st.off with
    | .error e => .error e
    | .ok k => .ok k.toNat
  | .named a => namedCount c a st.env

/-- `for i in range(gsiz): index[-1] = i + 1; <body>`: run `body` for indices `i, i+1, …` (`k` times) -/
def repeatN (body : Nat → WState → R WState) : Nat → Nat → WState → R WState
  | 0, _, st => .ok st
  | k+1, i, st =>
    match body i st with
    | .ok st' => repeatN body k (i + 1) st'
    | .error e => .error e

mutual
/-- `_set_attribute` -/
def wItem (c : WCtx) (idx : List Nat) : Item → WState → R WState
  | .attr n ty sc, st => wSingle c idx n ty sc st
  | .bits n ty flags, st =>
    if c.parsebf then wBits c idx ty flags st else wSingle c idx n ty .one st
  | .group _ cnt items, st =>
    if c.cfgval then wCfgVal c st
    else
      match groupCount c cnt items st with
      | .error e => .error e
      | .ok k => repeatN (fun i s => wItems c (idx ++ [i]) items s) k 1 st
/-- `for key in dict: (offset, index) = self._set_attribute(key, …)` -/
def wItems (c : WCtx) (idx : List Nat) : List Item → WState → R WState
  | [], st => .ok st
  | i :: is, st =>
    match wItem c idx i st with
    | .ok st' => wItems c idx is st'
    | .error e => .error e
end

end Ubx
