import Ubx.Model.PyHosts
import Ubx.Model.Walk
import Ubx.Generated.Code
/-!
# Host of the translated `cfgkey2name` (definitions only)

What `ubxhelpers.cfgkey2name` talks to when run under the PyLite semantics with its f-strings *evaluated*
(tools/translate_code.py `EVAL_FSTRINGS`): `UBX_CONFIG_DATABASE.items()` is the generated table in file order, `hex(k)` is
an opaque text object whose `[2:3]` slice is its first digit, `int` of that digit is ValueError for a letter, the storage
size table raises KeyError for a digit not filed, and the two f-strings are `"CFG_" + hex(k)` and `"X%03d"`. Kept apart
from the equivalence proof (Proofs/CodeCfgKey) because the driver runs the translated function against this host
(`pyl-cfgkey`).
-/
namespace Ubx.Py
open Ubx

inductive KO where
  | ty (t : Ty)
  | hexs (k : Nat)          -- the text `hex(k)`
  | digit (d : Nat)         -- one character of it (its code)
  | storsize

/-- `"CFG_" + hex(k)` as a name -/
def cfgHexName (k : Nat) : Name := ((hexDigits k).foldl (fun a d => a * 256 + d) 0x4346475f3078 : Nat)

def kEntry (e : Name × Nat × Ty) : V KO := .tuple [.str e.1, .tuple [.int e.2.1, .host (.ty e.2.2)]]

def kCall (ctx : Ctx) (f : Name) (args : List (V KO)) (_kws : List (Name × V KO)) (st : Unit) : X KO (V KO) × Unit :=
  if f = 0x5542585f434f4e4649475f44415441424153452e6974656d73 then     -- UBX_CONFIG_DATABASE.items()
    (.ok (.tuple (ctx.cfgdb.map kEntry)), st)
  else if f = 0x686578 then                                            -- hex(keyid)
    match args with
    | [.int k] => if 0 ≤ k then (.ok (.host (.hexs k.toNat)), st) else (raiseX xUnsupported, st)
    | _ => (raiseX xUnsupported, st)
  else if f = fInt then                                                -- int(one character)
    match args with
    | [.host (.digit d)] => if d < 48 || d > 57 then (.error (.exc xValueError 0), st) else (.ok (.int ((d - 48 : Nat) : Int)), st)
    | _ => (raiseX xUnsupported, st)
  else if f = 0x5f5f667374725f5f then                                  -- f-strings
    match args with
    | [.str 0x4346475f, .host (.hexs k)] => (.ok (.str (cfgHexName k)), st)                 -- f"CFG_{hex(keyid)}"
    | [.str 0x58, .int n, .str 0x303364] =>                                                -- f"X{size:03d}"
      if 0 ≤ n then (.ok (.host (.ty (.t cX n.toNat))), st) else (raiseX xUnsupported, st)
    | _ => (raiseX xUnsupported, st)
  else (raiseX xUnsupported, st)

def kIndex (ctx : Ctx) (o : KO) (i : V KO) (_st : Unit) : X KO (V KO) :=
  match o, i with
  | .hexs k, .tuple [.int 2, .int 3] => .ok (.host (.digit ((hexDigits k).headD 48)))      -- hex(k)[2:3]: the first digit
  | .storsize, .int n =>
    if 0 ≤ n then (match ctx.storsize.find? (fun e => e.1 == n.toNat) with
      | some e => .ok (.int e.2)
      | none => .error (.exc xKeyError 0))
    else .error (.exc xKeyError 0)
  | _, _ => raiseX xUnsupported

def ckHost (ctx : Ctx) : Host KO Unit where
  glob := fun x => if x = 0x5542585f434f4e4649475f53544f5253495a45 then some (.host .storsize) else none
  call := kCall ctx
  mcall := fun _ _ _ _ st => (raiseX xUnsupported, st)
  attr := fun _ _ _ => raiseX xUnsupported
  setattr := fun _ _ _ st => (raiseX xUnsupported, st)
  index := kIndex ctx
  contains := fun _ _ _ => raiseX xUnsupported
  truthy := fun _ => true
  eqHost := fun _ _ => false

end Ubx.Py
