import Ubx.Model.PyHosts
import Ubx.Model.Message
import Ubx.Generated.Code
/-!
# Host of the translated configuration helpers (definitions only)

What `UBXMessage.config_set / config_del / config_poll` talk to when run under the PyLite semantics: `val2bytes`,
`cfgname2key`, `cfgkey2name` and the `UBXMessage(...)` constructor are the model's functions of the same name. Kept apart
from the equivalence proofs (Proofs/CodeConfig) because the driver runs the translated helpers against this host
(`pyl-cfgset`, `pyl-cfgdel`, `pyl-cfgpoll`).
-/
namespace Ubx.Py
open Ubx Ubx.Gen.Code

/-- objects of the configuration helpers: a storage type, a finished message -/
inductive CO where
  | ty (t : Ty)
  | msg (m : Msg)

def toPyC : V CO → PyVal
  | .int i => .int i
  | .bool b => .bool b
  | .bytes b => .bytes b
  | .none => .none
  | .py v => v
  | _ => .other

def cfgGlob : Name → Option (V CO)
  | 0x5531 => some (.str 0x55303031)
  | 0x5532 => some (.str 0x55303032)
  | 0x5534 => some (.str 0x55303034)
  | 0x534554 => some (.int 1)
  | 0x504f4c4c => some (.int 2)
  | _ => none

def tyOfToken : V CO → Option Ty
  | .str 0x55303031 => some (.t cU 1)
  | .str 0x55303032 => some (.t cU 2)
  | .str 0x55303034 => some (.t cU 4)
  | .host (.ty t) => some t
  | _ => none

def cfgCall (ctx : Ctx) (f : Name) (args : List (V CO)) (kw : List (Name × V CO)) (h : Unit) : X CO (V CO) × Unit :=
  if f = 0x76616c326279746573 then                 -- val2bytes(v, type)
    match args with
    | [v, t] =>
      (match tyOfToken t with
       | some ty => (encR .bytes (val2bytes ctx.atttype (toPyC v) ty), h)
       | none => (raiseX xUnsupported, h))
    | _ => (raiseX xUnsupported, h)
  else if f = 0x6366676e616d65326b6579 then         -- cfgname2key(name)
    match args with
    | [.str n] => (encR (fun (kt : Nat × Ty) => .tuple [.int kt.1, .host (.ty kt.2)]) (cfgname2key ctx n), h)
    | _ => (raiseX xUnsupported, h)
  else if f = 0x6366676b6579326e616d65 then         -- cfgkey2name(id)
    match args with
    | [.int k] =>
      if 0 ≤ k then (encR (fun (nt : Name × Ty) => .tuple [.str nt.1, .host (.ty nt.2)]) (cfgkey2name ctx k.toNat), h)
      else (raiseX xUnsupported, h)
    | _ => (raiseX xUnsupported, h)
  else if f = 0x5542584d657373616765 then           -- UBXMessage("CFG", name, mode, payload=…)
    match args, kw with
    | [.str 0x434647, .str n, .int m], [(0x7061796c6f6164, .bytes p)] =>
      if 0 ≤ m then (encR (fun m => .host (.msg m)) (constructNamed ctx N.cCFG n m.toNat p), h) else (raiseX xUnsupported, h)
    | _, _ => (raiseX xUnsupported, h)
  else (raiseX xUnsupported, h)

def cfgHost (ctx : Ctx) : Host CO Unit where
  glob := cfgGlob
  call := cfgCall ctx
  mcall := fun _ _ _ _ h => (raiseX xUnsupported, h)
  attr := fun _ _ _ => raiseX xUnsupported
  setattr := fun _ _ _ h => (raiseX xUnsupported, h)
  index := fun _ _ _ => raiseX xUnsupported
  contains := fun _ _ _ => raiseX xUnsupported
  truthy := fun _ => true
  eqHost := fun _ _ => false

/-- a key as the caller gives it: a name or an id -/
def encKey : CfgKey → V CO
  | .byName n => .str n
  | .byId k => .int k

def encItem (kv : CfgKey × PyVal) : V CO := .tuple [encKey kv.1, V.ofPy kv.2]

end Ubx.Py
