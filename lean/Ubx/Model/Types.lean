import Ubx.Model.F64
/-!
# Payload-definition syntax (what `ubxtypes_*.py` dictionaries contain) and message modes
-/
namespace Ubx

/-- an attribute type string such as `"U004"`; `letter` is the code of the first character
    (`atttyp`), `size` is `int(att[1:4])` (`attsiz`). `"CH"` is special-cased by the code.
    `malformed` = `int(att[1:4])` would raise `ValueError`. -/
inductive Ty where
  | ch
  | t (letter : Nat) (size : Nat)
  | malformed (letter : Nat)
deriving DecidableEq, Repr, Inhabited

/-- character codes of the type letters in `ATTTYPE` -/
def cA : Nat := 65
def cC : Nat := 67
def cE : Nat := 69
def cI : Nat := 73
def cL : Nat := 76
def cR : Nat := 82
def cU : Nat := 85
def cX : Nat := 88

/-- scale factor of a scaled attribute: Python int or Python float (bit pattern); `one` means
    the attribute is not a list or its factor compares equal to 1 (`if ares == 1`). -/
inductive Scale where
  | one
  | int (n : Int)
  | flt (bits : Nat)
deriving DecidableEq, Repr, Inhabited

/-- how many times a group repeats -/
inductive Count where
  | fixed (n : Nat)
  | var                    -- the string "None": variable by size
  | named (n : Name)       -- name of an attribute holding the count
deriving DecidableEq, Repr, Inhabited

/-- one entry of a payload dictionary -/
inductive Item where
  | attr (name : Name) (ty : Ty) (scale : Scale)
  | bits (name : Name) (ty : Ty) (flags : List (Name × Ty))
  | group (name : Name) (cnt : Count) (items : List Item)
deriving Repr, Inhabited

abbrev Defn := List Item

inductive Mode where | get | set | poll
deriving DecidableEq, Repr, Inhabited

def Mode.toNat : Mode → Nat | .get => 0 | .set => 1 | .poll => 2
def Mode.ofNat? : Nat → Option Mode
  | 0 => some .get | 1 => some .set | 2 => some .poll | _ => none

/-- rendered attribute name: base name and the (1-based) indices of the enclosing groups.
    The Python code renders this as `base + "".join(f"_{i:02d}")`; rendering is done by the
    driver; injectivity of rendering on well-formed definitions is a theorem (`Proofs/Names`). -/
structure AName where
  base : Name
  idx : List Nat
deriving DecidableEq, Repr, Inhabited

/-- ordered attribute dictionary with Python `setattr` semantics (existing key keeps its place) -/
abbrev Env := List (AName × PyVal)

def Env.get? (e : Env) (n : AName) : Option PyVal :=
  match e.find? (fun p => p.1 == n) with
  | some p => some p.2
  | none => none

def Env.set (e : Env) (n : AName) (v : PyVal) : Env :=
  if e.any (fun p => p.1 == n) then e.map (fun p => if p.1 == n then (n, v) else p)
  else e ++ [(n, v)]

/-- number of base-256 digits of a name = length of the string in bytes -/
def nameLen (n : Name) : Nat := if n = 0 then 0 else n.log2 / 8 + 1

/-- first `k` bytes of a name (as a name) -/
def nameTake (n : Name) (k : Nat) : Name :=
  let l := nameLen n
  if l ≤ k then n else n / 256 ^ (l - k)

/-- name without its first `k` bytes -/
def nameDrop (n : Name) (k : Nat) : Name :=
  let l := nameLen n
  if l ≤ k then 0 else n % 256 ^ (l - k)

/-- `"_HP"` -/
def nmHP : Name := 0x5f4850
/-- `"reserved"` -/
def nmReserved : Name := 0x7265736572766564


/-- Python types as `isinstance` sees them in `ATTTYPE` -/
inductive Kind where | int | float | str | bytes | list
deriving DecidableEq, Repr, Inhabited

def PyVal.kind? : PyVal → Option Kind
  | .int _ => some .int
  | .bool _ => some .int      -- bool is a subclass of int
  | .float _ => some .float
  | .str _ => some .str
  | .bytes _ => some .bytes
  | .ints _ => some .list
  | .none => Option.none
  | .other => Option.none

/-- the variant selector functions of `ubxvariants.py` -/
inductive Selector where
  | cfgtp5 | mga | rxmpmreq | rxmpmp | rxmrlm | cfgnmea | aopstatus | relposned
  | timvcocal | cfgdat | secsig | alpsrv
  | unknown (n : Name)
deriving DecidableEq, Repr, Inhabited

/-- Everything the control code reads from module-level data, regenerated from the working tree
    by `tools/translate.py` into `Ubx/Generated/Tables.lean`. -/
structure Ctx where
  get : List (Name × Defn)
  set : List (Name × Defn)
  poll : List (Name × Defn)
  /-- `UBX_MSGIDS`, keys are 2- or 3-byte strings, in dictionary order -/
  msgids : List (Bytes × Name)
  /-- `UBX_CLASSES`, in dictionary order -/
  classes : List (Bytes × Name)
  /-- `VARIANTS[mode]` as (mode, class+id, selector) -/
  variants : List (Mode × Bytes × Selector)
  /-- `UBX_CONFIG_DATABASE` in dictionary order: name, key id, type -/
  cfgdb : List (Name × Nat × Ty)
  /-- `UBX_CONFIG_STORSIZE` -/
  storsize : List (Nat × Nat)
  /-- `ATTTYPE`: letter ↦ permitted Python types -/
  atttype : List (Nat × List Kind)
  /-- names that `UBXMessage` instances/classes own (`dir(UBXMessage)`): read-only properties … -/
  readonly : List Name
  /-- every name `UBXMessage` owns: `dir(UBXMessage)`, instance attributes, constructor parameters -/
  ownNames : List Name
  /-- exceptions translated to UBXTypeError by `_do_attributes` -/
  catchType : List Exc
  /-- the library's own exceptions in the catch list of `UBXReader.read` -/
  readCatch : List Exc
  /-- second bytes `b` such that `b"$" + b` is in `pynmeagps.NMEA_HDR` -/
  nmeaHdr2 : List Byte
  /-- `getinputmode`: the class/id pairs treated as POLL when `len(data) <= pollMaxLen` -/
  pollShort : List Bytes
  pollMaxLen : Nat
  /-- `getinputmode`: the class/id always POLL (CFG-VALGET) and the total length always POLL -/
  pollAlways : List Bytes
  pollLen : Nat
  /-- `SCALROUND` -/
  scalround : Nat
deriving Inhabited

/-- a name literal; only for executable code and `#guard`s — proofs use numerals -/
def nm (s : String) : Name := s.toUTF8.foldl (fun a b => a * 256 + b.toNat) 0

def lookup {β : Type} (k : Name) : List (Name × β) → Option β
  | [] => none
  | (n, v) :: rest => if n = k then some v else lookup k rest

def lookupB {β : Type} (k : Bytes) : List (Bytes × β) → Option β
  | [] => none
  | (n, v) :: rest => if n = k then some v else lookupB k rest

end Ubx
