import Ubx.Model.Walk
/-!
# Tree-directed specification of the parse-direction walk (C02)

A *value tree* gives the raw bytes of every attribute / bitfield and, for a group, the list of its
repetitions. `encItems` lays the tree out as payload bytes; `specItems` computes the attribute environment
directly from the tree: no offsets, no slicing of a payload, no repeat count derived from lengths or from
the remaining payload. The theorem `Proofs/WalkSpec.wItems_spec` says the walker, run on the encoded bytes,
computes exactly this.
-/
namespace Ubx

inductive VT where
  | leaf (b : Bytes)
  | node (reps : List (List VT))
deriving Repr, Inhabited

mutual
def encItem : VT → Bytes
  | .leaf b => b
  | .node reps => encReps reps
def encItems : List VT → Bytes
  | [] => []
  | v :: vs => encItem v ++ encItems vs
def encReps : List (List VT) → Bytes
  | [] => []
  | r :: rs => encItems r ++ encReps rs
end

mutual
def specItem (c : WCtx) (idx : List Nat) : Item → VT → Env → R Env
  | .attr n ty sc, .leaf b, env =>
    (match decodeVal ty sc b with
     | .error e => .error e
     | .ok v => storeVal c idx n env v)
  | .bits n ty flags, .leaf b, env =>
    if c.parsebf then flagsParse c idx (fromLE b) flags 0 env
    else
      (match decodeVal ty .one b with
       | .error e => .error e
       | .ok v => storeVal c idx n env v)
  | .group _ cnt items, .node reps, env =>
    -- the number of repetitions is what the definition says: a constant, the value of the count attribute,
    -- or (variable by size) however many the tree holds
    (match cnt with
     | .fixed k => if reps.length = k then specReps c idx items reps 1 env else .error .memoryE
     | .named a =>
       (match namedCount c a env with
        | .error e => .error e
        | .ok k => if reps.length = k then specReps c idx items reps 1 env else .error .memoryE)
     | .var => specReps c idx items reps 1 env)
  | _, _, _ => .error .memoryE            -- tree does not have the definition's shape
def specItems (c : WCtx) (idx : List Nat) : List Item → List VT → Env → R Env
  | [], [], env => .ok env
  | i :: is, v :: vs, env =>
    (match specItem c idx i v env with
     | .error e => .error e
     | .ok env' => specItems c idx is vs env')
  | _, _, _ => .error .memoryE
def specReps (c : WCtx) (idx : List Nat) (items : List Item) : List (List VT) → Nat → Env → R Env
  | [], _, env => .ok env
  | r :: rs, i, env =>
    (match specItems c (idx ++ [i]) items r env with
     | .error e => .error e
     | .ok env' => specReps c idx items rs (i + 1) env')
end

end Ubx

namespace Ubx

/-! ### Generate direction: the payload as a value tree

`gItems` builds, from the keyword arguments, the value tree of the message and the attribute environment —
each leaf is the `val2bytes` encoding of one attribute (keyword value, or nominal value when omitted) or of one
bitfield (flags OR-ed at their offsets); a counted group repeats as often as its count attribute says.
No payload, no offsets. `Proofs/GenSpec.wItems_gen_spec`: the walker's payload is the layout of this tree. -/

mutual
def gItem (c : WCtx) (idx : List Nat) : Item → Env → R (VT × Env)
  | .attr n ty sc, env =>
    (match genVal c ⟨n, idx⟩ ty sc with
     | .error e => .error e
     | .ok vb =>
       match storeVal c idx n env vb.1 with
       | .error e => .error e
       | .ok env' => .ok (.leaf vb.2, env'))
  | .bits n ty flags, env =>
    if c.parsebf then
      (match attsiz ty with
       | .error e => .error e
       | .ok bsiz =>
         match flagsGen c idx flags 0 0 env with
         | .error e => .error e
         | .ok be =>
           match intToBytes (be.1 : Int) bsiz.toNat false with
           | .error e => .error e
           | .ok bs => .ok (.leaf bs, be.2))
    else
      (match genVal c ⟨n, idx⟩ ty .one with
       | .error e => .error e
       | .ok vb =>
         match storeVal c idx n env vb.1 with
         | .error e => .error e
         | .ok env' => .ok (.leaf vb.2, env'))
  | .group _ cnt items, env =>
    (match cnt with
     | .fixed k =>
       (match gReps c idx items k 1 env with
        | .error e => .error e
        | .ok re => .ok (.node re.1, re.2))
     | .named a =>
       (match namedCount c a env with
        | .error e => .error e
        | .ok k =>
          match gReps c idx items k 1 env with
          | .error e => .error e
          | .ok re => .ok (.node re.1, re.2))
     | .var =>
       -- nothing has been laid out after the running offset yet: zero repetitions (ZeroDivisionError when the
       -- members have total size zero, other errors of the size computation as they come)
       (match sumSizes items 0 with
        | .error e => .error e
        | .ok g => if g = 0 then .error .zeroDivE else .ok (.node [], env)))
def gItems (c : WCtx) (idx : List Nat) : List Item → Env → R (List VT × Env)
  | [], env => .ok ([], env)
  | i :: is, env =>
    (match gItem c idx i env with
     | .error e => .error e
     | .ok ve =>
       match gItems c idx is ve.2 with
       | .error e => .error e
       | .ok vse => .ok (ve.1 :: vse.1, vse.2))
def gReps (c : WCtx) (idx : List Nat) (items : List Item) : Nat → Nat → Env → R (List (List VT) × Env)
  | 0, _, env => .ok ([], env)
  | k+1, i, env =>
    (match gItems c (idx ++ [i]) items env with
     | .error e => .error e
     | .ok re =>
       match gReps c idx items k (i + 1) re.2 with
       | .error e => .error e
       | .ok rse => .ok (re.1 :: rse.1, rse.2))
end

end Ubx
