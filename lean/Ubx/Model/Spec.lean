import Ubx.Model.Walk
/-!
# Tree-directed specification of the parse-direction walk (C02)

A *value tree* gives the raw bytes of every attribute / bitfield and, for a group, the list of its
repetitions. `encItems` lays the tree out as payload bytes; `specItems` computes the attribute environment
directly from the tree: no offsets, no slicing of a payload, no repeat count derived from lengths or from
the remaining payload. The theorem `Proofs/WalkSpec.wItems_spec` says the walker, run on the encoded bytes,
computes exactly this.
-/
namespace Ubx

inductive VT where
  | leaf (b : Bytes)
  | node (reps : List (List VT))
deriving Repr, Inhabited

mutual
def encItem : VT → Bytes
  | .leaf b => b
  | .node reps => encReps reps
def encItems : List VT → Bytes
  | [] => []
  | v :: vs => encItem v ++ encItems vs
def encReps : List (List VT) → Bytes
  | [] => []
  | r :: rs => encItems r ++ encReps rs
end

mutual
def specItem (c : WCtx) (idx : List Nat) : Item → VT → Env → R Env
  | .attr n ty sc, .leaf b, env =>
    (match decodeVal ty sc b with
     | .error e => .error e
     | .ok v => storeVal c idx n env v)
  | .bits n ty flags, .leaf b, env =>
    if c.parsebf then flagsParse c idx (fromLE b) flags 0 env
    else
      (match decodeVal ty .one b with
       | .error e => .error e
       | .ok v => storeVal c idx n env v)
  | .group _ cnt items, .node reps, env =>
    -- the number of repetitions is what the definition says: a constant, the value of the count attribute,
    -- or (variable by size) however many the tree holds
    (match cnt with
     | .fixed k => if reps.length = k then specReps c idx items reps 1 env else .error .memoryE
     | .named a =>
       (match namedCount c a env with
        | .error e => .error e
        | .ok k => if reps.length = k then specReps c idx items reps 1 env else .error .memoryE)
     | .var => specReps c idx items reps 1 env)
  | _, _, _ => .error .memoryE            -- tree does not have the definition's shape
def specItems (c : WCtx) (idx : List Nat) : List Item → List VT → Env → R Env
  | [], [], env => .ok env
  | i :: is, v :: vs, env =>
    (match specItem c idx i v env with
     | .error e => .error e
     | .ok env' => specItems c idx is vs env')
  | _, _, _ => .error .memoryE
def specReps (c : WCtx) (idx : List Nat) (items : List Item) : List (List VT) → Nat → Env → R Env
  | [], _, env => .ok env
  | r :: rs, i, env =>
    (match specItems c (idx ++ [i]) items r env with
     | .error e => .error e
     | .ok env' => specReps c idx items rs (i + 1) env')
end

end Ubx
