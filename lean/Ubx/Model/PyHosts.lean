import Ubx.Generated.Code
import Ubx.Model.Checksum
import Ubx.Model.Message
/-!
# Hosts for the interpreted code: what the translated functions call, as the model's functions

Definitions only (no proofs), so that the line-protocol driver can run the interpreted code (`pyl-…` operations)
without depending on any equivalence *proof* — a rewrite of the Python code that breaks a proof must not break the driver.
-/
namespace Ubx.Py
open Ubx Ubx.Gen.Code

/-- exception class names of the model's exception kinds -/
def excName : Exc → Name
  | .ubxParse => xUBXParseError | .ubxMessage => xUBXMessageError | .ubxType => xUBXTypeError
  | .ubxStream => xUBXStreamError | .indexE => xIndexError | .typeE => xTypeError | .valueE => xValueError
  | .overflowE => xOverflowError | .attributeE => xAttributeError | .structE => xStructError | .keyE => xKeyError
  | .zeroDivE => xZeroDivisionError | .unboundLocalE => xUnboundLocalError | .unicodeE => 0x556e69636f64654572726f72
  | .memoryE => 0x4d656d6f72794572726f72

def encR {ω α : Type} (f : α → V ω) : R α → X ω (V ω)
  | .ok a => .ok (f a)
  | .error e => .error (.exc (excName e) 0)

/-- host for the stand-alone helpers: module constants, and `calc_checksum` as a callable -/
def helperHost (glob : Name → Option (V Empty)) : Host Empty Unit where
  glob := glob
  call := fun f args _ h =>
    if f = 0x63616c635f636865636b73756d then          -- "calc_checksum"
      match args with
      | [.bytes b] => (.ok (.bytes (calcChecksum b)), h)
      | _ => (raiseX xUnsupported, h)
    else (raiseX xUnsupported, h)
  mcall := fun _ _ _ _ h => (raiseX xUnsupported, h)
  attr := fun _ _ _ => raiseX xUnsupported
  setattr := fun _ _ _ h => (raiseX xUnsupported, h)
  index := fun o _ _ => nomatch o
  contains := fun o _ _ => nomatch o
  truthy := fun o => nomatch o
  eqHost := fun o _ => nomatch o

/-- the functions `UBXReader.parse` calls: helpers (as the model functions) and the `UBXMessage` constructor -/
def parseCall (ctx : Ctx) (f : Name) (args : List (V Msg)) (kw : List (Name × V Msg)) (h : Unit) : X Msg (V Msg) × Unit :=
  if f = 0x63616c635f636865636b73756d then          -- calc_checksum
    match args with
    | [.bytes b] => (.ok (.bytes (calcChecksum b)), h)
    | _ => (raiseX xUnsupported, h)
  else if f = 0x62797465733276616c then             -- bytes2val(lenb, U2)
    match args with
    | [.bytes b, .str 0x55303032] => (.ok (.int (fromLE b : Nat)), h)
    | _ => (raiseX xUnsupported, h)
  else if f = 0x76616c326279746573 then             -- val2bytes(lenp, U2)
    match args with
    | [.int i, .str 0x55303032] => (encR .bytes (val2bytes ctx.atttype (.int i) (.t cU 2)), h)
    | _ => (raiseX xUnsupported, h)
  else if f = 0x676574696e7075746d6f6465 then       -- getinputmode
    match args with
    | [.bytes b] => (.ok (.int ((getinputmode ctx b).toNat : Nat)), h)
    | _ => (raiseX xUnsupported, h)
  else if f = 0x5542584d657373616765 then           -- UBXMessage(cls, id, mode[, payload=…, parsebitfield=…])
    match args, kw with
    | [.bytes c, .bytes i, .int m], [] =>
      if 0 ≤ m then (encR .host (construct ctx c i m.toNat true .empty), h) else (raiseX xUnsupported, h)
    | [.bytes c, .bytes i, .int m], [(0x7061796c6f6164, .bytes p), (0x70617273656269746669656c64, .bool bf)] =>
      if 0 ≤ m then (encR .host (construct ctx c i m.toNat bf (.payload p)), h) else (raiseX xUnsupported, h)
    | _, _ => (raiseX xUnsupported, h)
  else (raiseX xUnsupported, h)

def parseGlob : Name → Option (V Msg) := globLookup globals

def parseHost (ctx : Ctx) : Host Msg Unit where
  glob := parseGlob
  call := parseCall ctx
  mcall := fun _ _ _ _ h => (raiseX xUnsupported, h)
  attr := fun _ _ _ => raiseX xUnsupported
  setattr := fun _ _ _ h => (raiseX xUnsupported, h)
  index := fun _ _ _ => raiseX xUnsupported
  contains := fun _ _ _ => raiseX xUnsupported
  truthy := fun _ => true
  eqHost := fun _ _ => false

end Ubx.Py
