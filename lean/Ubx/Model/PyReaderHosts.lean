import Ubx.Model.PyHosts
import Ubx.Model.Reader
import Ubx.Generated.Code
/-!
# Hosts of the translated reader code (definitions only)

What `UBXReader.read / _parse_* / _do_error / __next__` talk to when run under the PyLite semantics: the byte source
as `_read_bytes` / `_read_line` see it (the model's `Src`), the three protocol parsers as the model's oracle `O`,
the reader's options, the error handler / logger (calls are recorded in the state); `h2` adds the translated
`_parse_*` / `_do_error` as the methods `read()` calls, `h3` the translated `read()` as the method `__next__` calls.
Kept apart from the equivalence proofs (Proofs/CodeReader…CodeIterate) because the driver *runs* the translated reader
against these hosts (`pyl-readp`), and the driver must build even when a proof no longer does.
-/
set_option maxRecDepth 10000
namespace Ubx.Py
open Ubx Ubx.Gen.Code

/-- objects the reader code handles that are not plain values -/
inductive RO (α : Type) where
  | self
  | parsed (a : α)
  | handler
  | logger
deriving Repr

/-- reader-side state: the byte source (`none` = nothing more can arrive) and the calls made to the error
    handler / logger, newest last, as (exception class, tag) -/
structure RSt (σ : Type) where
  src : Option σ
  calls : List (Name × Nat)

/-- what the reader's environment is made of -/
structure REnv (σ α : Type) where
  S : Src σ
  cfg : RCfg
  O : Oracle α
  /-- `quitonerror` -/
  q : Nat
  /-- was an `errorhandler` given? (otherwise rejected frames go to the logger) -/
  hasHandler : Bool
  /-- class of the exception a parser raises for verdict `rejected c` / `crash c` -/
  rej : Proto → Nat → Name
  crash : Proto → Nat → Name

variable {σ α : Type}

def readGlob : Name → Option (V (RO α)) := globLookup globals

/-- is this (keyword argument) the given integer token? -/
def isIntV {ω : Type} (v : Option (V ω)) (k : Int) : Bool :=
  match v with
  | some (.int i) => i == k
  | _ => false

/-- `self._read_bytes(n)` / `self._read_line()` as the model's byte source sees them -/
def srcResult (r : Res σ) (st : RSt σ) : X (RO α) (V (RO α)) × RSt σ :=
  match r with
  | .eof => (.error (.exc xEOFError 0), { st with src := none })
  | .short => (.error (.exc xUBXStreamError 0), { st with src := none })
  | .ok d s' => (.ok (.bytes d), { st with src := some s' })

/-- a protocol parser's verdict as a Python outcome -/
def verdictResult (E : REnv σ α) (p : Proto) (raw : Bytes) : X (RO α) (V (RO α)) :=
  match E.O p raw with
  | .ok m => .ok (.host (.parsed m))
  | .rejected c => .error (.exc (E.rej p c) c)
  | .crash c => .error (.exc (E.crash p c) c)

def h1Mcall (E : REnv σ α) (obj : V (RO α)) (m : Name) (args : List (V (RO α))) (_kw : List (Name × V (RO α)))
    (st : RSt σ) : X (RO α) (V (RO α)) × RSt σ :=
  match obj with
  | .host .self =>
    if m = 0x5f726561645f6279746573 then            -- _read_bytes(n)
      match args with
      | [.int n] =>
        if 0 ≤ n then
          (match st.src with
           | none => (.error (.exc xEOFError 0), st)
           | some s => srcResult (E.S.read n.toNat s) st)
        else (raiseX xUnsupported, st)
      | _ => (raiseX xUnsupported, st)
    else if m = 0x5f726561645f6c696e65 then         -- _read_line()
      match args with
      | [] =>
        (match st.src with
         | none => (.error (.exc xEOFError 0), st)
         | some s => srcResult (E.S.line s) st)
      | _ => (raiseX xUnsupported, st)
    else if m = 0x7061727365 then                   -- self.parse(raw, validate=…, msgmode=…, parsebitfield=…)
      match args with
      | [.bytes raw] =>
        if _kw.length == 3 && isIntV (kwArg _kw 0x76616c6964617465) 1001 && isIntV (kwArg _kw 0x6d73676d6f6465) 1002
            && isIntV (kwArg _kw 0x70617273656269746669656c64) 1003
        then (verdictResult E .ubx raw, st) else (raiseX xUnsupported, st)
      | _ => (raiseX xUnsupported, st)
    else if m = 0x5f6572726f7268616e646c6572 then   -- self._errorhandler(err)
      match args with
      | [.exc c a] => (.ok .none, { st with calls := st.calls ++ [(c, a)] })
      | _ => (raiseX xUnsupported, st)
    else (raiseX xUnsupported, st)
  | .host .logger =>
    if m = 0x6572726f72 then                        -- self._logger.error(err)
      match args with
      | [.exc c a] => (.ok .none, { st with calls := st.calls ++ [(c, a)] })
      | _ => (raiseX xUnsupported, st)
    else (raiseX xUnsupported, st)
  | _ => (raiseX xUnsupported, st)

def h1Call (E : REnv σ α) (f : Name) (args : List (V (RO α))) (_kw : List (Name × V (RO α))) (st : RSt σ) :
    X (RO α) (V (RO α)) × RSt σ :=
  if f = 0x4e4d45415265616465722e7061727365 then    -- NMEAReader.parse
    match args with
    | [.bytes raw] =>
      if _kw.length == 2 && isIntV (kwArg _kw 0x76616c6964617465) 1001 && isIntV (kwArg _kw 0x6d73676d6f6465) 1002
      then (verdictResult E .nmea raw, st) else (raiseX xUnsupported, st)      -- validate=…, msgmode=…
    | _ => (raiseX xUnsupported, st)
  else if f = 0x5254434d5265616465722e7061727365 then  -- RTCMReader.parse
    match args with
    | [.bytes raw] =>
      if _kw.length == 2 && isIntV (kwArg _kw 0x76616c6964617465) 1001 && isIntV (kwArg _kw 0x6c6162656c6d736d) 1004
      then (verdictResult E .rtcm raw, st) else (raiseX xUnsupported, st)      -- validate=…, labelmsm=…
    | _ => (raiseX xUnsupported, st)
  else (raiseX xUnsupported, st)

def h1Attr (E : REnv σ α) (obj : V (RO α)) (a : Name) (_st : RSt σ) : X (RO α) (V (RO α)) :=
  match obj with
  | .host .self =>
    if a = 0x5f70726f7466696c746572 then .ok (.int E.cfg.filter)         -- _protfilter
    else if a = 0x5f70617273696e67 then .ok (.bool E.cfg.parsing)        -- _parsing
    -- the options handed on to the protocol parsers: opaque tokens, so that the parser calls can be checked for
    -- passing each option under its own keyword
    else if a = 0x5f76616c6964617465 then .ok (.int 1001)                -- _validate
    else if a = 0x5f6d73676d6f6465 then .ok (.int 1002)                  -- _msgmode
    else if a = 0x5f70617273656266 then .ok (.int 1003)                  -- _parsebf
    else if a = 0x5f6c6162656c6d736d then .ok (.int 1004)                -- _labelmsm
    else if a = 0x5f717569746f6e6572726f72 then .ok (.int E.q)           -- _quitonerror
    else if a = 0x5f6572726f7268616e646c6572 then .ok (if E.hasHandler then .host .handler else .none)   -- _errorhandler
    else if a = 0x5f6c6f67676572 then .ok (.host .logger)                -- _logger
    else raiseX xUnsupported
  | _ => raiseX xUnsupported

/-- level-1 host: what `_parse_ubx`, `_parse_nmea`, `_parse_rtcm3` run against -/
def h1 (E : REnv σ α) : Host (RO α) (RSt σ) where
  glob := readGlob
  call := h1Call E
  mcall := h1Mcall E
  attr := h1Attr E
  setattr := fun _ _ _ st => (raiseX xUnsupported, st)
  index := fun _ _ _ => raiseX xUnsupported
  contains := fun _ _ _ => raiseX xUnsupported
  truthy := fun _ => true
  eqHost := fun _ _ => false


/-- level-2 host: level 1 plus the reader's own methods, run as the code they are in the working tree -/
def h2Mcall (E : REnv σ α) (fuel : Nat) (obj : V (RO α)) (m : Name) (args : List (V (RO α))) (kw : List (Name × V (RO α)))
    (st : RSt σ) : X (RO α) (V (RO α)) × RSt σ :=
  if m = 0x5f70617273655f756278 then            -- _parse_ubx
    match obj, args with
    | .host .self, [.bytes hd] => runFn (h1 E) fuel fn_UBXReader__parse_ubx [.host .self, .bytes hd] st
    | _, _ => (raiseX xUnsupported, st)
  else if m = 0x5f70617273655f6e6d6561 then     -- _parse_nmea
    match obj, args with
    | .host .self, [.bytes hd] => runFn (h1 E) fuel fn_UBXReader__parse_nmea [.host .self, .bytes hd] st
    | _, _ => (raiseX xUnsupported, st)
  else if m = 0x5f70617273655f7274636d33 then   -- _parse_rtcm3
    match obj, args with
    | .host .self, [.bytes hd] => runFn (h1 E) fuel fn_UBXReader__parse_rtcm3 [.host .self, .bytes hd] st
    | _, _ => (raiseX xUnsupported, st)
  else if m = 0x5f646f5f6572726f72 then         -- _do_error
    match obj, args with
    | .host .self, [.exc c a] => runFn (h1 E) fuel fn_UBXReader__do_error [.host .self, .exc c a] st
    | _, _ => (raiseX xUnsupported, st)
  else h1Mcall E obj m args kw st

def h2 (E : REnv σ α) (fuel : Nat) : Host (RO α) (RSt σ) := { h1 E with mcall := h2Mcall E fuel }


def h3Glob : Name → Option (V (RO α)) := fun x =>
  if x = xStopIteration then some (.exc xStopIteration 0) else readGlob x

def h3Mcall (E : REnv σ α) (fuel : Nat) (obj : V (RO α)) (m : Name) (args : List (V (RO α))) (kw : List (Name × V (RO α)))
    (st : RSt σ) : X (RO α) (V (RO α)) × RSt σ :=
  if m = 0x72656164 then                          -- read()
    match obj, args with
    | .host .self, [] => runFn (h2 E fuel) fuel fn_UBXReader_read [.host .self] st
    | _, _ => (raiseX xUnsupported, st)
  else h2Mcall E fuel obj m args kw st

/-- host of `__next__`: `self.read()` is the translated `read()`; `raise StopIteration` raises an instance -/
def h3 (E : REnv σ α) (fuel : Nat) : Host (RO α) (RSt σ) := { h2 E fuel with mcall := h3Mcall E fuel, glob := h3Glob }


end Ubx.Py
