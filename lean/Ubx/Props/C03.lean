import Ubx.Proofs.Codec
import Ubx.Model.Walk
import Ubx.Proofs.GenSpec
import Ubx.Proofs.WalkSpec
import Ubx.Generated.Tables
/-!
# C03 — messages built from keyword attributes encode exactly the values supplied
-/
namespace Ubx

/-- a supplied in-range value of an unsigned integer attribute is encoded so that the parser's decoding of those
    bytes returns it -/
theorem C03_unsigned_attr (c : WCtx) (an : AName) (l n v : Nat) (hl : l = cU ∨ l = cE ∨ l = cL)
    (hatt : ∃ ks, lookup l c.ctx.atttype = some ks ∧ ks.contains Kind.int = true)
    (hkw : kwLookup c.kwargs an = some (.int v)) (hv : v < 256 ^ n) :
    genVal c an (.t l n) .one = .ok (.int v, toLE n v) ∧ decodeVal (.t l n) .one (toLE n v) = .ok (.int v) := by
  obtain ⟨h1, h2⟩ := uint_roundtrip c.ctx.atttype l n v hl hatt hv
  have hnom : nomval (.t l n) = .ok (.int 0) := by
    rcases hl with h | h | h <;> simp [nomval, atttyp, h, cU, cE, cL, cX, cC, cR, isIntLetter, cI]
  constructor
  · simp only [genVal, hnom, hkw, Option.getD_some, h1]
  · simp only [decodeVal, h2]

/-- a supplied in-range value of a signed attribute likewise -/
theorem C03_signed_attr (c : WCtx) (an : AName) (n : Nat) (v : Int) (hn : 0 < n)
    (hatt : ∃ ks, lookup cI c.ctx.atttype = some ks ∧ ks.contains Kind.int = true)
    (hkw : kwLookup c.kwargs an = some (.int v))
    (hlo : -((2 ^ (8 * n - 1) : Nat) : Int) ≤ v) (hhi : v < ((2 ^ (8 * n - 1) : Nat) : Int)) :
    ∃ bs, genVal c an (.t cI n) .one = .ok (.int v, bs) ∧ bs.length = n ∧ decodeVal (.t cI n) .one bs = .ok (.int v) := by
  obtain ⟨bs, h1, h2, h3⟩ := sint_roundtrip c.ctx.atttype n v hn hatt hlo hhi
  have hnom : nomval (.t cI n) = .ok (.int 0) := by simp [nomval, atttyp, cX, cC, cR, isIntLetter, cI, cE, cL, cU]
  refine ⟨bs, ?_, h2, ?_⟩
  · simp only [genVal, hnom, hkw, Option.getD_some, h1]
  · simp only [decodeVal, h3]

/-- an omitted attribute takes the nominal value (zero / blank) -/
theorem C03_omitted_is_nominal (c : WCtx) (an : AName) (ty : Ty) (nv : PyVal) (b : Bytes)
    (hkw : kwLookup c.kwargs an = none) (hnom : nomval ty = .ok nv) (hb : val2bytes c.ctx.atttype nv ty = .ok b) :
    genVal c an ty .one = .ok (nv, b) := by
  simp only [genVal, hnom, hkw, Option.getD_none, hb]

/-- **Recorded finding, proved of the model** (and replayed on the implementation by the check): the keyword path
    converts a scaled value with `int(val / ares)`, which truncates. NAV-DOP gDOP (U2, scale 0.01): the parser
    reports raw 29 as 0.29, and 0.29 / 0.01 = 28.999999999999996 truncates to 28. -/
theorem C03_scaled_truncation_witness :
    scaleUp (.int 29) (.flt 0x3F847AE147AE147B) = .ok (.float 0x3FD28F5C28F5C28F) ∧
    scaleDown (.float 0x3FD28F5C28F5C28F) (.flt 0x3F847AE147AE147B) = .ok 28 := by
  constructor <;> decide +kernel

/-- whereas e.g. raw 25 survives: 0.25 / 0.01 = 25.0 exactly -/
example : scaleDown (.float 0x3FD0000000000000) (.flt 0x3F847AE147AE147B) = .ok 25 := by decide +kernel

/-- integer scale factors (15, 60, 600, 3600, 2048, 4096, 16384, 65536 in the tables) are exact: no float is involved
    on the way out, `raw * n`, and `int(raw * n / n) = raw` on the way back whenever the quotient is exact in binary64 -/
theorem C03_int_scale_up (raw n : Int) : scaleUp (.int raw) (.int n) = .ok (.int (raw * n)) := by
  simp [scaleUp, PyVal.asInt?]

end Ubx

namespace Ubx

/-! ### bit flags: OR-ing in-range values in at their offsets, then slicing, returns the values -/

/-- flags as (width, value), least-significant first -/
def packW : List (Nat × Nat) → Nat
  | [] => 0
  | (w, v) :: rest => v + 2 ^ w * packW rest

/-- what the generate direction computes: `bitfield |= val << bfoffset`, flag after flag -/
def orIn : Nat → Nat → List (Nat × Nat) → Nat
  | acc, _, [] => acc
  | acc, off, (w, v) :: rest => orIn (acc ||| (v <<< off)) (off + w) rest

theorem orIn_pack (fs : List (Nat × Nat)) (h : ∀ f ∈ fs, f.2 < 2 ^ f.1) (acc off : Nat) (hacc : acc < 2 ^ off) :
    orIn acc off fs = acc + 2 ^ off * packW fs := by
  induction fs generalizing acc off with
  | nil => simp [orIn, packW]
  | cons f rest ih =>
    obtain ⟨w, v⟩ := f
    have hv : v < 2 ^ w := h (w, v) (List.mem_cons_self ..)
    have hr : ∀ f ∈ rest, f.2 < 2 ^ f.1 := fun f hf => h f (List.mem_cons_of_mem _ hf)
    simp only [orIn, packW]
    have e1 : acc ||| (v <<< off) = v <<< off + acc := by
      rw [Nat.or_comm]; exact (Nat.shiftLeft_add_eq_or_of_lt hacc v).symm
    have hlt : v <<< off + acc < 2 ^ (off + w) := by
      rw [Nat.shiftLeft_eq, Nat.pow_add]
      calc v * 2 ^ off + acc < v * 2 ^ off + 2 ^ off := by omega
        _ = 2 ^ off * (v + 1) := by rw [Nat.mul_add, Nat.mul_one, Nat.mul_comm]
        _ ≤ 2 ^ off * 2 ^ w := Nat.mul_le_mul_left _ hv
    rw [e1, ih hr _ _ hlt, Nat.shiftLeft_eq, Nat.pow_add, Nat.mul_add, Nat.mul_assoc]
    rw [Nat.mul_comm v]; omega

def tyW : Ty → Nat
  | .t _ n => n
  | _ => 0

theorem flagWidth_tyW (t : Ty) (a : Nat) (h : flagWidth t = .ok a) : tyW t = a := by
  unfold flagWidth at h
  cases t with
  | ch => simp [attsiz] at h
  | malformed l => simp [attsiz] at h
  | t l n =>
    simp only [attsiz] at h
    split at h
    · cases h
    · cases h; simp [tyW]

/-- the generate-direction flag loop computes `orIn` of the supplied (in-range) values -/
theorem flagsGen_bitfield (c : WCtx) (idx : List Nat) (flags : List (Name × Ty)) :
    ∀ (off bf : Nat) (env : Env) (B : Nat) (env' : Env), flagsGen c idx flags off bf env = .ok (B, env') →
      ∃ vals : List (Nat × Nat), vals.length = flags.length ∧ (∀ f ∈ vals, f.2 < 2 ^ f.1) ∧ B = orIn bf off vals ∧
        vals.map (·.1) = flags.map (fun f => tyW f.2) := by
  induction flags with
  | nil => intro off bf env B env' h; simp only [flagsGen] at h; cases h; exact ⟨[], rfl, by simp, rfl, rfl⟩
  | cons f rest ih =>
    intro off bf env B env' h
    obtain ⟨key, keyt⟩ := f
    simp only [flagsGen] at h
    split at h
    · cases h
    · rename_i atts hw
      split at h
      · cases h
      · rename_i i hi
        split at h
        · cases h
        · rename_i hrange
          have hkt : tyW keyt = atts := flagWidth_tyW keyt atts hw
          have hi0 : 0 ≤ i ∧ i < ((2 ^ atts : Nat) : Int) := by omega
          have step : ∀ env1, flagsGen c idx rest (off + atts) (bf ||| (i.toNat <<< off)) env1 = .ok (B, env') →
              ∃ vals : List (Nat × Nat), vals.length = (((key, keyt) :: rest)).length ∧ (∀ f ∈ vals, f.2 < 2 ^ f.1) ∧
                B = orIn bf off vals ∧
                vals.map (·.1) = ((key, keyt) :: rest).map (fun f => tyW f.2) := by
            intro env1 h1
            obtain ⟨vals, hl, hr, hB, hm⟩ := ih _ _ _ _ _ h1
            refine ⟨(atts, i.toNat) :: vals, by simp [hl], ?_, ?_, ?_⟩
            · intro f hf
              rcases List.mem_cons.mp hf with rfl | hf
              · simp only; omega
              · exact hr f hf
            · simp only [orIn]; exact hB
            · simp [hm, hkt]
          split at h
          · exact step _ h
          · split at h
            · cases h
            · exact step _ h

/-- **flags round trip**: flag values supplied in range are OR-ed into disjoint bit ranges, so slicing the
    generated bitfield at the same offsets (what the parse direction does) returns exactly the supplied values -/
theorem C03_flags_roundtrip (fs : List (Nat × Nat)) (h : ∀ f ∈ fs, f.2 < 2 ^ f.1) :
    orIn 0 0 fs = packW fs ∧
    ∀ off lo, lo < 2 ^ off → ∀ hi, True →
      (let B := lo + 2 ^ off * (packW fs + 2 ^ ((fs.map (·.1)).sum) * hi)
       ∀ k (hk : k < fs.length),
         (B >>> (off + ((fs.take k).map (·.1)).sum)) &&& (2 ^ (fs[k]).1 - 1) = (fs[k]).2) := by
  constructor
  · have := orIn_pack fs h 0 0 (by simp)
    simpa using this
  · intro off lo hlo hi _
    induction fs generalizing off lo with
    | nil => intro B k hk; simp at hk
    | cons f rest ih =>
      obtain ⟨w, v⟩ := f
      have hv : v < 2 ^ w := h (w, v) (List.mem_cons_self ..)
      have hr : ∀ f ∈ rest, f.2 < 2 ^ f.1 := fun f hf => h f (List.mem_cons_of_mem _ hf)
      intro B k hk
      cases k with
      | zero =>
        simp only [List.take_zero, List.map_nil, List.sum_nil, Nat.add_zero, List.getElem_cons_zero]
        show (B >>> off) &&& (2 ^ w - 1) = v
        simp only [B, packW, List.map_cons, List.sum_cons]
        rw [Nat.shiftRight_eq_div_pow, Nat.and_two_pow_sub_one_eq_mod]
        have hpos : 0 < 2 ^ off := Nat.two_pow_pos off
        rw [Nat.add_mul_div_left _ _ hpos, Nat.div_eq_of_lt hlo, Nat.zero_add]
        have : v + 2 ^ w * packW rest + 2 ^ (w + (rest.map (·.1)).sum) * hi
            = v + 2 ^ w * (packW rest + 2 ^ ((rest.map (·.1)).sum) * hi) := by
          rw [Nat.pow_add, Nat.mul_add, Nat.mul_assoc]; omega
        rw [this, Nat.add_mul_mod_self_left, Nat.mod_eq_of_lt hv]
      | succ k =>
        have hk' : k < rest.length := by simp at hk; omega
        have e : B = (lo + 2 ^ off * v) + 2 ^ (off + w) * (packW rest + 2 ^ ((rest.map (·.1)).sum) * hi) := by
          simp only [B, packW, List.map_cons, List.sum_cons]
          rw [Nat.pow_add, Nat.pow_add, Nat.mul_add, Nat.mul_add, Nat.mul_add]
          simp only [Nat.mul_assoc, Nat.add_assoc]
        have hlo' : lo + 2 ^ off * v < 2 ^ (off + w) := by
          rw [Nat.pow_add]
          calc lo + 2 ^ off * v < 2 ^ off + 2 ^ off * v := by omega
            _ = 2 ^ off * (v + 1) := by rw [Nat.mul_add, Nat.mul_one, Nat.add_comm]
            _ ≤ 2 ^ off * 2 ^ w := Nat.mul_le_mul_left _ hv
        have := ih hr (off + w) (lo + 2 ^ off * v) hlo' k hk'
        simp only [List.take_succ_cons, List.map_cons, List.sum_cons, List.getElem_cons_succ]
        rw [e]
        have eo : off + (w + ((rest.take k).map (·.1)).sum) = off + w + ((rest.take k).map (·.1)).sum := by omega
        rw [eo]
        exact this

/-! ### the whole keyword walk -/

/-- **layout**: building from keywords lays the payload out as the concatenation, in definition order, of each
    attribute's / bitfield's own encoding (`gItems`: keyword value or nominal value through `val2bytes`, flags OR-ed at
    their offsets; counted groups repeat as often as the count attribute says) — at whatever payload was there before.
    No field's bytes depend on another field's value (each leaf is computed from its own keyword only). -/
theorem C03_payload_is_layout (c : WCtx) (hp : c.hasPayload = false) (hcv : c.cfgval = false) (idx : List Nat)
    (d : List Item) (hx : lenExactL d = true) (p : Bytes) (env : Env) (vts : List VT) (env' : Env)
    (hs : gItems c idx d env = .ok (vts, env')) :
    wItems c idx d ⟨p.length, p, env⟩ = .ok ⟨p.length + (encItems vts).length, p ++ encItems vts, env'⟩ :=
  wItems_gen_spec c hp hcv idx d hx p env vts env' hs

/-- at the level of the constructor -/
theorem C03_constructed_payload (ctx : Ctx) (cls id : Bytes) (mode : Mode) (bf : Bool) (kw : List (AName × PyVal)) (d : Defn)
    (hd : getDict ctx cls id mode (.attrs kw) = .ok d)
    (hcv : (walkCtx ctx cls id mode bf (.attrs kw)).cfgval = false)
    (hx : lenExactL d = true) (vts : List VT) (env' : Env)
    (hs : gItems (walkCtx ctx cls id mode bf (.attrs kw)) [] d [] = .ok (vts, env')) :
    walkFor ctx cls id mode bf (.attrs kw) = .ok (some (encItems vts), env') :=
  walkFor_attrs ctx cls id mode bf kw d hd hcv hx vts env' hs

/-- **generate then parse**: parsing the generated payload with the same definition computes the tree-directed
    specification on the *generated* tree — so each attribute parses back as the decoding of the bytes its own keyword
    produced (and by `C03_unsigned_attr`, `C03_signed_attr`, `C03_flags_roundtrip`, C18 that decoding is the keyword value) -/
theorem C03_generate_then_parse (cg cp : WCtx) (hg : cg.hasPayload = false) (hpp : cp.hasPayload = true)
    (hcvg : cg.cfgval = false) (hcvp : cp.cfgval = false)
    (d : List Item) (hx : lenExactL d = true) (vts : List VT) (envG envP : Env)
    (hgen : gItems cg [] d [] = .ok (vts, envG))
    (hshape : shapeItems d vts [] = true) (hspec : specItems cp [] d vts [] = .ok envP) :
    ∃ st, wItems cg [] d ⟨0, [], []⟩ = .ok st ∧ st.env = envG ∧
      wItems cp [] d ⟨0, st.payload, []⟩ = .ok ⟨st.payload.length, st.payload, envP⟩ := by
  have h1 := wItems_gen_spec cg hg hcvg [] d hx [] [] vts envG hgen
  simp only [List.length_nil, Nat.zero_add, List.nil_append] at h1
  refine ⟨_, h1, rfl, ?_⟩
  have h2 := wItems_spec cp hpp hcvp [] d vts [] [] [] envP hshape hspec
  simpa using h2

end Ubx
