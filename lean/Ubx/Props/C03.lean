import Ubx.Proofs.Codec
import Ubx.Model.Walk
import Ubx.Generated.Tables
/-!
# C03 — messages built from keyword attributes encode exactly the values supplied
-/
namespace Ubx

/-- a supplied in-range value of an unsigned integer attribute is encoded so that the parser's decoding of those
    bytes returns it -/
theorem C03_unsigned_attr (c : WCtx) (an : AName) (l n v : Nat) (hl : l = cU ∨ l = cE ∨ l = cL)
    (hatt : ∃ ks, lookup l c.ctx.atttype = some ks ∧ ks.contains Kind.int = true)
    (hkw : kwLookup c.kwargs an = some (.int v)) (hv : v < 256 ^ n) :
    genVal c an (.t l n) .one = .ok (.int v, toLE n v) ∧ decodeVal (.t l n) .one (toLE n v) = .ok (.int v) := by
  obtain ⟨h1, h2⟩ := uint_roundtrip c.ctx.atttype l n v hl hatt hv
  have hnom : nomval (.t l n) = .ok (.int 0) := by
    rcases hl with h | h | h <;> simp [nomval, atttyp, h, cU, cE, cL, cX, cC, cR, isIntLetter, cI]
  constructor
  · simp only [genVal, hnom, hkw, Option.getD_some, h1]
  · simp only [decodeVal, h2]

/-- a supplied in-range value of a signed attribute likewise -/
theorem C03_signed_attr (c : WCtx) (an : AName) (n : Nat) (v : Int) (hn : 0 < n)
    (hatt : ∃ ks, lookup cI c.ctx.atttype = some ks ∧ ks.contains Kind.int = true)
    (hkw : kwLookup c.kwargs an = some (.int v))
    (hlo : -((2 ^ (8 * n - 1) : Nat) : Int) ≤ v) (hhi : v < ((2 ^ (8 * n - 1) : Nat) : Int)) :
    ∃ bs, genVal c an (.t cI n) .one = .ok (.int v, bs) ∧ bs.length = n ∧ decodeVal (.t cI n) .one bs = .ok (.int v) := by
  obtain ⟨bs, h1, h2, h3⟩ := sint_roundtrip c.ctx.atttype n v hn hatt hlo hhi
  have hnom : nomval (.t cI n) = .ok (.int 0) := by simp [nomval, atttyp, cX, cC, cR, isIntLetter, cI, cE, cL, cU]
  refine ⟨bs, ?_, h2, ?_⟩
  · simp only [genVal, hnom, hkw, Option.getD_some, h1]
  · simp only [decodeVal, h3]

/-- an omitted attribute takes the nominal value (zero / blank) -/
theorem C03_omitted_is_nominal (c : WCtx) (an : AName) (ty : Ty) (nv : PyVal) (b : Bytes)
    (hkw : kwLookup c.kwargs an = none) (hnom : nomval ty = .ok nv) (hb : val2bytes c.ctx.atttype nv ty = .ok b) :
    genVal c an ty .one = .ok (nv, b) := by
  simp only [genVal, hnom, hkw, Option.getD_none, hb]

/-- **Recorded finding, proved of the model** (and replayed on the implementation by the check): the keyword path
    converts a scaled value with `int(val / ares)`, which truncates. NAV-DOP gDOP (U2, scale 0.01): the parser
    reports raw 29 as 0.29, and 0.29 / 0.01 = 28.999999999999996 truncates to 28. -/
theorem C03_scaled_truncation_witness :
    scaleUp (.int 29) (.flt 0x3F847AE147AE147B) = .ok (.float 0x3FD28F5C28F5C28F) ∧
    scaleDown (.float 0x3FD28F5C28F5C28F) (.flt 0x3F847AE147AE147B) = .ok 28 := by
  constructor <;> decide +kernel

/-- whereas e.g. raw 25 survives: 0.25 / 0.01 = 25.0 exactly -/
example : scaleDown (.float 0x3FD0000000000000) (.flt 0x3F847AE147AE147B) = .ok 25 := by decide +kernel

/-- integer scale factors (15, 60, 600, 3600, 2048, 4096, 16384, 65536 in the tables) are exact: no float is involved
    on the way out, `raw * n`, and `int(raw * n / n) = raw` on the way back whenever the quotient is exact in binary64 -/
theorem C03_int_scale_up (raw n : Int) : scaleUp (.int raw) (.int n) = .ok (.int (raw * n)) := by
  simp [scaleUp, PyVal.asInt?]

end Ubx
