import Ubx.Model.WF
import Ubx.Proofs.Parse
import Ubx.Generated.Tables
/-!
# C17 — SETPOLL mode resolves every input message to its true mode
-/
namespace Ubx

mutual
/-- shortest payload conforming to an item (all variable / counted groups empty) -/
def minBytes : Item → Nat
  | .attr _ ty _ => tySize ty
  | .bits _ ty _ => tySize ty
  | .group _ (.fixed n) items => n * minBytesL items
  | .group _ _ _ => 0
def minBytesL : List Item → Nat
  | [] => 0
  | i :: is => minBytes i + minBytesL is
end

mutual
/-- can a conforming payload be longer than the shortest one? -/
def canGrow : Item → Bool
  | .attr _ ty _ => ty == .ch
  | .bits _ _ _ => false
  | .group _ (.fixed n) items => n > 0 && canGrowL items
  | .group _ _ items => minBytesL items > 0 || canGrowL items
def canGrowL : List Item → Bool
  | [] => false
  | i :: is => canGrow i || canGrowL is
end

/-- `getinputmode` as a function of class/id and *payload* length (total length = payload + 8) -/
def heuristic (ctx : Ctx) (clsid : Bytes) (plen : Nat) : Mode :=
  if plen + 8 = ctx.pollLen || ctx.pollAlways.contains clsid || (ctx.pollShort.contains clsid && plen + 8 ≤ ctx.pollMaxLen)
  then .poll else .set

theorem getinputmode_frame (ctx : Ctx) (c i : Byte) (p : Bytes) :
    getinputmode ctx (frame c i p) = heuristic ctx [c, i] p.length := by
  unfold getinputmode heuristic
  have e : slice (frame c i p) 2 4 = [c, i] := by rw [frame_cons]; simp [slice]
  rw [e, frame_length]

/-- a SET definition is resolved correctly for *every* conforming payload iff it is for the shortest one
    (the heuristic's POLL region is downward closed in the length); a POLL definition must not be able to grow
    out of the POLL region. `true` = the definition's mode is what the heuristic answers for all its payloads. -/
def modeResolves (ctx : Ctx) (mode : Mode) (clsid : Bytes) (d : Defn) : Bool :=
  match mode with
  | .set => heuristic ctx clsid (minBytesL d) == .set
  | .poll =>
    heuristic ctx clsid (minBytesL d) == .poll &&
    (!canGrowL d || ctx.pollAlways.contains clsid)
  | .get => true

/-- the heuristic's POLL region is downward closed: a longer payload never turns SET into POLL -/
theorem heuristic_mono (ctx : Ctx) (clsid : Bytes) (a b : Nat) (hab : a ≤ b) (hlen : 8 ≤ ctx.pollLen)
    (h : heuristic ctx clsid a = .set) (hb : b + 8 ≠ ctx.pollLen) : heuristic ctx clsid b = .set := by
  unfold heuristic at h ⊢
  split at h
  · cases h
  · rename_i hn
    simp only [Bool.or_eq_true, Bool.and_eq_true, beq_iff_eq, decide_eq_true_eq, not_or, not_and] at hn
    rw [if_neg]
    simp only [Bool.or_eq_true, Bool.and_eq_true, beq_iff_eq, decide_eq_true_eq, not_or, not_and]
    refine ⟨⟨hb, hn.1.2⟩, ?_⟩
    intro hc hle
    exact hn.2 hc (by omega)

/-- table obligation: every SET and POLL definition that can be reached is resolved to its own mode by the
    heuristic — for the shortest conforming payload, and (POLL) without room to grow out of the POLL region —
    apart from the definitions recorded as known findings (`class=setpoll-resolves-wrong-mode` in KNOWN_FINDINGS.txt) -/
theorem C17_mode_resolves :
    ((allDefs Gen.ctx).all (fun e =>
      (idsOf Gen.ctx e.1 e.2.1).all (fun k => modeResolves Gen.ctx e.1 k e.2.2) ||
      Gen.exempt.any (fun x => x.1 == e.1 && x.2.1 == e.2.1 && x.2.2 == nm "setpoll-resolves-wrong-mode"))) = true := by
  decide +kernel

/-- SETPOLL parsing is parsing in the mode the heuristic picks -/
theorem C17_setpoll_is_heuristic (ctx : Ctx) (v : Nat) (bf : Bool) (c i : Byte) (p : Bytes) :
    parse ctx 3 v bf (frame c i p) = parse ctx (heuristic ctx [c, i] p.length).toNat v bf (frame c i p) := by
  unfold parse
  have hm : (heuristic ctx [c, i] p.length).toNat ≤ 2 := by cases heuristic ctx [c, i] p.length <;> simp [Mode.toNat]
  have h3 : ¬ (3 > 3) := by omega
  have hm3 : ¬ ((heuristic ctx [c, i] p.length).toNat > 3) := by omega
  have hne : ¬ ((heuristic ctx [c, i] p.length).toNat = 3) := by omega
  simp only [h3, hm3, if_false, hne, getinputmode_frame]
  rfl

/-- hence: whenever the heuristic answers the generating mode, SETPOLL returns the same message — mode,
    identity and attributes — as parsing in that mode -/
theorem C17_setpoll_eq (ctx : Ctx) (v : Nat) (bf : Bool) (c i : Byte) (p : Bytes) (mode : Mode)
    (h : heuristic ctx [c, i] p.length = mode) :
    parse ctx 3 v bf (frame c i p) = parse ctx mode.toNat v bf (frame c i p) := by
  rw [C17_setpoll_is_heuristic, h]

/-- the repaired entry (fix fdd9e06): a CFG-PRT poll with a port id is POLL, a 20-byte CFG-PRT is SET -/
example : heuristic Gen.ctx [0x06, 0x00] 1 = .poll ∧ heuristic Gen.ctx [0x06, 0x00] 20 = .set := by decide +kernel

end Ubx
