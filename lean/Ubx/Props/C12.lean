import Ubx.Proofs.Policy
import Ubx.Model.Sources
/-!
# C12 — quitonerror decides how a rejected frame is reported, not which frames arrive

`runP q` is the iteration with `read()`'s `except` clause and `_do_error` as written.
-/
namespace Ubx
variable {α σ : Type}

/-- ERR_IGNORE and ERR_LOG deliver the same items -/
theorem C12_ignore_eq_log (S : Src σ) (nmeaHdr : Byte → Bool) (cfg : RCfg) (O : Oracle α) (f : Nat) (st : Option σ) :
    (runP S nmeaHdr cfg O 0 f st).items = (runP S nmeaHdr cfg O 1 f st).items := by
  rw [runP_items _ _ _ _ 0 (by decide), runP_items _ _ _ _ 1 (by decide)]

/-- under ERR_LOG the handler is invoked exactly once per rejected frame (error event of the trace), in order,
    with that error; never for a delivered frame (items are not error events) -/
theorem C12_log_calls (S : Src σ) (nmeaHdr : Byte → Bool) (cfg : RCfg) (O : Oracle α) (f : Nat) (st : Option σ) :
    (runP S nmeaHdr cfg O 1 f st).calls = handlerCalls (run S nmeaHdr cfg O f st) :=
  runP_calls_log S nmeaHdr cfg O f st

/-- under ERR_IGNORE it is never invoked -/
theorem C12_ignore_no_calls (S : Src σ) (nmeaHdr : Byte → Bool) (cfg : RCfg) (O : Oracle α) (f : Nat) (st : Option σ) :
    (runP S nmeaHdr cfg O 0 f st).calls = [] := runP_calls_ignore S nmeaHdr cfg O f st

/-- under ERR_RAISE: the same items up to the first rejected frame, then that same error is raised -/
theorem C12_raise (S : Src σ) (nmeaHdr : Byte → Bool) (cfg : RCfg) (O : Oracle α) (f : Nat) (st : Option σ) :
    (runP S nmeaHdr cfg O 2 f st).items = (raiseView (run S nmeaHdr cfg O f st)).1 ∧
    (runP S nmeaHdr cfg O 2 f st).raised = (raiseView (run S nmeaHdr cfg O f st)).2 :=
  runP_raise S nmeaHdr cfg O f st

/-- `raiseView` really is "items before the first error": they are a prefix of all items -/
theorem raiseView_prefix (tr : List (Out α)) : (raiseView tr).1 <+: items tr := by
  induction tr with
  | nil => simp [raiseView, items]
  | cons o rest ih =>
    cases o with
    | err k => simp [raiseView, items]
    | item p raw m =>
      simp only [raiseView, items, List.filterMap_cons, Out.asItem]
      exact (List.prefix_cons_inj _).mpr ih
    | eof => simp only [raiseView, items, List.filterMap_cons, Out.asItem]; exact ih
    | skip => simp only [raiseView, items, List.filterMap_cons, Out.asItem]; exact ih
    | crash p c => simp only [raiseView, items, List.filterMap_cons, Out.asItem]; exact ih

/-- the raised error is the first error event of the trace -/
theorem raiseView_first_error (tr : List (Out α)) : (raiseView tr).2 = (handlerCalls tr).head? := by
  induction tr with
  | nil => rfl
  | cons o rest ih =>
    cases o with
    | err k => simp [raiseView, handlerCalls, Out.asErr]
    | item p raw m => simp only [raiseView, handlerCalls, List.filterMap_cons, Out.asErr]; exact ih
    | eof => simp only [raiseView, handlerCalls, List.filterMap_cons, Out.asErr]; exact ih
    | skip => simp only [raiseView, handlerCalls, List.filterMap_cons, Out.asErr]; exact ih
    | crash p c => simp only [raiseView, handlerCalls, List.filterMap_cons, Out.asErr]; exact ih

/-- ERR_RAISE delivers a prefix of what ERR_LOG delivers -/
theorem C12_raise_prefix (S : Src σ) (nmeaHdr : Byte → Bool) (cfg : RCfg) (O : Oracle α) (f : Nat) (st : Option σ) :
    (runP S nmeaHdr cfg O 2 f st).items <+: (runP S nmeaHdr cfg O 1 f st).items := by
  rw [(C12_raise S nmeaHdr cfg O f st).1, runP_items _ _ _ _ 1 (by decide)]
  exact raiseView_prefix _

/-- non-vacuity: good frame, corrupted frame (parser rejects), good frame -/
example :
    let O : Oracle Unit := fun _ raw => if raw.getLast? = some 0x1b then .ok () else .rejected 5
    let s : Bytes := [0xb5, 0x62, 0x06, 0x01, 0x00, 0x00, 0x07, 0x1b, 0xb5, 0x62, 0x06, 0x01, 0x00, 0x00, 0x07, 0x1c,
                      0xb5, 0x62, 0x06, 0x01, 0x00, 0x00, 0x07, 0x1b]
    ((runP fileSrc (fun _ => false) ⟨7, true⟩ O 1 30 (some s)).items.length,
     (runP fileSrc (fun _ => false) ⟨7, true⟩ O 1 30 (some s)).calls,
     (runP fileSrc (fun _ => false) ⟨7, true⟩ O 2 30 (some s)).items.length,
     (runP fileSrc (fun _ => false) ⟨7, true⟩ O 2 30 (some s)).raised)
    = (2, [.rejected .ubx 5], 1, some (.rejected .ubx 5)) := by decide

end Ubx
