import Ubx.Proofs.Message
import Ubx.Proofs.Parse
/-!
# C13 — messages are immutable and parsing/generating has no side effects

The model is a pure function of (tables, input): history- and schedule-independence hold for it by
construction (`parse`, `construct` take the tables as an argument and return no new tables). What the
theorems below add is the immutability state machine; that the *code* refines a pure function is the job of
the correspondence check (history probes, 8 worker threads, fd-level output capture, table digest, static scan).
-/
namespace Ubx

/-- every message the constructor returns is immutable -/
theorem C13_constructed_immutable (ctx : Ctx) (cls id : Bytes) (modeN : Nat) (bf : Bool) (kw : Kw) (m : Msg)
    (h : construct ctx cls id modeN bf kw = .ok m) : m.immutable = true :=
  (construct_shape ctx cls id modeN bf kw m h).2.2.2.2.2.1

/-- … so is every message `parse` returns -/
theorem C13_parsed_immutable (ctx : Ctx) (mm v : Nat) (bf : Bool) (bs : Bytes) (m : Msg)
    (h : parse ctx mm v bf bs = .ok m) : m.immutable = true := by
  unfold parse at h
  split at h
  · cases h
  · split at h
    · cases h
    · simp only at h
      split at h <;> exact C13_constructed_immutable _ _ _ _ _ _ _ h

/-- assigning any attribute (existing, private or new — the name is arbitrary) raises UBXMessageError and leaves
    the message, hence its serialization, unchanged (no new message is produced) -/
theorem C13_setattr_refused (m : Msg) (h : m.immutable = true) (n : AName) (v : PyVal) :
    m.setattr n v = .error .ubxMessage := by simp [Msg.setattr, h]

/-- deleting any attribute likewise (fix 7f8339a) -/
theorem C13_delattr_refused (m : Msg) (h : m.immutable = true) (n : AName) :
    m.delattr n = .error .ubxMessage := by simp [Msg.delattr, h]

/-- the result for an input does not depend on anything but the tables and the input: two evaluations agree,
    whatever was evaluated in between (purity of the model, stated for the record) -/
theorem C13_history_independent (ctx : Ctx) (mm v : Nat) (bf : Bool) (bs : Bytes) (others : List Bytes) :
    (others.map (parse ctx mm v bf), parse ctx mm v bf bs).2 = parse ctx mm v bf bs := rfl

/-- non-vacuity: an immutable message exists -/
example : (match parse (default : Ctx) 0 1 true [0xb5, 0x62, 0x06, 0x01, 0x00, 0x00, 0x07, 0x1b] with
           | .ok m => m.immutable && (m.setattr ⟨1, []⟩ .none == .error .ubxMessage)
           | .error _ => false) = true := by decide +kernel

end Ubx
