import Ubx.Proofs.Weave
/-!
# C06 — the stream reader delivers every well-formed frame, in order, typed by protocol
-/
namespace Ubx
variable {α : Type}

theorem weave_length {nh} (segs : List (Seg nh)) : segs.length ≤ (weave segs).length := by
  induction segs with
  | nil => simp [weave]
  | cons sg rest ih =>
    have h1 : 1 ≤ sg.bytes.length := by
      cases sg with
      | noise b h => simp [Seg.bytes]
      | frame p f h =>
        simp only [Seg.bytes]
        exact List.length_pos_iff.mpr (sframe_nonempty h)
    simp only [weave, List.map_cons, List.flatten_cons, List.length_append, List.length_cons] at ih ⊢
    omega

/-- For a stream made of structurally well-formed UBX, NMEA and RTCM3 frames in any interleaving, optionally
    separated by noise bytes containing no frame-start byte, iteration yields exactly the frames the respective
    protocol parser accepts (`deliver`: filter passes, parser returns a value), in stream order, each with its exact
    bytes and the parser's result; a frame its parser rejects is skipped without disturbing the frames after it.
    `O` is any parser triple that raises only errors in `read()`'s catch list (`NoCrash`); for UBX that is a theorem
    (C08), for pynmeagps / pyrtcm it is sampled by the correspondence check. Zero-length RTCM3 frames are included
    (`rest.length = 0 + 3`), after fix bb00c73. -/
theorem C06_delivers_all_frames (nh : Byte → Bool) (cfg : RCfg) (O : Oracle α) (hO : NoCrash O) (segs : List (Seg nh)) :
    items (readFile nh cfg O (weave segs)) = (segs.filterMap Seg.asFrame).filterMap (deliver cfg O) := by
  unfold readFile
  rw [run_items_eq_frames fileSrc nh cfg O hO, frames_weave nh segs _ (by have := weave_length segs; omega)]

/-- … and then iteration ends (end-of-stream is the last event, nothing raised) -/
theorem C06_then_ends (nh : Byte → Bool) (cfg : RCfg) (O : Oracle α) (hO : NoCrash O) (s : Bytes) :
    ∃ tr, readFile nh cfg O s = tr ++ [.eof] := by
  obtain ⟨tr, o, e, ho⟩ := run_ends fileSrc (fun x => x) file_linear nh cfg O (s.length + 2) (some s)
    (by intro s' hs'; cases hs'; omega) (by omega)
  rcases ho with rfl | ⟨p, c, rfl⟩
  · exact ⟨tr, e⟩
  · exfalso
    have := run_no_crash fileSrc nh cfg O hO (s.length + 2) (some s) (.crash p c) (by
      rw [e]; simp) p c
    exact this rfl

/-- with everything enabled and parsers that accept everything, the delivered raws are exactly the frames -/
theorem C06_raws (nh : Byte → Bool) (O : Oracle α) (hO : NoCrash O) (segs : List (Seg nh))
    (hacc : ∀ p raw, ∃ m, O p raw = .ok m) :
    (items (readFile nh ⟨7, true⟩ O (weave segs))).map (fun x => (x.1, x.2.1)) = segs.filterMap Seg.asFrame := by
  rw [C06_delivers_all_frames nh _ O hO segs]
  induction segs.filterMap Seg.asFrame with
  | nil => rfl
  | cons fr rest ih =>
    obtain ⟨m, hm⟩ := hacc fr.1 fr.2
    have hb : (7 : Nat) &&& fr.1.bit ≠ 0 := by cases fr.1 <;> decide
    simp only [List.filterMap_cons, deliver, hb, ne_eq, not_false_eq_true, if_true, hm, List.map_cons, ih]

/-- non-vacuity: noise, a UBX frame, a zero-length RTCM3 frame, an NMEA sentence -/
example : ∃ segs : List (Seg (fun b => b = 0x47)),
    weave segs = [0x00, 0xb5, 0x62, 0x06, 0x01, 0x00, 0x00, 0x07, 0x1b, 0xd3, 0x00, 0x00, 0x47, 0xea, 0x4b, 0x24, 0x47, 0x41, 0x0a] :=
  ⟨[.noise 0x00 (by decide),
    .frame .ubx _ (.ubx _ 0x06 0x01 0x00 0x00 [0x07, 0x1b] (by decide)),
    .frame .rtcm _ (.rtcm _ 0x00 0x00 [0x47, 0xea, 0x4b] (by decide) (by decide)),
    .frame .nmea _ (.nmea _ 0x47 [0x41, 0x0a] (by decide) (by decide) (by decide))], by decide⟩

end Ubx
