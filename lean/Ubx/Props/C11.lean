import Ubx.Proofs.Frames
import Ubx.Proofs.Consume
import Ubx.Model.Helpers
/-!
# C11 — protfilter and parsing flags only filter; they never change what is framed
-/
namespace Ubx
variable {α σ : Type}

theorem all_bits (p : Proto) : 7 &&& p.bit ≠ 0 := by cases p <;> decide

theorem deliver_filter (F : Nat) (parsing : Bool) (O : Oracle α) (fr : Proto × Bytes) :
    deliver ⟨F, parsing⟩ O fr =
      (deliver ⟨7, parsing⟩ O fr).bind (fun x => if F &&& x.1.bit ≠ 0 then some x else none) := by
  unfold deliver
  simp only [all_bits, ne_eq, not_false_eq_true, if_true]
  by_cases hf : F &&& fr.1.bit ≠ 0
  · rw [if_pos hf]
    cases parsing
    · simp [hf]
    · simp only [if_true]
      cases O fr.1 fr.2 <;> simp [hf]
  · rw [if_neg hf]
    cases parsing
    · simp [hf]
    · simp only [if_true]
      cases O fr.1 fr.2 <;> simp [hf]

/-- the items with mask `F` are exactly those with all protocols enabled whose protocol is in `F`, same order -/
theorem C11_filter_only_filters (S : Src σ) (nmeaHdr : Byte → Bool) (O : Oracle α) (hO : NoCrash O)
    (F : Nat) (parsing : Bool) (f : Nat) (st : Option σ) :
    items (run S nmeaHdr ⟨F, parsing⟩ O f st)
      = (items (run S nmeaHdr ⟨7, parsing⟩ O f st)).filter (fun x => F &&& x.1.bit ≠ 0) := by
  rw [run_items_eq_frames S nmeaHdr _ O hO, run_items_eq_frames S nmeaHdr _ O hO]
  rw [List.filter_filterMap]
  congr 1
  funext fr
  rw [deliver_filter F parsing O fr]
  cases deliver ⟨7, parsing⟩ O fr with
  | none => rfl
  | some x => by_cases h : F &&& x.1.bit ≠ 0 <;> simp [Option.filter, h]

/-- what is framed does not depend on the filter, the parsing flag or the parsers at all -/
theorem C11_framing_independent (S : Src σ) (nmeaHdr : Byte → Bool) (cfg cfg' : RCfg) (O O' : Oracle α) (s : σ) :
    (step S nmeaHdr cfg O s).2 = (step S nmeaHdr cfg' O' s).2 := by
  rw [step_eq, step_eq]; cases delimit S nmeaHdr s <;> rfl

/-- with `parsing=False` every parsed value is `None` … -/
theorem C11_parsing_false_none (S : Src σ) (nmeaHdr : Byte → Bool) (O : Oracle α) (hO : NoCrash O)
    (F : Nat) (f : Nat) (st : Option σ) :
    ∀ x ∈ items (run S nmeaHdr ⟨F, false⟩ O f st), x.2.2 = none := by
  rw [run_items_eq_frames S nmeaHdr _ O hO]
  intro x hx
  obtain ⟨fr, _, h⟩ := List.mem_filterMap.mp hx
  unfold deliver at h
  split at h
  · simp at h; rw [← h]
  · cases h

/-- … and over a stream whose delimited frames the parsers accept, the raw sequence is the same as with parsing on -/
theorem C11_parsing_false_same_raws (S : Src σ) (nmeaHdr : Byte → Bool) (O : Oracle α) (hO : NoCrash O)
    (F : Nat) (f : Nat) (st : Option σ)
    (hacc : ∀ fr ∈ frames S nmeaHdr f st, ∃ m, O fr.1 fr.2 = .ok m) :
    (items (run S nmeaHdr ⟨F, false⟩ O f st)).map (fun x => (x.1, x.2.1))
      = (items (run S nmeaHdr ⟨F, true⟩ O f st)).map (fun x => (x.1, x.2.1)) := by
  rw [run_items_eq_frames S nmeaHdr _ O hO, run_items_eq_frames S nmeaHdr _ O hO]
  generalize frames S nmeaHdr f st = frs at hacc
  induction frs with
  | nil => rfl
  | cons fr rest ih =>
    obtain ⟨m, hm⟩ := hacc fr (List.mem_cons_self ..)
    have ih' := ih (fun x hx => hacc x (List.mem_cons_of_mem _ hx))
    simp only [List.filterMap_cons, deliver, hm]
    by_cases hf : F &&& fr.1.bit ≠ 0
    · simp [hf, ih']
    · simp [hf, ih']

/-- in general (parsers may reject) the frames delivered with parsing on are a sub-sequence of those delivered with parsing off -/
theorem C11_parsing_true_sublist (S : Src σ) (nmeaHdr : Byte → Bool) (O : Oracle α) (hO : NoCrash O)
    (F : Nat) (f : Nat) (st : Option σ) :
    ((items (run S nmeaHdr ⟨F, true⟩ O f st)).map (fun x => (x.1, x.2.1))).Sublist
      ((items (run S nmeaHdr ⟨F, false⟩ O f st)).map (fun x => (x.1, x.2.1))) := by
  rw [run_items_eq_frames S nmeaHdr _ O hO, run_items_eq_frames S nmeaHdr _ O hO]
  induction frames S nmeaHdr f st with
  | nil => simp
  | cons fr rest ih =>
    simp only [List.filterMap_cons, deliver]
    by_cases hf : F &&& fr.1.bit ≠ 0
    · simp only [hf, ne_eq, not_false_eq_true, if_true]
      cases O fr.1 fr.2 with
      | ok m => simp; exact ih
      | rejected c => simp; exact List.Sublist.cons _ ih
      | crash c => simp; exact List.Sublist.cons _ ih
    · simp [hf]; exact ih

end Ubx

namespace Ubx
variable {σ : Type}

/-- what the dispatch looked at when it delimited a frame: its first two bytes -/
theorem delimit_frame_hdr (S : Src σ) (all : σ → Bytes) (L : Linear S all) (nh : Byte → Bool) (s s' : σ) (p : Proto) (raw : Bytes)
    (h : delimit S nh s = .frame p raw s') :
    ∃ b1 b2 rest, raw = b1 :: b2 :: rest ∧
      ((p = .ubx ∧ b1 = 0xb5 ∧ b2 = 0x62) ∨
       (p = .nmea ∧ ¬(b1 = 0xb5 ∧ b2 = 0x62) ∧ b1 = 0x24 ∧ nh b2 = true) ∨
       (p = .rtcm ∧ ¬(b1 = 0xb5 ∧ b2 = 0x62) ∧ ¬(b1 = 0x24 ∧ nh b2 = true) ∧ b1 = 0xd3 ∧ b2 &&& 0xfc = 0)) := by
  unfold delimit at h
  cases h1 : S.read 1 s with
  | eof => rw [h1] at h; cases h
  | short => rw [h1] at h; cases h
  | ok d1 s1 =>
    rw [h1] at h
    obtain ⟨_, l1⟩ := L.read 1 s d1 s1 h1
    obtain ⟨b1, rfl⟩ : ∃ b, d1 = [b] := by
      match d1, l1 with
      | [b], _ => exact ⟨b, rfl⟩
    simp only [List.getD_cons_zero] at h
    split at h
    · cases h
    · cases h2 : S.read 1 s1 with
      | eof => rw [h2] at h; cases h
      | short => rw [h2] at h; cases h
      | ok d2 s2 =>
        rw [h2] at h
        obtain ⟨_, l2⟩ := L.read 1 s1 d2 s2 h2
        obtain ⟨b2, rfl⟩ : ∃ b, d2 = [b] := by
          match d2, l2 with
          | [b], _ => exact ⟨b, rfl⟩
        simp only [List.getD_cons_zero] at h
        split at h
        · rename_i hu
          cases h3 : S.read 4 s2 with
          | eof => rw [h3] at h; cases h
          | short => rw [h3] at h; cases h
          | ok hd s3 =>
            rw [h3] at h
            simp only at h
            cases h4 : S.read (ubxLen hd) s3 with
            | eof => rw [h4] at h; cases h
            | short => rw [h4] at h; cases h
            | ok body s4 =>
              rw [h4] at h; cases h
              exact ⟨b1, b2, hd ++ body, by simp, Or.inl ⟨rfl, hu.1, hu.2⟩⟩
        · rename_i hu
          split at h
          · rename_i hn
            cases h3 : S.line s2 with
            | eof => rw [h3] at h; cases h
            | short => rw [h3] at h; cases h
            | ok l s3 =>
              rw [h3] at h; cases h
              exact ⟨b1, b2, l, by simp, Or.inr (Or.inl ⟨rfl, hu, hn.1, hn.2⟩)⟩
          · rename_i hn
            split at h
            · rename_i hr
              cases h3 : S.read 1 s2 with
              | eof => rw [h3] at h; cases h
              | short => rw [h3] at h; cases h
              | ok d3 s3 =>
                rw [h3] at h
                simp only at h
                cases h4 : S.read (rtcmLen d3 [b2]) s3 with
                | eof => rw [h4] at h; cases h
                | short => rw [h4] at h; cases h
                | ok pl s4 =>
                  rw [h4] at h
                  simp only at h
                  cases h5 : S.read 3 s4 with
                  | eof => rw [h5] at h; cases h
                  | short => rw [h5] at h; cases h
                  | ok crc s5 =>
                    rw [h5] at h; cases h
                    exact ⟨b1, b2, d3 ++ pl ++ crc, by simp [List.append_assoc], Or.inr (Or.inr ⟨rfl, hu, hn, hr.1, hr.2⟩)⟩
            · cases h

/-- the helper `protocol()` classifies every raw item exactly as the reader's header dispatch did -/
theorem C11_protocol_agrees_with_dispatch (S : Src σ) (all : σ → Bytes) (L : Linear S all) (hdr2 : List Byte)
    (s s' : σ) (p : Proto) (raw : Bytes) (h : delimit S (fun b => hdr2.contains b) s = .frame p raw s') :
    protocol hdr2 raw = .ok p.bit := by
  obtain ⟨b1, b2, rest, rfl, hc⟩ := delimit_frame_hdr S all L _ s s' p _ h
  have hs : slice (b1 :: b2 :: rest) 0 2 = [b1, b2] := by simp [slice]
  unfold protocol
  rw [hs]
  rcases hc with ⟨rfl, rfl, rfl⟩ | ⟨rfl, hu, rfl, hn⟩ | ⟨rfl, hu, hn, rfl, hr⟩
  · simp [Proto.bit]
  · have h1 : ¬ ([0x24, b2] = ([0xb5, 0x62] : Bytes)) := by
      intro hc; injection hc with a _; exact absurd a (by decide)
    simp only [h1, if_false]
    have : ([0x24, b2] : Bytes).length = 2 ∧ ([0x24, b2] : Bytes).getD 0 0 = 0x24 ∧ hdr2.contains (([0x24, b2] : Bytes).getD 1 0) = true := by
      simpa using hn
    rw [if_pos this]; rfl
  · have h1 : ¬ ([0xd3, b2] = ([0xb5, 0x62] : Bytes)) := by
      intro hc; injection hc with a _; exact absurd a (by decide)
    simp only [h1, if_false]
    have : ¬ (([0xd3, b2] : Bytes).length = 2 ∧ ([0xd3, b2] : Bytes).getD 0 0 = 0x24 ∧ hdr2.contains (([0xd3, b2] : Bytes).getD 1 0) = true) := by
      intro hc
      have h2 := hc.2.1
      simp at h2
    rw [if_neg this]
    simp [hr, Proto.bit]

end Ubx
