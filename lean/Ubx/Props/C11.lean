import Ubx.Proofs.Frames
import Ubx.Proofs.Consume
/-!
# C11 — protfilter and parsing flags only filter; they never change what is framed
-/
namespace Ubx
variable {α σ : Type}

theorem all_bits (p : Proto) : 7 &&& p.bit ≠ 0 := by cases p <;> decide

theorem deliver_filter (F : Nat) (parsing : Bool) (O : Oracle α) (fr : Proto × Bytes) :
    deliver ⟨F, parsing⟩ O fr =
      (deliver ⟨7, parsing⟩ O fr).bind (fun x => if F &&& x.1.bit ≠ 0 then some x else none) := by
  unfold deliver
  simp only [all_bits, ne_eq, not_false_eq_true, if_true]
  by_cases hf : F &&& fr.1.bit ≠ 0
  · rw [if_pos hf]
    cases parsing
    · simp [hf]
    · simp only [if_true]
      cases O fr.1 fr.2 <;> simp [hf]
  · rw [if_neg hf]
    cases parsing
    · simp [hf]
    · simp only [if_true]
      cases O fr.1 fr.2 <;> simp [hf]

/-- the items with mask `F` are exactly those with all protocols enabled whose protocol is in `F`, same order -/
theorem C11_filter_only_filters (S : Src σ) (nmeaHdr : Byte → Bool) (O : Oracle α) (hO : NoCrash O)
    (F : Nat) (parsing : Bool) (f : Nat) (st : Option σ) :
    items (run S nmeaHdr ⟨F, parsing⟩ O f st)
      = (items (run S nmeaHdr ⟨7, parsing⟩ O f st)).filter (fun x => F &&& x.1.bit ≠ 0) := by
  rw [run_items_eq_frames S nmeaHdr _ O hO, run_items_eq_frames S nmeaHdr _ O hO]
  rw [List.filter_filterMap]
  congr 1
  funext fr
  rw [deliver_filter F parsing O fr]
  cases deliver ⟨7, parsing⟩ O fr with
  | none => rfl
  | some x => by_cases h : F &&& x.1.bit ≠ 0 <;> simp [Option.filter, h]

/-- what is framed does not depend on the filter, the parsing flag or the parsers at all -/
theorem C11_framing_independent (S : Src σ) (nmeaHdr : Byte → Bool) (cfg cfg' : RCfg) (O O' : Oracle α) (s : σ) :
    (step S nmeaHdr cfg O s).2 = (step S nmeaHdr cfg' O' s).2 := by
  rw [step_eq, step_eq]; cases delimit S nmeaHdr s <;> rfl

/-- with `parsing=False` every parsed value is `None` … -/
theorem C11_parsing_false_none (S : Src σ) (nmeaHdr : Byte → Bool) (O : Oracle α) (hO : NoCrash O)
    (F : Nat) (f : Nat) (st : Option σ) :
    ∀ x ∈ items (run S nmeaHdr ⟨F, false⟩ O f st), x.2.2 = none := by
  rw [run_items_eq_frames S nmeaHdr _ O hO]
  intro x hx
  obtain ⟨fr, _, h⟩ := List.mem_filterMap.mp hx
  unfold deliver at h
  split at h
  · simp at h; rw [← h]
  · cases h

/-- … and over a stream whose delimited frames the parsers accept, the raw sequence is the same as with parsing on -/
theorem C11_parsing_false_same_raws (S : Src σ) (nmeaHdr : Byte → Bool) (O : Oracle α) (hO : NoCrash O)
    (F : Nat) (f : Nat) (st : Option σ)
    (hacc : ∀ fr ∈ frames S nmeaHdr f st, ∃ m, O fr.1 fr.2 = .ok m) :
    (items (run S nmeaHdr ⟨F, false⟩ O f st)).map (fun x => (x.1, x.2.1))
      = (items (run S nmeaHdr ⟨F, true⟩ O f st)).map (fun x => (x.1, x.2.1)) := by
  rw [run_items_eq_frames S nmeaHdr _ O hO, run_items_eq_frames S nmeaHdr _ O hO]
  generalize frames S nmeaHdr f st = frs at hacc
  induction frs with
  | nil => rfl
  | cons fr rest ih =>
    obtain ⟨m, hm⟩ := hacc fr (List.mem_cons_self ..)
    have ih' := ih (fun x hx => hacc x (List.mem_cons_of_mem _ hx))
    simp only [List.filterMap_cons, deliver, hm]
    by_cases hf : F &&& fr.1.bit ≠ 0
    · simp [hf, ih']
    · simp [hf, ih']

/-- in general (parsers may reject) the frames delivered with parsing on are a sub-sequence of those delivered with parsing off -/
theorem C11_parsing_true_sublist (S : Src σ) (nmeaHdr : Byte → Bool) (O : Oracle α) (hO : NoCrash O)
    (F : Nat) (f : Nat) (st : Option σ) :
    ((items (run S nmeaHdr ⟨F, true⟩ O f st)).map (fun x => (x.1, x.2.1))).Sublist
      ((items (run S nmeaHdr ⟨F, false⟩ O f st)).map (fun x => (x.1, x.2.1))) := by
  rw [run_items_eq_frames S nmeaHdr _ O hO, run_items_eq_frames S nmeaHdr _ O hO]
  induction frames S nmeaHdr f st with
  | nil => simp
  | cons fr rest ih =>
    simp only [List.filterMap_cons, deliver]
    by_cases hf : F &&& fr.1.bit ≠ 0
    · simp only [hf, ne_eq, not_false_eq_true, if_true]
      cases O fr.1 fr.2 with
      | ok m => simp; exact ih
      | rejected c => simp; exact List.Sublist.cons _ ih
      | crash c => simp; exact List.Sublist.cons _ ih
    · simp [hf]; exact ih

end Ubx
