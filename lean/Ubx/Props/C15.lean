import Ubx.Proofs.Codec
import Ubx.Proofs.ParseTotal
import Ubx.Proofs.GenLen
import Ubx.Generated.Tables
/-!
# C15 — bad attribute values are refused, never silently mis-encoded
-/
namespace Ubx

/-- integer fields (U/E/L): whatever int is supplied, either it is refused or the bytes produced have exactly the
    field's width and decode to the value supplied -/
theorem C15_unsigned_sound (att : List (Nat × List Kind)) (l n : Nat) (v : Int) (bs : Bytes)
    (hl : l = cU ∨ l = cE ∨ l = cL) (hatt : ∃ ks, lookup l att = some ks ∧ ks.contains Kind.int = true)
    (h : val2bytes att (.int v) (.t l n) = .ok bs) :
    bs.length = n ∧ bytes2val bs (.t l n) = .ok (.int v) := by
  by_cases hr : v < 0 ∨ ((256 ^ n : Nat) : Int) ≤ v
  · rw [uint_refuses att l n v hl hatt hr] at h; cases h
  · obtain ⟨k, hk⟩ : ∃ k : Nat, v = (k : Int) := ⟨v.toNat, by omega⟩
    subst hk
    have hlt : k < 256 ^ n := by omega
    obtain ⟨h1, h2⟩ := uint_roundtrip att l n k hl hatt hlt
    rw [h1] at h; cases h
    exact ⟨toLE_length n k, h2⟩

/-- signed fields -/
theorem C15_signed_sound (att : List (Nat × List Kind)) (n : Nat) (v : Int) (bs : Bytes) (hn : 0 < n)
    (hatt : ∃ ks, lookup cI att = some ks ∧ ks.contains Kind.int = true)
    (h : val2bytes att (.int v) (.t cI n) = .ok bs) :
    bs.length = n ∧ bytes2val bs (.t cI n) = .ok (.int v) := by
  by_cases hr : v < -((2 ^ (8 * n - 1) : Nat) : Int) ∨ ((2 ^ (8 * n - 1) : Nat) : Int) ≤ v
  · rw [sint_refuses att n v hn hatt hr] at h; cases h
  · obtain ⟨bs', h1, h2, h3⟩ := sint_roundtrip att n v hn hatt (by omega) (by omega)
    rw [h1] at h; cases h
    exact ⟨h2, h3⟩

/-- a value of a Python type the field's letter does not permit is refused with TypeError (→ UBXTypeError) -/
theorem C15_wrong_type_refused (att : List (Nat × List Kind)) (ty : Ty) (v : PyVal) (ks : List Kind)
    (hk : lookup (atttyp ty) att = some ks) (hv : ∀ k, v.kind? = some k → ks.contains k = false) :
    val2bytes att v ty = .error .typeE := by
  unfold val2bytes
  simp only [hk]
  cases hkv : v.kind? with
  | none => rfl
  | some k =>
    have := hv k hkv
    simp only [this, Bool.not_false, if_true]

/-- a bit flag value that does not fit the flag's width is refused (fix 7d1e5ea): it can never alter a neighbouring flag -/
theorem C15_flag_overflow_refused (c : WCtx) (idx : List Nat) (key : Name) (l w : Nat) (rest : List (Name × Ty))
    (off bitfield : Nat) (env : Env) (i : Int) (hkw : kwLookup c.kwargs ⟨key, idx⟩ = some (.int i))
    (hbad : i < 0 ∨ ((2 ^ w : Nat) : Int) ≤ i) :
    flagsGen c idx ((key, .t l w) :: rest) off bitfield env = .error .overflowE := by
  have hw : ¬ ((w : Int) < 0) := by omega
  simp only [flagsGen, flagWidth, attsiz, hw, if_false, Int.toNat_natCast, hkw, Option.getD_some, PyVal.asInt?]
  rw [if_pos (by omega)]

/-- an in-range flag value lands in its own bit positions only: the bitfield gains exactly `i << off` -/
theorem C15_flag_in_range (c : WCtx) (idx : List Nat) (key : Name) (l w : Nat) (rest : List (Name × Ty))
    (off bitfield : Nat) (env : Env) (i : Nat) (hkw : kwLookup c.kwargs ⟨key, idx⟩ = some (.int i))
    (hok : i < 2 ^ w) (hres : isReservedName key = true) :
    flagsGen c idx ((key, .t l w) :: rest) off bitfield env
      = flagsGen c idx rest (off + w) (bitfield ||| (i <<< off)) env := by
  have hw : ¬ ((w : Int) < 0) := by omega
  simp only [flagsGen, flagWidth, attsiz, hw, if_false, Int.toNat_natCast, hkw, Option.getD_some, PyVal.asInt?]
  rw [if_neg (by omega)]
  simp [hres]

/-- **payload length**: building from keywords a definition whose attributes all have width-exact types (everything
    except `C`/`CH` text), whatever values are supplied, either fails or ends with the payload exactly as long as the
    offset the walk reached — the sum of the declared widths of every attribute, bitfield and group member walked.
    A value of the wrong size can therefore never shift a later field. -/
theorem C15_payload_length_is_declared (c : WCtx) (hp : c.hasPayload = false) (hcv : c.cfgval = false) (d : List Item)
    (hx : lenExactL d = true) (env : Env) (st' : WState) (h : wItems c [] d ⟨0, [], env⟩ = .ok st') :
    st'.payload.length = st'.off :=
  (wItems_gen_len c hp hcv [] d hx ⟨0, [], env⟩ st' h rfl).symm

mutual
def hasText : Item → Bool
  | .attr _ ty _ => (match ty with | .ch => true | .t l _ => l == cC | .malformed _ => false)
  | .bits _ _ _ => false
  | .group _ _ items => hasTextL items
def hasTextL : List Item → Bool
  | [] => false
  | i :: is => hasText i || hasTextL is
end

/-- table obligation: in the shipped tables the only attributes that are not width-exact are `C`/`CH` text fields
    (the recorded finding) and the invalid types of the FOO-BAR fixture -/
theorem C15_only_text_is_inexact :
    ((allDefs Gen.ctx).all (fun e => lenExactL e.2.2 || hasTextL e.2.2 ||
      Gen.exempt.any (fun x => x.1 == e.1 && x.2.1 == e.2.1 && x.2.2 == nm "W1"))) = true := by
  decide +kernel

/-- exceptions escaping the attribute walk are translated: everything in `_do_attributes`' catch lists becomes
    UBXTypeError (table obligation: the six exception types the walk can raise are all listed) -/
theorem C15_translation_covers :
    ([Exc.attributeE, .indexE, .structE, .typeE, .valueE, .overflowE].all
      (fun e => translateExc Gen.ctx e == .ubxType)) = true := by decide +kernel

/-- non-vacuity / regression for fix eff6ead, 33b75ac: wrong-length X and A values are refused -/
example : val2bytes Gen.ctx.atttype (.bytes [1, 2]) (.t cX 1) = .error .valueE := by decide +kernel
example : val2bytes Gen.ctx.atttype (.ints [some 1, some 2, some 3]) (.t cA 2) = .error .valueE := by decide +kernel

end Ubx
