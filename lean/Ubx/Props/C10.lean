import Ubx.Proofs.Consume
/-!
# C10 — reader output does not depend on how the transport chunks the bytes
-/
namespace Ubx
variable {α : Type}

theorem sockInit_all (chunks : List Bytes) : (sockInit chunks).all = chunks.flatten := by
  cases chunks <;> simp [sockInit, Sock.all]

/-- reading through a socket = reading the concatenation from a file, for every segmentation
    into `recv()` chunks, every parser, filter and parsing flag. The end condition (peer closes /
    receive times out) is the exhaustion of the chunk list: both make `_recv` return False. -/
theorem C10_sock_eq_file (nmeaHdr : Byte → Bool) (cfg : RCfg) (O : Oracle α) (chunks : List Bytes) :
    items (readSock nmeaHdr cfg O chunks) = items (readFile nmeaHdr cfg O chunks.flatten) := by
  unfold readSock readFile
  have h1 := run_trunc_prefix fileSrc sockSrc (fun s st => st.all = s) file_sock nmeaHdr cfg O
    (chunks.flatten.length + 2) chunks.flatten (sockInit chunks) (sockInit_all chunks)
  have h2 := run_trunc_prefix sockSrc fileSrc (fun st s => st.all = s) sock_file nmeaHdr cfg O
    (chunks.flatten.length + 2) (sockInit chunks) chunks.flatten (sockInit_all chunks)
  exact List.IsPrefix.eq_of_length_le h1 h2.length_le

/-- `read(n)` returns exactly `n` bytes or nothing -/
theorem C10_read_all_or_nothing (n : Nat) (st : Sock) :
    sockRead n st = .eof ∨ ∃ d st', sockRead n st = .ok d st' ∧ d.length = n := sockRead_len n st

/-- … and what it returns is the next `n` bytes of what will ever arrive, the rest staying available -/
theorem C10_read_is_next_bytes (n : Nat) (st : Sock) (d : Bytes) (st' : Sock) (h : sockRead n st = .ok d st') :
    st.all = d ++ st'.all := (sock_linear.read n st d st' h).1

/-- `readline()` returns the bytes up to and including the next LF -/
theorem C10_readline (st : Sock) (h : hasLF st.all = true) :
    ∃ st', sockLine st = .ok (st.all.take (lineLen st.all)) st' ∧ st'.all = st.all.drop (lineLen st.all) :=
  sockLine_spec st h

theorem lineLen_spec (s : Bytes) (h : hasLF s = true) :
    (s.take (lineLen s)).getLast? = some 0x0a ∧ ∀ b ∈ (s.take (lineLen s)).dropLast, b ≠ 0x0a := by
  induction s with
  | nil => simp [hasLF] at h
  | cons b bs ih =>
    simp only [lineLen]
    by_cases hb : b = 0x0a
    · simp [hb]
    · simp only [hb, if_false]
      simp only [hasLF, hb, decide_false, Bool.false_or] at h
      obtain ⟨i1, i2⟩ := ih h
      have e : 1 + lineLen bs = lineLen bs + 1 := by omega
      rw [e, List.take_succ_cons]
      have hne : List.take (lineLen bs) bs ≠ [] := by
        intro hc; rw [hc] at i1; simp at i1
      constructor
      · rw [List.getLast?_cons_of_ne_nil hne]; exact i1
      · rw [List.dropLast_cons_of_ne_nil hne]
        intro x hx
        rcases List.mem_cons.mp hx with rfl | hx
        · exact hb
        · exact i2 x hx

/-- non-vacuity: three chunks splitting a UBX frame -/
example : items (readSock (α := Unit) (fun _ => false) ⟨7, false⟩ (fun _ _ => .rejected 0)
      [[0xb5], [0x62, 0x06, 0x01, 0x00], [0x00, 0x07, 0x1b]])
    = [(.ubx, [0xb5, 0x62, 0x06, 0x01, 0x00, 0x00, 0x07, 0x1b], none)] := by decide

end Ubx
