import Ubx.Props.C16
/-!
# C16, "a nominal instance of every declared (message, mode) can be built and parsed"

Kernel evaluation of the attribute walk (build with no keyword, parse the result back) for every definition of the
three tables under every class/id that resolves to it. Split into four slices of the table list so that the kernel's
working set stays small; `C16_nominal_instances` reassembles them for the whole list, whatever its length.
-/
namespace Ubx

theorem all_take_drop {α : Type} (l : List α) (p : α → Bool) (n : Nat) :
    l.all p = ((l.take n).all p && (l.drop n).all p) := by
  rw [← List.all_append, List.take_append_drop]

set_option maxRecDepth 100000 in
theorem nominal_slice0 : ((allDefs Gen.ctx).take 128).all (nominalEntryOK Gen.ctx Gen.exempt) = true := by
  decide +kernel
set_option maxRecDepth 100000 in
theorem nominal_slice1 : (((allDefs Gen.ctx).drop 128).take 128).all (nominalEntryOK Gen.ctx Gen.exempt) = true := by
  decide +kernel
set_option maxRecDepth 100000 in
theorem nominal_slice2 : (((allDefs Gen.ctx).drop 256).take 128).all (nominalEntryOK Gen.ctx Gen.exempt) = true := by
  decide +kernel
set_option maxRecDepth 100000 in
theorem nominal_slice3 : ((allDefs Gen.ctx).drop 384).all (nominalEntryOK Gen.ctx Gen.exempt) = true := by
  decide +kernel

/-- **"a nominal instance of every declared (message, mode) can be built and parsed"**: for every definition of the three
    tables and every class/id that resolves to it, the walk with no keyword supplied succeeds and the payload it builds
    parses back completely under the same names — except the definitions recorded as findings (the `length`
    collisions, the FOO-BAR fixture) and those with a fixed repeat count above 64 (see `heavyItem`) -/
theorem C16_nominal_instances : (allDefs Gen.ctx).all (nominalEntryOK Gen.ctx Gen.exempt) = true := by
  rw [all_take_drop _ _ 128, nominal_slice0, Bool.true_and,
      all_take_drop ((allDefs Gen.ctx).drop 128) _ 128, nominal_slice1, Bool.true_and, List.drop_drop,
      all_take_drop ((allDefs Gen.ctx).drop (128 + 128)) _ 128, nominal_slice2, Bool.true_and, List.drop_drop]
  exact nominal_slice3

/-- the kernel does evaluate something: ACK-ACK's nominal instance is two zero bytes and parses back as clsID, msgID -/
example : nominalOK Gen.ctx .get [.attr N.aClsID (.t cU 1) .one, .attr N.aMsgID (.t cU 1) .one] [5, 1] = true := by
  decide +kernel
/-- and it can fail: a field named `length` cannot be set (CFG-FIXSEED, CFG-TP: recorded findings) -/
example : nominalOK Gen.ctx .get [.attr 0x6c656e677468 (.t cU 1) .one] [5, 1] = false := by decide +kernel

end Ubx

