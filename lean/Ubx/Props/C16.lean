import Ubx.Model.WF
import Ubx.Generated.Tables
import Ubx.Proofs.NamesNodup
/-!
# C16 — every declared message type is usable and its fields have distinct names

Table obligations, evaluated by the kernel over the tables as they are in the working tree.
`Gen.exempt` is generated from KNOWN_FINDINGS.txt (`key=def=<MODE>:<name>;rule=<rule>`): a definition is
excused only for the rule recorded there, so a new defect in the same definition still breaks the theorem.
-/
namespace Ubx

def ruleName : Nat → Name
  | 1 => nm "W1" | 3 => nm "W3" | 4 => nm "W4" | 5 => nm "W5" | 6 => nm "W6" | 8 => nm "W8" | 9 => nm "W9"
  | _ => nm "W?"

def excused (ex : List (Mode × Name × Name)) (mode : Mode) (name : Name) (rule : Name) : Bool :=
  ex.any (fun e => e.1 == mode && e.2.1 == name && e.2.2 == rule)

/-- every definition of the GET, SET and POLL tables obeys the grammar in the flag view (rules W1–W9),
    except for the (definition, rule) pairs recorded as known findings -/
theorem C16_all_wf_flags :
    ((allDefs Gen.ctx).all (fun e =>
      (brokenRules Gen.ctx true e.2.2).all (fun r => excused Gen.exempt e.1 e.2.1 (ruleName r)))) = true := by
  decide +kernel

/-- in the raw-bitfield view (parsebitfield=0) the same holds except that a count taken from a bit flag
    (rule W3) is not available — recorded under C02 for SEC-OSNMA (GET) and ESF-MEAS (SET) -/
theorem C16_all_wf_raw :
    ((allDefs Gen.ctx).all (fun e =>
      (brokenRules Gen.ctx false e.2.2).all (fun r =>
        excused Gen.exempt e.1 e.2.1 (ruleName r) ||
        (r == 3 && (brokenRules Gen.ctx true e.2.2).all (fun r' => r' != 3) &&
          ((e.1 == .get && e.2.1 == nm "SEC-OSNMA") || (e.1 == .set && e.2.1 == nm "ESF-MEAS")))))) = true := by
  decide +kernel

/-- every definition can be reached from some class/id of UBX_MSGIDS (directly or through its variant
    selector), except those recorded as unreachable -/
theorem C16_all_reachable :
    ((allDefs Gen.ctx).all (fun e =>
      !(idsOf Gen.ctx e.1 e.2.1).isEmpty || excused Gen.exempt e.1 e.2.1 (nm "unreachable"))) = true := by
  decide +kernel

/-- every definition a variant selector can return exists in the table it is taken from -/
theorem C16_variant_targets_exist :
    (Gen.ctx.variants.all (fun v => (selectorTargets v.2.2).all (fun t =>
      (lookup t.2 (tableOf Gen.ctx t.1)).isSome))) = true := by
  decide +kernel

/-- every selector named in VARIANTS is one the model knows -/
theorem C16_selectors_known :
    (Gen.ctx.variants.all (fun v => match v.2.2 with | .unknown _ => false | _ => true)) = true := by
  decide +kernel

/-- definition names are distinct within each table; message names map to distinct ids apart from the MGA
    three-byte keys (checked per table with the merge-sort test) -/
theorem C16_table_names_distinct :
    (distinctNames (Gen.ctx.get.map (·.1)) && distinctNames (Gen.ctx.set.map (·.1)) && distinctNames (Gen.ctx.poll.map (·.1))) = true := by
  decide +kernel

/-- consequence of W5 used by C02: the exposed names of a well-formed definition are pairwise distinct -/
theorem wf_names_distinct (ctx : Ctx) (bf : Bool) (d : Defn) (h : wfDefn ctx bf d = true) :
    distinctNames (if bf then namesOfL d else namesOf0L d) = true := by
  unfold wfDefn brokenRules at h
  cases hc : distinctNames (if bf then namesOfL d else namesOf0L d) with
  | true => rfl
  | false =>
    rw [hc] at h
    simp at h

theorem distinctNames_nodup (l : List Name) (h : distinctNames l = true) : l.Nodup := by
  induction l with
  | nil => exact List.nodup_nil
  | cons x xs ih =>
    simp only [distinctNames, Bool.and_eq_true, Bool.not_eq_true'] at h
    refine List.nodup_cons.mpr ⟨?_, ih h.2⟩
    intro hm
    have : xs.contains x = true := by simpa using hm
    rw [this] at h; cases h.1

/-- non-vacuity: a definition with a counted group and a bitfield that satisfies every rule -/
example : wfDefn Gen.ctx true
    [.attr (nm "version") (.t cU 1) .one, .attr (nm "numCh") (.t cU 1) .one,
     .bits (nm "flags") (.t cX 1) [(nm "a", .t cU 1), (nm "reserved0", .t cU 7)],
     .group (nm "group") (.named (nm "numCh")) [.attr (nm "x") (.t cI 4) (.flt 0x3F847AE147AE147B)]] = true := by
  decide +kernel

theorem rule5_of_names (ctx : Ctx) (bf : Bool) (d : Defn) (h : distinctNames (if bf then namesOfL d else namesOf0L d) = false) :
    5 ∈ brokenRules ctx bf d := by
  unfold brokenRules
  simp [h]

/-- **no two payload fields are exposed under one attribute name**: for every shipped definition that is not recorded as a
    W5 finding (SET CFG-NVS) and has no `_HP` part, and for every value tree, repeat count and nesting, the rendered
    names of the prescribed assignments are pairwise distinct (flag view) -/
theorem C16_no_two_fields_one_name (e : Mode × Name × Defn) (he : e ∈ allDefs Gen.ctx)
    (hx : excused Gen.exempt e.1 e.2.1 (ruleName 5) = false) (hn : noHPL e.2.2 = true)
    (vts : List VT) (l : List (AName × PyVal)) (h : assignsItems true [] e.2.2 vts = .ok l) :
    (l.map (fun x => x.1)).Nodup := by
  have hall := List.all_eq_true.mp C16_all_wf_flags e he
  have hd : distinctNames (namesOfL e.2.2) = true := by
    cases hc : distinctNames (namesOfL e.2.2) with
    | true => rfl
    | false =>
      have h5 := rule5_of_names Gen.ctx true e.2.2 (by simpa using hc)
      have := List.all_eq_true.mp hall 5 h5
      rw [hx] at this; cases this
  exact wf_assign_names_nodup true e.2.2 vts l hn (by simpa [namesVL] using hd) h

end Ubx

namespace Ubx

/-- the nominal instance of definition `d` (table `mode`) under class/id `k`, at the level of the attribute walk:
    built with no keyword supplied (every attribute nominal, every counted group empty), then its payload parsed back
    with the same definition — both succeed, the parse consumes the whole payload and exposes the same names.
    The two key/value messages (CFG-VALGET GET, CFG-VALSET SET) are not built from keywords; their nominal instance is
    the header with an empty key list. -/
def nominalOK (ctx : Ctx) (mode : Mode) (d : Defn) (k : Bytes) : Bool :=
  let cls := k.take 1
  let id := k.drop 1
  let cg := walkCtx ctx cls id mode true (.attrs [])
  if cg.cfgval then
    match wItems (walkCtx ctx cls id mode true (.payload [0, 0, 0, 0])) [] d ⟨0, [0, 0, 0, 0], []⟩ with
    | .ok st => st.off == 4
    | .error _ => false
  else
    match wItems cg [] d ⟨0, [], []⟩ with
    | .error _ => false
    | .ok st =>
      match wItems (walkCtx ctx cls id mode true (.payload st.payload)) [] d ⟨0, st.payload, []⟩ with
      | .error _ => false
      | .ok st' => st'.off == st.payload.length && st'.env.map (·.1) == st.env.map (·.1)

/-- a fixed repeat count above 64 somewhere in the definition (RXM-PMP-V0's 504 user-data bytes): the model's
    environment is an association list, which makes kernel evaluation of such an instance quadratic (minutes, gigabytes);
    these definitions' nominal instances are evaluated natively by the correspondence check instead -/
def heavyItem : Item → Bool
  | .group _ (.fixed n) _ => n > 64
  | _ => false

/-- the per-definition obligation of `C16_nominal_instances` -/
def nominalEntryOK (ctx : Ctx) (ex : List (Mode × Name × Name)) (e : Mode × Name × Defn) : Bool :=
  excused ex e.1 e.2.1 0x6e6f6d696e616c2d696e7374616e6365 ||   -- "nominal-instance"
  e.2.2.any heavyItem ||
  (idsOf ctx e.1 e.2.1).all (fun k => nominalOK ctx e.1 e.2.2 k)

end Ubx
